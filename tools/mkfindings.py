#!/usr/bin/env python3
"""Maintenance script (never run by a check): merges known_findings.d/*.json into known_findings.json and rewrites the
commit of every `fixed` entry to the corresponding commit on /repo main (the builders' commits were cherry-picked with -x)."""
import glob, json, os, re, subprocess
root = os.path.dirname(os.path.dirname(os.path.abspath(__file__)))
log = subprocess.run(["git", "-C", "/repo", "log", "--format=%H%x00%s%x00%b%x01", "main"], stdout=subprocess.PIPE, text=True).stdout
commits = []
for rec in log.split("\x01"):
    rec = rec.strip("\n")
    if not rec:
        continue
    h, s, b = (rec.split("\x00") + ["", ""])[:3]
    orig = re.findall(r"cherry picked from commit ([0-9a-f]{40})", b)
    commits.append((h, s, orig))
def resolve(c):
    c = str(c)
    for h, s, orig in commits:
        if h.startswith(c) or any(o.startswith(c) for o in orig):
            return h, s
    return None, None
entries, seen = [], set()
for f in sorted(glob.glob(os.path.join(root, "known_findings.d", "*.json"))):
    for e in json.load(open(f)).get("entries", []):
        e = dict(e)
        e["family"] = os.path.basename(f)[:-5]
        if e.get("kind") == "fixed":
            h, s = resolve(e.get("commit", ""))
            if h:
                e["commit"], e["commit_subject"] = h, s
            else:
                e["commit_note"] = "commit not found on /repo main"
        key = json.dumps({k: e.get(k) for k in ("kind", "property", "site", "class", "commit", "what")}, sort_keys=True)
        if key in seen:
            continue
        seen.add(key)
        entries.append(e)
json.dump({"entries": entries}, open(os.path.join(root, "known_findings.json"), "w"), indent=1)
print(len(entries), "entries;", sum(1 for e in entries if e["kind"] == "fixed"), "fixed;", sum(1 for e in entries if e["kind"] == "finding"), "findings;",
      [e.get("commit") for e in entries if e.get("commit_note")])
