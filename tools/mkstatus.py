#!/usr/bin/env python3
"""Maintenance script: prints the per-property status table (markdown) from props/Cnn.py, coq/Props and evidence/."""
import importlib, json, os, re, sys
root = os.path.dirname(os.path.dirname(os.path.abspath(__file__)))
sys.path.insert(0, root)
ids = [json.loads(l)["id"] for l in open(os.path.join(root, "properties.jsonl")) if l.strip()]
titles = {json.loads(l)["id"]: json.loads(l)["title"] for l in open(os.path.join(root, "properties.jsonl")) if l.strip()}
print("| id | title | theorems (Props) | obligations | observers (quick cases) | known findings | quick wall |")
print("|----|-------|------------------|-------------|-------------------------|----------------|------------|")
for i in ids:
    m = importlib.import_module("props." + i)
    spec = getattr(m, "SPEC", {})
    ev = {}
    p = os.path.join(root, "evidence", i + ".json")
    if os.path.exists(p):
        ev = json.load(open(p))
    cov = ev.get("coverage", {})
    pf = spec.get("props_file", "")
    names = []
    files = [pf] + list(getattr(m, "EXTRA_PROPS", []))
    for f in files:
        fp = os.path.join(root, "coq", f)
        if f and os.path.exists(fp):
            names += re.findall(r"^\s*Theorem\s+(\w+)", open(fp).read(), re.M)
    part = [n for n in names if n.endswith("_partial")]
    ref = [n for n in names if "refuted" in n]
    obs = ", ".join(sorted(set(o["cmd"] for o in list(spec.get("observers", [])) + list(getattr(m, "EXTRA_OBSERVERS", [])))))
    print("| %s | %s | %d (%d partial, %d refutation records) | %s/%s | %s (%s) | %d | %ss |" % (
        i, titles[i], len(names), len(part), len(ref), cov.get("discharged", "?"), cov.get("obligations", "?"), obs,
        cov.get("evaluations", "?"), len(ev.get("known_findings", [])), ev.get("wall_s", "?")))
