module verifharness

go 1.25.0

require github.com/redis/rueidis v1.0.76

require golang.org/x/sys v0.43.0 // indirect

replace github.com/redis/rueidis => /repo
