// Package fakesentinel simulates a Sentinel deployment on top of fakeredis: data nodes whose role
// (ROLE reply) can flip, scripted reactions per request (LOADING, REDIRECT, dropped connections,
// latency), sentinels that answer SENTINEL get-master-addr-by-name / sentinels / replicas from a
// programmable view and publish +switch-master & co. over pub/sub, and a global arrival log that
// records which node — in which role at that moment — received each user command.
// It also serves as the scripted stand-alone node for the single / standalone client kinds.
// Our reading of the Sentinel protocol; trusted for the tie only.
package fakesentinel

import (
	"context"
	"crypto/tls"
	"errors"
	"net"
	"strconv"
	"strings"
	"sync"
	"sync/atomic"
	"time"

	fr "verifharness/fakeredis"
)

// Step is one scripted reaction to the n-th arrival of a request on any data node.
type Step struct {
	Kind  string        // "" | LOADING | ERR | REDIRECT | CLOSEBEFORE | CLOSEAFTER | MIDREPLY | DROP
	Addr  string        // REDIRECT target
	Delay time.Duration // before execution
	Then  func()        // run without locks before the reaction (role flips, kills …)
}

// Arrival is one user command as it reached a data node.
type Arrival struct {
	Seq      int64
	Node     string
	Role     string // role the node reported (ROLE) at that moment
	Conn     int
	Argv     []string
	ReadOnly bool
	Step     string
	Done     bool
	Reply    fr.V
	Executed bool
}

type Node struct {
	Addr     string
	S        *fr.Server
	Down     bool
	RoleV    *fr.V // overrides the ROLE reply when set (malformed answers)
	conns    sync.Map
	Redirect string // when set and the node is a replica: answer data commands with -REDIRECT <addr>
}

type Sentinel struct {
	Addr string
	S    *fr.Server
	Down bool
	// view; nil entries fall back to the deployment's truth
	Master   func() *fr.V // reply to get-master-addr-by-name
	Replicas func() *fr.V
	Others   func() *fr.V
}

type Deploy struct {
	mu         sync.Mutex
	Name       string // master set name
	Nodes      map[string]*Node
	Sentinels  map[string]*Sentinel
	Order      []string
	SOrder     []string
	MasterAddr string
	SDown      map[string]bool // replicas reported with s-down-time
	Script     map[string][]Step
	Arrived    map[string]int
	seq        atomic.Int64
	arr        []*Arrival
	RoleAsked  []RoleRec // ROLE requests served
	Dials      []string
}

type RoleRec struct {
	Seq    int64
	Node   string
	Role   string // the node's role at that moment
	Answer string // what the reply said: its first element, "-error", or "?" (malformed override)
	Conn   int
}

func New(name string) *Deploy {
	return &Deploy{Name: name, Nodes: map[string]*Node{}, Sentinels: map[string]*Sentinel{}, SDown: map[string]bool{},
		Script: map[string][]Step{}, Arrived: map[string]int{}}
}

var userCmd = map[string]bool{"GET": true, "SET": true, "INCR": true, "DEL": true, "MGET": true, "MSET": true, "MULTI": true, "EXEC": true,
	"APPEND": true, "HGET": true, "HSET": true, "EXISTS": true, "STRLEN": true, "TTL": true}

func (d *Deploy) AddNode(addr, role string) *Node {
	s := fr.New()
	s.Addr = addr
	s.Role = role
	n := &Node{Addr: addr, S: s}
	d.mu.Lock()
	d.Nodes[addr] = n
	d.Order = append(d.Order, addr)
	if role == "master" && d.MasterAddr == "" {
		d.MasterAddr = addr
	}
	d.mu.Unlock()
	s.Handle("ROLE", func(c *fr.Conn, a []string) fr.V {
		answer := s.Role
		if answer != "master" {
			answer = "slave"
		}
		if v := n.RoleV; v != nil {
			switch {
			case v.T == '-':
				answer = "-error"
			case (v.T == '*' || v.T == '~') && len(v.A) > 0 && (v.A[0].T == '$' || v.A[0].T == '+'):
				answer = v.A[0].S
			default:
				answer = "?"
			}
		}
		d.mu.Lock()
		d.RoleAsked = append(d.RoleAsked, RoleRec{Seq: d.seq.Add(1), Node: addr, Role: s.Role, Answer: answer, Conn: c.ID})
		master := d.MasterAddr
		d.mu.Unlock()
		if n.RoleV != nil {
			return *n.RoleV
		}
		if s.Role == "master" {
			return fr.Arr(fr.Bulk("master"), fr.Int(0), fr.Arr())
		}
		h, p := hostPort(master)
		return fr.Arr(fr.Bulk("slave"), fr.Bulk(h), fr.Int(p), fr.Bulk("connected"), fr.Int(0))
	})
	s.Fault = func(c *fr.Conn, cseq int, argv []string) fr.Action {
		name := strings.ToUpper(argv[0])
		n.conns.Store(c.ID, c)
		var act fr.Action
		if !userCmd[name] && !(len(argv) > 1 && (name == "PUBLISH" || name == "SUBSCRIBE" || (name == "ECHO" && strings.HasPrefix(argv[1], "u:")))) {
			c.Ext["fs.cur"] = (*Arrival)(nil)
			return act
		}
		s.Lock()
		role := s.Role
		s.Unlock()
		ar := &Arrival{Node: addr, Role: role, Conn: c.ID, Argv: argv, ReadOnly: c.ReadOnly}
		c.Ext["fs.cur"] = ar
		key := strings.Join(argv, " ")
		d.mu.Lock()
		ar.Seq = d.seq.Add(1)
		d.arr = append(d.arr, ar)
		var st *Step
		if steps := d.Script[key]; len(steps) > 0 {
			k := d.Arrived[key]
			d.Arrived[key] = k + 1
			if k < len(steps) {
				st = &steps[k]
				ar.Step = st.Kind
			}
		}
		redirect := n.Redirect
		d.mu.Unlock()
		if st != nil {
			if st.Then != nil {
				st.Then()
			}
			act.Delay = st.Delay
			switch st.Kind {
			case "LOADING":
				v := fr.Error("LOADING Redis is loading the dataset in memory")
				act.Override = &v
			case "ERR":
				v := fr.Error("ERR scripted failure")
				act.Override = &v
			case "REDIRECT":
				v := fr.Error("REDIRECT " + st.Addr)
				act.Override = &v
			case "CLOSEBEFORE":
				act.CloseBefore = true
			case "CLOSEAFTER":
				act.CloseAfter = true
			case "MIDREPLY":
				act.CloseMidReply = 1
			case "DROP":
				act.Drop = true
			}
		}
		if act.Override == nil && redirect != "" {
			s.Lock()
			isReplica := s.Role != "master"
			s.Unlock()
			if isReplica && !c.ReadOnly {
				v := fr.Error("REDIRECT " + redirect)
				act.Override = &v
			}
		}
		return act
	}
	s.OnExec = func(e fr.Entry) {
		v, ok := n.conns.Load(e.Conn)
		if !ok || e.InTx {
			return
		}
		c := v.(*fr.Conn)
		if ar, _ := c.Ext["fs.cur"].(*Arrival); ar != nil && !ar.Done && strings.Join(ar.Argv, " ") == strings.Join(e.Argv, " ") {
			d.mu.Lock()
			ar.Done, ar.Reply = true, e.Reply
			ar.Executed = !(e.Reply.T == '-' && (strings.HasPrefix(e.Reply.S, "LOADING") || strings.HasPrefix(e.Reply.S, "REDIRECT") || strings.HasPrefix(e.Reply.S, "ERR scripted"))) &&
				!(e.Reply.T == '+' && e.Reply.S == "QUEUED")
			d.mu.Unlock()
		}
	}
	return n
}

func (d *Deploy) AddSentinel(addr string) *Sentinel {
	s := fr.New()
	s.Addr = addr
	sn := &Sentinel{Addr: addr, S: s}
	d.mu.Lock()
	d.Sentinels[addr] = sn
	d.SOrder = append(d.SOrder, addr)
	d.mu.Unlock()
	s.Handle("SENTINEL GET-MASTER-ADDR-BY-NAME", func(c *fr.Conn, a []string) fr.V {
		if sn.Master != nil {
			if v := sn.Master(); v != nil {
				return *v
			}
		}
		d.mu.Lock()
		m := d.MasterAddr
		d.mu.Unlock()
		if m == "" {
			return fr.Nil()
		}
		h, p := hostPort(m)
		return fr.Arr(fr.Bulk(h), fr.Bulk(strconv.FormatInt(p, 10)))
	})
	s.Handle("SENTINEL SENTINELS", func(c *fr.Conn, a []string) fr.V {
		if sn.Others != nil {
			if v := sn.Others(); v != nil {
				return *v
			}
		}
		d.mu.Lock()
		defer d.mu.Unlock()
		var out []fr.V
		for _, o := range d.SOrder {
			if o != addr {
				h, p := hostPort(o)
				out = append(out, fr.Map(fr.Bulk("name"), fr.Bulk("s-"+o), fr.Bulk("ip"), fr.Bulk(h), fr.Bulk("port"), fr.Bulk(strconv.FormatInt(p, 10))))
			}
		}
		return fr.Arr(out...)
	})
	s.Handle("SENTINEL REPLICAS", func(c *fr.Conn, a []string) fr.V {
		if sn.Replicas != nil {
			if v := sn.Replicas(); v != nil {
				return *v
			}
		}
		d.mu.Lock()
		defer d.mu.Unlock()
		var out []fr.V
		for _, o := range d.Order {
			if o == d.MasterAddr {
				continue
			}
			h, p := hostPort(o)
			kv := []fr.V{fr.Bulk("name"), fr.Bulk(o), fr.Bulk("ip"), fr.Bulk(h), fr.Bulk("port"), fr.Bulk(strconv.FormatInt(p, 10)), fr.Bulk("flags"), fr.Bulk("slave")}
			if d.SDown[o] {
				kv = append(kv, fr.Bulk("s-down-time"), fr.Bulk("1234"))
			}
			out = append(out, fr.Map(kv...))
		}
		return fr.Arr(out...)
	})
	return sn
}

// Dial routes by address over data nodes and sentinels.
func (d *Deploy) Dial(ctx context.Context, dst string, dl *net.Dialer, t *tls.Config) (net.Conn, error) {
	d.mu.Lock()
	d.Dials = append(d.Dials, dst)
	n := d.Nodes[dst]
	sn := d.Sentinels[dst]
	d.mu.Unlock()
	switch {
	case n != nil && !n.Down:
		return n.S.Dial(ctx, dst, dl, t)
	case sn != nil && !sn.Down:
		return sn.S.Dial(ctx, dst, dl, t)
	}
	return nil, errors.New("fakesentinel: connection refused: " + dst)
}

// SetRole flips what a data node answers to ROLE (and reports in HELLO).
func (d *Deploy) SetRole(addr, role string) {
	d.mu.Lock()
	n := d.Nodes[addr]
	d.mu.Unlock()
	if n != nil {
		n.S.Lock()
		n.S.Role = role
		n.S.Unlock()
	}
}

// Failover makes `to` the master (role flips on both nodes, sentinels' truth changes); when announce
// is set every sentinel publishes +switch-master.
func (d *Deploy) Failover(to string, announce bool) {
	d.mu.Lock()
	old := d.MasterAddr
	d.MasterAddr = to
	d.mu.Unlock()
	if old != "" && old != to {
		d.SetRole(old, "slave")
	}
	d.SetRole(to, "master")
	if announce {
		oh, op := hostPort(old)
		nh, np := hostPort(to)
		d.Publish("+switch-master", d.Name+" "+oh+" "+strconv.FormatInt(op, 10)+" "+nh+" "+strconv.FormatInt(np, 10))
	}
}

// Publish sends an event on every sentinel.
func (d *Deploy) Publish(channel, msg string) {
	d.mu.Lock()
	var ss []*Sentinel
	for _, a := range d.SOrder {
		ss = append(ss, d.Sentinels[a])
	}
	d.mu.Unlock()
	for _, sn := range ss {
		sn.S.Lock()
		sn.S.Publish(channel, msg)
		sn.S.Unlock()
	}
}

func (d *Deploy) SetScript(argv []string, steps ...Step) {
	d.mu.Lock()
	d.Script[strings.Join(argv, " ")] = steps
	d.mu.Unlock()
}

func (d *Deploy) KillConns(addr string) {
	d.mu.Lock()
	n := d.Nodes[addr]
	sn := d.Sentinels[addr]
	d.mu.Unlock()
	if n != nil {
		for _, c := range n.S.Conns() {
			c.Kill()
		}
	}
	if sn != nil {
		for _, c := range sn.S.Conns() {
			c.Kill()
		}
	}
}

func (d *Deploy) SetDown(addr string, down bool) {
	d.mu.Lock()
	if n := d.Nodes[addr]; n != nil {
		n.Down = down
	}
	if sn := d.Sentinels[addr]; sn != nil {
		sn.Down = down
	}
	d.mu.Unlock()
}

// SetSDown marks a replica as subjectively down in the sentinels' SENTINEL REPLICAS answers.
func (d *Deploy) SetSDown(addr string, down bool) {
	d.mu.Lock()
	d.SDown[addr] = down
	d.mu.Unlock()
}

// SetRoleV overrides (nil: restores) the ROLE reply of a data node.
func (d *Deploy) SetRoleV(addr string, v *fr.V) {
	d.mu.Lock()
	n := d.Nodes[addr]
	d.mu.Unlock()
	if n != nil {
		n.S.Lock()
		n.RoleV = v
		n.S.Unlock()
	}
}

func (d *Deploy) Arrivals() []Arrival {
	d.mu.Lock()
	defer d.mu.Unlock()
	out := make([]Arrival, len(d.arr))
	for i, a := range d.arr {
		out[i] = *a
	}
	return out
}

func (d *Deploy) Roles() []RoleRec {
	d.mu.Lock()
	defer d.mu.Unlock()
	return append([]RoleRec(nil), d.RoleAsked...)
}

func (d *Deploy) Seq() int64 { return d.seq.Load() }

func hostPort(addr string) (string, int64) {
	h, p, err := net.SplitHostPort(addr)
	if err != nil {
		return addr, 0
	}
	n, _ := strconv.ParseInt(p, 10, 64)
	return h, n
}
