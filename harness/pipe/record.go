// Package pipe holds what the pipeline observers (obs_pipe, obs_fault, obs_ctx) share: a recording
// dialler in front of fakeredis (exact byte streams in both directions of every connection), the
// reconstruction of queue slots from the wire order, and the Gallina printers of Model/Pipe.v.
package pipe

import (
	"bufio"
	"bytes"
	"context"
	"crypto/tls"
	"net"
	"sync"

	"verifharness/fakeredis"
)

// RecConn is the server side of one connection; it records the bytes the server received (the order in
// which the client's writer put commands on the wire) and the bytes the server managed to send.
type RecConn struct {
	net.Conn
	FC   *fakeredis.Conn
	Node string
	mu   sync.Mutex
	in   []byte
	out  []byte
}

func (c *RecConn) Read(p []byte) (int, error) {
	n, err := c.Conn.Read(p)
	if n > 0 {
		c.mu.Lock()
		c.in = append(c.in, p[:n]...)
		c.mu.Unlock()
	}
	return n, err
}

// Write records before writing (the client may act on the bytes before this goroutine runs again) and
// takes back what could not be delivered; there is one writing goroutine per connection.
func (c *RecConn) Write(p []byte) (int, error) {
	c.mu.Lock()
	c.out = append(c.out, p...)
	c.mu.Unlock()
	n, err := c.Conn.Write(p)
	if n < len(p) {
		c.mu.Lock()
		c.out = c.out[:len(c.out)-(len(p)-n)]
		c.mu.Unlock()
	}
	return n, err
}

// In returns the bytes received from the client so far.
func (c *RecConn) In() []byte { c.mu.Lock(); defer c.mu.Unlock(); return append([]byte(nil), c.in...) }

// Out returns the bytes delivered to the client so far.
func (c *RecConn) Out() []byte { c.mu.Lock(); defer c.mu.Unlock(); return append([]byte(nil), c.out...) }

// Commands parses the received bytes into argument vectors (complete commands only).
func (c *RecConn) Commands() [][]string {
	r := bufio.NewReader(bytes.NewReader(c.In()))
	var out [][]string
	for {
		argv, err := fakeredis.ReadCommand(r)
		if err != nil {
			return out
		}
		out = append(out, argv)
	}
}

// Recorder is a DialCtxFn in front of a fakeredis server.
type Recorder struct {
	S     *fakeredis.Server
	mu    sync.Mutex
	conns []*RecConn
	// DialHook, when set, may refuse or delay a dial.
	DialHook func(ctx context.Context, n int) error
}

func NewRecorder(s *fakeredis.Server) *Recorder { return &Recorder{S: s} }

func (r *Recorder) Dial(ctx context.Context, dst string, _ *net.Dialer, _ *tls.Config) (net.Conn, error) {
	if err := ctx.Err(); err != nil {
		return nil, err
	}
	r.mu.Lock()
	n := len(r.conns)
	r.mu.Unlock()
	if r.DialHook != nil {
		if err := r.DialHook(ctx, n); err != nil {
			return nil, err
		}
	}
	cli, srv := net.Pipe()
	rc := &RecConn{Conn: srv, Node: dst}
	r.mu.Lock()
	r.conns = append(r.conns, rc)
	r.mu.Unlock()
	rc.FC = r.S.Serve(rc, dst)
	return cli, nil
}

// Conns returns the connections dialled so far, in dial order.
func (r *Recorder) Conns() []*RecConn {
	r.mu.Lock()
	defer r.mu.Unlock()
	return append([]*RecConn(nil), r.conns...)
}
