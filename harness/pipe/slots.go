package pipe

import (
	"encoding/hex"
	"fmt"
	"regexp"
	"strconv"
	"strings"

	"github.com/redis/rueidis"

	"verifharness/obs"
)

// Tag of command j of call n: every command an observer issues carries one in some argument, so that
// the wire order seen by the server can be cut back into the queue slots of the client.
func Tag(call, j int) string { return "c" + strconv.Itoa(call) + "x" + strconv.Itoa(j) }

var tagRe = regexp.MustCompile(`c(\d+)x(\d+)`)

// CallOf returns the call id carried by a command, or -1.
func CallOf(argv []string) int {
	if len(argv) == 0 { // a broken client can put an empty command on the wire
		return -1
	}
	for _, a := range argv[1:] {
		if m := tagRe.FindStringSubmatch(a); m != nil {
			n, _ := strconv.Atoi(m[1])
			return n
		}
	}
	return -1
}

// Call is what an observer knows about one call it made.
type Call struct {
	ID      int
	Multi   bool                    // went through DoMulti (PutMulti) rather than Do (PutOne)
	Results []*rueidis.VerifPipeMsg // per wire command of its slot: what the caller was handed, nil = not observable
}

// Slot is one reconstructed queue entry.
type Slot struct {
	Owner int
	Multi bool
	Sync  bool // certainly handled by syncDo/syncDoMulti (handshake)
	Cmds  [][]string
}

func up(s string) string { return strings.ToUpper(s) }

func isHandshake(a []string) bool {
	switch up(a[0]) {
	case "HELLO", "AUTH", "SELECT", "READONLY", "INFO":
		return true
	case "CLIENT":
		if len(a) > 1 {
			switch up(a[1]) {
			case "TRACKING", "SETINFO", "SETNAME", "NO-TOUCH", "NO-EVICT", "CAPA":
				return true
			}
		}
	}
	return false
}

func isHelper(a []string) (forward, backward bool) {
	switch up(a[0]) {
	case "MULTI":
		return true, false
	case "EXEC":
		return false, true
	case "CLIENT":
		return len(a) == 3 && up(a[1]) == "CACHING", false
	}
	return false, false
}

func isUnsubCmd(a []string) bool {
	switch up(a[0]) {
	case "UNSUBSCRIBE", "PUNSUBSCRIBE", "SUNSUBSCRIBE":
		return true
	}
	return false
}

func isNoReply(a []string) bool {
	switch up(a[0]) {
	case "SUBSCRIBE", "PSUBSCRIBE", "SSUBSCRIBE":
		return true
	}
	return isUnsubCmd(a)
}

// Reconstruct cuts the commands a connection received (wire order = the order in which the client's
// writer dequeued them) into slots: the handshake batches, untagged PINGs (keep-alive / sacrificial),
// and maximal runs of commands carrying the same call id (helpers CLIENT CACHING / MULTI attach to the
// following tagged command, EXEC to the preceding one; the PING the writer appends after an
// unsubscribe command is consumed here and is not a member of the slot).
func Reconstruct(cmds [][]string, calls map[int]*Call) ([]Slot, error) {
	for i, c := range cmds {
		if len(c) == 0 {
			return nil, fmt.Errorf("command %d on the wire is empty (a command object was reused while it was being written)", i)
		}
	}
	var slots []Slot
	anon := 1_000_000
	idAt := func(i int) int { // call id of the group that command i belongs to when looking forward
		for j := i; j < len(cmds) && j < i+3; j++ {
			if id := CallOf(cmds[j]); id >= 0 {
				return id
			}
			if f, _ := isHelper(cmds[j]); !f {
				return -1
			}
		}
		return -1
	}
	i := 0
	for i < len(cmds) {
		a := cmds[i]
		switch {
		case isHandshake(a):
			j := i + 1
			for j < len(cmds) && isHandshake(cmds[j]) && up(cmds[j][0]) != "HELLO" {
				j++
			}
			slots = append(slots, Slot{Owner: anon, Multi: true, Sync: true, Cmds: cmds[i:j]})
			anon++
			i = j
		case up(a[0]) == "PING" && CallOf(a) < 0:
			slots = append(slots, Slot{Owner: anon, Multi: false, Cmds: cmds[i : i+1]})
			anon++
			i++
		default:
			id := idAt(i)
			if id < 0 {
				return nil, fmt.Errorf("untagged command %v at wire position %d", a, i)
			}
			c := calls[id]
			if c == nil {
				return nil, fmt.Errorf("command %v of unknown call %d", a, id)
			}
			sl := Slot{Owner: id, Multi: c.Multi}
			j := i
			for j < len(cmds) {
				b := cmds[j]
				if CallOf(b) == id {
					sl.Cmds = append(sl.Cmds, b)
					j++
					if isUnsubCmd(b) && j < len(cmds) && up(cmds[j][0]) == "PING" && CallOf(cmds[j]) < 0 {
						j++ // PING appended by _backgroundWrite
					}
					continue
				}
				f, bk := isHelper(b)
				if bk || (f && idAt(j) == id) {
					sl.Cmds = append(sl.Cmds, b)
					j++
					continue
				}
				break
			}
			if !c.Multi && len(sl.Cmds) != 1 {
				return nil, fmt.Errorf("call %d went through Do but %d of its commands are adjacent on the wire", id, len(sl.Cmds))
			}
			slots = append(slots, sl)
			i = j
		}
	}
	return slots, nil
}

// ---- Gallina printers (Model/Pipe.v) ----

func MsgCoq(m rueidis.VerifPipeMsg) string {
	t := strconv.Itoa(int(m.Typ))
	switch {
	case len(m.Vals) > 0:
		vs := make([]string, len(m.Vals))
		for i := range m.Vals {
			vs[i] = MsgCoq(m.Vals[i])
		}
		return "(Ma " + t + " " + obs.List(vs) + ")"
	case m.Str != "":
		return "(Mb " + t + " \"" + hex.EncodeToString([]byte(m.Str)) + "\")"
	default:
		return "(Mi " + t + " " + obs.Z(m.Int) + ")"
	}
}

// CmdFlags mirrors the flag bits of cmds.Completed that the pipe tests, derived from the argument vector.
func CmdFlags(a []string) int {
	f := 0
	if isNoReply(a) {
		f |= 1
	}
	if isUnsubCmd(a) {
		f |= 2
	}
	if len(a) == 3 && up(a[0]) == "CLIENT" && up(a[1]) == "CACHING" && up(a[2]) == "YES" {
		f |= 4
	}
	if up(a[0]) == "MGET" || up(a[0]) == "JSON.MGET" {
		f |= 16
	}
	return f
}

func SlotCoq(s Slot) string {
	cs := make([]string, len(s.Cmds))
	for i, a := range s.Cmds {
		cs[i] = "(K " + strconv.Itoa(len(a)) + " " + strconv.Itoa(CmdFlags(a)) + ")"
	}
	return "(mkSlot " + strconv.Itoa(s.Owner) + " " + obs.Bool(s.Multi) + " " + obs.List(cs) + ")"
}

// ConnCoq prints one connection case: the slots in wire order, the frames the server sent, and what the
// callers were handed (None where that is not observable).
func ConnCoq(r2ps bool, ver int, nsync int, slots []Slot, frames []rueidis.VerifPipeMsg, calls map[int]*Call) string {
	ss := make([]string, len(slots))
	var impl []string
	for i, s := range slots {
		ss[i] = SlotCoq(s)
		if c := calls[s.Owner]; c != nil && s.Owner < 1_000_000 {
			vs := make([]string, len(s.Cmds))
			for j := range s.Cmds {
				vs[j] = obs.None
				if j < len(c.Results) && c.Results[j] != nil {
					vs[j] = obs.Some(MsgCoq(*c.Results[j]))
				}
			}
			impl = append(impl, "("+strconv.Itoa(s.Owner)+", "+obs.List(vs)+")")
		}
	}
	fs := make([]string, len(frames))
	for i := range frames {
		fs[i] = MsgCoq(frames[i])
	}
	return "(CC " + obs.Bool(r2ps) + " " + strconv.Itoa(ver) + " " + strconv.Itoa(nsync) + " " + obs.List(ss) + " " + obs.List(fs) + " " + obs.List(impl) + ")"
}
