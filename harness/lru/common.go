// Package lru holds what the observers of the cache-store family (obs_lru, obs_adapter, obs_cachekey,
// obs_cachewire) share: message descriptions, builders and Gallina printers.
package lru

import (
	"fmt"
	"strings"

	"github.com/redis/rueidis"

	"verifharness/gen"
	"verifharness/obs"
)

// Reseed decorrelates the case streams of different VERIF_SEED values.  gen.New multiplies the seed by
// the same constant splitmix64 uses as its increment, so the root streams of seeds s and s+1 are the
// same sequence shifted by one position and every seed would produce (almost) the same set of cases.
func Reseed(r *gen.Rand) *gen.Rand {
	z := gen.Seed() + 0x632BE59BD9B4E019
	z = (z ^ (z >> 30)) * 0xBF58476D1CE4E5B9
	z = (z ^ (z >> 27)) * 0x94D049BB133111EB
	z ^= z >> 31
	return gen.New(r.U64() ^ z)
}

// M describes a RedisMessage: payload = Str followed by Pad bytes 'x'.
type M struct {
	Typ  byte   `json:"t"`
	Int  int64  `json:"i,omitempty"`
	Str  string `json:"s,omitempty"`
	Pad  int    `json:"p,omitempty"`
	Vals []M    `json:"v,omitempty"`
	Xat  int64  `json:"x,omitempty"`
	Mark bool   `json:"m,omitempty"`
}

func (m M) Build() rueidis.RedisMessage {
	var vals []rueidis.RedisMessage
	if len(m.Vals) > 0 {
		vals = make([]rueidis.RedisMessage, len(m.Vals))
		for i, v := range m.Vals {
			vals[i] = v.Build()
		}
	}
	return rueidis.VerifLruMsg(m.Typ, m.Int, m.Str+strings.Repeat("x", m.Pad), vals, m.Xat, m.Mark)
}

const T0ns = int64(2208988800) * 1000000000 // 2040-01-01
const T0ms = int64(2208988800) * 1000

func zarg(d int64) string {
	if d < 0 {
		return fmt.Sprintf("(%d)", d)
	}
	return fmt.Sprint(d)
}

// ZT prints an instant in ns, ZM in ms (relative to 2040-01-01 when close to it: Lru.T / Lru.M).
func ZT(ns int64) string {
	if d := ns - T0ns; d > -1e15 && d < 1e15 {
		return "(T " + zarg(d) + ")"
	}
	return obs.Z(ns)
}

func ZM(ms int64) string {
	if d := ms - T0ms; d > -1e12 && d < 1e12 {
		return "(M " + zarg(d) + ")"
	}
	return obs.Z(ms)
}

// Bytes prints a byte string, compressing a trailing run of 'x'.
func Bytes(s string) string {
	n := 0
	for n < len(s) && s[len(s)-1-n] == 'x' {
		n++
	}
	if n >= 6 {
		return fmt.Sprintf("(pad %s %d)", obs.HS(s[:len(s)-n]), n)
	}
	return obs.HS(s)
}

// MsgCoq prints a real RedisMessage as a term of Lru.msg.
func MsgCoq(m rueidis.RedisMessage) string {
	typ, intlen, str, vals, xat, mark, _ := rueidis.VerifLruMsgView(m)
	iv := intlen
	if str != "" || len(vals) > 0 {
		iv = 0 // intlen is the length then; the model derives it
	}
	vs := make([]string, len(vals))
	for i, v := range vals {
		vs[i] = MsgCoq(v)
	}
	return fmt.Sprintf("(Msg %d %s %s %s %s %s)", typ, zarg(iv), Bytes(str), obs.List(vs), ZM(xat), obs.Bool(mark))
}

// Body is the part of a message that identifies the reply (everything but the expiry).
func Body(m rueidis.RedisMessage) string {
	typ, intlen, str, vals, _, mark, _ := rueidis.VerifLruMsgView(m)
	var sb strings.Builder
	fmt.Fprintf(&sb, "%d:%d:%q:%v[", typ, intlen, str, mark)
	for _, v := range vals {
		sb.WriteString(Body(v))
		sb.WriteString(",")
	}
	sb.WriteString("]")
	return sb.String()
}

func Xat(m rueidis.RedisMessage) int64 {
	_, _, _, _, xat, _, _ := rueidis.VerifLruMsgView(m)
	return xat
}

func Typ(m rueidis.RedisMessage) byte {
	typ, _, _, _, _, _, _ := rueidis.VerifLruMsgView(m)
	return typ
}

// GenMsg: a reply whose approximateSize is about `target` bytes (0 = small), tagged with `tag`.
func GenMsg(r *gen.Rand, tag string, target int) M {
	mss := rueidis.VerifLruMessageStructSize
	switch r.Intn(6) {
	case 0: // array of strings
		n := r.Range(1, 4)
		per := 0
		if target > (n+1)*mss {
			per = (target - (n+1)*mss) / n
		}
		vs := make([]M, n)
		for i := range vs {
			vs[i] = M{Typ: '$', Str: fmt.Sprintf("%s%d", tag, i), Pad: per}
		}
		return M{Typ: '*', Vals: vs}
	case 1: // integer
		return M{Typ: ':', Int: int64(r.Intn(1000))}
	case 2: // null
		return M{Typ: '_'}
	default:
		pad := 0
		if target > mss+len(tag) {
			pad = target - mss - len(tag)
		}
		return M{Typ: gen.Pick(r, []byte{'$', '+', '$', '='}), Str: tag, Pad: pad}
	}
}
