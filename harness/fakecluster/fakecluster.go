// Package fakecluster simulates a Redis Cluster on top of fakeredis: one fakeredis.Server per node,
// a programmable topology (what CLUSTER SLOTS / CLUSTER SHARDS answer), per-node slot ownership with
// MOVED / ASK / ASKING / TRYAGAIN / CLUSTERDOWN / LOADING / READONLY behaviour, slot migrations that
// are applied between requests, and a global execution log (which node executed which request, in
// which order, with which reply).  It is our reading of the cluster specification; it is trusted for
// the tie only.
package fakecluster

import (
	"context"
	"crypto/tls"
	"errors"
	"net"
	"sort"
	"strconv"
	"strings"
	"sync"
	"sync/atomic"
	"time"

	fr "verifharness/fakeredis"
)

// Rec is one command that reached a node (global order across nodes by Seq).
type Rec struct {
	Seq      int64
	Node     string
	Role     string // "master" | "slave" at the time the command arrived
	Conn     int
	Argv     []string
	Reply    fr.V
	Executed bool // the node really ran the command (not rejected with a cluster error, not just queued)
	InTx     bool
	Asking   bool // the connection carried the ASKING flag for this command
	ReadOnly bool // the connection had issued READONLY
}

// Arrival is one command as it reached a node, recorded before the node reacted (so it also lists
// commands whose connection was closed before execution). Reply / Executed are filled in when the
// node ran or refused it. Only user-level commands are listed (keyed commands, MULTI, EXEC, DISCARD).
type Arrival struct {
	Seq      int64
	Node     string
	Role     string
	Conn     int
	Argv     []string
	Asking   bool
	ReadOnly bool
	Step     string // the scripted reaction applied, "" = none
	Done     bool   // the node produced a reply (which may still have been lost on the way)
	Reply    fr.V
	Executed bool
}

// Step is one scripted reaction to the n-th arrival of a request (see Cluster.Script).
type Step struct {
	Kind  string        // "" (normal) | "TRYAGAIN" | "CLUSTERDOWN" | "LOADING" | "ERR" | "CLOSEBEFORE" | "CLOSEAFTER" | "DROP" | "MIDREPLY" | "MOVED" | "ASK" | "REDIRECT"
	Addr  string        // MOVED / ASK / REDIRECT target
	Delay time.Duration // executed after this delay
	Then  func()        // run (without locks) before the reaction is applied, e.g. a migration step
}

type Node struct {
	Addr    string
	S       *fr.Server
	Primary string // "" for a primary, else the address of its primary
	Down    bool   // dial fails
	Health  string // CLUSTER SHARDS health ("online" default)
	// how this node names itself in topology replies; "" keeps host/port of Addr
	Endpoint *string
	TLSPort  int64
	conns    sync.Map // conn id -> *fr.Conn (filled by the fault hook)
}

type Mig struct{ From, To string }

type Cluster struct {
	mu      sync.Mutex
	Nodes   map[string]*Node
	Order   []string           // creation order
	Owner   [16384]string      // primary owning each slot ("" = unassigned)
	Mig     map[int]Mig        // slots being migrated
	Down    bool               // every keyed command answers CLUSTERDOWN
	Script  map[string][]Step  // key = strings.Join(argv, " "); consumed one Step per arrival
	Arrived map[string]int     // arrivals per request key
	View    func(node string, shards bool) *fr.V // optional override of the topology reply
	seq     atomic.Int64
	log     []Rec
	arr     []*Arrival
	Topo    []TopoRec // topology replies served
	Version string
}

// TopoRec: a topology reply that was served, with the ownership it expressed.
type TopoRec struct {
	Seq   int64
	Node  string
	Owner *[16384]string // nil when View overrode the reply
}

func New(version string) *Cluster {
	return &Cluster{Nodes: map[string]*Node{}, Mig: map[int]Mig{}, Script: map[string][]Step{}, Arrived: map[string]int{}, Version: version}
}

// AddNode creates a node. primary == "" makes it a primary.
func (cl *Cluster) AddNode(addr, primary string) *Node {
	s := fr.New()
	s.Addr = addr
	if cl.Version != "" {
		s.Version = cl.Version
	}
	n := &Node{Addr: addr, S: s, Primary: primary, Health: "online"}
	if primary != "" {
		s.Role = "slave"
	}
	cl.mu.Lock()
	cl.Nodes[addr] = n
	cl.Order = append(cl.Order, addr)
	cl.mu.Unlock()
	cl.install(n)
	return n
}

// Assign gives slots [lo,hi] to a primary.
func (cl *Cluster) Assign(lo, hi int, primary string) {
	cl.mu.Lock()
	for i := lo; i <= hi && i < 16384; i++ {
		if i >= 0 {
			cl.Owner[i] = primary
		}
	}
	cl.mu.Unlock()
}

// MoveSlot completes a migration instantly: ownership changes, keys of the slot move.
func (cl *Cluster) MoveSlot(slot int, to string) {
	cl.mu.Lock()
	from := cl.Owner[slot]
	cl.Owner[slot] = to
	delete(cl.Mig, slot)
	fn, tn := cl.Nodes[from], cl.Nodes[to]
	cl.mu.Unlock()
	if fn == nil || tn == nil || fn == tn {
		return
	}
	moved := map[string]*fr.Item{}
	fn.S.Lock()
	for k, it := range fn.S.DB {
		if Slot(k) == slot {
			moved[k] = it
			delete(fn.S.DB, k)
		}
	}
	fn.S.Unlock()
	tn.S.Lock()
	for k, it := range moved {
		tn.S.DB[k] = it
	}
	tn.S.Unlock()
}

// StartMigration puts a slot in MIGRATING (on its owner) / IMPORTING (on to) state.
func (cl *Cluster) StartMigration(slot int, to string) {
	cl.mu.Lock()
	cl.Mig[slot] = Mig{From: cl.Owner[slot], To: to}
	cl.mu.Unlock()
}

// Promote makes a replica the primary of its shard (the old primary becomes its replica).
func (cl *Cluster) Promote(replica string) {
	cl.mu.Lock()
	r := cl.Nodes[replica]
	if r == nil || r.Primary == "" {
		cl.mu.Unlock()
		return
	}
	old := r.Primary
	for i := range cl.Owner {
		if cl.Owner[i] == old {
			cl.Owner[i] = replica
		}
	}
	for _, n := range cl.Nodes {
		if n.Primary == old {
			n.Primary = replica
		}
	}
	r.Primary = ""
	cl.Nodes[old].Primary = replica
	on := cl.Nodes[old]
	cl.mu.Unlock()
	r.S.Lock()
	r.S.Role = "master"
	r.S.Unlock()
	on.S.Lock()
	on.S.Role = "slave"
	on.S.Unlock()
}

// SetScript installs reactions for the successive arrivals of one request.
func (cl *Cluster) SetScript(argv []string, steps ...Step) {
	cl.mu.Lock()
	cl.Script[strings.Join(argv, " ")] = steps
	cl.mu.Unlock()
}

// Dial is a ClientOption.DialCtxFn routing by address.
func (cl *Cluster) Dial(ctx context.Context, dst string, d *net.Dialer, t *tls.Config) (net.Conn, error) {
	cl.mu.Lock()
	n := cl.Nodes[dst]
	down := n == nil || n.Down
	cl.mu.Unlock()
	if down {
		return nil, errors.New("fakecluster: connection refused: " + dst)
	}
	return n.S.Dial(ctx, dst, d, t)
}

// KillConns closes every connection of a node abruptly.
func (cl *Cluster) KillConns(addr string) {
	cl.mu.Lock()
	n := cl.Nodes[addr]
	cl.mu.Unlock()
	if n == nil {
		return
	}
	for _, c := range n.S.Conns() {
		c.Kill()
	}
}

// Log returns the global execution log sorted by Seq.
func (cl *Cluster) Log() []Rec {
	cl.mu.Lock()
	out := append([]Rec(nil), cl.log...)
	cl.mu.Unlock()
	sort.Slice(out, func(i, j int) bool { return out[i].Seq < out[j].Seq })
	return out
}

// Arrivals returns the user-level commands in the order they reached the nodes.
func (cl *Cluster) Arrivals() []Arrival {
	cl.mu.Lock()
	defer cl.mu.Unlock()
	out := make([]Arrival, len(cl.arr))
	for i, a := range cl.arr {
		out[i] = *a
	}
	return out
}

func (cl *Cluster) Seq() int64 { return cl.seq.Load() }

func (cl *Cluster) Topos() []TopoRec {
	cl.mu.Lock()
	defer cl.mu.Unlock()
	return append([]TopoRec(nil), cl.Topo...)
}

// ---- command classification ----

var noKey = map[string]bool{"PING": true, "ECHO": true, "HELLO": true, "AUTH": true, "CLIENT": true, "CLUSTER": true, "ASKING": true,
	"READONLY": true, "READWRITE": true, "ROLE": true, "INFO": true, "SELECT": true, "MULTI": true, "EXEC": true, "DISCARD": true,
	"QUIT": true, "DBSIZE": true, "KEYS": true, "FLUSHALL": true, "FLUSHDB": true, "UNWATCH": true, "SUBSCRIBE": true, "UNSUBSCRIBE": true,
	"PSUBSCRIBE": true, "PUNSUBSCRIBE": true, "PUBLISH": true, "SENTINEL": true}

var readCmd = map[string]bool{"GET": true, "MGET": true, "EXISTS": true, "TYPE": true, "STRLEN": true, "GETRANGE": true, "TTL": true, "PTTL": true,
	"HGET": true, "HMGET": true, "HGETALL": true, "HEXISTS": true, "HLEN": true, "GETBIT": true, "BITCOUNT": true, "SMEMBERS": true,
	"SISMEMBER": true, "LLEN": true, "LRANGE": true}

// Keys returns the keys of a command (our command table; only what the observers send).
func Keys(argv []string) []string {
	if len(argv) < 2 {
		return nil
	}
	name := strings.ToUpper(argv[0])
	if noKey[name] {
		return nil
	}
	switch name {
	case "MGET", "DEL", "UNLINK", "EXISTS", "WATCH":
		return argv[1:]
	case "MSET":
		var ks []string
		for i := 1; i < len(argv); i += 2 {
			ks = append(ks, argv[i])
		}
		return ks
	}
	return argv[1:2]
}

// UserKeyless: commands without key that the observers send as user traffic (the client itself also
// sends ECHO "" and PING): PUBLISH, SUBSCRIBE and ECHO of a payload starting with "u:".
func UserKeyless(argv []string) bool {
	switch strings.ToUpper(argv[0]) {
	case "PUBLISH", "SUBSCRIBE":
		return len(argv) > 1
	case "ECHO":
		return len(argv) > 1 && strings.HasPrefix(argv[1], "u:")
	}
	return false
}

func IsRead(argv []string) bool { return readCmd[strings.ToUpper(argv[0])] }

// IsClusterErr: the node refused to run the command.
func IsClusterErr(v fr.V) bool {
	if v.T != '-' {
		return false
	}
	for _, p := range []string{"MOVED ", "ASK ", "TRYAGAIN", "CLUSTERDOWN", "LOADING", "READONLY", "EXECABORT", "REDIRECT ", "ERR EXEC without MULTI", "ERR unknown"} {
		if strings.HasPrefix(v.S, p) {
			return true
		}
	}
	return false
}

type txState struct {
	in     bool
	dirty  bool
	queued [][]string
}

func tx(c *fr.Conn) *txState {
	t, _ := c.Ext["fc.tx"].(*txState)
	if t == nil {
		t = &txState{}
		c.Ext["fc.tx"] = t
	}
	return t
}

func errV(s string) *fr.V { v := fr.Error(s); return &v }

// decide is the cluster bus logic of one node for one keyed command; nil = run it.
func (cl *Cluster) decide(n *Node, c *fr.Conn, argv []string, asking bool) *fr.V {
	keys := Keys(argv)
	if len(keys) == 0 {
		return nil
	}
	slot := Slot(keys[0])
	for _, k := range keys[1:] {
		if Slot(k) != slot {
			return errV("CROSSSLOT Keys in request don't hash to the same slot")
		}
	}
	cl.mu.Lock()
	down := cl.Down
	owner := cl.Owner[slot]
	mig, migrating := cl.Mig[slot]
	primary := n.Primary
	cl.mu.Unlock()
	if down {
		return errV("CLUSTERDOWN The cluster is down")
	}
	if owner == "" {
		return errV("CLUSTERDOWN Hash slot not served")
	}
	me := n.Addr
	if primary != "" { // replica
		if owner == primary && c.ReadOnly && IsRead(argv) {
			return nil
		}
		return errV("MOVED " + strconv.Itoa(slot) + " " + owner)
	}
	if migrating && mig.To == me && owner != me {
		if asking {
			return nil
		}
		return errV("MOVED " + strconv.Itoa(slot) + " " + owner)
	}
	if owner != me {
		return errV("MOVED " + strconv.Itoa(slot) + " " + owner)
	}
	if migrating && mig.From == me {
		missing := 0
		n.S.Lock()
		for _, k := range keys {
			if n.S.Get(k) == nil {
				missing++
			}
		}
		n.S.Unlock()
		if missing == len(keys) {
			return errV("ASK " + strconv.Itoa(slot) + " " + mig.To)
		}
		if missing > 0 {
			return errV("TRYAGAIN Multiple keys request during rehashing of slot")
		}
	}
	return nil
}

func (cl *Cluster) install(n *Node) {
	s := n.S
	s.Handle("ASKING", func(c *fr.Conn, a []string) fr.V { c.Asking = true; return fr.OK() })
	s.Handle("MULTI", func(c *fr.Conn, a []string) fr.V {
		t := tx(c)
		if t.in {
			return fr.Error("ERR MULTI calls can not be nested")
		}
		*t = txState{in: true}
		return fr.OK()
	})
	s.Handle("DISCARD", func(c *fr.Conn, a []string) fr.V {
		t := tx(c)
		if !t.in {
			return fr.Error("ERR DISCARD without MULTI")
		}
		*t = txState{}
		c.Asking = false
		return fr.OK()
	})
	s.Handle("EXEC", func(c *fr.Conn, a []string) fr.V {
		t := tx(c)
		if !t.in {
			return fr.Error("ERR EXEC without MULTI")
		}
		q, dirty := t.queued, t.dirty
		*t = txState{}
		c.Asking = false
		if dirty {
			return fr.Error("EXECABORT Transaction discarded because of previous errors.")
		}
		out := make([]fr.V, 0, len(q))
		for _, cmd := range q {
			out = append(out, s.Exec(c, cmd, true))
		}
		return fr.Arr(out...)
	})
	s.Handle("CLUSTER SLOTS", func(c *fr.Conn, a []string) fr.V { return cl.topoReply(n, false) })
	s.Handle("CLUSTER SHARDS", func(c *fr.Conn, a []string) fr.V { return cl.topoReply(n, true) })
	s.Fault = func(c *fr.Conn, cseq int, argv []string) fr.Action {
		name := strings.ToUpper(argv[0])
		n.conns.Store(c.ID, c)
		asking := c.Asking
		t := tx(c)
		if name != "ASKING" && !t.in && name != "MULTI" {
			c.Asking = false // one-shot, except that a MULTI…EXEC opened under ASKING keeps it
		}
		c.Ext["fc.asking"] = asking
		var act fr.Action
		key := strings.Join(argv, " ")
		var ar *Arrival
		if len(Keys(argv)) > 0 || name == "MULTI" || name == "EXEC" || name == "DISCARD" || UserKeyless(argv) {
			s.Lock()
			role := s.Role
			s.Unlock()
			ar = &Arrival{Node: n.Addr, Role: role, Conn: c.ID, Argv: argv, Asking: asking, ReadOnly: c.ReadOnly}
		}
		c.Ext["fc.cur"] = ar
		cl.mu.Lock()
		if ar != nil {
			ar.Seq = cl.seq.Add(1)
			cl.arr = append(cl.arr, ar)
		}
		var st *Step
		if steps := cl.Script[key]; len(steps) > 0 {
			k := cl.Arrived[key]
			cl.Arrived[key] = k + 1
			if k < len(steps) {
				st = &steps[k]
			}
		} else if len(Keys(argv)) > 0 {
			cl.Arrived[key]++
		}
		cl.mu.Unlock()
		if st != nil && ar != nil {
			cl.mu.Lock()
			ar.Step = st.Kind
			cl.mu.Unlock()
		}
		if st != nil {
			if st.Then != nil {
				st.Then()
			}
			act.Delay = st.Delay
			switch st.Kind {
			case "TRYAGAIN":
				act.Override = errV("TRYAGAIN Multiple keys request during rehashing of slot")
			case "CLUSTERDOWN":
				act.Override = errV("CLUSTERDOWN The cluster is down")
			case "LOADING":
				act.Override = errV("LOADING Redis is loading the dataset in memory")
			case "ERR":
				act.Override = errV("ERR scripted failure")
			case "MOVED":
				act.Override = errV("MOVED " + strconv.Itoa(slotOf(argv)) + " " + st.Addr)
			case "ASK":
				act.Override = errV("ASK " + strconv.Itoa(slotOf(argv)) + " " + st.Addr)
			case "REDIRECT":
				act.Override = errV("REDIRECT " + st.Addr)
			case "CLOSEBEFORE":
				act.CloseBefore = true
				return act
			case "CLOSEAFTER":
				act.CloseAfter = true
			case "DROP":
				act.Drop = true
			case "MIDREPLY":
				act.CloseMidReply = 1
			}
		}
		if act.Override == nil {
			act.Override = cl.decide(n, c, argv, asking)
		}
		if act.Override == nil && name == "EXEC" && t.in && !t.dirty {
			// EXEC-time check, as Redis does: the slots of the queued commands must still be served here
			for _, q := range t.queued {
				if d := cl.decide(n, c, q, asking); d != nil {
					act.Override = d
					*t = txState{}
					c.Asking = false
					break
				}
			}
		}
		if name == "EXEC" && t.in && act.Override != nil {
			*t = txState{} // a refused EXEC discards the transaction, as Redis does
			c.Asking = false
		}
		if t.in && name != "EXEC" && name != "DISCARD" && name != "MULTI" && name != "WATCH" {
			// queue-time check, as Redis does: an error flags the transaction
			if act.Override != nil {
				t.dirty = true
			} else {
				t.queued = append(t.queued, argv)
				q := fr.Simple("QUEUED")
				act.Override = &q
			}
		}
		return act
	}
	s.OnExec = func(e fr.Entry) {
		name := strings.ToUpper(e.Argv[0])
		var c *fr.Conn
		if v, ok := n.conns.Load(e.Conn); ok {
			c = v.(*fr.Conn)
		}
		r := Rec{Seq: cl.seq.Add(1), Node: n.Addr, Role: s.Role, Conn: e.Conn, Argv: e.Argv, Reply: e.Reply, InTx: e.InTx}
		if c != nil {
			r.ReadOnly = c.ReadOnly
			if a, ok := c.Ext["fc.asking"].(bool); ok {
				r.Asking = a
			}
		}
		r.Executed = !IsClusterErr(e.Reply) && !(e.Reply.T == '+' && e.Reply.S == "QUEUED") && !noKey[name]
		if e.InTx {
			r.Executed = true
		}
		cl.mu.Lock()
		cl.log = append(cl.log, r)
		if !e.InTx && c != nil {
			if ar, _ := c.Ext["fc.cur"].(*Arrival); ar != nil && !ar.Done {
				ar.Done, ar.Reply = true, e.Reply
				ar.Executed = !IsClusterErr(e.Reply) && !(e.Reply.T == '+' && e.Reply.S == "QUEUED") && len(Keys(e.Argv)) > 0
			}
		}
		cl.mu.Unlock()
	}
}

func slotOf(argv []string) int {
	ks := Keys(argv)
	if len(ks) == 0 {
		return 0
	}
	return Slot(ks[0])
}

// ---- topology replies ----

type shardView struct {
	primary  string
	replicas []string
	ranges   [][2]int
}

func (cl *Cluster) shards() []shardView {
	// must be called with cl.mu held
	idx := map[string]int{}
	var out []shardView
	for _, a := range cl.Order {
		n := cl.Nodes[a]
		if n.Primary == "" {
			idx[a] = len(out)
			out = append(out, shardView{primary: a})
		}
	}
	for _, a := range cl.Order {
		n := cl.Nodes[a]
		if n.Primary != "" {
			if i, ok := idx[n.Primary]; ok {
				out[i].replicas = append(out[i].replicas, a)
			}
		}
	}
	start := 0
	for i := 1; i <= 16384; i++ {
		if i == 16384 || cl.Owner[i] != cl.Owner[start] {
			if o := cl.Owner[start]; o != "" {
				if j, ok := idx[o]; ok {
					out[j].ranges = append(out[j].ranges, [2]int{start, i - 1})
				}
			}
			start = i
		}
	}
	return out
}

func hostPort(addr string) (string, int64) {
	h, p, err := net.SplitHostPort(addr)
	if err != nil {
		return addr, 0
	}
	n, _ := strconv.ParseInt(p, 10, 64)
	return h, n
}

func (cl *Cluster) endpoint(addr string) (string, int64) {
	h, p := hostPort(addr)
	if n := cl.Nodes[addr]; n != nil && n.Endpoint != nil {
		h = *n.Endpoint
	}
	return h, p
}

func (cl *Cluster) topoReply(n *Node, shards bool) fr.V {
	cl.mu.Lock()
	defer cl.mu.Unlock()
	if cl.View != nil {
		if v := cl.View(n.Addr, shards); v != nil {
			cl.Topo = append(cl.Topo, TopoRec{Seq: cl.seq.Add(1), Node: n.Addr})
			return *v
		}
	}
	own := cl.Owner
	cl.Topo = append(cl.Topo, TopoRec{Seq: cl.seq.Add(1), Node: n.Addr, Owner: &own})
	sv := cl.shards()
	if !shards {
		var out []fr.V
		for _, sh := range sv {
			for _, rg := range sh.ranges {
				e := []fr.V{fr.Int(int64(rg[0])), fr.Int(int64(rg[1]))}
				for _, a := range append([]string{sh.primary}, sh.replicas...) {
					h, p := cl.endpoint(a)
					e = append(e, fr.Arr(fr.Bulk(h), fr.Int(p), fr.Bulk(NodeID(a))))
				}
				out = append(out, fr.Arr(e...))
			}
		}
		return fr.Arr(out...)
	}
	var out []fr.V
	for _, sh := range sv {
		var sl []fr.V
		for _, rg := range sh.ranges {
			sl = append(sl, fr.Int(int64(rg[0])), fr.Int(int64(rg[1])))
		}
		var ns []fr.V
		for i, a := range append([]string{sh.primary}, sh.replicas...) {
			h, p := cl.endpoint(a)
			role := "replica"
			if i == 0 {
				role = "master"
			}
			nd := cl.Nodes[a]
			kv := []fr.V{fr.Bulk("id"), fr.Bulk(NodeID(a)), fr.Bulk("port"), fr.Int(p), fr.Bulk("ip"), fr.Bulk(h), fr.Bulk("endpoint"), fr.Bulk(h),
				fr.Bulk("role"), fr.Bulk(role), fr.Bulk("replication-offset"), fr.Int(0), fr.Bulk("health"), fr.Bulk(nd.Health)}
			if nd.TLSPort != 0 {
				kv = append(kv, fr.Bulk("tls-port"), fr.Int(nd.TLSPort))
			}
			ns = append(ns, fr.Map(kv...))
		}
		out = append(out, fr.Map(fr.Bulk("slots"), fr.Arr(sl...), fr.Bulk("nodes"), fr.Arr(ns...)))
	}
	return fr.Arr(out...)
}

func NodeID(addr string) string {
	s := "id-" + addr
	for len(s) < 40 {
		s += "0"
	}
	return s
}

// ---- CRC16 / key slot (independent of the client's implementation) ----

func crc16(b []byte) uint16 {
	var crc uint16
	for _, x := range b {
		crc ^= uint16(x) << 8
		for i := 0; i < 8; i++ {
			if crc&0x8000 != 0 {
				crc = crc<<1 ^ 0x1021
			} else {
				crc <<= 1
			}
		}
	}
	return crc
}

// Slot is the cluster key slot (hash tags honoured).
func Slot(key string) int {
	if s := strings.IndexByte(key, '{'); s >= 0 {
		if e := strings.IndexByte(key[s+1:], '}'); e > 0 {
			key = key[s+1 : s+1+e]
		}
	}
	return int(crc16([]byte(key)) & 16383)
}

var tagCache sync.Map

// TagFor returns a short hash tag whose slot is the given one (found by search, cached).
func TagFor(slot int) string {
	if v, ok := tagCache.Load(slot); ok {
		return v.(string)
	}
	fillTags()
	v, _ := tagCache.Load(slot)
	return v.(string)
}

var fillOnce sync.Once

func fillTags() {
	fillOnce.Do(func() {
		found := 0
		for i := 0; found < 16384; i++ {
			t := strconv.FormatInt(int64(i), 36)
			s := Slot(t)
			if _, ok := tagCache.Load(s); !ok {
				tagCache.Store(s, t)
				found++
			}
		}
	})
}
