package fakecluster

import (
	"context"
	"strings"
	"testing"
	"time"

	"github.com/redis/rueidis"
)

func newClient(t *testing.T, cl *Cluster, init string) rueidis.Client {
	c, err := rueidis.NewClient(rueidis.ClientOption{InitAddress: []string{init}, DialCtxFn: cl.Dial, DisableCache: true, PipelineMultiplex: -1})
	if err != nil {
		t.Fatal(err)
	}
	return c
}

func sends(cl *Cluster, argv ...string) (out []string) {
	key := strings.Join(argv, " ")
	for _, r := range cl.Log() {
		if strings.Join(r.Argv, " ") == key {
			tag := r.Node
			if r.Asking {
				tag += "+asking"
			}
			if r.Executed {
				tag += "+exec"
			}
			out = append(out, tag)
		}
	}
	return
}

func TestMovedAsk(t *testing.T) {
	for _, ver := range []string{"7.2.4", "8.0.0"} {
		cl := New(ver)
		cl.AddNode("127.0.0.1:7001", "")
		cl.AddNode("127.0.0.1:7002", "")
		cl.AddNode("127.0.0.1:7003", "")
		cl.Assign(0, 5000, "127.0.0.1:7001")
		cl.Assign(5001, 10000, "127.0.0.1:7002")
		cl.Assign(10001, 16383, "127.0.0.1:7003")
		t0 := time.Now()
		c := newClient(t, cl, "127.0.0.1:7001")
		t.Log("newclient", time.Since(t0))
		ctx := context.Background()
		k := "{" + TagFor(6000) + "}a"
		if err := c.Do(ctx, c.B().Set().Key(k).Value("v").Build()).Error(); err != nil {
			t.Fatal(err)
		}
		if got := sends(cl, "SET", k, "v"); len(got) != 1 || got[0] != "127.0.0.1:7002+exec" {
			t.Fatal(got)
		}
		cl.MoveSlot(6000, "127.0.0.1:7003")
		v, err := c.Do(ctx, c.B().Get().Key(k).Build()).ToString()
		if err != nil || v != "v" {
			t.Fatal(v, err)
		}
		if got := sends(cl, "GET", k); len(got) != 2 || got[0] != "127.0.0.1:7002" || got[1] != "127.0.0.1:7003+exec" {
			t.Fatal(got)
		}
		// ASK: slot 6000 migrating 7003 -> 7001, key k2 absent on 7003
		cl.StartMigration(6000, "127.0.0.1:7001")
		k2 := "{" + TagFor(6000) + "}b"
		if err := c.Do(ctx, c.B().Set().Key(k2).Value("w").Build()).Error(); err != nil {
			t.Fatal(err)
		}
		got := sends(cl, "SET", k2, "w")
		if len(got) != 3 || got[0] != "127.0.0.1:7002" || got[1] != "127.0.0.1:7003" || got[2] != "127.0.0.1:7001+asking+exec" {
			t.Fatal(ver, got)
		}
		// transaction on a moved slot
		cl.MoveSlot(6000, "127.0.0.1:7002")
		rs := c.DoMulti(ctx, c.B().Multi().Build(), c.B().Set().Key(k).Value("x").Build(), c.B().Exec().Build())
		for i, r := range rs {
			if err := r.Error(); err != nil {
				t.Fatal(i, err)
			}
		}
		t.Log(ver, sends(cl, "SET", k, "x"), sends(cl, "MULTI"), sends(cl, "EXEC"))
		t.Log("calls", time.Since(t0))
		c.Close()
		t.Log("close", time.Since(t0))
	}
	time.Sleep(10 * time.Millisecond)
}
