// Package psx: helpers shared by the session-level observers (obs_setup, obs_pubsub, obs_inval,
// obs_dedicated, obs_stream): fake-server extensions that record per-connection session flags the core
// fake server does not keep, reply classification, and small utilities.
package psx

import (
	"context"
	"math/big"
	"net"
	"strconv"
	"strings"
	"sync"
	"sync/atomic"
	"time"

	"github.com/redis/rueidis"

	"verifharness/fakeredis"
	"verifharness/obs"
)

// InstallSessionFlags registers sub-command handlers that remember, per connection (Conn.Ext), the
// session settings the core CLIENT handler acknowledges without recording.
func InstallSessionFlags(s *fakeredis.Server) {
	s.Handle("CLIENT NO-TOUCH", func(c *fakeredis.Conn, a []string) fakeredis.V {
		if len(a) != 3 {
			return fakeredis.Error("ERR wrong number of arguments for 'client|no-touch' command")
		}
		c.Ext["notouch"] = strings.EqualFold(a[2], "ON")
		return fakeredis.OK()
	})
	s.Handle("CLIENT NO-EVICT", func(c *fakeredis.Conn, a []string) fakeredis.V {
		if len(a) != 3 {
			return fakeredis.Error("ERR wrong number of arguments for 'client|no-evict' command")
		}
		c.Ext["noevict"] = strings.EqualFold(a[2], "ON")
		return fakeredis.OK()
	})
	s.Handle("CLIENT CAPA", func(c *fakeredis.Conn, a []string) fakeredis.V {
		for _, x := range a[2:] {
			if strings.EqualFold(x, "redirect") {
				c.Ext["redirect"] = true
			}
		}
		return fakeredis.OK()
	})
	s.Handle("CLIENT SETINFO", func(c *fakeredis.Conn, a []string) fakeredis.V {
		if len(a) != 4 {
			return fakeredis.Error("ERR wrong number of arguments for 'client|setinfo' command")
		}
		switch strings.ToUpper(a[2]) {
		case "LIB-NAME":
			c.Ext["libname"] = a[3]
		case "LIB-VER":
			c.Ext["libver"] = a[3]
		default:
			return fakeredis.Error("ERR Unrecognized option '" + a[2] + "'")
		}
		return fakeredis.OK()
	})
}

func ExtBool(c *fakeredis.Conn, k string) bool {
	b, _ := c.Ext[k].(bool)
	return b
}

func ExtStr(c *fakeredis.Conn, k string) (string, bool) {
	s, ok := c.Ext[k].(string)
	return s, ok
}

// ConnTracker remembers every connection a server has accepted (by id), including closed ones.
type ConnTracker struct {
	mu    sync.Mutex
	conns map[int]*fakeredis.Conn
}

func (t *ConnTracker) See(c *fakeredis.Conn) {
	t.mu.Lock()
	if t.conns == nil {
		t.conns = map[int]*fakeredis.Conn{}
	}
	t.conns[c.ID] = c
	t.mu.Unlock()
}

func (t *ConnTracker) Get(id int) *fakeredis.Conn {
	t.mu.Lock()
	defer t.mu.Unlock()
	return t.conns[id]
}

// ---- Gallina printers ----

// Bytes prints a byte string as (nb <number>): base-256 big-endian digits behind a leading 1 (PsBase.nb).
// Long strings fall back to the shared (h "hex") form.
func Bytes(s string) string {
	if len(s) > 48 {
		return obs.HS(s)
	}
	n := new(big.Int).SetBytes(append([]byte{1}, s...))
	return "(nb " + n.String() + ")"
}

// Vocab maps byte strings to the names the model file defines for them (Definition k_… := bs "…"), so
// that generated cases consist of identifiers: literals are what costs coqc time.
type Vocab map[string]string

func VocabName(w string) string {
	var b strings.Builder
	b.WriteString("k_")
	for i := 0; i < len(w); i++ {
		c := w[i]
		if (c >= 'a' && c <= 'z') || (c >= 'A' && c <= 'Z') || (c >= '0' && c <= '9') {
			b.WriteByte(c)
		} else {
			b.WriteString("_" + strconv.FormatInt(int64(c)+256, 16)[1:])
		}
	}
	return b.String()
}

func NewVocab(words []string) Vocab {
	v := Vocab{}
	for _, w := range words {
		v[w] = VocabName(w)
	}
	return v
}

func (v Vocab) B(s string) string {
	if n, ok := v[s]; ok {
		return n
	}
	return Bytes(s)
}

func (v Vocab) Argv(a []string) string { return obs.ListOf(a, v.B) }

func (v Vocab) Argvs(as [][]string) string { return obs.ListOf(as, v.Argv) }

func (v Vocab) Opt(s string, ok bool) string {
	if !ok {
		return obs.None
	}
	return obs.Some(v.B(s))
}

func Argv(a []string) string { return obs.ListOf(a, Bytes) }

func Argvs(as [][]string) string { return obs.ListOf(as, Argv) }

func OptBytes(s string, ok bool) string {
	if !ok {
		return obs.None
	}
	return obs.Some(Bytes(s))
}

func Itoa(i int) string { return strconv.Itoa(i) }

// WaitFor polls cond until it holds or the timeout expires.
func WaitFor(d time.Duration, cond func() bool) bool {
	dl := time.Now().Add(d)
	for {
		if cond() {
			return true
		}
		if time.Now().After(dl) {
			return false
		}
		time.Sleep(200 * time.Microsecond)
	}
}

// ErrClass maps an error returned by the client to a small enum shared by the observers.
//
//	0 nil, 1 redis error reply, 2 redis nil, 3 context canceled, 4 context deadline, 5 ErrClosing,
//	6 ErrDedicatedClientRecycled, 7 ErrNoCache, 8 io.EOF-like / other
func ErrClass(err error) int {
	switch {
	case err == nil:
		return 0
	case rueidis.IsRedisNil(err):
		return 2
	case err == context.Canceled:
		return 3
	case err == context.DeadlineExceeded:
		return 4
	case err == rueidis.ErrClosing:
		return 5
	case err == rueidis.ErrDedicatedClientRecycled:
		return 6
	}
	if _, ok := rueidis.IsRedisErr(err); ok {
		return 1
	}
	return 8
}

// ---- a tee on the client side of a connection + a minimal RESP3 frame scanner (ground truth of what the
// server put on the wire, independent of both the client and the fake server's bookkeeping) ----

type TeeConn struct {
	net.Conn
	mu  sync.Mutex
	buf []byte
}

func (t *TeeConn) Read(p []byte) (int, error) {
	n, err := t.Conn.Read(p)
	if n > 0 {
		t.mu.Lock()
		t.buf = append(t.buf, p[:n]...)
		t.mu.Unlock()
	}
	return n, err
}

func (t *TeeConn) Bytes() []byte {
	t.mu.Lock()
	defer t.mu.Unlock()
	return append([]byte(nil), t.buf...)
}

// Frame is a parsed RESP value: T type byte, S scalar text, A elements, Null.
type Frame struct {
	T    byte
	S    string
	A    []Frame
	Null bool
}

// ParseFrames parses as many complete top-level RESP2/3 values as the bytes contain.
func ParseFrames(b []byte) []Frame {
	var out []Frame
	pos := 0
	for pos < len(b) {
		f, n, ok := parseFrame(b[pos:])
		if !ok {
			break
		}
		out = append(out, f)
		pos += n
	}
	return out
}

func parseFrame(b []byte) (Frame, int, bool) {
	if len(b) == 0 {
		return Frame{}, 0, false
	}
	eol := -1
	for i := 1; i+1 < len(b); i++ {
		if b[i] == '\r' && b[i+1] == '\n' {
			eol = i
			break
		}
	}
	if eol < 0 {
		return Frame{}, 0, false
	}
	line := string(b[1:eol])
	hdr := eol + 2
	switch t := b[0]; t {
	case '+', '-', ':', ',', '#', '(':
		return Frame{T: t, S: line}, hdr, true
	case '_':
		return Frame{T: t, Null: true}, hdr, true
	case '$', '=', '!':
		n, err := strconv.Atoi(line)
		if err != nil {
			return Frame{}, 0, false
		}
		if n < 0 {
			return Frame{T: t, Null: true}, hdr, true
		}
		if len(b) < hdr+n+2 {
			return Frame{}, 0, false
		}
		return Frame{T: t, S: string(b[hdr : hdr+n])}, hdr + n + 2, true
	case '*', '~', '>', '%', '|':
		n, err := strconv.Atoi(line)
		if err != nil {
			return Frame{}, 0, false
		}
		if n < 0 {
			return Frame{T: t, Null: true}, hdr, true
		}
		if t == '%' || t == '|' {
			n *= 2
		}
		f := Frame{T: t}
		pos := hdr
		for i := 0; i < n; i++ {
			e, m, ok := parseFrame(b[pos:])
			if !ok {
				return Frame{}, 0, false
			}
			f.A = append(f.A, e)
			pos += m
		}
		return f, pos, true
	}
	return Frame{}, 0, false
}

// Patience is the bound of the observers' waits for something that normally takes microseconds (a marker message
// making the round, a Receive returning after Close …).  It starts generous so that a loaded machine never causes
// a false alarm, and halves every time a wait actually expires: when the property is really broken (every case
// hangs) a run still ends in reasonable time.
var patience int64 = int64(6 * time.Second)

func Patience() time.Duration { return time.Duration(atomic.LoadInt64(&patience)) }

// Await is WaitFor with the adaptive bound.
func Await(cond func() bool) bool {
	if WaitFor(Patience(), cond) {
		return true
	}
	Expired()
	return false
}

// Expired records that a wait bounded by Patience() ran out (for waits that are not made through Await, e.g. a
// context deadline): the bound is halved.
func Expired() {
	for {
		p := atomic.LoadInt64(&patience)
		np := p / 2
		if np < int64(400*time.Millisecond) {
			np = int64(400 * time.Millisecond)
		}
		if atomic.CompareAndSwapInt64(&patience, p, np) {
			break
		}
	}
}
