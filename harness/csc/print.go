package csc

import (
	"errors"
	"strconv"
	"strings"

	"github.com/redis/rueidis"

	"verifharness/fakeredis"
	"verifharness/obs"
)

// M is a RedisMessage projected to what the Coq model sees: type byte, string, integer, elements.
type M struct {
	T byte   `json:"t"`
	S string `json:"s,omitempty"`
	I int64  `json:"i,omitempty"`
	A []M    `json:"a,omitempty"`
}

// R is a RedisResult: message + the non-redis error field (kind, text).
type R struct {
	V   M      `json:"v"`
	Err string `json:"err,omitempty"` // "", "nil", "redis:<text>", "aborted", "parse", "other:<text>"
}

func hasInt(t byte) bool { return t == ':' }

// FromMsg projects a real message.
func FromMsg(m rueidis.RedisMessage) M {
	typ, s, n, vals, _, _ := rueidis.VerifCscMsg(m)
	out := M{T: typ}
	switch typ {
	case '*', '~', '%', '>':
		for _, v := range vals {
			out.A = append(out.A, FromMsg(v))
		}
	case ':':
		out.I = n
	case 0:
	default:
		out.S = s
	}
	return out
}

// FromV projects a reply of the fake server as the RESP3 decoder of the client would see it.
func FromV(v fakeredis.V) M {
	out := M{T: v.T}
	switch v.T {
	case '*', '~', '%', '>':
		for _, e := range v.A {
			out.A = append(out.A, FromV(e))
		}
	case ':':
		out.I = v.I
	case '_':
	default:
		out.S = v.S
	}
	return out
}

func ErrKind(err error) string {
	if err == nil {
		return ""
	}
	if rueidis.IsRedisNil(err) {
		return "nil"
	}
	if re, ok := rueidis.IsRedisErr(err); ok {
		return "redis:" + re.Error()
	}
	if errors.Is(err, rueidis.ErrDoCacheAborted) {
		return "aborted"
	}
	if rueidis.IsParseErr(err) {
		return "parse"
	}
	return "other:" + err.Error()
}

func FromResult(r rueidis.RedisResult) R {
	m, err := rueidis.VerifCscResult(r)
	return R{V: FromMsg(m), Err: ErrKind(err)}
}

// ---- Gallina ----

func (m M) Coq() string {
	elems := make([]string, len(m.A))
	for i, e := range m.A {
		elems[i] = e.Coq()
	}
	return "(Msg " + strconv.Itoa(int(m.T)) + " " + obs.HS(m.S) + " " + obs.Z(m.I) + " " + obs.List(elems) + ")"
}

func errCoq(k string) string {
	switch {
	case k == "":
		return "None"
	case k == "nil":
		return "(Some ENil)"
	case strings.HasPrefix(k, "redis:"):
		return "(Some (ERedis " + obs.HS(k[6:]) + "))"
	case k == "aborted":
		return "(Some EAborted)"
	case k == "parse":
		return "(Some EParse)"
	}
	return "(Some (EOther 0))"
}

func (r R) Coq() string { return "(mkRes " + r.V.Coq() + " " + errCoq(r.Err) + ")" }

// ErrOnly prints the error of R as a Gallina [err] (for sums).
func (r R) ErrCoq() string {
	s := errCoq(r.Err)
	if s == "None" {
		return "(EOther 99)"
	}
	return strings.TrimSuffix(strings.TrimPrefix(s, "(Some "), ")")
}

func Argv(a []string) string { return obs.ListOf(a, obs.HS) }

func Item(argv []string, static, mget bool) string {
	return "(mkItem " + Argv(argv) + " " + obs.Bool(static) + " " + obs.Bool(mget) + ")"
}

func Pair(a, b string) string { return "(" + a + ", " + b + ")" }

// CK prints a cache key pair.
func CK(key, cmd string) string { return Pair(obs.HS(key), obs.HS(cmd)) }

// View is the caller-visible outcome of a result: the value, or the error text.
func (r R) View() string {
	if r.Err != "" {
		return "E:" + strings.TrimPrefix(strings.TrimPrefix(r.Err, "redis:"), "other:")
	}
	switch r.V.T {
	case '_':
		return "E:nil"
	case '-', '!':
		return "E:" + strings.TrimPrefix(r.V.S, "ERR ")
	}
	return "V:" + r.V.Dump()
}

func (m M) Dump() string {
	switch m.T {
	case '*', '~', '%', '>':
		parts := make([]string, len(m.A))
		for i, e := range m.A {
			parts[i] = e.Dump()
		}
		return string(m.T) + "[" + strings.Join(parts, ",") + "]"
	case ':':
		return ":" + strconv.FormatInt(m.I, 10)
	case '_':
		return "_"
	case 0:
		return "<zero>"
	}
	return string(m.T) + m.S
}
