package csc

import (
	"strings"
	"sync"
	"time"

	"github.com/redis/rueidis"

	"verifharness/fakeredis"
)

// MapCache is a trivial rueidis.SimpleCache (used through NewSimpleCacheAdapter to reach the
// non-lru branches of the client).
type MapCache struct {
	mu sync.Mutex
	m  map[string]rueidis.RedisMessage
}

func (c *MapCache) Get(k string) rueidis.RedisMessage {
	c.mu.Lock()
	defer c.mu.Unlock()
	return c.m[k]
}
func (c *MapCache) Set(k string, v rueidis.RedisMessage) {
	c.mu.Lock()
	if c.m == nil {
		c.m = map[string]rueidis.RedisMessage{}
	}
	c.m[k] = v
	c.mu.Unlock()
}
func (c *MapCache) Del(k string) { c.mu.Lock(); delete(c.m, k); c.mu.Unlock() }
func (c *MapCache) Flush()       { c.mu.Lock(); c.m = nil; c.mu.Unlock() }

func AdapterStore(rueidis.CacheStoreOption) rueidis.CacheStore {
	return rueidis.NewSimpleCacheAdapter(&MapCache{})
}

// SingleClient builds a single (non-cluster) client over one fake server.
// mux is ClientOption.PipelineMultiplex (-1: one connection, k >= 0: 2^k connections).
func SingleClient(s *fakeredis.Server, mux int, adapter, bcast bool, mod func(o *rueidis.ClientOption)) (rueidis.Client, error) {
	o := rueidis.ClientOption{InitAddress: []string{"127.0.0.1:6379"}, DialCtxFn: s.Dial, ForceSingleClient: true,
		PipelineMultiplex: mux, DisableRetry: true, RingScaleEachConn: 6, ReadBufferEachConn: 8192, WriteBufferEachConn: 8192}
	if adapter {
		o.NewCacheStoreFn = AdapterStore
	}
	if bcast {
		o.ClientTrackingOptions = []string{"BCAST"}
	}
	if mod != nil {
		mod(&o)
	}
	return rueidis.NewClient(o)
}

// Hold blocks, inside the server's fault hook, the first command per connection that touches one of
// the held keys, until Release. Signals counts the connections that are blocked.
type Hold struct {
	mu       sync.Mutex
	keys     map[string]bool
	blocked  map[*fakeredis.Conn]bool
	Signals  chan struct{}
	released chan struct{}
	once     sync.Once
	OnlyName map[string]bool // command names that may block (upper case); nil = PTTL, GET, JSON.GET, MGET, JSON.MGET
}

func NewHold(keys []string) *Hold {
	h := &Hold{keys: map[string]bool{}, blocked: map[*fakeredis.Conn]bool{}, Signals: make(chan struct{}, 256), released: make(chan struct{})}
	for _, k := range keys {
		h.keys[k] = true
	}
	return h
}

func (h *Hold) Release() { h.once.Do(func() { close(h.released) }) }

// Fault is a fakeredis fault hook (chain it from Server.Fault / Cluster.Extra).
func (h *Hold) Fault(c *fakeredis.Conn, cseq int, argv []string) fakeredis.Action {
	select {
	case <-h.released:
		return fakeredis.Action{}
	default:
	}
	name := strings.ToUpper(argv[0])
	ok := name == "PTTL" || name == "GET" || name == "JSON.GET" || name == "MGET" || name == "JSON.MGET"
	if h.OnlyName != nil {
		ok = h.OnlyName[name]
	}
	if !ok {
		return fakeredis.Action{}
	}
	hit := false
	for _, k := range keysOf(argv) {
		if h.keys[k] {
			hit = true
		}
	}
	if !hit {
		return fakeredis.Action{}
	}
	h.mu.Lock()
	first := !h.blocked[c]
	h.blocked[c] = true
	h.mu.Unlock()
	if first {
		h.Signals <- struct{}{}
	}
	<-h.released
	return fakeredis.Action{}
}

// WaitSignals waits for n blocked connections (false on timeout).
func (h *Hold) WaitSignals(n int, d time.Duration) bool {
	t := time.NewTimer(d)
	defer t.Stop()
	for i := 0; i < n; i++ {
		select {
		case <-h.Signals:
		case <-t.C:
			return false
		}
	}
	return true
}

// BlockedConns returns the connections currently (or formerly) blocked by the hold.
func (h *Hold) BlockedConns() []*fakeredis.Conn {
	h.mu.Lock()
	defer h.mu.Unlock()
	var out []*fakeredis.Conn
	for c := range h.blocked {
		out = append(out, c)
	}
	return out
}
