package csc

import (
	"context"
	"sync"
	"time"

	"github.com/redis/rueidis"
)

// StoreEvent is one call into the CacheStore of a connection.
type StoreEvent struct {
	Tick int64
	Op   string // flight | update | cancel | delete | close
	Key  string
	Cmd  string
	Kind string // flight: hit | wait | miss
	Err  string // cancel / close: the error text
}

// Recorder wraps every connection's CacheStore (a SimpleCacheAdapter over MapCache) and records the calls
// the client makes into it: which lookups hit / waited / missed, which flights were cancelled with which error.
type Recorder struct {
	mu     sync.Mutex
	events []StoreEvent
	tick   func() int64
	wake   chan struct{}
}

func NewRecorder(tick func() int64) *Recorder {
	return &Recorder{tick: tick, wake: make(chan struct{}, 1)}
}

func (r *Recorder) add(e StoreEvent) {
	r.mu.Lock()
	if r.tick != nil {
		e.Tick = r.tick()
	}
	r.events = append(r.events, e)
	r.mu.Unlock()
	select {
	case r.wake <- struct{}{}:
	default:
	}
}

// Len is the number of events so far (use as a mark).
func (r *Recorder) Len() int { r.mu.Lock(); defer r.mu.Unlock(); return len(r.events) }

// Since returns the events recorded after mark.
func (r *Recorder) Since(mark int) []StoreEvent {
	r.mu.Lock()
	defer r.mu.Unlock()
	if mark > len(r.events) {
		mark = len(r.events)
	}
	return append([]StoreEvent(nil), r.events[mark:]...)
}

// WaitFor polls until pred holds on the events after mark (false on timeout).
func (r *Recorder) WaitFor(mark int, d time.Duration, pred func(evs []StoreEvent) bool) bool {
	deadline := time.Now().Add(d)
	for {
		if pred(r.Since(mark)) {
			return true
		}
		if time.Now().After(deadline) {
			return false
		}
		select {
		case <-r.wake:
		case <-time.After(2 * time.Millisecond):
		}
	}
}

// Store is a rueidis.NewCacheStoreFn.
func (r *Recorder) Store(rueidis.CacheStoreOption) rueidis.CacheStore {
	return &recStore{inner: rueidis.NewSimpleCacheAdapter(&MapCache{}), rec: r}
}

type recStore struct {
	inner rueidis.CacheStore
	rec   *Recorder
}

func (s *recStore) Flight(key, cmd string, ttl time.Duration, now time.Time) (rueidis.RedisMessage, rueidis.CacheEntry) {
	v, e := s.inner.Flight(key, cmd, ttl, now)
	kind := "miss"
	if typ, _, _, _, _, _ := rueidis.VerifCscMsg(v); typ != 0 {
		kind = "hit"
	} else if e != nil {
		kind = "wait"
	}
	s.rec.add(StoreEvent{Op: "flight", Key: key, Cmd: cmd, Kind: kind})
	return v, e
}

func (s *recStore) Update(key, cmd string, val rueidis.RedisMessage) int64 {
	s.rec.add(StoreEvent{Op: "update", Key: key, Cmd: cmd})
	return s.inner.Update(key, cmd, val)
}

func (s *recStore) Cancel(key, cmd string, err error) {
	t := ""
	if err != nil {
		t = err.Error()
	}
	s.rec.add(StoreEvent{Op: "cancel", Key: key, Cmd: cmd, Err: t})
	s.inner.Cancel(key, cmd, err)
}

func (s *recStore) Delete(keys []rueidis.RedisMessage) {
	s.rec.add(StoreEvent{Op: "delete"})
	s.inner.Delete(keys)
}

func (s *recStore) Close(err error) {
	t := ""
	if err != nil {
		t = err.Error()
	}
	s.rec.add(StoreEvent{Op: "close", Err: t})
	s.inner.Close(err)
}

var _ = context.Background
