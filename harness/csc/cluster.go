// Package csc holds what the observers of the csc family share: a small fake cluster built from
// fakeredis servers, JSON.* handlers, client constructors, Gallina printers for messages.
package csc

import (
	"context"
	"crypto/tls"
	"fmt"
	"net"
	"strings"
	"sync"

	"github.com/redis/rueidis"

	"verifharness/fakeredis"
)

// Cluster is N fakeredis servers, each owning a set of slots. A command whose key is not owned by
// the node that receives it is rejected with -MOVED before execution (inside MULTI this poisons the
// transaction, as Redis does).
type Cluster struct {
	mu    sync.Mutex
	Nodes []*fakeredis.Server
	Addrs []string
	owner [16384]int // slot -> node index
	// slots being migrated: the owner answers -ASK <slot> <target>, the target accepts the slot's keys
	// from a connection that has just sent ASKING (the flag covers the next command or the next MULTI…EXEC)
	migrating map[int]int
	asking    map[*fakeredis.Conn]bool
	// Extra lets a test chain its own fault hook (evaluated after routing).
	Extra func(node int, c *fakeredis.Conn, cseq int, argv []string) fakeredis.Action
}

// keyPositions tells which arguments of a command are keys (enough for the commands the observers use).
func keysOf(argv []string) []string {
	if len(argv) < 2 {
		return nil
	}
	switch strings.ToUpper(argv[0]) {
	case "GET", "SET", "PTTL", "TTL", "SETNX", "INCR", "HSET", "HGET", "HGETALL", "EXPIRE", "PEXPIRE", "STRLEN", "GETRANGE",
		"JSON.GET", "JSON.SET", "APPEND", "GETDEL", "TYPE", "PERSIST":
		return argv[1:2]
	case "MGET", "DEL", "UNLINK", "EXISTS":
		return argv[1:]
	case "JSON.MGET":
		return argv[1 : len(argv)-1]
	case "MSET", "MSETNX":
		var ks []string
		for i := 1; i < len(argv); i += 2 {
			ks = append(ks, argv[i])
		}
		return ks
	case "JSON.MSET":
		var ks []string
		for i := 1; i < len(argv); i += 3 {
			ks = append(ks, argv[i])
		}
		return ks
	}
	return nil
}

func Slot(key string) int { return int(rueidis.VerifCscSlot(key)) }

// NewCluster builds n nodes with the 16384 slots dealt out by assign(slot) (nil: contiguous ranges).
func NewCluster(n int, assign func(slot int) int) *Cluster {
	cl := &Cluster{migrating: map[int]int{}, asking: map[*fakeredis.Conn]bool{}}
	for i := 0; i < n; i++ {
		s := fakeredis.New()
		s.Addr = fmt.Sprintf("127.0.0.1:%d", 7001+i)
		cl.Nodes = append(cl.Nodes, s)
		cl.Addrs = append(cl.Addrs, s.Addr)
	}
	for sl := 0; sl < 16384; sl++ {
		if assign != nil {
			cl.owner[sl] = assign(sl) % n
		} else {
			cl.owner[sl] = sl * n / 16384
		}
	}
	for i, s := range cl.Nodes {
		i, s := i, s
		s.Handle("CLUSTER SLOTS", func(c *fakeredis.Conn, argv []string) fakeredis.V { return cl.slotsReply() })
		s.Handle("CLUSTER", func(c *fakeredis.Conn, argv []string) fakeredis.V {
			return fakeredis.Error("ERR unknown subcommand")
		})
		s.Handle("ASKING", func(c *fakeredis.Conn, argv []string) fakeredis.V { return fakeredis.OK() })
		s.Fault = func(c *fakeredis.Conn, cseq int, argv []string) fakeredis.Action {
			name := strings.ToUpper(argv[0])
			cl.mu.Lock()
			asked := cl.asking[c]
			switch name {
			case "ASKING":
				cl.asking[c] = true
			case "MULTI":
			case "EXEC", "DISCARD":
				delete(cl.asking, c)
			default:
				if !c.CscInMulti() {
					delete(cl.asking, c)
				}
			}
			cl.mu.Unlock()
			for _, k := range keysOf(argv) {
				sl := Slot(k)
				cl.mu.Lock()
				o := cl.owner[sl]
				tgt, mig := cl.migrating[sl]
				cl.mu.Unlock()
				var e fakeredis.V
				switch {
				case o == i && mig:
					e = fakeredis.Error(fmt.Sprintf("ASK %d %s", sl, cl.Addrs[tgt]))
				case o == i:
					continue
				case mig && tgt == i && asked:
					continue
				default:
					e = fakeredis.Error(fmt.Sprintf("MOVED %d %s", sl, cl.Addrs[o]))
				}
				c.CscPoison()
				return fakeredis.Action{Override: &e}
			}
			if cl.Extra != nil {
				return cl.Extra(i, c, cseq, argv)
			}
			return fakeredis.Action{}
		}
	}
	return cl
}

// Owner returns the node index owning the slot of key.
func (cl *Cluster) Owner(key string) int {
	cl.mu.Lock()
	defer cl.mu.Unlock()
	return cl.owner[Slot(key)]
}

// Migrate puts the slot of key into the migrating state towards node target.
func (cl *Cluster) Migrate(key string, target int) {
	cl.mu.Lock()
	cl.migrating[Slot(key)] = target
	cl.mu.Unlock()
}

// Move reassigns the slot of key to node (data is copied by the caller if wanted).
func (cl *Cluster) Move(key string, node int) {
	cl.mu.Lock()
	cl.owner[Slot(key)] = node
	cl.mu.Unlock()
}

func (cl *Cluster) slotsReply() fakeredis.V {
	cl.mu.Lock()
	defer cl.mu.Unlock()
	var out []fakeredis.V
	start := 0
	for sl := 1; sl <= 16384; sl++ {
		if sl == 16384 || cl.owner[sl] != cl.owner[start] {
			o := cl.owner[start]
			host, port := "127.0.0.1", int64(7001+o)
			out = append(out, fakeredis.Arr(fakeredis.Int(int64(start)), fakeredis.Int(int64(sl-1)),
				fakeredis.Arr(fakeredis.Bulk(host), fakeredis.Int(port), fakeredis.Bulk(fmt.Sprintf("node%d", o)))))
			start = sl
		}
	}
	return fakeredis.Arr(out...)
}

// Dial routes by the address being dialled.
func (cl *Cluster) Dial(ctx context.Context, dst string, d *net.Dialer, t *tls.Config) (net.Conn, error) {
	for i, a := range cl.Addrs {
		if a == dst {
			return cl.Nodes[i].Dial(ctx, dst, d, t)
		}
	}
	return nil, fmt.Errorf("fake cluster: unknown address %s", dst)
}

// NewClient returns a cluster client over the fake cluster.
func (cl *Cluster) NewClient(mod func(o *rueidis.ClientOption)) (rueidis.Client, error) {
	o := rueidis.ClientOption{InitAddress: []string{cl.Addrs[0]}, DialCtxFn: cl.Dial, DisableRetry: true,
		RingScaleEachConn: 6, ReadBufferEachConn: 8192, WriteBufferEachConn: 8192}
	if mod != nil {
		mod(&o)
	}
	return rueidis.NewClient(o)
}

// RegisterJSON adds JSON.GET / JSON.MGET / JSON.SET / JSON.MSET storing documents as strings; a read
// returns "<doc>@<path>" so that a wrong path or key is visible in the value.
func RegisterJSON(s *fakeredis.Server) {
	get := func(c *fakeredis.Conn, k, path string) fakeredis.V {
		s.Track(c, k)
		it := s.Get(k)
		if it == nil {
			return fakeredis.Nil()
		}
		if it.Kind != "json" {
			return fakeredis.Error("WRONGTYPE Operation against a key holding the wrong kind of value")
		}
		return fakeredis.Bulk(it.Str + "@" + path)
	}
	s.Handle("JSON.GET", func(c *fakeredis.Conn, a []string) fakeredis.V {
		if len(a) < 2 {
			return fakeredis.Error("ERR wrong number of arguments for 'json.get' command")
		}
		p := "$"
		if len(a) > 2 {
			p = a[2]
		}
		return get(c, a[1], p)
	})
	s.Handle("JSON.MGET", func(c *fakeredis.Conn, a []string) fakeredis.V {
		if len(a) < 3 {
			return fakeredis.Error("ERR wrong number of arguments for 'json.mget' command")
		}
		p := a[len(a)-1]
		var out []fakeredis.V
		for _, k := range a[1 : len(a)-1] {
			v := get(c, k, p)
			if v.T == '-' {
				v = fakeredis.Nil()
			}
			out = append(out, v)
		}
		return fakeredis.Arr(out...)
	})
	s.Handle("JSON.SET", func(c *fakeredis.Conn, a []string) fakeredis.V {
		if len(a) < 4 {
			return fakeredis.Error("ERR wrong number of arguments for 'json.set' command")
		}
		s.Put(c, a[1], &fakeredis.Item{Kind: "json", Str: a[3]})
		return fakeredis.OK()
	})
	s.Handle("JSON.MSET", func(c *fakeredis.Conn, a []string) fakeredis.V {
		if len(a) < 4 || (len(a)-1)%3 != 0 {
			return fakeredis.Error("ERR wrong number of arguments for 'json.mset' command")
		}
		for i := 1; i < len(a); i += 3 {
			s.Put(c, a[i], &fakeredis.Item{Kind: "json", Str: a[i+2]})
		}
		return fakeredis.OK()
	})
	s.Handle("MSETNX", func(c *fakeredis.Conn, a []string) fakeredis.V {
		if len(a) < 3 || len(a)%2 != 1 {
			return fakeredis.Error("ERR wrong number of arguments for 'msetnx' command")
		}
		for i := 1; i < len(a); i += 2 {
			if s.Get(a[i]) != nil {
				return fakeredis.Int(0)
			}
		}
		for i := 1; i < len(a); i += 2 {
			s.Put(c, a[i], &fakeredis.Item{Kind: "string", Str: a[i+1]})
		}
		return fakeredis.Int(1)
	})
}
