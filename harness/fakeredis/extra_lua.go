package fakeredis

// Commands needed by the repository's Lua scripts that core.go does not have, plus two accessors
// for extensions.  Owned by the scripting builder (registered by scripting.Install); core files are
// not edited.  BITFIELD / BITFIELD_RO (GET / SET of u1..u63 / i1..i64), TIME (virtual clock), RENAME,
// DECRBY, and a tiny RedisJSON subset (JSON.SET at the root, JSON.GET / JSON.NUMINCRBY on the root or
// one top-level member) for om's jsonSaveScript.  Everything outside those shapes fails closed with
// "ERR fakeredis: unsupported …".

import (
	"bytes"
	"encoding/json"
	"strconv"
	"strings"
)

// NowLocked returns the virtual clock; the server lock must be held (handlers, extensions).
func (s *Server) NowLocked() int64 { return s.now }

// CSeqLocked is the per-connection sequence number of the command being executed (lock held).
func (c *Conn) CSeqLocked() int { return c.cseq }

// HasHandler reports whether a command (or "CMD SUB") is registered.
func (s *Server) HasHandler(name string) bool { _, ok := s.handlers[strings.ToUpper(name)]; return ok }

// Dummy returns a connection object that is not attached to any socket: extensions use it to run
// commands on behalf of "nobody" (unit tests, direct script evaluation).
func (s *Server) Dummy() *Conn {
	c := &Conn{ID: 0, S: s, Node: s.Addr, Proto: 2, Authed: true,
		subs: map[string]bool{}, psubs: map[string]bool{}, ssubs: map[string]bool{}, Ext: map[string]any{}}
	c.closed.Store(true) // nothing is ever sent to it
	return c
}

// RegisterScriptCommands adds the commands listed above when they are not registered yet.
func RegisterScriptCommands(s *Server) {
	add := func(name string, h Handler) {
		if !s.HasHandler(name) {
			s.Handle(name, h)
		}
	}
	add("TIME", func(c *Conn, a []string) V {
		return Bulks(strconv.FormatInt(s.now/1000, 10), strconv.FormatInt((s.now%1000)*1000, 10))
	})
	add("DECRBY", func(c *Conn, a []string) V {
		if len(a) != 3 {
			return wrongArgs("decrby")
		}
		n, ok := atoi(a[2])
		if !ok || n == -1<<63 {
			return notInt
		}
		return s.handlers["INCRBY"](c, []string{"INCRBY", a[1], strconv.FormatInt(-n, 10)})
	})
	add("RENAME", func(c *Conn, a []string) V {
		if len(a) != 3 {
			return wrongArgs("rename")
		}
		it := s.get(a[1])
		if it == nil {
			return Error("ERR no such key")
		}
		if a[1] == a[2] {
			return OK()
		}
		delete(s.DB, a[1])
		s.touch(c, a[1])
		s.DB[a[2]] = it
		s.touch(c, a[2])
		return OK()
	})
	add("BITFIELD", func(c *Conn, a []string) V { return s.bitfield(c, a, false) })
	add("BITFIELD_RO", func(c *Conn, a []string) V { return s.bitfield(c, a, true) })
	add("JSON.SET", s.jsonSet)
	add("JSON.GET", s.jsonGet)
	add("JSON.NUMINCRBY", s.jsonNumIncrBy)
}

// ---- BITFIELD ----

func parseBitType(t string) (bits int, signed bool, ok bool) {
	if len(t) < 2 {
		return 0, false, false
	}
	switch t[0] {
	case 'u', 'U':
	case 'i', 'I':
		signed = true
	default:
		return 0, false, false
	}
	n, err := strconv.Atoi(t[1:])
	if err != nil || n < 1 || (signed && n > 64) || (!signed && n > 63) {
		return 0, false, false
	}
	return n, signed, true
}

var errBitType = Error("ERR Invalid bitfield type. Use something like i16 u8. Note that u64 is not supported but i64 is.")
var errBitOffset = Error("ERR bit offset is not an integer or out of range")

func parseBitOffset(o string, bits int) (int64, bool) {
	mul := int64(1)
	if strings.HasPrefix(o, "#") {
		mul = int64(bits)
		o = o[1:]
	}
	n, ok := atoi(o)
	if !ok || n < 0 {
		return 0, false
	}
	n *= mul
	if n+int64(bits) > 1<<32 { // 512 MiB limit of Redis strings
		return 0, false
	}
	return n, true
}

func getBits(b []byte, off int64, bits int) uint64 {
	var v uint64
	for i := 0; i < bits; i++ {
		p := off + int64(i)
		bit := uint64(0)
		if int(p>>3) < len(b) && b[p>>3]&(0x80>>uint(p&7)) != 0 {
			bit = 1
		}
		v = v<<1 | bit
	}
	return v
}

func (s *Server) bitfield(c *Conn, a []string, ro bool) V {
	name := "bitfield"
	if ro {
		name = "bitfield_ro"
	}
	if len(a) < 2 {
		return wrongArgs(name)
	}
	type op struct {
		set    bool
		bits   int
		signed bool
		off    int64
		val    int64
	}
	var ops []op
	for i := 2; i < len(a); {
		switch strings.ToUpper(a[i]) {
		case "GET":
			if i+2 >= len(a) {
				return Error("ERR syntax error")
			}
			bits, signed, ok := parseBitType(a[i+1])
			if !ok {
				return errBitType
			}
			off, ok := parseBitOffset(a[i+2], bits)
			if !ok {
				return errBitOffset
			}
			ops = append(ops, op{bits: bits, signed: signed, off: off})
			i += 3
		case "SET":
			if ro {
				return Error("ERR BITFIELD_RO only supports the GET subcommand")
			}
			if i+3 >= len(a) {
				return Error("ERR syntax error")
			}
			bits, signed, ok := parseBitType(a[i+1])
			if !ok {
				return errBitType
			}
			off, ok := parseBitOffset(a[i+2], bits)
			if !ok {
				return errBitOffset
			}
			v, ok := atoi(a[i+3])
			if !ok {
				return notInt
			}
			ops = append(ops, op{set: true, bits: bits, signed: signed, off: off, val: v})
			i += 4
		case "INCRBY", "OVERFLOW":
			if ro {
				return Error("ERR BITFIELD_RO only supports the GET subcommand")
			}
			return Error("ERR fakeredis: unsupported BITFIELD subcommand " + strings.ToUpper(a[i]))
		default:
			return Error("ERR syntax error")
		}
	}
	s.track(c, a[1])
	it := s.get(a[1])
	var b []byte
	var px int64
	if it != nil {
		if it.Kind != "string" {
			return wrongType
		}
		b, px = []byte(it.Str), it.PXAT
	}
	out := make([]V, 0, len(ops))
	wrote := false
	for _, o := range ops {
		raw := getBits(b, o.off, o.bits)
		old := int64(raw)
		if o.signed && o.bits < 64 && raw&(1<<uint(o.bits-1)) != 0 {
			old = int64(raw) - (1 << uint(o.bits))
		}
		out = append(out, Int(old))
		if !o.set {
			continue
		}
		wrote = true
		last := o.off + int64(o.bits) - 1
		for int64(len(b)) <= last>>3 {
			b = append(b, 0)
		}
		uv := uint64(o.val)
		for i := 0; i < o.bits; i++ {
			p := o.off + int64(i)
			mask := byte(0x80 >> uint(p&7))
			if uv>>(uint(o.bits-1-i))&1 == 1 {
				b[p>>3] |= mask
			} else {
				b[p>>3] &^= mask
			}
		}
	}
	if wrote {
		s.Put(c, a[1], &Item{Kind: "string", Str: string(b), PXAT: px})
	}
	return Arr(out...)
}

// ---- tiny RedisJSON ----

const jsonKind = "ReJSON-RL"

type jsonMember struct {
	k string
	v json.RawMessage
}

// parseTopObject splits a JSON object into its members, in order.
func parseTopObject(doc string) ([]jsonMember, bool) {
	dec := json.NewDecoder(strings.NewReader(doc))
	dec.UseNumber()
	tok, err := dec.Token()
	if d, ok := tok.(json.Delim); err != nil || !ok || d != '{' {
		return nil, false
	}
	var out []jsonMember
	for dec.More() {
		kt, err := dec.Token()
		k, ok := kt.(string)
		if err != nil || !ok {
			return nil, false
		}
		var raw json.RawMessage
		if err := dec.Decode(&raw); err != nil {
			return nil, false
		}
		out = append(out, jsonMember{k, raw})
	}
	return out, true
}

func renderTopObject(ms []jsonMember) string {
	var sb bytes.Buffer
	sb.WriteByte('{')
	for i, m := range ms {
		if i > 0 {
			sb.WriteByte(',')
		}
		kb, _ := json.Marshal(m.k)
		sb.Write(kb)
		sb.WriteByte(':')
		sb.Write(m.v)
	}
	sb.WriteByte('}')
	return sb.String()
}

// jsonPath: "" = root; otherwise one top-level member. legacy = path does not start with '$'.
func jsonPath(p string) (member string, legacy bool, ok bool) {
	switch {
	case p == "$":
		return "", false, true
	case p == ".":
		return "", true, true
	case strings.HasPrefix(p, "$."):
		member = p[2:]
	case strings.HasPrefix(p, "."):
		member, legacy = p[1:], true
	default:
		member, legacy = p, true
	}
	if member == "" || strings.ContainsAny(member, ".[]*'\" ") {
		return "", false, false
	}
	return member, legacy, true
}

func errJSONPath(p string) V { return Error("ERR fakeredis: unsupported JSON path '" + p + "'") }

func (s *Server) jsonSet(c *Conn, a []string) V {
	if len(a) < 4 {
		return wrongArgs("json.set")
	}
	if len(a) > 4 {
		return Error("ERR fakeredis: unsupported JSON.SET option " + a[4])
	}
	member, _, ok := jsonPath(a[2])
	if !ok || member != "" {
		return errJSONPath(a[2])
	}
	var buf bytes.Buffer
	if err := json.Compact(&buf, []byte(a[3])); err != nil {
		return Error("ERR expected value at line 1 column 1")
	}
	if old := s.get(a[1]); old != nil && old.Kind != jsonKind {
		return Error("WRONGTYPE Operation against a key holding the wrong kind of value")
	}
	var px int64
	if old := s.get(a[1]); old != nil {
		px = old.PXAT
	}
	s.Put(c, a[1], &Item{Kind: jsonKind, Str: buf.String(), PXAT: px})
	return OK()
}

func (s *Server) jsonGet(c *Conn, a []string) V {
	if len(a) < 2 {
		return wrongArgs("json.get")
	}
	if len(a) > 3 {
		return Error("ERR fakeredis: unsupported JSON.GET with several paths or options")
	}
	path := "."
	if len(a) == 3 {
		path = a[2]
	}
	s.track(c, a[1])
	it := s.get(a[1])
	if it == nil {
		return Nil()
	}
	if it.Kind != jsonKind {
		return Error("WRONGTYPE Operation against a key holding the wrong kind of value")
	}
	member, legacy, ok := jsonPath(path)
	if !ok {
		return errJSONPath(path)
	}
	if member == "" {
		if legacy {
			return Bulk(it.Str)
		}
		return Bulk("[" + it.Str + "]")
	}
	ms, ok := parseTopObject(it.Str)
	if ok {
		for _, m := range ms {
			if m.k == member {
				if legacy {
					return Bulk(string(m.v))
				}
				return Bulk("[" + string(m.v) + "]")
			}
		}
	}
	if legacy {
		return Error("ERR Path '$." + member + "' does not exist")
	}
	return Bulk("[]")
}

func (s *Server) jsonNumIncrBy(c *Conn, a []string) V {
	if len(a) != 4 {
		return wrongArgs("json.numincrby")
	}
	it := s.get(a[1])
	if it == nil {
		return Error("ERR could not perform this operation on a key that doesn't exist")
	}
	if it.Kind != jsonKind {
		return Error("WRONGTYPE Operation against a key holding the wrong kind of value")
	}
	member, legacy, ok := jsonPath(a[2])
	if !ok || member == "" {
		return errJSONPath(a[2])
	}
	by, ok := atoi(a[3])
	if !ok {
		return Error("ERR fakeredis: unsupported JSON.NUMINCRBY with a non-integer increment")
	}
	ms, ok := parseTopObject(it.Str)
	if !ok {
		return Error("ERR Path '$." + member + "' does not exist")
	}
	for i, m := range ms {
		if m.k != member {
			continue
		}
		cur, ok := atoi(string(m.v))
		if !ok {
			if len(m.v) > 0 && (m.v[0] == '-' || (m.v[0] >= '0' && m.v[0] <= '9')) {
				return Error("ERR fakeredis: unsupported JSON.NUMINCRBY on a non-integer number")
			}
			if legacy {
				return Error("ERR wrong type of path value - expected a number but found " + jsonTypeName(m.v))
			}
			return Bulk("[null]")
		}
		nv := strconv.FormatInt(cur+by, 10)
		ms[i].v = json.RawMessage(nv)
		s.Put(c, a[1], &Item{Kind: jsonKind, Str: renderTopObject(ms), PXAT: it.PXAT})
		if legacy {
			return Bulk(nv)
		}
		return Bulk("[" + nv + "]")
	}
	if legacy {
		return Error("ERR Path '$." + member + "' does not exist")
	}
	return Bulk("[]")
}

func jsonTypeName(v json.RawMessage) string {
	if len(v) == 0 {
		return "null"
	}
	switch v[0] {
	case '"':
		return "string"
	case '{':
		return "object"
	case '[':
		return "array"
	case 't', 'f':
		return "boolean"
	}
	return "null"
}
