package fakeredis

import (
	"bufio"
	"context"
	"crypto/tls"
	"net"
	"strings"
	"sync"
	"sync/atomic"
	"time"
)

// Entry is one executed command in the server's total order.
type Entry struct {
	Seq   int64    // global sequence number (position in the total order)
	Conn  int      // connection id
	CSeq  int      // per-connection sequence number
	Argv  []string // as received
	InTx  bool     // executed inside EXEC
	Reply V
	Node  string // address the connection was dialled for
}

// Action is what a fault hook asks the server to do with one received command.
type Action struct {
	Delay         time.Duration // sleep before executing
	DelayReply    time.Duration // sleep after executing, before replying
	CloseBefore   bool          // close the connection instead of executing
	CloseAfter    bool          // execute, then close without replying
	CloseMidReply int           // >0: write only that many bytes of the reply, then close
	Override      *V            // reply with this instead of executing
	Drop          bool          // execute but never reply (stall)
}

type Handler func(c *Conn, argv []string) V

type Server struct {
	mu        sync.Mutex // guards everything below: one total order of executed commands
	Addr      string
	handlers  map[string]Handler
	DB        map[string]*Item
	now       int64 // virtual clock, unix ms
	log       []Entry
	seq       int64
	conns     map[int]*Conn
	nextConn  int
	channels  map[string]map[*Conn]bool
	patterns  map[string]map[*Conn]bool
	schannels map[string]map[*Conn]bool
	tracked   map[string]map[*Conn]bool // key -> connections that must be told when it changes
	Versions  map[string]int64          // key -> number of writes so far (for staleness oracles)

	// configuration
	NoHello  bool                                          // answer HELLO with "unknown command" (forces the RESP2 path)
	Version  string                                        // redis_version reported by HELLO / INFO
	Password string                                        // "" = no auth required
	Role     string                                        // "master" / "slave" (ROLE, INFO)
	Fault    func(c *Conn, cseq int, argv []string) Action // may be nil
	OnExec   func(e Entry)                                 // called under the lock after each command
	Accepts  int32
	Cluster  any // extension state (cluster / sentinel), owned by the extension
}

type Item struct {
	Kind string // "string" | "hash" | "set" | "list" | "zset"
	Str  string
	Hash map[string]string
	Set  map[string]bool
	List []string
	PXAT int64 // 0 = no expiry; unix ms on the virtual clock
}

type Conn struct {
	ID      int
	S       *Server
	Node    string
	nc      net.Conn
	ob      outbox
	pending []V // pushes for this connection produced while it executes a command: sent after the reply
	closed  atomic.Bool
	Proto   int
	Authed  bool
	Name    string
	DB      int
	cseq    int
	// tracking
	Tracking                     bool
	OptIn, OptOut, BCast, NoLoop bool
	Prefixes                     []string
	cachingNext                  bool // CLIENT CACHING YES seen: the next command (or transaction) is tracked
	Redirect                     int
	// MULTI
	inMulti bool
	queued  [][]string
	dirty   bool
	// pub/sub
	subs, psubs, ssubs map[string]bool
	ReadOnly           bool
	Asking             bool
	Log                []Entry
	Ext                map[string]any
	sentBytes          int64
}

func New() *Server {
	s := &Server{
		Addr: "127.0.0.1:6379", handlers: map[string]Handler{}, DB: map[string]*Item{}, now: 1_700_000_000_000,
		conns: map[int]*Conn{}, channels: map[string]map[*Conn]bool{}, patterns: map[string]map[*Conn]bool{},
		schannels: map[string]map[*Conn]bool{}, tracked: map[string]map[*Conn]bool{}, Versions: map[string]int64{},
		Version: "7.2.4", Role: "master",
	}
	registerCore(s)
	return s
}

// Handle registers (or replaces) the handler of a command. Name is upper case; sub-commands use "CLIENT TRACKING".
func (s *Server) Handle(name string, h Handler) { s.handlers[strings.ToUpper(name)] = h }

// Lock/Unlock give extensions and oracles access to the state.
func (s *Server) Lock()   { s.mu.Lock() }
func (s *Server) Unlock() { s.mu.Unlock() }

// Now returns the virtual clock (unix ms). Advance moves it and expires nothing eagerly
// (expiry is lazy, evaluated against the clock on access) but sends the invalidations Redis
// would send for tracked keys that expired.
func (s *Server) Now() int64 { s.mu.Lock(); defer s.mu.Unlock(); return s.now }
func (s *Server) Advance(ms int64) {
	s.mu.Lock()
	defer s.mu.Unlock()
	s.now += ms
	for _, k := range sortedKeys(s.DB) {
		if it := s.DB[k]; it.PXAT != 0 && it.PXAT <= s.now {
			delete(s.DB, k)
			s.touch(nil, k)
		}
	}
}

// LogCopy returns the total order of executed commands so far.
func (s *Server) LogCopy() []Entry {
	s.mu.Lock()
	defer s.mu.Unlock()
	return append([]Entry(nil), s.log...)
}

func (s *Server) ConnCount() int { s.mu.Lock(); defer s.mu.Unlock(); return len(s.conns) }

// Conns returns the live connections.
func (s *Server) Conns() []*Conn {
	s.mu.Lock()
	defer s.mu.Unlock()
	out := make([]*Conn, 0, len(s.conns))
	for _, c := range s.conns {
		out = append(out, c)
	}
	return out
}

// Dial is a ClientOption.DialCtxFn.
func (s *Server) Dial(ctx context.Context, dst string, _ *net.Dialer, _ *tls.Config) (net.Conn, error) {
	if err := ctx.Err(); err != nil {
		return nil, err
	}
	cli, srv := net.Pipe()
	s.Serve(srv, dst)
	return cli, nil
}

// Serve runs the protocol on an accepted connection.
func (s *Server) Serve(nc net.Conn, node string) *Conn {
	s.mu.Lock()
	s.nextConn++
	c := &Conn{ID: s.nextConn, S: s, Node: node, nc: nc, Proto: 2,
		subs: map[string]bool{}, psubs: map[string]bool{}, ssubs: map[string]bool{}, Ext: map[string]any{}}
	c.Authed = s.Password == ""
	c.ob.cond = sync.NewCond(&c.ob.mu)
	s.conns[c.ID] = c
	s.mu.Unlock()
	atomic.AddInt32(&s.Accepts, 1)
	go c.writer()
	go c.reader()
	return c
}

type outItem struct {
	b         []byte
	notBefore time.Time
	stop      bool
}

// outbox is an unbounded FIFO so that server logic never blocks on a slow client.
type outbox struct {
	mu   sync.Mutex
	cond *sync.Cond
	q    []outItem
	done bool
}

func (o *outbox) put(it outItem) {
	o.mu.Lock()
	if !o.done {
		o.q = append(o.q, it)
	}
	o.mu.Unlock()
	o.cond.Signal()
}

func (o *outbox) get() (outItem, bool) {
	o.mu.Lock()
	defer o.mu.Unlock()
	for len(o.q) == 0 && !o.done {
		o.cond.Wait()
	}
	if len(o.q) == 0 {
		return outItem{}, false
	}
	it := o.q[0]
	o.q = o.q[1:]
	return it, true
}

func (o *outbox) shut() {
	o.mu.Lock()
	o.done = true
	o.q = nil
	o.mu.Unlock()
	o.cond.Broadcast()
}

func (c *Conn) writer() {
	for {
		it, ok := c.ob.get()
		if !ok || it.stop {
			break
		}
		if d := time.Until(it.notBefore); d > 0 {
			time.Sleep(d)
		}
		if _, err := c.nc.Write(it.b); err != nil {
			break
		}
		atomic.AddInt64(&c.sentBytes, int64(len(it.b)))
	}
	c.nc.Close()
	c.ob.shut()
}

// Close closes the connection from the server side after flushing what is queued.
// Must not be called with the server lock held.
func (c *Conn) Close() {
	if c.closed.CompareAndSwap(false, true) {
		c.ob.put(outItem{stop: true})
		c.S.mu.Lock()
		c.S.dropConn(c)
		c.S.mu.Unlock()
	}
}

// Kill closes the connection immediately, dropping queued output.
// Must not be called with the server lock held.
func (c *Conn) Kill() {
	if c.closed.CompareAndSwap(false, true) {
		c.nc.Close()
		c.ob.shut()
		c.S.mu.Lock()
		c.S.dropConn(c)
		c.S.mu.Unlock()
	}
}

func (s *Server) dropConn(c *Conn) {
	delete(s.conns, c.ID)
	for _, m := range []map[string]map[*Conn]bool{s.channels, s.patterns, s.schannels, s.tracked} {
		for k, set := range m {
			delete(set, c)
			if len(set) == 0 {
				delete(m, k)
			}
		}
	}
}

func (c *Conn) send(v V) {
	if c.closed.Load() {
		return
	}
	c.ob.put(outItem{b: Encode(nil, v, c.Proto)})
}

func (c *Conn) sendDelayed(v V, d time.Duration) {
	if c.closed.Load() {
		return
	}
	c.ob.put(outItem{b: Encode(nil, v, c.Proto), notBefore: time.Now().Add(d)})
}

func (c *Conn) sendRaw(b []byte) {
	if c.closed.Load() {
		return
	}
	c.ob.put(outItem{b: b})
}

// SendRaw lets tests inject arbitrary bytes (malformed replies, pushes) into the connection.
func (c *Conn) SendRaw(b []byte) { c.sendRaw(b) }

// SendPush sends an out-of-band push frame (RESP3) or array (RESP2).
func (c *Conn) SendPush(v V) { c.send(v) }

func (c *Conn) reader() {
	r := bufio.NewReaderSize(c.nc, 1<<16)
	defer func() {
		if c.closed.CompareAndSwap(false, true) {
			c.ob.put(outItem{stop: true})
			c.S.mu.Lock()
			c.S.dropConn(c)
			c.S.mu.Unlock()
		}
	}()
	for {
		argv, err := ReadCommand(r)
		if err != nil {
			return
		}
		if len(argv) == 0 {
			continue
		}
		c.cseq++
		var act Action
		if f := c.S.Fault; f != nil {
			act = f(c, c.cseq, argv)
		}
		if act.Delay > 0 {
			time.Sleep(act.Delay)
		}
		if act.CloseBefore {
			c.Kill()
			return
		}
		// Execution and the queuing of the reply happen under the server lock, so the order of
		// frames on every connection is consistent with the total order of executed commands
		// (as in single-threaded Redis). DelayReply is delivery latency: it keeps the order.
		c.S.mu.Lock()
		var reply V
		var noReply bool
		if act.Override != nil {
			reply = *act.Override
			c.S.record(c, argv, reply, false)
		} else {
			reply, noReply = c.S.dispatch(c, argv)
		}
		switch {
		case act.CloseAfter, act.Drop, noReply:
		case act.CloseMidReply > 0:
			b := Encode(nil, reply, c.Proto)
			if act.CloseMidReply < len(b) {
				b = b[:act.CloseMidReply]
			}
			c.sendRaw(b)
		case act.DelayReply > 0:
			c.sendDelayed(reply, act.DelayReply)
		default:
			c.send(reply)
		}
		for _, p := range c.pending {
			c.send(p)
		}
		c.pending = c.pending[:0]
		c.S.mu.Unlock()
		if act.CloseAfter {
			c.Kill()
			return
		}
		if act.CloseMidReply > 0 {
			c.Close()
			return
		}
	}
}

func (s *Server) record(c *Conn, argv []string, reply V, inTx bool) {
	s.seq++
	e := Entry{Seq: s.seq, Conn: c.ID, CSeq: c.cseq, Argv: argv, InTx: inTx, Reply: reply, Node: c.Node}
	s.log = append(s.log, e)
	c.Log = append(c.Log, e)
	if s.OnExec != nil {
		s.OnExec(e)
	}
}

// dispatch executes one command under the lock. noReply = the command produces no direct reply
// (RESP3 subscribe family: confirmations are pushes sent by the handler).
func (s *Server) dispatch(c *Conn, argv []string) (reply V, noReply bool) {
	name := strings.ToUpper(argv[0])
	if !c.Authed && name != "AUTH" && name != "HELLO" && name != "QUIT" {
		reply = Error("NOAUTH Authentication required.")
		s.record(c, argv, reply, false)
		return reply, false
	}
	if c.inMulti && name != "EXEC" && name != "DISCARD" && name != "MULTI" && name != "WATCH" {
		if s.lookup(argv) == nil {
			c.dirty = true
			reply = Error("ERR unknown command '" + argv[0] + "'")
		} else {
			c.queued = append(c.queued, argv)
			reply = Simple("QUEUED")
		}
		s.record(c, argv, reply, false)
		return reply, false
	}
	h := s.lookup(argv)
	if h == nil {
		reply = Error("ERR unknown command '" + argv[0] + "'")
		s.record(c, argv, reply, false)
		return reply, false
	}
	reply = h(c, argv)
	if reply.T == 0 {
		noReply = true
	}
	s.record(c, argv, reply, false)
	s.afterCommand(c, name)
	return reply, noReply
}

func (s *Server) lookup(argv []string) Handler {
	name := strings.ToUpper(argv[0])
	if len(argv) > 1 {
		if h, ok := s.handlers[name+" "+strings.ToUpper(argv[1])]; ok {
			return h
		}
	}
	return s.handlers[name]
}

// Exec runs a command on behalf of a connection from inside another handler (EXEC, scripts).
func (s *Server) Exec(c *Conn, argv []string, inTx bool) V {
	h := s.lookup(argv)
	if h == nil {
		return Error("ERR unknown command '" + argv[0] + "'")
	}
	v := h(c, argv)
	if inTx {
		s.seq++
		e := Entry{Seq: s.seq, Conn: c.ID, CSeq: c.cseq, Argv: argv, InTx: true, Reply: v, Node: c.Node}
		s.log = append(s.log, e)
		c.Log = append(c.Log, e)
		if s.OnExec != nil {
			s.OnExec(e)
		}
	}
	return v
}

// afterCommand: the CLIENT CACHING YES flag covers exactly the next command (or the next transaction).
func (s *Server) afterCommand(c *Conn, name string) {
	if name == "CLIENT" || name == "MULTI" || c.inMulti {
		return
	}
	c.cachingNext = false
}
