// Package fakeredis is an in-process Redis server reached through ClientOption.DialCtxFn.
// It is our reading of the Redis protocol (trusted for the tie only): one total order of executed
// commands (the server log), per-connection logs, RESP2/RESP3, client tracking with invalidation
// pushes, pub/sub, MULTI/EXEC, a virtual clock, fault injection and reply tagging.
// Extensions (scripting, cluster, sentinel, …) register handlers with Server.Handle.
package fakeredis

import (
	"bufio"
	"errors"
	"fmt"
	"io"
	"sort"
	"strconv"
)

// V is a reply value. T is the RESP3 type byte: '+' '-' ':' '$' '*' '%' '~' '>' '_' '#' ',' '(' '=' .
type V struct {
	T    byte
	S    string
	I    int64
	A    []V
	Null bool // RESP2-style null for '$' / '*' when the connection speaks RESP2
}

func Simple(s string) V { return V{T: '+', S: s} }
func Error(s string) V  { return V{T: '-', S: s} }
func Int(i int64) V     { return V{T: ':', I: i} }
func Bulk(s string) V   { return V{T: '$', S: s} }
func Nil() V            { return V{T: '_'} }
func Arr(a ...V) V      { return V{T: '*', A: a} }
func Map(a ...V) V      { return V{T: '%', A: a} } // flattened key, value, key, value …
func Set(a ...V) V      { return V{T: '~', A: a} }
func Push(a ...V) V     { return V{T: '>', A: a} }
func Double(s string) V { return V{T: ',', S: s} }
func Boolean(b bool) V {
	v := V{T: '#'}
	if b {
		v.I = 1
	}
	return v
}
func Bulks(ss ...string) V {
	a := make([]V, len(ss))
	for i, s := range ss {
		a[i] = Bulk(s)
	}
	return Arr(a...)
}
func OK() V { return Simple("OK") }

// Encode writes v for the given protocol version (2 or 3).
func Encode(dst []byte, v V, proto int) []byte {
	switch v.T {
	case '+', '-':
		dst = append(dst, v.T)
		dst = append(dst, v.S...)
		return append(dst, '\r', '\n')
	case ':':
		dst = append(dst, ':')
		dst = strconv.AppendInt(dst, v.I, 10)
		return append(dst, '\r', '\n')
	case '$', '=':
		dst = append(dst, '$')
		dst = strconv.AppendInt(dst, int64(len(v.S)), 10)
		dst = append(dst, '\r', '\n')
		dst = append(dst, v.S...)
		return append(dst, '\r', '\n')
	case '_':
		if proto < 3 {
			return append(dst, "$-1\r\n"...)
		}
		return append(dst, "_\r\n"...)
	case '#':
		if proto < 3 {
			return Encode(dst, Int(v.I), proto)
		}
		if v.I != 0 {
			return append(dst, "#t\r\n"...)
		}
		return append(dst, "#f\r\n"...)
	case ',', '(':
		if proto < 3 {
			return Encode(dst, Bulk(v.S), proto)
		}
		dst = append(dst, v.T)
		dst = append(dst, v.S...)
		return append(dst, '\r', '\n')
	case '*', '~', '>', '%':
		t := v.T
		n := len(v.A)
		if proto < 3 {
			t = '*'
		} else if t == '%' {
			n /= 2
		}
		dst = append(dst, t)
		dst = strconv.AppendInt(dst, int64(n), 10)
		dst = append(dst, '\r', '\n')
		for _, e := range v.A {
			dst = Encode(dst, e, proto)
		}
		return dst
	}
	panic(fmt.Sprintf("fakeredis: cannot encode type %q", v.T))
}

var errProto = errors.New("fakeredis: protocol error")

// ReadCommand reads one RESP array of bulk strings.
func ReadCommand(r *bufio.Reader) ([]string, error) {
	line, err := readLine(r)
	if err != nil {
		return nil, err
	}
	if len(line) < 2 || line[0] != '*' {
		return nil, errProto
	}
	n, err := strconv.Atoi(string(line[1:]))
	if err != nil || n < 0 || n > 1<<22 {
		return nil, errProto
	}
	argv := make([]string, 0, n)
	for i := 0; i < n; i++ {
		line, err = readLine(r)
		if err != nil {
			return nil, err
		}
		if len(line) < 2 || line[0] != '$' {
			return nil, errProto
		}
		l, err := strconv.Atoi(string(line[1:]))
		if err != nil || l < 0 || l > 1<<30 {
			return nil, errProto
		}
		buf := make([]byte, l+2)
		if _, err = io.ReadFull(r, buf); err != nil {
			return nil, err
		}
		if buf[l] != '\r' || buf[l+1] != '\n' {
			return nil, errProto
		}
		argv = append(argv, string(buf[:l]))
	}
	return argv, nil
}

func readLine(r *bufio.Reader) ([]byte, error) {
	line, err := r.ReadBytes('\n')
	if err != nil {
		return nil, err
	}
	if len(line) < 2 || line[len(line)-2] != '\r' {
		return nil, errProto
	}
	return line[:len(line)-2], nil
}

func sortedKeys[T any](m map[string]T) []string {
	ks := make([]string, 0, len(m))
	for k := range m {
		ks = append(ks, k)
	}
	sort.Strings(ks)
	return ks
}
