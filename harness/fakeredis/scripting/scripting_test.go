package scripting_test

import (
	"context"
	"testing"
	"time"

	"github.com/redis/rueidis"

	"verifharness/fakeredis"
	"verifharness/fakeredis/scripting"
)

// End to end: a real rueidis client runs rueidis.Lua against the fake server (RESP3 and RESP2).
func TestClientExec(t *testing.T) {
	for _, noHello := range []bool{false, true} {
		s := fakeredis.New()
		s.NoHello = noHello
		e := scripting.Install(s)
		c, err := rueidis.NewClient(rueidis.ClientOption{InitAddress: []string{"127.0.0.1:6379"}, DialCtxFn: s.Dial, ForceSingleClient: true, DisableCache: true})
		if err != nil {
			t.Fatal(err)
		}
		ctx, cancel := context.WithTimeout(context.Background(), 5*time.Second)
		script := rueidis.NewLuaScript(`local t = {}; for i = 1, #ARGV do table.insert(t, ARGV[i] == 'x') end; redis.call('SET', KEYS[1], #ARGV); return t`)
		arr, err := script.Exec(ctx, c, []string{"k"}, []string{"x", "y", "x"}).ToArray()
		if err != nil || len(arr) != 3 {
			t.Fatal(err, arr)
		}
		b0, _ := arr[0].AsBool()
		_, e1 := arr[1].AsBool()
		if !b0 || !rueidis.IsRedisNil(e1) {
			t.Fatalf("true/false conversion: %v %v", b0, e1)
		}
		if v, _ := c.Do(ctx, c.B().Get().Key("k").Build()).ToString(); v != "3" {
			t.Fatal(v)
		}
		runs := e.Runs()
		if len(runs) != 1 || runs[0].Cmd != "EVAL" { // EVALSHA answered NOSCRIPT, then EVAL ran the body once
			t.Fatalf("%+v", runs)
		}
		if _, err := script.Exec(ctx, c, []string{"k"}, []string{"x"}).ToArray(); err != nil {
			t.Fatal(err)
		}
		if runs = e.Runs(); len(runs) != 2 || runs[1].Cmd != "EVALSHA" {
			t.Fatalf("%+v", runs)
		}
		var names []string
		for _, en := range s.LogCopy() {
			if en.Argv[0] == "EVALSHA" || en.Argv[0] == "EVAL" {
				names = append(names, en.Argv[0])
			}
		}
		if len(names) != 3 || names[0] != "EVALSHA" || names[1] != "EVAL" || names[2] != "EVALSHA" {
			t.Fatal(names)
		}
		cancel()
		c.Close()
	}
}
