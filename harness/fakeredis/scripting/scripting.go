// Package scripting adds EVAL, EVALSHA, EVAL_RO, EVALSHA_RO and SCRIPT LOAD|EXISTS|FLUSH to a
// fakeredis.Server.  Scripts are executed by the mini-Lua interpreter (harness/fakeredis/lua)
// atomically under the server lock; the commands a script issues run through Server.Exec and are
// recorded, per execution, in the engine's run log (Engine.Runs), which is what the oracles about
// "how often did the script body run" read.  The EVAL/EVALSHA command itself is an ordinary entry of
// the server log.
package scripting

import (
	"crypto/sha1"
	"encoding/hex"
	"strconv"
	"strings"
	"sync"

	"verifharness/fakeredis"
	"verifharness/fakeredis/lua"
)

// Run is one execution of a script body.
type Run struct {
	Index       int      // position in Engine.Runs
	Conn, CSeq  int      // connection id / per-connection sequence number of the EVAL* command
	Cmd         string   // EVAL | EVALSHA | EVAL_RO | EVALSHA_RO (upper case)
	SHA         string   // SHA-1 of the script text (lower-case hex)
	Keys, Args  []string // KEYS and ARGV
	Calls       [][]string
	Reply       fakeredis.V
	Unsupported string // non-empty when the script left the mini-Lua subset
}

type cached struct {
	src   string
	chunk *lua.Chunk
	err   *lua.Error
}

// Engine is the scripting state of one server. All fields are guarded by the server lock.
type Engine struct {
	S     *fakeredis.Server
	cache map[string]*cached
	runs  []Run
	// Loads counts SCRIPT LOAD commands, Flushes SCRIPT FLUSH commands.
	Loads, Flushes int
	// NoScript, when set, is consulted for every EVALSHA/EVALSHA_RO whose script IS cached: returning
	// true makes the server answer NOSCRIPT anyway (as if the cache had been flushed just before).
	NoScript func(c *fakeredis.Conn, argv []string) bool
}

var (
	regMu    sync.Mutex
	registry = map[*fakeredis.Server]*Engine{}
)

// Of returns the engine installed on s (nil if none).
func Of(s *fakeredis.Server) *Engine {
	regMu.Lock()
	defer regMu.Unlock()
	return registry[s]
}

// SHA1 is the cache key Redis uses for a script.
func SHA1(script string) string {
	sum := sha1.Sum([]byte(script))
	return hex.EncodeToString(sum[:])
}

const noScriptMsg = "NOSCRIPT No matching script. Please use EVAL."

// read-only commands: what EVAL_RO / EVALSHA_RO scripts may call
var readOnly = map[string]bool{
	"GET": true, "MGET": true, "EXISTS": true, "TYPE": true, "STRLEN": true, "GETRANGE": true, "TTL": true, "PTTL": true,
	"HGET": true, "HMGET": true, "HGETALL": true, "HEXISTS": true, "HLEN": true, "GETBIT": true, "BITCOUNT": true,
	"BITFIELD_RO": true, "SISMEMBER": true, "SMEMBERS": true, "LLEN": true, "LRANGE": true, "TIME": true, "KEYS": true,
	"DBSIZE": true, "JSON.GET": true, "PING": true, "ECHO": true,
}

// commands Redis refuses inside scripts
var notFromScript = map[string]bool{
	"EVAL": true, "EVALSHA": true, "EVAL_RO": true, "EVALSHA_RO": true, "SCRIPT": true, "MULTI": true, "EXEC": true,
	"DISCARD": true, "WATCH": true, "UNWATCH": true, "SUBSCRIBE": true, "PSUBSCRIBE": true, "SSUBSCRIBE": true,
	"UNSUBSCRIBE": true, "PUNSUBSCRIBE": true, "SUNSUBSCRIBE": true, "AUTH": true, "HELLO": true, "QUIT": true,
	"CLIENT": true, "FUNCTION": true, "FCALL": true, "FCALL_RO": true, "BLPOP": true, "BRPOP": true,
}

// Install registers the scripting commands (and the extra commands the repository's scripts need) on s.
func Install(s *fakeredis.Server) *Engine {
	e := &Engine{S: s, cache: map[string]*cached{}}
	regMu.Lock()
	registry[s] = e
	regMu.Unlock()
	s.Lock()
	defer s.Unlock()
	fakeredis.RegisterScriptCommands(s)
	s.Handle("EVAL", func(c *fakeredis.Conn, a []string) fakeredis.V { return e.eval(c, a, false, false) })
	s.Handle("EVAL_RO", func(c *fakeredis.Conn, a []string) fakeredis.V { return e.eval(c, a, false, true) })
	s.Handle("EVALSHA", func(c *fakeredis.Conn, a []string) fakeredis.V { return e.eval(c, a, true, false) })
	s.Handle("EVALSHA_RO", func(c *fakeredis.Conn, a []string) fakeredis.V { return e.eval(c, a, true, true) })
	s.Handle("SCRIPT LOAD", func(c *fakeredis.Conn, a []string) fakeredis.V {
		if len(a) != 3 {
			return fakeredis.Error("ERR wrong number of arguments for 'script|load' command")
		}
		e.Loads++
		ent := e.load(a[2])
		if ent.err != nil {
			return compileError(ent.err)
		}
		return fakeredis.Bulk(SHA1(a[2]))
	})
	s.Handle("SCRIPT EXISTS", func(c *fakeredis.Conn, a []string) fakeredis.V {
		if len(a) < 3 {
			return fakeredis.Error("ERR wrong number of arguments for 'script|exists' command")
		}
		out := make([]fakeredis.V, 0, len(a)-2)
		for _, sha := range a[2:] {
			if ent, ok := e.cache[strings.ToLower(sha)]; ok && ent.err == nil {
				out = append(out, fakeredis.Int(1))
			} else {
				out = append(out, fakeredis.Int(0))
			}
		}
		return fakeredis.Arr(out...)
	})
	s.Handle("SCRIPT FLUSH", func(c *fakeredis.Conn, a []string) fakeredis.V {
		if len(a) > 3 || (len(a) == 3 && !strings.EqualFold(a[2], "ASYNC") && !strings.EqualFold(a[2], "SYNC")) {
			return fakeredis.Error("ERR SCRIPT FLUSH only support SYNC|ASYNC option")
		}
		e.Flushes++
		e.cache = map[string]*cached{}
		return fakeredis.OK()
	})
	s.Handle("SCRIPT", func(c *fakeredis.Conn, a []string) fakeredis.V {
		sub := ""
		if len(a) > 1 {
			sub = a[1]
		}
		return fakeredis.Error("ERR fakeredis: unsupported SCRIPT subcommand '" + sub + "'")
	})
	return e
}

// Flush empties the script cache (the server lock must NOT be held).
func (e *Engine) Flush() {
	e.S.Lock()
	e.cache = map[string]*cached{}
	e.S.Unlock()
}

// Cached reports whether a script with this SHA-1 is in the cache (lock must NOT be held).
func (e *Engine) Cached(sha string) bool {
	e.S.Lock()
	defer e.S.Unlock()
	_, ok := e.cache[strings.ToLower(sha)]
	return ok
}

// Runs returns a copy of the run log (lock must NOT be held).
func (e *Engine) Runs() []Run {
	e.S.Lock()
	defer e.S.Unlock()
	return append([]Run(nil), e.runs...)
}

// RunsLocked is Runs for callers that hold the server lock (Server.OnExec hooks).
func (e *Engine) RunsLocked() []Run { return e.runs }

func (e *Engine) load(src string) *cached {
	sha := SHA1(src)
	if ent, ok := e.cache[sha]; ok {
		return ent
	}
	ch, err := lua.Compile(src)
	ent := &cached{src: src, chunk: ch}
	if err != nil {
		ent.err = err.(*lua.Error)
		return ent // compile errors are not cached (Redis does not cache them either)
	}
	e.cache[sha] = ent
	return ent
}

func compileError(le *lua.Error) fakeredis.V {
	if le.Unsupported {
		return fakeredis.Error("ERR " + le.Error())
	}
	return fakeredis.Error("ERR Error compiling script (new function): " + le.Error())
}

type host struct {
	e   *Engine
	c   *fakeredis.Conn
	ro  bool
	run *Run
}

func (h *host) Call(argv []string) lua.Reply {
	h.run.Calls = append(h.run.Calls, append([]string(nil), argv...))
	name := strings.ToUpper(argv[0])
	if notFromScript[name] {
		return lua.Reply{Kind: '-', Str: "ERR This Redis command is not allowed from script"}
	}
	if h.ro && !readOnly[name] {
		return lua.Reply{Kind: '-', Str: "ERR Write commands are not allowed from read-only scripts."}
	}
	if !h.e.S.HasHandler(name) {
		return lua.Reply{Kind: '-', Str: "ERR mini-lua: unsupported Redis command '" + argv[0] + "' (not implemented by the fake server; Redis would say: Unknown Redis command called from script)"}
	}
	return ToReply(h.e.S.Exec(h.c, argv, false))
}

// ToReply converts a server reply to the RESP2 form scripts see (maps flatten, sets/pushes become
// arrays, booleans integers, doubles / big numbers bulk strings).
func ToReply(v fakeredis.V) lua.Reply {
	switch v.T {
	case '+':
		return lua.Reply{Kind: '+', Str: v.S}
	case '-':
		return lua.Reply{Kind: '-', Str: v.S}
	case ':', '#':
		return lua.Reply{Kind: ':', Int: v.I}
	case '$', '=', ',', '(':
		if v.Null {
			return lua.Reply{Kind: '_'}
		}
		return lua.Reply{Kind: '$', Str: v.S}
	case '_':
		return lua.Reply{Kind: '_'}
	case '*', '~', '>', '%':
		if v.Null {
			return lua.Reply{Kind: '_'}
		}
		out := lua.Reply{Kind: '*', Elems: make([]lua.Reply, len(v.A))}
		for i, e := range v.A {
			out.Elems[i] = ToReply(e)
		}
		return out
	}
	return lua.Reply{Kind: '-', Str: "ERR mini-lua: unsupported reply type from the fake server"}
}

// FromReply converts a script result to a server reply.
func FromReply(r lua.Reply) fakeredis.V {
	switch r.Kind {
	case '+':
		return fakeredis.Simple(r.Str)
	case '-':
		return fakeredis.Error(r.Str)
	case ':':
		return fakeredis.Int(r.Int)
	case '$':
		return fakeredis.Bulk(r.Str)
	case '*':
		a := make([]fakeredis.V, len(r.Elems))
		for i, e := range r.Elems {
			a[i] = FromReply(e)
		}
		return fakeredis.Arr(a...)
	}
	return fakeredis.Nil()
}

func (e *Engine) eval(c *fakeredis.Conn, a []string, bySha, ro bool) fakeredis.V {
	name := strings.ToUpper(a[0])
	if len(a) < 3 {
		return fakeredis.Error("ERR wrong number of arguments for '" + strings.ToLower(a[0]) + "' command")
	}
	nk, err := strconv.ParseInt(a[2], 10, 64)
	if err != nil {
		return fakeredis.Error("ERR value is not an integer or out of range")
	}
	if nk > int64(len(a)-3) {
		return fakeredis.Error("ERR Number of keys can't be greater than number of args")
	}
	if nk < 0 {
		return fakeredis.Error("ERR Number of keys can't be negative")
	}
	var ent *cached
	if bySha {
		sha := strings.ToLower(a[1])
		ent = e.cache[sha]
		if ent == nil || len(sha) != 40 {
			return fakeredis.Error(noScriptMsg)
		}
		if e.NoScript != nil && e.NoScript(c, a) {
			return fakeredis.Error(noScriptMsg)
		}
	} else {
		ent = e.load(a[1])
		if ent.err != nil {
			return compileError(ent.err)
		}
	}
	keys := append([]string(nil), a[3:3+nk]...)
	args := append([]string(nil), a[3+nk:]...)
	sha := SHA1(ent.src)
	idx := len(e.runs)
	e.runs = append(e.runs, Run{Index: idx, Conn: c.ID, Cmd: name, SHA: sha, Keys: keys, Args: args})
	run := e.runs[idx]
	run.CSeq = c.CSeqLocked()
	h := &host{e: e, c: c, ro: ro, run: &run}
	rep, lerr := lua.Run(ent.chunk, h, keys, args)
	if lerr != nil {
		switch {
		case lerr.Unsupported:
			run.Unsupported = lerr.Error()
			rep = lua.Reply{Kind: '-', Str: "ERR " + lerr.Error()}
		default:
			// Redis 7 appends where the error was raised
			rep.Str += " script: " + sha + ", on @user_script:" + strconv.Itoa(lerr.Line) + "."
		}
	}
	run.Reply = FromReply(rep)
	e.runs[idx] = run
	return run.Reply
}

// Eval runs a script directly (no connection): for unit tests. The lock must NOT be held.
func (e *Engine) Eval(script string, keys, args []string) fakeredis.V {
	argv := append([]string{"EVAL", script, strconv.Itoa(len(keys))}, keys...)
	argv = append(argv, args...)
	return e.Do(argv...)
}

// Do runs any command on behalf of a detached dummy connection. The lock must NOT be held.
func (e *Engine) Do(argv ...string) fakeredis.V {
	e.S.Lock()
	defer e.S.Unlock()
	return e.S.Exec(e.S.Dummy(), argv, false)
}
