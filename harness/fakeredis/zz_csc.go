package fakeredis

// Extensions used by the csc family (own file; core files untouched).

// CscPoison marks the connection's open transaction as dirty (a command was rejected at queue time,
// e.g. -MOVED in cluster mode): the following EXEC answers EXECABORT. Call it from a Fault hook,
// which runs on the connection's own reader goroutine.
func (c *Conn) CscPoison() {
	if c.inMulti {
		c.dirty = true
	}
}

// CscInMulti reports whether the connection is between MULTI and EXEC.
func (c *Conn) CscInMulti() bool { return c.inMulti }

// CscHandler returns the registered handler of a command (to wrap it with Handle).
func (s *Server) CscHandler(name string) Handler { return s.handlers[name] }

// CscRecipients lists the connections that a modification of k by w would send an invalidation push
// to right now (same rules as touch). The server lock must be held.
func (s *Server) CscRecipients(w *Conn, k string) []int {
	var out []int
	add := func(c *Conn) {
		if (c.NoLoop && c == w) || c.Proto < 3 {
			return
		}
		out = append(out, c.ID)
	}
	for c := range s.tracked[k] {
		add(c)
	}
	for _, c := range s.conns {
		if c.Tracking && c.BCast {
			match := len(c.Prefixes) == 0
			for _, p := range c.Prefixes {
				if len(k) >= len(p) && k[:len(p)] == p {
					match = true
				}
			}
			if match {
				add(c)
			}
		}
	}
	return out
}

// CscTrackingConns lists the connections a flush invalidation is sent to. The server lock must be held.
func (s *Server) CscTrackingConns() []int {
	var out []int
	for _, c := range s.conns {
		if c.Tracking && c.Proto >= 3 {
			out = append(out, c.ID)
		}
	}
	return out
}

// CscConn returns a live connection by id (nil when gone).
func (s *Server) CscConn(id int) *Conn {
	s.mu.Lock()
	defer s.mu.Unlock()
	return s.conns[id]
}

// CscQueued returns the commands queued in the connection's open transaction.
func (c *Conn) CscQueued() [][]string { return c.queued }
