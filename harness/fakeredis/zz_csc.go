package fakeredis

// Extensions used by the csc family (own file; core files untouched).

// CscPoison marks the connection's open transaction as dirty (a command was rejected at queue time,
// e.g. -MOVED in cluster mode): the following EXEC answers EXECABORT. Call it from a Fault hook,
// which runs on the connection's own reader goroutine.
func (c *Conn) CscPoison() {
	if c.inMulti {
		c.dirty = true
	}
}

// CscInMulti reports whether the connection is between MULTI and EXEC.
func (c *Conn) CscInMulti() bool { return c.inMulti }
