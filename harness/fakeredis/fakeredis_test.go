package fakeredis

import (
	"context"
	"testing"
	"time"

	"github.com/redis/rueidis"
)

func newClient(t *testing.T, s *Server, mod func(o *rueidis.ClientOption)) rueidis.Client {
	o := rueidis.ClientOption{InitAddress: []string{"127.0.0.1:6379"}, DialCtxFn: s.Dial, ForceSingleClient: true}
	if mod != nil {
		mod(&o)
	}
	c, err := rueidis.NewClient(o)
	if err != nil {
		t.Fatal(err)
	}
	return c
}

func TestSmoke(t *testing.T) {
	s := New()
	c := newClient(t, s, nil)
	defer c.Close()
	ctx := context.Background()
	if err := c.Do(ctx, c.B().Set().Key("k").Value("v1").Build()).Error(); err != nil {
		t.Fatal(err)
	}
	v, err := c.DoCache(ctx, c.B().Get().Key("k").Cache(), time.Minute).ToString()
	if err != nil || v != "v1" {
		t.Fatal(v, err)
	}
	r := c.DoCache(ctx, c.B().Get().Key("k").Cache(), time.Minute)
	if !r.IsCacheHit() {
		t.Fatal("expected cache hit")
	}
	// another connection writes: invalidation must arrive
	c2 := newClient(t, s, func(o *rueidis.ClientOption) { o.DisableCache = true })
	defer c2.Close()
	if err := c2.Do(ctx, c2.B().Set().Key("k").Value("v2").Build()).Error(); err != nil {
		t.Fatal(err)
	}
	deadline := time.Now().Add(2 * time.Second)
	for {
		r = c.DoCache(ctx, c.B().Get().Key("k").Cache(), time.Minute)
		v, _ = r.ToString()
		if v == "v2" {
			break
		}
		if time.Now().After(deadline) {
			t.Fatal("stale", v, r.IsCacheHit())
		}
		time.Sleep(time.Millisecond)
	}
	// pub/sub
	got := make(chan string, 1)
	ctx2, cancel := context.WithCancel(ctx)
	go func() {
		_ = c.Receive(ctx2, c.B().Subscribe().Channel("ch").Build(), func(m rueidis.PubSubMessage) { got <- m.Message })
	}()
	for i := 0; i < 200; i++ {
		n, _ := c2.Do(ctx, c2.B().Publish().Channel("ch").Message("hello").Build()).AsInt64()
		if n > 0 {
			break
		}
		time.Sleep(5 * time.Millisecond)
	}
	select {
	case m := <-got:
		if m != "hello" {
			t.Fatal(m)
		}
	case <-time.After(2 * time.Second):
		t.Fatal("no message")
	}
	cancel()
	// transactions + multi
	rs := c.DoMulti(ctx, c.B().Multi().Build(), c.B().Incr().Key("n").Build(), c.B().Incr().Key("n").Build(), c.B().Exec().Build())
	arr, err := rs[3].ToArray()
	if err != nil || len(arr) != 2 {
		t.Fatal(arr, err)
	}
	if len(s.LogCopy()) < 10 {
		t.Fatal("log too short")
	}
}

func TestResp2(t *testing.T) {
	s := New()
	s.NoHello = true
	c := newClient(t, s, func(o *rueidis.ClientOption) { o.DisableCache = true })
	defer c.Close()
	ctx := context.Background()
	if err := c.Do(ctx, c.B().Set().Key("k").Value("v1").Build()).Error(); err != nil {
		t.Fatal(err)
	}
	v, err := c.Do(ctx, c.B().Get().Key("k").Build()).ToString()
	if err != nil || v != "v1" {
		t.Fatal(v, err)
	}
	if !rueidis.IsRedisNil(c.Do(ctx, c.B().Get().Key("nope").Build()).Error()) {
		t.Fatal("expected nil")
	}
}
