package fakeredis

import (
	"path"
	"strconv"
	"strings"
)

func wrongArgs(name string) V {
	return Error("ERR wrong number of arguments for '" + strings.ToLower(name) + "' command")
}

var wrongType = Error("WRONGTYPE Operation against a key holding the wrong kind of value")
var notInt = Error("ERR value is not an integer or out of range")

// get returns the live item (lazy expiry on the virtual clock).
func (s *Server) get(k string) *Item {
	it := s.DB[k]
	if it == nil {
		return nil
	}
	if it.PXAT != 0 && it.PXAT <= s.now {
		delete(s.DB, k)
		s.touch(nil, k)
		return nil
	}
	return it
}

// Get is get for extensions (lock must be held).
func (s *Server) Get(k string) *Item { return s.get(k) }

// Put stores an item and signals the write (lock must be held).
func (s *Server) Put(c *Conn, k string, it *Item) {
	s.DB[k] = it
	s.touch(c, k)
}

// Del removes a key (lock must be held); reports whether it existed.
func (s *Server) Del(c *Conn, k string) bool {
	if s.get(k) == nil {
		return false
	}
	delete(s.DB, k)
	s.touch(c, k)
	return true
}

// Touch signals a modification of k by c (lock must be held).
func (s *Server) Touch(c *Conn, k string) { s.touch(c, k) }

// touch: key k was modified (by connection w, nil = server itself): bump its version and send
// the invalidation pushes Redis would send.
func (s *Server) touch(w *Conn, k string) {
	s.Versions[k]++
	inval := func(c *Conn) {
		if c.NoLoop && c == w {
			return
		}
		var p V
		if c.Proto >= 3 {
			p = Push(Bulk("invalidate"), Arr(Bulk(k)))
		} else {
			return // RESP2 redirect mode is not modelled
		}
		if c == w {
			c.pending = append(c.pending, p) // own connection: after the reply of the running command
		} else {
			c.send(p)
		}
	}
	if set := s.tracked[k]; set != nil {
		ids := make([]*Conn, 0, len(set))
		for c := range set {
			ids = append(ids, c)
		}
		delete(s.tracked, k)
		for _, c := range ids {
			inval(c)
		}
	}
	for _, c := range s.conns {
		if c.Tracking && c.BCast {
			match := len(c.Prefixes) == 0
			for _, p := range c.Prefixes {
				if strings.HasPrefix(k, p) {
					match = true
				}
			}
			if match {
				inval(c)
			}
		}
	}
}

// track remembers that c read k, when its tracking mode says so.
func (s *Server) track(c *Conn, keys ...string) {
	if !c.Tracking || c.BCast {
		return
	}
	if c.OptIn && !c.cachingNext {
		return
	}
	for _, k := range keys {
		set := s.tracked[k]
		if set == nil {
			set = map[*Conn]bool{}
			s.tracked[k] = set
		}
		set[c] = true
	}
}

// Track is track for extensions.
func (s *Server) Track(c *Conn, keys ...string) { s.track(c, keys...) }

func (s *Server) flushAll(w *Conn) {
	for k := range s.DB {
		s.Versions[k]++
	}
	s.DB = map[string]*Item{}
	s.tracked = map[string]map[*Conn]bool{}
	for _, c := range s.conns {
		if c.Tracking && c.Proto >= 3 {
			p := Push(Bulk("invalidate"), Nil())
			if c == w {
				c.pending = append(c.pending, p)
			} else {
				c.send(p)
			}
		}
	}
}

func atoi(s string) (int64, bool) {
	n, err := strconv.ParseInt(s, 10, 64)
	return n, err == nil
}

func registerCore(s *Server) {
	s.Handle("HELLO", func(c *Conn, a []string) V {
		if s.NoHello {
			return Error("ERR unknown command 'HELLO'")
		}
		proto := c.Proto
		i := 1
		if len(a) > 1 {
			n, ok := atoi(a[1])
			if !ok || n < 2 || n > 3 {
				return Error("NOPROTO unsupported protocol version")
			}
			proto = int(n)
			i = 2
		}
		for i < len(a) {
			switch strings.ToUpper(a[i]) {
			case "AUTH":
				if i+2 >= len(a) {
					return wrongArgs("hello")
				}
				if s.Password != "" && a[i+2] != s.Password {
					return Error("WRONGPASS invalid username-password pair or user is disabled.")
				}
				c.Authed = true
				i += 3
			case "SETNAME":
				if i+1 >= len(a) {
					return wrongArgs("hello")
				}
				c.Name = a[i+1]
				i += 2
			default:
				return Error("ERR Syntax error in HELLO option '" + a[i] + "'")
			}
		}
		if !c.Authed {
			return Error("NOAUTH HELLO must be called with the client already authenticated, otherwise the HELLO <proto> AUTH <user> <pass> option can be used to authenticate the client and select the RESP protocol version at the same time")
		}
		c.Proto = proto
		return Map(Bulk("server"), Bulk("redis"), Bulk("version"), Bulk(s.Version), Bulk("proto"), Int(int64(proto)),
			Bulk("id"), Int(int64(c.ID)), Bulk("mode"), Bulk("standalone"), Bulk("role"), Bulk(s.Role), Bulk("modules"), Arr())
	})
	s.Handle("AUTH", func(c *Conn, a []string) V {
		if len(a) < 2 || len(a) > 3 {
			return wrongArgs("auth")
		}
		if s.Password != "" && a[len(a)-1] != s.Password {
			return Error("WRONGPASS invalid username-password pair or user is disabled.")
		}
		c.Authed = true
		return OK()
	})
	s.Handle("PING", func(c *Conn, a []string) V {
		if c.Proto < 3 && (len(c.subs)+len(c.psubs)+len(c.ssubs)) > 0 {
			return Arr(Bulk("pong"), Bulk(""))
		}
		if len(a) > 1 {
			return Bulk(a[1])
		}
		return Simple("PONG")
	})
	s.Handle("ECHO", func(c *Conn, a []string) V {
		if len(a) != 2 {
			return wrongArgs("echo")
		}
		return Bulk(a[1])
	})
	s.Handle("QUIT", func(c *Conn, a []string) V { return OK() })
	s.Handle("SELECT", func(c *Conn, a []string) V {
		n, ok := atoi(a[len(a)-1])
		if !ok || n < 0 || n > 15 {
			return Error("ERR DB index is out of range")
		}
		c.DB = int(n)
		return OK()
	})
	s.Handle("READONLY", func(c *Conn, a []string) V { c.ReadOnly = true; return OK() })
	s.Handle("READWRITE", func(c *Conn, a []string) V { c.ReadOnly = false; return OK() })
	s.Handle("ROLE", func(c *Conn, a []string) V {
		if s.Role == "master" {
			return Arr(Bulk("master"), Int(0), Arr())
		}
		return Arr(Bulk("slave"), Bulk("127.0.0.1"), Int(6379), Bulk("connected"), Int(0))
	})
	s.Handle("INFO", func(c *Conn, a []string) V {
		return Bulk("# Server\r\nredis_version:" + s.Version + "\r\nredis_mode:standalone\r\n# Replication\r\nrole:" + s.Role + "\r\n")
	})
	s.Handle("CLIENT", func(c *Conn, a []string) V {
		if len(a) < 2 {
			return wrongArgs("client")
		}
		switch strings.ToUpper(a[1]) {
		case "ID":
			return Int(int64(c.ID))
		case "SETNAME":
			c.Name = a[len(a)-1]
			return OK()
		case "GETNAME":
			return Bulk(c.Name)
		case "SETINFO", "NO-TOUCH", "NO-EVICT", "CAPA", "REPLY":
			return OK()
		case "CACHING":
			if len(a) != 3 {
				return wrongArgs("client|caching")
			}
			if !c.Tracking || (!c.OptIn && !c.OptOut) {
				return Error("ERR CLIENT CACHING can be called only when the client is in tracking mode with OPTIN or OPTOUT mode enabled")
			}
			c.cachingNext = strings.EqualFold(a[2], "YES")
			return OK()
		case "TRACKING":
			if len(a) < 3 {
				return wrongArgs("client|tracking")
			}
			on := strings.EqualFold(a[2], "ON")
			if !on {
				c.Tracking, c.OptIn, c.OptOut, c.BCast, c.NoLoop, c.Prefixes = false, false, false, false, false, nil
				for k, set := range s.tracked {
					delete(set, c)
					if len(set) == 0 {
						delete(s.tracked, k)
					}
				}
				return OK()
			}
			if c.Proto < 3 {
				return Error("ERR Client tracking in RESP2 mode requires the REDIRECT option (not modelled by fakeredis)")
			}
			c.Tracking = true
			for i := 3; i < len(a); i++ {
				switch strings.ToUpper(a[i]) {
				case "OPTIN":
					c.OptIn = true
				case "OPTOUT":
					c.OptOut = true
				case "BCAST":
					c.BCast = true
				case "NOLOOP":
					c.NoLoop = true
				case "PREFIX":
					if i+1 < len(a) {
						c.Prefixes = append(c.Prefixes, a[i+1])
						i++
					}
				default:
					return Error("ERR syntax error")
				}
			}
			return OK()
		}
		return Error("ERR unknown subcommand '" + a[1] + "'. Try CLIENT HELP.")
	})

	// ---- keys ----
	s.Handle("GET", func(c *Conn, a []string) V {
		if len(a) != 2 {
			return wrongArgs("get")
		}
		s.track(c, a[1])
		it := s.get(a[1])
		if it == nil {
			return Nil()
		}
		if it.Kind != "string" {
			return wrongType
		}
		return Bulk(it.Str)
	})
	s.Handle("MGET", func(c *Conn, a []string) V {
		if len(a) < 2 {
			return wrongArgs("mget")
		}
		out := make([]V, 0, len(a)-1)
		for _, k := range a[1:] {
			s.track(c, k)
			it := s.get(k)
			if it == nil || it.Kind != "string" {
				out = append(out, Nil())
			} else {
				out = append(out, Bulk(it.Str))
			}
		}
		return Arr(out...)
	})
	s.Handle("SET", func(c *Conn, a []string) V {
		if len(a) < 3 {
			return wrongArgs("set")
		}
		var nx, xx, get, keepttl bool
		var pxat int64
		for i := 3; i < len(a); i++ {
			switch strings.ToUpper(a[i]) {
			case "NX":
				nx = true
			case "XX":
				xx = true
			case "GET":
				get = true
			case "KEEPTTL":
				keepttl = true
			case "EX", "PX", "EXAT", "PXAT":
				if i+1 >= len(a) {
					return Error("ERR syntax error")
				}
				n, ok := atoi(a[i+1])
				if !ok || n <= 0 {
					return Error("ERR invalid expire time in 'set' command")
				}
				switch strings.ToUpper(a[i]) {
				case "EX":
					pxat = s.now + n*1000
				case "PX":
					pxat = s.now + n
				case "EXAT":
					pxat = n * 1000
				case "PXAT":
					pxat = n
				}
				i++
			default:
				return Error("ERR syntax error")
			}
		}
		old := s.get(a[1])
		ret := OK()
		if get {
			if old == nil {
				ret = Nil()
			} else if old.Kind != "string" {
				return wrongType
			} else {
				ret = Bulk(old.Str)
			}
		}
		if (nx && old != nil) || (xx && old == nil) {
			if get {
				return ret
			}
			return Nil()
		}
		it := &Item{Kind: "string", Str: a[2], PXAT: pxat}
		if keepttl && old != nil {
			it.PXAT = old.PXAT
		}
		s.Put(c, a[1], it)
		return ret
	})
	s.Handle("SETNX", func(c *Conn, a []string) V {
		if len(a) != 3 {
			return wrongArgs("setnx")
		}
		if s.get(a[1]) != nil {
			return Int(0)
		}
		s.Put(c, a[1], &Item{Kind: "string", Str: a[2]})
		return Int(1)
	})
	s.Handle("MSET", func(c *Conn, a []string) V {
		if len(a) < 3 || len(a)%2 != 1 {
			return wrongArgs("mset")
		}
		for i := 1; i < len(a); i += 2 {
			s.Put(c, a[i], &Item{Kind: "string", Str: a[i+1]})
		}
		return OK()
	})
	s.Handle("DEL", func(c *Conn, a []string) V {
		n := int64(0)
		for _, k := range a[1:] {
			if s.Del(c, k) {
				n++
			}
		}
		return Int(n)
	})
	s.Handle("UNLINK", s.handlers["DEL"])
	s.Handle("EXISTS", func(c *Conn, a []string) V {
		n := int64(0)
		for _, k := range a[1:] {
			s.track(c, k)
			if s.get(k) != nil {
				n++
			}
		}
		return Int(n)
	})
	s.Handle("TYPE", func(c *Conn, a []string) V {
		if it := s.get(a[1]); it != nil {
			return Simple(it.Kind)
		}
		return Simple("none")
	})
	incr := func(c *Conn, k string, d int64) V {
		it := s.get(k)
		cur := int64(0)
		if it != nil {
			if it.Kind != "string" {
				return wrongType
			}
			n, ok := atoi(it.Str)
			if !ok {
				return notInt
			}
			cur = n
		}
		cur += d
		nit := &Item{Kind: "string", Str: strconv.FormatInt(cur, 10)}
		if it != nil {
			nit.PXAT = it.PXAT
		}
		s.Put(c, k, nit)
		return Int(cur)
	}
	s.Handle("INCR", func(c *Conn, a []string) V { return incr(c, a[1], 1) })
	s.Handle("DECR", func(c *Conn, a []string) V { return incr(c, a[1], -1) })
	s.Handle("INCRBY", func(c *Conn, a []string) V {
		n, ok := atoi(a[2])
		if !ok {
			return notInt
		}
		return incr(c, a[1], n)
	})
	s.Handle("APPEND", func(c *Conn, a []string) V {
		it := s.get(a[1])
		str := ""
		var px int64
		if it != nil {
			if it.Kind != "string" {
				return wrongType
			}
			str, px = it.Str, it.PXAT
		}
		str += a[2]
		s.Put(c, a[1], &Item{Kind: "string", Str: str, PXAT: px})
		return Int(int64(len(str)))
	})
	s.Handle("STRLEN", func(c *Conn, a []string) V {
		s.track(c, a[1])
		if it := s.get(a[1]); it != nil {
			return Int(int64(len(it.Str)))
		}
		return Int(0)
	})
	s.Handle("GETRANGE", func(c *Conn, a []string) V {
		if len(a) != 4 {
			return wrongArgs("getrange")
		}
		s.track(c, a[1])
		st, ok1 := atoi(a[2])
		en, ok2 := atoi(a[3])
		if !ok1 || !ok2 {
			return notInt
		}
		it := s.get(a[1])
		if it == nil {
			return Bulk("")
		}
		n := int64(len(it.Str))
		if st < 0 {
			st += n
		}
		if en < 0 {
			en += n
		}
		if st < 0 {
			st = 0
		}
		if en >= n {
			en = n - 1
		}
		if st > en || n == 0 {
			return Bulk("")
		}
		return Bulk(it.Str[st : en+1])
	})
	s.Handle("GETDEL", func(c *Conn, a []string) V {
		it := s.get(a[1])
		if it == nil {
			return Nil()
		}
		s.Del(c, a[1])
		return Bulk(it.Str)
	})
	expire := func(c *Conn, a []string, unit int64, abs bool) V {
		if len(a) < 3 {
			return wrongArgs(a[0])
		}
		n, ok := atoi(a[2])
		if !ok {
			return notInt
		}
		it := s.get(a[1])
		if it == nil {
			return Int(0)
		}
		at := n * unit
		if !abs {
			at += s.now
		}
		if at <= s.now {
			s.Del(c, a[1])
			return Int(1)
		}
		it.PXAT = at
		s.touch(c, a[1])
		return Int(1)
	}
	s.Handle("EXPIRE", func(c *Conn, a []string) V { return expire(c, a, 1000, false) })
	s.Handle("PEXPIRE", func(c *Conn, a []string) V { return expire(c, a, 1, false) })
	s.Handle("EXPIREAT", func(c *Conn, a []string) V { return expire(c, a, 1000, true) })
	s.Handle("PEXPIREAT", func(c *Conn, a []string) V { return expire(c, a, 1, true) })
	s.Handle("PERSIST", func(c *Conn, a []string) V {
		it := s.get(a[1])
		if it == nil || it.PXAT == 0 {
			return Int(0)
		}
		it.PXAT = 0
		s.touch(c, a[1])
		return Int(1)
	})
	ttl := func(c *Conn, a []string, unit int64) V {
		s.track(c, a[1])
		it := s.get(a[1])
		if it == nil {
			return Int(-2)
		}
		if it.PXAT == 0 {
			return Int(-1)
		}
		return Int((it.PXAT - s.now + unit - 1) / unit)
	}
	s.Handle("TTL", func(c *Conn, a []string) V { return ttl(c, a, 1000) })
	s.Handle("PTTL", func(c *Conn, a []string) V { return ttl(c, a, 1) })
	s.Handle("FLUSHALL", func(c *Conn, a []string) V { s.flushAll(c); return OK() })
	s.Handle("FLUSHDB", func(c *Conn, a []string) V { s.flushAll(c); return OK() })
	s.Handle("DBSIZE", func(c *Conn, a []string) V { return Int(int64(len(s.DB))) })
	s.Handle("KEYS", func(c *Conn, a []string) V {
		var out []string
		for _, k := range sortedKeys(s.DB) {
			if ok, _ := path.Match(a[1], k); ok && s.get(k) != nil {
				out = append(out, k)
			}
		}
		return Bulks(out...)
	})

	// ---- hashes ----
	hash := func(k string, create bool) (*Item, *V) {
		it := s.get(k)
		if it == nil {
			if !create {
				return nil, nil
			}
			it = &Item{Kind: "hash", Hash: map[string]string{}}
			s.DB[k] = it
			return it, nil
		}
		if it.Kind != "hash" {
			return nil, &wrongType
		}
		return it, nil
	}
	s.Handle("HSET", func(c *Conn, a []string) V {
		if len(a) < 4 || len(a)%2 != 0 {
			return wrongArgs("hset")
		}
		it, e := hash(a[1], true)
		if e != nil {
			return *e
		}
		n := int64(0)
		for i := 2; i < len(a); i += 2 {
			if _, ok := it.Hash[a[i]]; !ok {
				n++
			}
			it.Hash[a[i]] = a[i+1]
		}
		s.touch(c, a[1])
		return Int(n)
	})
	s.Handle("HMSET", func(c *Conn, a []string) V {
		v := s.handlers["HSET"](c, a)
		if v.T == ':' {
			return OK()
		}
		return v
	})
	s.Handle("HSETNX", func(c *Conn, a []string) V {
		it, e := hash(a[1], true)
		if e != nil {
			return *e
		}
		if _, ok := it.Hash[a[2]]; ok {
			return Int(0)
		}
		it.Hash[a[2]] = a[3]
		s.touch(c, a[1])
		return Int(1)
	})
	s.Handle("HGET", func(c *Conn, a []string) V {
		s.track(c, a[1])
		it, e := hash(a[1], false)
		if e != nil {
			return *e
		}
		if it == nil {
			return Nil()
		}
		if v, ok := it.Hash[a[2]]; ok {
			return Bulk(v)
		}
		return Nil()
	})
	s.Handle("HMGET", func(c *Conn, a []string) V {
		s.track(c, a[1])
		it, e := hash(a[1], false)
		if e != nil {
			return *e
		}
		out := make([]V, 0, len(a)-2)
		for _, f := range a[2:] {
			if it == nil {
				out = append(out, Nil())
			} else if v, ok := it.Hash[f]; ok {
				out = append(out, Bulk(v))
			} else {
				out = append(out, Nil())
			}
		}
		return Arr(out...)
	})
	s.Handle("HGETALL", func(c *Conn, a []string) V {
		s.track(c, a[1])
		it, e := hash(a[1], false)
		if e != nil {
			return *e
		}
		var out []V
		if it != nil {
			for _, f := range sortedKeys(it.Hash) {
				out = append(out, Bulk(f), Bulk(it.Hash[f]))
			}
		}
		return Map(out...)
	})
	s.Handle("HDEL", func(c *Conn, a []string) V {
		it, e := hash(a[1], false)
		if e != nil {
			return *e
		}
		if it == nil {
			return Int(0)
		}
		n := int64(0)
		for _, f := range a[2:] {
			if _, ok := it.Hash[f]; ok {
				delete(it.Hash, f)
				n++
			}
		}
		if len(it.Hash) == 0 {
			delete(s.DB, a[1])
		}
		if n > 0 {
			s.touch(c, a[1])
		}
		return Int(n)
	})
	s.Handle("HEXISTS", func(c *Conn, a []string) V {
		s.track(c, a[1])
		it, e := hash(a[1], false)
		if e != nil {
			return *e
		}
		if it != nil {
			if _, ok := it.Hash[a[2]]; ok {
				return Int(1)
			}
		}
		return Int(0)
	})
	s.Handle("HLEN", func(c *Conn, a []string) V {
		s.track(c, a[1])
		it, e := hash(a[1], false)
		if e != nil {
			return *e
		}
		if it == nil {
			return Int(0)
		}
		return Int(int64(len(it.Hash)))
	})
	s.Handle("HINCRBY", func(c *Conn, a []string) V {
		d, ok := atoi(a[3])
		if !ok {
			return notInt
		}
		it, e := hash(a[1], true)
		if e != nil {
			return *e
		}
		cur := int64(0)
		if v, ok := it.Hash[a[2]]; ok {
			n, ok2 := atoi(v)
			if !ok2 {
				return Error("ERR hash value is not an integer")
			}
			cur = n
		}
		cur += d
		it.Hash[a[2]] = strconv.FormatInt(cur, 10)
		s.touch(c, a[1])
		return Int(cur)
	})

	// ---- bits ----
	s.Handle("SETBIT", func(c *Conn, a []string) V {
		off, ok := atoi(a[2])
		if !ok || off < 0 || off >= 1<<32 {
			return Error("ERR bit offset is not an integer or out of range")
		}
		bit := a[3] == "1"
		if a[3] != "0" && a[3] != "1" {
			return Error("ERR bit is not an integer or out of range")
		}
		it := s.get(a[1])
		var b []byte
		var px int64
		if it != nil {
			if it.Kind != "string" {
				return wrongType
			}
			b, px = []byte(it.Str), it.PXAT
		}
		idx := int(off >> 3)
		for len(b) <= idx {
			b = append(b, 0)
		}
		mask := byte(0x80 >> uint(off&7))
		old := int64(0)
		if b[idx]&mask != 0 {
			old = 1
		}
		if bit {
			b[idx] |= mask
		} else {
			b[idx] &^= mask
		}
		s.Put(c, a[1], &Item{Kind: "string", Str: string(b), PXAT: px})
		return Int(old)
	})
	s.Handle("GETBIT", func(c *Conn, a []string) V {
		s.track(c, a[1])
		off, ok := atoi(a[2])
		if !ok || off < 0 {
			return Error("ERR bit offset is not an integer or out of range")
		}
		it := s.get(a[1])
		if it == nil || int(off>>3) >= len(it.Str) {
			return Int(0)
		}
		if it.Str[off>>3]&(0x80>>uint(off&7)) != 0 {
			return Int(1)
		}
		return Int(0)
	})
	s.Handle("BITCOUNT", func(c *Conn, a []string) V {
		s.track(c, a[1])
		it := s.get(a[1])
		n := int64(0)
		if it != nil {
			for i := 0; i < len(it.Str); i++ {
				for b := it.Str[i]; b != 0; b &= b - 1 {
					n++
				}
			}
		}
		return Int(n)
	})

	// ---- sets / lists (small subset) ----
	s.Handle("SADD", func(c *Conn, a []string) V {
		it := s.get(a[1])
		if it == nil {
			it = &Item{Kind: "set", Set: map[string]bool{}}
			s.DB[a[1]] = it
		} else if it.Kind != "set" {
			return wrongType
		}
		n := int64(0)
		for _, m := range a[2:] {
			if !it.Set[m] {
				it.Set[m] = true
				n++
			}
		}
		s.touch(c, a[1])
		return Int(n)
	})
	s.Handle("SMEMBERS", func(c *Conn, a []string) V {
		s.track(c, a[1])
		it := s.get(a[1])
		var out []V
		if it != nil {
			for _, m := range sortedKeys(it.Set) {
				out = append(out, Bulk(m))
			}
		}
		return Set(out...)
	})
	s.Handle("SISMEMBER", func(c *Conn, a []string) V {
		s.track(c, a[1])
		if it := s.get(a[1]); it != nil && it.Set[a[2]] {
			return Int(1)
		}
		return Int(0)
	})
	push := func(c *Conn, a []string, left bool) V {
		it := s.get(a[1])
		if it == nil {
			it = &Item{Kind: "list"}
			s.DB[a[1]] = it
		} else if it.Kind != "list" {
			return wrongType
		}
		for _, v := range a[2:] {
			if left {
				it.List = append([]string{v}, it.List...)
			} else {
				it.List = append(it.List, v)
			}
		}
		s.touch(c, a[1])
		return Int(int64(len(it.List)))
	}
	s.Handle("LPUSH", func(c *Conn, a []string) V { return push(c, a, true) })
	s.Handle("RPUSH", func(c *Conn, a []string) V { return push(c, a, false) })
	s.Handle("LLEN", func(c *Conn, a []string) V {
		s.track(c, a[1])
		if it := s.get(a[1]); it != nil {
			return Int(int64(len(it.List)))
		}
		return Int(0)
	})
	s.Handle("LRANGE", func(c *Conn, a []string) V {
		s.track(c, a[1])
		it := s.get(a[1])
		if it == nil {
			return Arr()
		}
		st, _ := atoi(a[2])
		en, _ := atoi(a[3])
		n := int64(len(it.List))
		if st < 0 {
			st += n
		}
		if en < 0 {
			en += n
		}
		if st < 0 {
			st = 0
		}
		if en >= n {
			en = n - 1
		}
		if st > en {
			return Arr()
		}
		return Bulks(it.List[st : en+1]...)
	})
	pop := func(c *Conn, a []string, left bool) V {
		it := s.get(a[1])
		if it == nil || len(it.List) == 0 {
			return Nil()
		}
		var v string
		if left {
			v, it.List = it.List[0], it.List[1:]
		} else {
			v, it.List = it.List[len(it.List)-1], it.List[:len(it.List)-1]
		}
		if len(it.List) == 0 {
			delete(s.DB, a[1])
		}
		s.touch(c, a[1])
		return Bulk(v)
	}
	s.Handle("LPOP", func(c *Conn, a []string) V { return pop(c, a, true) })
	s.Handle("RPOP", func(c *Conn, a []string) V { return pop(c, a, false) })

	// ---- transactions ----
	s.Handle("MULTI", func(c *Conn, a []string) V {
		if c.inMulti {
			return Error("ERR MULTI calls can not be nested")
		}
		c.inMulti, c.queued, c.dirty = true, nil, false
		return OK()
	})
	s.Handle("DISCARD", func(c *Conn, a []string) V {
		if !c.inMulti {
			return Error("ERR DISCARD without MULTI")
		}
		c.inMulti, c.queued, c.dirty = false, nil, false
		c.cachingNext = false
		return OK()
	})
	s.Handle("WATCH", func(c *Conn, a []string) V { return OK() })
	s.Handle("UNWATCH", func(c *Conn, a []string) V { return OK() })
	s.Handle("EXEC", func(c *Conn, a []string) V {
		if !c.inMulti {
			return Error("ERR EXEC without MULTI")
		}
		q := c.queued
		dirty := c.dirty
		c.inMulti, c.queued, c.dirty = false, nil, false
		if dirty {
			c.cachingNext = false
			return Error("EXECABORT Transaction discarded because of previous errors.")
		}
		out := make([]V, 0, len(q))
		for _, cmd := range q {
			out = append(out, s.Exec(c, cmd, true))
		}
		c.cachingNext = false
		return Arr(out...)
	})

	registerPubSub(s)
}
