package fakeredis

import "path"

func (c *Conn) subCount() int64 { return int64(len(c.subs) + len(c.psubs) + len(c.ssubs)) }

func registerPubSub(s *Server) {
	sub := func(kind string, reg map[string]map[*Conn]bool, mine func(c *Conn) map[string]bool) Handler {
		return func(c *Conn, a []string) V {
			if len(a) < 2 {
				return wrongArgs(a[0])
			}
			for _, ch := range a[1:] {
				mine(c)[ch] = true
				set := reg[ch]
				if set == nil {
					set = map[*Conn]bool{}
					reg[ch] = set
				}
				set[c] = true
				c.send(Push(Bulk(kind), Bulk(ch), Int(c.subCount())))
			}
			return V{} // confirmations were sent as pushes (RESP3) / arrays (RESP2); no further reply
		}
	}
	unsub := func(kind string, reg map[string]map[*Conn]bool, mine func(c *Conn) map[string]bool) Handler {
		return func(c *Conn, a []string) V {
			chans := a[1:]
			if len(chans) == 0 {
				chans = sortedKeys(mine(c))
				if len(chans) == 0 {
					c.send(Push(Bulk(kind), Nil(), Int(c.subCount())))
					return V{}
				}
			}
			for _, ch := range chans {
				delete(mine(c), ch)
				if set := reg[ch]; set != nil {
					delete(set, c)
					if len(set) == 0 {
						delete(reg, ch)
					}
				}
				c.send(Push(Bulk(kind), Bulk(ch), Int(c.subCount())))
			}
			return V{}
		}
	}
	subs := func(c *Conn) map[string]bool { return c.subs }
	psubs := func(c *Conn) map[string]bool { return c.psubs }
	ssubs := func(c *Conn) map[string]bool { return c.ssubs }
	s.Handle("SUBSCRIBE", sub("subscribe", s.channels, subs))
	s.Handle("UNSUBSCRIBE", unsub("unsubscribe", s.channels, subs))
	s.Handle("PSUBSCRIBE", sub("psubscribe", s.patterns, psubs))
	s.Handle("PUNSUBSCRIBE", unsub("punsubscribe", s.patterns, psubs))
	s.Handle("SSUBSCRIBE", sub("ssubscribe", s.schannels, ssubs))
	s.Handle("SUNSUBSCRIBE", unsub("sunsubscribe", s.schannels, ssubs))
	s.Handle("PUBLISH", func(c *Conn, a []string) V {
		if len(a) != 3 {
			return wrongArgs("publish")
		}
		return Int(s.Publish(a[1], a[2]))
	})
	s.Handle("SPUBLISH", func(c *Conn, a []string) V {
		if len(a) != 3 {
			return wrongArgs("spublish")
		}
		n := int64(0)
		for _, cc := range connsSorted(s.schannels[a[1]]) {
			cc.send(Push(Bulk("smessage"), Bulk(a[1]), Bulk(a[2])))
			n++
		}
		return Int(n)
	})
}

// Publish delivers a message to the subscribers (lock must be held).
func (s *Server) Publish(channel, msg string) int64 {
	n := int64(0)
	for _, cc := range connsSorted(s.channels[channel]) {
		cc.send(Push(Bulk("message"), Bulk(channel), Bulk(msg)))
		n++
	}
	for _, pat := range sortedKeys(s.patterns) {
		if ok, _ := path.Match(pat, channel); ok {
			for _, cc := range connsSorted(s.patterns[pat]) {
				cc.send(Push(Bulk("pmessage"), Bulk(pat), Bulk(channel), Bulk(msg)))
				n++
			}
		}
	}
	return n
}

func connsSorted(set map[*Conn]bool) []*Conn {
	out := make([]*Conn, 0, len(set))
	for c := range set {
		out = append(out, c)
	}
	for i := 1; i < len(out); i++ {
		for j := i; j > 0 && out[j-1].ID > out[j].ID; j-- {
			out[j-1], out[j] = out[j], out[j-1]
		}
	}
	return out
}
