package lua

import (
	"fmt"
	"strings"
	"testing"
)

// show renders a reply compactly: :1  $abc  _  +OK  -ERR…  [a b]
func show(r Reply) string {
	switch r.Kind {
	case ':':
		return fmt.Sprintf(":%d", r.Int)
	case '$':
		return "$" + r.Str
	case '_':
		return "_"
	case '+':
		return "+" + r.Str
	case '-':
		return "-" + r.Str
	case '*':
		p := make([]string, len(r.Elems))
		for i, e := range r.Elems {
			p[i] = show(e)
		}
		return "[" + strings.Join(p, " ") + "]"
	}
	return "?"
}

type mockHost struct {
	calls   [][]string
	replies map[string]Reply
}

func (m *mockHost) Call(argv []string) Reply {
	m.calls = append(m.calls, argv)
	if r, ok := m.replies[strings.Join(argv, " ")]; ok {
		return r
	}
	return Reply{Kind: '_'}
}

func run(t *testing.T, src string, keys, args []string, h Host) (string, *Error) {
	t.Helper()
	ch, err := Compile(src)
	if err != nil {
		return "compile: " + err.Error(), err.(*Error)
	}
	if h == nil {
		h = &mockHost{}
	}
	rep, e := Run(ch, h, keys, args)
	return show(rep), e
}

func TestLanguage(t *testing.T) {
	cases := []struct{ src, want string }{
		// conversions Lua -> RESP
		{`return 1`, ":1"},
		{`return 3.99`, ":3"},
		{`return -3.99`, ":-3"},
		{`return "x"`, "$x"},
		{`return true`, ":1"},
		{`return false`, "_"},
		{`return nil`, "_"},
		{`return`, "_"},
		{`local x = 1`, "_"},
		{`return {1, "a", true, false, 2.5}`, "[:1 $a :1 _ :2]"},
		{`return {1, nil, 3}`, "[:1]"},
		{`return {ok="fine"}`, "+fine"},
		{`return {err="BAD thing"}`, "-BAD thing"},
		{`return redis.status_reply("YES")`, "+YES"},
		{`return redis.error_reply("NO way")`, "-NO way"},
		{`return {{1,2},{}}`, "[[:1 :2] []]"},
		{`return 1, 2`, ":1"},
		// arithmetic, precedence, coercions
		{`return 1 + 2 * 3`, ":7"},
		{`return (1 + 2) * 3`, ":9"},
		{`return 2 ^ 3 ^ 2`, ":512"},
		{`return -2 ^ 2`, ":-4"},
		{`return 7 % 3`, ":1"},
		{`return -7 % 3`, ":2"},
		{`return 7 % -3`, ":-2"},
		{`return 7 / 2`, ":3"},
		{`return tostring(7 / 2)`, "$3.5"},
		{`return "10" + 5`, ":15"},
		{`return "3" * "4"`, ":12"},
		{`return 10 .. 20`, "$1020"},
		{`return "a" .. "b" .. 1.5`, "$ab1.5"},
		{`return tostring(1e15)`, "$1e+15"},
		{`return tostring(123456789012345)`, "$1.2345678901234e+14"},
		{`return tostring(1700000000123)`, "$1700000000123"},
		{`return tostring(0.1)`, "$0.1"},
		{`return tostring(1/0)`, "$inf"},
		{`return tostring(-1/0)`, "$-inf"},
		{`return tostring(nil) .. tostring(true)`, "$niltrue"},
		{`return tonumber("  12  ")`, ":12"},
		{`return tonumber("0x10")`, ":16"},
		{`return tonumber("1e2")`, ":100"},
		{`return tonumber("abc") == nil`, ":1"},
		{`return tonumber("") == nil`, ":1"},
		{`return tonumber("12a") == nil`, ":1"},
		{`return tonumber(nil) == nil`, ":1"},
		{`return tonumber(false) == nil`, ":1"},
		{`return tonumber(5)`, ":5"},
		{`return tonumber(".5") * 4`, ":2"},
		{`return tonumber("5.") + 0`, ":5"},
		// comparison and logic
		{`return 1 < 2`, ":1"},
		{`return "a" < "b"`, ":1"},
		{`return "10" < "9"`, ":1"},
		{`return 1 == "1"`, "_"},
		{`return 1 ~= "1"`, ":1"},
		{`return nil == false`, "_"},
		{`return 1 and 2`, ":2"},
		{`return nil and 2`, "_"},
		{`return false or "d"`, "$d"},
		{`return nil or false`, "_"},
		{`return not nil`, ":1"},
		{`return not 0`, "_"},
		{`return 0 and "zero is true"`, "$zero is true"},
		{`return "" and "empty is true"`, "$empty is true"},
		{`return 1 < 2 == true`, ":1"},
		{`return not 1 == 2`, "_"},
		{`return 1 .. 2 == "12"`, ":1"},
		{`local e = (3 % 2 == 1) and "odd" or nil; return e`, "$odd"},
		{`local e = (4 % 2 == 1) and "odd" or nil; return e`, "_"},
		// length, tables
		{`return #"hello"`, ":5"},
		{`return #{1,2,3}`, ":3"},
		{`return #{}`, ":0"},
		{`local t = {}; t[1]=1; t[2]=2; t[4]=4; return #t`, ":2"},
		{`local t = {}; t[1]=1; t[2]=2; t[4]=4; t[3]=3; return #t`, ":4"},
		{`local t = {1,2,3}; t[#t] = nil; return #t`, ":2"},
		{`local t = {}; t.x = 5; t["y"] = 6; return t.x + t.y`, ":11"},
		{`local t = {x=1, ["y z"]=2, 10, 20}; return t.x + t["y z"] + t[1] + t[2]`, ":33"},
		{`local t = {}; table.insert(t, "a"); table.insert(t, "b"); return t`, "[$a $b]"},
		{`local t = {}; table.insert(t, false); table.insert(t, true); return t`, "[_ :1]"},
		{`local t = {"a","c"}; table.insert(t, 2, "b"); return t`, "[$a $b $c]"},
		{`local t = {"a","b","c"}; local r = table.remove(t); return {r, #t}`, "[$c :2]"},
		{`local t = {"a","b","c"}; local r = table.remove(t, 1); return {r, t[1], t[2], #t}`, "[$a $b $c :2]"},
		{`local t = {}; return table.remove(t) == nil`, ":1"},
		{`return table.concat({1,2,"x"}, ",")`, "$1,2,x"},
		{`return {unpack({1,2,3})}`, "[:1 :2 :3]"},
		{`return {unpack({1,2,3}), 9}`, "[:1 :9]"},
		{`return {table.unpack({4,5})}`, "[:4 :5]"},
		{`return select("#", 1, 2, 3)`, ":3"},
		{`return {select(2, "a", "b", "c")}`, "[$b $c]"},
		{`local t = {}; t[1.5] = "f"; return t[1.5]`, "$f"},
		{`local a = {}; local b = a; b.x = 1; return a.x`, ":1"},
		{`return {} == {}`, "_"},
		// control flow
		{`local s = 0; for i=1,4 do s = s + i end; return s`, ":10"},
		{`local s = 0; for i=1,10,3 do s = s + i end; return s`, ":22"},
		{`local s = 0; for i=10,1,-4 do s = s + i end; return s`, ":18"},
		{`local s = 0; for i=1,0 do s = s + 1 end; return s`, ":0"},
		{`local s = 0; for i=1,3 do local i = i * 2; s = s + i end; return s`, ":12"},
		{`local s = 0; for i=1,10 do if i > 3 then break end; s = s + i end; return s`, ":6"},
		{`local s = 0; for i=1,3 do for j=1,3 do if j == 2 then break end; s = s + 1 end end; return s`, ":3"},
		{`local i = 0; while i < 5 do i = i + 1 end; return i`, ":5"},
		{`local i = 0; repeat local j = i; i = i + 1 until j >= 2; return i`, ":3"},
		{`local x = 5; if x < 3 then return "a" elseif x < 6 then return "b" else return "c" end`, "$b"},
		{`local x = 9; if x < 3 then return "a" elseif x < 6 then return "b" else return "c" end`, "$c"},
		{`if false then return 1 end; return 2`, ":2"},
		{`do local x = 1 end; local x = 2; return x`, ":2"},
		{`local x = 1; do local x = 2 end; return x`, ":1"},
		{`local x = 1; do x = 2 end; return x`, ":2"},
		{`local s = ""; for i, v in ipairs({"a","b","c"}) do s = s .. i .. v end; return s`, "$1a2b3c"},
		{`local s = 0; for k, v in pairs({x=1, y=2, 3}) do s = s + v end; return s`, ":6"},
		{`local n = 0; for _ in pairs({}) do n = n + 1 end; return n`, ":0"},
		// functions and closures
		{`local function f(a, b) return a + b end; return f(1, 2)`, ":3"},
		{`local function f(a, b) return b end; return f(1) == nil`, ":1"},
		{`local function f() return 1, 2, 3 end; return {f()}`, "[:1 :2 :3]"},
		{`local function f() return 1, 2, 3 end; return {f(), f()}`, "[:1 :1 :2 :3]"},
		{`local function f() return 1, 2, 3 end; return {(f())}`, "[:1]"},
		{`local function f() return 1, 2 end; local a, b, c = f(); return {a, b, c == nil}`, "[:1 :2 :1]"},
		{`local function fact(n) if n <= 1 then return 1 end; return n * fact(n - 1) end; return fact(10)`, ":3628800"},
		{`local function mk() local c = 0; return function() c = c + 1; return c end end; local f = mk(); f(); f(); return f()`, ":3"},
		{`local f = function(...) return select("#", ...) end; return f(1, nil, 3)`, ":3"},
		{`local function MergeTables(t1, t2) for i=1, #t2 do table.insert(t1, t2[i]) end return t1 end; return MergeTables({1}, {2,3})`, "[:1 :2 :3]"},
		{`local a, b = 1, 2; a, b = b, a; return {a, b}`, "[:2 :1]"},
		// math / string library
		{`return math.floor(3.7)`, ":3"},
		{`return math.floor(-3.2)`, ":-4"},
		{`return math.ceil(3.2)`, ":4"},
		{`return math.max(1, 9, 3)`, ":9"},
		{`return math.min(4, 2, 8)`, ":2"},
		{`return math.abs(-4)`, ":4"},
		{`return string.len("abc")`, ":3"},
		{`return string.sub("hello", 2, 4)`, "$ell"},
		{`return string.sub("hello", -3)`, "$llo"},
		{`return string.upper("aBc") .. string.lower("DeF")`, "$ABCdef"},
		{`return type(1) .. type("s") .. type(nil) .. type({}) .. type(type) .. type(true)`, "$numberstringniltablefunctionboolean"},
		{`return redis.sha1hex("")`, "$da39a3ee5e6b4b0d3255bfef95601890afd80709"},
		// strings and comments
		{"-- comment\nreturn 'it''s' --[[ long\ncomment ]]", "compile: user_script:2: '<eof>' expected near 's'"},
		{"-- comment\nreturn 'a\\'b' --[[ long\ncomment ]] .. \"c\\n\"", "$a'bc\n"},
		{`return "\65\066\x"`, "compile: mini-lua: unsupported escape sequence '\\x' (line 1)"},
		{`return "\65\066"`, "$AB"},
		{"return [[long\nstring]]", "$long\nstring"},
		{"return [==[a]]b]==]", "$a]]b"},
		{`return #ARGV + #KEYS`, ":0"},
	}
	for _, c := range cases {
		got, _ := run(t, c.src, nil, nil, nil)
		if got != c.want {
			t.Errorf("%q:\n got  %q\n want %q", c.src, got, c.want)
		}
	}
}

func TestKeysArgv(t *testing.T) {
	got, _ := run(t, `return {KEYS[1], KEYS[2], ARGV[1], #KEYS, #ARGV, ARGV[3] == nil}`, []string{"k1", "k2"}, []string{"a1", "a2"}, nil)
	if got != "[$k1 $k2 $a1 :2 :2 :1]" {
		t.Fatal(got)
	}
	got, _ = run(t, `ARGV[2] = tostring(tonumber(ARGV[2])+1); local e = (#ARGV % 2 == 1) and table.remove(ARGV) or nil; return {e, #ARGV, unpack(ARGV)}`,
		nil, []string{"ver", "41", "9999"}, nil)
	if got != "[$9999 :2 $ver $42]" {
		t.Fatal(got)
	}
}

func TestRedisCall(t *testing.T) {
	h := &mockHost{replies: map[string]Reply{
		"GET k":          {Kind: '$', Str: "v"},
		"GET missing":    {Kind: '_'},
		"INCRBY c 5":     {Kind: ':', Int: 12},
		"SET k v":        {Kind: '+', Str: "OK"},
		"BAD":            {Kind: '-', Str: "ERR unknown command"},
		"LRANGE l 0 -1":  {Kind: '*', Elems: []Reply{{Kind: '$', Str: "a"}, {Kind: '_'}, {Kind: ':', Int: 3}, {Kind: '*', Elems: []Reply{{Kind: '$', Str: "n"}}}}},
		"SET k 3.5 PX 7": {Kind: '+', Str: "OK"},
	}}
	cases := []struct{ src, want string }{
		{`return redis.call("GET", "k")`, "$v"},
		{`return redis.call("GET", "missing")`, "_"},
		{`return redis.call("GET", "missing") == false`, ":1"},
		{`return redis.call("INCRBY", "c", 5) + 1`, ":13"},
		{`return redis.call("SET", "k", "v")`, "+OK"},
		{`return redis.call("SET", "k", "v").ok`, "$OK"},
		{`if redis.call("SET", "k", "v") then return 1 else return 0 end`, ":1"},
		{`local r = redis.call("LRANGE", "l", 0, -1); return {r[1], r[2], r[3], r[4][1], #r}`, "[$a _ :3 $n :4]"},
		{`return redis.call("LRANGE", "l", "0", "-1")`, "[$a _ :3 [$n]]"},
		{`return redis.call("BAD")`, "-ERR unknown command"},
		{`local r = redis.pcall("BAD"); return r.err`, "$ERR unknown command"},
		{`return redis.pcall("BAD")`, "-ERR unknown command"},
		{`return redis.call("SET", "k", 3.5, "PX", 7.0)`, "+OK"},
		{`return redis.call("GET", {})`, "-ERR Lua redis lib command arguments must be strings or integers"},
		{`return tonumber(redis.call("GET", "missing")) == nil`, ":1"},
	}
	for _, c := range cases {
		got, _ := run(t, c.src, nil, nil, h)
		if got != c.want {
			t.Errorf("%q:\n got  %q\n want %q", c.src, got, c.want)
		}
	}
	// the error raised by redis.call aborts the script: nothing after it runs
	h.calls = nil
	run(t, `redis.call("BAD"); redis.call("SET", "k", "v")`, nil, nil, h)
	if len(h.calls) != 1 {
		t.Fatalf("script continued after a raised error: %v", h.calls)
	}
	// numbers are passed the way Redis formats them
	h.calls = nil
	run(t, `redis.call("X", 0, 12, -3, 1700000001000 + 1000, 0.5, "s")`, nil, nil, h)
	if got := strings.Join(h.calls[0], " "); got != "X 0 12 -3 1700000002000 0.5 s" {
		t.Fatal(got)
	}
}

func TestRuntimeErrors(t *testing.T) {
	cases := []struct{ src, want string }{
		{`local x; return x + 1`, "-ERR user_script:1: attempt to perform arithmetic on a nil value"},
		{`local x = {}; return x.a.b`, "-ERR user_script:1: attempt to index field 'a' (a nil value)"},
		{"local t = {}\nreturn 1 < 'a'", "-ERR user_script:2: attempt to compare number with string"},
		{`return {} < {}`, "-ERR user_script:1: attempt to compare two table values"},
		{`return "a" .. nil`, "-ERR user_script:1: attempt to concatenate a nil value"},
		{`return undefinedvar`, "-ERR user_script:1: Script attempted to access nonexistent global variable 'undefinedvar'"},
		{`x = 1`, "-ERR user_script:1: Script attempted to create global variable 'x'"},
		{`local f; f()`, "-ERR user_script:1: attempt to call 'f' (a nil value)"},
		{`return #5`, "-ERR user_script:1: attempt to get length of a number value"},
		{`error("boom")`, "-ERR user_script:1: boom"},
		{`error({err="CUSTOM failure"})`, "-CUSTOM failure"},
		{`local t = {}; t[nil] = 1`, "-ERR user_script:1: table index is nil"},
		{`return redis.call()`, "-ERR user_script:1: Please specify at least one argument for this redis lib call"},
		{`local function f() return f() end; return f()`, "-ERR user_script:1: stack overflow"},
	}
	for _, c := range cases {
		got, e := run(t, c.src, nil, nil, nil)
		if got != c.want || e == nil || e.Unsupported {
			t.Errorf("%q:\n got  %q (%v)\n want %q", c.src, got, e, c.want)
		}
	}
}

func TestFailClosed(t *testing.T) {
	cases := []struct{ src, frag string }{
		{`local s = "x"; return s:upper()`, "method call"},
		{`function f() end`, "global function definition"},
		{`return string.format("%d", 1)`, "library function 'string.format'"},
		{`return string.gsub("a", "a", "b")`, "library function 'string.gsub'"},
		{`return math.random()`, "library function 'math.random'"},
		{`return table.sort({})`, "library function 'table.sort'"},
		{`return cjson.encode({})`, "library 'cjson'"},
		{`return pcall(error)`, "library 'pcall'"},
		{`return setmetatable({}, {})`, "library 'setmetatable'"},
		{`return os.time()`, "library 'os'"},
		{`return redis.setresp(3)`, "library function 'redis.setresp'"},
		{`return redis.breakpoint()`, "library function 'redis.breakpoint'"},
		{`for i = 1, 3, 0 do end`, "numeric 'for' with step 0"},
		{`while true do end`, "long-running script"},
		{`return tonumber("ff", 16)`, "tonumber with a base"},
		{`KEYS = {}`, "assignment to the global 'KEYS'"},
		{`return {double=1.5}`, "RESP3 reply table"},
		{`return ("x").len`, "indexing a string value"},
		{`goto done`, ""},
		{`return 1 // 2`, ""},
		{`return 1 & 2`, ""},
	}
	for _, c := range cases {
		got, e := run(t, c.src, nil, nil, nil)
		if e == nil {
			t.Errorf("%q: accepted (%s)", c.src, got)
			continue
		}
		if c.frag == "" {
			continue // any error (syntax error) is fine: not executed
		}
		if !e.Unsupported || !strings.Contains(e.Error(), c.frag) || !strings.Contains(e.Error(), "mini-lua: unsupported") {
			t.Errorf("%q: error %q does not fail closed with %q", c.src, e.Error(), c.frag)
		}
	}
}

func TestTruncInt(t *testing.T) {
	for _, c := range []struct {
		f float64
		i int64
	}{{0, 0}, {2.9, 2}, {-2.9, -2}, {1e18, 1000000000000000000}, {1e19, -1 << 63}, {-1e19, -1 << 63}} {
		if truncInt(c.f) != c.i {
			t.Errorf("truncInt(%v) = %d, want %d", c.f, truncInt(c.f), c.i)
		}
	}
}
