package lua

import (
	"math"
)

// Reply is a RESP2 reply as seen by a script (Redis runs the commands of a script in RESP2 mode):
// Kind is '+' status, '-' error, ':' integer, '$' bulk, '*' array, '_' null bulk / null array.
type Reply struct {
	Kind  byte
	Str   string
	Int   int64
	Elems []Reply
}

// Host executes the Redis commands issued by redis.call / redis.pcall.
type Host interface {
	Call(argv []string) Reply
}

type cell struct{ v Value }

type scope struct {
	vars   map[string]*cell
	parent *scope
}

func (s *scope) lookup(name string) *cell {
	for sc := s; sc != nil; sc = sc.parent {
		if c, ok := sc.vars[name]; ok {
			return c
		}
	}
	return nil
}

func (s *scope) declare(name string, v Value) {
	if s.vars == nil {
		s.vars = map[string]*cell{}
	}
	s.vars[name] = &cell{v: v}
}

// Interp runs one script execution.
type Interp struct {
	host    Host
	globals map[string]Value
	steps   int
	// MaxSteps bounds the number of evaluated statements and loop iterations (Redis would answer BUSY).
	MaxSteps int
	depth    int
}

type ctl int

const (
	ctlNone ctl = iota
	ctlBreak
	ctlReturn
)

// Run executes a compiled script with the given KEYS and ARGV and returns the reply Redis would send.
// A nil error means the script finished (the reply may still be an error reply, e.g. return {err=…}
// or an error raised by redis.call).  A non-nil *Error with Unsupported = true means the script left
// the supported subset; other *Error values are Lua run-time errors (also returned as Reply '-').
func Run(ch *Chunk, host Host, keys, args []string) (rep Reply, err *Error) {
	in := &Interp{host: host, MaxSteps: 5_000_000}
	in.globals = stdlib(in)
	kt, at := NewTable(), NewTable()
	for _, k := range keys {
		kt.Append(k)
	}
	for _, a := range args {
		at.Append(a)
	}
	in.globals["KEYS"] = kt
	in.globals["ARGV"] = at
	defer func() {
		if r := recover(); r != nil {
			le, ok := r.(*Error)
			if !ok {
				panic(r)
			}
			err = le
			rep = errorReply(le)
		}
	}()
	root := &scope{}
	c, vals := in.execBlock(ch.body, &scope{parent: root}, nil)
	if c == ctlBreak {
		in.rt(0, "no loop to break")
	}
	var v Value
	if c == ctlReturn && len(vals) > 0 {
		v = vals[0]
	}
	return in.toReply(v, 0), nil
}

func errorReply(e *Error) Reply {
	if e.Value != nil {
		if t, ok := e.Value.(*Table); ok {
			if s, ok := t.Get("err").(string); ok {
				return Reply{Kind: '-', Str: s}
			}
		}
		if s, ok := e.Value.(string); ok {
			return Reply{Kind: '-', Str: "ERR " + s}
		}
	}
	return Reply{Kind: '-', Str: "ERR " + e.Error()}
}

// rt raises a Lua run-time error.
func (in *Interp) rt(line int, format string, a ...any) {
	panic(&Error{Msg: sprintf(format, a...), Line: line})
}

func (in *Interp) step(line int) {
	in.steps++
	if in.steps > in.MaxSteps {
		panic(unsupported(line, "long-running script: more than %d steps (Redis would answer BUSY)", in.MaxSteps))
	}
}

func (in *Interp) execBlock(body []stmt, sc *scope, varargs []Value) (ctl, []Value) {
	for _, s := range body {
		in.step(s.stmtLine())
		switch st := s.(type) {
		case sLocal:
			vals := in.evalList(st.exprs, sc, varargs)
			for i, n := range st.names {
				var v Value
				if i < len(vals) {
					v = vals[i]
				}
				sc.declare(n, v)
			}
		case sLocalFunc:
			sc.declare(st.name, nil)
			fn := st.fn
			sc.lookup(st.name).v = &Closure{fn: &fn, env: sc}
		case sAssign:
			vals := in.evalList(st.exprs, sc, varargs)
			// evaluate table/key of index targets before assigning
			type tgt struct {
				c   *cell
				tb  *Table
				key Value
			}
			tgts := make([]tgt, len(st.targets))
			for i, t := range st.targets {
				switch x := t.(type) {
				case eName:
					c := sc.lookup(x.name)
					if c == nil {
						if _, ok := in.globals[x.name]; ok {
							panic(unsupported(x.line, "assignment to the global '%s'", x.name))
						}
						in.rt(x.line, "Script attempted to create global variable '%s'", x.name)
					}
					tgts[i] = tgt{c: c}
				case eIndex:
					obj := in.eval1(x.obj, sc, varargs)
					key := in.eval1(x.key, sc, varargs)
					tb, ok := obj.(*Table)
					if !ok {
						in.rt(x.line, "attempt to index a %s value", typeName(obj))
					}
					if key == nil {
						in.rt(x.line, "table index is nil")
					}
					if f, ok := key.(float64); ok && f != f {
						in.rt(x.line, "table index is NaN")
					}
					tgts[i] = tgt{tb: tb, key: key}
				}
			}
			for i, t := range tgts {
				var v Value
				if i < len(vals) {
					v = vals[i]
				}
				if t.c != nil {
					t.c.v = v
				} else {
					t.tb.Set(t.key, v)
				}
			}
		case sCall:
			in.call(st.call, sc, varargs)
		case sDo:
			if c, v := in.execBlock(st.body, &scope{parent: sc}, varargs); c != ctlNone {
				return c, v
			}
		case sWhile:
			for truthy(in.eval1(st.cond, sc, varargs)) {
				in.step(st.line)
				c, v := in.execBlock(st.body, &scope{parent: sc}, varargs)
				if c == ctlBreak {
					break
				}
				if c == ctlReturn {
					return c, v
				}
			}
		case sRepeat:
			for {
				in.step(st.line)
				inner := &scope{parent: sc}
				c, v := in.execBlock(st.body, inner, varargs)
				if c == ctlBreak {
					break
				}
				if c == ctlReturn {
					return c, v
				}
				if truthy(in.eval1(st.cond, inner, varargs)) {
					break
				}
			}
		case sIf:
			done := false
			for i, cnd := range st.conds {
				if truthy(in.eval1(cnd, sc, varargs)) {
					if c, v := in.execBlock(st.blocks[i], &scope{parent: sc}, varargs); c != ctlNone {
						return c, v
					}
					done = true
					break
				}
			}
			if !done && st.hasEls {
				if c, v := in.execBlock(st.els, &scope{parent: sc}, varargs); c != ctlNone {
					return c, v
				}
			}
		case sNumFor:
			start := in.forNum(st.start, sc, varargs, "initial")
			stop := in.forNum(st.stop, sc, varargs, "limit")
			step := 1.0
			if st.step != nil {
				step = in.forNum(st.step, sc, varargs, "step")
			}
			if step == 0 || step != step {
				// Lua 5.1 loops forever (or not at all) on a zero step; Redis would kill the script as BUSY
				panic(unsupported(st.line, "numeric 'for' with step %s (Lua 5.1 would not terminate)", fmtNumber(step)))
			}
			for i := start; (step > 0 && i <= stop) || (step < 0 && i >= stop); i += step {
				in.step(st.line)
				inner := &scope{parent: sc}
				inner.declare(st.name, i)
				c, v := in.execBlock(st.body, inner, varargs)
				if c == ctlBreak {
					break
				}
				if c == ctlReturn {
					return c, v
				}
			}
		case sGenFor:
			vals := in.evalList(st.exprs, sc, varargs)
			for len(vals) < 3 {
				vals = append(vals, nil)
			}
			f, state, control := vals[0], vals[1], vals[2]
			for {
				in.step(st.line)
				rs := in.callValue(f, []Value{state, control}, st.line)
				var first Value
				if len(rs) > 0 {
					first = rs[0]
				}
				if first == nil {
					break
				}
				control = first
				inner := &scope{parent: sc}
				for i, n := range st.names {
					var v Value
					if i < len(rs) {
						v = rs[i]
					}
					inner.declare(n, v)
				}
				c, v := in.execBlock(st.body, inner, varargs)
				if c == ctlBreak {
					break
				}
				if c == ctlReturn {
					return c, v
				}
			}
		case sReturn:
			return ctlReturn, in.evalList(st.exprs, sc, varargs)
		case sBreak:
			return ctlBreak, nil
		default:
			panic(unsupported(s.stmtLine(), "statement"))
		}
	}
	return ctlNone, nil
}

func (in *Interp) forNum(e expr, sc *scope, varargs []Value, what string) float64 {
	v := in.eval1(e, sc, varargs)
	f, ok := toNumber(v)
	if !ok {
		in.rt(e.exprLine(), "'for' %s value must be a number", what)
	}
	return f
}

// evalList evaluates an expression list; the last expression keeps all its values.
func (in *Interp) evalList(exprs []expr, sc *scope, varargs []Value) []Value {
	var out []Value
	for i, e := range exprs {
		if i == len(exprs)-1 {
			out = append(out, in.evalMulti(e, sc, varargs)...)
		} else {
			out = append(out, in.eval1(e, sc, varargs))
		}
	}
	return out
}

func (in *Interp) evalMulti(e expr, sc *scope, varargs []Value) []Value {
	switch x := e.(type) {
	case eCall:
		return in.call(x, sc, varargs)
	case eVararg:
		return varargs
	}
	return []Value{in.eval1(e, sc, varargs)}
}

func (in *Interp) call(c eCall, sc *scope, varargs []Value) []Value {
	fn := in.eval1(c.fn, sc, varargs)
	args := in.evalList(c.args, sc, varargs)
	if fn == nil || (typeName(fn) != "function") {
		in.rt(c.line, "attempt to call %s (a %s value)", describe(c.fn), typeName(fn))
	}
	return in.callValue(fn, args, c.line)
}

func describe(e expr) string {
	switch x := e.(type) {
	case eName:
		return "'" + x.name + "'"
	case eIndex:
		if s, ok := x.key.(eString); ok {
			return "field '" + s.v + "'"
		}
	}
	return "a value"
}

func (in *Interp) callValue(fn Value, args []Value, line int) []Value {
	switch f := fn.(type) {
	case *Builtin:
		return f.Fn(in, line, args)
	case *Closure:
		in.depth++
		if in.depth > 180 {
			in.rt(line, "stack overflow")
		}
		defer func() { in.depth-- }()
		sc := &scope{parent: f.env}
		for i, p := range f.fn.params {
			var v Value
			if i < len(args) {
				v = args[i]
			}
			sc.declare(p, v)
		}
		var va []Value
		if f.fn.vararg && len(args) > len(f.fn.params) {
			va = args[len(f.fn.params):]
		}
		c, vals := in.execBlock(f.fn.body, sc, va)
		if c == ctlReturn {
			return vals
		}
		return nil
	}
	in.rt(line, "attempt to call a %s value", typeName(fn))
	return nil
}

func (in *Interp) eval1(e expr, sc *scope, varargs []Value) Value {
	switch x := e.(type) {
	case eNil:
		return nil
	case eTrue:
		return true
	case eFalse:
		return false
	case eNumber:
		return x.v
	case eString:
		return x.v
	case eVararg:
		if len(varargs) > 0 {
			return varargs[0]
		}
		return nil
	case eParen:
		return in.eval1(x.e, sc, varargs)
	case eName:
		if c := sc.lookup(x.name); c != nil {
			return c.v
		}
		if v, ok := in.globals[x.name]; ok {
			return v
		}
		if unsupportedGlobals[x.name] {
			panic(unsupported(x.line, "library '%s'", x.name))
		}
		in.rt(x.line, "Script attempted to access nonexistent global variable '%s'", x.name)
	case eIndex:
		obj := in.eval1(x.obj, sc, varargs)
		key := in.eval1(x.key, sc, varargs)
		switch o := obj.(type) {
		case *Table:
			v := o.Get(key)
			if v == nil {
				if lib, ok := o.Get(libMarker).(string); ok {
					panic(unsupported(x.line, "library function '%s.%v'", lib, key))
				}
			}
			return v
		case string:
			panic(unsupported(x.line, "indexing a string value (string methods)"))
		}
		in.rt(x.line, "attempt to index %s (a %s value)", describe(x.obj), typeName(obj))
	case eCall:
		rs := in.call(x, sc, varargs)
		if len(rs) > 0 {
			return rs[0]
		}
		return nil
	case eFunc:
		fn := x
		return &Closure{fn: &fn, env: sc}
	case eTable:
		t := NewTable()
		pos := 1
		for i, f := range x.fields {
			if f.key != nil {
				k := in.eval1(f.key, sc, varargs)
				if k == nil {
					in.rt(x.line, "table index is nil")
				}
				if fl, ok := k.(float64); ok && fl != fl {
					in.rt(x.line, "table index is NaN")
				}
				t.Set(k, in.eval1(f.val, sc, varargs))
				continue
			}
			if i == len(x.fields)-1 {
				for _, v := range in.evalMulti(f.val, sc, varargs) {
					t.Set(float64(pos), v)
					pos++
				}
			} else {
				t.Set(float64(pos), in.eval1(f.val, sc, varargs))
				pos++
			}
		}
		return t
	case eUn:
		v := in.eval1(x.e, sc, varargs)
		switch x.op {
		case "not":
			return !truthy(v)
		case "-":
			f, ok := toNumber(v)
			if !ok {
				in.rt(x.line, "attempt to perform arithmetic on a %s value", typeName(v))
			}
			return -f
		case "#":
			switch o := v.(type) {
			case string:
				return float64(len(o))
			case *Table:
				return float64(o.Len())
			}
			in.rt(x.line, "attempt to get length of a %s value", typeName(v))
		}
	case eBin:
		switch x.op {
		case "and":
			l := in.eval1(x.l, sc, varargs)
			if !truthy(l) {
				return l
			}
			return in.eval1(x.r, sc, varargs)
		case "or":
			l := in.eval1(x.l, sc, varargs)
			if truthy(l) {
				return l
			}
			return in.eval1(x.r, sc, varargs)
		}
		l := in.eval1(x.l, sc, varargs)
		r := in.eval1(x.r, sc, varargs)
		return in.binop(x.op, l, r, x.line)
	}
	panic(unsupported(e.exprLine(), "expression"))
}

func rawEqual(a, b Value) bool {
	switch x := a.(type) {
	case nil:
		return b == nil
	case bool:
		y, ok := b.(bool)
		return ok && x == y
	case float64:
		y, ok := b.(float64)
		return ok && x == y
	case string:
		y, ok := b.(string)
		return ok && x == y
	case *Table:
		y, ok := b.(*Table)
		return ok && x == y
	case *Closure:
		y, ok := b.(*Closure)
		return ok && x == y
	case *Builtin:
		y, ok := b.(*Builtin)
		return ok && x == y
	}
	return false
}

func (in *Interp) binop(op string, l, r Value, line int) Value {
	switch op {
	case "==":
		return rawEqual(l, r)
	case "~=":
		return !rawEqual(l, r)
	case "<", "<=", ">", ">=":
		if op == ">" {
			l, r, op = r, l, "<"
		} else if op == ">=" {
			l, r, op = r, l, "<="
		}
		lf, lok := l.(float64)
		rf, rok := r.(float64)
		if lok && rok {
			if op == "<" {
				return lf < rf
			}
			return lf <= rf
		}
		ls, lok := l.(string)
		rs, rok := r.(string)
		if lok && rok {
			if op == "<" {
				return ls < rs
			}
			return ls <= rs
		}
		if typeName(l) == typeName(r) {
			in.rt(line, "attempt to compare two %s values", typeName(l))
		}
		in.rt(line, "attempt to compare %s with %s", typeName(l), typeName(r))
	case "..":
		ls, lok := toStringCoerce(l)
		rs, rok := toStringCoerce(r)
		if !lok {
			in.rt(line, "attempt to concatenate a %s value", typeName(l))
		}
		if !rok {
			in.rt(line, "attempt to concatenate a %s value", typeName(r))
		}
		return ls + rs
	case "+", "-", "*", "/", "%", "^":
		lf, lok := toNumber(l)
		rf, rok := toNumber(r)
		if !lok {
			in.rt(line, "attempt to perform arithmetic on a %s value", typeName(l))
		}
		if !rok {
			in.rt(line, "attempt to perform arithmetic on a %s value", typeName(r))
		}
		switch op {
		case "+":
			return lf + rf
		case "-":
			return lf - rf
		case "*":
			return lf * rf
		case "/":
			return lf / rf
		case "%":
			return lf - math.Floor(lf/rf)*rf // luai_nummod
		case "^":
			return math.Pow(lf, rf)
		}
	}
	panic(unsupported(line, "operator '%s'", op))
}

// ---- Lua <-> RESP conversion (Redis' rules, RESP2 inside scripts) ----

// fromReply: RESP -> Lua.  Errors are returned as the table {err=…}; the caller decides to raise.
func fromReply(r Reply) Value {
	switch r.Kind {
	case ':':
		return float64(r.Int)
	case '$':
		return r.Str
	case '_':
		return false
	case '+':
		t := NewTable()
		t.Set("ok", r.Str)
		return t
	case '-':
		t := NewTable()
		t.Set("err", r.Str)
		return t
	case '*':
		t := NewTable()
		for i, e := range r.Elems {
			t.Set(float64(i+1), fromReply(e))
		}
		return t
	}
	t := NewTable()
	t.Set("err", "ERR mini-lua: reply kind not convertible")
	return t
}

// toReply: Lua -> RESP.
func (in *Interp) toReply(v Value, depth int) Reply {
	if depth > 100 {
		return Reply{Kind: '-', Str: "ERR reached lua stack limit"}
	}
	switch x := v.(type) {
	case nil:
		return Reply{Kind: '_'}
	case bool:
		if x {
			return Reply{Kind: ':', Int: 1}
		}
		return Reply{Kind: '_'}
	case float64:
		return Reply{Kind: ':', Int: truncInt(x)}
	case string:
		return Reply{Kind: '$', Str: x}
	case *Table:
		if s, ok := x.Get("err").(string); ok {
			return Reply{Kind: '-', Str: s}
		}
		if s, ok := x.Get("ok").(string); ok {
			return Reply{Kind: '+', Str: s}
		}
		for _, k := range []string{"double", "map", "set", "big_number", "verbatim_string"} {
			if x.Get(k) != nil {
				panic(unsupported(0, "RESP3 reply table with field '%s'", k))
			}
		}
		out := Reply{Kind: '*', Elems: []Reply{}}
		// "table -> array up to the first nil": Redis walks t[1], t[2], … with lua_gettable
		for i := 1; ; i++ {
			e := x.Get(float64(i))
			if e == nil {
				break
			}
			out.Elems = append(out.Elems, in.toReply(e, depth+1))
		}
		return out
	}
	return Reply{Kind: '_'} // functions etc.: Redis replies nil
}

// truncInt is C's (long long) conversion as Redis applies it to Lua numbers.
func truncInt(f float64) int64 {
	if f != f || f >= 9.223372036854775807e18 || f <= -9.223372036854775808e18 {
		return math.MinInt64
	}
	return int64(f)
}

// argToString converts a redis.call argument: strings as they are; numbers as Redis does
// (integers in decimal, other values with %.17g).
func argToString(v Value) (string, bool) {
	switch x := v.(type) {
	case string:
		return x, true
	case float64:
		if x == math.Trunc(x) && math.Abs(x) < 9.2e18 {
			return sprintf("%d", int64(x)), true
		}
		if x != x {
			return "nan", true
		}
		if math.IsInf(x, 1) {
			return "inf", true
		}
		if math.IsInf(x, -1) {
			return "-inf", true
		}
		return sprintf("%.17g", x), true
	}
	return "", false
}
