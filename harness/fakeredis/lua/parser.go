package lua

// ---- AST ----

type expr interface{ exprLine() int }

type (
	eNil    struct{ line int }
	eTrue   struct{ line int }
	eFalse  struct{ line int }
	eVararg struct{ line int }
	eNumber struct {
		line int
		v    float64
	}
	eString struct {
		line int
		v    string
	}
	eName struct {
		line int
		name string
	}
	eIndex struct {
		line     int
		obj, key expr
	}
	eCall struct {
		line int
		fn   expr
		args []expr
	}
	eFunc struct {
		line   int
		params []string
		vararg bool
		body   []stmt
	}
	eBin struct {
		line int
		op   string
		l, r expr
	}
	eUn struct {
		line int
		op   string
		e    expr
	}
	eParen struct { // (f()) truncates to one value
		line int
		e    expr
	}
	tableField struct {
		key expr // nil = positional
		val expr
	}
	eTable struct {
		line   int
		fields []tableField
	}
)

func (e eNil) exprLine() int    { return e.line }
func (e eTrue) exprLine() int   { return e.line }
func (e eFalse) exprLine() int  { return e.line }
func (e eVararg) exprLine() int { return e.line }
func (e eNumber) exprLine() int { return e.line }
func (e eString) exprLine() int { return e.line }
func (e eName) exprLine() int   { return e.line }
func (e eIndex) exprLine() int  { return e.line }
func (e eCall) exprLine() int   { return e.line }
func (e eFunc) exprLine() int   { return e.line }
func (e eBin) exprLine() int    { return e.line }
func (e eUn) exprLine() int     { return e.line }
func (e eParen) exprLine() int  { return e.line }
func (e eTable) exprLine() int  { return e.line }

type stmt interface{ stmtLine() int }

type (
	sLocal struct {
		line  int
		names []string
		exprs []expr
	}
	sLocalFunc struct {
		line int
		name string
		fn   eFunc
	}
	sAssign struct {
		line    int
		targets []expr // eName or eIndex
		exprs   []expr
	}
	sCall struct {
		line int
		call eCall
	}
	sDo struct {
		line int
		body []stmt
	}
	sWhile struct {
		line int
		cond expr
		body []stmt
	}
	sRepeat struct {
		line int
		body []stmt
		cond expr
	}
	sIf struct {
		line   int
		conds  []expr
		blocks [][]stmt
		els    []stmt // nil = no else
		hasEls bool
	}
	sNumFor struct {
		line              int
		name              string
		start, stop, step expr // step may be nil
		body              []stmt
	}
	sGenFor struct {
		line  int
		names []string
		exprs []expr
		body  []stmt
	}
	sReturn struct {
		line  int
		exprs []expr
	}
	sBreak struct{ line int }
)

func (s sLocal) stmtLine() int     { return s.line }
func (s sLocalFunc) stmtLine() int { return s.line }
func (s sAssign) stmtLine() int    { return s.line }
func (s sCall) stmtLine() int      { return s.line }
func (s sDo) stmtLine() int        { return s.line }
func (s sWhile) stmtLine() int     { return s.line }
func (s sRepeat) stmtLine() int    { return s.line }
func (s sIf) stmtLine() int        { return s.line }
func (s sNumFor) stmtLine() int    { return s.line }
func (s sGenFor) stmtLine() int    { return s.line }
func (s sReturn) stmtLine() int    { return s.line }
func (s sBreak) stmtLine() int     { return s.line }

// Chunk is a compiled script.
type Chunk struct {
	body []stmt
	Src  string
}

// ---- parser ----

type parser struct {
	toks []token
	pos  int
}

// Compile parses a script. Errors are *Error (syntax errors, or Unsupported for constructs outside the subset).
func Compile(src string) (ch *Chunk, err error) {
	toks, err := lex(src)
	if err != nil {
		return nil, err
	}
	p := &parser{toks: toks}
	defer func() {
		if r := recover(); r != nil {
			if le, ok := r.(*Error); ok {
				ch, err = nil, le
				return
			}
			panic(r)
		}
	}()
	body := p.block()
	if p.peek().kind != tEOF {
		p.fail("'<eof>' expected near '%s'", p.peek().s)
	}
	return &Chunk{body: body, Src: src}, nil
}

func (p *parser) peek() token { return p.toks[p.pos] }
func (p *parser) next() token { t := p.toks[p.pos]; p.pos++; return t }

func (p *parser) fail(format string, a ...any) {
	e := &Error{Line: p.peek().line}
	e.Msg = sprintf(format, a...)
	panic(e)
}

func (p *parser) isOp(s string) bool { t := p.peek(); return t.kind == tOp && t.s == s }
func (p *parser) isKw(s string) bool { t := p.peek(); return t.kind == tKeyword && t.s == s }

func (p *parser) acceptOp(s string) bool {
	if p.isOp(s) {
		p.pos++
		return true
	}
	return false
}

func (p *parser) acceptKw(s string) bool {
	if p.isKw(s) {
		p.pos++
		return true
	}
	return false
}

func (p *parser) expectOp(s string) {
	if !p.acceptOp(s) {
		p.fail("'%s' expected near '%s'", s, p.tokText())
	}
}

func (p *parser) expectKw(s string) {
	if !p.acceptKw(s) {
		p.fail("'%s' expected near '%s'", s, p.tokText())
	}
}

func (p *parser) tokText() string {
	t := p.peek()
	if t.kind == tEOF {
		return "<eof>"
	}
	return t.s
}

func (p *parser) expectName() string {
	t := p.peek()
	if t.kind != tName {
		p.fail("<name> expected near '%s'", p.tokText())
	}
	p.pos++
	return t.s
}

func (p *parser) blockEnd() bool {
	t := p.peek()
	if t.kind == tEOF {
		return true
	}
	if t.kind == tKeyword {
		switch t.s {
		case "end", "else", "elseif", "until":
			return true
		}
	}
	return false
}

func (p *parser) block() []stmt {
	var out []stmt
	for !p.blockEnd() {
		if p.isKw("return") {
			line := p.next().line
			var exprs []expr
			if !p.blockEnd() && !p.isOp(";") {
				exprs = p.exprList()
			}
			p.acceptOp(";")
			out = append(out, sReturn{line: line, exprs: exprs})
			if !p.blockEnd() {
				p.fail("'<eof>' expected near '%s'", p.tokText())
			}
			break
		}
		if p.isKw("break") {
			line := p.next().line
			p.acceptOp(";")
			out = append(out, sBreak{line: line})
			if !p.blockEnd() {
				p.fail("'end' expected near '%s'", p.tokText())
			}
			break
		}
		out = append(out, p.statement())
		p.acceptOp(";")
	}
	return out
}

func (p *parser) statement() stmt {
	t := p.peek()
	line := t.line
	if t.kind == tKeyword {
		switch t.s {
		case "if":
			p.next()
			s := sIf{line: line}
			s.conds = append(s.conds, p.expr())
			p.expectKw("then")
			s.blocks = append(s.blocks, p.block())
			for {
				if p.acceptKw("elseif") {
					s.conds = append(s.conds, p.expr())
					p.expectKw("then")
					s.blocks = append(s.blocks, p.block())
					continue
				}
				if p.acceptKw("else") {
					s.els = p.block()
					s.hasEls = true
				}
				p.expectKw("end")
				break
			}
			return s
		case "while":
			p.next()
			c := p.expr()
			p.expectKw("do")
			b := p.block()
			p.expectKw("end")
			return sWhile{line: line, cond: c, body: b}
		case "do":
			p.next()
			b := p.block()
			p.expectKw("end")
			return sDo{line: line, body: b}
		case "repeat":
			p.next()
			b := p.block()
			p.expectKw("until")
			c := p.expr()
			return sRepeat{line: line, body: b, cond: c}
		case "for":
			p.next()
			n1 := p.expectName()
			if p.acceptOp("=") {
				s := sNumFor{line: line, name: n1}
				s.start = p.expr()
				p.expectOp(",")
				s.stop = p.expr()
				if p.acceptOp(",") {
					s.step = p.expr()
				}
				p.expectKw("do")
				s.body = p.block()
				p.expectKw("end")
				return s
			}
			names := []string{n1}
			for p.acceptOp(",") {
				names = append(names, p.expectName())
			}
			p.expectKw("in")
			exprs := p.exprList()
			p.expectKw("do")
			b := p.block()
			p.expectKw("end")
			return sGenFor{line: line, names: names, exprs: exprs, body: b}
		case "function":
			panic(unsupported(line, "global function definition (Redis forbids creating globals; use 'local function')"))
		case "local":
			p.next()
			if p.acceptKw("function") {
				name := p.expectName()
				fn := p.funcBody(line)
				return sLocalFunc{line: line, name: name, fn: fn}
			}
			names := []string{p.expectName()}
			for p.acceptOp(",") {
				names = append(names, p.expectName())
			}
			var exprs []expr
			if p.acceptOp("=") {
				exprs = p.exprList()
			}
			return sLocal{line: line, names: names, exprs: exprs}
		}
	}
	// expression statement: call or assignment
	e := p.suffixedExpr()
	if p.isOp("=") || p.isOp(",") {
		targets := []expr{e}
		for p.acceptOp(",") {
			targets = append(targets, p.suffixedExpr())
		}
		p.expectOp("=")
		exprs := p.exprList()
		for _, tg := range targets {
			switch tg.(type) {
			case eName, eIndex:
			default:
				p.fail("syntax error near '='")
			}
		}
		return sAssign{line: line, targets: targets, exprs: exprs}
	}
	c, ok := e.(eCall)
	if !ok {
		p.fail("syntax error near '%s'", p.tokText())
	}
	return sCall{line: line, call: c}
}

func (p *parser) exprList() []expr {
	out := []expr{p.expr()}
	for p.acceptOp(",") {
		out = append(out, p.expr())
	}
	return out
}

func (p *parser) funcBody(line int) eFunc {
	f := eFunc{line: line}
	p.expectOp("(")
	if !p.isOp(")") {
		for {
			if p.acceptOp("...") {
				f.vararg = true
				break
			}
			f.params = append(f.params, p.expectName())
			if !p.acceptOp(",") {
				break
			}
		}
	}
	p.expectOp(")")
	f.body = p.block()
	p.expectKw("end")
	return f
}

func (p *parser) primaryExpr() expr {
	t := p.peek()
	switch {
	case t.kind == tName:
		p.next()
		return eName{line: t.line, name: t.s}
	case t.kind == tOp && t.s == "(":
		p.next()
		e := p.expr()
		p.expectOp(")")
		return eParen{line: t.line, e: e}
	}
	p.fail("unexpected symbol near '%s'", p.tokText())
	return nil
}

func (p *parser) suffixedExpr() expr {
	e := p.primaryExpr()
	for {
		t := p.peek()
		if t.kind == tOp {
			switch t.s {
			case ".":
				p.next()
				name := p.expectName()
				e = eIndex{line: t.line, obj: e, key: eString{line: t.line, v: name}}
				continue
			case "[":
				p.next()
				k := p.expr()
				p.expectOp("]")
				e = eIndex{line: t.line, obj: e, key: k}
				continue
			case ":":
				panic(unsupported(t.line, "method call syntax 'obj:method(...)'"))
			case "(":
				p.next()
				var args []expr
				if !p.isOp(")") {
					args = p.exprList()
				}
				p.expectOp(")")
				e = eCall{line: t.line, fn: e, args: args}
				continue
			case "{":
				arg := p.tableConstructor()
				e = eCall{line: t.line, fn: e, args: []expr{arg}}
				continue
			}
		}
		if t.kind == tString {
			p.next()
			e = eCall{line: t.line, fn: e, args: []expr{eString{line: t.line, v: t.s}}}
			continue
		}
		return e
	}
}

func (p *parser) tableConstructor() expr {
	line := p.peek().line
	p.expectOp("{")
	tb := eTable{line: line}
	for !p.isOp("}") {
		switch {
		case p.isOp("["):
			p.next()
			k := p.expr()
			p.expectOp("]")
			p.expectOp("=")
			tb.fields = append(tb.fields, tableField{key: k, val: p.expr()})
		case p.peek().kind == tName && p.toks[p.pos+1].kind == tOp && p.toks[p.pos+1].s == "=":
			name := p.next()
			p.next()
			tb.fields = append(tb.fields, tableField{key: eString{line: name.line, v: name.s}, val: p.expr()})
		default:
			tb.fields = append(tb.fields, tableField{val: p.expr()})
		}
		if !p.acceptOp(",") && !p.acceptOp(";") {
			break
		}
	}
	p.expectOp("}")
	return tb
}

func (p *parser) simpleExpr() expr {
	t := p.peek()
	switch t.kind {
	case tNumber:
		p.next()
		return eNumber{line: t.line, v: t.n}
	case tString:
		p.next()
		return eString{line: t.line, v: t.s}
	case tKeyword:
		switch t.s {
		case "nil":
			p.next()
			return eNil{line: t.line}
		case "true":
			p.next()
			return eTrue{line: t.line}
		case "false":
			p.next()
			return eFalse{line: t.line}
		case "function":
			p.next()
			return p.funcBody(t.line)
		}
	case tOp:
		if t.s == "{" {
			return p.tableConstructor()
		}
		if t.s == "..." {
			p.next()
			return eVararg{line: t.line}
		}
	}
	return p.suffixedExpr()
}

// operator precedences of Lua 5.1: {left, right}
var binPrec = map[string][2]int{
	"or": {1, 1}, "and": {2, 2},
	"<": {3, 3}, ">": {3, 3}, "<=": {3, 3}, ">=": {3, 3}, "~=": {3, 3}, "==": {3, 3},
	"..": {5, 4}, // right associative
	"+":  {6, 6}, "-": {6, 6},
	"*": {7, 7}, "/": {7, 7}, "%": {7, 7},
	"^": {10, 9}, // right associative
}

const unaryPrec = 8

func (p *parser) expr() expr { return p.subExpr(0) }

func (p *parser) binOp() (string, bool) {
	t := p.peek()
	if t.kind == tOp {
		if _, ok := binPrec[t.s]; ok {
			return t.s, true
		}
	}
	if t.kind == tKeyword && (t.s == "and" || t.s == "or") {
		return t.s, true
	}
	return "", false
}

func (p *parser) subExpr(limit int) expr {
	var e expr
	t := p.peek()
	if (t.kind == tKeyword && t.s == "not") || (t.kind == tOp && (t.s == "-" || t.s == "#")) {
		p.next()
		operand := p.subExpr(unaryPrec)
		e = eUn{line: t.line, op: t.s, e: operand}
	} else {
		e = p.simpleExpr()
	}
	for {
		op, ok := p.binOp()
		if !ok {
			break
		}
		pr := binPrec[op]
		if pr[0] <= limit {
			break
		}
		line := p.next().line
		r := p.subExpr(pr[1])
		e = eBin{line: line, op: op, l: e, r: r}
	}
	return e
}
