// Package lua is a tree-walking interpreter for the subset of Lua 5.1 used by the Lua scripts that
// the repository under test sends to Redis (rueidislock, rueidisaside, rueidislimiter, om,
// rueidisprob).  It fails closed: any syntax, library function or behaviour outside the subset is
// reported as an *Error with Unsupported = true, which the scripting layer turns into the Redis
// error reply "ERR mini-lua: unsupported …".  It is part of the correspondence harness only (trusted
// for the tie, not for any theorem).
package lua

import (
	"fmt"
	"strings"
)

type tokKind int

const (
	tEOF tokKind = iota
	tName
	tNumber
	tString
	tKeyword
	tOp
)

type token struct {
	kind tokKind
	s    string  // name, keyword, operator or string value
	n    float64 // number value
	line int
}

var keywords = map[string]bool{
	"and": true, "break": true, "do": true, "else": true, "elseif": true, "end": true, "false": true,
	"for": true, "function": true, "if": true, "in": true, "local": true, "nil": true, "not": true,
	"or": true, "repeat": true, "return": true, "then": true, "true": true, "until": true, "while": true,
}

// Error is a compile-time or run-time error of a script.
type Error struct {
	Msg         string
	Line        int
	Unsupported bool  // outside the supported subset (fail closed)
	Value       Value // the Lua error value when raised by error()/redis.call (a table {err=…}), else nil
}

func (e *Error) Error() string {
	if e.Unsupported {
		return fmt.Sprintf("mini-lua: unsupported %s (line %d)", e.Msg, e.Line)
	}
	return fmt.Sprintf("user_script:%d: %s", e.Line, e.Msg)
}

func unsupported(line int, format string, a ...any) *Error {
	return &Error{Msg: fmt.Sprintf(format, a...), Line: line, Unsupported: true}
}

func lex(src string) ([]token, error) {
	var toks []token
	line := 1
	i, n := 0, len(src)
	for i < n {
		c := src[i]
		switch {
		case c == '\n':
			line++
			i++
		case c == ' ' || c == '\t' || c == '\r':
			i++
		case c == '-' && i+1 < n && src[i+1] == '-':
			// comment
			i += 2
			if i < n && src[i] == '[' {
				if lvl, ok := longBracketLevel(src, i); ok {
					end := strings.Index(src[i:], "]"+strings.Repeat("=", lvl)+"]")
					if end < 0 {
						return nil, &Error{Msg: "unfinished long comment", Line: line}
					}
					line += strings.Count(src[i:i+end], "\n")
					i += end + lvl + 2
					continue
				}
			}
			for i < n && src[i] != '\n' {
				i++
			}
		case isAlpha(c):
			j := i
			for j < n && (isAlpha(src[j]) || isDigit(src[j])) {
				j++
			}
			w := src[i:j]
			if keywords[w] {
				toks = append(toks, token{kind: tKeyword, s: w, line: line})
			} else {
				toks = append(toks, token{kind: tName, s: w, line: line})
			}
			i = j
		case isDigit(c) || (c == '.' && i+1 < n && isDigit(src[i+1])):
			j := i
			if c == '0' && j+1 < n && (src[j+1] == 'x' || src[j+1] == 'X') {
				j += 2
				for j < n && isHex(src[j]) {
					j++
				}
			} else {
				for j < n && (isDigit(src[j]) || src[j] == '.') {
					j++
				}
				if j < n && (src[j] == 'e' || src[j] == 'E') {
					j++
					if j < n && (src[j] == '+' || src[j] == '-') {
						j++
					}
					for j < n && isDigit(src[j]) {
						j++
					}
				}
			}
			if j < n && (isAlpha(src[j])) {
				return nil, &Error{Msg: "malformed number near '" + src[i:j+1] + "'", Line: line}
			}
			f, ok := str2number(src[i:j])
			if !ok {
				return nil, &Error{Msg: "malformed number near '" + src[i:j] + "'", Line: line}
			}
			toks = append(toks, token{kind: tNumber, n: f, s: src[i:j], line: line})
			i = j
		case c == '"' || c == '\'':
			q := c
			i++
			var sb strings.Builder
			closed := false
			for i < n {
				d := src[i]
				if d == q {
					closed = true
					i++
					break
				}
				if d == '\n' {
					return nil, &Error{Msg: "unfinished string", Line: line}
				}
				if d == '\\' {
					i++
					if i >= n {
						break
					}
					e := src[i]
					switch e {
					case 'n':
						sb.WriteByte('\n')
					case 't':
						sb.WriteByte('\t')
					case 'r':
						sb.WriteByte('\r')
					case 'a':
						sb.WriteByte(7)
					case 'b':
						sb.WriteByte(8)
					case 'f':
						sb.WriteByte(12)
					case 'v':
						sb.WriteByte(11)
					case '\\', '"', '\'':
						sb.WriteByte(e)
					case '\n':
						sb.WriteByte('\n')
						line++
					default:
						if isDigit(e) {
							v := 0
							k := 0
							for k < 3 && i < n && isDigit(src[i]) {
								v = v*10 + int(src[i]-'0')
								i++
								k++
							}
							if v > 255 {
								return nil, &Error{Msg: "escape sequence too large", Line: line}
							}
							sb.WriteByte(byte(v))
							continue
						}
						return nil, unsupported(line, "escape sequence '\\%c'", e)
					}
					i++
					continue
				}
				sb.WriteByte(d)
				i++
			}
			if !closed {
				return nil, &Error{Msg: "unfinished string", Line: line}
			}
			toks = append(toks, token{kind: tString, s: sb.String(), line: line})
		case c == '[' && i+1 < n && (src[i+1] == '[' || src[i+1] == '='):
			lvl, ok := longBracketLevel(src, i)
			if !ok {
				toks = append(toks, token{kind: tOp, s: "[", line: line})
				i++
				continue
			}
			start := i + lvl + 2
			end := strings.Index(src[start:], "]"+strings.Repeat("=", lvl)+"]")
			if end < 0 {
				return nil, &Error{Msg: "unfinished long string", Line: line}
			}
			body := src[start : start+end]
			if strings.HasPrefix(body, "\r\n") {
				body = body[2:]
			} else if strings.HasPrefix(body, "\n") {
				body = body[1:]
			}
			toks = append(toks, token{kind: tString, s: body, line: line})
			line += strings.Count(src[start:start+end], "\n")
			i = start + end + lvl + 2
		default:
			ops3 := []string{"..."}
			ops2 := []string{"==", "~=", "<=", ">=", ".."}
			matched := ""
			for _, o := range ops3 {
				if strings.HasPrefix(src[i:], o) {
					matched = o
				}
			}
			if matched == "" {
				for _, o := range ops2 {
					if strings.HasPrefix(src[i:], o) {
						matched = o
					}
				}
			}
			if matched == "" {
				if strings.IndexByte("+-*/%^#<>=(){}[];:,.", c) >= 0 {
					matched = string(c)
				} else {
					return nil, &Error{Msg: fmt.Sprintf("unexpected symbol near '%c'", c), Line: line}
				}
			}
			toks = append(toks, token{kind: tOp, s: matched, line: line})
			i += len(matched)
		}
	}
	toks = append(toks, token{kind: tEOF, line: line})
	return toks, nil
}

// longBracketLevel: src[i] == '['; returns the level when src[i:] starts a long bracket "[==[".
func longBracketLevel(src string, i int) (int, bool) {
	j := i + 1
	lvl := 0
	for j < len(src) && src[j] == '=' {
		lvl++
		j++
	}
	if j < len(src) && src[j] == '[' {
		return lvl, true
	}
	return 0, false
}

func isAlpha(c byte) bool { return c == '_' || (c >= 'a' && c <= 'z') || (c >= 'A' && c <= 'Z') }
func isDigit(c byte) bool { return c >= '0' && c <= '9' }
func isHex(c byte) bool {
	return isDigit(c) || (c >= 'a' && c <= 'f') || (c >= 'A' && c <= 'F')
}
