package lua

import (
	"crypto/sha1"
	"encoding/hex"
	"math"
	"strings"
)

// libMarker is a hidden field of library tables: indexing a missing member fails closed with its name.
const libMarker = "\x00mini-lua-lib"

// globals of Redis' Lua environment that exist but are outside the subset: fail closed instead of "nonexistent global"
var unsupportedGlobals = map[string]bool{
	"cjson": true, "cmsgpack": true, "bit": true, "struct": true, "os": true, "coroutine": true,
	"loadstring": true, "load": true, "setmetatable": true, "getmetatable": true, "rawget": true,
	"rawset": true, "rawequal": true, "pcall": true, "xpcall": true, "collectgarbage": true,
	"_G": true, "gcinfo": true, "newproxy": true, "setfenv": true, "getfenv": true, "print": true,
	"_VERSION": true, "dofile": true, "loadfile": true, "module": true, "require": true,
}

func lib(name string, fns map[string]func(in *Interp, line int, args []Value) []Value) *Table {
	t := NewTable()
	t.Set(libMarker, name)
	for k, f := range fns {
		t.Set(k, &Builtin{Name: name + "." + k, Fn: f})
	}
	return t
}

func arg(args []Value, i int) Value {
	if i < len(args) {
		return args[i]
	}
	return nil
}

func (in *Interp) checkTable(line int, fn string, args []Value, i int) *Table {
	t, ok := arg(args, i).(*Table)
	if !ok {
		in.rt(line, "bad argument #%d to '%s' (table expected, got %s)", i+1, fn, argTypeName(args, i))
	}
	return t
}

func argTypeName(args []Value, i int) string {
	if i >= len(args) {
		return "no value"
	}
	return typeName(args[i])
}

func (in *Interp) checkNumber(line int, fn string, args []Value, i int) float64 {
	f, ok := toNumber(arg(args, i))
	if !ok {
		in.rt(line, "bad argument #%d to '%s' (number expected, got %s)", i+1, fn, argTypeName(args, i))
	}
	return f
}

func (in *Interp) checkString(line int, fn string, args []Value, i int) string {
	s, ok := toStringCoerce(arg(args, i))
	if !ok {
		in.rt(line, "bad argument #%d to '%s' (string expected, got %s)", i+1, fn, argTypeName(args, i))
	}
	return s
}

func luaToString(v Value) string {
	switch x := v.(type) {
	case nil:
		return "nil"
	case bool:
		if x {
			return "true"
		}
		return "false"
	case float64:
		return fmtNumber(x)
	case string:
		return x
	case *Table:
		return "table: 0x00000000"
	}
	return "function: 0x00000000"
}

func unpackFn(name string) func(in *Interp, line int, args []Value) []Value {
	return func(in *Interp, line int, args []Value) []Value {
		t := in.checkTable(line, name, args, 0)
		i, j := 1, t.Len()
		if len(args) > 1 && args[1] != nil {
			i = int(in.checkNumber(line, name, args, 1))
		}
		if len(args) > 2 && args[2] != nil {
			j = int(in.checkNumber(line, name, args, 2))
		}
		if j-i >= 8000 {
			in.rt(line, "too many results to unpack")
		}
		var out []Value
		for k := i; k <= j; k++ {
			out = append(out, t.Get(float64(k)))
		}
		return out
	}
}

func stdlib(in *Interp) map[string]Value {
	g := map[string]Value{}
	bi := func(name string, f func(in *Interp, line int, args []Value) []Value) {
		g[name] = &Builtin{Name: name, Fn: f}
	}
	bi("tonumber", func(in *Interp, line int, args []Value) []Value {
		if len(args) == 0 {
			in.rt(line, "bad argument #1 to 'tonumber' (value expected)")
		}
		if len(args) > 1 && args[1] != nil {
			if b, ok := toNumber(args[1]); !ok || b != 10 {
				panic(unsupported(line, "tonumber with a base other than 10"))
			}
		}
		if f, ok := toNumber(args[0]); ok {
			return []Value{f}
		}
		return []Value{nil}
	})
	bi("tostring", func(in *Interp, line int, args []Value) []Value {
		if len(args) == 0 {
			in.rt(line, "bad argument #1 to 'tostring' (value expected)")
		}
		return []Value{luaToString(args[0])}
	})
	bi("type", func(in *Interp, line int, args []Value) []Value {
		if len(args) == 0 {
			in.rt(line, "bad argument #1 to 'type' (value expected)")
		}
		return []Value{typeName(args[0])}
	})
	bi("unpack", unpackFn("unpack"))
	bi("select", func(in *Interp, line int, args []Value) []Value {
		if s, ok := arg(args, 0).(string); ok && s == "#" {
			return []Value{float64(len(args) - 1)}
		}
		n := int(in.checkNumber(line, "select", args, 0))
		if n < 0 {
			n = len(args) + n
		} else if n > len(args)-1 {
			return nil
		}
		if n < 1 {
			in.rt(line, "bad argument #1 to 'select' (index out of range)")
		}
		return args[n:]
	})
	next := &Builtin{Name: "next", Fn: func(in *Interp, line int, args []Value) []Value {
		t := in.checkTable(line, "next", args, 0)
		ks := t.keys()
		k := arg(args, 1)
		if k == nil {
			if len(ks) == 0 {
				return []Value{nil}
			}
			return []Value{ks[0], t.Get(ks[0])}
		}
		for i, c := range ks {
			if rawEqual(c, k) {
				if i+1 < len(ks) {
					return []Value{ks[i+1], t.Get(ks[i+1])}
				}
				return []Value{nil}
			}
		}
		in.rt(line, "invalid key to 'next'")
		return nil
	}}
	g["next"] = next
	bi("pairs", func(in *Interp, line int, args []Value) []Value {
		t := in.checkTable(line, "pairs", args, 0)
		return []Value{next, t, nil}
	})
	ipairsIter := &Builtin{Name: "ipairs_iter", Fn: func(in *Interp, line int, args []Value) []Value {
		t := in.checkTable(line, "ipairs", args, 0)
		i := in.checkNumber(line, "ipairs", args, 1) + 1
		v := t.Get(i)
		if v == nil {
			return []Value{nil}
		}
		return []Value{i, v}
	}}
	bi("ipairs", func(in *Interp, line int, args []Value) []Value {
		t := in.checkTable(line, "ipairs", args, 0)
		return []Value{ipairsIter, t, 0.0}
	})
	bi("error", func(in *Interp, line int, args []Value) []Value {
		v := arg(args, 0)
		e := &Error{Line: line, Value: v}
		switch x := v.(type) {
		case string:
			// level 1 position prefix, as luaL_where would add
			e.Msg = x
			e.Value = sprintf("user_script:%d: %s", line, x)
		case *Table:
			e.Msg = "error object is a table"
		default:
			e.Msg = luaToString(v)
			e.Value = nil
		}
		panic(e)
	})
	bi("assert", func(in *Interp, line int, args []Value) []Value {
		if len(args) == 0 {
			in.rt(line, "bad argument #1 to 'assert' (value expected)")
		}
		if !truthy(args[0]) {
			msg := "assertion failed!"
			if s, ok := toStringCoerce(arg(args, 1)); ok {
				msg = s
			}
			panic(&Error{Line: line, Msg: msg, Value: msg})
		}
		return args
	})

	g["table"] = lib("table", map[string]func(in *Interp, line int, args []Value) []Value{
		"insert": func(in *Interp, line int, args []Value) []Value {
			t := in.checkTable(line, "insert", args, 0)
			switch len(args) {
			case 2:
				if args[1] == nil {
					return nil // t[#t+1] = nil
				}
				t.Append(args[1])
			case 3:
				pos := int(in.checkNumber(line, "insert", args, 1))
				n := t.Len()
				if pos < 1 || pos > n+1 {
					panic(unsupported(line, "table.insert at position %d outside 1..#t+1", pos))
				}
				if args[2] == nil {
					panic(unsupported(line, "table.insert of nil in the middle of a table"))
				}
				for i := n; i >= pos; i-- {
					t.Set(float64(i+1), t.Get(float64(i)))
				}
				t.Set(float64(pos), args[2])
			default:
				in.rt(line, "wrong number of arguments to 'insert'")
			}
			return nil
		},
		"remove": func(in *Interp, line int, args []Value) []Value {
			t := in.checkTable(line, "remove", args, 0)
			n := t.Len()
			pos := n
			if len(args) > 1 && args[1] != nil {
				pos = int(in.checkNumber(line, "remove", args, 1))
			}
			if n == 0 {
				return []Value{nil}
			}
			if pos < 1 || pos > n {
				return []Value{nil}
			}
			v := t.Get(float64(pos))
			for i := pos; i < n; i++ {
				t.Set(float64(i), t.Get(float64(i+1)))
			}
			t.Set(float64(n), nil)
			return []Value{v}
		},
		"concat": func(in *Interp, line int, args []Value) []Value {
			t := in.checkTable(line, "concat", args, 0)
			sep := ""
			if len(args) > 1 && args[1] != nil {
				sep = in.checkString(line, "concat", args, 1)
			}
			i, j := 1, t.Len()
			if len(args) > 2 && args[2] != nil {
				i = int(in.checkNumber(line, "concat", args, 2))
			}
			if len(args) > 3 && args[3] != nil {
				j = int(in.checkNumber(line, "concat", args, 3))
			}
			var parts []string
			for k := i; k <= j; k++ {
				s, ok := toStringCoerce(t.Get(float64(k)))
				if !ok {
					in.rt(line, "invalid value (at index %d) in table for 'concat'", k)
				}
				parts = append(parts, s)
			}
			return []Value{strings.Join(parts, sep)}
		},
		"getn": func(in *Interp, line int, args []Value) []Value {
			return []Value{float64(in.checkTable(line, "getn", args, 0).Len())}
		},
		"unpack": unpackFn("unpack"), // not in Lua 5.1 proper; kept because the task lists table.unpack
	})

	g["math"] = lib("math", map[string]func(in *Interp, line int, args []Value) []Value{
		"floor": func(in *Interp, line int, args []Value) []Value {
			return []Value{math.Floor(in.checkNumber(line, "floor", args, 0))}
		},
		"ceil": func(in *Interp, line int, args []Value) []Value {
			return []Value{math.Ceil(in.checkNumber(line, "ceil", args, 0))}
		},
		"abs": func(in *Interp, line int, args []Value) []Value {
			return []Value{math.Abs(in.checkNumber(line, "abs", args, 0))}
		},
		"max": func(in *Interp, line int, args []Value) []Value {
			m := in.checkNumber(line, "max", args, 0)
			for i := 1; i < len(args); i++ {
				if v := in.checkNumber(line, "max", args, i); v > m {
					m = v
				}
			}
			return []Value{m}
		},
		"min": func(in *Interp, line int, args []Value) []Value {
			m := in.checkNumber(line, "min", args, 0)
			for i := 1; i < len(args); i++ {
				if v := in.checkNumber(line, "min", args, i); v < m {
					m = v
				}
			}
			return []Value{m}
		},
	})
	g["math"].(*Table).Set("huge", math.Inf(1))

	g["string"] = lib("string", map[string]func(in *Interp, line int, args []Value) []Value{
		"len": func(in *Interp, line int, args []Value) []Value {
			return []Value{float64(len(in.checkString(line, "len", args, 0)))}
		},
		"sub": func(in *Interp, line int, args []Value) []Value {
			s := in.checkString(line, "sub", args, 0)
			l := len(s)
			i := int(in.checkNumber(line, "sub", args, 1))
			j := -1
			if len(args) > 2 && args[2] != nil {
				j = int(in.checkNumber(line, "sub", args, 2))
			}
			if i < 0 {
				i = l + i + 1
				if i < 1 {
					i = 1
				}
			} else if i == 0 {
				i = 1
			}
			if j < 0 {
				j = l + j + 1
			} else if j > l {
				j = l
			}
			if i > j {
				return []Value{""}
			}
			return []Value{s[i-1 : j]}
		},
		"upper": func(in *Interp, line int, args []Value) []Value {
			return []Value{asciiMap(in.checkString(line, "upper", args, 0), 'a', 'z', -32)}
		},
		"lower": func(in *Interp, line int, args []Value) []Value {
			return []Value{asciiMap(in.checkString(line, "lower", args, 0), 'A', 'Z', 32)}
		},
		"rep": func(in *Interp, line int, args []Value) []Value {
			s := in.checkString(line, "rep", args, 0)
			n := int(in.checkNumber(line, "rep", args, 1))
			if n <= 0 {
				return []Value{""}
			}
			if n*len(s) > 1<<24 {
				panic(unsupported(line, "string.rep result larger than 16 MiB"))
			}
			return []Value{strings.Repeat(s, n)}
		},
	})

	redisCall := func(raise bool) func(in *Interp, line int, args []Value) []Value {
		name := "redis.pcall"
		if raise {
			name = "redis.call"
		}
		return func(in *Interp, line int, args []Value) []Value {
			if len(args) == 0 {
				in.rt(line, "Please specify at least one argument for this redis lib call")
			}
			argv := make([]string, len(args))
			for i, a := range args {
				s, ok := argToString(a)
				if !ok {
					msg := "Lua redis lib command arguments must be strings or integers"
					if raise {
						t := NewTable()
						t.Set("err", "ERR "+msg)
						panic(&Error{Line: line, Msg: msg, Value: t})
					}
					t := NewTable()
					t.Set("err", "ERR "+msg)
					return []Value{t}
				}
				argv[i] = s
			}
			if in.host == nil {
				panic(unsupported(line, "%s without a host", name))
			}
			v := fromReply(in.host.Call(argv))
			if t, ok := v.(*Table); ok && raise {
				if e, ok := t.Get("err").(string); ok {
					panic(&Error{Line: line, Msg: e, Value: t})
				}
			}
			return []Value{v}
		}
	}
	rl := lib("redis", map[string]func(in *Interp, line int, args []Value) []Value{
		"call":  redisCall(true),
		"pcall": redisCall(false),
		"error_reply": func(in *Interp, line int, args []Value) []Value {
			s, ok := arg(args, 0).(string)
			if len(args) != 1 || !ok {
				in.rt(line, "wrong number or type of arguments")
			}
			t := NewTable()
			t.Set("err", s)
			return []Value{t}
		},
		"status_reply": func(in *Interp, line int, args []Value) []Value {
			s, ok := arg(args, 0).(string)
			if len(args) != 1 || !ok {
				in.rt(line, "wrong number or type of arguments")
			}
			t := NewTable()
			t.Set("ok", s)
			return []Value{t}
		},
		"sha1hex": func(in *Interp, line int, args []Value) []Value {
			if len(args) != 1 {
				in.rt(line, "wrong number of arguments")
			}
			s, _ := toStringCoerce(args[0])
			sum := sha1.Sum([]byte(s))
			return []Value{hex.EncodeToString(sum[:])}
		},
		"log": func(in *Interp, line int, args []Value) []Value { return nil },
	})
	rl.Set("LOG_DEBUG", 0.0)
	rl.Set("LOG_VERBOSE", 1.0)
	rl.Set("LOG_NOTICE", 2.0)
	rl.Set("LOG_WARNING", 3.0)
	g["redis"] = rl
	return g
}

func asciiMap(s string, lo, hi byte, delta int) string {
	b := []byte(s)
	for i, c := range b {
		if c >= lo && c <= hi {
			b[i] = byte(int(c) + delta)
		}
	}
	return string(b)
}
