package lua_test

// Every Lua script literal of the repository under test ($VERIF_REPO, default /repo) is extracted
// with go/ast and executed by mini-Lua on the fake server; the expected replies and store contents
// below were computed by hand from the script texts and the Redis command semantics.

import (
	"fmt"
	"sort"
	"strconv"
	"strings"
	"testing"

	"verifharness/fakeredis"
	"verifharness/fakeredis/scripting"
	"verifharness/luascripts"
)

func show(v fakeredis.V) string {
	switch v.T {
	case ':':
		return fmt.Sprintf(":%d", v.I)
	case '$':
		return "$" + v.S
	case '_':
		return "_"
	case '+':
		return "+" + v.S
	case '-':
		return "-" + v.S
	case '*', '%', '~':
		p := make([]string, len(v.A))
		for i, e := range v.A {
			p[i] = show(e)
		}
		return "[" + strings.Join(p, " ") + "]"
	}
	return "?" + string(v.T)
}

type env struct {
	t       *testing.T
	s       *fakeredis.Server
	e       *scripting.Engine
	scripts map[string]string
	used    map[string]bool
}

var allScripts map[string]string

func newEnv(t *testing.T) *env {
	t.Helper()
	if allScripts == nil {
		ss, err := luascripts.Extract(luascripts.RepoDir())
		if err != nil {
			t.Fatal(err)
		}
		allScripts = map[string]string{}
		for _, s := range ss {
			allScripts[s.ID()] = s.Text
		}
	}
	s := fakeredis.New()
	return &env{t: t, s: s, e: scripting.Install(s), scripts: allScripts, used: usedScripts}
}

var usedScripts = map[string]bool{}

func (v *env) script(id string) string {
	v.t.Helper()
	src, ok := v.scripts[id]
	if !ok {
		v.t.Fatalf("script %s not found in the repository", id)
	}
	v.used[id] = true
	return src
}

// ev runs a repository script and compares the reply.
func (v *env) ev(id string, keys, args []string, want string) {
	v.t.Helper()
	got := show(v.e.Eval(v.script(id), keys, args))
	if got != want {
		v.t.Errorf("%s KEYS=%v ARGV=%v:\n got  %s\n want %s", id, keys, args, got, want)
	}
}

func (v *env) do(want string, argv ...string) {
	v.t.Helper()
	got := show(v.e.Do(argv...))
	if got != want {
		v.t.Errorf("%v:\n got  %s\n want %s", argv, got, want)
	}
}

// bits returns the set bit positions of a string key (Redis bit numbering).
func (v *env) bits(key string) string {
	r := v.e.Do("GET", key)
	if r.T != '$' {
		return show(r)
	}
	var out []string
	for i := 0; i < len(r.S)*8; i++ {
		if r.S[i>>3]&(0x80>>uint(i&7)) != 0 {
			out = append(out, strconv.Itoa(i))
		}
	}
	return strings.Join(out, ",")
}

func (v *env) hash(key string) string {
	r := v.e.Do("HGETALL", key)
	var out []string
	for i := 0; i+1 < len(r.A); i += 2 {
		out = append(out, r.A[i].S+"="+r.A[i+1].S)
	}
	sort.Strings(out)
	return strings.Join(out, ",")
}

func (v *env) expect(what, got, want string) {
	v.t.Helper()
	if got != want {
		v.t.Errorf("%s: got %q want %q", what, got, want)
	}
}

const base = int64(1_700_000_000_000) // the fake server's initial virtual clock (unix ms)

func ms(d int64) string { return strconv.FormatInt(base+d, 10) }

func TestLockScripts(t *testing.T) {
	v := newEnv(t)
	k := []string{"lk"}
	// acqms: SET NX PX, then GET (tracking), return SET's reply
	v.ev("rueidislock_acqms", k, []string{"id1", "500"}, "+OK")
	v.do("$id1", "GET", "lk")
	v.do(":500", "PTTL", "lk")
	v.ev("rueidislock_acqms", k, []string{"id2", "500"}, "_")
	v.do("$id1", "GET", "lk")
	// extend: only the holder
	v.ev("rueidislock_extend", k, []string{"id2", ms(9000)}, ":0")
	v.do(":500", "PTTL", "lk")
	v.ev("rueidislock_extend", k, []string{"id1", ms(9000)}, ":1")
	v.do(":9000", "PTTL", "lk")
	// delkey: only the holder
	v.ev("rueidislock_delkey", k, []string{"id2"}, ":0")
	v.do(":1", "EXISTS", "lk")
	v.ev("rueidislock_delkey", k, []string{"id1"}, ":1")
	v.do(":0", "EXISTS", "lk")
	v.ev("rueidislock_delkey", k, []string{"id1"}, ":0")
	// acqat: SET NX PXAT
	v.ev("rueidislock_acqat", k, []string{"id3", ms(700)}, "+OK")
	v.do(":700", "PTTL", "lk")
	v.ev("rueidislock_acqat", k, []string{"id4", ms(900)}, "_")
	// forced variants overwrite
	v.ev("rueidislock_fcqms", k, []string{"id5", "300"}, "+OK")
	v.do("$id5", "GET", "lk")
	v.do(":300", "PTTL", "lk")
	v.ev("rueidislock_fcqat", k, []string{"id6", ms(400)}, "+OK")
	v.do("$id6", "GET", "lk")
	v.do(":400", "PTTL", "lk")
	// expiry on the virtual clock frees the lock
	v.s.Advance(400)
	v.ev("rueidislock_acqms", k, []string{"id7", "100"}, "+OK")
	// the commands of one run are recorded
	runs := v.e.Runs()
	last := runs[len(runs)-1]
	if fmt.Sprint(last.Calls) != "[[SET lk id7 NX PX 100] [GET lk]]" || last.Cmd != "EVAL" {
		t.Errorf("run log: %+v", last)
	}
}

func TestAsideScripts(t *testing.T) {
	v := newEnv(t)
	k := []string{"ck"}
	v.ev("rueidisaside_acquireLock", k, []string{"rueidisid:1", "1000"}, "_") // acquired: returns nil
	v.do("$rueidisid:1", "GET", "ck")
	v.do(":1000", "PTTL", "ck")
	v.ev("rueidisaside_acquireLock", k, []string{"rueidisid:2", "1000"}, "$rueidisid:1") // someone else holds it
	v.ev("rueidisaside_setkey", k, []string{"rueidisid:2", "val", "5000"}, ":0")          // not the holder
	v.do("$rueidisid:1", "GET", "ck")
	v.ev("rueidisaside_setkey", k, []string{"rueidisid:1", "val", "5000"}, "+OK")
	v.do("$val", "GET", "ck")
	v.do(":5000", "PTTL", "ck")
	v.ev("rueidisaside_delkey", k, []string{"other"}, ":0")
	v.ev("rueidisaside_delkey", k, []string{"val"}, ":1")
	v.do(":0", "EXISTS", "ck")
	v.ev("rueidisaside_acquireLock", k, []string{"rueidisid:3", "50"}, "_")
	v.s.Advance(50)
	v.ev("rueidisaside_acquireLock", k, []string{"rueidisid:4", "50"}, "_") // the placeholder expired
}

func TestLimiterScript(t *testing.T) {
	v := newEnv(t)
	k := []string{"rl:{a}", "rl:{a}:ex"}
	id := "rueidislimiter_rateLimitScript"
	// ARGV = increment, next_expires_at, current_time
	v.ev(id, k, []string{"2", ms(1000), ms(0)}, "[:2 :"+ms(1000)+"]") // no window: reset, counter 0+2
	v.do("$2", "GET", "rl:{a}")
	v.do("$"+ms(1000), "GET", "rl:{a}:ex")
	v.do(":2000", "PTTL", "rl:{a}") // pxat = next_expires_at + 1000
	v.do(":2000", "PTTL", "rl:{a}:ex")
	v.ev(id, k, []string{"3", ms(1500), ms(500)}, "[:5 :"+ms(1000)+"]")  // same window
	v.ev(id, k, []string{"0", ms(2000), ms(1000)}, "[:5 :"+ms(1000)+"]") // expires_at == now: not yet over ("<")
	v.ev(id, k, []string{"1", ms(3001), ms(1001)}, "[:1 :"+ms(3001)+"]") // expires_at < now: new window
	v.do(":4001", "PTTL", "rl:{a}")
	v.ev(id, k, []string{"0", ms(3500), ms(1500)}, "[:1 :"+ms(3001)+"]") // Check: n = 0
	v.s.Advance(4001)                                                    // both keys expire on the server clock
	v.do(":0", "EXISTS", "rl:{a}", "rl:{a}:ex")
	v.ev(id, k, []string{"7", ms(9000), ms(4001)}, "[:7 :"+ms(9000)+"]")
	// another identifier is independent
	v.ev(id, []string{"rl:{b}", "rl:{b}:ex"}, []string{"1", ms(9000), ms(4001)}, "[:1 :"+ms(9000)+"]")
}

func TestOmHashScript(t *testing.T) {
	v := newEnv(t)
	k := []string{"user:1"}
	id := "om_hashSaveScript"
	v.ev(id, k, []string{"ver", "0", "name", "bob"}, "$1") // new entity: HGET nil -> saved with ver 1
	v.expect("hash", v.hash("user:1"), "name=bob,ver=1")
	v.ev(id, k, []string{"ver", "0", "name", "eve"}, "_") // stale version
	v.expect("hash", v.hash("user:1"), "name=bob,ver=1")
	v.ev(id, k, []string{"ver", "1", "name", "al", "age", "3"}, "$2")
	v.expect("hash", v.hash("user:1"), "age=3,name=al,ver=2")
	v.do(":-1", "PTTL", "user:1")
	v.ev(id, k, []string{"ver", "2", "name", "al", ms(5000)}, "$3") // odd #ARGV: last one is PEXPIREAT
	v.expect("hash", v.hash("user:1"), "age=3,name=al,ver=3")
	v.do(":5000", "PTTL", "user:1")
	// verless schema: ARGV[1] == ''
	v.ev(id, []string{"user:2"}, []string{"", "0", "name", "x"}, "$0")
	v.expect("hash", v.hash("user:2"), "=0,name=x")
	v.ev(id, []string{"user:2"}, []string{"", "0", "name", "y", ms(100)}, "$0")
	v.expect("hash", v.hash("user:2"), "=0,name=y")
	v.do(":100", "PTTL", "user:2")
}

func TestOmJSONScript(t *testing.T) {
	v := newEnv(t)
	k := []string{"doc:1"}
	id := "om_jsonSaveScript"
	v.ev(id, k, []string{"ver", "0", `{"key":"1","ver":0,"name":"bob"}`}, "$1")
	v.do(`${"key":"1","ver":1,"name":"bob"}`, "JSON.GET", "doc:1", ".")
	v.ev(id, k, []string{"ver", "0", `{"key":"1","ver":0,"name":"eve"}`}, "_") // stale
	v.do(`${"key":"1","ver":1,"name":"bob"}`, "JSON.GET", "doc:1")
	v.ev(id, k, []string{"ver", "1", `{"key":"1","ver":1,"name":"al"}`, ms(800)}, "$2")
	v.do(`${"key":"1","ver":2,"name":"al"}`, "JSON.GET", "doc:1", ".")
	v.do(":800", "PTTL", "doc:1")
	v.do("$2", "JSON.GET", "doc:1", "ver")
	v.do("$[2]", "JSON.GET", "doc:1", "$.ver")
	// verless
	v.ev(id, []string{"doc:2"}, []string{"", "0", `{"key":"2"}`}, "$0")
	v.do(`${"key":"2"}`, "JSON.GET", "doc:2")
	v.ev(id, []string{"doc:2"}, []string{"", "0", `{"key":"2","n":1}`, ms(50)}, "$0")
	v.do(":50", "PTTL", "doc:2")
}

func TestBloomScripts(t *testing.T) {
	v := newEnv(t)
	kk := []string{"{bf}", "{bf}:c"}
	add, ex, exro := "rueidisprob_bloomFilterAddMultiScript", "rueidisprob_bloomFilterExistsMultiScript", "rueidisprob_bloomFilterExistsMultiReadOnlyScript"
	// ARGV = hashIterations, then hashIterations indexes per item
	v.ev(add, kk, []string{"2", "3", "5", "5", "9"}, ":2") // item1 {3,5}: both new; item2 {5,9}: one new -> both counted
	v.expect("bits", v.bits("{bf}"), "3,5,9")
	v.ev(add, kk, []string{"2", "3", "5"}, ":2") // already all set: oneBits == k, not counted
	v.ev(add, kk, []string{"2", "9", "3"}, ":2") // a false positive is not counted either
	v.ev(add, kk, []string{"2", "20", "3"}, ":3")
	v.expect("bits", v.bits("{bf}"), "3,5,9,20")
	v.ev(ex, kk[:1], []string{"2", "3", "5", "5", "7", "20", "9"}, "[:1 _ :1]")
	v.ev(ex, kk[:1], []string{"1", "3", "4"}, "[:1 _]")
	v.ev(ex, []string{"{none}"}, []string{"2", "3", "5"}, "[_]")
	// read-only text through EVAL_RO
	got := show(v.e.Do("EVAL_RO", v.script(exro), "1", "{bf}", "2", "3", "5", "5", "7"))
	v.expect("EVAL_RO exists", got, "[:1 _]")
	got = show(v.e.Do("EVAL_RO", v.script(add), "2", "{bf}", "{bf}:c", "2", "1", "2"))
	if !strings.HasPrefix(got, "-ERR Write commands are not allowed from read-only scripts.") {
		t.Errorf("EVAL_RO add: %s", got)
	}
	// k = 0 (the sizing defect D9): nothing is written, nothing is found
	v.ev(add, kk, []string{"0"}, ":3")
	v.ev(ex, kk[:1], []string{"0"}, "[]")
	// reset / delete
	v.ev("rueidisprob_bloomFilterResetScript", kk, nil, ":1")
	v.do("$", "GET", "{bf}")
	v.do("$0", "GET", "{bf}:c")
	v.ev(ex, kk[:1], []string{"2", "3", "5"}, "[_]")
	v.ev("rueidisprob_bloomFilterDeleteScript", kk, nil, ":1")
	v.do(":0", "EXISTS", "{bf}", "{bf}:c")
	// large offsets
	v.ev(add, kk, []string{"1", "8000001"}, ":1")
	v.ev(ex, kk[:1], []string{"1", "8000001", "8000000", "4294967295"}, "[:1 _ _]")
	got = show(v.e.Eval(v.script(add), kk, []string{"1", "4294967296"}))
	if !strings.HasPrefix(got, "-ERR bit offset is not an integer or out of range") {
		t.Errorf("offset 2^32: %s", got)
	}
}

func TestCountingBloomScripts(t *testing.T) {
	v := newEnv(t)
	kk := []string{"{c}:cbf", "{c}:cbf:c"}
	add, rem := "rueidisprob_countingBloomFilterAddMultiScript", "rueidisprob_countingBloomFilterRemoveMultiScript"
	// add: ARGV = itemCount, indexes…
	v.ev(add, kk, []string{"2", "3", "5", "5", "9"}, ":2")
	v.expect("counters", v.hash("{c}:cbf"), "3=1,5=2,9=1")
	// remove: ARGV = indexes…, hashIterations
	v.ev(rem, kk, []string{"3", "5", "2"}, ":1") // item {3,5} removed
	v.expect("counters", v.hash("{c}:cbf"), "3=0,5=1,9=1")
	v.ev(rem, kk, []string{"3", "7", "2"}, ":1") // 3 is already 0: rollback, nothing changes
	v.expect("counters", v.hash("{c}:cbf"), "3=0,5=1,9=1")
	v.ev(rem, kk, []string{"5", "7", "2"}, ":1") // fails at the second index: the first is rolled back
	v.expect("counters", v.hash("{c}:cbf"), "3=0,5=1,9=1")
	v.ev(rem, kk, []string{"5", "9", "5", "9", "2"}, ":0") // first removal succeeds, the second fails
	v.expect("counters", v.hash("{c}:cbf"), "3=0,5=0,9=0")
	// an item whose two indexes coincide needs two units
	v.ev(add, kk, []string{"1", "4", "4"}, ":1")
	v.expect("counters", v.hash("{c}:cbf"), "3=0,4=2,5=0,9=0")
	v.ev(rem, kk, []string{"4", "4", "4", "4", "2"}, ":0") // two removals in one call: only the first possible
	v.expect("counters", v.hash("{c}:cbf"), "3=0,4=0,5=0,9=0")
	v.ev("rueidisprob_countingBloomFilterDeleteScript", kk, nil, ":1")
	v.do(":0", "EXISTS", "{c}:cbf", "{c}:cbf:c")
	// removal from an empty filter: counter key becomes 0 - 0
	v.ev(rem, kk, []string{"1", "2", "2"}, ":0")
	v.do(":0", "EXISTS", "{c}:cbf")
	// k = 0: 'for i=1, numElements, 0' — fails closed instead of looping forever
	got := show(v.e.Eval(v.script(rem), kk, []string{"0"}))
	if !strings.Contains(got, "mini-lua: unsupported numeric 'for' with step 0") {
		t.Errorf("k=0 removal: %s", got)
	}
}

func TestSlidingBloomScripts(t *testing.T) {
	v := newEnv(t)
	kk := []string{"{s}", "{s}:n", "{s}:c", "{s}:nc", "{s}:lr"}
	ini, add, ex, exro, rst := "rueidisprob_slidingBloomFilterInitializeScript", "rueidisprob_slidingBloomFilterAddMultiScript",
		"rueidisprob_slidingBloomFilterExistsMultiScript", "rueidisprob_slidingBloomFilterExistsReadOnlyMultiScript", "rueidisprob_slidingBloomFilterResetScript"
	v.s.Advance(123) // clock = base+123: TIME = [1700000000, 123000]
	v.do("[$1700000000 $123000]", "TIME")
	v.ev(ini, kk, []string{"500"}, ":1")
	v.do("$", "GET", "{s}")
	v.do("$0", "GET", "{s}:c")
	v.do("$", "GET", "{s}:n")
	v.do("$0", "GET", "{s}:nc")
	v.do("$"+ms(123), "GET", "{s}:lr")
	v.do(":500", "PTTL", "{s}:lr")
	v.s.Advance(100)
	v.ev(ini, kk, []string{"500"}, ":1") // already initialised: nothing changes
	v.do(":400", "PTTL", "{s}:lr")
	// add: ARGV = hashIterations, windowHalf, indexes…; no rotation while the lock key lives
	v.ev(add, kk, []string{"2", "500", "3", "5"}, ":1")
	v.expect("cur", v.bits("{s}"), "3,5")
	v.expect("next", v.bits("{s}:n"), "3,5")
	v.do("$1", "GET", "{s}:nc")
	v.ev(ex, kk, []string{"2", "500", "3", "5", "3", "6"}, "[:1 _]")
	v.s.Advance(400) // lock expires now (base+623)
	v.ev(add, kk, []string{"2", "500", "8", "9"}, ":2") // rotation: cur := next {3,5}, next := {}; then add
	v.expect("cur", v.bits("{s}"), "3,5,8,9")
	v.expect("next", v.bits("{s}:n"), "8,9")
	v.do("$1", "GET", "{s}:nc")
	v.do("$"+ms(623), "GET", "{s}:lr")
	v.s.Advance(500)
	v.ev(ex, kk, []string{"2", "500", "3", "5", "8", "9"}, "[_ :1]") // rotation by Exists: {3,5} is gone, {8,9} stays
	v.expect("next", v.bits("{s}:n"), "")
	v.do("$1", "GET", "{s}:c")
	v.s.Advance(499)
	v.ev(exro, kk, []string{"2", "500", "8", "9"}, "[:1]") // still within the lock period
	v.s.Advance(1)
	v.ev(exro, kk, []string{"2", "500", "8", "9"}, "[_]") // second rotation: gone
	// reset: rotate without condition; the script returns nothing
	v.ev(add, kk, []string{"1", "500", "1"}, ":1")
	v.ev(rst, kk[:4], kk[4:], "_")
	v.expect("cur", v.bits("{s}"), "1")
	v.expect("next", v.bits("{s}:n"), "")
	v.ev(rst, kk[:4], kk[4:], "_")
	v.expect("cur", v.bits("{s}"), "")
	// RENAME of a missing key aborts the script with the command's error
	v.do(":1", "DEL", "{s}:n")
	got := show(v.e.Eval(v.script(rst), kk[:4], nil))
	if !strings.HasPrefix(got, "-ERR no such key") {
		t.Errorf("reset without next filter: %s", got)
	}
}

// TestScriptCache: EVALSHA / SCRIPT LOAD / EXISTS / FLUSH.
func TestScriptCache(t *testing.T) {
	v := newEnv(t)
	src := `return {KEYS[1], ARGV[1]}`
	sha := scripting.SHA1(src)
	v.do("-NOSCRIPT No matching script. Please use EVAL.", "EVALSHA", sha, "1", "k", "a")
	v.do("[:0]", "SCRIPT", "EXISTS", sha)
	v.do("$"+sha, "SCRIPT", "LOAD", src)
	v.do("[:1 :0]", "SCRIPT", "EXISTS", sha, "ffff")
	v.do("[$k $a]", "EVALSHA", strings.ToUpper(sha), "1", "k", "a")
	v.do("[$k $a]", "EVALSHA_RO", sha, "1", "k", "a")
	v.do("+OK", "SCRIPT", "FLUSH")
	v.do("-NOSCRIPT No matching script. Please use EVAL.", "EVALSHA", sha, "1", "k", "a")
	v.do("[$k $a]", "EVAL", src, "1", "k", "a") // EVAL caches the script
	v.do("[$k $a]", "EVALSHA", sha, "1", "k", "a")
	v.do("-ERR Number of keys can't be greater than number of args", "EVAL", src, "3", "k", "a")
	v.do("-ERR Number of keys can't be negative", "EVAL", src, "-1", "k", "a")
	v.do("-ERR value is not an integer or out of range", "EVAL", src, "x", "k", "a")
	if got := show(v.e.Do("EVAL", "return redis.call('EVAL', 'return 1', 0)", "0")); !strings.HasPrefix(got, "-ERR This Redis command is not allowed from script") {
		t.Error(got)
	}
	if got := show(v.e.Do("EVAL", "return redis.call('FOOBAR')", "0")); !strings.Contains(got, "mini-lua: unsupported Redis command 'FOOBAR'") {
		t.Error(got)
	}
	if got := show(v.e.Do("EVAL", "return string.format('%d', 1)", "0")); !strings.HasPrefix(got, "-ERR mini-lua: unsupported library function 'string.format'") {
		t.Error(got)
	}
	if got := show(v.e.Do("EVAL", "return 1 +", "0")); !strings.HasPrefix(got, "-ERR Error compiling script") {
		t.Error(got)
	}
	if got := show(v.e.Do("EVAL", "local x = nil + 1", "0")); !strings.HasPrefix(got, "-ERR user_script:1: attempt to perform arithmetic on a nil value script: ") {
		t.Error(got)
	}
	n := len(v.e.Runs())
	v.e.NoScript = func(c *fakeredis.Conn, argv []string) bool { return true }
	v.do("-NOSCRIPT No matching script. Please use EVAL.", "EVALSHA", sha, "1", "k", "a")
	if len(v.e.Runs()) != n {
		t.Error("an injected NOSCRIPT must not run the script")
	}
}

// TestAllScriptsCovered: every script literal of the repository compiles and was exercised above.
func TestZAllScriptsCovered(t *testing.T) {
	v := newEnv(t)
	for id, src := range v.scripts {
		if r := v.e.Do("SCRIPT", "LOAD", src); r.T != '$' {
			t.Errorf("%s does not compile under mini-Lua: %s", id, show(r))
		}
		if !usedScripts[id] {
			t.Errorf("%s is not exercised by any test in this file", id)
		}
	}
	if len(v.scripts) < 17 {
		t.Errorf("only %d scripts found", len(v.scripts))
	}
}
