package lua

import (
	"fmt"
	"math"
	"sort"
	"strconv"
	"strings"
)

// Value is a Lua value: nil, bool, float64, string, *Table, *Closure or *Builtin.
type Value any

type Closure struct {
	fn  *eFunc
	env *scope
}

type Builtin struct {
	Name string
	Fn   func(in *Interp, line int, args []Value) []Value
}

// Table: arr holds the indices 1..len(arr), all non-nil; every other key lives in hash.
// Invariant: hash never contains the key float64(len(arr)+1).  '#' is len(arr), which is a border.
type Table struct {
	arr  []Value
	hash map[Value]Value
}

func NewTable() *Table { return &Table{} }

func NewArray(vs ...Value) *Table {
	t := &Table{}
	for _, v := range vs {
		t.Append(v)
	}
	return t
}

func (t *Table) Len() int { return len(t.arr) }

// Append stores v at index #t+1 (v must not be nil).
func (t *Table) Append(v Value) { t.Set(float64(len(t.arr)+1), v) }

func arrayIndex(k Value) (int, bool) {
	f, ok := k.(float64)
	if !ok {
		return 0, false
	}
	if f >= 1 && f <= 1<<40 && f == math.Floor(f) {
		return int(f), true
	}
	return 0, false
}

func (t *Table) Get(k Value) Value {
	if i, ok := arrayIndex(k); ok && i <= len(t.arr) {
		return t.arr[i-1]
	}
	if t.hash == nil || k == nil {
		return nil
	}
	if f, ok := k.(float64); ok && f != f {
		return nil
	}
	return t.hash[k]
}

// Set assigns t[k] = v; k must not be nil or NaN (checked by the caller).
func (t *Table) Set(k Value, v Value) {
	if i, ok := arrayIndex(k); ok {
		n := len(t.arr)
		switch {
		case i <= n:
			if v != nil {
				t.arr[i-1] = v
				return
			}
			// a hole: keep 1..i-1 in the array part, move the tail to the hash part
			if t.hash == nil {
				t.hash = map[Value]Value{}
			}
			for j := i + 1; j <= n; j++ {
				t.hash[float64(j)] = t.arr[j-1]
			}
			t.arr = t.arr[:i-1]
			return
		case i == n+1:
			if v == nil {
				return
			}
			t.arr = append(t.arr, v)
			// migrate following keys from the hash part
			for t.hash != nil {
				nk := float64(len(t.arr) + 1)
				nv, ok := t.hash[nk]
				if !ok {
					break
				}
				delete(t.hash, nk)
				t.arr = append(t.arr, nv)
			}
			return
		}
	}
	if v == nil {
		if t.hash != nil {
			delete(t.hash, k)
		}
		return
	}
	if t.hash == nil {
		t.hash = map[Value]Value{}
	}
	t.hash[k] = v
}

// keys returns all keys in a deterministic order: array part, then numbers, then strings, then booleans.
func (t *Table) keys() []Value {
	out := make([]Value, 0, len(t.arr)+len(t.hash))
	for i := range t.arr {
		out = append(out, float64(i+1))
	}
	var nums []float64
	var strs []string
	var rest []Value
	for k := range t.hash {
		switch x := k.(type) {
		case float64:
			nums = append(nums, x)
		case string:
			strs = append(strs, x)
		default:
			rest = append(rest, k)
		}
	}
	sort.Float64s(nums)
	sort.Strings(strs)
	for _, n := range nums {
		out = append(out, n)
	}
	for _, s := range strs {
		out = append(out, s)
	}
	sort.Slice(rest, func(i, j int) bool { return fmt.Sprint(rest[i]) < fmt.Sprint(rest[j]) })
	return append(out, rest...)
}

func typeName(v Value) string {
	switch v.(type) {
	case nil:
		return "nil"
	case bool:
		return "boolean"
	case float64:
		return "number"
	case string:
		return "string"
	case *Table:
		return "table"
	case *Closure, *Builtin:
		return "function"
	}
	return "userdata"
}

func truthy(v Value) bool {
	if v == nil {
		return false
	}
	if b, ok := v.(bool); ok {
		return b
	}
	return true
}

// fmtNumber is Lua 5.1's number -> string conversion: "%.14g".
func fmtNumber(f float64) string {
	switch {
	case f != f:
		if math.Signbit(f) {
			return "-nan"
		}
		return "nan"
	case math.IsInf(f, 1):
		return "inf"
	case math.IsInf(f, -1):
		return "-inf"
	}
	return fmt.Sprintf("%.14g", f)
}

// str2number is luaO_str2d: strtod, then hexadecimal integers, trailing white space allowed.
func str2number(s string) (float64, bool) {
	s = strings.Trim(s, " \t\n\r\v\f")
	if s == "" {
		return 0, false
	}
	body := s
	neg := false
	if body[0] == '+' || body[0] == '-' {
		neg = body[0] == '-'
		body = body[1:]
	}
	if len(body) > 2 && body[0] == '0' && (body[1] == 'x' || body[1] == 'X') {
		if strings.ContainsAny(body[2:], ".pP") {
			return 0, false // hexadecimal floats: not supported by the subset; treated as not-a-number
		}
		u, err := strconv.ParseUint(body[2:], 16, 64)
		if err != nil {
			return 0, false
		}
		f := float64(u)
		if neg {
			f = -f
		}
		return f, true
	}
	switch strings.ToLower(body) {
	case "inf", "infinity":
		if neg {
			return math.Inf(-1), true
		}
		return math.Inf(1), true
	case "nan":
		return math.NaN(), true
	}
	// decimal: digits [. digits] [e[+-]digits] | . digits [e…]
	i, n := 0, len(body)
	digits := 0
	for i < n && isDigit(body[i]) {
		i++
		digits++
	}
	if i < n && body[i] == '.' {
		i++
		for i < n && isDigit(body[i]) {
			i++
			digits++
		}
	}
	if digits == 0 {
		return 0, false
	}
	if i < n && (body[i] == 'e' || body[i] == 'E') {
		j := i + 1
		if j < n && (body[j] == '+' || body[j] == '-') {
			j++
		}
		k := j
		for k < n && isDigit(body[k]) {
			k++
		}
		if k == j {
			return 0, false
		}
		i = k
	}
	if i != n {
		return 0, false
	}
	f, err := strconv.ParseFloat(body, 64)
	if err != nil && !math.IsInf(f, 0) {
		return 0, false
	}
	if neg {
		f = -f
	}
	return f, true
}

// toNumber: numbers and numeric strings (Lua's arithmetic coercion).
func toNumber(v Value) (float64, bool) {
	switch x := v.(type) {
	case float64:
		return x, true
	case string:
		return str2number(x)
	}
	return 0, false
}

// toStringCoerce: strings and numbers (Lua's concatenation coercion).
func toStringCoerce(v Value) (string, bool) {
	switch x := v.(type) {
	case string:
		return x, true
	case float64:
		return fmtNumber(x), true
	}
	return "", false
}

func sprintf(format string, a ...any) string { return fmt.Sprintf(format, a...) }
