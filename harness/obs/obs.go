// Package obs is the common driver of every observer binary (harness/cmd/obs_*).
//
// An observer generates cases from one PRNG stream, runs the implementation under test on each,
// evaluates the direct property oracle on the implementation's own output, and prints one JSON
// object per case.  The "coq" field is a Gallina term of the model family's `case` type that
// embeds the input and the implementation's observation; ./check evaluates the model's
// `check_case` on it inside coqc.
package obs

import (
	"encoding/hex"
	"encoding/json"
	"flag"
	"fmt"
	"os"
	"path/filepath"
	"sort"
	"strconv"
	"strings"

	"verifharness/gen"
)

type Result struct {
	Coq        string `json:"coq,omitempty"`    // Gallina term, "" when the case has no model counterpart
	Oracle     string `json:"oracle,omitempty"` // "" = property held on the implementation
	Site       string `json:"site,omitempty"`   // call site of an oracle failure (known-finding matching)
	Class      string `json:"class,omitempty"`  // failure class of an oracle failure
	Nontrivial bool   `json:"nontrivial"`
	Sig        string `json:"sig"`           // signature for distinctness
	Kind       string `json:"kind"`          // case kind (input distribution)
	Obs        any    `json:"obs,omitempty"` // implementation observation, human readable
}

type Runner struct {
	Name string
	Salt uint64
	// Gen produces a JSON-serialisable case description from its own stream.
	Gen func(r *gen.Rand, i int) any
	// Decode parses a stored description (replay / corpus).
	Decode func(raw json.RawMessage) (any, error)
	// Run executes the implementation (and the oracle) on one case.
	Run func(c any) Result
	// Extra is called after all cases with a printer for additional records (optional).
	Extra func(emit func(rec map[string]any))
}

type record struct {
	K    string `json:"k"`
	ID   int    `json:"id"`
	Desc any    `json:"desc"`
	Result
}

func Main(rn Runner) {
	n := flag.Int("n", 100, "number of generated cases")
	replay := flag.String("replay", "", "replay file (JSON with a desc field, or a check replay file)")
	corpus := flag.String("corpus", "", "directory of stored case descriptions run before generated ones")
	oracleOnly := flag.Bool("oracle-only", false, "do not print Gallina terms (violation search)")
	flag.Parse()
	enc := json.NewEncoder(os.Stdout)
	kinds := map[string]int{}
	emit := func(id int, desc any, res Result) {
		if *oracleOnly {
			res.Coq = ""
		}
		kinds[res.Kind]++
		_ = enc.Encode(record{K: "case", ID: id, Desc: desc, Result: res})
	}
	if *replay != "" {
		raw, err := os.ReadFile(*replay)
		if err != nil {
			fmt.Fprintln(os.Stderr, err)
			os.Exit(2)
		}
		d := extractDesc(raw)
		c, err := rn.Decode(d)
		if err != nil {
			fmt.Fprintln(os.Stderr, "decode:", err)
			os.Exit(2)
		}
		emit(0, c, rn.Run(c))
		return
	}
	id := 0
	if *corpus != "" {
		files, _ := filepath.Glob(filepath.Join(*corpus, "*.json"))
		sort.Strings(files)
		for _, f := range files {
			raw, err := os.ReadFile(f)
			if err != nil {
				continue
			}
			c, err := rn.Decode(extractDesc(raw))
			if err != nil {
				fmt.Fprintln(os.Stderr, "corpus", f, err)
				continue
			}
			emit(id, c, rn.Run(c))
			id++
		}
	}
	root := gen.FromEnv(rn.Salt)
	for i := 0; i < *n; i++ {
		r := root.Fork()
		c := rn.Gen(r, i)
		// round-trip through JSON so that a replayed description is exactly what ran
		raw, err := json.Marshal(c)
		if err == nil && rn.Decode != nil {
			if c2, err2 := rn.Decode(raw); err2 == nil {
				c = c2
			}
		}
		emit(id, c, rn.Run(c))
		id++
	}
	if rn.Extra != nil {
		rn.Extra(func(rec map[string]any) { _ = enc.Encode(rec) })
	}
	_ = enc.Encode(map[string]any{"k": "dist", "kinds": kinds, "n": id})
}

func extractDesc(raw []byte) json.RawMessage {
	var m map[string]json.RawMessage
	if json.Unmarshal(raw, &m) == nil {
		if rp, ok := m["replay"]; ok {
			var m2 map[string]json.RawMessage
			if json.Unmarshal(rp, &m2) == nil {
				if d, ok := m2["desc"]; ok {
					return d
				}
			}
		}
		if d, ok := m["desc"]; ok {
			return d
		}
	}
	return raw
}

// ---- Gallina printers ----

// H prints a byte string as (h "hex").
func H(b []byte) string { return `(h "` + hex.EncodeToString(b) + `")` }

func HS(s string) string { return H([]byte(s)) }

func N(u uint64) string { return strconv.FormatUint(u, 10) }

// Z prints an integer as a Z literal.
func Z(i int64) string {
	if i < 0 {
		return "(" + strconv.FormatInt(i, 10) + ")%Z"
	}
	return strconv.FormatInt(i, 10) + "%Z"
}

func Nat(i int) string { return strconv.Itoa(i) + "%nat" }

func Bool(b bool) string {
	if b {
		return "true"
	}
	return "false"
}

func List(items []string) string { return "[" + strings.Join(items, "; ") + "]" }

func ListOf[T any](xs []T, f func(T) string) string {
	s := make([]string, len(xs))
	for i, x := range xs {
		s[i] = f(x)
	}
	return List(s)
}

func Some(s string) string { return "(Some " + s + ")" }

const None = "None"

func Ok(s string) string { return "(Ok " + s + ")" }

func Err(code int) string { return "(Err " + strconv.Itoa(code) + ")" }

const Panic = "Panic"

func App(f string, args ...string) string { return "(" + f + " " + strings.Join(args, " ") + ")" }
