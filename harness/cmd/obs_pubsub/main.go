// obs_pubsub: C26 — Pub/Sub delivers exactly the subscribed messages in order.
//
// A case is a sequence of operations on one client against the fake server: start a Receive (channels,
// patterns or shard channels; overlapping sets), publish / spublish from other connections (one by one, or in
// concurrent bursts from several publishers), UNSUBSCRIBE a channel, cancel a Receive's context, and finally
// Close the client or kill its connections; RESP3 and RESP2 (server without HELLO: the client then uses a
// second connection for Pub/Sub).  After every operation the observer waits for quiescence with a marker
// message that every live Receive is subscribed to, so the outcome is deterministic and can be compared with
// the model run on the same operations (in the order the server executed them).
//
// Direct oracle (no model): from the fake server's log — each Receive's delivered sequence is exactly the
// publishes to its channels executed between its SUBSCRIBE and its end, in server order; its return value is
// nil / context.Canceled / ErrClosing / a connection error according to how it ended; command replies meanwhile
// are the right ones; nothing hangs.
package main

import (
	"context"
	"encoding/json"
	"fmt"
	"path"
	"sort"
	"strconv"
	"strings"
	"sync"
	"sync/atomic"
	"time"

	"github.com/redis/rueidis"

	"verifharness/fakeredis"
	"verifharness/gen"
	"verifharness/obs"
	"verifharness/psx"
)

type Op struct {
	T    string   `json:"t"` // start | pub | burst | unsub | cancel
	R    int      `json:"r,omitempty"`
	K    string   `json:"k,omitempty"` // n | p | s
	Cs   []string `json:"cs,omitempty"`
	Ctx  bool     `json:"ctx,omitempty"`
	Ch   string   `json:"ch,omitempty"`
	Sh   bool     `json:"sh,omitempty"`
	N    int      `json:"n,omitempty"`    // burst: number of messages
	Pubs int      `json:"pubs,omitempty"` // burst: number of concurrent publishers
}

type Case struct {
	Resp2   bool   `json:"resp2"`
	Ops     []Op   `json:"ops"`
	End     string `json:"end"`               // close | kill
	Overlap int    `json:"overlap,omitempty"` // >0: the overlapping-subscribe scenario with that many messages in flight
	Cmds    bool   `json:"cmds,omitempty"`    // interleave ordinary commands on the same client
}

var chansN = []string{"a", "b", "c", "ab"}
var chansP = []string{"a*", "b*", "ab*"}
var chansS = []string{"a", "b"}
var pubTargets = []string{"a", "b", "c", "ab", "abc", "zz"}

func genCase(r *gen.Rand, i int) any {
	c := Case{Resp2: r.Chance(1, 3), End: gen.Pick(r, []string{"close", "close", "kill"}), Cmds: r.Chance(1, 2)}
	if r.Chance(1, 60) {
		c.Overlap = gen.Pick(r, []int{8, 15, 16, 17, 18, 40})
		c.Ops = nil
		return c
	}
	nops := 3 + r.Intn(16)
	next := 1
	live := []int{}
	kinds := map[int]string{}
	hasCtx := map[int]bool{}
	for len(c.Ops) < nops {
		switch x := r.Intn(10); {
		case x < 3 && next <= 5:
			k := gen.Pick(r, []string{"n", "n", "p", "s"})
			if c.Resp2 && k == "s" {
				k = "n" // sharded Pub/Sub needs Redis 7 (RESP3 servers only in practice)
			}
			var pool []string
			switch k {
			case "n":
				pool = chansN
			case "p":
				pool = chansP
			default:
				pool = chansS
			}
			var cs []string
			for _, ch := range pool {
				if r.Chance(1, 2) {
					cs = append(cs, ch)
				}
			}
			id := next
			next++
			star := ""
			if k == "p" {
				star = "*"
			}
			cs = append(cs, "u"+strconv.Itoa(id)+star, "sync"+star)
			op := Op{T: "start", R: id, K: k, Cs: cs, Ctx: r.Chance(2, 3)}
			c.Ops = append(c.Ops, op)
			live = append(live, id)
			kinds[id] = k
			hasCtx[id] = op.Ctx
		case x < 7:
			if r.Chance(1, 4) {
				c.Ops = append(c.Ops, Op{T: "burst", N: 5 + r.Intn(60), Pubs: 1 + r.Intn(4)})
			} else {
				c.Ops = append(c.Ops, Op{T: "pub", Ch: gen.Pick(r, pubTargets), Sh: !c.Resp2 && r.Chance(1, 5)})
			}
		case x < 8:
			k := gen.Pick(r, []string{"n", "n", "p", "s"})
			var ch string
			switch {
			case len(live) > 0 && r.Chance(1, 2):
				id := gen.Pick(r, live)
				k = kinds[id]
				ch = "u" + strconv.Itoa(id)
				if k == "p" {
					ch += "*"
				}
			case k == "n":
				ch = gen.Pick(r, append([]string{"nosuch"}, chansN...))
			case k == "p":
				ch = gen.Pick(r, append([]string{"nosuch*"}, chansP...))
			default:
				ch = gen.Pick(r, chansS)
			}
			if c.Resp2 && k == "s" {
				k = "n"
			}
			c.Ops = append(c.Ops, Op{T: "unsub", K: k, Ch: ch})
		default:
			if len(live) > 0 {
				id := gen.Pick(r, live)
				if hasCtx[id] {
					c.Ops = append(c.Ops, Op{T: "cancel", R: id})
				}
			}
		}
	}
	return c
}

type rcv struct {
	id     int
	kind   string
	cs     []string
	mu     sync.Mutex
	got    []rueidis.PubSubMessage
	marker int64 // last sync marker seen
	subs   int32 // subscribe confirmations seen
	done   chan struct{}
	ret    error
	cancel context.CancelFunc
	// for the oracle
	startSeq int64 // Seq of its SUBSCRIBE in the server log
	endSeq   int64 // exclusive upper bound of the publishes it must have seen; 0 = unknown
	endKind  string
}

func (r *rcv) returned() bool {
	select {
	case <-r.done:
		return true
	default:
		return false
	}
}

func kindCoq(k string) string {
	switch k {
	case "n":
		return "KN"
	case "p":
		return "KP"
	}
	return "KS"
}

func subCmd(cl rueidis.Client, k string, cs []string) rueidis.Completed {
	switch k {
	case "n":
		return cl.B().Subscribe().Channel(cs...).Build()
	case "p":
		return cl.B().Psubscribe().Pattern(cs...).Build()
	}
	return cl.B().Ssubscribe().Channel(cs...).Build()
}

func unsubCmd(cl rueidis.Client, k string, ch string) rueidis.Completed {
	switch k {
	case "n":
		return cl.B().Unsubscribe().Channel(ch).Build()
	case "p":
		return cl.B().Punsubscribe().Pattern(ch).Build()
	}
	return cl.B().Sunsubscribe().Channel(ch).Build()
}

var voc = func() psx.Vocab {
	words := []string{"a", "b", "c", "ab", "abc", "zz", "a*", "b*", "ab*", "sync", "sync*", "nosuch", "nosuch*", "",
		"u1", "u2", "u3", "u4", "u5", "u1*", "u2*", "u3*", "u4*", "u5*", "u101", "u102*", "u103"}
	for i := 1; i <= 700; i++ {
		words = append(words, "m"+strconv.Itoa(i))
	}
	for i := 1; i <= 120; i++ {
		words = append(words, "sync:"+strconv.Itoa(i))
	}
	return psx.NewVocab(words)
}()

func errCoq(err error) string {
	switch psx.ErrClass(err) {
	case 0:
		return "None"
	case 3, 4:
		return "(Some ECtx)"
	case 5:
		return "(Some EClosing)"
	case 1, 2:
		return "(Some ERedisErr)"
	}
	return "(Some EConn)"
}

const waitMax = 6 * time.Second // only quoted in messages: the waits use psx.Await (adaptive)

type world struct {
	c        Case
	s        *fakeredis.Server
	cl       rueidis.Client
	pubs     []rueidis.Client
	recvs    []*rcv
	mops     []string // model operations, in the order the server executed them
	markerNo int64
	problems []string
	class    string
	bodyNo   int
}

func (w *world) fail(class, f string, a ...any) {
	w.problems = append(w.problems, fmt.Sprintf(f, a...))
	if w.class == "" {
		w.class = class
	}
}

func (w *world) logLen() int64 {
	l := w.s.LogCopy()
	if len(l) == 0 {
		return 0
	}
	return l[len(l)-1].Seq
}

// publish one message and record it for the model
func (w *world) publish(pub rueidis.Client, sharded bool, ch, body string) {
	ctx := context.Background()
	if sharded {
		pub.Do(ctx, pub.B().Spublish().Channel(ch).Message(body).Build())
	} else {
		pub.Do(ctx, pub.B().Publish().Channel(ch).Message(body).Build())
	}
	w.mops = append(w.mops, obs.App("OPublish", obs.Bool(sharded), voc.B(ch), voc.B(body)))
}

// barrier: a marker on the channel every live Receive listens to; all earlier frames have then been handled and delivered
func (w *world) barrier() bool {
	w.markerNo++
	body := "sync:" + strconv.FormatInt(w.markerNo, 10)
	w.publish(w.pubs[0], false, "sync", body)
	if !w.c.Resp2 {
		w.publish(w.pubs[0], true, "sync", body)
	}
	ok := psx.Await(func() bool {
		for _, r := range w.recvs {
			if !r.returned() && atomic.LoadInt64(&r.marker) < w.markerNo {
				return false
			}
		}
		return true
	})
	if !ok {
		for _, r := range w.recvs {
			if !r.returned() && atomic.LoadInt64(&r.marker) < w.markerNo {
				w.fail("receive-stuck", "Receive %d (%s %v) did not see marker %d within %v (last seen %d, %d messages delivered)", r.id, r.kind, r.cs, w.markerNo, waitMax, atomic.LoadInt64(&r.marker), len(r.got))
			}
		}
	}
	return ok
}

func (w *world) start(op Op) {
	ctx := context.Background()
	r := &rcv{id: op.R, kind: op.K, cs: op.Cs, done: make(chan struct{})}
	if op.Ctx {
		ctx, r.cancel = context.WithCancel(ctx)
	}
	ctx = rueidis.WithOnSubscriptionHook(ctx, func(s rueidis.PubSubSubscription) {
		if strings.HasSuffix(s.Kind, "subscribe") && !strings.Contains(s.Kind, "unsub") {
			atomic.AddInt32(&r.subs, 1)
		}
	})
	w.recvs = append(w.recvs, r)
	go func() {
		r.ret = w.cl.Receive(ctx, subCmd(w.cl, op.K, op.Cs), func(m rueidis.PubSubMessage) {
			r.mu.Lock()
			r.got = append(r.got, m)
			r.mu.Unlock()
			if strings.HasPrefix(m.Message, "sync:") {
				n, _ := strconv.ParseInt(m.Message[5:], 10, 64)
				atomic.StoreInt64(&r.marker, n)
			}
		})
		close(r.done)
	}()
	if !psx.Await(func() bool { return atomic.LoadInt32(&r.subs) >= int32(len(op.Cs)) || r.returned() }) {
		w.fail("subscribe-stuck", "Receive %d was not confirmed within %v", r.id, waitMax)
	}
	w.mops = append(w.mops, obs.App("OStart", obs.N(uint64(op.R)), kindCoq(op.K), obs.ListOf(op.Cs, voc.B), obs.Bool(op.Ctx)))
}

func (w *world) find(id int) *rcv {
	for _, r := range w.recvs {
		if r.id == id {
			return r
		}
	}
	return nil
}

func run(ci any) (res obs.Result) {
	c := ci.(Case)
	res.Kind = "seq"
	if c.Resp2 {
		res.Kind = "seq-resp2"
	}
	if c.Overlap > 0 {
		return runOverlap(c)
	}
	for _, op := range c.Ops {
		if op.T == "burst" {
			res.Kind = strings.Replace(res.Kind, "seq", "burst", 1)
		}
	}
	s := fakeredis.New()
	s.NoHello = c.Resp2
	w := &world{c: c, s: s}
	mk := func() rueidis.Client {
		cl, err := rueidis.NewClient(rueidis.ClientOption{InitAddress: []string{"127.0.0.1:6379"}, DialCtxFn: s.Dial, ForceSingleClient: true,
			DisableCache: true, DisableRetry: true, ReadBufferEachConn: 4096, WriteBufferEachConn: 4096, RingScaleEachConn: 6, PipelineMultiplex: -1})
		if err != nil {
			panic(err)
		}
		return cl
	}
	w.cl = mk()
	for i := 0; i < 4; i++ {
		w.pubs = append(w.pubs, mk())
	}
	defer func() {
		for _, p := range w.pubs {
			p.Close()
		}
	}()
	// ordinary commands on the same client meanwhile: every reply must be the right one
	stopCmds := make(chan struct{})
	var cmdWG sync.WaitGroup
	var cmdBad atomic.Value
	var cmdCount int64
	if c.Cmds {
		cmdWG.Add(1)
		go func() {
			defer cmdWG.Done()
			for i := 0; ; i++ {
				select {
				case <-stopCmds:
					return
				default:
				}
				want := "echo-" + strconv.Itoa(i)
				ctx, cancel := context.WithTimeout(context.Background(), psx.Patience())
				got, err := w.cl.Do(ctx, w.cl.B().Echo().Message(want).Build()).ToString()
				cancel()
				if err != nil {
					select {
					case <-stopCmds:
						return
					default:
					}
					cmdBad.Store(fmt.Sprintf("ECHO %s failed: %v", want, err))
					return
				}
				if got != want {
					cmdBad.Store(fmt.Sprintf("ECHO %s answered %q", want, got))
					return
				}
				atomic.AddInt64(&cmdCount, 1)
				time.Sleep(200 * time.Microsecond)
			}
		}()
	}
	// one permanent Receive per kind on the marker channel: the marker of a barrier is then the last frame of
	// everything sent before it, also for channels the connection is still subscribed to without a live Receive
	w.start(Op{T: "start", R: 101, K: "n", Cs: []string{"u101", "sync"}})
	w.start(Op{T: "start", R: 102, K: "p", Cs: []string{"u102*", "sync*"}})
	if !c.Resp2 {
		w.start(Op{T: "start", R: 103, K: "s", Cs: []string{"u103", "sync"}})
	}
	alive := w.barrier()
	for _, op := range c.Ops {
		if !alive {
			break
		}
		switch op.T {
		case "start":
			w.start(op)
		case "pub":
			w.bodyNo++
			w.publish(w.pubs[0], op.Sh, op.Ch, "m"+strconv.Itoa(w.bodyNo))
		case "burst":
			// several publishers at once; the server log says in which order they were executed
			before := w.logLen()
			var wg sync.WaitGroup
			per := op.N / op.Pubs
			for p := 0; p < op.Pubs; p++ {
				wg.Add(1)
				base := w.bodyNo + p*per
				go func(p, base int) {
					defer wg.Done()
					pub := w.pubs[p%len(w.pubs)]
					for j := 0; j < per; j++ {
						ch := pubTargets[(base+j)%len(pubTargets)]
						pub.Do(context.Background(), pub.B().Publish().Channel(ch).Message("m"+strconv.Itoa(base+j+1)).Build())
					}
				}(p, base)
			}
			wg.Wait()
			w.bodyNo += per * op.Pubs
			for _, e := range s.LogCopy() {
				if e.Seq > before && e.Argv[0] == "PUBLISH" {
					w.mops = append(w.mops, obs.App("OPublish", "false", voc.B(e.Argv[1]), voc.B(e.Argv[2])))
				}
			}
		case "unsub":
			ctx, cancel := context.WithTimeout(context.Background(), psx.Patience())
			if err := w.cl.Do(ctx, unsubCmd(w.cl, op.K, op.Ch)).Error(); err != nil {
				w.fail("unsubscribe-failed", "UNSUBSCRIBE %s: %v", op.Ch, err)
			}
			cancel()
			w.mops = append(w.mops, obs.App("OUnsub", kindCoq(op.K), obs.List([]string{voc.B(op.Ch)})))
		case "cancel":
			r := w.find(op.R)
			if r == nil || r.cancel == nil || r.returned() {
				continue
			}
			r.endSeq, r.endKind = w.logLen()+1, "cancel"
			r.cancel()
			if !psx.Await(r.returned) {
				w.fail("cancel-stuck", "Receive %d did not return within %v of its context being cancelled", r.id, waitMax)
			}
			w.mops = append(w.mops, obs.App("OCancel", obs.N(uint64(op.R))))
			continue // nothing was sent: no barrier needed
		}
		alive = w.barrier()
	}
	close(stopCmds)
	cmdWG.Wait()
	// the end: Close / kill
	for _, r := range w.recvs {
		if !r.returned() {
			r.endSeq, r.endKind = w.logLen()+1, c.End
		}
	}
	if alive {
		if c.End == "close" {
			w.cl.Close()
			w.mops = append(w.mops, "(OClose EClosing)")
		} else {
			for _, fc := range s.Conns() {
				if fc.ID == 1 || (c.Resp2 && isPubSubConn(fc)) {
					fc.Kill()
				}
			}
			w.mops = append(w.mops, "(OClose EConn)")
		}
		for _, r := range w.recvs {
			if !psx.Await(r.returned) {
				w.fail("end-stuck", "Receive %d did not return within %v of the %s", r.id, waitMax, c.End)
			}
		}
		if c.End != "close" {
			w.cl.Close()
		}
	} else {
		go w.cl.Close() // may hang on a dead-locked pipe
		for _, r := range w.recvs {
			if r.cancel != nil {
				r.cancel()
			}
		}
	}
	if v := cmdBad.Load(); v != nil {
		w.fail("command-reply", "%s", v.(string))
	}
	w.oracle()
	// the case for the model
	seen := make([]string, 0, len(w.recvs))
	for _, r := range w.recvs {
		ret := obs.None
		if r.returned() {
			ret = obs.Some(errCoq(r.ret))
		}
		r.mu.Lock()
		msgs := obs.ListOf(r.got, func(m rueidis.PubSubMessage) string {
			return obs.App("mkMsg", voc.B(m.Pattern), voc.B(m.Channel), voc.B(m.Message))
		})
		r.mu.Unlock()
		seen = append(seen, obs.App("mkSeenRecv", obs.N(uint64(r.id)), msgs, ret))
	}
	if alive {
		res.Coq = obs.App("CPubSub", obs.List(w.mops), obs.List(seen))
	}
	res.Sig = fmt.Sprintf("%+v", c)
	tot := 0
	for _, r := range w.recvs {
		tot += len(r.got)
	}
	res.Nontrivial = len(w.recvs) > 0 && tot > 0
	res.Obs = map[string]any{"receivers": len(w.recvs), "delivered": tot, "commands": atomic.LoadInt64(&cmdCount)}
	res.Site = "pipe.go:Receive"
	if len(w.problems) > 0 {
		res.Oracle = strings.Join(w.problems, "; ")
		res.Class = w.class
	}
	return
}

func isPubSubConn(fc *fakeredis.Conn) bool {
	fc.S.Lock()
	defer fc.S.Unlock()
	for _, e := range fc.Log {
		if strings.HasSuffix(e.Argv[0], "SUBSCRIBE") {
			return true
		}
	}
	return false
}

func matchesRecv(r *rcv, kind string, key string) bool {
	if r.kind != kind {
		return false
	}
	for _, c := range r.cs {
		if c == key {
			return true
		}
	}
	return false
}

// oracle: the property statement on the server's log
func (w *world) oracle() {
	log := w.s.LogCopy()
	// the client's own subscription commands, by receiver (each names its private channel u<id>)
	for _, r := range w.recvs {
		star := ""
		if r.kind == "p" {
			star = "*"
		}
		for _, e := range log {
			if strings.HasSuffix(e.Argv[0], "SUBSCRIBE") && !strings.Contains(e.Argv[0], "UNSUB") {
				for _, a := range e.Argv[1:] {
					if a == "u"+strconv.Itoa(r.id)+star {
						r.startSeq = e.Seq
					}
				}
			}
		}
		if r.startSeq == 0 {
			w.fail("no-subscribe", "Receive %d: its SUBSCRIBE never reached the server", r.id)
			continue
		}
		// ended by an UNSUBSCRIBE naming one of its channels?
		if r.endSeq == 0 {
			for _, e := range log {
				if e.Seq > r.startSeq && strings.Contains(e.Argv[0], "UNSUBSCRIBE") && len(e.Argv) == 2 {
					k := map[string]string{"UNSUBSCRIBE": "n", "PUNSUBSCRIBE": "p", "SUNSUBSCRIBE": "s"}[e.Argv[0]]
					if matchesRecv(r, k, e.Argv[1]) {
						r.endSeq, r.endKind = e.Seq, "unsub"
						break
					}
				}
			}
		}
	}
	// server-side subscription state of the client's Pub/Sub connection over time is not needed: a Receive's own
	// SUBSCRIBE makes the connection subscribed to all its channels from startSeq on, and rueidis never unsubscribes
	// by itself, so between startSeq and endSeq every publish to one of its channels is pushed.
	for _, r := range w.recvs {
		if r.startSeq == 0 {
			continue
		}
		if !r.returned() {
			continue // reported as stuck already
		}
		var want []rueidis.PubSubMessage
		for _, e := range log {
			if e.Seq <= r.startSeq || (r.endSeq != 0 && e.Seq >= r.endSeq) {
				continue
			}
			switch {
			case e.Argv[0] == "PUBLISH" && len(e.Argv) == 3 && r.kind == "n":
				if matchesRecv(r, "n", e.Argv[1]) {
					want = append(want, rueidis.PubSubMessage{Channel: e.Argv[1], Message: e.Argv[2]})
				}
			case e.Argv[0] == "PUBLISH" && len(e.Argv) == 3 && r.kind == "p":
				pats := append([]string(nil), r.cs...)
				sort.Strings(pats) // the server fans out in pattern order
				for _, p := range pats {
					if ok, _ := path.Match(p, e.Argv[1]); ok {
						want = append(want, rueidis.PubSubMessage{Pattern: p, Channel: e.Argv[1], Message: e.Argv[2]})
					}
				}
			case e.Argv[0] == "SPUBLISH" && len(e.Argv) == 3 && r.kind == "s":
				if matchesRecv(r, "s", e.Argv[1]) {
					want = append(want, rueidis.PubSubMessage{Channel: e.Argv[1], Message: e.Argv[2]})
				}
			}
		}
		r.mu.Lock()
		got := append([]rueidis.PubSubMessage(nil), r.got...)
		r.mu.Unlock()
		if len(got) != len(want) {
			w.fail("delivery", "Receive %d (%s %v, ended by %s): %d messages delivered, %d published to its channels between its subscription and its end; delivered %v, published %v", r.id, r.kind, r.cs, r.endKind, len(got), len(want), brief(got), brief(want))
		} else {
			for i := range got {
				if got[i] != want[i] {
					w.fail("delivery", "Receive %d: message %d is %+v, the server's log has %+v", r.id, i, got[i], want[i])
					break
				}
			}
		}
		wantRet := -1
		switch r.endKind {
		case "unsub":
			wantRet = 0
		case "cancel":
			wantRet = 3
		case "close":
			wantRet = 5
		case "kill":
			wantRet = 8
		}
		if wantRet >= 0 && psx.ErrClass(r.ret) != wantRet {
			w.fail("return-value", "Receive %d ended by %s returned %v", r.id, r.endKind, r.ret)
		}
	}
}

func brief(ms []rueidis.PubSubMessage) string {
	var b strings.Builder
	for i, m := range ms {
		if i > 0 {
			b.WriteByte(' ')
		}
		if i >= 40 {
			b.WriteString("…")
			break
		}
		b.WriteString(m.Pattern + "/" + m.Channel + "=" + m.Message)
	}
	return b.String()
}

// The overlapping-subscribe scenario: Receive A listens on channel x; n messages are published to x while a
// second Receive B on x has registered locally but its SUBSCRIBE is still on its way (the fake server delays it).
// Property: nothing hangs, A gets all n messages, B gets those after its confirmation, commands keep working.
func runOverlap(c Case) (res obs.Result) {
	res.Kind = "overlap"
	if c.Resp2 {
		res.Kind = "overlap-resp2"
	}
	s := fakeredis.New()
	s.NoHello = c.Resp2
	var release = make(chan struct{})
	s.Fault = func(fc *fakeredis.Conn, cseq int, argv []string) fakeredis.Action {
		if argv[0] == "SUBSCRIBE" && len(argv) == 3 && argv[2] == "ub" {
			<-release // B's command waits at the server's door until the burst has been sent
		}
		return fakeredis.Action{}
	}
	mk := func() rueidis.Client {
		cl, err := rueidis.NewClient(rueidis.ClientOption{InitAddress: []string{"127.0.0.1:6379"}, DialCtxFn: s.Dial, ForceSingleClient: true,
			DisableCache: true, DisableRetry: true, ReadBufferEachConn: 4096, WriteBufferEachConn: 4096, RingScaleEachConn: 6, PipelineMultiplex: -1})
		if err != nil {
			panic(err)
		}
		return cl
	}
	cl, pub := mk(), mk()
	defer pub.Close()
	var aGot, bGot int64
	var aSub int32
	aDone, bDone := make(chan struct{}), make(chan struct{})
	ctxA := rueidis.WithOnSubscriptionHook(context.Background(), func(s rueidis.PubSubSubscription) { atomic.AddInt32(&aSub, 1) })
	go func() {
		_ = cl.Receive(ctxA, cl.B().Subscribe().Channel("x", "ua").Build(), func(m rueidis.PubSubMessage) { atomic.AddInt64(&aGot, 1) })
		close(aDone)
	}()
	psx.Await(func() bool { return atomic.LoadInt32(&aSub) >= 2 })
	go func() {
		_ = cl.Receive(context.Background(), cl.B().Subscribe().Channel("x", "ub").Build(), func(m rueidis.PubSubMessage) { atomic.AddInt64(&bGot, 1) })
		close(bDone)
	}()
	// B's SUBSCRIBE has been received by the server (it is parked in the fault hook) => B registered locally before
	time.Sleep(20 * time.Millisecond)
	for i := 0; i < c.Overlap; i++ {
		pub.Do(context.Background(), pub.B().Publish().Channel("x").Message("m"+strconv.Itoa(i)).Build())
	}
	time.Sleep(20 * time.Millisecond)
	close(release)
	// wait until the server has executed B's SUBSCRIBE (so that exactly c.Overlap messages were in flight before it)
	psx.Await(func() bool {
		for _, e := range s.LogCopy() {
			if e.Argv[0] == "SUBSCRIBE" && len(e.Argv) == 3 && e.Argv[2] == "ub" {
				return true
			}
		}
		return false
	})
	// afterwards: one more message, which both must get; and a command must be answered
	okA := psx.WaitFor(3*time.Second, func() bool { return atomic.LoadInt64(&aGot) >= int64(c.Overlap) })
	pub.Do(context.Background(), pub.B().Publish().Channel("x").Message("last").Build())
	okAll := psx.WaitFor(3*time.Second, func() bool {
		return atomic.LoadInt64(&aGot) >= int64(c.Overlap)+1 && atomic.LoadInt64(&bGot) >= 1
	})
	ctx, cancel := context.WithTimeout(context.Background(), 2*time.Second)
	_, perr := cl.Do(ctx, cl.B().Echo().Message("still-there").Build()).ToString()
	cancel()
	res.Sig = fmt.Sprintf("%+v", c)
	res.Nontrivial = true
	res.Obs = map[string]any{"in_flight": c.Overlap, "a_got": atomic.LoadInt64(&aGot), "b_got": atomic.LoadInt64(&bGot), "echo_err": fmt.Sprint(perr)}
	res.Site = "pubsub.go:subs.Publish"
	if !okA || !okAll || perr != nil {
		res.Oracle = fmt.Sprintf("with %d messages for a channel arriving between the local registration of a second Receive on it and that Receive's subscription confirmation: first Receive got %d of %d, second got %d, ECHO afterwards: %v — the connection's reader is blocked on the second Receive's full channel while that Receive waits for the reader",
			c.Overlap, atomic.LoadInt64(&aGot), c.Overlap+1, atomic.LoadInt64(&bGot), perr)
		res.Class = "overlap-subscribe-deadlock"
	}
	go cl.Close()
	return
}

func main() {
	obs.Main(obs.Runner{
		Name: "obs_pubsub", Salt: 26,
		Gen: genCase,
		Decode: func(raw json.RawMessage) (any, error) {
			var c Case
			err := json.Unmarshal(raw, &c)
			return c, err
		},
		Run: run,
	})
}
