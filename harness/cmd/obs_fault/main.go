// obs_fault: C04 — broken connections and Close never leave calls hanging (fault enumeration).
//
// A REAL client runs a scripted exchange against fakeredis: G goroutines keep a mix of calls pending
// (a synchronous first call, pipelined singles and batches, a client-side-cached read with a second
// caller waiting on the same cache flight, a Receive on a subscription, a blocking BLPOP on its own
// connection).  At the n-th command the server receives after the handshakes, one of
//
//	before   the connection is closed instead of executing the command,
//	after    the command is executed and the connection closed without a reply,
//	mid      the connection is closed after the first 3 bytes of the reply,
//	close    the client's Close() is called
//
// happens.  The case enumerates n and the mode.
//
// Direct oracle: every call returns within the bound with a non-nil error or with its own reply (tag
// check); after a connection failure a later call succeeds on a fresh connection; after Close new
// calls return ErrClosing.  The frames and wire order of every connection are also replayed through
// the model's reader (prefix property: what the callers were handed must be what the model delivers).
package main

import (
	"context"
	"encoding/json"
	"errors"
	"fmt"
	"os"
	"runtime"
	"sort"
	"strings"
	"sync"
	"sync/atomic"
	"time"

	"github.com/redis/rueidis"

	"verifharness/fakeredis"
	"verifharness/gen"
	"verifharness/obs"
	"verifharness/pipe"
)

type Case struct {
	Queue  string `json:"queue"`
	Resp2  bool   `json:"resp2"`
	Always bool   `json:"always"`
	Cache  bool   `json:"cache"`
	Ring   int    `json:"ring"`
	G      int    `json:"g"`     // pipelined goroutines
	Ops    int    `json:"ops"`   // calls per goroutine
	Sub    bool   `json:"sub"`   // a Receive is pending
	Block  bool   `json:"block"` // a BLPOP is pending on a dedicated connection
	At     int    `json:"at"`    // fault at the n-th command after the handshakes (1-based)
	Mode   string `json:"mode"`  // before | after | mid | close
}

const bound = 3 * time.Second

func genCase(r *gen.Rand, i int) any {
	c := Case{Queue: gen.Pick(r, []string{"ring", "flowbuffer"}), Resp2: r.Chance(1, 5), Always: r.Chance(1, 3),
		Ring: gen.Pick(r, []int{1, 2, 0}), G: r.Range(2, 6), Ops: r.Range(1, 4), Sub: r.Chance(1, 2), Block: r.Chance(1, 3)}
	c.Cache = !c.Resp2 && r.Chance(1, 2)
	c.Mode = gen.Pick(r, []string{"before", "after", "mid", "close"})
	c.At = r.Range(1, c.G*c.Ops*2+4)
	if i%25 == 13 {
		c.Mode, c.Block, c.Resp2, c.Sub = "dialclose", true, false, false
	}
	return c
}

// Enumerate yields, for a fixed script, every fault index and mode (thorough tier).
func enumerate() []Case {
	var out []Case
	for _, q := range []string{"ring", "flowbuffer"} {
		for _, always := range []bool{false, true} {
			base := Case{Queue: q, Always: always, Cache: true, Ring: 1, G: 3, Ops: 2, Sub: true, Block: true}
			for at := 1; at <= 26; at++ {
				for _, m := range []string{"before", "after", "mid", "close"} {
					c := base
					c.At, c.Mode = at, m
					out = append(out, c)
				}
			}
		}
	}
	return out
}

func decode(raw json.RawMessage) (any, error) {
	var c Case
	err := json.Unmarshal(raw, &c)
	return c, err
}

type outcome struct {
	id     int
	kind   string
	tags   []string
	got    []string
	err    error
	took   time.Duration
	done   bool
	call   *pipe.Call
	before bool // started before the fault fired
}

func val(k string) string { return "v:" + k }

func run(ci any) (res obs.Result) {
	c := ci.(Case)
	res.Kind = c.Mode
	res.Site, res.Class = "pipe.go:_background", "hang"
	rueidis.VerifPipeSetQueueType(c.Queue)
	s := fakeredis.New()
	s.NoHello = c.Resp2
	s.Handle("BLPOP", func(fc *fakeredis.Conn, a []string) fakeredis.V { return fakeredis.V{} }) // never answers
	rec := pipe.NewRecorder(s)
	if c.Mode == "dialclose" {
		rec.DialHook = func(ctx context.Context, n int) error {
			if n == 1 {
				if c.At%2 == 1 {
					// a slow failing dial: Close() overtakes it, the failure is reported after the client was closed
					time.Sleep(150 * time.Millisecond)
				}
				return errors.New("injected dial failure")
			}
			return nil
		}
	}

	var cl rueidis.Client
	var fired atomic.Bool
	var faultCmd atomic.Value // the command the fault hit
	var ncmd int32
	closeReq := make(chan struct{}, 1)
	s.Fault = func(fc *fakeredis.Conn, cseq int, argv []string) fakeredis.Action {
		switch strings.ToUpper(argv[0]) {
		case "HELLO", "CLIENT", "AUTH":
			if !(len(argv) == 3 && strings.EqualFold(argv[1], "CACHING")) {
				return fakeredis.Action{}
			}
		}
		if fired.Load() {
			return fakeredis.Action{}
		}
		if int(atomic.AddInt32(&ncmd, 1)) != c.At {
			return fakeredis.Action{}
		}
		fired.Store(true)
		faultCmd.Store(strings.Join(argv[:min(len(argv), 2)], " "))
		switch c.Mode {
		case "before":
			return fakeredis.Action{CloseBefore: true}
		case "after":
			return fakeredis.Action{CloseAfter: true}
		case "mid":
			return fakeredis.Action{CloseMidReply: 3}
		case "close":
			closeReq <- struct{}{}
			return fakeredis.Action{Delay: 20 * time.Millisecond}
		default:
			return fakeredis.Action{}
		}
	}
	opt := rueidis.ClientOption{InitAddress: []string{"127.0.0.1:6379"}, DialCtxFn: rec.Dial, ForceSingleClient: true,
		DisableRetry: true, DisableCache: !c.Cache, PipelineMultiplex: -1, RingScaleEachConn: c.Ring, AlwaysPipelining: c.Always}
	opt.Dialer.KeepAlive = -1
	var err error
	cl, err = rueidis.NewClient(opt)
	if err != nil {
		res.Oracle, res.Class = "NewClient failed against a healthy server: "+err.Error(), "setup"
		return
	}
	var nextID int32
	var mu sync.Mutex
	var all []*outcome
	calls := map[int]*pipe.Call{}
	preKey := func(k string) { s.Lock(); s.DB[k] = &fakeredis.Item{Kind: "string", Str: val(k)}; s.Unlock() }
	record := func(o *outcome, rs []rueidis.RedisResult, t0 time.Time) {
		for _, r := range rs {
			m, nerr := rueidis.VerifPipeResult(r)
			if nerr != nil {
				if o.err == nil {
					o.err = nerr
				}
				o.got = append(o.got, "")
				if o.call != nil {
					o.call.Results = append(o.call.Results, nil)
				}
				continue
			}
			o.got = append(o.got, m.Str)
			if o.call != nil {
				mm := m
				o.call.Results = append(o.call.Results, &mm)
			}
		}
		o.took = time.Since(t0)
		o.done = true
	}
	newCall := func(kind string, multi bool, observable bool) *outcome {
		id := int(atomic.AddInt32(&nextID, 1))
		o := &outcome{id: id, kind: kind, before: !fired.Load()}
		call := &pipe.Call{ID: id, Multi: multi}
		if observable {
			o.call = call
		}
		mu.Lock()
		all = append(all, o)
		calls[id] = call
		mu.Unlock()
		return o
	}
	bg := context.Background()
	var wg sync.WaitGroup
	var blockWg sync.WaitGroup
	var closed atomic.Bool
	go func() {
		<-closeReq
		cl.Close()
		closed.Store(true)
	}()

	sharedKey := "k:" + pipe.Tag(0, 0) + "shared"
	preKey(sharedKey)
	start := make(chan struct{})
	for g := 0; g < c.G; g++ {
		wg.Add(1)
		go func(g int) {
			defer wg.Done()
			<-start
			for j := 0; j < c.Ops; j++ {
				switch (g + j) % 4 {
				case 0:
					o := newCall("echo", false, true)
					tag := pipe.Tag(o.id, 0)
					o.tags = []string{tag}
					t0 := time.Now()
					record(o, []rueidis.RedisResult{cl.Do(bg, cl.B().Echo().Message(tag).Build())}, t0)
				case 1:
					o := newCall("multi", true, true)
					var cmds []rueidis.Completed
					for x := 0; x < 3; x++ {
						tag := pipe.Tag(o.id, x)
						o.tags = append(o.tags, tag)
						cmds = append(cmds, cl.B().Echo().Message(tag).Build())
					}
					t0 := time.Now()
					record(o, cl.DoMulti(bg, cmds...), t0)
				case 2:
					if c.Cache {
						o := newCall("cache", true, false)
						o.tags = []string{val(sharedKey)}
						t0 := time.Now()
						record(o, []rueidis.RedisResult{cl.DoCache(bg, cl.B().Get().Key(sharedKey).Cache(), time.Minute)}, t0)
					} else {
						o := newCall("get", false, true)
						k := "k:" + pipe.Tag(o.id, 0)
						preKey(k)
						o.tags = []string{val(k)}
						t0 := time.Now()
						record(o, []rueidis.RedisResult{cl.Do(bg, cl.B().Get().Key(k).Build())}, t0)
					}
				default:
					o := newCall("echo", false, true)
					tag := pipe.Tag(o.id, 0)
					o.tags = []string{tag}
					ctx, cancel := context.WithCancel(bg) // cancellable without deadline: forces the pipelined path
					t0 := time.Now()
					record(o, []rueidis.RedisResult{cl.Do(ctx, cl.B().Echo().Message(tag).Build())}, t0)
					cancel()
				}
			}
		}(g)
	}
	var recvErr error
	recvDone := make(chan struct{})
	if c.Sub {
		id := int(atomic.AddInt32(&nextID, 1))
		calls[id] = &pipe.Call{ID: id}
		go func() {
			<-start
			recvErr = cl.Receive(bg, cl.B().Subscribe().Channel("ch:"+pipe.Tag(id, 0)).Build(), func(m rueidis.PubSubMessage) {})
			close(recvDone)
		}()
	} else {
		close(recvDone)
	}
	var blockOut *outcome
	if c.Block {
		blockOut = newCall("block", false, false)
		blockWg.Add(1)
		go func() {
			defer blockWg.Done()
			<-start
			t0 := time.Now()
			record(blockOut, []rueidis.RedisResult{cl.Do(bg, cl.B().Blpop().Key("q:"+pipe.Tag(blockOut.id, 0)).Timeout(0).Build())}, t0)
		}()
	}
	close(start)
	waitFor := func(ch <-chan struct{}, d time.Duration) bool {
		select {
		case <-ch:
			return true
		case <-time.After(d):
			return false
		}
	}
	doneAll := make(chan struct{})
	go func() { wg.Wait(); close(doneAll) }()
	var fails []string
	dump := func() {
		if os.Getenv("VERIF_PIPE_DUMP") != "" {
			buf := make([]byte, 1<<20)
			fmt.Fprintf(os.Stderr, "%s\n", buf[:runtime.Stack(buf, true)])
		}
	}
	if !waitFor(doneAll, bound) {
		dump()
		fails = append(fails, fmt.Sprintf("pipelined / synchronous calls still pending %v after the %s fault at command %d", bound, c.Mode, c.At))
	}
	faultFired := fired.Load()
	// the subscription and the blocking call live until their connection goes away
	if c.Mode == "close" && faultFired {
		for i := 0; i < 300 && !closed.Load(); i++ {
			time.Sleep(10 * time.Millisecond)
		}
		if !closed.Load() {
			dump()
			fails = append(fails, "Close() did not return within 3 s")
		}
	}
	if c.Mode == "dialclose" && len(fails) == 0 {
		// one dial failed earlier (the dedicated connection of the blocking call); now Close
		cdone := make(chan struct{})
		go func() { cl.Close(); closed.Store(true); close(cdone) }()
		if !waitFor(cdone, bound+2*time.Second) {
			dump()
			fails = append(fails, "Close() did not return")
		}
	}
	if (c.Mode == "close" && faultFired || c.Mode == "dialclose") && closed.Load() {
		r := cl.Do(bg, cl.B().Echo().Message("afterclose").Build())
		if !errors.Is(r.Error(), rueidis.ErrClosing) {
			fails = append(fails, fmt.Sprintf("a call after Close returned %q, not ErrClosing", fmt.Sprint(r.Error())))
			res.Class, res.Site = "after-close", "mux.go:Close"
		}
		if c.Mode == "dialclose" && len(fails) == 0 {
			// once the (possibly slow) failing dial is over as well: still ErrClosing
			bd := make(chan struct{})
			go func() { blockWg.Wait(); close(bd) }()
			if waitFor(bd, bound) {
				r := cl.Do(bg, cl.B().Echo().Message("afterclose2").Build())
				if !errors.Is(r.Error(), rueidis.ErrClosing) {
					fails = append(fails, fmt.Sprintf("a call after Close and after a dial that failed during Close returned %q, not ErrClosing", fmt.Sprint(r.Error())))
					res.Class, res.Site = "after-close", "mux.go:Close"
				}
			}
		}
	}
	// tear every server-side connection down: whatever is still pending must come back now
	later := ""
	followUpsUsed := 0
	fired.Store(true) // the enumerated fault point may lie beyond the script: no fault from here on
	if len(fails) == 0 && c.Mode != "close" && c.Mode != "dialclose" {
		// A later call succeeds on a fresh connection (before tearing the rest down).  "Later" means: after the client
		// has noticed the failure.  The mux replaces a wire lazily, when a call on it returns a transport error and the
		// wire has latched its error; a call issued while the server's close is still on its way to the reader (the fault
		// may have hit the SUBSCRIBE of the pending Receive, which no caller of this script waits for), or in the short
		// window between the reader handing the error to a caller and _exit latching it, legitimately returns that
		// error once more.  So: follow-up calls are issued until one succeeds; each must return promptly, a reply must be
		// the call's own, and one of the first few must succeed.
		const followUps = 6
		for attempt := 0; attempt < followUps; attempt++ {
			id := int(atomic.AddInt32(&nextID, 1))
			tag := pipe.Tag(id, 0)
			calls[id] = &pipe.Call{ID: id}
			var r rueidis.RedisResult
			okc := make(chan struct{})
			go func() { r = cl.Do(bg, cl.B().Echo().Message(tag).Build()); close(okc) }()
			if !waitFor(okc, bound) {
				dump()
				fails = append(fails, "a call issued after the failure did not return")
				break
			}
			v, e := r.ToString()
			if e == nil && v == tag {
				later = ""
				followUpsUsed = attempt + 1
				break
			}
			if e == nil {
				later = fmt.Sprintf("a call issued after the connection failure returned %q, its own reply is %q", v, tag)
				break
			}
			later = fmt.Sprintf("%d calls issued one after the other after the connection failure all failed (the last one with %v) instead of one of them succeeding on a fresh connection", attempt+1, e)
			time.Sleep(10 * time.Millisecond)
		}
	}
	// (repeatedly: a connection dialled late, e.g. the RESP2 pub/sub side connection, must go too)
	stopKill := make(chan struct{})
	go func() {
		for {
			for _, fc := range s.Conns() {
				fc.Kill()
			}
			select {
			case <-stopKill:
				return
			case <-time.After(20 * time.Millisecond):
			}
		}
	}()
	defer close(stopKill)
	if !waitFor(recvDone, bound) {
		dump()
		fails = append(fails, "Receive did not return after its connection was closed")
	} else if c.Sub && recvErr == nil {
		fails = append(fails, "Receive returned nil although its connection was closed")
	}
	blockDone := make(chan struct{})
	go func() { blockWg.Wait(); close(blockDone) }()
	if !waitFor(blockDone, bound) {
		dump()
		fails = append(fails, "the blocking call did not return after its connection was closed")
	} else if blockOut != nil && blockOut.err == nil {
		fails = append(fails, "the blocking call returned without error although its connection was closed before any reply")
	}
	if later != "" {
		fails = append(fails, later)
		res.Class = "no-fresh-conn"
	}
	if !closed.Load() {
		cdone := make(chan struct{})
		go func() { cl.Close(); close(cdone) }()
		if !waitFor(cdone, bound+2*time.Second) {
			dump()
			fails = append(fails, "final Close() did not return")
		}
	}
	// every call: its own reply or an error
	mu.Lock()
	sort.Slice(all, func(i, j int) bool { return all[i].id < all[j].id })
	nerr := 0
	for _, o := range all {
		if !o.done {
			continue
		}
		if o.err != nil {
			nerr++
			continue
		}
		for j := range o.tags {
			if j < len(o.got) && o.got[j] != o.tags[j] {
				// a Redis error reply (e.g. EXECABORT) is not produced by this script; anything else is a wrong reply
				fails = append(fails, fmt.Sprintf("call %d (%s) position %d returned %q, its own reply is %q", o.id, o.kind, j, o.got[j], o.tags[j]))
				res.Class = "misrouted-reply"
			}
		}
	}
	mu.Unlock()
	if len(fails) > 0 {
		res.Oracle = strings.Join(fails[:min(len(fails), 3)], "; ")
	}

	// correspondence: the reader replay on every connection (prefix property)
	var conns []string
	for _, rc := range rec.Conns() {
		slots, err := pipe.Reconstruct(rc.Commands(), calls)
		if err != nil {
			continue // a half-written command at the failure point cannot be attributed; the oracle above still applies
		}
		frames, _ := rueidis.VerifPipeDecode(rc.Out())
		nsync := 0
		for _, sl := range slots {
			if sl.Sync {
				nsync++
			}
		}
		ver := 7
		if c.Resp2 {
			ver = 5
		}
		r2ps := false
		for _, sl := range slots {
			if len(sl.Cmds) > 0 && strings.EqualFold(sl.Cmds[0][0], "SUBSCRIBE") && c.Resp2 {
				r2ps = true
			}
		}
		conns = append(conns, pipe.ConnCoq(r2ps, ver, nsync, slots, frames, calls))
	}
	res.Coq = "(CRun " + obs.List(conns) + ")"
	res.Nontrivial = faultFired
	res.Sig = fmt.Sprint(c.Queue, c.Resp2, c.Always, c.Cache, c.G, c.Ops, c.Sub, c.Block, c.At, c.Mode)
	res.Obs = map[string]any{"follow_ups": followUpsUsed, "fault_cmd": faultCmd.Load(), "fired": faultFired, "calls": len(all), "errors": nerr, "connections": len(conns)}
	return
}

func main() {
	enum := enumerate()
	obs.Main(obs.Runner{Name: "obs_fault", Salt: 0xC04, Decode: decode, Run: run,
		Gen: func(r *gen.Rand, i int) any {
			if os.Getenv("VERIF_TIER") == "thorough" && i < len(enum) {
				return enum[i]
			}
			return genCase(r, i)
		}})
}
