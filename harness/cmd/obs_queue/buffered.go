package main

import (
	"context"
	"fmt"
	"sync"
	"time"

	"github.com/redis/rueidis"

	"verifharness/obs"
)

// runBuffered drives the ring the way pipe.go does when commands go through a buffered writer: the writer
// loop (pipe._backgroundWrite) puts the commands of a dequeued slot into a buffer of `bufCap` entries, the
// buffer is written out when it is full (bufio's automatic flush of its head) or when NextWriteCmd finds
// nothing; the server answers what it received, in order; the reader loop (pipe._backgroundRead) calls
// NextResultCh at the first reply of a slot and FinishResult after its last reply, holding the slot mutex
// in between.  A batch larger than the buffer is therefore half written when its first replies arrive.
//
// Scenario D15: batch X of 3 commands (ticket 1), single command A (ticket 2) on a 2-slot ring, buffer of 2
// entries.  After A the writer polls slot 1 again (position 3) while the reader still holds it for X.
func runBuffered(c Case) (res obs.Result) {
	res.Kind = "d15"
	res.Site, res.Class = "ring.go:NextWriteCmd", "writer-blocks-with-unflushed-buffer"
	res.Nontrivial = true
	res.Sig = "d15"
	type part struct{ id, idx, total int }
	const bufCap = 2
	q := rueidis.NewVerifRing(1, 0)
	defer q.Forget()
	server := make(chan part, 1024)
	var mu sync.Mutex
	var log []string
	note := func(f string, a ...any) { mu.Lock(); log = append(log, fmt.Sprintf(f, a...)); mu.Unlock() }
	// writer
	go func() {
		var buf []part
		flush := func() {
			for _, p := range buf {
				server <- p
			}
			if len(buf) > 0 {
				note("flush %d entries", len(buf))
			}
			buf = buf[:0]
		}
		for {
			one, multi, ch := q.NextWriteCmd()
			if ch == nil {
				flush()
				one, multi, ch = q.WaitForWrite()
			}
			n, id := 1, 0
			if multi != nil {
				n, id = len(multi), cmdID(multi[0])
			} else {
				id = cmdID(one)
			}
			for i := 0; i < n; i++ {
				if len(buf) == bufCap {
					flush()
				}
				buf = append(buf, part{id, i, n})
				spin(150)
			}
			note("wrote command %d (%d parts), %d entries buffered", id, n, len(buf))
			if id == sentinel {
				flush()
				return
			}
		}
	}()
	// reader
	go func() {
		var ch chan rueidis.RedisResult
		for p := range server {
			if p.idx == 0 {
				one, multi, c2, _ := q.NextResultCh()
				if multi != nil {
					one = multi[0]
				}
				if c2 == nil || cmdID(one) != p.id {
					note("reader: reply of command %d but NextResultCh yields %d", p.id, cmdID(one))
				}
				ch = c2
			}
			if p.idx == p.total-1 && ch != nil {
				ch <- rueidis.VerifResult(p.id)
				q.FinishResult()
				if p.id == sentinel {
					return
				}
			}
		}
	}()
	done := make(chan struct{})
	go func() {
		var wg sync.WaitGroup
		enq := make(chan struct{}, 4)
		put := func(id, n int) {
			defer wg.Done()
			var ch chan rueidis.RedisResult
			if n > 1 {
				cmds := make([]rueidis.Completed, n)
				for i := range cmds {
					cmds[i] = rueidis.VerifCmd(id)
				}
				ch, _ = q.PutMulti(context.Background(), cmds, make([]rueidis.RedisResult, n))
			} else {
				ch, _ = q.PutOne(context.Background(), rueidis.VerifCmd(id))
			}
			enq <- struct{}{}
			<-ch
			note("command %d answered", id)
		}
		wg.Add(2)
		go put(1, 3)
		<-enq // the batch has its ticket and sits in slot 1
		go put(2, 1)
		wg.Wait()
		wg.Add(1)
		go put(sentinel, 1)
		wg.Wait()
		close(done)
	}()
	stuck := false
	select {
	case <-done:
	case <-time.After(3 * time.Second):
		stuck = true
	}
	mu.Lock()
	res.Obs = map[string]any{"log": log, "stuck": stuck}
	mu.Unlock()
	if stuck {
		res.Oracle = "a batch larger than the write buffer and one more command on a 2-slot ring: nobody is answered within 3s (the writer is blocked in NextWriteCmd on the slot the reader holds while the rest of the batch sits in its buffer)"
		stuckRuns++
	}
	return res
}
