package main

func translateFlow(c Case, info *runInfo) (string, string, map[string]int) {
	return "", "flowbuffer translation not implemented yet", map[string]int{}
}
