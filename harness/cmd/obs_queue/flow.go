package main

import (
	"fmt"
	"strings"
)

// translateFlow turns the flowbuffer trace into Flow.tstep terms.
//
// Sends are recorded atomically with the channel operation (verifSeqLock .. verifEvUnlock), so the
// recorded order of sends on one channel is the channel's FIFO order.  Receives are recorded after the
// operation; receives from f by concurrent putters can therefore be recorded in another order than they
// happened.  The real order is the order of the tokens in f, which the sends determine: FTake labels are
// emitted in that order, each no later than the first recorded event of its putter.
// flowDigit packs one step: kind (4 bits), p (12), token+1 (6), item+1 (13)
func flowDigit(kind, p, tok, item int) uint64 {
	return uint64(kind) | uint64(p)<<4 | uint64(tok+1)<<16 | uint64(item+1)<<22
}

func translateFlow(c Case, info *runInfo) (string, string, map[string]int, string, int) {
	evs := info.evs
	n := 1 << c.Factor
	kinds := map[string]int{}
	// the sequence of tokens that pass through f
	fseq := make([]int, 0, n+len(evs))
	for i := 0; i < n; i++ {
		fseq = append(fseq, i)
	}
	for _, e := range evs {
		if e.Kind == evFPutF {
			fseq = append(fseq, e.A)
		}
	}
	// the k-th take of token t is the k-th occurrence of t in fseq
	occIdx := map[int][]int{}
	for i, t := range fseq {
		occIdx[t] = append(occIdx[t], i)
	}
	seenTok := map[int]int{}
	realIdx := map[int]int{} // command id -> index in fseq (0-based)
	for _, e := range evs {
		if e.Kind == evFTake {
			k := seenTok[e.B]
			if k >= len(occIdx[e.B]) {
				return "", fmt.Sprintf("token %d was taken from f more often than it was put there", e.B), kinds, "", 0
			}
			realIdx[e.A] = occIdx[e.B][k]
			seenTok[e.B] = k + 1
		}
	}
	// every index below the largest one must have been taken (f is a FIFO)
	byIdx := map[int]int{}
	for cid, i := range realIdx {
		byIdx[i] = cid
	}
	for i := 0; i < len(byIdx); i++ {
		if _, ok := byIdx[i]; !ok {
			return "", fmt.Sprintf("the %d-th token of f was skipped", i), kinds, "", 0
		}
	}
	putter := func(cid int) int { return realIdx[cid] + 1 }
	var out []string
	var ds []uint64
	emit := func(s string, d uint64) {
		out = append(out, s)
		ds = append(ds, d)
		kinds[strings.Fields(strings.Trim(strings.TrimPrefix(strings.TrimPrefix(s, "mkt "), "mk "), "()"))[0]]++
	}
	emitted := 0
	need := func(cid int) {
		for emitted < putter(cid) {
			emit(fmt.Sprintf("mkt FTake %d %d", fseq[emitted], emitted+1), flowDigit(0, 0, fseq[emitted], emitted+1))
			emitted++
		}
	}
	chanItem := map[int]int{} // token -> putter whose command travels with it
	for _, e := range evs {
		switch e.Kind {
		case evFTake:
			need(e.A)
		case evFPutW:
			need(e.A)
			chanItem[e.B] = putter(e.A)
			emit(fmt.Sprintf("mkt (FPutW %d) %d %d", putter(e.A), e.B, putter(e.A)), flowDigit(1, putter(e.A), e.B, putter(e.A)))
		case evFWTake:
			emit(fmt.Sprintf("mkt FWTake %d %d", e.A, chanItem[e.A]), flowDigit(2, 0, e.A, chanItem[e.A]))
		case evFPutR:
			emit(fmt.Sprintf("mkt FPutR %d %d", e.A, chanItem[e.A]), flowDigit(3, 0, e.A, chanItem[e.A]))
		case evFRTake:
			emit(fmt.Sprintf("mkt FRTake %d %d", e.A, chanItem[e.A]), flowDigit(4, 0, e.A, chanItem[e.A]))
		case hvDeliver:
			p := putter(e.A)
			emit(fmt.Sprintf("mkt (FDeliver %d) %d %d", p, info.fillSlot[e.A], p), flowDigit(5, p, info.fillSlot[e.A], p))
		case evFPutF:
			emit(fmt.Sprintf("mkt FPutF %d %d", e.A, chanItem[e.A]), flowDigit(6, 0, e.A, chanItem[e.A]))
		case evFWNone, evFRNone, hvWItem, hvRItem, hvFCancel, hvWTuple, hvRTuple, hvRResps:
		default:
			return "", fmt.Sprintf("unexpected event kind %d in a flowbuffer trace", e.Kind), kinds, "", 0
		}
	}
	return strings.Join(out, "; "), "", kinds, encodeDigits(ds), len(ds)
}
