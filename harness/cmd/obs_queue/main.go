// obs_queue: C02 — runs the real pipeline queue (ring.go or flowbuffer.go, built with -tags verif)
// with P concurrent putters, one writer loop and one reader loop on tiny queues (2 or 4 slots, the
// ring's uint32 counters optionally started just below 2^32), records the event trace emitted by the
// hooks and prints it as a Gallina `Ring.case` / `Flow.case` for replay through the LTS.
//
// Direct oracles on the implementation (independent of the Coq model):
//   - every command that was put is dequeued by the writer exactly once;
//   - per slot (ring) / globally (flowbuffer) the writer dequeues in the order the slots were filled,
//     and the reader completes in the writer's order;
//   - each caller receives the result of its own command, on the channel PutOne/PutMulti returned;
//   - nobody is left blocked (putter, writer, reader) when all commands have been answered.
package main

import (
	"context"
	"crypto/sha1"
	"encoding/json"
	"flag"
	"fmt"
	"sort"
	"strconv"
	"strings"
	"sync"
	"sync/atomic"
	"time"

	"github.com/redis/rueidis"

	"verifharness/gen"
	"verifharness/obs"
)

var queueKind = flag.String("queue", "ring", "ring | flow")

// hook event kinds (zz_verif_lts_ev.go)
const (
	evPutTicket   = 30
	evPutPark     = 31
	evPutFill     = 32
	evPutBcastPre = 33
	evWNext       = 34
	evWPark       = 35
	evWWake       = 36
	evWTake       = 37
	evRNext       = 38
	evRUnlock     = 39
	evRSigPre     = 40
	evWNextBusy   = 41
	evFTake       = 50
	evFPutW       = 51
	evFWTake      = 52
	evFPutR       = 53
	evFWNone      = 54
	evFRTake      = 55
	evFRNone      = 56
	evFPutF       = 57
	// harness events
	hvWItem    = 110 // a = command id the writer dequeued (after the call returned)
	hvRItem    = 111 // a = command id NextResultCh returned
	hvDeliver  = 112 // a = command id whose result was handed over (after the channel send completed)
	hvFCancel  = 113 // a = command id: PutOne returned the context error (flowbuffer only)
	hvFDeliver = 114
	hvWTuple   = 115 // a = id of the returned `one` (-1 = zero value), b = id of the returned `multi` (-1 = nil)
	hvRTuple   = 116 // same for NextResultCh
	hvRResps   = 117 // a = tag of the returned `resps` (-1 = nil)
)

type Case struct {
	Queue    string `json:"queue"`
	Factor   int    `json:"factor"` // 2^factor slots
	Start    uint32 `json:"start"`  // initial value of the ring counters
	Putters  int    `json:"putters"`
	Each     int    `json:"each"`
	Multi    int    `json:"multi"`  // 1 in n puts use PutMulti
	Detach   int    `json:"detach"` // 1 in n callers stop waiting (cancelled context) and drain in the background
	Poll     int    `json:"poll"`   // 1 in n reader iterations poll NextResultCh although no reply is due
	WDelayUs int    `json:"wdelay"` // writer delay per command
	RDelayUs int    `json:"rdelay"` // reader delay per reply
	PDelayUs int    `json:"pdelay"` // putter think time
	Cancel   int    `json:"cancel"` // flowbuffer: 1 in n puts use a context that is cancelled while waiting for a free token
	Seed     uint64 `json:"seed"`
}

func genCase(r *gen.Rand, i int) any {
	if i == 0 && *queueKind == "ring" {
		return Case{Queue: "ring-buffered", Factor: 1}
	}
	c := Case{Queue: *queueKind, Factor: gen.Pick(r, []int{1, 1, 2}), Putters: r.Range(1, 6), Each: r.Range(1, 5), Seed: r.U64()}
	if r.Chance(1, 5) {
		c.Putters = r.Range(6, 12) // more than 2N callers: two tickets parked on one slot
		c.Each = r.Range(1, 3)
	}
	c.Start = gen.Pick(r, []uint32{0, 0, 1, 7, 0xffffffff, 0xfffffffe, 0xfffffffd, 0xfffffff9, 0x7fffffff})
	c.Multi = gen.Pick(r, []int{0, 2, 2, 3}) // mixed PutOne / PutMulti: a PutOne re-uses a slot a PutMulti used one lap before
	c.Detach = gen.Pick(r, []int{0, 0, 3, 5})
	c.Poll = gen.Pick(r, []int{0, 0, 2, 4})
	c.WDelayUs = gen.Pick(r, []int{0, 0, 5, 30, 100})
	c.RDelayUs = gen.Pick(r, []int{0, 0, 5, 30, 100})
	c.PDelayUs = gen.Pick(r, []int{0, 0, 10, 50})
	if c.Queue == "flow" {
		c.Cancel = gen.Pick(r, []int{0, 3, 5})
		c.Start = 0
	}
	return c
}

func decode(raw json.RawMessage) (any, error) {
	var c Case
	if err := json.Unmarshal(raw, &c); err != nil {
		return nil, err
	}
	if c.Factor <= 0 {
		c.Factor = 1
	}
	if c.Queue == "" {
		c.Queue = *queueKind
	}
	return c, nil
}

// cmdID reads the id of a dequeued command; a zero Completed (a queue that hands out an empty slot)
// must not crash the observer
func cmdID(one rueidis.Completed) (id int) {
	defer func() {
		if recover() != nil {
			id = -1
		}
	}()
	return rueidis.VerifCmdID(one)
}

// payloadIDs identifies what a queue call returned: the id of `one` (-1 = zero Completed), the id of multi[0]
// (-1 = nil slice) and the tag the PutMulti caller stored in resps[0] (-1 = nil slice)
func payloadIDs(one rueidis.Completed, multi []rueidis.Completed, resps []rueidis.RedisResult) (o, m, r int) {
	o, m, r = -1, -1, -1
	if !one.IsEmpty() {
		o = cmdID(one)
	}
	if multi != nil {
		m = -3
		if len(multi) > 0 {
			m = cmdID(multi[0])
		}
	}
	if resps != nil {
		r = -3
		if len(resps) > 0 {
			r = rueidis.VerifResultID(resps[0])
		}
	}
	return
}

// ownPayload is what the putter of command id supplied
func (info *runInfo) ownPayload(id int) (o, m, r int) {
	if info.isMulti[id] {
		return -1, id, id
	}
	return id, -1, -1
}

func spin(us int) {
	if us <= 0 {
		return
	}
	if us >= 100 {
		time.Sleep(time.Duration(us) * time.Microsecond)
		return
	}
	for t := time.Now(); time.Since(t) < time.Duration(us)*time.Microsecond; {
	}
}

type runInfo struct {
	evs       []rueidis.VerifEvent
	problems  []string
	stuck     bool
	total     int   // commands put successfully (including the sentinel)
	cancelled []int // flowbuffer: command ids whose put was cancelled
	wOrder    []int
	rOrder    []int
	fillSlot  map[int]int // command id -> channel id returned by Put
	isMulti   map[int]bool
}

const sentinel = 1 << 20

func runQueue(c Case) *runInfo {
	info := &runInfo{fillSlot: map[int]int{}, isMulti: map[int]bool{}}
	var mu sync.Mutex
	problem := func(f string, a ...any) {
		mu.Lock()
		info.problems = append(info.problems, fmt.Sprintf(f, a...))
		mu.Unlock()
	}
	var q *rueidis.VerifQueue
	if c.Queue == "flow" {
		q = rueidis.NewVerifFlow(c.Factor)
	} else {
		q = rueidis.NewVerifRing(c.Factor, c.Start)
	}
	defer q.Forget()
	rueidis.VerifTraceStart()
	server := make(chan int, 1<<16)
	var wg, bg sync.WaitGroup
	var putOK atomic.Int64

	// writer loop (pipe._backgroundWrite)
	wdone := make(chan struct{})
	go func() {
		defer close(wdone)
		for {
			one, multi, ch := q.NextWriteCmd()
			if ch == nil {
				one, multi, ch = q.WaitForWrite()
			}
			wo, wm, _ := payloadIDs(one, multi, nil)
			if multi != nil {
				one = multi[0]
			}
			id := cmdID(one)
			if id < 0 {
				problem("exactly-once: the writer was handed an empty command")
				return
			}
			rueidis.VerifEmit(hvWItem, id, 0)
			rueidis.VerifEmit(hvWTuple, wo, wm)
			mu.Lock()
			info.wOrder = append(info.wOrder, id)
			if eo, em, _ := info.ownPayload(id); eo != wo || em != wm {
				info.problems = append(info.problems, fmt.Sprintf("payload-own: the writer was handed (one=%d, multi=%d) for command %d, its caller supplied (one=%d, multi=%d)", wo, wm, id, eo, em))
			}
			mu.Unlock()
			spin(c.WDelayUs)
			server <- id
			if id == sentinel {
				return
			}
		}
	}()
	// reader loop (pipe._backgroundRead; the spurious polls are what the clean-up loop of _background does)
	rdone := make(chan struct{})
	go func() {
		defer close(rdone)
		rr := gen.New(c.Seed ^ 0x5eed)
		for {
			if c.Poll > 0 && rr.Intn(c.Poll) == 0 {
				one, multi, ch, resps := q.NextResultCh()
				if ch == nil {
					q.FinishResult()
					continue
				}
				if !finish(q, one, multi, resps, ch, server, info, &mu, problem) {
					return
				}
				continue
			}
			select {
			case id := <-server:
				// a reply arrived: its slot must be there
				server2 := make(chan int, 1)
				server2 <- id
				one, multi, ch, resps := q.NextResultCh()
				if ch == nil {
					q.FinishResult()
					problem("reader: NextResultCh returned nothing although command %d was written", id)
					return
				}
				spin(c.RDelayUs)
				if !finish(q, one, multi, resps, ch, server2, info, &mu, problem) {
					return
				}
			}
		}
	}()
	// putters
	for pi := 0; pi < c.Putters; pi++ {
		wg.Add(1)
		go func(pi int) {
			defer wg.Done()
			pr := gen.New(c.Seed + uint64(pi)*7919)
			for j := 0; j < c.Each; j++ {
				id := (pi+1)*1000 + j + 1
				spin(pr.Intn(c.PDelayUs + 1))
				ctx := context.Background()
				var cancel context.CancelFunc
				if c.Queue == "flow" && c.Cancel > 0 && pr.Intn(c.Cancel) == 0 {
					ctx, cancel = context.WithCancel(ctx)
					d := time.Duration(pr.Intn(60)) * time.Microsecond
					tm := time.AfterFunc(d, cancel)
					defer tm.Stop()
				}
				var ch chan rueidis.RedisResult
				var err error
				if c.Multi > 0 && pr.Intn(c.Multi) == 0 {
					cmds := []rueidis.Completed{rueidis.VerifCmd(id), rueidis.VerifCmd(id)}
					resps := make([]rueidis.RedisResult, 2)
					resps[0] = rueidis.VerifResult(id) // tag: identifies this caller's result slice
					mu.Lock()
					info.isMulti[id] = true
					mu.Unlock()
					ch, err = q.PutMulti(ctx, cmds, resps)
				} else {
					ch, err = q.PutOne(ctx, rueidis.VerifCmd(id))
				}
				if cancel != nil {
					defer cancel()
				}
				if err != nil {
					rueidis.VerifEmit(hvFCancel, id, 0)
					mu.Lock()
					info.cancelled = append(info.cancelled, id)
					mu.Unlock()
					continue
				}
				putOK.Add(1)
				mu.Lock()
				info.fillSlot[id] = rueidis.VerifChanID(ch)
				mu.Unlock()
				recv := func() {
					res := <-ch
					if got := rueidis.VerifResultID(res); got != id {
						problem("own-result: caller of command %d received the result of command %d", id, got)
					}
				}
				if c.Detach > 0 && pr.Intn(c.Detach) == 0 {
					// the caller's context is cancelled: pipe.Do leaves a goroutine behind that drains the channel
					bg.Add(1)
					go func() { defer bg.Done(); spin(pr.Intn(80)); recv() }()
				} else {
					recv()
				}
			}
		}(pi)
	}
	fin := make(chan struct{})
	go func() {
		wg.Wait()
		bg.Wait()
		// pipe unblocks its writer with a sacrificial command
		ch, _ := q.PutOne(context.Background(), rueidis.VerifCmd(sentinel))
		putOK.Add(1)
		mu.Lock()
		info.fillSlot[sentinel] = rueidis.VerifChanID(ch)
		mu.Unlock()
		<-ch
		<-wdone
		<-rdone
		close(fin)
	}()
	select {
	case <-fin:
	case <-time.After(5 * time.Second):
		info.stuck = true
	}
	info.evs = rueidis.VerifTraceStop()
	info.total = int(putOK.Load())
	return info
}

func finish(q *rueidis.VerifQueue, one rueidis.Completed, multi []rueidis.Completed, resps []rueidis.RedisResult, ch chan rueidis.RedisResult, server chan int,
	info *runInfo, mu *sync.Mutex, problem func(string, ...any)) bool {
	ro, rm, rr := payloadIDs(one, multi, resps)
	if multi != nil {
		one = multi[0]
	}
	cid := cmdID(one)
	rueidis.VerifEmit(hvRItem, cid, 0)
	rueidis.VerifEmit(hvRTuple, ro, rm)
	rueidis.VerifEmit(hvRResps, rr, 0)
	id := <-server // the reply the server sent for the next written command
	if id != cid {
		problem("reader-order: reply for command %d arrives but NextResultCh yields the slot of command %d", id, cid)
	}
	mu.Lock()
	info.rOrder = append(info.rOrder, cid)
	if eo, em, er := info.ownPayload(id); eo != ro || em != rm || er != rr {
		info.problems = append(info.problems, fmt.Sprintf("payload-own: NextResultCh returned (one=%d, multi=%d, resps=%d) for command %d, its caller supplied (one=%d, multi=%d, resps=%d): the reader would write this reply into another call's result slice", ro, rm, rr, id, eo, em, er))
	}
	mu.Unlock()
	ch <- rueidis.VerifResult(id)
	rueidis.VerifEmit(hvDeliver, cid, 0)
	q.FinishResult()
	return id != sentinel
}

func (info *runInfo) oracle(c Case) (string, string) {
	var ps []string
	cls := ""
	add := func(k, m string) {
		ps = append(ps, m)
		if cls == "" {
			cls = k
		}
	}
	if info.stuck {
		add("stuck", "putters / writer / reader still blocked 5s after the last command was put")
	}
	for _, p := range info.problems {
		add(strings.SplitN(p, ":", 2)[0], p)
	}
	if !info.stuck {
		seen := map[int]int{}
		for _, id := range info.wOrder {
			seen[id]++
		}
		for id := range info.fillSlot {
			if seen[id] != 1 {
				add("exactly-once", fmt.Sprintf("command %d was handed to the writer %d times", id, seen[id]))
			}
		}
		if len(info.wOrder) != len(info.fillSlot) {
			add("exactly-once", fmt.Sprintf("%d commands put, %d dequeued by the writer", len(info.fillSlot), len(info.wOrder)))
		}
		if fmt.Sprint(info.wOrder) != fmt.Sprint(info.rOrder) {
			add("reader-order", "the reader completed commands in another order than the writer dequeued them")
		}
		// position order: the order of fills per slot (ring) / of sends to w (flow) must be the order of dequeues
		fills := map[int][]int{}
		deqs := map[int][]int{}
		if c.Queue == "ring" {
			slotOf := map[int]int{}
			for _, e := range info.evs {
				switch e.Kind {
				case evPutTicket:
					slotOf[e.A] = e.B
				case evPutFill:
					fills[slotOf[e.A]] = append(fills[slotOf[e.A]], e.A)
				}
			}
			for _, id := range info.wOrder {
				deqs[slotOf[id]] = append(deqs[slotOf[id]], id)
			}
			for id, chid := range info.fillSlot {
				if chid != slotOf[id] {
					add("slot-owner", fmt.Sprintf("command %d filled slot %d but got the channel of slot %d", id, slotOf[id], chid))
				}
			}
		} else {
			for _, e := range info.evs {
				if e.Kind == evFPutW {
					fills[0] = append(fills[0], e.A)
				}
			}
			deqs[0] = info.wOrder
		}
		for s := range fills {
			if fmt.Sprint(fills[s]) != fmt.Sprint(deqs[s]) {
				add("position-order", fmt.Sprintf("slot %d was filled in order %v but dequeued in order %v", s, fills[s], deqs[s]))
			}
		}
	}
	return strings.Join(ps, " | "), cls
}

// ---- ring trace -> Gallina ----

type outLabel struct {
	after int // emitted after all labels of event index `after` (and before those of after+1)
	sub   int
	text  string
	digit uint64
}

// ringDigit packs one step: kind (4 bits), p (12), s (4), code+1 or 0 (2), item+1 or 0 (13)
func ringDigit(kind, p, s, code, item int) uint64 {
	return uint64(kind) | uint64(p)<<4 | uint64(s)<<16 | uint64(code+1)<<20 | uint64(item+1)<<22
}

// withMulti sets the PutMulti flag of a PutLock digit
func withMulti(d uint64, m bool) uint64 {
	if m {
		d |= 1 << 35
	}
	return d
}

// withTuple adds the returned (one, multi, resps) as ticket numbers (-1 = nil / zero value)
func withTuple(d uint64, t [3]int) uint64 {
	d |= 1 << 36
	for i, v := range t {
		if v > 254 {
			v = 254
		}
		d |= uint64(v+1) << (37 + 8*uint(i))
	}
	return d
}

func optTerm(v int) string {
	if v < 0 {
		return "None"
	}
	return fmt.Sprintf("(Some %d%%nat)", v)
}

func tupleTerm(t [3]int) string {
	return fmt.Sprintf("(%s, %s, %s)", optTerm(t[0]), optTerm(t[1]), optTerm(t[2]))
}

func encodeDigits(ds []uint64) string {
	ss := make([]string, len(ds))
	for i, d := range ds {
		ss[i] = strconv.FormatUint(d, 10)
	}
	return "[" + strings.Join(ss, ";") + "]"
}

func translateRing(c Case, info *runInfo) (string, string, map[string]int, string, int) {
	evs := info.evs
	n := 1 << c.Factor
	kinds := map[string]int{}
	// 1. ticket numbers: the j-th ticket belongs to slot (start + j) mod n
	ticket := map[int]int{} // command id -> ticket number
	var tevs []int
	for i, e := range evs {
		if e.Kind == evPutTicket {
			tevs = append(tevs, i)
		}
	}
	used := make([]bool, len(tevs))
	for j := 1; j <= len(tevs); j++ {
		want := int((uint64(c.Start) + uint64(j)) % uint64(n))
		found := false
		for x, i := range tevs {
			if !used[x] && evs[i].B == want {
				used[x] = true
				ticket[evs[i].A] = j
				found = true
				break
			}
		}
		if !found {
			return "", fmt.Sprintf("ticket %d should be on slot %d but no caller got that slot", j, want), kinds, "", 0
		}
	}
	slotOfTicket := func(j int) int { return int((uint64(c.Start) + uint64(j)) % uint64(n)) }
	// 2. items seen by writer / reader
	var wItems, rItems []int
	var wTuples, rTuples [][3]int
	tk := func(id int) int { // command id -> ticket; nil stays nil; an id nobody put is an impossible ticket
		if id == -1 {
			return -1
		}
		if t, ok := ticket[id]; ok {
			return t
		}
		return 254
	}
	for _, e := range evs {
		switch e.Kind {
		case hvWItem:
			wItems = append(wItems, ticket[e.A])
		case hvRItem:
			rItems = append(rItems, ticket[e.A])
		case hvWTuple:
			wTuples = append(wTuples, [3]int{tk(e.A), tk(e.B), -1})
		case hvRTuple:
			rTuples = append(rTuples, [3]int{tk(e.A), tk(e.B), -1})
		case hvRResps:
			rTuples[len(rTuples)-1][2] = tk(e.A)
		}
	}
	if len(wTuples) != len(wItems) || len(rTuples) != len(rItems) {
		return "", "the harness events of the writer / reader are incomplete", kinds, "", 0
	}
	// 3. putter episodes (park .. retry) and reader signals per slot
	type episode struct{ p, a, b, sig int }
	type signal struct{ u, v, s, ep int }
	var eps []*episode
	var sigs []*signal
	open := map[int]*episode{} // ticket -> open episode
	var lastSig *signal
	for i, e := range evs {
		switch e.Kind {
		case evPutPark:
			p := ticket[e.A]
			if ep := open[p]; ep != nil {
				ep.b = i
			}
			ep := &episode{p: p, a: i, b: len(evs) + 1, sig: -1}
			open[p] = ep
			eps = append(eps, ep)
		case evPutFill:
			p := ticket[e.A]
			if ep := open[p]; ep != nil {
				ep.b = i
				delete(open, p)
			}
		case evRSigPre:
			lastSig = &signal{u: i, v: len(evs) + 1, s: e.A, ep: -1}
			sigs = append(sigs, lastSig)
		case evRNext:
			if lastSig != nil && lastSig.v > i {
				lastSig.v = i
			}
		}
	}
	for _, sg := range sigs {
		best := -1
		for x, ep := range eps {
			if ep.sig >= 0 || slotOfTicket(ep.p) != sg.s {
				continue
			}
			lo := ep.a
			if sg.u > lo {
				lo = sg.u
			}
			hi := ep.b
			if sg.v < hi {
				hi = sg.v
			}
			if lo < hi && (best < 0 || ep.b < eps[best].b) {
				best = x
			}
		}
		if best >= 0 {
			eps[best].sig = sg.u
			sg.ep = best
		}
	}
	// 4. emit
	var out []outLabel
	sub := 0
	emitAt := func(after int, text string, digit uint64) {
		sub++
		out = append(out, outLabel{after: after, sub: sub, text: text, digit: digit})
		kinds[strings.Fields(strings.Trim(strings.TrimPrefix(strings.TrimPrefix(strings.TrimPrefix(strings.TrimPrefix(text, "mkt "), "mki "), "mkc "), "mk "), "()"))[0]]++
	}
	ticketsEmitted := 0
	needTicket := func(i, p int) {
		for ticketsEmitted < p {
			ticketsEmitted++
			emitAt(i-1, "mk PutTicket", ringDigit(0, 0, 0, -1, -1))
		}
	}
	wi, ri := 0, 0
	inWait, woke := false, false
	for i, e := range evs {
		switch e.Kind {
		case evPutTicket:
			// the labels are anonymous: the j-th label creates putter j; emit one per event unless already emitted ahead
			needTicket(i+1, ticketsEmittedTarget(&ticketsEmitted, evs, i))
		case evPutPark:
			p := ticket[e.A]
			needTicket(i, p)
			emitAt(i, fmt.Sprintf("mkc (PutLock %d %d %s) 0", p, slotOfTicket(p), obs.Bool(info.isMulti[e.A])), withMulti(ringDigit(1, p, slotOfTicket(p), 0, -1), info.isMulti[e.A]))
		case evPutFill:
			p := ticket[e.A]
			needTicket(i, p)
			emitAt(i, fmt.Sprintf("mki (PutLock %d %d %s) %d %d", p, slotOfTicket(p), obs.Bool(info.isMulti[e.A]), 1+e.B, p), withMulti(ringDigit(1, p, slotOfTicket(p), 1+e.B, p), info.isMulti[e.A]))
		case evPutBcastPre:
			// the putter that just filled this slot with slept = true
			p := 0
			for j := i - 1; j >= 0; j-- {
				if evs[j].Kind == evPutFill && slotOfTicket(ticket[evs[j].A]) == e.A && evs[j].B == 1 {
					p = ticket[evs[j].A]
					break
				}
			}
			emitAt(i, fmt.Sprintf("mk (PutBcast %d %d)", p, e.A), ringDigit(2, p, e.A, -1, -1))
		case evWNext:
			if e.B == 1 {
				emitAt(i, fmt.Sprintf("mkt WNext 1 %d %s", wItems[wi], tupleTerm(wTuples[wi])), withTuple(ringDigit(3, 0, 0, 1, wItems[wi]), wTuples[wi]))
				wi++
			} else {
				emitAt(i, "mkc WNext 0", ringDigit(3, 0, 0, 0, -1))
			}
		case evWNextBusy:
			emitAt(i, "mk WNextBusy", ringDigit(11, 0, 0, -1, -1))
		case evWPark:
			if !inWait {
				emitAt(i, "mkc WWaitEnter 0", ringDigit(4, 0, 0, 0, -1))
				inWait = true
			} else {
				emitAt(i, "mkc WWaitRetry 0", ringDigit(5, 0, 0, 0, -1))
			}
			woke = false
		case evWWake:
			woke = true
		case evWTake:
			if inWait {
				emitAt(i, fmt.Sprintf("mkt WWaitRetry 1 %d %s", wItems[wi], tupleTerm(wTuples[wi])), withTuple(ringDigit(5, 0, 0, 1, wItems[wi]), wTuples[wi]))
			} else {
				emitAt(i, fmt.Sprintf("mkt WWaitEnter 1 %d %s", wItems[wi], tupleTerm(wTuples[wi])), withTuple(ringDigit(4, 0, 0, 1, wItems[wi]), wTuples[wi]))
			}
			wi++
			inWait, woke = false, false
		case evRNext:
			if e.B == 1 {
				emitAt(i, fmt.Sprintf("mkt RNext 1 %d %s", rItems[ri], tupleTerm(rTuples[ri])), withTuple(ringDigit(6, 0, 0, 1, rItems[ri]), rTuples[ri]))
				ri++
			} else {
				emitAt(i, "mkc RNext 0", ringDigit(6, 0, 0, 0, -1))
			}
		case hvDeliver:
			emitAt(i, fmt.Sprintf("mki (RDeliver %d) 1 %d", ticket[e.A], ticket[e.A]), ringDigit(7, ticket[e.A], 0, 1, ticket[e.A]))
		case evRUnlock:
			emitAt(i, "mk RUnlock", ringDigit(8, 0, 0, -1, -1))
		case evRSigPre, hvWItem, hvRItem, hvWTuple, hvRTuple, hvRResps:
		default:
			return "", fmt.Sprintf("unexpected event kind %d in a ring trace", e.Kind), kinds, "", 0
		}
	}
	_ = woke
	for _, sg := range sigs {
		if sg.ep < 0 {
			emitAt(sg.u, "mk (RSignal None)", ringDigit(9, 0, 0, -1, -1))
		} else {
			pos := sg.u
			if eps[sg.ep].a > pos {
				pos = eps[sg.ep].a
			}
			emitAt(pos, fmt.Sprintf("mk (RSignal (Some %d%%nat))", eps[sg.ep].p), ringDigit(10, eps[sg.ep].p, 0, -1, -1))
		}
	}
	sort.SliceStable(out, func(a, b int) bool {
		if out[a].after != out[b].after {
			return out[a].after < out[b].after
		}
		return out[a].sub < out[b].sub
	})
	ss := make([]string, len(out))
	ds := make([]uint64, len(out))
	for i, o := range out {
		ss[i] = o.text
		ds[i] = o.digit
	}
	return strings.Join(ss, "; "), "", kinds, encodeDigits(ds), len(ds)
}

// ticketsEmittedTarget: at a PutTicket event one more label is due unless labels were emitted ahead.
func ticketsEmittedTarget(emitted *int, evs []rueidis.VerifEvent, i int) int {
	seen := 0
	for j := 0; j <= i; j++ {
		if evs[j].Kind == evPutTicket {
			seen++
		}
	}
	if seen > *emitted {
		return seen
	}
	return *emitted
}

// after a few stuck executions the remaining cases are skipped: every stuck case costs its time-out and
// leaves blocked goroutines behind, and the verdict is already decided
var stuckRuns int

func run(ci any) (res obs.Result) {
	c := ci.(Case)
	if stuckRuns >= 3 {
		return obs.Result{Kind: "skipped-after-stuck", Sig: "skipped"}
	}
	if c.Queue == "ring-buffered" {
		return runBuffered(c)
	}
	info := runQueue(c)
	if info.stuck {
		stuckRuns++
	}
	res.Kind = c.Queue
	res.Site = c.Queue + ".go"
	if c.Queue == "flow" {
		res.Site = "flowbuffer.go"
	}
	res.Oracle, res.Class = info.oracle(c)
	parks := 0
	for _, e := range info.evs {
		if e.Kind == evPutPark || e.Kind == evWPark {
			parks++
		}
	}
	res.Nontrivial = info.total > 1
	res.Obs = map[string]any{"events": len(info.evs), "commands": info.total, "parks": parks, "cancelled": len(info.cancelled), "stuck": info.stuck}
	if info.stuck {
		return res
	}
	var body, terr, enc string
	var kinds map[string]int
	var nsteps int
	_ = nsteps
	if c.Queue == "flow" {
		body, terr, kinds, enc, nsteps = translateFlow(c, info)
	} else {
		body, terr, kinds, enc, nsteps = translateRing(c, info)
	}
	ks := make([]string, 0, len(kinds))
	for k, n := range kinds {
		ks = append(ks, fmt.Sprintf("%s=%d", k, n))
	}
	sort.Strings(ks)
	res.Obs.(map[string]any)["labels"] = strings.Join(ks, " ")
	res.Sig = fmt.Sprintf("%x", sha1.Sum([]byte(body)))
	if terr != "" {
		res.Oracle += " | trace: " + terr
		res.Class = "trace"
		return res
	}
	// the readable trace (Ring.tstep / Flow.tstep terms) is kept in the observation; the model gets the compact encoding
	if len(body) > 6000 {
		body = body[:6000] + " ..."
	}
	res.Obs.(map[string]any)["trace"] = body
	if c.Queue == "flow" {
		res.Coq = fmt.Sprintf("(FlowEnc %d%%nat %s%%N %d%%nat)", c.Factor, enc, info.total)
	} else {
		res.Coq = fmt.Sprintf("(RingEnc %d%%nat %d%%N %s%%N %d%%nat)", c.Factor, c.Start, enc, info.total)
	}
	return res
}

func main() {
	obs.Main(obs.Runner{Name: "obs_queue", Salt: 0x02, Gen: genCase, Decode: decode, Run: run})
}
