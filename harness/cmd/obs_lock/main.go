// obs_lock: C34 — rueidislock lockers (separate clients) on one fake server running the real lock scripts
// under mini-Lua.  A case is a scripted scenario: TryWithContext / ForceWithContext / WithContext calls on
// several lockers, unlocks, deletions of keys by somebody else, clock jumps that expire keys, injected
// failures of single script round trips.  Every script execution (in the server's total order), every
// harness action and every observation of a lock context becoming done is one step of the recorded run;
// Model/Lock.v replays the run (labels enabled, replies equal, "seen done => cancelled in the model").
// The direct oracle works on the real objects only: at every server step a holder whose context is live
// owns a majority of its keys (unless it just lost keys to somebody else and the slack has not elapsed),
// Unlock leaves no key behind, waiters get the lock after a release.
package main

import (
	"context"
	"crypto/sha1"
	"encoding/hex"
	"encoding/json"
	"fmt"
	"strconv"
	"strings"
	"sync"
	"time"

	"github.com/redis/rueidis"
	"github.com/redis/rueidis/rueidislock"

	"verifharness/addon2"
	"verifharness/fakeredis"
	"verifharness/gen"
	"verifharness/obs"
)

// ---- case description ----

type Step struct {
	Op    string `json:"op"` // try | gotry | join | force | with | unlock | handover | envdel | expire | sleep | fault | settle | close
	L     int    `json:"l,omitempty"`
	Key   int    `json:"key,omitempty"`
	Ms    int    `json:"ms,omitempty"`
	Fault string `json:"fault,omitempty"` // acq-err | acq-slow | ext-err : armed for locker L's next such script on key Key
}

type Case struct {
	Kind     string `json:"kind"` // flow | contend | loss | fault | waiters | samegate | nocsc | noloopoff | close
	M        int    `json:"m"`
	Lockers  int    `json:"lockers"`
	SetPX    bool   `json:"setpx,omitempty"`
	NoCSC    bool   `json:"nocsc,omitempty"`
	LoopBack bool   `json:"loopback,omitempty"` // NoLoopTracking off: the locker is told about its own writes
	Validity int    `json:"validity"`           // ms
	Interval int    `json:"interval"`
	TryNext  int    `json:"trynext"`
	Steps    []Step `json:"steps"`
	NoModel  bool   `json:"nomodel,omitempty"` // oracle only
}

const lockName = "n"
const prefix = "rueidislock"

// every wait is bounded by this; it is only ever used up when something is wrong
var slack = 12 * time.Second

// ---- generators ----

func genCase(r *gen.Rand, i int) any {
	c := Case{M: gen.Pick(r, []int{1, 2, 2, 2, 3}), Lockers: r.Range(2, 4), Validity: 30000, Interval: gen.Pick(r, []int{40, 70, 120}), TryNext: 8000}
	c.SetPX = r.Chance(1, 4)
	switch k := r.Intn(20); {
	case k < 5:
		c.Kind = "flow"
	case k < 9:
		c.Kind = "contend"
	case k < 12:
		c.Kind = "loss"
	case k < 15:
		c.Kind = "fault"
	case k < 16:
		c.Kind = "waiters"
	case k < 18:
		c.Kind = "samegate"
	case k < 19:
		c.Kind = "nocsc"
	default:
		c.Kind = "noloopoff"
	}
	K := 2*c.M - 1
	add := func(s Step) { c.Steps = append(c.Steps, s) }
	nap := func() { add(Step{Op: "sleep", Ms: gen.Pick(r, []int{0, 1, 5, 30, 90})}) }
	switch c.Kind {
	case "flow": // lock / unlock rounds
		for j := r.Range(2, 5); j > 0; j-- {
			l := r.Intn(c.Lockers)
			add(Step{Op: "try", L: l})
			nap()
			if r.Chance(1, 3) {
				add(Step{Op: "try", L: (l + 1) % c.Lockers}) // fails: held by l
			}
			add(Step{Op: "unlock", L: l})
			if r.Chance(1, 2) {
				add(Step{Op: "unlock", L: (l + 1) % c.Lockers})
			}
		}
	case "contend": // the lockers race for the name at the same moment, twice
		for wave := 0; wave < 2; wave++ {
			for l := 0; l < c.Lockers; l++ {
				add(Step{Op: "gotry", L: l})
			}
			add(Step{Op: "join"})
			nap()
			for l := 0; l < c.Lockers; l++ {
				add(Step{Op: "unlock", L: l})
			}
		}
	case "loss": // a holder loses keys to somebody else (DEL), to expiry (clock jump) or to a forced takeover
		add(Step{Op: "try", L: 0})
		nap()
		switch r.Intn(4) {
		case 0: // a minority of the keys: the holder stays
			for j := 0; j < c.M-1; j++ {
				add(Step{Op: "envdel", Key: j})
			}
			add(Step{Op: "sleep", Ms: 60})
			add(Step{Op: "try", L: 1})
		case 1: // a majority
			st := r.Intn(K)
			for j := 0; j < c.M; j++ {
				add(Step{Op: "envdel", Key: (st + j) % K})
			}
			add(Step{Op: "settle", L: 0})
			add(Step{Op: "try", L: 1})
		case 2:
			add(Step{Op: "expire"})
			add(Step{Op: "settle", L: 0})
		default:
			add(Step{Op: "force", L: 1})
			add(Step{Op: "settle", L: 0})
		}
		nap()
		add(Step{Op: "unlock", L: 1})
		add(Step{Op: "unlock", L: 0})
	case "fault": // single script round trips fail
		switch r.Intn(5) {
		case 3: // two steps: a key is lost to somebody else (its monitor leaves with ErrNotLocked, the holder stays live),
			// then the extension of another key fails while a competitor keeps trying: the context must be done
			// before that second key is released
			if c.M < 2 {
				c.M = 2
				K = 3
			}
			k1 := r.Intn(K)
			k2 := (k1 + c.M - 1) % K // the keys k1 .. k1+m-2 go first, k2 is the next one
			add(Step{Op: "try", L: 0})
			add(Step{Op: "sleep", Ms: 20})
			for j := 0; j < c.M-1; j++ { // m-1 keys are lost: one more exit costs the majority
				add(Step{Op: "envdel", Key: (k1 + j) % K})
			}
			for j := 0; j < c.M-1; j++ {
				add(Step{Op: "waitexit", L: 0, Key: (k1 + j) % K})
			}
			add(Step{Op: "fault", L: 0, Key: k2, Fault: "ext-err"})
			add(Step{Op: "spin", L: 1, Ms: c.Interval + 150})
			add(Step{Op: "settle", L: 0})
		case 4: // the same with a key that was held by somebody else when the lock was acquired
			c.NoModel = true
			c.M, K = 2, 3
			add(Step{Op: "envset", Key: 2})
			add(Step{Op: "try", L: 0})
			add(Step{Op: "waitexit", L: 0, Key: 2})
			add(Step{Op: "fault", L: 0, Key: r.Intn(2), Fault: "ext-err"})
			add(Step{Op: "spin", L: 1, Ms: c.Interval + 150})
			add(Step{Op: "settle", L: 0})
			add(Step{Op: "envdel", Key: 2})
		case 0: // an acquisition answers with an error / too late: the next key is tried, the leftover is deleted
			ft := gen.Pick(r, []string{"acq-err", "acq-slow"})
			if ft == "acq-slow" {
				c.TryNext = 300 // the caller gives up on that round trip; the reply is held back much longer
			}
			add(Step{Op: "fault", L: 0, Key: r.Intn(K), Fault: ft})
			add(Step{Op: "try", L: 0})
			nap()
			add(Step{Op: "try", L: 1})
		case 1: // an extension fails: that monitor releases its key
			add(Step{Op: "try", L: 0})
			add(Step{Op: "sleep", Ms: 20})
			add(Step{Op: "fault", L: 0, Key: r.Intn(K), Fault: "ext-err"})
			add(Step{Op: "sleep", Ms: c.Interval + 60})
			add(Step{Op: "try", L: 1})
		default: // a majority of the extensions fail: the context must be done before the release that costs the majority
			add(Step{Op: "try", L: 0})
			add(Step{Op: "sleep", Ms: 20})
			for j := 0; j < c.M; j++ {
				add(Step{Op: "fault", L: 0, Key: j, Fault: "ext-err"})
			}
			add(Step{Op: "settle", L: 0})
			add(Step{Op: "try", L: 1})
		}
		nap()
		add(Step{Op: "unlock", L: 1})
		add(Step{Op: "unlock", L: 0})
	case "waiters", "nocsc", "noloopoff": // WithContext waiters on other lockers get the lock after each release
		c.NoModel = c.Kind != "waiters"
		c.NoCSC = c.Kind == "nocsc"
		c.LoopBack = c.Kind == "noloopoff"
		if c.NoCSC {
			c.TryNext = 60
		}
		add(Step{Op: "try", L: 0})
		for l := 1; l < c.Lockers; l++ {
			add(Step{Op: "with", L: l})
		}
		nap()
		add(Step{Op: "unlock", L: 0})
		for l := 1; l < c.Lockers; l++ {
			add(Step{Op: "handover"}) // wait until one of the waiters holds the lock, then unlock it
		}
	case "samegate": // two waiters of ONE locker behind a holder on another locker: both must get the lock in turn
		c.NoModel = true
		c.Lockers = 2
		add(Step{Op: "try", L: 0})
		add(Step{Op: "with", L: 1})
		add(Step{Op: "with", L: 1})
		nap()
		add(Step{Op: "unlock", L: 0})
		add(Step{Op: "handover"})
		add(Step{Op: "handover"})
	}
	return c
}

// ---- the recorded run ----

type attempt struct {
	id       int
	locker   int
	val      string
	force    bool
	acqs     int // acquire script executions seen
	held     bool
	finished bool // its return has been recorded
	ctx      context.Context
	lastLoss time.Time
	prevOwned  int       // keys it owned after the previous recorded step (-1: not looked at yet)
	belowSince time.Time // since when it is below its majority because of somebody else
	unlockd  bool     // its cancel function has been called
	mon      []string // per key, what the attempt's monitor is doing as far as the recorded steps tell: "" | run | del | exit
	last     []*rstep // per key: the last acquire / extend step
}

type call struct {
	locker int
	kind   string // try | force | with
	done   chan struct{}
	ctx    context.Context
	cancel context.CancelFunc
	stop   context.CancelFunc // parent context of a WithContext call
	err    error
	att    *attempt
	at     time.Time
}

type faultArm struct {
	locker, key int
	kind        string
}

type world struct {
	c       Case
	K       int
	s       *fakeredis.Server
	lockers []rueidislock.Locker
	env     rueidis.Client

	mu      sync.Mutex // guards everything below; taken inside the server lock by onExec, alone by client goroutines
	steps   []*rstep
	atts    []*attempt
	byVal   map[string]*attempt
	mirror  []*attempt // per key: the attempt whose value the key carried after the last recorded step
	calls   []*call    // outstanding or holding calls
	names   map[int]string
	shaKind map[string]string
	lastNow int64
	now0    int64
	arms    []faultArm
	faulted map[[2]int]string // (conn id, cseq) -> fault applied to that command
	oracle  string
	class   string
	sig     []string
	twoLive bool
}

func (w *world) fail(class, msg string) {
	if w.oracle == "" {
		w.oracle, w.class = msg, class
	}
}

func keyName(i int) string { return prefix + ":" + strconv.Itoa(i) + ":" + lockName }

func keyIndex(k string) int {
	p := strings.SplitN(k, ":", 3)
	if len(p) != 3 || p[0] != prefix || p[2] != lockName {
		return -1
	}
	n, err := strconv.Atoi(p[1])
	if err != nil {
		return -1
	}
	return n
}

func scriptKind(text string) string {
	switch {
	case strings.Contains(text, `"DEL"`):
		return "del"
	case strings.Contains(text, `"PEXPIREAT"`):
		return "ext"
	case strings.Contains(text, `"NX","PXAT"`):
		return "acqat"
	case strings.Contains(text, `"NX","PX"`):
		return "acqms"
	case strings.Contains(text, `"PXAT"`):
		return "fcqat"
	case strings.Contains(text, `"PX"`):
		return "fcqms"
	}
	return ""
}

var errkName = map[string]string{"ok": "ENone", "nl": "ENotLocked", "err": "EOther"}

// rstep is one recorded step; acquire / extend steps may be corrected later (see onDelkey)
type rstep struct {
	label, robs, seen string
	// for LAcquire / LExtend: the pieces, so that "replied" can be corrected
	head    string // e.g. LAcquire 3%nat 17…%Z  /  LExtend 3%nat 1%nat 17…%Z
	exec    bool
	replied bool
	kind    string // acq | ext | ""
}

func (r *rstep) render() string {
	lab := r.label
	if r.kind != "" {
		lab = "(" + r.head + " " + obs.Bool(r.exec) + " " + obs.Bool(r.replied) + ")"
	}
	return obs.App("Build_ostep", lab, r.robs, r.seen)
}

func (w *world) emit(label, robs, seen string) *rstep {
	st := &rstep{label: label, robs: robs, seen: seen}
	w.steps = append(w.steps, st)
	return st
}

func (w *world) emitRT(kind, head string, exec, replied bool, robs string) *rstep {
	st := &rstep{kind: kind, head: head, exec: exec, replied: replied, robs: robs, seen: obs.None}
	w.steps = append(w.steps, st)
	return st
}

func lockerOf(name string) int {
	if strings.HasPrefix(name, "L") {
		if n, err := strconv.Atoi(name[1:]); err == nil {
			return n
		}
	}
	return -1
}

// fault hook: runs before the command executes, outside the server lock, on the connection's reader goroutine
func (w *world) fault(c *fakeredis.Conn, cseq int, argv []string) fakeredis.Action {
	w.mu.Lock()
	defer w.mu.Unlock()
	w.names[c.ID] = c.Name
	l := lockerOf(c.Name)
	if l < 0 || len(argv) < 4 {
		return fakeredis.Action{}
	}
	up := strings.ToUpper(argv[0])
	kind := ""
	switch up {
	case "EVAL":
		kind = scriptKind(argv[1])
	case "EVALSHA":
		kind = w.shaKind[strings.ToLower(argv[1])]
	}
	if kind == "" { // not a script, or an unknown sha: the server answers NOSCRIPT and the EVAL follows
		return fakeredis.Action{}
	}
	keys, _ := addon2.ScriptArgs(argv)
	if len(keys) != 1 {
		return fakeredis.Action{}
	}
	ki := keyIndex(keys[0])
	isAcq := strings.HasPrefix(kind, "acq") || strings.HasPrefix(kind, "fcq")
	for i, a := range w.arms {
		if a.locker != l || a.key != ki || !((strings.HasPrefix(a.kind, "acq") && isAcq) || (a.kind == "ext-err" && kind == "ext")) {
			continue
		}
		w.arms = append(w.arms[:i], w.arms[i+1:]...)
		w.faulted[[2]int{c.ID, cseq}] = a.kind
		switch a.kind {
		case "acq-err", "ext-err":
			e := fakeredis.Error("ERR injected failure")
			return fakeredis.Action{Override: &e}
		case "acq-slow": // executed, answered after the caller gave up
			return fakeredis.Action{DelayReply: time.Duration(w.c.TryNext)*time.Millisecond + 900*time.Millisecond}
		}
	}
	return fakeredis.Action{}
}

// owned counts the name's keys that carry the attempt's value (server lock held)
func (w *world) owned(a *attempt) int {
	n := 0
	for i := 0; i < w.K; i++ {
		if it := w.s.Get(keyName(i)); it != nil && it.Str == a.val {
			n++
		}
	}
	return n
}

// syncOwners brings the per-key owner mirror up to date and notes which attempts lost a key to somebody
// else (anything but their own delete script) — server lock + w.mu held
func (w *world) syncOwners(self *attempt, selfDel bool) {
	for i := 0; i < w.K; i++ {
		var cur *attempt
		if it := w.s.Get(keyName(i)); it != nil {
			cur = w.byVal[it.Str]
		}
		if old := w.mirror[i]; old != nil && old != cur && !(selfDel && old == self) {
			old.lastLoss = time.Now()
		}
		w.mirror[i] = cur
	}
}

// checkHolders is the direct oracle, evaluated in the server's total order (server lock + w.mu held)
func (w *world) checkHolders(self *attempt, selfDel bool) {
	if w.c.Kind == "samegate" { // two calls on one locker: attempts cannot be told apart from outside
		return
	}
	w.syncOwners(self, selfDel)
	live := 0
	for _, a := range w.atts {
		if !a.held || a.ctx == nil {
			continue
		}
		n := w.owned(a)
		prev := a.prevOwned
		a.prevOwned = n
		if a.ctx.Err() != nil {
			continue
		}
		live++
		if n >= w.c.M {
			a.belowSince = time.Time{}
			continue
		}
		// a live holder below its majority
		if prev >= w.c.M { // this very step took it there
			if a == self && selfDel && w.running(a) < w.c.M {
				// its own delete script, and fewer than a majority of its monitors still believe they hold a key
				if a.acqs < w.K {
					w.fail("release-during-background-acquisition", fmt.Sprintf("attempt %d (locker %d) released a key while its context is live and it owns only %d/%d keys; the acquisition of its last keys was still on its way (%d/%d attempted)", a.id, a.locker, n, w.K, a.acqs, w.K))
				} else {
					w.fail("release-before-cancel", fmt.Sprintf("attempt %d (locker %d) released a key while its context is live: it now owns %d/%d keys, majority %d", a.id, a.locker, n, w.K, w.c.M))
				}
				continue
			}
			a.belowSince = time.Now() // lost to somebody else: it has the slack to notice
			continue
		}
		if a.belowSince.IsZero() { // it never had the majority while we looked
			if a.lastLoss.IsZero() {
				w.fail("live-without-majority", fmt.Sprintf("attempt %d (locker %d) has a live context but owns %d/%d keys (majority %d) and never lost a key to anybody else", a.id, a.locker, n, w.K, w.c.M))
				continue
			}
			a.belowSince = a.lastLoss
		}
		if time.Since(a.belowSince) >= slack {
			w.fail("loss-not-cancelled", fmt.Sprintf("attempt %d (locker %d) lost its majority %v ago (owns %d/%d) and its context is still live", a.id, a.locker, time.Since(a.belowSince).Round(time.Millisecond), n, w.K))
		}
	}
	if live >= 2 {
		w.twoLive = true
	}
}

// running counts the monitors of the attempt that still run as far as the recorded steps tell
func (w *world) running(a *attempt) int {
	n := 0
	for _, m := range a.mon {
		if m == "run" {
			n++
		}
	}
	return n
}

func (w *world) tickIfAdvanced() {
	if now := w.s.NowLocked(); now > w.lastNow {
		w.emit(obs.App("LTick", obs.Z(now-w.lastNow)), "RNone", obs.None)
		w.lastNow = now
	}
}

// finishPrevious records the failing return of the locker's previous round of try (inside WithContext)
func (w *world) finishPrevious(l int) {
	for j := len(w.atts) - 1; j >= 0; j-- {
		if p := w.atts[j]; p.locker == l {
			if !p.held && !p.finished {
				w.emit(obs.App("LReturn", obs.Nat(p.id)), "(RRet RWait)", obs.None)
				w.emit(obs.App("LReturn", obs.Nat(p.id)), "(RRet RFailed)", obs.None)
				p.finished = true
			}
			return
		}
	}
}

// onExec: every executed command, in the server's total order, under the server lock
func (w *world) onExec(e fakeredis.Entry) {
	w.mu.Lock()
	defer w.mu.Unlock()
	w.tickIfAdvanced()
	up := strings.ToUpper(e.Argv[0])
	name := w.names[e.Conn]
	if up == "DEL" && name == "env" && len(e.Argv) == 2 {
		if i := keyIndex(e.Argv[1]); i >= 0 {
			w.emit(obs.App("LEnvDel", obs.Nat(i)), "RNone", obs.None)
			w.checkHolders(nil, false)
		}
		return
	}
	if up != "EVAL" && up != "EVALSHA" {
		return
	}
	if e.Reply.T == '-' && strings.HasPrefix(e.Reply.S, "NOSCRIPT") {
		return
	}
	kind := ""
	if up == "EVAL" {
		kind = scriptKind(e.Argv[1])
		sum := sha1.Sum([]byte(e.Argv[1]))
		w.shaKind[hex.EncodeToString(sum[:])] = kind
	} else {
		kind = w.shaKind[strings.ToLower(e.Argv[1])]
	}
	keys, args := addon2.ScriptArgs(e.Argv)
	l := lockerOf(name)
	if kind == "" || len(keys) != 1 || len(args) < 1 || l < 0 {
		return
	}
	ki := keyIndex(keys[0])
	if ki < 0 {
		return
	}
	flt := w.faulted[[2]int{e.Conn, e.CSeq}]
	val := args[0]
	a := w.byVal[val]
	isAcq := strings.HasPrefix(kind, "acq") || strings.HasPrefix(kind, "fcq")
	if a == nil {
		if !isAcq {
			w.fail("harness", "harness: "+kind+" script with an unknown value")
			return
		}
		w.finishPrevious(l) // a new round of try on this locker: the previous one (inside WithContext) is over
		a = &attempt{id: len(w.atts), locker: l, val: val, force: strings.HasPrefix(kind, "fcq"), mon: make([]string, w.K), last: make([]*rstep, w.K), prevOwned: -1}
		w.atts = append(w.atts, a)
		w.byVal[val] = a
		w.emit(obs.App("LStart", obs.Bool(a.force)), "RNone", obs.None)
	}
	exp := int64(0)
	if len(args) >= 2 {
		exp, _ = strconv.ParseInt(args[1], 10, 64)
	}
	switch {
	case isAcq:
		a.acqs++
		if kind == "acqms" || kind == "fcqms" {
			exp += w.lastNow
		}
		executed, replied, r := true, true, "err"
		switch {
		case flt == "acq-err":
			executed = false
		case flt == "acq-slow":
			replied = false
		case e.Reply.T == '+':
			r = "ok"
		case e.Reply.T == '_' || e.Reply.Null:
			r = "nl"
		}
		if !(executed && replied) {
			r = "err"
		}
		a.last[ki] = w.emitRT("acq", "LAcquire "+obs.Nat(a.id)+" "+obs.Z(exp), executed, replied, "(RAcq "+errkName[r]+")")
		switch r {
		case "ok":
			a.mon[ki] = "run"
		case "nl": // sticky: no later key is attempted, every later monitor exits at once
			for j := ki; j < w.K; j++ {
				a.mon[j] = "exit"
			}
		default:
			a.mon[ki] = "del"
		}
		w.checkHolders(a, false)
	case kind == "ext":
		executed, r := true, "err"
		switch {
		case flt == "ext-err":
			executed = false
		case e.Reply.T == ':' && e.Reply.I == 1:
			r = "ok"
		case e.Reply.T == ':' && e.Reply.I == 0:
			r = "nl"
		}
		a.last[ki] = w.emitRT("ext", "LExtend "+obs.Nat(a.id)+" "+obs.Nat(ki)+" "+obs.Z(exp), executed, true, "(RExt "+errkName[r]+")")
		switch r {
		case "ok":
			a.mon[ki] = "run"
		case "nl":
			a.mon[ki] = "exit"
		default:
			a.mon[ki] = "del"
		}
		w.checkHolders(a, false)
	case kind == "del":
		deleted := e.Reply.T == ':' && e.Reply.I == 1
		w.beforeDelkey(a, ki)
		a.mon[ki] = "exit"
		w.emit(obs.App("LDelkey", obs.Nat(a.id), obs.Nat(ki), "true"), "(RDel "+obs.Bool(deleted)+")", obs.None)
		w.checkHolders(a, deleted)
	}
}

// beforeDelkey: a delete script by the monitor of key ki is about to be recorded.  A monitor runs it only
// when it left its loop with an error other than ErrNotLocked (or never entered it for such an error), so
// the steps recorded so far are completed / corrected with what the CLIENT must have seen:
//   - the acquisition of key ki (and of the keys before it) never reached the server: the context was
//     already done or the call gave up before sending — recorded now as not executed;
//   - the last acquire / extend of that key was answered "not the owner" by the server, yet the monitor
//     deletes: the caller had abandoned that round trip (context done) and never saw the answer.
func (w *world) beforeDelkey(a *attempt, ki int) {
	left := 0
	for _, m := range a.mon {
		if m == "del" || m == "exit" {
			left++
		}
	}
	cancelled := a.unlockd || left >= w.c.M // what the recorded steps say about the lock context
	switch a.mon[ki] {
	case "run":
		// the monitor still ran and the context is not done as far as the steps tell: the caller must have
		// given up on the last round trip of this key (its own timeout) although the server answered
		if st := a.last[ki]; st != nil && st.replied && !cancelled {
			st.replied = false
			if st.kind == "acq" {
				st.robs = "(RAcq EOther)"
			} else {
				st.robs = "(RExt EOther)"
			}
			a.mon[ki] = "del"
		}
	case "":
		for j := 0; j <= ki; j++ {
			if a.mon[j] == "" {
				a.acqs++
				a.last[j] = w.emitRT("acq", "LAcquire "+obs.Nat(a.id)+" 0%Z", false, false, "(RAcq EOther)")
				a.mon[j] = "del"
			}
		}
	case "exit":
		if st := a.last[ki]; st != nil && st.replied {
			st.replied = false
			if st.kind == "acq" {
				st.robs = "(RAcq EOther)"
				for j := ki + 1; j < w.K; j++ { // the sticky error did not happen on the client
					if a.last[j] == nil {
						a.mon[j] = ""
					}
				}
			} else {
				st.robs = "(RExt EOther)"
			}
			a.mon[ki] = "del"
		}
	}
}

// ---- harness actions ----

func (w *world) lastAttemptOf(l int) *attempt {
	for j := len(w.atts) - 1; j >= 0; j-- {
		if w.atts[j].locker == l {
			return w.atts[j]
		}
	}
	return nil
}

// start launches a lock call on locker l; it finishes asynchronously
func (w *world) start(l int, kind string) *call {
	cl := &call{locker: l, kind: kind, done: make(chan struct{}), at: time.Now()}
	parent, stop := context.WithCancel(context.Background())
	cl.stop = stop
	w.mu.Lock()
	before := len(w.atts)
	w.calls = append(w.calls, cl)
	w.mu.Unlock()
	go func() {
		defer close(cl.done)
		var ctx context.Context
		var cancel context.CancelFunc
		var err error
		switch kind {
		case "try":
			ctx, cancel, err = w.lockers[l].TryWithContext(parent, lockName)
		case "force":
			ctx, cancel, err = w.lockers[l].ForceWithContext(parent, lockName)
		default:
			ctx, cancel, err = w.lockers[l].WithContext(parent, lockName)
		}
		w.s.Lock() // same lock order as onExec: server, then w.mu
		w.mu.Lock()
		defer w.s.Unlock()
		defer w.mu.Unlock()
		cl.err = err
		a := w.lastAttemptOf(l)
		if a != nil && a.id < before {
			a = nil // the call did not get as far as a script
		}
		if err != nil {
			if a != nil && !a.finished {
				w.emit(obs.App("LReturn", obs.Nat(a.id)), "(RRet RWait)", obs.None)
				w.emit(obs.App("LReturn", obs.Nat(a.id)), "(RRet RFailed)", obs.None)
				a.finished = true
			}
			return
		}
		cl.ctx, cl.cancel = ctx, cancel
		if a == nil {
			w.fail("held-without-keys", "a lock call returned a lock context although none of its acquire scripts ever reached the server")
			return
		}
		cl.att = a
		a.held, a.ctx, a.finished = true, ctx, true
		w.emit(obs.App("LReturn", obs.Nat(a.id)), "(RRet RHeld)", obs.None)
		w.checkHolders(nil, false)
		go func() { // reports when the lock context is seen done
			<-ctx.Done()
			w.mu.Lock()
			w.emit("(LTick 0%Z)", "RNone", obs.Some(addon2.Pair(obs.Nat(a.id), "true")))
			w.mu.Unlock()
		}()
	}()
	return cl
}

func (w *world) holderOn(l int) *call {
	w.mu.Lock()
	defer w.mu.Unlock()
	for _, cl := range w.calls {
		if cl.locker == l && cl.att != nil && cl.cancel != nil {
			return cl
		}
	}
	return nil
}

func (w *world) drop(cl *call) {
	w.mu.Lock()
	for i, x := range w.calls {
		if x == cl {
			w.calls = append(w.calls[:i], w.calls[i+1:]...)
			break
		}
	}
	w.mu.Unlock()
}

// unlock calls the cancel function of the lock held through locker l (if any) and checks that no key is left
func (w *world) unlock(cl *call) {
	a := cl.att
	w.mu.Lock()
	w.emit(obs.App("LCancel", obs.Nat(a.id)), "RNone", obs.None)
	a.unlockd = true
	w.mu.Unlock()
	fin := make(chan struct{})
	go func() { cl.cancel(); close(fin) }()
	select {
	case <-fin:
	case <-time.After(slack):
		w.mu.Lock()
		w.fail("unlock-hangs", fmt.Sprintf("the cancel function of attempt %d did not return within %v", a.id, slack))
		w.mu.Unlock()
		return
	}
	w.s.Lock()
	w.mu.Lock()
	if n := w.owned(a); n > 0 {
		w.fail("key-left-after-unlock", fmt.Sprintf("%d key(s) still carry the value of attempt %d after its cancel function returned", n, a.id))
	}
	a.held = false
	w.mu.Unlock()
	w.s.Unlock()
	w.drop(cl)
}

func waitDone(cl *call, d time.Duration) bool {
	select {
	case <-cl.done:
		return true
	case <-time.After(d):
		return false
	}
}

func run(ci any) (res obs.Result) {
	c := ci.(Case)
	res.Kind = c.Kind
	res.Site = "rueidislock/lock.go:monitoring"
	w := &world{c: c, K: 2*c.M - 1, byVal: map[string]*attempt{}, names: map[int]string{}, shaKind: map[string]string{}, faulted: map[[2]int]string{}}
	w.mirror = make([]*attempt, w.K)
	w.s, _ = addon2.NewServer()
	w.s.Advance(time.Now().UnixMilli() - w.s.Now()) // the lockers compute PXAT deadlines from the wall clock
	w.now0 = w.s.Now()
	w.lastNow = w.now0
	w.s.Fault = w.fault
	w.s.OnExec = w.onExec
	for i := 0; i < c.Lockers; i++ {
		o := addon2.Option(w.s)
		o.ClientName = "L" + strconv.Itoa(i)
		o.DisableCache = c.NoCSC
		lk, err := rueidislock.NewLocker(rueidislock.LockerOption{ClientOption: o, KeyMajority: int32(c.M),
			KeyValidity: time.Duration(c.Validity) * time.Millisecond, ExtendInterval: time.Duration(c.Interval) * time.Millisecond,
			TryNextAfter: time.Duration(c.TryNext) * time.Millisecond, NoLoopTracking: !c.LoopBack, FallbackSETPX: c.SetPX})
		if err != nil {
			res.Oracle = "harness: " + err.Error()
			return
		}
		w.lockers = append(w.lockers, lk)
	}
	eo := addon2.Option(w.s)
	eo.ClientName = "env"
	eo.DisableCache = true
	env, err := rueidis.NewClient(eo)
	if err != nil {
		res.Oracle = "harness: " + err.Error()
		return
	}
	w.env = env
	bg := context.Background()

	var racing []*call
	for _, st := range c.Steps {
		switch st.Op {
		case "sleep":
			time.Sleep(time.Duration(st.Ms) * time.Millisecond)
		case "fault":
			w.mu.Lock()
			w.arms = append(w.arms, faultArm{locker: st.L, key: st.Key, kind: st.Fault})
			w.mu.Unlock()
		case "try", "force":
			if w.holderOn(st.L) != nil {
				continue
			}
			cl := w.start(st.L, st.Op)
			if !waitDone(cl, 2*slack) {
				w.mu.Lock()
				w.fail("call-hangs", st.Op+" did not return")
				w.mu.Unlock()
			}
			if cl.att == nil {
				w.drop(cl)
			}
			w.sig = append(w.sig, fmt.Sprint(st.Op, st.L, cl.err == nil))
		case "gotry":
			if w.holderOn(st.L) == nil {
				racing = append(racing, w.start(st.L, "try"))
			}
		case "join":
			wins := 0
			for _, cl := range racing {
				waitDone(cl, 2*slack)
				if cl.att != nil {
					wins++
				} else {
					w.drop(cl)
				}
			}
			racing = nil
			w.sig = append(w.sig, fmt.Sprint("race", wins))
		case "with":
			w.start(st.L, "with")
		case "unlock":
			if cl := w.holderOn(st.L); cl != nil {
				w.unlock(cl)
			}
		case "handover": // one of the blocked WithContext calls must get the lock now
			deadline := time.Now().Add(slack)
			var got *call
			for got == nil && time.Now().Before(deadline) {
				w.mu.Lock()
				for _, cl := range w.calls {
					if cl.kind == "with" && cl.att != nil && cl.cancel != nil {
						got = cl
					}
				}
				w.mu.Unlock()
				if got == nil {
					time.Sleep(2 * time.Millisecond)
				}
			}
			if got == nil {
				w.mu.Lock()
				pending := 0
				for _, cl := range w.calls {
					if cl.kind == "with" && cl.att == nil {
						pending++
					}
				}
				if pending > 0 {
					w.fail("missed-wakeup", fmt.Sprintf("the lock is free but none of the %d blocked WithContext calls acquired it within %v", pending, slack))
				}
				w.mu.Unlock()
			} else {
				w.sig = append(w.sig, "handover")
				w.unlock(got)
			}
		case "envdel":
			w.env.Do(bg, w.env.B().Del().Key(keyName(st.Key)).Build())
		case "envset": // somebody else holds that key
			w.env.Do(bg, w.env.B().Set().Key(keyName(st.Key)).Value("somebody-else").Px(time.Minute).Build())
		case "waitexit": // until the holder's monitor of that key has left (bounded)
			if cl := w.holderOn(st.L); cl != nil && st.Key < w.K {
				deadline := time.Now().Add(slack)
				for time.Now().Before(deadline) {
					w.mu.Lock()
					gone := cl.att.mon[st.Key] == "exit"
					w.mu.Unlock()
					if gone {
						break
					}
					time.Sleep(time.Millisecond)
				}
			}
		case "spin": // a competitor keeps trying for a while; it keeps the lock if it gets it
			until := time.Now().Add(time.Duration(st.Ms) * time.Millisecond)
			for time.Now().Before(until) && w.holderOn(st.L) == nil {
				cl := w.start(st.L, "try")
				waitDone(cl, 2*slack)
				if cl.att == nil {
					w.drop(cl)
				} else {
					w.sig = append(w.sig, "competitor-got-it")
				}
				time.Sleep(4 * time.Millisecond)
			}
		case "expire": // the clock jumps past every deadline handed out so far
			lag := time.Now().UnixMilli() - w.s.Now()
			if lag < 0 {
				lag = 0
			}
			w.s.Advance(lag + int64(c.Validity) + 1)
			w.env.Do(bg, w.env.B().Ping().Build()) // a command after the jump: the tick is recorded in order
			w.s.Lock()
			w.mu.Lock()
			w.tickIfAdvanced()
			w.checkHolders(nil, false)
			w.mu.Unlock()
			w.s.Unlock()
		case "settle": // the holder on locker L has lost its majority: its context must be done within the slack
			if cl := w.holderOn(st.L); cl != nil {
				select {
				case <-cl.ctx.Done():
					w.sig = append(w.sig, "cancelled-after-loss")
				case <-time.After(slack + 200*time.Millisecond):
					w.s.Lock()
					w.mu.Lock()
					w.checkHolders(nil, false)
					w.mu.Unlock()
					w.s.Unlock()
				}
			}
		}
	}
	// wind down: stop waiters, release every lock still held
	w.mu.Lock()
	rest := append([]*call(nil), w.calls...)
	w.mu.Unlock()
	for _, cl := range rest {
		if cl.att == nil {
			cl.stop()
		}
	}
	for _, cl := range rest {
		waitDone(cl, 2*slack)
		if cl.att != nil && cl.cancel != nil {
			w.unlock(cl)
		}
	}
	time.Sleep(5 * time.Millisecond)
	w.s.Lock()
	w.mu.Lock()
	w.tickIfAdvanced()
	keys := make([]string, w.K)
	for i := 0; i < w.K; i++ {
		keys[i] = obs.None
		if it := w.s.Get(keyName(i)); it != nil {
			if a := w.byVal[it.Str]; a != nil {
				keys[i] = obs.Some(addon2.Pair(obs.Nat(a.id), obs.Z(it.PXAT)))
			} else {
				keys[i] = obs.Some(addon2.Pair(obs.Nat(9999), obs.Z(it.PXAT)))
			}
		}
	}
	dones := make([]string, len(w.atts))
	for i := range w.atts {
		dones[i] = "true"
	}
	w.s.OnExec, w.s.Fault = nil, nil
	steps := make([]string, len(w.steps))
	for i, st := range w.steps {
		steps[i] = st.render()
	}
	res.Oracle, res.Class = w.oracle, w.class
	natts := len(w.atts)
	w.mu.Unlock()
	w.s.Unlock()
	for _, lk := range w.lockers {
		lk.Close()
	}
	w.env.Close()

	res.Nontrivial = natts >= 2
	res.Sig = c.Kind + fmt.Sprint(c.M, c.Lockers, c.SetPX, c.Interval) + strings.Join(w.sig, ",")
	res.Obs = map[string]any{"steps": len(steps), "attempts": natts}
	if !c.NoModel && !strings.HasPrefix(res.Class, "harness") {
		res.Coq = obs.App("CRun", obs.Nat(c.M), obs.Z(w.now0), "["+strings.Join(steps, ";\n ")+"]", obs.List(keys), obs.List(dones))
	}
	addon2.Dump("obs_lock", c, res.Coq)
	return
}

func main() {
	obs.Main(obs.Runner{
		Name: "obs_lock", Salt: 34,
		Gen: genCase,
		Decode: func(raw json.RawMessage) (any, error) {
			var c Case
			err := json.Unmarshal(raw, &c)
			return c, err
		},
		Run: run,
	})
}
