// obs_scanner: C46 — Scanner.Iter / Iter2 / Err driven through NewScanner with a scripted next callback.
package main

import (
	"encoding/json"
	"fmt"

	"github.com/redis/rueidis"

	"verifharness/gen"
	"verifharness/obs"
)

type Page struct {
	Err    int      `json:"err,omitempty"` // > 0: next returns this error
	Elems  [][]byte `json:"elems,omitempty"`
	Cursor uint64   `json:"cursor"`
}

type Case struct {
	Op     string `json:"op"` // iter | iter2
	Script []Page `json:"script"`
	Stop   int    `json:"stop"` // -1: the consumer never stops; k >= 0: it says stop on yield number k+1
}

type scriptErr int

func (e scriptErr) Error() string { return fmt.Sprintf("scripted error %d", int(e)) }

const exhausted = 255

func genCase(r *gen.Rand, i int) any {
	c := Case{Op: "iter"}
	if r.Chance(2, 5) {
		c.Op = "iter2"
	}
	n := r.Size(9, 3)
	total := 0
	for j := 0; j < n; j++ {
		p := Page{}
		switch {
		case r.Chance(1, 12):
			p.Err = r.Range(1, 9)
		default:
			k := r.Size(7, 2)
			for e := 0; e < k; e++ {
				p.Elems = append(p.Elems, r.Bytes(r.Range(0, 3)))
			}
			total += k
			switch {
			case j == n-1 && r.Chance(3, 4), r.Chance(1, 10):
				p.Cursor = 0
			case r.Chance(1, 8):
				p.Cursor = ^uint64(0) - uint64(r.Intn(2))
			default:
				p.Cursor = uint64(r.Range(1, 40))
			}
		}
		c.Script = append(c.Script, p)
	}
	c.Stop = -1
	if r.Chance(1, 2) {
		c.Stop = r.Intn(total + 2)
	}
	return c
}

type observation struct {
	yielded [][]byte    // iter
	pairs   [][2][]byte // iter2
	cursors []uint64
	err     int // 0 = nil
}

func runImpl(c Case) (o observation) {
	idx := 0
	sc := rueidis.NewScanner(func(cursor uint64) (rueidis.ScanEntry, error) {
		o.cursors = append(o.cursors, cursor)
		if idx >= len(c.Script) {
			idx++
			return rueidis.ScanEntry{}, scriptErr(exhausted)
		}
		p := c.Script[idx]
		idx++
		if p.Err > 0 {
			return rueidis.ScanEntry{}, scriptErr(p.Err)
		}
		el := make([]string, len(p.Elems))
		for i, e := range p.Elems {
			el[i] = string(e)
		}
		return rueidis.ScanEntry{Elements: el, Cursor: p.Cursor}, nil
	})
	n := 0
	if c.Op == "iter" {
		for v := range sc.Iter() {
			o.yielded = append(o.yielded, []byte(v))
			if c.Stop >= 0 && n == c.Stop {
				break
			}
			n++
		}
	} else {
		for a, b := range sc.Iter2() {
			o.pairs = append(o.pairs, [2][]byte{[]byte(a), []byte(b)})
			if c.Stop >= 0 && n == c.Stop {
				break
			}
			n++
		}
	}
	if e := sc.Err(); e != nil {
		if se, ok := e.(scriptErr); ok {
			o.err = int(se)
		} else {
			o.err = 254
		}
	}
	return
}

// oracle: computed from the script alone, by a different route than the model (flat index arithmetic)
func oracle(c Case, o observation) string {
	// the stream a never-stopping consumer would see, with the page each item comes from
	type item struct {
		a, b []byte
		page int
	}
	var stream []item
	termErr := exhausted
	last := len(c.Script) // index of the last page requested by a never-stopping consumer (len = the exhausted call)
	for pi, p := range c.Script {
		if p.Err > 0 {
			termErr, last = p.Err, pi
			break
		}
		if c.Op == "iter" {
			for _, e := range p.Elems {
				stream = append(stream, item{a: e, page: pi})
			}
		} else {
			for i := 0; i+1 < len(p.Elems); i += 2 {
				stream = append(stream, item{a: p.Elems[i], b: p.Elems[i+1], page: pi})
			}
		}
		if p.Cursor == 0 {
			termErr, last = 0, pi
			break
		}
	}
	want := stream
	wantErr := termErr
	calls := last + 1
	if c.Stop >= 0 && c.Stop < len(stream) {
		want = stream[:c.Stop+1]
		wantErr = 0
		calls = stream[c.Stop].page + 1
	}
	got := len(o.yielded)
	if c.Op == "iter2" {
		got = len(o.pairs)
	}
	if got != len(want) {
		return fmt.Sprintf("consumer received %d items, expected %d", got, len(want))
	}
	for i, w := range want {
		if c.Op == "iter" {
			if string(o.yielded[i]) != string(w.a) {
				return fmt.Sprintf("item %d is %q, expected %q", i, o.yielded[i], w.a)
			}
		} else if string(o.pairs[i][0]) != string(w.a) || string(o.pairs[i][1]) != string(w.b) {
			return fmt.Sprintf("pair %d is (%q,%q), expected (%q,%q)", i, o.pairs[i][0], o.pairs[i][1], w.a, w.b)
		}
	}
	if o.err != wantErr {
		return fmt.Sprintf("Err() kind %d, expected %d", o.err, wantErr)
	}
	if len(o.cursors) != calls {
		return fmt.Sprintf("next was called %d times, expected %d", len(o.cursors), calls)
	}
	for i, cur := range o.cursors {
		w := uint64(0)
		if i > 0 {
			w = c.Script[i-1].Cursor
		}
		if cur != w {
			return fmt.Sprintf("call %d requested cursor %d, expected %d", i, cur, w)
		}
	}
	return ""
}

func coqPage(p Page) string {
	if p.Err > 0 {
		return obs.App("PErr", obs.N(uint64(p.Err)))
	}
	return obs.App("POk", obs.ListOf(p.Elems, obs.H), obs.N(p.Cursor))
}

func run(ci any) (res obs.Result) {
	c := ci.(Case)
	res.Kind = c.Op
	if c.Stop >= 0 {
		res.Kind += "-stop"
	}
	o := runImpl(c)
	b := obs.None
	if c.Stop >= 0 {
		b = obs.Some(obs.Nat(c.Stop))
	}
	e := obs.None
	if o.err != 0 {
		e = obs.Some(obs.N(uint64(o.err)))
	}
	script := obs.ListOf(c.Script, coqPage)
	cs := obs.ListOf(o.cursors, obs.N)
	if c.Op == "iter" {
		res.Coq = obs.App("CIter", script, b, obs.ListOf(o.yielded, obs.H), cs, e)
	} else {
		res.Coq = obs.App("CIter2", script, b, obs.ListOf(o.pairs, func(p [2][]byte) string {
			return "(" + obs.H(p[0]) + ", " + obs.H(p[1]) + ")"
		}), cs, e)
	}
	res.Oracle = oracle(c, o)
	res.Site, res.Class = "helper.go:Scanner."+c.Op, "iteration"
	raw, _ := json.Marshal(c)
	res.Sig = string(raw)
	res.Nontrivial = len(c.Script) >= 2 && len(o.cursors) >= 2
	res.Obs = map[string]any{"yielded": len(o.yielded) + len(o.pairs), "cursors": o.cursors, "err": o.err}
	return
}

func main() {
	obs.Main(obs.Runner{
		Name: "obs_scanner", Salt: 46,
		Gen: genCase,
		Decode: func(raw json.RawMessage) (any, error) {
			var c Case
			err := json.Unmarshal(raw, &c)
			return c, err
		},
		Run: run,
	})
}
