// obs_om: C40 — om.HashRepository / om.JSONRepository against the fake server running the real save
// scripts under mini-Lua.  A case is a history of operations on one entity key (saves — also by several
// concurrent clients carrying the same version —, fetches, cached fetches, removals, writes by another
// application, clock advances).  The direct oracle checks the property on the implementation's own
// results (one winner per version, version + 1, fetch == saved entity); the Gallina term lets
// Model/Om.v replay the same history in the order the server executed it.
package main

import (
	"bytes"
	"context"
	"encoding/json"
	"errors"
	"fmt"
	"math"
	"reflect"
	"sort"
	"strconv"
	"strings"
	"sync"
	"time"

	"github.com/redis/rueidis"
	"github.com/redis/rueidis/om"

	"verifharness/addon2"
	"verifharness/fakeredis"
	"verifharness/fakeredis/scripting"
	"verifharness/gen"
	"verifharness/obs"
)

// ---- the entity types (every supported field kind of om/conv.go) ----

type Sub struct {
	A int64    `json:"a"`
	B string   `json:"b"`
	C []string `json:"c,omitempty"`
}

type HEnt struct {
	Key string `redis:",key"`
	Ver int64  `redis:",ver"`
	I   int64
	S   string
	B   bool
	PI  *int64
	PS  *string
	PB  *bool
	PB2 *bool
	By  []byte
	V32 []float32
	V64 []float64
	St  Sub
	PSt *Sub
	SSt []Sub
}

type HVerless struct {
	Key string `redis:",key"`
	I   int64
	S   string
	PS  *string
	PB  *bool
	By  []byte
}

type HExp struct {
	Key string `redis:",key"`
	Ver int64  `redis:",ver"`
	S   string
	PI  *int64
	Exp time.Time `redis:",exat"`
}

type JEnt struct {
	Key string `json:"key" redis:",key"`
	Ver int64  `json:"ver" redis:",ver"`
	S   string `json:"s"`
	PI  *int64 `json:"pi"`
	L   []Sub  `json:"l"`
	Exp time.Time `json:"exp" redis:",exat"`
}

type JVerless struct {
	Key string `json:"key" redis:",key"`
	S   string `json:"s"`
	N   int64  `json:"n"`
}

// ---- case description (JSON, replayable) ----

type Ent struct {
	Ver   int64    `json:"ver"`
	I     int64    `json:"i,omitempty"`
	S     []byte   `json:"s,omitempty"`
	B     bool     `json:"b,omitempty"`
	PI    *int64   `json:"pi,omitempty"`
	PS    *[]byte  `json:"ps,omitempty"`
	PB    *bool    `json:"pb,omitempty"`
	PB2   *bool    `json:"pb2,omitempty"`
	By    []byte   `json:"by,omitempty"`
	V32   []uint32 `json:"v32,omitempty"`
	V64   []uint64 `json:"v64,omitempty"`
	St    Sub      `json:"st"`
	PSt   *Sub     `json:"pst,omitempty"`
	SSt   []Sub    `json:"sst,omitempty"`
	ExpIn int64    `json:"expin,omitempty"` // exat = server clock at the save + ExpIn ms (0 = none, negative = already past)
}

type Op struct {
	Kind string `json:"kind"` // save | csave | fetch | fetchcache | mutate | modsave | remove | rawhset | advance
	Ents []Ent  `json:"ents,omitempty"`
	F    []byte `json:"f,omitempty"`
	V    []byte `json:"v,omitempty"`
	Ms   int64  `json:"ms,omitempty"`
}

type Case struct {
	Repo string  `json:"repo"` // hash | verless | exp | json | jsonverless | args | dec | parse | bigver
	Ops  []Op    `json:"ops,omitempty"`
	Z    int64   `json:"z,omitempty"`
	Str  []byte  `json:"str,omitempty"`
}

const entKey = "k1"

// ---- generators ----

var specialInts = []int64{0, 1, -1, 9, 10, 99, 100, math.MaxInt64, math.MinInt64, math.MaxInt64 - 1, 1 << 53, -(1 << 53), 99999999999999, 100000000000000}

func genInt(r *gen.Rand) int64 {
	if r.Chance(1, 3) {
		return gen.Pick(r, specialInts)
	}
	if r.Chance(1, 2) {
		return int64(r.Intn(2000)) - 1000
	}
	return int64(r.U64())
}

func genStr(r *gen.Rand) []byte {
	if r.Chance(1, 8) {
		return gen.Pick(r, [][]byte{[]byte("t"), []byte("f"), []byte("null"), []byte("0"), []byte("-1"), {}, []byte("1e+14")})
	}
	return r.Bytes(r.Size(40, 16))
}

func genUTF8(r *gen.Rand) string {
	return gen.Pick(r, []string{"", "a", "héllo", "😀", "with \"quotes\" and \\", "<>&", "line\nbreak", "tab\t", " ", "plain text"})
}

func genSub(r *gen.Rand) Sub {
	s := Sub{A: genInt(r), B: genUTF8(r)}
	for i := r.Size(3); i > 0; i-- {
		s.C = append(s.C, genUTF8(r))
	}
	return s
}

var special32 = []uint32{0, 0x80000000, 0x7fc00000, 0x7fc00001, 0x7f800001, 0x7f800000, 0xff800000, 1, 0x3f800000, 0xffffffff}
var special64 = []uint64{0, 0x8000000000000000, 0x7ff8000000000000, 0x7ff8000000000001, 0x7ff0000000000000, 1, 0x3ff0000000000000, 0xffffffffffffffff}

func genEnt(r *gen.Rand, ver int64) Ent {
	e := Ent{Ver: ver, I: genInt(r), S: genStr(r), B: r.Bool(), By: genStr(r), St: genSub(r)}
	if r.Chance(2, 3) {
		v := genInt(r)
		e.PI = &v
	}
	if r.Chance(2, 3) {
		v := genStr(r)
		e.PS = &v
	}
	if r.Chance(2, 3) {
		v := r.Bool()
		e.PB = &v
	}
	if r.Chance(2, 3) {
		v := r.Chance(2, 3) // mostly true: two true pointers in one entity are the interesting pair
		e.PB2 = &v
	}
	for i := r.Size(6); i > 0; i-- {
		if r.Bool() {
			e.V32 = append(e.V32, gen.Pick(r, special32))
		} else {
			e.V32 = append(e.V32, uint32(r.U64()))
		}
	}
	for i := r.Size(6); i > 0; i-- {
		if r.Bool() {
			e.V64 = append(e.V64, gen.Pick(r, special64))
		} else {
			e.V64 = append(e.V64, r.U64())
		}
	}
	if r.Chance(1, 2) {
		v := genSub(r)
		e.PSt = &v
	}
	for i := r.Size(3); i > 0; i-- {
		e.SSt = append(e.SSt, genSub(r))
	}
	return e
}

func genCase(r *gen.Rand, i int) any {
	c := Case{}
	switch k := r.Intn(40); {
	case k < 14:
		c.Repo = "hash"
	case k < 18:
		c.Repo = "verless"
	case k < 23:
		c.Repo = "exp"
	case k < 29:
		c.Repo = "json"
	case k < 31:
		c.Repo = "jsonverless"
	case k < 34:
		c.Repo = "args"
	case k < 36:
		c.Repo = "dec"
	case k < 38:
		c.Repo = "parse"
	default:
		c.Repo = "bigver"
	}
	switch c.Repo {
	case "dec":
		c.Z = genInt(r)
		return c
	case "parse":
		c.Str = gen.Pick(r, [][]byte{[]byte("0"), []byte("-0"), []byte("+5"), []byte("007"), []byte(""), []byte("-"), []byte("+"), []byte("1e+14"), []byte("12a"),
			[]byte("9223372036854775807"), []byte("9223372036854775808"), []byte("-9223372036854775808"), []byte("-9223372036854775809"), []byte(" 1"), []byte("1_0"),
			[]byte(strconv.FormatInt(genInt(r), 10)), r.Bytes(r.Size(6))})
		return c
	case "args":
		c.Ops = []Op{{Kind: "save", Ents: []Ent{genEnt(r, genSmallVer(r))}}}
		return c
	case "bigver":
		v := gen.Pick(r, []int64{99999999999999, 100000000000000, 1 << 53, math.MaxInt64 - 1, -100000000000000, -99999999999999 - 2})
		c.Ops = []Op{{Kind: "save", Ents: []Ent{genEnt(r, v)}}, {Kind: "fetch"}}
		return c
	}
	// histories
	cur := int64(0) // the version the generator expects the key to be at (serial view)
	exists := false
	n := r.Range(2, 9)
	for j := 0; j < n; j++ {
		switch k := r.Intn(20); {
		case k < 7: // save, mostly with the current version
			v := cur
			switch r.Intn(8) {
			case 0:
				v = cur - 1
			case 1:
				v = cur + 1
			case 2:
				v = genSmallVer(r)
			}
			e := genEnt(r, v)
			if c.Repo == "exp" || c.Repo == "json" {
				switch r.Intn(6) {
				case 0:
					e.ExpIn = int64(r.Range(1, 50))
				case 1:
					e.ExpIn = int64(r.Range(200, 5000))
				case 2:
					if r.Chance(1, 3) {
						e.ExpIn = -int64(r.Range(1, 50))
					}
				}
			}
			c.Ops = append(c.Ops, Op{Kind: "save", Ents: []Ent{e}})
			if v == cur || !exists {
				cur = v + 1
				exists = true
			}
		case k < 11: // concurrent savers carrying the same version
			m := r.Range(2, 5)
			v := cur
			if r.Chance(1, 6) {
				v = cur - 1
			}
			op := Op{Kind: "csave"}
			for x := 0; x < m; x++ {
				e := genEnt(r, v)
				e.S = []byte(fmt.Sprintf("saver-%d-%d", j, x)) // identifies the saver in the server log
				op.Ents = append(op.Ents, e)
			}
			c.Ops = append(c.Ops, op)
			if v == cur || !exists {
				cur = v + 1
				exists = true
			}
		case k < 13:
			c.Ops = append(c.Ops, Op{Kind: "fetch"})
		case k < 14:
			c.Ops = append(c.Ops, Op{Kind: "mutate", Ms: int64(r.Intn(8))})
		case k < 15:
			c.Ops = append(c.Ops, Op{Kind: "modsave", Ms: int64(r.Intn(16))})
			if exists {
				cur++
			}
		case k < 17:
			c.Ops = append(c.Ops, Op{Kind: "fetchcache"})
		case k < 18:
			c.Ops = append(c.Ops, Op{Kind: "remove"})
			exists = false
		case k < 19:
			if c.Repo == "json" || c.Repo == "jsonverless" {
				c.Ops = append(c.Ops, Op{Kind: "fetch"})
				break
			}
			f := gen.Pick(r, [][]byte{[]byte("PS"), []byte("PI"), []byte("S"), []byte("Other"), []byte("By"), []byte("PB"), []byte("PB2"), []byte("B")})
			v := genStr(r)
			if string(f) == "PI" {
				v = []byte(strconv.FormatInt(genInt(r), 10))
			}
			c.Ops = append(c.Ops, Op{Kind: "rawhset", F: f, V: v})
		default:
			c.Ops = append(c.Ops, Op{Kind: "advance", Ms: int64(r.Range(1, 300))})
		}
	}
	if r.Chance(3, 4) {
		c.Ops = append(c.Ops, Op{Kind: "fetch"})
	}
	return c
}

func genSmallVer(r *gen.Rand) int64 {
	return gen.Pick(r, []int64{0, 1, 2, 9, 10, 99, -1, -2, -10, 12345, 99999999999900, -99999999999999})
}

// ---- conversions between descriptions, Go entities and Gallina terms ----

func f32s(ws []uint32) []float32 {
	if ws == nil {
		return nil
	}
	out := make([]float32, len(ws))
	for i, w := range ws {
		out[i] = math.Float32frombits(w)
	}
	return out
}

func f64s(ws []uint64) []float64 {
	if ws == nil {
		return nil
	}
	out := make([]float64, len(ws))
	for i, w := range ws {
		out[i] = math.Float64frombits(w)
	}
	return out
}

func strp(p *[]byte) *string {
	if p == nil {
		return nil
	}
	s := string(*p)
	return &s
}

func jsonText(v any) string {
	b, err := json.Marshal(v)
	if err != nil {
		return "!" + err.Error()
	}
	return string(b)
}

type field struct {
	name, kind, val string
}

func schemaTerm(ver bool, fs []field) string {
	items := make([]string, len(fs))
	for i, f := range fs {
		items[i] = addon2.Pair(obs.HS(f.name), f.kind)
	}
	v := obs.None
	if ver {
		v = obs.Some(obs.HS("Ver"))
	}
	return obs.App("Build_schema", obs.HS("Key"), v, obs.List(items))
}

func entityTerm(key string, ver int64, fs []field, ext int64) string {
	items := make([]string, len(fs))
	for i, f := range fs {
		items[i] = addon2.Pair(obs.HS(f.name), f.val)
	}
	return obs.App("Build_entity", obs.HS(key), obs.Z(ver), "("+obs.List(items)+" : list (bytes * tfval))", obs.Z(ext))
}

func u32list(fs []float32) string {
	ws := make([]uint64, len(fs))
	for i, f := range fs {
		ws[i] = uint64(math.Float32bits(f))
	}
	return obs.ListOf(ws, obs.N)
}

func u64list(fs []float64) string {
	ws := make([]uint64, len(fs))
	for i, f := range fs {
		ws[i] = math.Float64bits(f)
	}
	return obs.ListOf(ws, obs.N)
}

func hentFields(e *HEnt) []field {
	return []field{
		{"I", "KInt", obs.App("VInt", obs.Z(e.I))},
		{"S", "KStr", obs.App("VStr", obs.HS(e.S))},
		{"B", "KBool", obs.App("VBool", obs.Bool(e.B))},
		{"PI", "KPInt", obs.App("VPInt", addon2.OptZ(e.PI))},
		{"PS", "KPStr", obs.App("VPStr", addon2.OptBytes(e.PS))},
		{"PB", "KPBool", obs.App("VPBool", addon2.OptBool(e.PB))},
		{"PB2", "KPBool", obs.App("VPBool", addon2.OptBool(e.PB2))},
		{"By", "KBytes", obs.App("VBytes", obs.H(e.By))},
		{"V32", "KVec32", obs.App("VVec32", u32list(e.V32))},
		{"V64", "KVec64", obs.App("VVec64", u64list(e.V64))},
		{"St", "KJson", obs.App("VJson", obs.HS(jsonText(e.St)))},
		{"PSt", "KJson", obs.App("VJson", obs.HS(jsonText(e.PSt)))},
		{"SSt", "KJson", obs.App("VJson", obs.HS(jsonText(e.SSt)))},
	}
}

func verlessFields(e *HVerless) []field {
	return []field{
		{"I", "KInt", obs.App("VInt", obs.Z(e.I))},
		{"S", "KStr", obs.App("VStr", obs.HS(e.S))},
		{"PS", "KPStr", obs.App("VPStr", addon2.OptBytes(e.PS))},
		{"PB", "KPBool", obs.App("VPBool", addon2.OptBool(e.PB))},
		{"By", "KBytes", obs.App("VBytes", obs.H(e.By))},
	}
}

func expFields(e *HExp) []field {
	return []field{
		{"S", "KStr", obs.App("VStr", obs.HS(e.S))},
		{"PI", "KPInt", obs.App("VPInt", addon2.OptZ(e.PI))},
		{"Exp", "KJson", obs.App("VJson", obs.HS(jsonText(e.Exp)))},
	}
}

func mkHEnt(d Ent) *HEnt {
	return &HEnt{Key: entKey, Ver: d.Ver, I: d.I, S: string(d.S), B: d.B, PI: d.PI, PS: strp(d.PS), PB: d.PB, PB2: d.PB2, By: d.By,
		V32: f32s(d.V32), V64: f64s(d.V64), St: d.St, PSt: d.PSt, SSt: d.SSt}
}

func mkVerless(d Ent) *HVerless {
	return &HVerless{Key: entKey, I: d.I, S: string(d.S), PS: strp(d.PS), PB: d.PB, By: d.By}
}

func expTime(now, in int64) (time.Time, int64) {
	if in == 0 {
		return time.Time{}, 0
	}
	t := time.UnixMilli(now + in).UTC()
	return t, now + in
}

// ---- equality of entities as the property means it (bit patterns for floats, nil == empty slice) ----

func eqBytes(a, b []byte) bool { return bytes.Equal(a, b) }

func eqP[T comparable](a, b *T) bool {
	if a == nil || b == nil {
		return a == nil && b == nil
	}
	return *a == *b
}

func eqF32(a, b []float32) bool {
	if len(a) != len(b) {
		return false
	}
	for i := range a {
		if math.Float32bits(a[i]) != math.Float32bits(b[i]) {
			return false
		}
	}
	return true
}

func eqF64(a, b []float64) bool {
	if len(a) != len(b) {
		return false
	}
	for i := range a {
		if math.Float64bits(a[i]) != math.Float64bits(b[i]) {
			return false
		}
	}
	return true
}

func diffHEnt(a, b *HEnt) string {
	var d []string
	add := func(ok bool, n string) {
		if !ok {
			d = append(d, n)
		}
	}
	add(a.Key == b.Key, "Key")
	add(a.Ver == b.Ver, "Ver")
	add(a.I == b.I, "I")
	add(a.S == b.S, "S")
	add(a.B == b.B, "B")
	add(eqP(a.PI, b.PI), "PI")
	add(eqP(a.PS, b.PS), "PS")
	add(eqP(a.PB, b.PB), "PB")
	add(eqP(a.PB2, b.PB2), "PB2")
	add(eqBytes(a.By, b.By), "By")
	add(eqF32(a.V32, b.V32), "V32")
	add(eqF64(a.V64, b.V64), "V64")
	add(jsonText(a.St) == jsonText(b.St), "St")
	add(jsonText(a.PSt) == jsonText(b.PSt), "PSt")
	add(jsonText(a.SSt) == jsonText(b.SSt) || (len(a.SSt) == 0 && len(b.SSt) == 0), "SSt")
	return strings.Join(d, ",")
}

func diffVerless(a, b *HVerless) string {
	var d []string
	add := func(ok bool, n string) {
		if !ok {
			d = append(d, n)
		}
	}
	add(a.Key == b.Key, "Key")
	add(a.I == b.I, "I")
	add(a.S == b.S, "S")
	add(eqP(a.PS, b.PS), "PS")
	add(eqP(a.PB, b.PB), "PB")
	add(eqBytes(a.By, b.By), "By")
	return strings.Join(d, ",")
}

func diffExp(a, b *HExp) string {
	var d []string
	add := func(ok bool, n string) {
		if !ok {
			d = append(d, n)
		}
	}
	add(a.Key == b.Key, "Key")
	add(a.Ver == b.Ver, "Ver")
	add(a.S == b.S, "S")
	add(eqP(a.PI, b.PI), "PI")
	add(a.Exp.Equal(b.Exp), "Exp")
	return strings.Join(d, ",")
}


// ---- values, not shared cells: snapshots, deep copies and writes THROUGH the pointers of an entity ----

// fieldSnap renders every top-level field of *T with what its pointers / slices currently lead to
func fieldSnap(x any) []string {
	v := reflect.ValueOf(x).Elem()
	out := make([]string, v.NumField())
	for i := range out {
		out[i] = v.Type().Field(i).Name + "=" + valSnap(v.Field(i))
	}
	return out
}

func valSnap(v reflect.Value) string {
	switch v.Kind() {
	case reflect.Ptr:
		if v.IsNil() {
			return "nil"
		}
		return "&" + valSnap(v.Elem())
	case reflect.Slice:
		if v.IsNil() {
			return "[]"
		}
		parts := make([]string, v.Len())
		for i := range parts {
			parts[i] = valSnap(v.Index(i))
		}
		return "[" + strings.Join(parts, " ") + "]"
	case reflect.Struct:
		if t, ok := v.Interface().(time.Time); ok {
			return t.UTC().Format(time.RFC3339Nano)
		}
		parts := make([]string, v.NumField())
		for i := range parts {
			parts[i] = valSnap(v.Field(i))
		}
		return "{" + strings.Join(parts, " ") + "}"
	case reflect.Float32:
		return fmt.Sprintf("f%08x", math.Float32bits(float32(v.Float())))
	case reflect.Float64:
		return fmt.Sprintf("f%016x", math.Float64bits(v.Float()))
	case reflect.String:
		return fmt.Sprintf("%q", v.String())
	default:
		return fmt.Sprint(v.Interface())
	}
}

// deepCopy returns a copy of *T that shares nothing with the original
func deepCopy(x any) any {
	src := reflect.ValueOf(x)
	dst := reflect.New(src.Elem().Type())
	copyVal(dst.Elem(), src.Elem())
	return dst.Interface()
}

func copyVal(dst, src reflect.Value) {
	switch src.Kind() {
	case reflect.Ptr:
		if !src.IsNil() {
			p := reflect.New(src.Type().Elem())
			copyVal(p.Elem(), src.Elem())
			dst.Set(p)
		}
	case reflect.Slice:
		if !src.IsNil() {
			sl := reflect.MakeSlice(src.Type(), src.Len(), src.Len())
			for i := 0; i < src.Len(); i++ {
				copyVal(sl.Index(i), src.Index(i))
			}
			dst.Set(sl)
		}
	case reflect.Struct:
		if _, ok := src.Interface().(time.Time); ok {
			dst.Set(src)
			return
		}
		for i := 0; i < src.NumField(); i++ {
			if dst.Field(i).CanSet() {
				copyVal(dst.Field(i), src.Field(i))
			}
		}
	default:
		dst.Set(src)
	}
}

// mutateField writes through the pointer / into the backing array of field i (never assigns the field itself);
// false when the field offers nothing to write through
func mutateField(x any, i int) bool {
	f := reflect.ValueOf(x).Elem().Field(i)
	switch f.Kind() {
	case reflect.Ptr:
		if f.IsNil() {
			return false
		}
		return bump(f.Elem())
	case reflect.Slice:
		if f.Len() == 0 {
			return false
		}
		return bump(f.Index(0))
	}
	return false
}

func bump(v reflect.Value) bool {
	switch v.Kind() {
	case reflect.Bool:
		v.SetBool(!v.Bool())
	case reflect.Int64:
		v.SetInt(v.Int() ^ 1)
	case reflect.Uint8:
		v.SetUint(v.Uint() ^ 0x20)
	case reflect.String:
		v.SetString(v.String() + "~")
	case reflect.Float32, reflect.Float64:
		if v.Float() == 1 {
			v.SetFloat(2)
		} else {
			v.SetFloat(1)
		}
	case reflect.Struct:
		for j := 0; j < v.NumField(); j++ {
			if v.Field(j).Kind() == reflect.Int64 && v.Field(j).CanSet() {
				v.Field(j).SetInt(v.Field(j).Int() ^ 1)
				return true
			}
		}
		return false
	default:
		return false
	}
	return true
}

// mutateAll writes through every pointer / slice field of fetched[target], one field at a time, and reports every
// OTHER field of any fetched entity that changed with it (two decoded values must never share a cell)
func mutateAll(fetched []any, target int, only int) (complaints []string, wrote int) {
	x := fetched[target]
	n := reflect.ValueOf(x).Elem().NumField()
	for i := 0; i < n; i++ {
		if only >= 0 && i != only%n {
			continue
		}
		before := make([][]string, len(fetched))
		for j, e := range fetched {
			before[j] = fieldSnap(e)
		}
		if !mutateField(x, i) {
			continue
		}
		wrote++
		for j, e := range fetched {
			after := fieldSnap(e)
			for k := range after {
				if j == target && k == i {
					if after[k] == before[j][k] {
						complaints = append(complaints, "harness: the write did not show in "+after[k])
					}
					continue
				}
				if after[k] != before[j][k] {
					complaints = append(complaints, fmt.Sprintf("writing through field %s of fetched entity #%d changed %s of fetched entity #%d into %s",
						reflect.TypeOf(x).Elem().Field(i).Name, target, before[j][k], j, after[k]))
				}
			}
		}
	}
	return
}

// ---- running a history ----

type saveOut struct {
	err    error
	newVer int64
	argKey string // the S field, identifies the saver in ARGV
}

func saveRes(versioned bool, oldVer int64, o saveOut) string {
	switch {
	case o.err == nil:
		return obs.App("SaveOk", obs.Z(o.newVer))
	case errors.Is(o.err, om.ErrVersionMismatch):
		return "SaveMismatch"
	default:
		return "SaveErr"
	}
}

type world struct {
	s    *fakeredis.Server
	eng  *scripting.Engine
	cls  []rueidis.Client
	res  *obs.Result
	fail func(class, msg string)
}

func newWorld(res *obs.Result, nclients int) (*world, error) {
	w := &world{res: res}
	w.s, w.eng = addon2.NewServer()
	for i := 0; i < nclients; i++ {
		o := addon2.Option(w.s)
		if i == 1 { // the client that reads through the client-side cache
			o = addon2.OrderedOption(w.s)
		}
		c, err := rueidis.NewClient(o)
		if err != nil {
			return nil, err
		}
		w.cls = append(w.cls, c)
	}
	w.fail = func(class, msg string) {
		if res.Oracle == "" {
			res.Oracle, res.Class = msg, class
		}
	}
	return w, nil
}

func (w *world) close() {
	for _, c := range w.cls {
		c.Close()
	}
}

// barrier makes sure the invalidations caused by everything executed so far have reached client c on the
// connection that serves the entity key: one more round trip for the same key on the same connection.
func (w *world) barrier(c rueidis.Client, key string) {
	c.Do(context.Background(), c.B().Exists().Key(key).Build())
}

const maxClients = 5

// repoOps abstracts over the entity types.
type repoOps struct {
	prefix    string
	versioned bool
	isJSON    bool
	// save the described entity through client i; returns what Save returned and the entity's version afterwards
	save func(ci int, d Ent, now int64) (saveOut, string /*entity term or tent term*/, any /*saved Go entity*/)
	// fetch through client i (cached or not): Gallina observation, Go entity, error
	fetch func(ci int, cached bool) (string, any, error)
	diff  func(saved, fetched any) string
	// version of a saved Go entity after Save
	ver func(e any) int64
	// hash-backed repositories only: save an existing Go entity (fetch-modify-save), fetch any id, build an
	// entity for another key
	saveEnt func(ci int, e any) (saveOut, string)
	fetchID func(id string) (any, error)
	other   func(d Ent, id string) any
}

func run(ci any) (res obs.Result) {
	c := ci.(Case)
	res.Kind = c.Repo
	res.Site = "om"
	switch c.Repo {
	case "dec":
		s := strconv.FormatInt(c.Z, 10)
		res.Coq = obs.App("CDec", obs.Z(c.Z), obs.HS(s))
		res.Sig, res.Nontrivial = "dec"+s, true
		return
	case "parse":
		z, err := strconv.ParseInt(string(c.Str), 10, 64)
		o := obs.None
		if err == nil {
			o = obs.Some(obs.Z(z))
		}
		res.Coq = obs.App("CParse", obs.H(c.Str), o)
		res.Sig, res.Nontrivial = "parse"+string(c.Str), true
		return
	}
	w, err := newWorld(&res, maxClients)
	if err != nil {
		res.Oracle = "harness: " + err.Error()
		return
	}
	defer w.close()
	ctx := context.Background()
	key := ""
	var ro repoOps
	switch c.Repo {
	case "hash", "args", "bigver":
		repos := make([]om.Repository[HEnt], maxClients)
		for i := range repos {
			repos[i] = om.NewHashRepository("h", HEnt{}, w.cls[i])
		}
		key = "h:" + entKey
		ro = repoOps{prefix: "h", versioned: true,
			save: func(i int, d Ent, now int64) (saveOut, string, any) {
				e := mkHEnt(d)
				term := entityTerm(entKey, e.Ver, hentFields(e), 0)
				err := repos[i].Save(ctx, e)
				return saveOut{err: err, newVer: e.Ver, argKey: e.S}, term, e
			},
			fetch: func(i int, cached bool) (string, any, error) {
				var e *HEnt
				var err error
				if cached {
					e, err = repos[i].FetchCache(ctx, entKey, time.Minute)
				} else {
					e, err = repos[i].Fetch(ctx, entKey)
				}
				if err != nil {
					return "", nil, err
				}
				return entityTerm(e.Key, e.Ver, hentFields(e), 0), e, nil
			},
			diff: func(a, b any) string { return diffHEnt(a.(*HEnt), b.(*HEnt)) },
			ver:  func(e any) int64 { return e.(*HEnt).Ver },
			saveEnt: func(i int, x any) (saveOut, string) {
				e := x.(*HEnt)
				term := entityTerm(e.Key, e.Ver, hentFields(e), 0)
				err := repos[i].Save(ctx, e)
				return saveOut{err: err, newVer: e.Ver, argKey: e.S}, term
			},
			fetchID: func(id string) (any, error) { return repos[3].Fetch(ctx, id) },
			other:   func(d Ent, id string) any { e := mkHEnt(d); e.Key = id; return e },
		}
	case "verless":
		repos := make([]om.Repository[HVerless], maxClients)
		for i := range repos {
			repos[i] = om.NewHashRepository("v", HVerless{}, w.cls[i])
		}
		key = "v:" + entKey
		ro = repoOps{prefix: "v", versioned: false,
			save: func(i int, d Ent, now int64) (saveOut, string, any) {
				e := mkVerless(d)
				term := entityTerm(entKey, 0, verlessFields(e), 0)
				err := repos[i].Save(ctx, e)
				return saveOut{err: err, newVer: 0, argKey: e.S}, term, e
			},
			fetch: func(i int, cached bool) (string, any, error) {
				var e *HVerless
				var err error
				if cached {
					e, err = repos[i].FetchCache(ctx, entKey, time.Minute)
				} else {
					e, err = repos[i].Fetch(ctx, entKey)
				}
				if err != nil {
					return "", nil, err
				}
				return entityTerm(e.Key, 0, verlessFields(e), 0), e, nil
			},
			diff: func(a, b any) string { return diffVerless(a.(*HVerless), b.(*HVerless)) },
			ver:  func(e any) int64 { return 0 },
			saveEnt: func(i int, x any) (saveOut, string) {
				e := x.(*HVerless)
				term := entityTerm(e.Key, 0, verlessFields(e), 0)
				err := repos[i].Save(ctx, e)
				return saveOut{err: err, newVer: 0, argKey: e.S}, term
			},
			fetchID: func(id string) (any, error) { return repos[3].Fetch(ctx, id) },
			other:   func(d Ent, id string) any { e := mkVerless(d); e.Key = id; return e },
		}
	case "exp":
		repos := make([]om.Repository[HExp], maxClients)
		for i := range repos {
			repos[i] = om.NewHashRepository("x", HExp{}, w.cls[i])
		}
		key = "x:" + entKey
		ro = repoOps{prefix: "x", versioned: true,
			save: func(i int, d Ent, now int64) (saveOut, string, any) {
				t, ext := expTime(now, d.ExpIn)
				e := &HExp{Key: entKey, Ver: d.Ver, S: string(d.S), PI: d.PI, Exp: t}
				term := entityTerm(entKey, e.Ver, expFields(e), ext)
				err := repos[i].Save(ctx, e)
				return saveOut{err: err, newVer: e.Ver, argKey: e.S}, term, e
			},
			fetch: func(i int, cached bool) (string, any, error) {
				var e *HExp
				var err error
				if cached {
					e, err = repos[i].FetchCache(ctx, entKey, time.Minute)
				} else {
					e, err = repos[i].Fetch(ctx, entKey)
				}
				if err != nil {
					return "", nil, err
				}
				return entityTerm(e.Key, e.Ver, expFields(e), 0), e, nil
			},
			diff: func(a, b any) string { return diffExp(a.(*HExp), b.(*HExp)) },
			ver:  func(e any) int64 { return e.(*HExp).Ver },
			saveEnt: func(i int, x any) (saveOut, string) {
				e := x.(*HExp)
				ext := int64(0)
				if !e.Exp.IsZero() {
					ext = e.Exp.UnixMilli()
				}
				term := entityTerm(e.Key, e.Ver, expFields(e), ext)
				err := repos[i].Save(ctx, e)
				return saveOut{err: err, newVer: e.Ver, argKey: e.S}, term
			},
			fetchID: func(id string) (any, error) { return repos[3].Fetch(ctx, id) },
			other:   func(d Ent, id string) any { return &HExp{Key: id, Ver: d.Ver, S: string(d.S), PI: d.PI} },
		}
	case "json":
		repos := make([]om.Repository[JEnt], maxClients)
		for i := range repos {
			repos[i] = om.NewJSONRepository("j", JEnt{}, w.cls[i])
		}
		key = "j:" + entKey
		body := func(e *JEnt) string { x := *e; x.Ver = 0; return jsonText(&x) }
		ro = repoOps{prefix: "j", versioned: true, isJSON: true,
			save: func(i int, d Ent, now int64) (saveOut, string, any) {
				t, ext := expTime(now, d.ExpIn)
				e := &JEnt{Key: entKey, Ver: d.Ver, S: genSafe(d.S), PI: d.PI, L: d.SSt, Exp: t}
				term := obs.App("Build_tent", obs.Z(e.Ver), obs.HS(body(e)), obs.Z(ext))
				err := repos[i].Save(ctx, e)
				return saveOut{err: err, newVer: e.Ver, argKey: e.S}, term, e
			},
			fetch: func(i int, cached bool) (string, any, error) {
				var e *JEnt
				var err error
				if cached {
					e, err = repos[i].FetchCache(ctx, entKey, time.Minute)
				} else {
					e, err = repos[i].Fetch(ctx, entKey)
				}
				if err != nil {
					return "", nil, err
				}
				return addon2.Pair(obs.Z(e.Ver), obs.HS(body(e))), e, nil
			},
			diff: func(a, b any) string {
				x, y := a.(*JEnt), b.(*JEnt)
				if x.Ver != y.Ver {
					return "ver"
				}
				if body(x) != body(y) {
					return "body"
				}
				return ""
			},
			ver: func(e any) int64 { return e.(*JEnt).Ver },
		}
	case "jsonverless":
		repos := make([]om.Repository[JVerless], maxClients)
		for i := range repos {
			repos[i] = om.NewJSONRepository("w", JVerless{}, w.cls[i])
		}
		key = "w:" + entKey
		ro = repoOps{prefix: "w", versioned: false, isJSON: true,
			save: func(i int, d Ent, now int64) (saveOut, string, any) {
				e := &JVerless{Key: entKey, S: genSafe(d.S), N: d.I}
				term := obs.App("Build_tent", obs.Z(0), obs.HS(jsonText(e)), obs.Z(0))
				err := repos[i].Save(ctx, e)
				return saveOut{err: err, newVer: 0, argKey: e.S}, term, e
			},
			fetch: func(i int, cached bool) (string, any, error) {
				var e *JVerless
				var err error
				if cached {
					e, err = repos[i].FetchCache(ctx, entKey, time.Minute)
				} else {
					e, err = repos[i].Fetch(ctx, entKey)
				}
				if err != nil {
					return "", nil, err
				}
				return addon2.Pair(obs.Z(0), obs.HS(jsonText(e))), e, nil
			},
			diff: func(a, b any) string {
				if jsonText(a) != jsonText(b) {
					return "body"
				}
				return ""
			},
			ver: func(e any) int64 { return 0 },
		}
	}
	res.Site = map[bool]string{false: "om/hash.go:HashRepository", true: "om/json.go:JSONRepository"}[ro.isJSON]

	if c.Repo == "args" {
		d := c.Ops[0].Ents[0]
		e := mkHEnt(d)
		before := len(w.eng.Runs())
		term := entityTerm(entKey, e.Ver, hentFields(e), 0)
		_ = repoSaveHEnt(ctx, w.cls[0], e)
		runs := w.eng.Runs()
		if len(runs) != before+1 {
			res.Oracle, res.Class = fmt.Sprintf("harness: %d script runs for one Save", len(runs)-before), "harness"
			return
		}
		res.Coq = obs.App("CArgs", schemaTerm(true, hentFields(e)), term, obs.ListOf(runs[before].Args, obs.HS))
		res.Sig, res.Nontrivial = "args"+term, true
		res.Obs = runs[before].Args
		return
	}

	var opTerms, obsTerms []string
	var lastSaved any // a private copy of the entity of the last successful save that nothing invalidated since
	var fetched []any // entities handed out by Fetch so far (the harness writes through their pointers later)
	var otherSaved any // what was saved under the second key
	var ttl int64     // expiry of the key as the oracle tracks it (0 = none); independent of the model
	tOp := func(name string, args ...string) string {
		if ro.isJSON {
			return obs.App(name, args...)
		}
		return obs.App(name, append([]string{"tJ"}, args...)...)
	}
	nontrivial := false
	sig := []string{c.Repo}
	if ro.other != nil && c.Repo != "bigver" { // an entity under a second key: fetched values must not share cells across keys either
		d := genEnt(gen.New(uint64(len(c.Ops))+7), 0)
		tr, i64, st := true, int64(77), []byte("other")
		d.PB, d.PB2, d.PI, d.PS = &tr, &tr, &i64, &st
		o := ro.other(d, "k2")
		if out, _ := ro.saveEnt(3, o); out.err == nil {
			otherSaved = deepCopy(o)
			if got, err := ro.fetchID("k2"); err == nil {
				fetched = append(fetched, got)
			}
		}
	}
	for _, op := range c.Ops {
		now := w.s.Now()
		if ttl != 0 && now >= ttl { // the key expired
			lastSaved, ttl = nil, 0
		}
		switch op.Kind {
		case "advance":
			w.s.Advance(op.Ms)
		case "save", "csave":
			n := len(op.Ents)
			if n > maxClients {
				n = maxClients
			}
			outs := make([]saveOut, n)
			terms := make([]string, n)
			ents := make([]any, n)
			before := len(w.eng.Runs())
			var wg sync.WaitGroup
			for i := 0; i < n; i++ {
				wg.Add(1)
				go func(i int) {
					defer wg.Done()
					outs[i], terms[i], ents[i] = ro.save(i, op.Ents[i], now)
				}(i)
			}
			wg.Wait()
			// the order in which the server executed the script bodies
			runs := w.eng.Runs()[before:]
			order := make([]int, 0, n)
			if n == 1 {
				order = append(order, 0)
			} else {
				for _, rn := range runs {
					for i := 0; i < n; i++ {
						if argsCarry(rn.Args, outs[i].argKey) {
							order = append(order, i)
						}
					}
				}
			}
			if len(order) != n || len(runs) != n {
				w.fail("harness", fmt.Sprintf("harness: %d script runs / %d identified for %d saves", len(runs), len(order), n))
				return
			}
			wins := 0
			for _, i := range order {
				d := op.Ents[i]
				if ro.isJSON {
					opTerms = append(opTerms, obs.App("JSave", obs.Z(now), terms[i]))
					obsTerms = append(obsTerms, obs.App("JBSave", jsaveRes(outs[i])))
				} else {
					opTerms = append(opTerms, tOp("OSave", obs.Z(now), terms[i]))
					obsTerms = append(obsTerms, tOp("BSave", saveRes(ro.versioned, d.Ver, outs[i])))
				}
				switch {
				case outs[i].err == nil:
					wins++
					if ro.versioned && outs[i].newVer != d.Ver+1 {
						cls := "version-plus-one"
						if d.Ver+1 >= 100000000000000 || d.Ver <= -100000000000000 {
							cls = "version-beyond-lua-integer-printing"
						}
						w.fail(cls, fmt.Sprintf("Save of version %d succeeded and left version %d in the entity", d.Ver, outs[i].newVer))
					}
					lastSaved = deepCopy(ents[i])
					if d.ExpIn != 0 && (c.Repo == "exp" || c.Repo == "json") {
						if ttl = now + d.ExpIn; ttl <= now { // saved an already expired object: gone at once
							lastSaved, ttl = nil, 0
						}
					}
				case errors.Is(outs[i].err, om.ErrVersionMismatch):
				default:
					w.fail("save-error", fmt.Sprintf("Save returned %v", outs[i].err))
				}
			}
			if op.Kind == "csave" && ro.versioned {
				nontrivial = true
				if wins > 1 {
					w.fail("one-winner", fmt.Sprintf("%d of %d concurrent saves carrying version %d succeeded", wins, n, op.Ents[0].Ver))
				}
			}
			sig = append(sig, fmt.Sprint(op.Kind, n, op.Ents[0].Ver, wins))
		case "fetch", "fetchcache":
			cli := 0
			if op.Kind == "fetchcache" {
				cli = 1
				w.barrier(w.cls[cli], key)
			}
			term, got, err := ro.fetch(cli, op.Kind == "fetchcache")
			var o string
			switch {
			case err == nil:
				o = obs.Ok(term)
			case errors.Is(err, om.ErrEmptyHashRecord) || rueidis.IsRedisNil(err):
				o = obs.Err(1)
			default:
				o = obs.Err(2)
			}
			if ro.isJSON {
				opTerms = append(opTerms, obs.App("JFetch", obs.Z(now)))
				obsTerms = append(obsTerms, obs.App("JBFetch", o))
			} else {
				opTerms = append(opTerms, tOp("OFetch", obs.Z(now)))
				obsTerms = append(obsTerms, tOp("BFetch", o))
			}
			if err == nil && ro.saveEnt != nil {
				fetched = append(fetched, got)
			}
			if lastSaved != nil {
				nontrivial = true
				if err != nil {
					w.fail("roundtrip", fmt.Sprintf("%s after a successful Save returned %v", op.Kind, err))
				} else if d := ro.diff(lastSaved, got); d != "" {
					w.fail("roundtrip:"+d, fmt.Sprintf("%s after Save differs from the saved entity in %s: saved %s fetched %s", op.Kind, d, show(lastSaved), show(got)))
				}
			}
			sig = append(sig, op.Kind, fmt.Sprint(err == nil))
		case "mutate": // write through the pointers of an entity Fetch handed out earlier: nothing else may change
			if len(fetched) == 0 {
				continue
			}
			comp, wrote := mutateAll(fetched, int(op.Ms)%len(fetched), -1)
			if len(comp) > 0 {
				w.fail("fetched-values-share-cells", comp[0])
			}
			if wrote > 0 {
				nontrivial = true
			}
			sig = append(sig, fmt.Sprint("mutate", wrote))
		case "modsave": // fetch, modify through the pointers, save: the normal update cycle
			if ro.saveEnt == nil {
				continue
			}
			term, got, err := ro.fetch(0, false)
			o := obs.Err(2)
			switch {
			case err == nil:
				o = obs.Ok(term)
			case errors.Is(err, om.ErrEmptyHashRecord) || rueidis.IsRedisNil(err):
				o = obs.Err(1)
			}
			opTerms = append(opTerms, tOp("OFetch", obs.Z(now)))
			obsTerms = append(obsTerms, tOp("BFetch", o))
			if err != nil {
				continue
			}
			if lastSaved != nil {
				if d := ro.diff(lastSaved, got); d != "" {
					w.fail("roundtrip:"+d, fmt.Sprintf("fetch after Save differs from the saved entity in %s: saved %s fetched %s", d, show(lastSaved), show(got)))
				}
			}
			if reflect.ValueOf(got).Elem().FieldByName("Key").String() != entKey {
				continue // a hash somebody else created without the key field: saving it would go to another key
			}
			fetched = append(fetched, got)
			comp, _ := mutateAll(fetched, len(fetched)-1, int(op.Ms))
			if len(comp) > 0 {
				w.fail("fetched-values-share-cells", comp[0])
			}
			oldVer := ro.ver(got)
			out, sterm := ro.saveEnt(0, got)
			opTerms = append(opTerms, tOp("OSave", obs.Z(now), sterm))
			obsTerms = append(obsTerms, tOp("BSave", saveRes(ro.versioned, oldVer, out)))
			if out.err == nil {
				nontrivial = true
				if ro.versioned && out.newVer != oldVer+1 {
					w.fail("version-plus-one", fmt.Sprintf("Save of version %d succeeded and left version %d in the entity", oldVer, out.newVer))
				}
				lastSaved = deepCopy(got)
				if x, ok := got.(*HExp); ok && !x.Exp.IsZero() {
					if ttl = x.Exp.UnixMilli(); ttl <= now {
						lastSaved, ttl = nil, 0
					}
				}
			} else if !errors.Is(out.err, om.ErrVersionMismatch) {
				w.fail("save-error", fmt.Sprintf("Save returned %v", out.err))
			}
			sig = append(sig, fmt.Sprint("modsave", out.err == nil))
		case "remove":
			w.cls[0].Do(ctx, w.cls[0].B().Del().Key(key).Build())
			lastSaved, ttl = nil, 0
			if ro.isJSON {
				opTerms = append(opTerms, "JRemove")
				obsTerms = append(obsTerms, "JBNone")
			} else {
				opTerms = append(opTerms, tOp("ORemove"))
				obsTerms = append(obsTerms, tOp("BNone"))
			}
			sig = append(sig, "remove")
		case "rawhset":
			w.cls[2].Do(ctx, w.cls[2].B().Hset().Key(key).FieldValue().FieldValue(string(op.F), string(op.V)).Build())
			lastSaved = nil // another application changed the hash: the round-trip claim no longer applies
			opTerms = append(opTerms, tOp("ORawHSet", obs.Z(now), obs.H(op.F), obs.H(op.V)))
			obsTerms = append(obsTerms, tOp("BNone"))
			sig = append(sig, "raw"+string(op.F))
		}
	}
	if otherSaved != nil { // the entity under the second key still reads back as it was saved
		if got, err := ro.fetchID("k2"); err != nil {
			w.fail("roundtrip-other-key", fmt.Sprintf("Fetch of the second key returned %v", err))
		} else if d := ro.diff(otherSaved, got); d != "" {
			w.fail("roundtrip-other-key:"+d, fmt.Sprintf("Fetch of the second key differs from what was saved there in %s: saved %s fetched %s", d, show(otherSaved), show(got)))
		}
	}
	res.Nontrivial = nontrivial
	res.Sig = strings.Join(sig, "|") + fmt.Sprint(len(opTerms))
	res.Obs = obsTerms
	if c.Repo == "bigver" {
		// outside the modelled range of Lua number formatting: oracle only
		return
	}
	if ro.isJSON {
		vn := obs.HS("ver")
		if !ro.versioned {
			vn = "[]"
		}
		res.Coq = obs.App("CJson", vn, obs.List(opTerms), obs.List(obsTerms))
	} else {
		var sc string
		switch c.Repo {
		case "hash":
			sc = schemaTerm(true, hentFields(&HEnt{}))
		case "verless":
			sc = schemaTerm(false, verlessFields(&HVerless{}))
		case "exp":
			sc = schemaTerm(true, expFields(&HExp{}))
		}
		res.Coq = obs.App("CHash", sc, "("+obs.List(opTerms)+" : list (op tJ))", "("+obs.List(obsTerms)+" : list (obs tJ))")
	}
	return
}

func jsaveRes(o saveOut) string {
	switch {
	case o.err == nil:
		return obs.App("JSaveOk", obs.Z(o.newVer))
	case errors.Is(o.err, om.ErrVersionMismatch):
		return "JSaveMismatch"
	default:
		return "JSaveErr"
	}
}

// show prints an entity for messages (float vectors as bit patterns: NaN has no JSON form).
func show(e any) string {
	if h, ok := e.(*HEnt); ok {
		x := *h
		x.V32, x.V64 = nil, nil
		return jsonText(&x) + " V32=" + u32list(h.V32) + " V64=" + u64list(h.V64)
	}
	return jsonText(e)
}

// genSafe turns arbitrary bytes into valid UTF-8 (JSON documents cannot carry anything else).
func genSafe(b []byte) string { return strings.ToValidUTF8(string(b), "?") }

func argsCarry(args []string, marker string) bool {
	for _, a := range args {
		if a == marker || strings.Contains(a, `"`+marker+`"`) {
			return true
		}
	}
	return false
}

func repoSaveHEnt(ctx context.Context, c rueidis.Client, e *HEnt) error {
	return om.NewHashRepository("h", HEnt{}, c).Save(ctx, e)
}

var _ = reflect.DeepEqual
var _ = sort.Strings

func main() {
	obs.Main(obs.Runner{
		Name: "obs_om", Salt: 40,
		Gen: genCase,
		Decode: func(raw json.RawMessage) (any, error) {
			var c Case
			err := json.Unmarshal(raw, &c)
			return c, err
		},
		Run: run,
	})
}
