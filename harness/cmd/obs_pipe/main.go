// obs_pipe: C01 — auto-pipelined calls receive their own replies, in order.
//
// A REAL client (built from the working tree) runs against the in-process fakeredis server.
// G goroutines issue uniquely tagged commands (single, batched, client-side-cached, subscribe /
// unsubscribe) through one client, in many configurations (ring / flow-buffer queue, RESP3 / RESP2,
// PipelineMultiplex, RingScaleEachConn, AlwaysPipelining / DisableAutoPipelining, MaxFlushDelay), with
// random context cancellations, while the server injects pushes.
//
// Direct oracle (independent of the model): every returned reply carries the caller's own tag, batches
// positionally; a successful command was executed exactly once by the server, a cancelled one at most
// once; a failed call failed with its own context's error; nothing hangs.
//
// Correspondence: for every connection the exact frames the server sent and the wire order of the
// commands are replayed through Model/Pipe.v (sync reads + reader_step); the model's deliveries must
// equal what the callers were handed.
package main

import (
	"context"
	"encoding/json"
	"errors"
	"fmt"
	"os"
	"runtime"
	"sort"
	"strconv"
	"strings"
	"sync"
	"sync/atomic"
	"time"

	"github.com/redis/rueidis"

	"verifharness/fakeredis"
	"verifharness/gen"
	"verifharness/obs"
	"verifharness/pipe"
)

type Op struct {
	Kind string `json:"k"`           // echo | get | pipe | multi | cache | mcache | sub | unsub | msub | mixsub
	N    int    `json:"n,omitempty"` // batch size / number of channels
	Ctx  string `json:"ctx"`         // bg | live | cancel | deadline | short | done
	Us   int    `json:"us,omitempty"`
}

type Case struct {
	Queue   string `json:"queue"` // ring | flowbuffer
	Resp2   bool   `json:"resp2"`
	Mux     int    `json:"mux"`  // PipelineMultiplex: -1 (one connection), 1, 2
	Ring    int    `json:"ring"` // RingScaleEachConn 1..3, 0 = default
	Always  bool   `json:"always"`
	NoAuto  bool   `json:"noauto"`
	FlushUs int    `json:"flush_us"`
	Cache   bool   `json:"cache"`
	Pushes  int    `json:"pushes"`
	Ops     [][]Op `json:"ops"`
	// Script "early-take": two concurrent calls on a 2-slot ring while the writer sits in its flush
	// delay, and one proactive sunsubscribe push 10 ms later (what a cluster sends on slot migration).
	//
	// Script "flow-race" (flow buffer, synchronous phase): caller 1 runs synchronously; caller 2 queues behind it
	// and gives up in PutOne on a cancelled context at the moment caller 1 leaves the synchronous path (held at the
	// gap hooks "do-put" / "do-bg-after"); caller 3 arrives before caller 1 calls background().  Caller 3 must not be
	// on the connection synchronously when the background workers start.
	//
	// Script "stolen-reply" (2 queue entries, 3 callers): A and B occupy the two entries, C waits for A's entry;
	// the server holds A's reply; A is cancelled and held (gap hook "do-abort" / "multi-abort") between leaving its
	// select and starting the goroutine that swallows the abandoned reply; then the server answers.  The reader must
	// hand A's reply over before it releases A's entry: while A is held the entry must stay A's, and C must never
	// receive A's reply on the entry's channel.
	Script string `json:"script,omitempty"`
}

func genCase(r *gen.Rand, i int) any {
	if i%40 == 27 {
		// a caller joins another caller's pending cache flight while the server is between the QUEUED
		// replies and the EXEC reply of that flight; a proactive sunsubscribe push arrives in that window
		return Case{Script: "push-mid-cache", Queue: gen.Pick(r, []string{"ring", "flowbuffer"}), Ring: gen.Pick(r, []int{1, 3, 0}), Mux: -1,
			Always: r.Bool(), Cache: true, Ops: [][]Op{{{Kind: "cache", Ctx: "bg"}}, {{Kind: "cachejoin", Ctx: "bg"}}}}
	}
	if i%20 == 13 {
		return Case{Script: "stolen-reply", Queue: []string{"ring", "flowbuffer"}[(i/20)%2], Ring: 1, Mux: -1, Always: true,
			Ops: [][]Op{{{Kind: []string{"echo", "multi"}[(i/40)%2], N: 2, Ctx: "script"}}, {{Kind: "echo", Ctx: "bg"}}, {{Kind: "echo", Ctx: "bg"}}}}
	}
	if i%40 == 17 {
		return Case{Script: "flow-race", Queue: "flowbuffer", Ring: gen.Pick(r, []int{1, 3, 0}), Mux: -1,
			Ops: [][]Op{{{Kind: "echo", Ctx: "bg"}}, {{Kind: "echo", Ctx: "script"}}, {{Kind: "echo", Ctx: "bg"}}}}
	}
	if i%40 == 7 {
		return Case{Script: "early-take", Queue: "ring", Ring: 1, Mux: -1, Always: true, FlushUs: 300000, Cache: r.Bool(),
			Ops: [][]Op{{{Kind: "echo", Ctx: "bg"}}, {{Kind: gen.Pick(r, []string{"echo", "multi"}), N: 2, Ctx: "bg"}},
				{{Kind: "echo", Ctx: "bg"}}, {{Kind: "echo", Ctx: "bg"}}, {{Kind: "echo", Ctx: "bg"}}, {{Kind: "echo", Ctx: "bg"}}}}
	}
	c := Case{Queue: gen.Pick(r, []string{"ring", "flowbuffer"}), Resp2: r.Chance(1, 4), Mux: gen.Pick(r, []int{-1, -1, 1, 2}),
		Ring: gen.Pick(r, []int{1, 1, 2, 3, 0})}
	switch r.Intn(5) {
	case 0:
		c.Always = true
	case 1:
		c.NoAuto = true
	}
	if r.Chance(1, 4) {
		c.FlushUs = gen.Pick(r, []int{20, 100, 500})
	}
	c.Cache = !c.Resp2 && r.Chance(2, 3)
	c.Pushes = gen.Pick(r, []int{0, 0, 3, 10, 30})
	g := gen.Pick(r, []int{2, 2, 3, 4, 4, 8, 8, 16, 32})
	maxOps := 6
	if g >= 16 {
		maxOps = 3
	}
	for t := 0; t < g; t++ {
		n := r.Range(1, maxOps)
		var ops []Op
		subscribed := false
		for j := 0; j < n; j++ {
			o := Op{}
			kinds := []string{"echo", "echo", "get", "pipe", "multi", "multi"}
			if c.Cache {
				kinds = append(kinds, "cache", "cache", "mcache")
			}
			if !c.NoAuto {
				kinds = append(kinds, "sub", "msub")
				if !c.Resp2 {
					kinds = append(kinds, "mixsub")
				}
			}
			o.Kind = gen.Pick(r, kinds)
			if subscribed && r.Chance(1, 2) {
				o.Kind = "unsub"
			}
			switch o.Kind {
			case "multi", "mcache", "mixsub":
				o.N = r.Range(2, 6)
			case "sub", "unsub":
				o.N = r.Range(1, 3)
				subscribed = o.Kind == "sub"
			case "msub":
				o.N = r.Range(2, 3)
			}
			ctxs := []string{"bg", "bg", "live", "live", "cancel", "cancel", "deadline", "done"}
			if c.Always {
				ctxs = append(ctxs, "short", "short")
			}
			o.Ctx = gen.Pick(r, ctxs)
			if o.Ctx == "cancel" || o.Ctx == "short" {
				o.Us = gen.Pick(r, []int{0, 1, 5, 20, 50, 200, 1000})
			}
			ops = append(ops, o)
		}
		c.Ops = append(c.Ops, ops)
	}
	return c
}

func decode(raw json.RawMessage) (any, error) {
	var c Case
	err := json.Unmarshal(raw, &c)
	return c, err
}

// one issued call
type issued struct {
	id      int
	op      Op
	tags    []string // expected payloads, positionally ("" = no payload check)
	wireN   int      // number of tagged commands expected in the server log when executed
	err     error    // first non-Redis error
	got     []string
	ctxErr  error
	call    *pipe.Call
	elapsed time.Duration
}

func val(k string) string { return "v:" + k }

// A scripted scenario depends on the writer being inside its flush delay when the push arrives: it
// is attempted a few times, the first failing attempt is reported.
func run(ci any) (res obs.Result) {
	c := ci.(Case)
	n := 1
	if c.Script != "" {
		n = 4
	}
	if c.Script == "stolen-reply" {
		for i := 0; i < 4; i++ {
			res = runOnce(c)
			if res.Oracle != "" || res.Nontrivial {
				return res
			}
		}
		return res
	}
	if c.Script == "flow-race" {
		// PutOne chooses at random between the free position and the done context: repeat until it gave up
		for i := 0; i < 12; i++ {
			res = runOnce(c)
			if res.Oracle != "" || res.Nontrivial {
				return res
			}
		}
		return res
	}
	for i := 0; i < n; i++ {
		res = runOnce(c)
		if res.Oracle != "" {
			return res
		}
	}
	return res
}

// flowRace is the controller of the script "flow-race".
type flowRace struct {
	gate            [3]chan struct{} // caller t starts when gate[t] is closed
	opDone          [3]chan struct{}
	atPut, relPut   chan struct{}
	atBg, relBg     chan struct{}
	nPut, nBg       atomic.Int32
	cancel2         atomic.Value // context.CancelFunc of caller 2
	echoes          atomic.Int32 // ECHO commands the server has received since the script was armed
	void            bool         // the interleaving was not reached (PutOne took the free position, or a time-out)
	violation       string
	stolen          bool          // script "stolen-reply" (otherwise "flow-race")
	srvGo           chan struct{} // stolen-reply: the server may answer
	tracing         bool
	order           []int
	relPutO, relBgO sync.Once
	srvO            sync.Once
}

func newFlowRace() *flowRace {
	f := &flowRace{atPut: make(chan struct{}), relPut: make(chan struct{}), atBg: make(chan struct{}), relBg: make(chan struct{}), srvGo: make(chan struct{})}
	for i := range f.gate {
		f.gate[i], f.opDone[i] = make(chan struct{}), make(chan struct{})
	}
	return f
}

func (f *flowRace) hook(site string) {
	switch site {
	case "do-put":
		if !f.stolen && f.nPut.Add(1) == 1 {
			close(f.atPut)
			<-f.relPut
		}
	case "do-bg-after":
		if !f.stolen && f.nBg.Add(1) == 1 {
			close(f.atBg)
			<-f.relBg
		}
	case "do-abort", "multi-abort":
		if f.stolen && f.nBg.Add(1) == 1 {
			close(f.atBg) // caller A has left its select and has not started the swallowing goroutine yet
			<-f.relBg
		}
	}
}

// trace markers of the script "stolen-reply" (kinds above those of the queue hooks)
const (
	evHeld = 1000 // caller A is held, the server is told to answer
	evLet  = 1001 // caller A is let through to its receive
)

// controlStolen drives the script "stolen-reply".
func (f *flowRace) controlStolen(cl rueidis.Client) {
	defer f.releaseAll()
	waitWaits := func(n int32) bool {
		for i := 0; i < 2000; i++ {
			if _, w, _ := rueidis.VerifPipeCounters(cl); w == n {
				return true
			}
			time.Sleep(time.Millisecond)
		}
		return false
	}
	_, w0, _ := rueidis.VerifPipeCounters(cl)
	close(f.gate[0])
	for i := 0; f.echoes.Load() < 1; i++ { // the server has A's command and keeps the reply
		if i > 2000 {
			f.void = true
			return
		}
		time.Sleep(time.Millisecond)
	}
	close(f.gate[1])
	if !waitWaits(w0 + 2) { // B is queued in the other entry
		f.void = true
		return
	}
	time.Sleep(5 * time.Millisecond) // B has its entry
	close(f.gate[2])
	if !waitWaits(w0 + 3) { // C has entered Do ...
		f.void = true
		return
	}
	time.Sleep(5 * time.Millisecond) // ... and waits for A's entry
	rueidis.VerifTraceStart()
	f.tracing = true
	if cf, ok := f.cancel2.Load().(context.CancelFunc); ok {
		cf()
	}
	if !waitFor(f.atBg, 2*time.Second) {
		f.void = true
		return
	}
	rueidis.VerifEmit(evHeld, 0, 0)
	f.srvO.Do(func() { close(f.srvGo) }) // the server answers A, then B
	time.Sleep(40 * time.Millisecond)    // the reader has A's reply and nobody to hand it to
	rueidis.VerifEmit(evLet, 0, 0)
	f.relBgO.Do(func() { close(f.relBg) })
}

// orderOf maps the trace to the events of A's entry: 1 = A let through, 2 = an entry released (ring: evRUnlock 39,
// flow buffer: evFPutF 57), 3 = a waiting producer occupied an entry (evPutFill 32 / evFTake 50); from the moment A
// is held on, up to the first few events.
func orderOf(evs []rueidis.VerifEvent) (order []int, early string) {
	on := false
	for _, e := range evs {
		switch {
		case e.Kind == evHeld:
			on = true
		case !on:
		case e.Kind == evLet:
			order = append(order, 1)
		case e.Kind == 39 || e.Kind == 57:
			order = append(order, 2)
		case e.Kind == 32 || e.Kind == 50:
			order = append(order, 3)
		}
		if len(order) >= 6 {
			break
		}
	}
	for _, o := range order {
		if o == 1 {
			break
		}
		if o == 2 {
			return order, "the reader released the queue entry of a caller that had not received its reply yet (the entry's channel is reused by the next occupant)"
		}
		if o == 3 {
			return order, "a producer occupied the queue entry of a caller that had not received its reply yet"
		}
	}
	return order, ""
}

func (f *flowRace) releaseAll() {
	f.srvO.Do(func() { close(f.srvGo) })
	f.relPutO.Do(func() { close(f.relPut) })
	f.relBgO.Do(func() { close(f.relBg) })
	for i := range f.gate {
		select {
		case <-f.gate[i]:
		default:
			close(f.gate[i])
		}
	}
}

func waitFor(ch chan struct{}, d time.Duration) bool {
	select {
	case <-ch:
		return true
	case <-time.After(d):
		return false
	}
}

// control drives the interleaving; it returns when every caller has been released.
func (f *flowRace) control(cl rueidis.Client) {
	defer f.releaseAll()
	close(f.gate[0])
	for i := 0; f.echoes.Load() < 1; i++ { // caller 1 is on the connection, its reply is delayed
		if i > 2000 {
			f.void = true
			return
		}
		time.Sleep(time.Millisecond)
	}
	close(f.gate[1])
	if !waitFor(f.atPut, 2*time.Second) || !waitFor(f.atBg, 2*time.Second) {
		f.void = true
		return
	}
	_, w0, _ := rueidis.VerifPipeCounters(cl)
	if cf, ok := f.cancel2.Load().(context.CancelFunc); ok {
		cf()
	}
	f.relPutO.Do(func() { close(f.relPut) })
	if !waitFor(f.opDone[1], 2*time.Second) {
		f.void = true
		return
	}
	time.Sleep(2 * time.Millisecond)
	if _, w1, _ := rueidis.VerifPipeCounters(cl); w1 != w0-1 {
		f.void = true // PutOne took the free position: caller 2 is queued, its count stays until its reply is drained
		return
	}
	// caller 2 has left through the PutOne error path; caller 1 has not called background() yet
	close(f.gate[2])
	reached := false
	for i := 0; i < 30 && !reached; i++ {
		time.Sleep(time.Millisecond)
		reached = f.echoes.Load() >= 2
	}
	f.relBgO.Do(func() { close(f.relBg) })
	time.Sleep(10 * time.Millisecond)
	st, w, bg := rueidis.VerifPipeCounters(cl)
	select {
	case <-f.opDone[2]:
	default:
		if reached && bg == 1 {
			f.violation = fmt.Sprintf("caller 3 is using the connection synchronously (its command reached the server before background() was called, its reply is still due) while the background workers run on the same connection (state=%d waits=%d bgState=%d)", st, w, bg)
		}
	}
}

func runOnce(c Case) (res obs.Result) {
	res.Kind = fmt.Sprintf("%s/resp%d/mux%d/%s", c.Queue, map[bool]int{false: 3, true: 2}[c.Resp2], c.Mux,
		map[bool]string{true: "always", false: map[bool]string{true: "noauto", false: "auto"}[c.NoAuto]}[c.Always])
	res.Site, res.Class = "pipe.go:_backgroundRead", "misrouted-reply"

	rueidis.VerifPipeSetQueueType(c.Queue)
	s := fakeredis.New()
	s.NoHello = c.Resp2
	rec := pipe.NewRecorder(s)
	opt := rueidis.ClientOption{InitAddress: []string{"127.0.0.1:6379"}, DialCtxFn: rec.Dial, ForceSingleClient: true,
		DisableRetry: true, DisableCache: !c.Cache, PipelineMultiplex: c.Mux, RingScaleEachConn: c.Ring,
		AlwaysPipelining: c.Always, DisableAutoPipelining: c.NoAuto, MaxFlushDelay: time.Duration(c.FlushUs) * time.Microsecond}
	opt.Dialer.KeepAlive = -1 // no background PINGs
	cl, err := rueidis.NewClient(opt)
	if err != nil {
		res.Oracle = "NewClient failed against a healthy server: " + err.Error()
		res.Class = "setup"
		return
	}

	// plan: call ids are global, tags derive from them
	var nextID int32
	var mu sync.Mutex
	var all []*issued
	var sharedKey string
	calls := map[int]*pipe.Call{}
	// all keys any get/cache op may read exist beforehand with a value that names the key
	preKey := func(k string) {
		s.Lock()
		s.DB[k] = &fakeredis.Item{Kind: "string", Str: val(k)}
		s.Unlock()
	}

	// warm-up: create every multiplexed connection before the concurrent phase (a dial shares the
	// context of the caller that triggered it; a cancelled dial would fail unrelated callers)
	want := 1
	if c.Mux > 0 {
		want = 1 << c.Mux
	}
	for i := 0; i < 400 && len(rec.Conns()) < want; i++ {
		id := int(atomic.AddInt32(&nextID, 1))
		k := "k:" + pipe.Tag(id, 0)
		preKey(k)
		is := &issued{id: id, op: Op{Kind: "warm", Ctx: "bg"}, tags: []string{val(k)}, wireN: 1}
		call := &pipe.Call{ID: id}
		is.call = call
		is.record(cl.Do(context.Background(), cl.B().Get().Key(k).Build().ToPipe()), call)
		all = append(all, is)
		calls[id] = call
	}

	var wg sync.WaitGroup
	stopPush := make(chan struct{})
	var pushWg sync.WaitGroup
	if c.Pushes > 0 {
		pushWg.Add(1)
		go func() {
			defer pushWg.Done()
			for i := 0; i < c.Pushes; i++ {
				select {
				case <-stopPush:
					return
				default:
				}
				conns := s.Conns()
				// under the server lock: a real server emits the confirmations of one SUBSCRIBE
				// contiguously, an out-of-band push never lands between them
				s.Lock()
				for _, fc := range conns {
					if fc.Proto < 3 {
						continue
					}
					switch i % 4 {
					case 0:
						fc.SendPush(fakeredis.Push(fakeredis.Bulk("message"), fakeredis.Bulk("zz"), fakeredis.Bulk(fmt.Sprint("p", i))))
					case 1:
						fc.SendPush(fakeredis.Push(fakeredis.Bulk("sunsubscribe"), fakeredis.Bulk("zz"), fakeredis.Int(0)))
					case 2:
						fc.SendPush(fakeredis.Push(fakeredis.Bulk("invalidate"), fakeredis.Arr(fakeredis.Bulk("nokey"))))
					default:
						fc.SendPush(fakeredis.Push(fakeredis.Bulk("server-cpu-usage"), fakeredis.Int(int64(i))))
					}
				}
				s.Unlock()
				time.Sleep(time.Duration(20+i%7*30) * time.Microsecond)
			}
		}()
	}

	start := make(chan struct{})
	var race *flowRace
	if c.Script == "flow-race" || c.Script == "stolen-reply" {
		race = newFlowRace()
		race.stolen = c.Script == "stolen-reply"
	}
	if c.Script == "push-mid-cache" {
		s.Fault = func(fc *fakeredis.Conn, cseq int, argv []string) fakeredis.Action {
			if up(argv[0]) == "EXEC" {
				return fakeredis.Action{Delay: 100 * time.Millisecond}
			}
			return fakeredis.Action{}
		}
		pushWg.Add(1)
		go func() {
			defer pushWg.Done()
			<-start
			time.Sleep(40 * time.Millisecond)
			conns := s.Conns()
			s.Lock()
			for _, fc := range conns {
				if fc.Proto >= 3 {
					fc.SendPush(fakeredis.Push(fakeredis.Bulk("sunsubscribe"), fakeredis.Bulk("zz"), fakeredis.Int(0)))
				}
			}
			s.Unlock()
		}()
	}
	if c.Script == "early-take" {
		pushWg.Add(1)
		go func() {
			defer pushWg.Done()
			<-start
			time.Sleep(10 * time.Millisecond)
			conns := s.Conns()
			s.Lock()
			for _, fc := range conns {
				if fc.Proto >= 3 {
					fc.SendPush(fakeredis.Push(fakeredis.Bulk("sunsubscribe"), fakeredis.Bulk("zz"), fakeredis.Int(0)))
				}
			}
			s.Unlock()
		}()
	}
	for t := range c.Ops {
		wg.Add(1)
		go func(t int) {
			defer wg.Done()
			<-start
			if race != nil && t < len(race.gate) {
				<-race.gate[t]
				defer close(race.opDone[t])
			}
			var myChans []string
			for _, op := range c.Ops[t] {
				id := int(atomic.AddInt32(&nextID, 1))
				is := &issued{id: id, op: op}
				ctx := context.Background()
				var cancel context.CancelFunc = func() {}
				switch op.Ctx {
				case "live":
					ctx, cancel = context.WithCancel(ctx)
				case "cancel":
					ctx, cancel = context.WithCancel(ctx)
					d := time.Duration(op.Us) * time.Microsecond
					cc := cancel
					time.AfterFunc(d, cc)
				case "deadline":
					ctx, cancel = context.WithTimeout(ctx, 30*time.Second)
				case "short":
					ctx, cancel = context.WithTimeout(ctx, time.Duration(op.Us)*time.Microsecond)
				case "done":
					ctx, cancel = context.WithCancel(ctx)
					cancel()
				case "script":
					ctx, cancel = context.WithCancel(ctx)
					if race != nil {
						race.cancel2.Store(cancel)
					}
				}
				call := &pipe.Call{ID: id}
				is.call = call
				var results []rueidis.RedisResult
				t0 := time.Now()
				switch op.Kind {
				case "echo", "pipe":
					tag := pipe.Tag(id, 0)
					cmd := cl.B().Echo().Message(tag).Build()
					if op.Kind == "pipe" {
						cmd = cmd.ToPipe()
					}
					is.tags, is.wireN = []string{tag}, 1
					results = []rueidis.RedisResult{cl.Do(ctx, cmd)}
				case "get":
					k := "k:" + pipe.Tag(id, 0)
					preKey(k)
					is.tags, is.wireN = []string{val(k)}, 1
					results = []rueidis.RedisResult{cl.Do(ctx, cl.B().Get().Key(k).Build())}
				case "multi":
					call.Multi = true
					var cmds []rueidis.Completed
					for j := 0; j < op.N; j++ {
						if j%3 == 2 {
							k := "k:" + pipe.Tag(id, j)
							preKey(k)
							cmds = append(cmds, cl.B().Get().Key(k).Build())
							is.tags = append(is.tags, val(k))
						} else {
							cmds = append(cmds, cl.B().Echo().Message(pipe.Tag(id, j)).Build())
							is.tags = append(is.tags, pipe.Tag(id, j))
						}
					}
					is.wireN = op.N
					results = cl.DoMulti(ctx, cmds...)
				case "cache":
					call.Multi = true
					k := "k:" + pipe.Tag(id, 0)
					preKey(k)
					mu.Lock()
					if sharedKey == "" {
						sharedKey = k
					}
					mu.Unlock()
					is.tags = []string{val(k)}
					r := cl.DoCache(ctx, cl.B().Get().Key(k).Cache(), time.Minute)
					is.record(r, nil)
					results = nil
				case "cachejoin":
					// same key as the first cache call of the case, issued while that flight is pending
					var k string
					for k == "" {
						time.Sleep(time.Millisecond)
						mu.Lock()
						k = sharedKey
						mu.Unlock()
					}
					time.Sleep(10 * time.Millisecond)
					is.tags = []string{val(k)}
					is.record(cl.DoCache(ctx, cl.B().Get().Key(k).Cache(), time.Minute), nil)
				case "mcache":
					call.Multi = true
					var cts []rueidis.CacheableTTL
					for j := 0; j < op.N; j++ {
						k := "k:" + pipe.Tag(id, j)
						preKey(k)
						cts = append(cts, rueidis.CT(cl.B().Get().Key(k).Cache(), time.Minute))
						is.tags = append(is.tags, val(k))
					}
					for _, r := range cl.DoMultiCache(ctx, cts...) {
						is.record(r, nil)
					}
				case "sub":
					myChans = nil
					for j := 0; j < op.N; j++ {
						myChans = append(myChans, "ch:"+pipe.Tag(id, j))
					}
					is.tags = []string{""}
					results = []rueidis.RedisResult{cl.Do(ctx, cl.B().Subscribe().Channel(myChans...).Build())}
				case "unsub":
					// unsubscribe what this goroutine subscribed last (plus a tagged dummy so that the slot can be attributed)
					chans := append([]string{"ch:" + pipe.Tag(id, 0)}, myChans...)
					myChans = nil
					is.tags = []string{""}
					results = []rueidis.RedisResult{cl.Do(ctx, cl.B().Unsubscribe().Channel(chans...).Build())}
				case "msub":
					call.Multi = true
					var cmds []rueidis.Completed
					for j := 0; j < op.N; j++ {
						if j == op.N-1 {
							cmds = append(cmds, cl.B().Unsubscribe().Channel("ch:"+pipe.Tag(id, 0)).Build())
						} else {
							cmds = append(cmds, cl.B().Subscribe().Channel("ch:"+pipe.Tag(id, j), "ch2:"+pipe.Tag(id, j)).Build())
						}
						is.tags = append(is.tags, "")
					}
					results = cl.DoMulti(ctx, cmds...)
				case "mixsub":
					call.Multi = true
					var cmds []rueidis.Completed
					for j := 0; j < op.N; j++ {
						switch j % 3 {
						case 1:
							cmds = append(cmds, cl.B().Subscribe().Channel("ch:"+pipe.Tag(id, j)).Build())
							is.tags = append(is.tags, "")
						case 2:
							cmds = append(cmds, cl.B().Unsubscribe().Channel("ch:"+pipe.Tag(id, j-1)).Build())
							is.tags = append(is.tags, "")
						default:
							cmds = append(cmds, cl.B().Echo().Message(pipe.Tag(id, j)).Build())
							is.tags = append(is.tags, pipe.Tag(id, j))
							is.wireN++
						}
					}
					results = cl.DoMulti(ctx, cmds...)
				}
				is.elapsed = time.Since(t0)
				for _, r := range results {
					is.record(r, call)
				}
				is.ctxErr = ctxErrOf(ctx)
				cancel()
				mu.Lock()
				all = append(all, is)
				calls[id] = call
				mu.Unlock()
			}
		}(t)
	}
	done := make(chan struct{})
	go func() { wg.Wait(); close(done) }()
	if race != nil {
		s.Fault = func(fc *fakeredis.Conn, cseq int, argv []string) fakeredis.Action {
			if up(argv[0]) == "ECHO" {
				n := race.echoes.Add(1)
				if race.stolen {
					if n == 1 {
						select { // a server that answers exactly when told (bounded: the script may be abandoned)
						case <-race.srvGo:
						case <-time.After(8 * time.Second):
						}
					}
					return fakeredis.Action{}
				}
				if n == 1 {
					return fakeredis.Action{DelayReply: 30 * time.Millisecond}
				}
				return fakeredis.Action{DelayReply: 60 * time.Millisecond}
			}
			return fakeredis.Action{}
		}
		rueidis.VerifPipeGapFn.Store(race.hook)
		defer rueidis.VerifPipeGapFn.Store(func(string) {})
		pushWg.Add(1)
		go func() {
			defer pushWg.Done()
			<-start
			if race.stolen {
				race.controlStolen(cl)
			} else {
				race.control(cl)
			}
		}()
	}
	if c.Script == "early-take" {
		// prime: the writer's flush delay counts from the moment it last found the queue empty
		id := int(atomic.AddInt32(&nextID, 1))
		is := &issued{id: id, op: Op{Kind: "warm", Ctx: "bg"}, tags: []string{pipe.Tag(id, 0)}, wireN: 1}
		call := &pipe.Call{ID: id}
		is.call = call
		is.record(cl.Do(context.Background(), cl.B().Echo().Message(pipe.Tag(id, 0)).Build()), call)
		all = append(all, is)
		calls[id] = call
	}
	close(start)
	hung := false
	select {
	case <-done:
	case <-time.After(hangAfterFor(c.Script)):
		hung = true
	}
	close(stopPush)
	if race != nil {
		race.releaseAll()
	}
	if hung && race != nil && race.tracing {
		rueidis.VerifTraceStop()
	}
	if hung {
		if os.Getenv("VERIF_PIPE_DUMP") != "" {
			buf := make([]byte, 1<<20)
			fmt.Fprintf(os.Stderr, "%s\n", buf[:runtime.Stack(buf, true)])
		}
		res.Oracle = "calls did not return against a healthy server (lost reply)"
		res.Class = "hang"
		go cl.Close()
		return
	}
	pushWg.Wait()
	// let frames in flight be consumed, then close
	closed := make(chan struct{})
	go func() { cl.Close(); close(closed) }()
	select {
	case <-closed:
	case <-time.After(10 * time.Second):
		res.Oracle = "Close did not return within 10 s"
		res.Class = "hang"
		return
	}

	// ---- direct oracle ----
	sort.Slice(all, func(i, j int) bool { return all[i].id < all[j].id })
	seen := map[string]int{}
	for _, e := range s.LogCopy() {
		if e.InTx {
			continue
		}
		if a := up(e.Argv[0]); a == "ECHO" || a == "GET" {
			seen[e.Argv[1]]++
		}
	}
	var fails []string
	kinds := map[string]int{}
	ncancelled := 0
	for _, is := range all {
		kinds[is.op.Kind]++
		if is.err != nil {
			ncancelled++
			if is.ctxErr == nil || !errors.Is(is.err, is.ctxErr) {
				fails = append(fails, fmt.Sprintf("call %d (%s, ctx %s) failed with %v although its context says %v", is.id, is.op.Kind, is.op.Ctx, is.err, is.ctxErr))
			}
		} else {
			if len(is.got) != len(is.tags) {
				fails = append(fails, fmt.Sprintf("call %d (%s): %d results for %d commands", is.id, is.op.Kind, len(is.got), len(is.tags)))
			}
			for j := range is.tags {
				if j < len(is.got) && is.tags[j] != "" && is.got[j] != is.tags[j] {
					fails = append(fails, fmt.Sprintf("call %d (%s) position %d: got %q, its own reply is %q", is.id, is.op.Kind, j, is.got[j], is.tags[j]))
				}
			}
		}
		// executed exactly once when successful, at most once otherwise
		switch is.op.Kind {
		case "echo", "pipe", "get", "multi", "mixsub", "warm":
			for j, tg := range is.tags {
				if tg == "" {
					continue
				}
				key := strings.TrimPrefix(tg, "v:")
				n := seen[key]
				if is.err == nil && n != 1 {
					fails = append(fails, fmt.Sprintf("call %d position %d succeeded but the server executed it %d times", is.id, j, n))
				} else if n > 1 {
					fails = append(fails, fmt.Sprintf("call %d position %d was executed %d times", is.id, j, n))
				}
			}
		}
		if is.op.Ctx == "done" {
			for _, tg := range is.tags {
				if tg != "" && seen[strings.TrimPrefix(tg, "v:")] != 0 {
					fails = append(fails, fmt.Sprintf("call %d had a done context but its command reached the server", is.id))
					res.Class = "done-ctx-sent"
				}
			}
		}
	}
	if race != nil && race.tracing {
		var early string
		race.order, early = orderOf(rueidis.VerifTraceStop())
		if early != "" {
			race.violation = early + fmt.Sprint(" (order of events ", race.order, ": 1 = caller let through to its receive, 2 = entry released, 3 = entry occupied by the waiting producer)")
		}
	}
	if race != nil && race.violation != "" && race.stolen {
		fails = append([]string{race.violation}, fails...)
		res.Site, res.Class = "pipe.go:_backgroundRead", "release-before-handover"
		race.violation = ""
	}
	if race != nil && race.violation != "" {
		fails = append([]string{race.violation}, fails...)
		res.Site, res.Class = "pipe.go:Do", "sync-and-background"
	}
	if len(fails) > 0 {
		res.Oracle = strings.Join(fails[:min(len(fails), 4)], "; ")
	}

	// ---- correspondence: replay every connection through the model ----
	var conns []string
	nslots, nframes := 0, 0
	for ci, rc := range rec.Conns() {
		cmds := rc.Commands()
		slots, err := pipe.Reconstruct(cmds, calls)
		if err != nil {
			res.Oracle = appendMsg(res.Oracle, fmt.Sprintf("connection %d: wire order cannot be cut into slots: %v", ci, err))
			if res.Class == "misrouted-reply" {
				res.Class = "wire-shape"
			}
			continue
		}
		frames, _ := rueidis.VerifPipeDecode(rc.Out())
		nsync := 0
		r2ps := false
		plain := false
		for _, sl := range slots {
			if sl.Sync {
				nsync++
			} else if cc := calls[sl.Owner]; cc != nil {
				if k := kindOf(all, sl.Owner); k == "echo" || k == "get" || k == "multi" {
					plain = true
				}
				if k := kindOf(all, sl.Owner); c.Resp2 && (k == "sub" || k == "unsub" || k == "msub") {
					r2ps = true
				}
			}
		}
		if c.NoAuto && plain {
			nsync = len(slots) // a blocking-pool connection: every call is synchronous
		}
		ver := 7
		if c.Resp2 {
			ver = 5
		}
		conns = append(conns, pipe.ConnCoq(r2ps, ver, nsync, slots, frames, calls))
		nslots += len(slots)
		nframes += len(frames)
	}
	if race != nil && race.stolen && !race.void {
		var evs []string
		for _, o := range race.order {
			evs = append(evs, fmt.Sprint(o))
		}
		conns = append(conns, "(COrder ["+strings.Join(evs, "; ")+"])")
	}
	res.Coq = "(CRun " + obs.List(conns) + ")"
	res.Nontrivial = len(c.Ops) >= 2 && len(all) >= 2
	if race != nil {
		res.Nontrivial = !race.void
	}
	res.Sig = fmt.Sprint(res.Kind, c.Ring, c.Cache, c.FlushUs, c.Pushes, len(c.Ops), kinds)
	res.Obs = map[string]any{"calls": len(all), "failed_with_ctx_error": ncancelled, "connections": len(conns), "slots": nslots, "frames": nframes, "kinds": kinds}
	return
}

func hangAfter() time.Duration {
	return hangAfterFor("")
}

func hangAfterFor(script string) time.Duration {
	if script != "" && os.Getenv("VERIF_PIPE_HANG_S") == "" {
		return 6 * time.Second
	}
	if v := os.Getenv("VERIF_PIPE_HANG_S"); v != "" {
		if n, err := strconv.Atoi(v); err == nil {
			return time.Duration(n) * time.Second
		}
	}
	return 20 * time.Second
}

func appendMsg(a, b string) string {
	if a == "" {
		return b
	}
	return a + "; " + b
}

func kindOf(all []*issued, id int) string {
	i := sort.Search(len(all), func(i int) bool { return all[i].id >= id })
	if i < len(all) && all[i].id == id {
		return all[i].op.Kind
	}
	return ""
}

func up(s string) string { return strings.ToUpper(s) }

// ctxErrOf is ctx.Err(), except that a deadline which has passed counts as exceeded even if the context's own timer
// has not fired yet (the synchronous path and the dialler derive connection deadlines from it, which can fire first).
func ctxErrOf(ctx context.Context) error {
	if e := ctx.Err(); e != nil {
		return e
	}
	if dl, ok := ctx.Deadline(); ok && !time.Now().Before(dl) {
		return context.DeadlineExceeded
	}
	return nil
}

// record notes one result of a call: payload for the oracle, message tree for the model comparison.
func (is *issued) record(r rueidis.RedisResult, call *pipe.Call) {
	m, nerr := rueidis.VerifPipeResult(r)
	if nerr != nil {
		if is.err == nil {
			is.err = nerr
		}
		is.got = append(is.got, "")
		if call != nil {
			call.Results = append(call.Results, nil)
		}
		return
	}
	s := m.Str
	is.got = append(is.got, s)
	if call != nil {
		mm := m
		call.Results = append(call.Results, &mm)
	}
}

func main() {
	obs.Main(obs.Runner{Name: "obs_pipe", Salt: 0xC01, Gen: genCase, Decode: decode, Run: run})
}
