// obs_bloom: C35 — rueidisprob.BloomFilter (real client, real script text under mini-Lua on the fake
// server).  Direct oracle: no false negative for items added since the last Reset/Delete, one answer
// per queried key, Count never decreases between Reset/Delete, and every accepted configuration has
// hashIterations >= 1 and 0 < size <= 2^32 (also swept on a dense grid of (n, rate) on every run).
package main

import (
	"context"
	"encoding/json"
	"fmt"
	"math"
	"sort"
	"strconv"
	"time"

	"github.com/redis/rueidis/rueidisprob"

	"verifharness/gen"
	"verifharness/luaobs"
	"verifharness/obs"
)

type Op struct {
	K    string   `json:"k"` // add | exists | count | reset | delete
	Keys []string `json:"keys,omitempty"`
}

type Case struct {
	Kind string  `json:"kind"` // hist | grid
	N    uint    `json:"n"`
	Rate float64 `json:"rate"`
	RO   bool    `json:"ro,omitempty"`
	R2   bool    `json:"resp2,omitempty"`
	Ops  []Op    `json:"ops,omitempty"`
}

var rates = []float64{0.5, 0.3, 0.1, 0.01, 0.001, 0.99, 0.9, 0.75, 0.6, 0.05, 1e-6, 0.999, 1, 0.7, 0.2}

func genKey(r *gen.Rand) string {
	switch r.Intn(6) {
	case 0:
		return string(r.Bytes(r.Size(12, 4)))
	case 1:
		return ""
	default:
		return "k" + strconv.Itoa(r.Intn(24))
	}
}

func genCase(r *gen.Rand, i int) any {
	c := Case{Kind: "hist", RO: r.Chance(1, 4), R2: r.Chance(1, 5)}
	switch r.Intn(5) {
	case 0:
		c.N = uint(r.Range(1, 5))
	case 1:
		c.N = uint(r.Range(1, 200))
	default:
		c.N = uint(r.Range(1, 40))
	}
	c.Rate = gen.Pick(r, rates)
	if r.Chance(1, 8) {
		c.Rate = float64(r.Range(1, 999)) / 1000
	}
	n := 2 + r.Size(24, 8)
	for j := 0; j < n; j++ {
		var o Op
		switch x := r.Intn(20); {
		case x < 8:
			o.K = "add"
		case x < 16:
			o.K = "exists"
		case x < 18:
			o.K = "count"
		case x < 19:
			o.K = "reset"
		default:
			o.K = "delete"
		}
		if o.K == "add" || o.K == "exists" {
			m := 1
			if r.Chance(1, 3) {
				m = r.Size(6, 3)
			}
			for q := 0; q < m; q++ {
				o.Keys = append(o.Keys, genKey(r))
			}
		}
		c.Ops = append(c.Ops, o)
	}
	return c
}

const site = "rueidisprob/bloomfilter.go"

func sizingOracle(size, k uint) (string, string) {
	if k < 1 {
		return fmt.Sprintf("accepted configuration has hashIterations = %d (size %d): Exists can never answer true", k, size), "sizing-k0"
	}
	if size == 0 || uint64(size) > 1<<32 {
		return fmt.Sprintf("accepted configuration has size = %d", size), "sizing-size"
	}
	return "", ""
}

func run(ci any) (res obs.Result) {
	c := ci.(Case)
	res.Kind = c.Kind
	res.Site = site
	if c.Kind == "grid" {
		res.Sig = fmt.Sprint("grid", c.N, c.Rate)
		bf, err := rueidisprob.NewBloomFilter(nil, "g", c.N, c.Rate)
		if err != nil {
			res.Obs = "rejected: " + err.Error()
			return
		}
		size, k, _ := rueidisprob.VerifParams(bf)
		res.Nontrivial = true
		res.Obs = map[string]any{"size": size, "k": k}
		res.Oracle, res.Class = sizingOracle(size, k)
		res.Site = site + ":numberOfBloomFilterHashFunctions"
		return
	}
	env, err := luaobs.New(c.R2)
	if err != nil {
		res.Oracle, res.Class = "cannot connect: "+err.Error(), "harness"
		return
	}
	defer env.Close()
	ctx, cancel := context.WithTimeout(context.Background(), 20*time.Second)
	defer cancel()
	bf, err := rueidisprob.NewBloomFilter(env.C, "bf", c.N, c.Rate, rueidisprob.WithEnableReadOperation(c.RO))
	res.Sig = fmt.Sprint(c.N, c.Rate, c.RO, c.Ops)
	if err != nil {
		res.Kind = "rejected"
		res.Obs = err.Error()
		return
	}
	size, k, _ := rueidisprob.VerifParams(bf)
	if o, cl := sizingOracle(size, k); o != "" {
		res.Oracle, res.Class, res.Site = o, cl, site+":numberOfBloomFilterHashFunctions"
	}
	table := map[string][2]uint64{}
	added := map[string]bool{}
	lastCount, haveCount := uint64(0), false
	var steps []string
	var trace []any
	fail := func(class, msg string) {
		if res.Oracle == "" {
			res.Oracle, res.Class = msg, class
		}
	}
	coqOK := true
	for _, o := range c.Ops {
		for _, key := range o.Keys {
			h1, h2 := rueidisprob.VerifHash([]byte(key))
			table[key] = [2]uint64{h1, h2}
		}
		before := len(env.E.Runs())
		var opTerm, obsTerm string
		sent := func() (string, bool) {
			rs := env.RunsSince(before)
			if len(rs) != 1 || len(rs[0].Args) < 1 {
				return "", false
			}
			if rs[0].Args[0] != strconv.FormatUint(uint64(k), 10) {
				fail("argv", fmt.Sprintf("ARGV[1] = %q, hashIterations = %d", rs[0].Args[0], k))
			}
			return luaobs.NumList(rs[0].Args[1:])
		}
		switch o.K {
		case "add":
			opTerm = obs.App("OAdd", luaobs.Keys(o.Keys))
			err := bf.AddMulti(ctx, o.Keys)
			trace = append(trace, []any{"add", o.Keys, fmt.Sprint(err)})
			if err != nil {
				fail("add-error", "AddMulti: "+err.Error())
				coqOK = false
				break
			}
			for _, key := range o.Keys {
				added[key] = true
			}
			if len(o.Keys) == 0 {
				obsTerm = "INoTrip"
			} else if s, ok := sent(); ok {
				obsTerm = obs.App("IDone", s)
			} else {
				coqOK = false
			}
		case "exists":
			opTerm = obs.App("OExists", luaobs.Keys(o.Keys))
			var got []bool
			var err error
			panicked := false
			func() {
				defer func() {
					if recover() != nil {
						panicked = true
					}
				}()
				got, err = bf.ExistsMulti(ctx, o.Keys)
			}()
			trace = append(trace, []any{"exists", o.Keys, got, fmt.Sprint(err), panicked})
			if panicked {
				obsTerm = "IPanic"
				fail("panic", "ExistsMulti panicked")
				break
			}
			if err != nil {
				fail("exists-error", "ExistsMulti: "+err.Error())
				coqOK = false
				break
			}
			if len(got) != len(o.Keys) {
				fail("positional", fmt.Sprintf("ExistsMulti returned %d answers for %d keys", len(got), len(o.Keys)))
			} else {
				for i, key := range o.Keys {
					if added[key] && !got[i] {
						if res.Class == "sizing-k0" { // the concrete consequence is the better witness
							res.Oracle, res.Site = "", site+":ExistsMulti"
						}
						fail("false-negative", fmt.Sprintf("%q was added and not reset, ExistsMulti[%d] = false (size %d, hashIterations %d)", key, i, size, k))
					}
				}
			}
			if len(o.Keys) == 0 {
				obsTerm = "INoTrip"
			} else if s, ok := sent(); ok {
				obsTerm = obs.App("IBools", s, luaobs.Bools(got))
			} else {
				coqOK = false
			}
		case "count":
			opTerm = "OCount"
			n, err := bf.Count(ctx)
			trace = append(trace, []any{"count", n, fmt.Sprint(err)})
			if err != nil {
				fail("count-error", "Count: "+err.Error())
				coqOK = false
				break
			}
			if haveCount && n < lastCount {
				fail("count-decreased", fmt.Sprintf("Count went from %d to %d without Reset/Delete", lastCount, n))
			}
			lastCount, haveCount = n, true
			obsTerm = obs.App("ICount", obs.N(n))
		case "reset", "delete":
			var err error
			if o.K == "reset" {
				opTerm = "OReset"
				err = bf.Reset(ctx)
			} else {
				opTerm = "ODelete"
				err = bf.Delete(ctx)
			}
			trace = append(trace, []any{o.K, fmt.Sprint(err)})
			if err != nil {
				fail(o.K+"-error", o.K+": "+err.Error())
				coqOK = false
				break
			}
			added = map[string]bool{}
			haveCount = false
			obsTerm = "(IDone [])"
		}
		if obsTerm == "" {
			coqOK = false
		}
		if !coqOK {
			break
		}
		steps = append(steps, luaobs.Pair(opTerm, obsTerm))
	}
	for _, r := range env.E.Runs() {
		if r.Unsupported != "" {
			fail("mini-lua", "script left the mini-Lua subset: "+r.Unsupported)
		}
	}
	res.Obs = map[string]any{"size": size, "k": k, "trace": trace}
	res.Nontrivial = len(added) > 0 || haveCount
	if coqOK && k >= 1 {
		keys := make([]string, 0, len(table))
		for key := range table {
			keys = append(keys, key)
		}
		sort.Strings(keys)
		tb := make([]string, len(keys))
		for i, key := range keys {
			tb[i] = luaobs.Pair(obs.HS(key), luaobs.Pair(obs.N(table[key][0]), obs.N(table[key][1])))
		}
		res.Coq = obs.App("CHist", obs.N(uint64(size)), obs.N(uint64(k)), obs.List(tb), obs.List(steps))
	}
	return
}

// grid: the side condition of the theorems, swept on every run.
func gridPoints() []Case {
	var out []Case
	ns := []uint{}
	for n := uint(1); n <= 64; n++ {
		ns = append(ns, n)
	}
	for _, n := range []uint{100, 127, 128, 1000, 4096, 10000, 65535, 1 << 20, 10000000, 1 << 28, 1 << 31} {
		ns = append(ns, n)
	}
	var rs []float64
	for e := 1; e <= 12; e++ {
		rs = append(rs, math.Pow(10, -float64(e)), 3*math.Pow(10, -float64(e)))
	}
	for i := 1; i <= 99; i++ {
		rs = append(rs, float64(i)/100)
	}
	rs = append(rs, 0.995, 0.999, 0.9999, 0.999999, 1, math.Nextafter(1, 0), 5e-324, 1e-300)
	for _, n := range ns {
		for _, r := range rs {
			out = append(out, Case{Kind: "grid", N: n, Rate: r})
		}
	}
	return out
}

func main() {
	obs.Main(obs.Runner{
		Name: "obs_bloom", Salt: 35,
		Gen: genCase,
		Decode: func(raw json.RawMessage) (any, error) {
			var c Case
			err := json.Unmarshal(raw, &c)
			return c, err
		},
		Run: run,
		Extra: func(emit func(rec map[string]any)) {
			pts := gridPoints()
			bad, accepted := 0, 0
			for _, p := range pts {
				r := run(p)
				if r.Nontrivial {
					accepted++
				}
				if r.Oracle != "" {
					bad++
					if bad <= 5 {
						emit(map[string]any{"k": "case", "id": 900000 + bad, "desc": p, "oracle": r.Oracle, "site": r.Site, "class": r.Class,
							"nontrivial": true, "sig": r.Sig, "kind": "grid", "obs": r.Obs})
					}
				}
			}
			emit(map[string]any{"k": "grid", "points": len(pts), "accepted": accepted, "violating": bad})
		},
	})
}
