// fakeredis_tcp serves fake Redis nodes (with the scripting engine) on real TCP addresses so that the
// repository's own add-on tests, which dial fixed localhost ports, can be run against the fake server
// and mini-Lua (used by hand to validate fix: commits and the interpreter; not part of ./check).
// Every address is its own one-node "cluster" owning all slots; the virtual clock follows real time.
package main

import (
	"flag"
	"fmt"
	"net"
	"os"
	"strconv"
	"strings"
	"time"

	"verifharness/fakeredis"
	"verifharness/fakeredis/scripting"
)

func main() {
	listen := flag.String("listen", "127.0.0.1:7001", "comma separated addresses, one fake node each")
	resp2 := flag.String("resp2", "", "comma separated addresses that refuse HELLO (Redis 5 style)")
	flag.Parse()
	old := map[string]bool{}
	for _, a := range strings.Split(*resp2, ",") {
		old[a] = true
	}
	for _, addr := range strings.Split(*listen, ",") {
		addr := addr
		ln, err := net.Listen("tcp", addr)
		if err != nil {
			fmt.Fprintln(os.Stderr, err)
			os.Exit(1)
		}
		s := fakeredis.New()
		s.Addr = addr
		if old[addr] {
			s.NoHello = true
			s.Version = "5.0.14"
		}
		scripting.Install(s)
		if old[addr] { // Redis 5 has neither the _RO script commands nor BITFIELD_RO
			for _, n := range []string{"EVAL_RO", "EVALSHA_RO", "BITFIELD_RO"} {
				s.Handle(n, nil)
			}
		}
		host, port, _ := net.SplitHostPort(addr)
		p, _ := strconv.ParseInt(port, 10, 64)
		s.Handle("CLUSTER SLOTS", func(c *fakeredis.Conn, a []string) fakeredis.V {
			return fakeredis.Arr(fakeredis.Arr(fakeredis.Int(0), fakeredis.Int(16383),
				fakeredis.Arr(fakeredis.Bulk(host), fakeredis.Int(p), fakeredis.Bulk(strings.Repeat("a", 40)))))
		})
		go func() {
			last := time.Now()
			for {
				time.Sleep(2 * time.Millisecond)
				now := time.Now()
				if d := now.Sub(last).Milliseconds(); d > 0 {
					s.Advance(d)
					last = last.Add(time.Duration(d) * time.Millisecond)
				}
			}
		}()
		go func() {
			for {
				c, err := ln.Accept()
				if err != nil {
					return
				}
				s.Serve(c, addr)
			}
		}()
		fmt.Println("serving", addr)
	}
	select {}
}
