// obs_compatpipe: C41 — rueidiscompat Pipeline / TxPipeline / Watch.
//
// Two back ends:
//   - "fake":   the real rueidis client against harness/fakeredis; the replies fed to the model are
//     the ones the server logged for the batch; the oracle compares with the server log.
//   - "script": a recording client whose DoMulti returns generated reply lists of any shape
//     (wrong lengths, errors, nil, nested arrays, connection errors) — exercises the
//     model's whole input space including the panics.
//
// and a "sweep" kind that calls every command method of Pipeliner by reflection and checks that it
// queues exactly one command and one Cmder (the invariant the model's OQueue step relies on).
package main

import (
	"context"
	"encoding/json"
	"errors"
	"fmt"
	"reflect"
	"sort"
	"strconv"
	"strings"
	"time"

	"github.com/redis/rueidis"
	"github.com/redis/rueidis/mock"
	compat "github.com/redis/rueidis/rueidiscompat"

	"verifharness/fakeredis"
	"verifharness/gen"
	"verifharness/obs"
)

// ---------------------------------------------------------------------------------------------
// case description

type R struct {
	T string `json:"t"` // nil | str | int | err | arr | net
	S string `json:"s,omitempty"`
	I int64  `json:"i,omitempty"`
	A []R    `json:"a,omitempty"`
}

type Op struct {
	T    string `json:"t"`           // q | doempty | badbitcount | len | discard | exec | pipelined | txpipelined | write
	M    string `json:"m,omitempty"` // template of q
	K    string `json:"k,omitempty"`
	V    string `json:"v,omitempty"`
	Body []Op   `json:"body,omitempty"`
	Fail bool   `json:"fail,omitempty"` // the fn of Pipelined returns an error (no Exec)
	Resp []R    `json:"resp,omitempty"` // script back end: what DoMulti returns for this exec
}

type Case struct {
	Kind   string     `json:"kind"`  // fake-pipe fake-tx fake-watch script-pipe script-tx script-watch sweep
	Entry  string     `json:"entry"` // object | pipelined (how the pipeline is obtained)
	Proto  int        `json:"proto,omitempty"`
	Pre    [][]string `json:"pre,omitempty"` // set-up commands (fake)
	Ops    []Op       `json:"ops,omitempty"`
	Keys   []string   `json:"keys,omitempty"` // watch
	WRes   *R         `json:"wres,omitempty"` // script-watch: reply of WATCH
	Method string     `json:"method,omitempty"`
	Seed   uint64     `json:"seed,omitempty"`
}

var ctx = context.Background()
var errNet = errors.New("verif: scripted connection error")
var errFn = errors.New("verif: fn failed")

// ---------------------------------------------------------------------------------------------
// templates: method name -> (kind, expected argv)

type tmpl struct {
	kind string // KAny = issued through Pipeline.Do
	argv func(k, v string) []string
	call func(p compat.Pipeliner, k, v string) compat.Cmder
}

var tmpls = map[string]tmpl{
	"set":      {"KString", func(k, v string) []string { return []string{"SET", k, v} }, func(p compat.Pipeliner, k, v string) compat.Cmder { return p.Set(ctx, k, v, 0) }},
	"get":      {"KString", func(k, v string) []string { return []string{"GET", k} }, func(p compat.Pipeliner, k, v string) compat.Cmder { return p.Get(ctx, k) }},
	"echo":     {"KString", func(k, v string) []string { return []string{"ECHO", v} }, func(p compat.Pipeliner, k, v string) compat.Cmder { return p.Echo(ctx, v) }},
	"incr":     {"KInt", func(k, v string) []string { return []string{"INCR", k} }, func(p compat.Pipeliner, k, v string) compat.Cmder { return p.Incr(ctx, k) }},
	"lpush":    {"KInt", func(k, v string) []string { return []string{"LPUSH", k, v} }, func(p compat.Pipeliner, k, v string) compat.Cmder { return p.LPush(ctx, k, v) }},
	"exists":   {"KInt", func(k, v string) []string { return []string{"EXISTS", k} }, func(p compat.Pipeliner, k, v string) compat.Cmder { return p.Exists(ctx, k) }},
	"strlen":   {"KInt", func(k, v string) []string { return []string{"STRLEN", k} }, func(p compat.Pipeliner, k, v string) compat.Cmder { return p.StrLen(ctx, k) }},
	"setnx":    {"KBool", func(k, v string) []string { return []string{"SETNX", k, v} }, func(p compat.Pipeliner, k, v string) compat.Cmder { return p.SetNX(ctx, k, v, 0) }},
	"expire":   {"KBool", func(k, v string) []string { return []string{"EXPIRE", k, "10"} }, func(p compat.Pipeliner, k, v string) compat.Cmder { return p.Expire(ctx, k, 10*time.Second) }},
	"mget":     {"KSlice", func(k, v string) []string { return []string{"MGET", k, v} }, func(p compat.Pipeliner, k, v string) compat.Cmder { return p.MGet(ctx, k, v) }},
	"doecho":   {"KAny", func(k, v string) []string { return []string{"ECHO", v} }, func(p compat.Pipeliner, k, v string) compat.Cmder { return p.Do(ctx, "ECHO", v) }},
	"dobogus":  {"KAny", func(k, v string) []string { return []string{"BOGUS", k, v} }, func(p compat.Pipeliner, k, v string) compat.Cmder { return p.Do(ctx, "BOGUS", k, v) }},
	"dolrange": {"KAny", func(k, v string) []string { return []string{"LRANGE", k, "0", "-1"} }, func(p compat.Pipeliner, k, v string) compat.Cmder { return p.Do(ctx, "LRANGE", k, 0, -1) }},
	"doincr":   {"KAny", func(k, v string) []string { return []string{"INCR", k} }, func(p compat.Pipeliner, k, v string) compat.Cmder { return p.Do(ctx, "INCR", k) }},
	"doget":    {"KAny", func(k, v string) []string { return []string{"GET", k} }, func(p compat.Pipeliner, k, v string) compat.Cmder { return p.Do(ctx, "GET", k) }},
}

var tmplNames = func() []string {
	ns := make([]string, 0, len(tmpls))
	for n := range tmpls {
		ns = append(ns, n)
	}
	sort.Strings(ns)
	return ns
}()

// ---------------------------------------------------------------------------------------------
// recording client

type batch struct {
	single bool
	argv   [][]string
	conn   int // id of the recording handle (0 = shared client, >0 = dedicated)
}

type recorder struct {
	batches []batch
	script  [][]R // script back end: one entry per DoMulti call, consumed in order
	wres    *R
	nded    int
}

type recClient struct {
	rueidis.Client // real client: B() and, for the fake back end, the transport
	rec            *recorder
	scripted       bool
}

// argvOf copies the argv (the command is recycled by the client afterwards). A zero Completed (an
// adapter method that built nothing, e.g. an unknown enum value in an options struct) has no argv.
func argvOf(cmd rueidis.Completed) (out []string) {
	defer func() {
		if recover() != nil {
			out = []string{"<zero command>"}
		}
	}()
	return append([]string(nil), cmd.Commands()...)
}

func (c *recClient) Do(ctx context.Context, cmd rueidis.Completed) rueidis.RedisResult {
	c.rec.batches = append(c.rec.batches, batch{single: true, argv: [][]string{argvOf(cmd)}})
	if c.scripted {
		return mock.Result(mock.RedisString("OK"))
	}
	return c.Client.Do(ctx, cmd)
}

func (c *recClient) DoMulti(ctx context.Context, multi ...rueidis.Completed) []rueidis.RedisResult {
	b := batch{}
	for _, m := range multi {
		b.argv = append(b.argv, argvOf(m))
	}
	c.rec.batches = append(c.rec.batches, b)
	if c.scripted {
		return c.rec.next()
	}
	return c.Client.DoMulti(ctx, multi...)
}

func (r *recorder) next() []rueidis.RedisResult {
	if len(r.script) == 0 {
		return nil
	}
	rs := r.script[0]
	r.script = r.script[1:]
	out := make([]rueidis.RedisResult, len(rs))
	for i, x := range rs {
		out[i] = toResult(x)
	}
	return out
}

func toMsg(x R) rueidis.RedisMessage {
	switch x.T {
	case "str":
		return mock.RedisBlobString(x.S)
	case "int":
		return mock.RedisInt64(x.I)
	case "err":
		return mock.RedisError(x.S)
	case "arr":
		vs := make([]rueidis.RedisMessage, len(x.A))
		for i, e := range x.A {
			vs[i] = toMsg(e)
		}
		return mock.RedisArray(vs...)
	}
	return mock.RedisNil()
}

func toResult(x R) rueidis.RedisResult {
	if x.T == "net" {
		return mock.ErrorResult(errNet)
	}
	return mock.Result(toMsg(x))
}

type recDed struct {
	rueidis.DedicatedClient // real dedicated client or nil (script)
	b                       rueidis.Client
	rec                     *recorder
	scripted                bool
	id                      int
}

func (d *recDed) B() rueidis.Builder { return d.b.B() }
func (d *recDed) Do(ctx context.Context, cmd rueidis.Completed) rueidis.RedisResult {
	d.rec.batches = append(d.rec.batches, batch{single: true, argv: [][]string{argvOf(cmd)}, conn: d.id})
	if d.scripted {
		if d.rec.wres != nil {
			return toResult(*d.rec.wres)
		}
		return mock.Result(mock.RedisString("OK"))
	}
	return d.DedicatedClient.Do(ctx, cmd)
}
func (d *recDed) DoMulti(ctx context.Context, multi ...rueidis.Completed) []rueidis.RedisResult {
	b := batch{conn: d.id}
	for _, m := range multi {
		b.argv = append(b.argv, argvOf(m))
	}
	d.rec.batches = append(d.rec.batches, b)
	if d.scripted {
		return d.rec.next()
	}
	return d.DedicatedClient.DoMulti(ctx, multi...)
}
func (d *recDed) Close() {
	if d.DedicatedClient != nil {
		d.DedicatedClient.Close()
	}
}

func (c *recClient) Dedicate() (rueidis.DedicatedClient, func()) {
	c.rec.nded++
	if c.scripted {
		return &recDed{b: c.Client, rec: c.rec, scripted: true, id: c.rec.nded}, func() {}
	}
	dc, cancel := c.Client.Dedicate()
	return &recDed{DedicatedClient: dc, b: c.Client, rec: c.rec, id: c.rec.nded}, cancel
}

// ---------------------------------------------------------------------------------------------
// Gallina printers

func coqArgv(a []string) string { return obs.ListOf(a, obs.HS) }

func coqR(x R) string {
	switch x.T {
	case "str":
		return obs.App("RStr", obs.HS(x.S))
	case "int":
		return obs.App("RInt", obs.Z(x.I))
	case "err":
		return obs.App("RErr", obs.HS(x.S))
	case "arr":
		return obs.App("RArr", obs.ListOf(x.A, coqR))
	}
	return "RNil"
}

func coqRes(x R) string {
	if x.T == "net" {
		return "RNet"
	}
	return obs.App("RMsg", coqR(x))
}

func vToR(v fakeredis.V) R {
	switch v.T {
	case '+', '$':
		if v.Null {
			return R{T: "nil"}
		}
		return R{T: "str", S: v.S}
	case ':':
		return R{T: "int", I: v.I}
	case '-':
		return R{T: "err", S: v.S}
	case '*':
		if v.Null {
			return R{T: "nil"}
		}
		a := make([]R, len(v.A))
		for i, e := range v.A {
			a[i] = vToR(e)
		}
		return R{T: "arr", A: a}
	case '_':
		return R{T: "nil"}
	}
	return R{T: "str", S: "<unsupported reply type " + string(v.T) + ">"}
}

type cerr struct {
	tag string
	msg string
}

func (e cerr) coq() string {
	if e.tag == "ERedis" {
		return obs.App("ERedis", obs.HS(e.msg))
	}
	return e.tag
}

func classify(err error) cerr {
	switch {
	case err == nil:
		return cerr{tag: "ENone"}
	case errors.Is(err, compat.TxFailedErr):
		return cerr{tag: "ETxFailed"}
	case errors.Is(err, errNet):
		return cerr{tag: "ENet"}
	case rueidis.IsRedisNil(err):
		return cerr{tag: "ENil"}
	case err.Error() == "the pipeline has not been executed":
		return cerr{tag: "ENotExecuted"}
	case err.Error() == "redis: please enter the command to be executed":
		return cerr{tag: "EEmptyDo"}
	case err.Error() == "redis: invalid bitcount index":
		return cerr{tag: "EInvalidArg"}
	}
	if re, ok := rueidis.IsRedisErr(err); ok {
		return cerr{tag: "ERedis", msg: re.Error()}
	}
	if rueidis.IsParseErr(err) {
		return cerr{tag: "EParse"}
	}
	var ne *strconv.NumError
	if errors.As(err, &ne) {
		return cerr{tag: "EParse"}
	}
	return cerr{tag: "EOther", msg: err.Error()}
}

// anyToR renders the value of a *Cmd / *SliceCmd
func anyToR(v any) R {
	switch x := v.(type) {
	case nil:
		return R{T: "nil"}
	case string:
		return R{T: "str", S: x}
	case int64:
		return R{T: "int", I: x}
	case []any:
		a := make([]R, len(x))
		for i, e := range x {
			a[i] = anyToR(e)
		}
		return R{T: "arr", A: a}
	case error:
		if re, ok := rueidis.IsRedisErr(x); ok {
			return R{T: "err", S: re.Error()}
		}
		return R{T: "err", S: "<" + x.Error() + ">"}
	}
	return R{T: "str", S: fmt.Sprintf("<unsupported %T>", v)}
}

// shown = (error, value when there is no error)
func shownOf(c compat.Cmder) (cerr, *R) {
	e := classify(c.Err())
	if e.tag != "ENone" {
		return e, nil
	}
	var r R
	switch x := c.(type) {
	case *compat.StringCmd:
		r = R{T: "str", S: x.Val()}
	case *compat.IntCmd:
		r = R{T: "int", I: x.Val()}
	case *compat.BoolCmd:
		if x.Val() {
			r = R{T: "int", I: 1}
		} else {
			r = R{T: "int", I: 0}
		}
	case *compat.Cmd:
		r = anyToR(x.Val())
	case *compat.SliceCmd:
		r = anyToR(x.Val())
	default:
		r = R{T: "str", S: fmt.Sprintf("<unsupported cmd %T>", c)}
	}
	return e, &r
}

func coqShown(e cerr, r *R) string {
	if r == nil {
		return "(" + e.coq() + ", None)"
	}
	return "(" + e.coq() + ", Some " + coqR(*r) + ")"
}

// ---------------------------------------------------------------------------------------------
// running a program

type runner struct {
	c        *Case
	rec      *recorder
	srv      *fakeredis.Server
	other    rueidis.Client // second client for interfering writes (fake-watch)
	created  []compat.Cmder
	kinds    []string
	expArgv  [][]string // expected argv of every queued command since the last exec/discard (oracle's own bookkeeping)
	expCmds  []int      // ids of the Cmds queued since the last exec/discard
	evs      []string   // Gallina events
	flat     []string   // Gallina ops actually executed
	oracle   []string
	tx       bool
	panicked bool
	execs    int
	nq       int
}

func (rn *runner) fail(f string, a ...any) {
	if len(rn.oracle) < 5 {
		rn.oracle = append(rn.oracle, fmt.Sprintf(f, a...))
	}
}

// initial is the error a Cmd carries until it is executed: typed methods build it from the
// errPipelineNotExecuted result, Pipeline.Do hands out a fresh &Cmd{}.
func (rn *runner) initial(id int) string {
	if rn.kinds[id] == "KAny" {
		return "ENone"
	}
	return "ENotExecuted"
}

func (rn *runner) idOf(c compat.Cmder) int {
	for i, x := range rn.created {
		if x == c {
			return i
		}
	}
	return 9999
}

// scriptFor registers the scripted replies of the next DoMulti
func (rn *runner) runOps(p compat.Pipeliner, ops []Op) {
	for _, o := range ops {
		if rn.panicked {
			return
		}
		switch o.T {
		case "q":
			t := tmpls[o.M]
			c := t.call(p, o.K, o.V)
			rn.created = append(rn.created, c)
			rn.kinds = append(rn.kinds, t.kind)
			rn.expArgv = append(rn.expArgv, t.argv(o.K, o.V))
			rn.expCmds = append(rn.expCmds, len(rn.created)-1)
			rn.evs = append(rn.evs, obs.App("EvCmd", obs.Nat(len(rn.created)-1)))
			if t.kind == "KAny" {
				rn.flat = append(rn.flat, obs.App("ODo", coqArgv(t.argv(o.K, o.V))))
			} else {
				rn.flat = append(rn.flat, obs.App("OQueue", t.kind, coqArgv(t.argv(o.K, o.V))))
			}
			rn.nq++
			if e := classify(c.Err()); e.tag != rn.initial(len(rn.created)-1) {
				rn.fail("a queued Cmd reports %v before Exec", e)
			}
		case "doempty":
			c := p.Do(ctx)
			rn.created = append(rn.created, c)
			rn.kinds = append(rn.kinds, "KAny")
			rn.evs = append(rn.evs, obs.App("EvCmd", obs.Nat(len(rn.created)-1)))
			rn.flat = append(rn.flat, "(OReject KAny EEmptyDo)")
			if e := classify(c.Err()); e.tag != "EEmptyDo" {
				rn.fail("Do() without arguments reports %v", e)
			}
		case "badbitcount":
			// rejected on the client side (as go-redis does): an error Cmd, nothing queued
			c := p.BitCount(ctx, o.K, &compat.BitCount{Start: 0, End: 1, Unit: o.V})
			rn.created = append(rn.created, c)
			rn.kinds = append(rn.kinds, "KInt")
			rn.evs = append(rn.evs, obs.App("EvCmd", obs.Nat(len(rn.created)-1)))
			rn.flat = append(rn.flat, "(OReject KInt EInvalidArg)")
			if e := classify(c.Err()); e.tag != "EInvalidArg" {
				rn.fail("BitCount with unit %q reports %v, want the invalid-index error and no command", o.V, e)
			}
		case "len":
			n := p.Len()
			rn.evs = append(rn.evs, obs.App("EvLen", obs.Nat(n)))
			rn.flat = append(rn.flat, "OLen")
			if n != len(rn.expArgv) {
				rn.fail("Len() = %d with %d commands queued", n, len(rn.expArgv))
			}
		case "discard":
			p.Discard()
			rn.flat = append(rn.flat, "ODiscard")
			rn.expArgv, rn.expCmds = nil, nil
			if n := p.Len(); n != 0 {
				rn.fail("Len() = %d after Discard", n)
			}
		case "write":
			// another client changes a (possibly watched) key
			if rn.other != nil {
				rn.other.Do(ctx, rn.other.B().Set().Key(o.K).Value(o.V).Build())
			}
		case "exec":
			rn.exec(o, func(func()) ([]compat.Cmder, error) { return p.Exec(ctx) })
		case "pipelined", "txpipelined":
			body := o.Body
			call := func(mark func()) ([]compat.Cmder, error) {
				fn := func(pp compat.Pipeliner) error {
					rn.runOps(pp, body)
					mark()
					if o.Fail {
						return errFn
					}
					return nil
				}
				if o.T == "pipelined" {
					return p.Pipelined(ctx, fn)
				}
				return p.TxPipelined(ctx, fn)
			}
			if o.Fail {
				rets, err := call(func() {})
				if rets != nil || !errors.Is(err, errFn) {
					rn.fail("Pipelined with a failing fn returned (%v, %v)", rets, err)
				}
			} else {
				rn.exec(o, call)
			}
		}
	}
}

// exec runs one Exec (or one Pipelined, whose fn calls mark() after its body so that nested Execs of the
// body are not attributed to this one).
func (rn *runner) exec(o Op, call func(mark func()) ([]compat.Cmder, error)) {
	nb, logBefore := 0, 0
	mark := func() {
		nb = len(rn.rec.batches)
		if rn.c.isScript() {
			rn.rec.script = [][]R{o.Resp}
		}
		if rn.srv != nil {
			logBefore = len(rn.srv.LogCopy())
		}
	}
	mark()
	var rets []compat.Cmder
	var err error
	pan := true
	func() {
		defer func() {
			if pan {
				_ = recover()
			}
		}()
		rets, err = call(mark)
		pan = false
	}()
	rn.execs++
	// what was sent
	newb := rn.rec.batches[nb:]
	var sent [][]string
	if len(newb) > 1 {
		rn.fail("Exec made %d client calls, want one DoMulti", len(newb))
	}
	if len(newb) >= 1 {
		sent = newb[0].argv
		if newb[0].single {
			rn.fail("Exec used Do instead of DoMulti")
		}
		rn.evs = append(rn.evs, obs.App("EvSent", obs.ListOf(sent, coqArgv)))
	}
	// replies for the model
	var resp []R
	if rn.c.isScript() {
		if len(newb) >= 1 {
			resp = o.Resp
		}
	} else if rn.srv != nil {
		log := rn.srv.LogCopy()[logBefore:]
		var got [][]string
		log = batchLog(log)
		for _, e := range log {
			if e.InTx {
				continue
			}
			got = append(got, e.Argv)
			resp = append(resp, vToR(e.Reply))
		}
		// oracle: the server received exactly the batch, in order, on one connection
		if !reflect.DeepEqual(got, sent) && !(len(got) == 0 && len(sent) == 0) {
			rn.fail("server received %v, the adapter handed %v to DoMulti", got, sent)
		}
		for i := 1; i < len(log); i++ {
			if log[i].Conn != log[0].Conn {
				rn.fail("batch spread over connections %d and %d", log[0].Conn, log[i].Conn)
			}
		}
		rn.checkInTx(log)
	}
	rn.flat = append(rn.flat, obs.App("OExec", obs.ListOf(resp, coqRes)))

	// ---- direct oracle on what was sent ----
	want := rn.expArgv
	if len(want) > 0 && rn.tx {
		want = append(append([][]string{{"MULTI"}}, want...), []string{"EXEC"})
	}
	if len(want) == 0 {
		if len(sent) != 0 {
			rn.fail("Exec on an empty pipeline sent %v", sent)
		}
	} else if !reflect.DeepEqual(sent, want) {
		rn.fail("sent %v, want %v", sent, want)
	}
	queuedIDs := rn.expCmds
	rn.expArgv, rn.expCmds = nil, nil

	if pan {
		rn.panicked = true
		rn.evs = append(rn.evs, "EvPanic")
		if !rn.c.isScript() {
			rn.fail("Exec panicked against a well-behaved server")
		}
		return
	}
	// returned Cmders
	if rets == nil {
		rn.evs = append(rn.evs, obs.App("EvRet", "None", classify(err).coq()))
		if len(queuedIDs) != 0 {
			rn.fail("Exec returned nil Cmders with %d commands queued", len(queuedIDs))
		}
		if err != nil {
			rn.fail("Exec on an empty pipeline returned error %v", err)
		}
		return
	}
	ids := make([]int, len(rets))
	for i, c := range rets {
		ids[i] = rn.idOf(c)
	}
	rn.evs = append(rn.evs, obs.App("EvRet", obs.Some(obs.ListOf(ids, obs.Nat)), classify(err).coq()))
	if !reflect.DeepEqual(ids, queuedIDs) {
		rn.fail("Exec returned Cmders %v, queued were %v", ids, queuedIDs)
		return
	}
	// ---- direct oracle on results (well-formed reply lists only) ----
	rn.checkResults(queuedIDs, resp, err)
}

// batchLog drops the connection handshake (a dedicated or freshly dialled connection starts with
// HELLO / CLIENT SETINFO); no template uses these commands.
func batchLog(log []fakeredis.Entry) []fakeredis.Entry {
	out := log[:0:0]
	for _, e := range log {
		switch strings.ToUpper(e.Argv[0]) {
		case "HELLO", "CLIENT", "AUTH", "SELECT":
			continue
		}
		out = append(out, e)
	}
	return out
}

// checkInTx: inside a transaction the server executed exactly the queued commands, in order
func (rn *runner) checkInTx(log []fakeredis.Entry) {
	if !rn.tx {
		return
	}
	var queued, executed [][]string
	for _, e := range log {
		if e.InTx {
			executed = append(executed, e.Argv)
		} else if n := strings.ToUpper(e.Argv[0]); n != "MULTI" && n != "EXEC" && n != "WATCH" && e.Reply.T == '+' && e.Reply.S == "QUEUED" {
			queued = append(queued, e.Argv)
		}
	}
	if len(executed) > 0 && !reflect.DeepEqual(queued, executed) {
		rn.fail("transaction executed %v, queued %v", executed, queued)
	}
}

// expectedShown is the oracle's own reading of "the reply of its own command" for one Cmd kind;
// it only answers for replies of the expected shape (ok=false otherwise).
func expectedShown(kind string, r R) (cerr, *R, bool) {
	switch r.T {
	case "net":
		return cerr{tag: "ENet"}, nil, true
	case "err":
		return cerr{tag: "ERedis", msg: strings.TrimPrefix(r.S, "ERR ")}, nil, true
	case "nil":
		if kind == "KBool" {
			return cerr{tag: "ENone"}, &R{T: "int", I: 0}, true
		}
		return cerr{tag: "ENil"}, nil, true
	}
	switch kind {
	case "KString":
		if r.T == "str" {
			return cerr{tag: "ENone"}, &r, true
		}
	case "KInt":
		if r.T == "int" {
			return cerr{tag: "ENone"}, &r, true
		}
	case "KBool":
		if r.T == "int" {
			b := int64(0)
			if r.I != 0 {
				b = 1
			}
			return cerr{tag: "ENone"}, &R{T: "int", I: b}, true
		}
	case "KAny":
		if r.T == "str" || r.T == "int" {
			return cerr{tag: "ENone"}, &r, true
		}
		if r.T == "arr" {
			flat := true
			for _, e := range r.A {
				if e.T != "str" && e.T != "int" && e.T != "nil" {
					flat = false
				}
			}
			if flat {
				return cerr{tag: "ENone"}, &r, true
			}
		}
	case "KSlice":
		if r.T == "arr" {
			flat := true
			for _, e := range r.A {
				if e.T != "str" && e.T != "nil" {
					flat = false
				}
			}
			if flat {
				return cerr{tag: "ENone"}, &r, true
			}
		}
	}
	return cerr{}, nil, false
}

func sameShown(e1 cerr, r1 *R, e2 cerr, r2 *R) bool {
	if e1 != e2 {
		return false
	}
	if (r1 == nil) != (r2 == nil) {
		return false
	}
	return r1 == nil || reflect.DeepEqual(normR(*r1), normR(*r2))
}

func normR(r R) R {
	if r.T == "arr" && r.A == nil {
		r.A = []R{}
	}
	for i := range r.A {
		r.A[i] = normR(r.A[i])
	}
	return r
}

func (rn *runner) checkResults(ids []int, resp []R, err error) {
	n := len(ids)
	var per []R // the reply that belongs to command i
	var execErr *cerr
	if rn.tx {
		if len(resp) != n+2 {
			return // malformed script: model only
		}
		for _, q := range resp[1 : n+1] {
			if q.T == "net" {
				return
			}
		}
		last := resp[n+1]
		switch last.T {
		case "arr":
			if len(last.A) != n {
				return
			}
			per = last.A
		case "nil":
			execErr = &cerr{tag: "ETxFailed"}
		case "err":
			execErr = &cerr{tag: "ERedis", msg: strings.TrimPrefix(last.S, "ERR ")}
		case "net":
			execErr = &cerr{tag: "ENet"}
		default:
			return
		}
	} else {
		if len(resp) != n {
			return
		}
		per = resp
	}
	got := classify(err)
	if execErr != nil {
		// WATCH abort / EXEC error: the error is reported and no Cmd is touched
		if got != *execErr {
			rn.fail("Exec returned %v, want %v", got, *execErr)
		}
		for _, id := range ids {
			if e := classify(rn.created[id].Err()); e.tag != rn.initial(id) {
				rn.fail("Cmd %d reports %v after an aborted transaction", id, e)
			}
		}
		return
	}
	first := cerr{tag: "ENone"}
	for i, id := range ids {
		we, wr, ok := expectedShown(rn.kinds[id], per[i])
		ge, gr := shownOf(rn.created[id])
		if ok && !sameShown(ge, gr, we, wr) {
			rn.fail("Cmd %d (%s, command %d of the batch) holds %v %v, the reply to its command was %+v", id, rn.kinds[id], i, ge, gr, per[i])
		}
		if first.tag == "ENone" && ge.tag != "ENone" {
			first = ge
		}
	}
	if got != first {
		rn.fail("Exec returned error %v, the first failing Cmd in queue order holds %v", got, first)
	}
}

func (c *Case) isScript() bool { return strings.HasPrefix(c.Kind, "script") }

// ---------------------------------------------------------------------------------------------

func newFake(c *Case) (*fakeredis.Server, rueidis.Client, error) {
	s := fakeredis.New()
	if c.Proto == 2 {
		s.NoHello = true
	}
	cl, err := rueidis.NewClient(rueidis.ClientOption{InitAddress: []string{"127.0.0.1:6379"}, DialCtxFn: s.Dial,
		ForceSingleClient: true, DisableCache: true, DisableAutoPipelining: false})
	return s, cl, err
}

// installWatch makes WATCH/EXEC of the fake server honour optimistic locking: a watched key
// modified since WATCH makes EXEC reply nil (the transaction is discarded).
func installWatch(s *fakeredis.Server) {
	s.Fault = func(c *fakeredis.Conn, _ int, argv []string) fakeredis.Action {
		switch strings.ToUpper(argv[0]) {
		case "WATCH":
			s.Lock()
			w, _ := c.Ext["watch"].(map[string]int64)
			if w == nil {
				w = map[string]int64{}
			}
			for _, k := range argv[1:] {
				w[k] = s.Versions[k]
			}
			c.Ext["watch"] = w
			s.Unlock()
		case "UNWATCH":
			s.Lock()
			delete(c.Ext, "watch")
			s.Unlock()
		case "EXEC":
			s.Lock()
			w, _ := c.Ext["watch"].(map[string]int64)
			delete(c.Ext, "watch")
			dirty := false
			for k, v := range w {
				if s.Versions[k] != v {
					dirty = true
				}
			}
			if dirty {
				s.Exec(c, []string{"DISCARD"}, false)
			}
			s.Unlock()
			if dirty {
				n := fakeredis.Nil() // "_" in RESP3, "$-1" in RESP2 (Redis sends "*-1"; the client maps both to null)
				return fakeredis.Action{Override: &n}
			}
		}
		return fakeredis.Action{}
	}
}

var shared struct {
	real rueidis.Client // a client used only for B() in the script back end
	srv  *fakeredis.Server
}

func builderClient() rueidis.Client {
	if shared.real == nil {
		s := fakeredis.New()
		cl, err := rueidis.NewClient(rueidis.ClientOption{InitAddress: []string{"127.0.0.1:6379"}, DialCtxFn: s.Dial, ForceSingleClient: true, DisableCache: true})
		if err != nil {
			panic(err)
		}
		shared.real, shared.srv = cl, s
	}
	return shared.real
}

func run(ci any) (res obs.Result) {
	c := ci.(Case)
	res.Kind = c.Kind
	res.Site, res.Class = "rueidiscompat/pipeline.go:Pipeline.Exec", "order-results"
	if strings.HasSuffix(c.Kind, "tx") || strings.HasSuffix(c.Kind, "watch") {
		res.Site = "rueidiscompat/tx.go:TxPipeline.Exec"
	}
	if c.Kind == "sweep" {
		return runSweep(c)
	}
	rn := &runner{c: &c, rec: &recorder{}}
	var client rueidis.Client
	if c.isScript() {
		client = &recClient{Client: builderClient(), rec: rn.rec, scripted: true}
		rn.rec.wres = c.WRes
	} else {
		s, real, err := newFake(&c)
		if err != nil {
			res.Oracle = "harness: " + err.Error()
			return
		}
		defer real.Close()
		installWatch(s)
		rn.srv = s
		for _, p := range c.Pre {
			real.Do(ctx, real.B().Arbitrary(p[0]).Args(p[1:]...).Build())
		}
		client = &recClient{Client: real, rec: rn.rec}
		if c.Kind == "fake-watch" {
			o, err := rueidis.NewClient(rueidis.ClientOption{InitAddress: []string{"127.0.0.1:6379"}, DialCtxFn: s.Dial, ForceSingleClient: true, DisableCache: true})
			if err != nil {
				res.Oracle = "harness: " + err.Error()
				return
			}
			defer o.Close()
			rn.other = o
		}
	}
	ad := compat.NewAdapter(client)
	rn.tx = !strings.HasSuffix(c.Kind, "pipe")

	switch {
	case strings.HasSuffix(c.Kind, "watch"):
		var werr error
		ran := false
		nb := len(rn.rec.batches)
		werr = ad.Watch(ctx, func(tx compat.Tx) error {
			ran = true
			// the WATCH command went out before fn, on the dedicated connection
			p := tx.TxPipeline()
			rn.runOps(p, c.Ops)
			return nil
		}, c.Keys...)
		var wevs []string
		bs := rn.rec.batches
		if len(c.Keys) > 0 {
			want := append([]string{"WATCH"}, c.Keys...)
			if len(bs) <= nb || !bs[nb].single || !reflect.DeepEqual(bs[nb].argv[0], want) {
				rn.fail("Watch(%v) did not send WATCH first: %v", c.Keys, bs)
			} else {
				wevs = append(wevs, obs.App("WDo", coqArgv(bs[nb].argv[0])))
			}
		} else if len(bs) > nb && bs[nb].single {
			rn.fail("Watch() without keys sent %v", bs[nb].argv)
		}
		for _, b := range bs[nb:] {
			if b.conn == 0 {
				rn.fail("a Watch command went through the shared client instead of the dedicated connection: %v", b.argv)
			}
		}
		if !ran {
			wevs = append(wevs, obs.App("WErr", classify(werr).coq()))
			if werr == nil {
				rn.fail("Watch did not run fn and returned no error")
			}
		} else {
			wevs = append(wevs, obs.App("WBody", obs.List(rn.evs)))
		}
		if rn.srv != nil {
			rn.checkOneConn()
		}
		wres := R{T: "str", S: "OK"}
		if c.WRes != nil {
			wres = *c.WRes
		}
		res.Coq = obs.App("CWatch", obs.ListOf(c.Keys, obs.HS), coqRes(wres), obs.List(rn.flat), obs.List(wevs), rn.shownList())
	default:
		var p compat.Pipeliner
		if rn.tx {
			p = ad.TxPipeline()
		} else {
			p = ad.Pipeline()
		}
		if c.Entry == "pipelined" {
			// the whole program runs inside adapter.Pipelined / TxPipelined (one more exec at the end)
			o := Op{T: "pipelined", Body: c.Ops}
			if len(c.Ops) > 0 && c.Ops[len(c.Ops)-1].T == "exec" {
				o.Resp = c.Ops[len(c.Ops)-1].Resp
				o.Body = c.Ops[:len(c.Ops)-1]
			}
			call := func(mark func()) ([]compat.Cmder, error) {
				fn := func(pp compat.Pipeliner) error { rn.runOps(pp, o.Body); mark(); return nil }
				if rn.tx {
					return ad.TxPipelined(ctx, fn)
				}
				return ad.Pipelined(ctx, fn)
			}
			rn.exec(o, call)
		} else {
			rn.runOps(p, c.Ops)
		}
		res.Coq = obs.App("CPipe", obs.Bool(rn.tx), obs.List(rn.flat), obs.List(rn.evs), rn.shownList())
	}
	res.Sig = fmt.Sprint(c.Kind, rn.flat)
	res.Nontrivial = rn.execs > 0 && rn.nq > 0
	res.Obs = map[string]any{"events": rn.evs, "cmds": rn.shownList()}
	if len(rn.oracle) > 0 {
		res.Oracle = strings.Join(rn.oracle, " ;; ")
	}
	return
}

func (rn *runner) shownList() string {
	out := make([]string, len(rn.created))
	for i, c := range rn.created {
		e, r := shownOf(c)
		if e.tag == "EOther" {
			rn.fail("Cmd %d holds an unclassified error: %s", i, e.msg)
		}
		out[i] = coqShown(e, r)
	}
	return obs.List(out)
}

// checkOneConn: WATCH, MULTI, the queued commands and EXEC of a Watch session share one connection
func (rn *runner) checkOneConn() {
	conn := -1
	for _, e := range rn.srv.LogCopy() {
		n := strings.ToUpper(e.Argv[0])
		if n == "HELLO" || n == "CLIENT" || n == "PING" || n == "SELECT" {
			continue
		}
		// the interfering writer and the set-up use other connections: SET of the writer is told apart by connection
		if n == "WATCH" {
			conn = e.Conn
		}
		if (n == "MULTI" || n == "EXEC") && conn != -1 && e.Conn != conn {
			rn.fail("%s arrived on connection %d, WATCH on %d", n, e.Conn, conn)
		}
	}
}

// ---------------------------------------------------------------------------------------------
// method sweep

var skipMethods = map[string]bool{
	"Exec": true, "Discard": true, "Len": true, "Do": true, "Pipelined": true, "TxPipelined": true, "Pipeline": true,
	"TxPipeline": true, "Cache": true, "Subscribe": true, "PSubscribe": true, "SSubscribe": true, "Watch": true,
	"ForEachMaster": true, "Client": true,
}

func sweepMethods() []string {
	t := reflect.TypeOf(compat.NewAdapter(builderClient()).Pipeline())
	var ns []string
	for i := 0; i < t.NumMethod(); i++ {
		if n := t.Method(i).Name; !skipMethods[n] {
			ns = append(ns, n)
		}
	}
	sort.Strings(ns)
	return ns
}

var timeType = reflect.TypeOf(time.Time{})
var durType = reflect.TypeOf(time.Duration(0))
var ctxType = reflect.TypeOf((*context.Context)(nil)).Elem()

func synth(t reflect.Type, r *gen.Rand, depth int) reflect.Value {
	switch {
	case t == ctxType:
		return reflect.ValueOf(ctx)
	case t == timeType:
		return reflect.ValueOf(time.Unix(1700000000+int64(r.Intn(1000)), 0))
	case t == durType:
		return reflect.ValueOf(gen.Pick(r, []time.Duration{0, time.Second, 1500 * time.Millisecond, -1, time.Minute}))
	}
	v := reflect.New(t).Elem()
	switch t.Kind() {
	case reflect.String:
		v.SetString(gen.Pick(r, []string{"k1", "v", "0", "*", "ASC", "NX", "m", "km", "MIN", "", "BYTE"}))
	case reflect.Int, reflect.Int64, reflect.Int32, reflect.Int16, reflect.Int8:
		v.SetInt(int64(r.Intn(4)))
	case reflect.Uint, reflect.Uint64, reflect.Uint32, reflect.Uint16, reflect.Uint8:
		v.SetUint(uint64(r.Intn(4)))
	case reflect.Float64, reflect.Float32:
		v.SetFloat(float64(r.Intn(5)) / 2)
	case reflect.Bool:
		v.SetBool(r.Bool())
	case reflect.Interface:
		if t.NumMethod() == 0 {
			v.Set(reflect.ValueOf(gen.Pick(r, []any{"v", 1, int64(2), 1.5, true, []byte("b")})))
		}
	case reflect.Slice:
		n := r.Intn(3)
		if depth == 0 {
			n = 1 + r.Intn(2)
		}
		s := reflect.MakeSlice(t, n, n)
		for i := 0; i < n; i++ {
			s.Index(i).Set(synth(t.Elem(), r, depth+1))
		}
		v.Set(s)
	case reflect.Map:
		m := reflect.MakeMap(t)
		if t.Key().Kind() == reflect.String {
			m.SetMapIndex(reflect.ValueOf("f1").Convert(t.Key()), synth(t.Elem(), r, depth+1))
		}
		v.Set(m)
	case reflect.Pointer:
		if depth < 4 && (depth == 0 || r.Chance(2, 3)) {
			p := reflect.New(t.Elem())
			p.Elem().Set(synth(t.Elem(), r, depth+1))
			v.Set(p)
		}
	case reflect.Struct:
		if depth < 5 {
			for i := 0; i < t.NumField(); i++ {
				if t.Field(i).IsExported() && r.Chance(2, 3) {
					v.Field(i).Set(synth(t.Field(i).Type, r, depth+1))
				}
			}
		}
	}
	return v
}

func runSweep(c Case) (res obs.Result) {
	res.Kind = "sweep"
	res.Site, res.Class = "rueidiscompat/pipeline.go:Pipeline."+c.Method, "one-command-one-cmder"
	res.Sig = "sweep" + c.Method + fmt.Sprint(c.Seed)
	rec := &recorder{}
	client := &recClient{Client: builderClient(), rec: rec, scripted: true}
	p := compat.NewAdapter(client).Pipeline()
	m := reflect.ValueOf(p).MethodByName(c.Method)
	if !m.IsValid() {
		res.Oracle = "harness: no method " + c.Method
		return
	}
	r := gen.New(c.Seed)
	mt := m.Type()
	args := make([]reflect.Value, 0, mt.NumIn())
	for i := 0; i < mt.NumIn(); i++ {
		if mt.In(i).Kind() == reflect.Func {
			res.Oracle = "harness: method with a func parameter in the sweep: " + c.Method
			return
		}
		if mt.IsVariadic() && i == mt.NumIn()-1 {
			s := synth(mt.In(i), r, 0)
			for j := 0; j < s.Len(); j++ {
				args = append(args, s.Index(j))
			}
		} else {
			args = append(args, synth(mt.In(i), r, 0))
		}
	}
	var out []reflect.Value
	pan := true
	func() {
		defer func() {
			if pan {
				_ = recover()
			}
		}()
		out = m.Call(args)
		pan = false
	}()
	n := p.Len()
	ping := p.Ping(ctx)
	// the swept command is answered with an error reply (every Cmd type accepts that), PING with PONG
	sc := []R{{T: "err", S: "ERR swept"}, {T: "str", S: "PONG"}}
	rec.script = [][]R{sc[2-p.Len():]}
	var rets []compat.Cmder
	func() {
		defer func() {
			if e := recover(); e != nil {
				res.Oracle = fmt.Sprintf("Exec panicked after %s: %v", c.Method, e)
			}
		}()
		rets, _ = p.Exec(ctx)
	}()
	if res.Oracle != "" {
		return
	}
	sentN := 0
	if len(rec.batches) > 0 {
		sentN = len(rec.batches[len(rec.batches)-1].argv)
	}
	res.Nontrivial = !pan
	res.Obs = map[string]any{"panicked": pan, "len": n, "rets": len(rets), "sent": sentN}
	if pan {
		if n != 0 || len(rets) != 1 || rets[0] != compat.Cmder(ping) || sentN != 1 {
			res.Oracle = fmt.Sprintf("%s panicked and left the pipeline out of step: Len=%d, Exec returned %d Cmders for %d commands", c.Method, n, len(rets), sentN)
		}
		return
	}
	if n == 0 && len(rets) == 1 && sentN == 1 && rets[0] == compat.Cmder(ping) && len(out) == 1 {
		// rejected on the client side: nothing queued, and the Cmd handed out must say so
		if cm, ok := out[0].Interface().(compat.Cmder); !ok || cm.Err() == nil || classify(cm.Err()).tag == "ENotExecuted" {
			res.Oracle = fmt.Sprintf("%s queued nothing but its Cmd does not carry a rejection error", c.Method)
		}
		res.Obs.(map[string]any)["rejected"] = true
		return
	}
	if n != 1 || len(rets) != 2 || sentN != 2 {
		res.Oracle = fmt.Sprintf("%s queued %d commands and %d Cmders (want 1 and 1)", c.Method, n, len(rets)-1)
		return
	}
	if len(out) != 1 || !out[0].CanInterface() {
		res.Oracle = fmt.Sprintf("%s returned %d values", c.Method, len(out))
		return
	}
	if cm, ok := out[0].Interface().(compat.Cmder); !ok || rets[0] != cm || rets[1] != compat.Cmder(ping) {
		res.Oracle = fmt.Sprintf("Exec after %s does not return the Cmder the method handed out (then Ping)", c.Method)
	}
	return
}

// ---------------------------------------------------------------------------------------------
// generators

var keyPool = []string{"k0", "k1", "k2", "k3"}

func genQ(r *gen.Rand) Op {
	return Op{T: "q", M: gen.Pick(r, tmplNames), K: gen.Pick(r, keyPool), V: gen.Pick(r, []string{"1", "v", "41", "k1", "x y", ""})}
}

func genOps(r *gen.Rand, depth int, script bool, tx bool) []Op {
	var ops []Op
	n := r.Size(14, 3, 8)
	for i := 0; i < n; i++ {
		switch x := r.Intn(20); {
		case x < 12:
			ops = append(ops, genQ(r))
		case x == 12:
			if r.Bool() {
				ops = append(ops, Op{T: "doempty"})
			} else {
				ops = append(ops, Op{T: "badbitcount", K: gen.Pick(r, keyPool), V: gen.Pick(r, []string{"byte", "bit", "x", "BYTES"})})
			}
		case x == 13:
			ops = append(ops, Op{T: "len"})
		case x == 14:
			ops = append(ops, Op{T: "discard"})
		case x <= 16:
			ops = append(ops, Op{T: "exec"})
		case x <= 18 && depth < 2:
			t := "pipelined"
			if r.Bool() {
				t = "txpipelined"
			}
			ops = append(ops, Op{T: t, Body: genOps(r, depth+1, script, tx), Fail: r.Chance(1, 5)})
		default:
			ops = append(ops, genQ(r))
		}
	}
	if depth == 0 && r.Chance(4, 5) {
		ops = append(ops, Op{T: "exec"})
	}
	return ops
}

func genR(r *gen.Rand, depth int) R {
	switch x := r.Intn(12); {
	case x < 3:
		return R{T: "str", S: gen.Pick(r, []string{"OK", "v", "12", "-7", "QUEUED", "", "9223372036854775808", "+5", "1x"})}
	case x < 5:
		return R{T: "int", I: int64(r.Intn(5)) - 1}
	case x < 7:
		return R{T: "err", S: gen.Pick(r, []string{"ERR unknown command", "WRONGTYPE Operation against a key holding the wrong kind of value", "ERR ERR twice", "EXECABORT Transaction discarded because of previous errors.", "ERR"})}
	case x < 8:
		return R{T: "nil"}
	case x < 10 && depth < 2:
		n := r.Intn(4)
		a := make([]R, n)
		for i := range a {
			a[i] = genR(r, depth+1)
		}
		return R{T: "arr", A: a}
	}
	return R{T: "str", S: "s" + strconv.Itoa(r.Intn(100))}
}

func genRes(r *gen.Rand) R {
	if r.Chance(1, 15) {
		return R{T: "net"}
	}
	return genR(r, 0)
}

// fillScripts walks the ops in execution order, tracking the queue length, and attaches reply lists
func fillScripts(r *gen.Rand, ops []Op, tx bool, qlen *int) {
	for i := range ops {
		o := &ops[i]
		switch o.T {
		case "q":
			*qlen++
		case "discard":
			*qlen = 0
		case "pipelined", "txpipelined":
			fillScripts(r, o.Body, tx, qlen)
			if !o.Fail {
				o.Resp = genResp(r, *qlen, tx)
				*qlen = 0
			}
		case "exec":
			o.Resp = genResp(r, *qlen, tx)
			*qlen = 0
		}
	}
}

func genResp(r *gen.Rand, n int, tx bool) []R {
	if n == 0 {
		return nil
	}
	m := n
	shape := r.Intn(12)
	if tx {
		m = n + 2
	}
	switch shape { // malformed lengths
	case 0:
		m = m - 1
	case 1:
		m = m + 1
	case 2:
		if r.Chance(1, 3) {
			m = 0
		}
	}
	if m < 0 {
		m = 0
	}
	out := make([]R, m)
	for i := range out {
		out[i] = genRes(r)
	}
	if tx && m > 0 {
		for i := 0; i < m-1; i++ {
			if out[i].T != "net" || !r.Chance(1, 3) {
				out[i] = R{T: "str", S: "QUEUED"}
			}
		}
		out[0] = R{T: "str", S: "OK"}
		// the EXEC reply
		switch x := r.Intn(12); {
		case x < 7:
			k := n
			if r.Chance(1, 6) {
				k = n + r.Range(-1, 1)
			}
			if k < 0 {
				k = 0
			}
			a := make([]R, k)
			for i := range a {
				a[i] = genR(r, 1)
			}
			out[m-1] = R{T: "arr", A: a}
		case x < 9:
			out[m-1] = R{T: "nil"}
		case x < 10:
			out[m-1] = R{T: "err", S: "EXECABORT Transaction discarded because of previous errors."}
		case x < 11:
			out[m-1] = R{T: "net"}
		default:
			out[m-1] = genR(r, 0)
		}
	}
	return out
}

var sweepList []string
var sweepIdx int

func genCase(r *gen.Rand, i int) any {
	c := Case{}
	if sweepList == nil {
		sweepList = sweepMethods()
	}
	x := r.Intn(17)
	switch {
	case i%3 == 0 && sweepIdx < len(sweepList) || i%40 == 0:
		// every third case is a sweep until every method has been called once (n >= 3*511), then 1 in 40
		c.Kind = "sweep"
	case x < 4:
		c.Kind = "fake-pipe"
	case x < 8:
		c.Kind = "fake-tx"
	case x < 10:
		c.Kind = "fake-watch"
	case x < 13:
		c.Kind = "script-pipe"
	case x < 16:
		c.Kind = "script-tx"
	default:
		c.Kind = "script-watch"
	}
	if c.Kind == "sweep" {
		c.Method = sweepList[sweepIdx%len(sweepList)]
		sweepIdx++
		c.Seed = r.U64()
		return c
	}
	tx := !strings.HasSuffix(c.Kind, "pipe")
	script := strings.HasPrefix(c.Kind, "script")
	c.Entry = "object"
	if r.Chance(1, 4) && !strings.HasSuffix(c.Kind, "watch") {
		c.Entry = "pipelined"
	}
	c.Proto = 3
	if r.Chance(1, 3) {
		c.Proto = 2
	}
	c.Ops = genOps(r, 0, script, tx)
	if c.Entry == "pipelined" {
		// no explicit exec/discard of the object outside: the body is the program, Exec comes from Pipelined
		if n := len(c.Ops); n == 0 || c.Ops[n-1].T != "exec" {
			c.Ops = append(c.Ops, Op{T: "exec"})
		}
	}
	if !script {
		// pre-populate so that WRONGTYPE / not-an-integer / nil replies occur
		for _, k := range keyPool {
			switch r.Intn(4) {
			case 0:
				c.Pre = append(c.Pre, []string{"SET", k, "7"})
			case 1:
				c.Pre = append(c.Pre, []string{"SET", k, "text"})
			case 2:
				c.Pre = append(c.Pre, []string{"LPUSH", k, "a", "b"})
			}
		}
	}
	if strings.HasSuffix(c.Kind, "watch") {
		nk := r.Intn(3)
		for j := 0; j < nk; j++ {
			c.Keys = append(c.Keys, gen.Pick(r, keyPool))
		}
		if script {
			w := gen.Pick(r, []R{{T: "str", S: "OK"}, {T: "str", S: "OK"}, {T: "err", S: "ERR WATCH inside MULTI is not allowed"}, {T: "net"}, {T: "nil"}, {T: "int", I: 1}})
			c.WRes = &w
		} else if r.Chance(1, 2) {
			// an interfering write somewhere in the body
			pos := r.Intn(len(c.Ops) + 1)
			w := Op{T: "write", K: gen.Pick(r, keyPool), V: "w"}
			c.Ops = append(c.Ops[:pos], append([]Op{w}, c.Ops[pos:]...)...)
		}
	}
	if script {
		q := 0
		fillScripts(r, c.Ops, tx, &q)
	}
	return c
}

func main() {
	obs.Main(obs.Runner{
		Name: "obs_compatpipe", Salt: 41,
		Gen: genCase,
		Decode: func(raw json.RawMessage) (any, error) {
			var c Case
			err := json.Unmarshal(raw, &c)
			return c, err
		},
		Run: run,
		Extra: func(emit func(rec map[string]any)) {
			emit(map[string]any{"k": "compatpipe-sweep", "methods": len(sweepMethods())})
		},
	})
}
