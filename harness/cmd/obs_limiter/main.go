// obs_limiter: C38 — rueidislimiter (real clients, the real rateLimitScript under mini-Lua on the fake
// server).  Several callers, each with its own connection, call Allow/AllowN/Check concurrently or in
// turn; the caller's clock is the real clock (read back from the script arguments), the server clock
// is the fake's virtual clock, set before every phase to "real time + skew".  The calls are put in the
// order in which the server ran their scripts (script log) and the direct oracle is evaluated on that
// sequence: per (identifier, ResetAtMs) the admitted units stay within the limit of every admitted call,
// Remaining = max(limit - requested so far in the window, 0), ResetAtMs never goes back for an
// identifier, a Check on a live window leaves both server keys untouched.
package main

import (
	"context"
	"encoding/json"
	"fmt"
	"strconv"
	"sync"
	"time"

	"github.com/redis/rueidis"
	"github.com/redis/rueidis/rueidislimiter"

	"verifharness/fakeredis"
	"verifharness/fakeredis/scripting"
	"verifharness/gen"
	"verifharness/obs"
)

type CallSpec struct {
	ID     int   `json:"id"`
	N      int64 `json:"n"`                // 0 = Check, 1 = Allow, else AllowN
	CLimit *int  `json:"climit,omitempty"` // WithCustomRateLimit
	CWinMs int64 `json:"cwin_ms,omitempty"`
}

type Phase struct {
	SkewMs  int64        `json:"skew_ms"` // server clock = real clock + skew at the start of the phase
	SleepUs int          `json:"sleep_us"`
	Par     [][]CallSpec `json:"par"` // one list per caller, run concurrently
}

type Case struct {
	Limit  int     `json:"limit"`
	WinMs  int64   `json:"win_ms"`
	Phases []Phase `json:"phases"`
}

func genCase(r *gen.Rand, i int) any {
	c := Case{Limit: gen.Pick(r, []int{1, 2, 3, 5, 8, 20}), WinMs: gen.Pick(r, []int64{2, 3, 5, 10, 40, 1000})}
	ids := 1 + r.Intn(3)
	bad := r.Chance(1, 10) // a tenth of the cases leave the clock hypothesis
	call := func() CallSpec {
		cs := CallSpec{ID: r.Intn(ids)}
		switch x := r.Intn(10); {
		case x < 2:
			cs.N = 0
		case x < 6:
			cs.N = 1
		case x < 9:
			cs.N = int64(r.Range(2, c.Limit+2))
		default:
			cs.N = int64(-r.Range(1, 3))
		}
		if r.Chance(1, 6) {
			l := gen.Pick(r, []int{0, 1, 2, c.Limit, c.Limit + 3, -1})
			cs.CLimit = &l
			cs.CWinMs = gen.Pick(r, []int64{1, 2, 7, 30, c.WinMs})
		}
		return cs
	}
	np := 2 + r.Size(14, 6)
	for p := 0; p < np; p++ {
		ph := Phase{SleepUs: gen.Pick(r, []int{0, 0, 300, 1000, 1000, 2500, 4000})}
		ph.SkewMs = gen.Pick(r, []int64{0, 0, -1, -100, -3000, 500, 990})
		if bad && r.Chance(1, 3) {
			ph.SkewMs = gen.Pick(r, []int64{1000, 1500, 5000})
		}
		callers := 1
		if r.Chance(1, 3) {
			callers = r.Range(2, 4)
		}
		for g := 0; g < callers; g++ {
			var l []CallSpec
			m := 1
			if callers > 1 || r.Chance(1, 4) {
				m = r.Range(1, 4)
			}
			for q := 0; q < m; q++ {
				l = append(l, call())
			}
			ph.Par = append(ph.Par, l)
		}
		c.Phases = append(c.Phases, ph)
	}
	return c
}

const site = "rueidislimiter/limiter.go"

type outcome struct {
	spec   CallSpec
	res    rueidislimiter.Result
	err    error
	caller int
}

type caller struct {
	rl   rueidislimiter.RateLimiterClient
	cl   rueidis.Client
	conn int
}

type winKey struct {
	id int
	r  int64
}

func run(ci any) (res obs.Result) {
	c := ci.(Case)
	res.Kind = "hist"
	res.Site = site
	res.Sig = fmt.Sprint(c)
	b, _ := json.Marshal(c)
	res.Sig = string(b)
	s := fakeredis.New()
	eng := scripting.Install(s)
	fail := func(class, msg string) {
		if res.Oracle == "" {
			res.Oracle, res.Class = msg, class
		}
	}
	ctx, cancel := context.WithTimeout(context.Background(), 30*time.Second)
	defer cancel()
	maxCallers := 1
	for _, p := range c.Phases {
		if len(p.Par) > maxCallers {
			maxCallers = len(p.Par)
		}
	}
	callers := make([]*caller, maxCallers)
	for g := range callers {
		cl, err := rueidis.NewClient(rueidis.ClientOption{InitAddress: []string{"127.0.0.1:6379"}, DialCtxFn: s.Dial,
			ForceSingleClient: true, DisableCache: true, DisableRetry: true, PipelineMultiplex: -1})
		if err != nil {
			fail("harness", "cannot connect: "+err.Error())
			return
		}
		defer cl.Close()
		id, err := cl.Do(ctx, cl.B().ClientId().Build()).AsInt64()
		if err != nil {
			fail("harness", "CLIENT ID: "+err.Error())
			return
		}
		rl, err := rueidislimiter.NewRateLimiter(rueidislimiter.RateLimiterOption{
			ClientBuilder: func(rueidis.ClientOption) (rueidis.Client, error) { return cl, nil },
			KeyPrefix:     "rl", Limit: c.Limit, Window: time.Duration(c.WinMs) * time.Millisecond,
		})
		if err != nil {
			fail("harness", "NewRateLimiter: "+err.Error())
			return
		}
		callers[g] = &caller{rl: rl, cl: cl, conn: int(id)}
	}
	connCaller := map[int]int{}
	for g, ca := range callers {
		connCaller[ca.conn] = g
	}
	do := func(ca *caller, cs CallSpec) (rueidislimiter.Result, error) {
		ident := "id" + strconv.Itoa(cs.ID)
		var opts []rueidislimiter.RateLimitOption
		if cs.CLimit != nil {
			opts = append(opts, rueidislimiter.WithCustomRateLimit(*cs.CLimit, time.Duration(cs.CWinMs)*time.Millisecond))
		}
		switch cs.N {
		case 0:
			return ca.rl.Check(ctx, ident, opts...)
		case 1:
			return ca.rl.Allow(ctx, ident, opts...)
		}
		return ca.rl.AllowN(ctx, ident, cs.N, opts...)
	}
	rawState := func(id int) string {
		k := "rl:{id" + strconv.Itoa(id) + "}"
		return fmt.Sprint(show(eng.Do("GET", k)), show(eng.Do("PTTL", k)), show(eng.Do("GET", k+":ex")), show(eng.Do("PTTL", k+":ex")))
	}
	// sequence in server order
	type step struct {
		o            outcome
		nowC, next   int64
		nowS         int64
		cur, expires int64
		sent         bool
	}
	var seq []step
	hypothesis := true
	checkPure := 0
	for _, ph := range c.Phases {
		if ph.SleepUs > 0 {
			time.Sleep(time.Duration(ph.SleepUs) * time.Microsecond)
		}
		// the server clock never goes back (a key that expired stays expired)
		if target := time.Now().UnixMilli() + ph.SkewMs; target > s.Now() {
			s.Advance(target - s.Now())
		}
		nowS := s.Now()
		runsBefore := len(eng.Runs())
		perCaller := make([][]outcome, len(ph.Par))
		single := len(ph.Par) == 1 && len(ph.Par[0]) == 1
		var before string
		if single {
			before = rawState(ph.Par[0][0].ID)
		}
		var wg sync.WaitGroup
		for g, list := range ph.Par {
			wg.Add(1)
			go func(g int, list []CallSpec) {
				defer wg.Done()
				for _, cs := range list {
					r, err := do(callers[g], cs)
					perCaller[g] = append(perCaller[g], outcome{spec: cs, res: r, err: err, caller: g})
				}
			}(g, list)
		}
		wg.Wait()
		// pair the script runs (server order) with the callers' outcomes (per-connection order)
		next := make([]int, len(ph.Par))
		emitUnsent := func(g int) { // calls that were refused before sending (n < 0)
			for next[g] < len(perCaller[g]) && perCaller[g][next[g]].spec.N < 0 {
				seq = append(seq, step{o: perCaller[g][next[g]], nowS: nowS})
				next[g]++
			}
		}
		for _, r := range eng.Runs()[runsBefore:] {
			g, ok := connCaller[r.Conn]
			if !ok || g >= len(ph.Par) {
				fail("harness", "script run from an unknown connection")
				return
			}
			emitUnsent(g)
			if next[g] >= len(perCaller[g]) || len(r.Args) != 3 {
				fail("harness", "more script runs than calls")
				return
			}
			o := perCaller[g][next[g]]
			next[g]++
			st := step{o: o, nowS: nowS, sent: true}
			nArg, _ := strconv.ParseInt(r.Args[0], 10, 64)
			st.next, _ = strconv.ParseInt(r.Args[1], 10, 64)
			st.nowC, _ = strconv.ParseInt(r.Args[2], 10, 64)
			if nArg != o.spec.N {
				fail("argv", fmt.Sprintf("ARGV[1] = %d for AllowN(%d)", nArg, o.spec.N))
			}
			if r.Reply.T == '*' && len(r.Reply.A) == 2 {
				st.cur, st.expires = r.Reply.A[0].I, r.Reply.A[1].I
			} else {
				fail("script-reply", "unexpected script reply "+show(r.Reply))
			}
			if r.Unsupported != "" {
				fail("mini-lua", "script left the mini-Lua subset: "+r.Unsupported)
			}
			if !(st.next-st.nowC > 0 && nowS < st.nowC+1000) {
				hypothesis = false
			}
			seq = append(seq, st)
		}
		for g := range ph.Par {
			emitUnsent(g)
			if next[g] != len(perCaller[g]) {
				fail("harness", "a call without a script run")
				return
			}
		}
		if single && hypothesis && ph.Par[0][0].N == 0 && len(seq) > 0 && seq[len(seq)-1].sent {
			// Check on a window that was live for this caller: both keys untouched
			st := seq[len(seq)-1]
			after := rawState(ph.Par[0][0].ID)
			exv := eng.Do("GET", "rl:{id"+strconv.Itoa(ph.Par[0][0].ID)+"}:ex")
			_ = exv
			if st.expires >= st.nowC && st.expires != st.next { // no new window was opened
				checkPure++
				if before != after {
					fail("check-not-pure", fmt.Sprintf("Check changed the server keys: %s -> %s", before, after))
				}
			}
		}
	}
	// direct oracle on the server-order sequence
	requested := map[winKey]int64{}
	admitted := map[winKey]int64{}
	lastReset := map[int]int64{}
	var terms []string
	var trace []any
	nontrivial := false
	for _, st := range seq {
		o := st.o
		limit := int64(c.Limit)
		if o.spec.CLimit != nil {
			limit = int64(*o.spec.CLimit)
		}
		if !st.sent {
			if o.err == nil {
				fail("negative-n", fmt.Sprintf("AllowN(%d) was accepted", o.spec.N))
			}
			terms = append(terms, fmt.Sprintf("(%d%%N, %s, %s, 1%%Z, 0%%Z, 0%%Z, LErr)", o.spec.ID, obs.Z(o.spec.N), obs.Z(limit)))
			trace = append(trace, []any{o.caller, o.spec, "refused"})
			continue
		}
		if o.err != nil {
			fail("call-error", "AllowN: "+o.err.Error())
			continue
		}
		nontrivial = true
		k := winKey{o.spec.ID, o.res.ResetAtMs}
		requested[k] += o.spec.N
		if o.res.Allowed && o.spec.N > 0 {
			admitted[k] += o.spec.N
		}
		trace = append(trace, []any{o.caller, o.spec, o.res, st.nowC, st.nowS})
		if o.res.ResetAtMs != st.expires {
			fail("reset", fmt.Sprintf("ResetAtMs = %d, the script returned %d", o.res.ResetAtMs, st.expires))
		}
		if hypothesis {
			if o.res.Allowed && o.spec.N > 0 && admitted[k] > limit {
				fail("over-admission", fmt.Sprintf("identifier %d window %d: %d units admitted, limit %d", o.spec.ID, k.r, admitted[k], limit))
			}
			want := limit - requested[k]
			if want < 0 {
				want = 0
			}
			if o.res.Remaining != want {
				fail("remaining", fmt.Sprintf("identifier %d window %d: Remaining = %d, limit %d minus requested %d", o.spec.ID, k.r, o.res.Remaining, limit, requested[k]))
			}
			if lr, ok := lastReset[o.spec.ID]; ok && o.res.ResetAtMs < lr {
				fail("reset-went-back", fmt.Sprintf("identifier %d: ResetAtMs %d after %d", o.spec.ID, o.res.ResetAtMs, lr))
			}
			lastReset[o.spec.ID] = o.res.ResetAtMs
			if o.spec.N == 0 && o.res.Allowed != (requested[k] < limit) {
				fail("check-result", fmt.Sprintf("Check: Allowed = %v with %d of %d requested", o.res.Allowed, requested[k], limit))
			}
		}
		terms = append(terms, fmt.Sprintf("(%d%%N, %s, %s, %s, %s, %s, (LRes %s %s %s %s))", o.spec.ID, obs.Z(o.spec.N), obs.Z(limit),
			obs.Z(st.next-st.nowC), obs.Z(st.nowC), obs.Z(st.nowS), obs.Bool(o.res.Allowed), obs.Z(o.res.Remaining), obs.Z(o.res.ResetAtMs), obs.Z(st.cur)))
	}
	windows := map[winKey]bool{}
	for k := range requested {
		windows[k] = true
	}
	res.Obs = map[string]any{"hypothesis": hypothesis, "windows": len(windows), "check_pure_checked": checkPure, "trace": trace}
	res.Nontrivial = nontrivial
	if !hypothesis {
		res.Kind = "hist-skewed"
	} else if len(windows) > 1 {
		res.Kind = "hist-multiwindow"
	}
	res.Coq = obs.App("CLim", obs.List(terms))
	return
}

func show(v fakeredis.V) string {
	switch v.T {
	case ':':
		return strconv.FormatInt(v.I, 10)
	case '$', '+', '-':
		return string(v.T) + v.S
	case '_':
		return "nil"
	case '*':
		s := "["
		for _, e := range v.A {
			s += show(e) + " "
		}
		return s + "]"
	}
	return "?"
}

func main() {
	obs.Main(obs.Runner{
		Name: "obs_limiter", Salt: 38,
		Gen: genCase,
		Decode: func(raw json.RawMessage) (any, error) {
			var c Case
			err := json.Unmarshal(raw, &c)
			return c, err
		},
		Run: run,
	})
}
