// obs_replica: C21 — which node (primary or replica, by the role it reports) receives each command,
// for generated SendToReplicas predicates, node selectors and topologies, in standalone-with-replicas,
// sentinel and cluster modes, through the real clients built from the working tree.
package main

import (
	"context"
	"encoding/json"
	"flag"
	"fmt"
	"hash/fnv"
	"strconv"
	"strings"
	"time"

	"github.com/redis/rueidis"

	fc "verifharness/fakecluster"
	fs "verifharness/fakesentinel"
	"verifharness/gen"
	"verifharness/obs"
	ro "verifharness/routeobs"
)

type Case struct {
	K    string `json:"k"`
	Seed uint64 `json:"seed,omitempty"`
	// enumerated cases (k = "x", see enum.go): client mode, entry point, per command opt-in and shape
	Mode  string `json:"mode,omitempty"`
	E     int    `json:"e,omitempty"`
	Opt   []bool `json:"opt,omitempty"`
	Shape []int  `json:"shape,omitempty"`
	ID    int    `json:"id,omitempty"`
}

var kindsFlag = flag.String("kinds", "standalone,sentinel,cluster,standalone-e,sentinel-e,cluster-e,cluster-e,cluster-e", "case kinds to generate")

var enumFlag = flag.Bool("enum", true, "run the exhaustive small scope (enum.go) before the random cases")

func genCase(r *gen.Rand, i int) any {
	if *enumFlag && i < len(enumCases) {
		return enumCases[i]
	}
	return Case{K: gen.Pick(r, strings.Split(*kindsFlag, ",")), Seed: r.U64() ^ ro.SeedMix()}
}

type cmdSpec struct {
	argv []string
	read bool
}

func genCmd(r *gen.Rand, i int, key string) cmdSpec {
	if key == "" {
		key = fmt.Sprintf("k%d", i)
	}
	if r.Chance(1, 2) {
		return cmdSpec{argv: []string{"GET", key}, read: true}
	}
	return cmdSpec{argv: []string{"SET", key, fmt.Sprintf("v%d", i)}}
}

func build(cli rueidis.Client, c cmdSpec) rueidis.Completed {
	if c.argv[0] == "GET" {
		return cli.B().Get().Key(c.argv[1]).Build()
	}
	return cli.B().Set().Key(c.argv[1]).Value(c.argv[2]).Build()
}

// predicate kinds for SendToReplicas
func optin(kind int, c cmdSpec) bool {
	switch kind {
	case 1:
		return c.read
	case 2:
		return true
	case 3:
		return false
	case 4:
		h := fnv.New32a()
		h.Write([]byte(c.argv[1]))
		return h.Sum32()%2 == 0
	}
	return false
}

func pred(kind int) func(rueidis.Completed) bool {
	if kind == 0 {
		return nil
	}
	return func(cmd rueidis.Completed) bool {
		cs := cmd.Commands()
		return optin(kind, cmdSpec{argv: cs, read: cs[0] == "GET"})
	}
}

func bools(bs []bool) string { return obs.ListOf(bs, obs.Bool) }

const primaryAddr = "127.0.0.1:6379"

func repAddr(i int) string { return "127.0.0.1:" + strconv.Itoa(6380+i) }

// ---------------------------------------------------------------------------------------------

func runStandalone(c Case) (res obs.Result) {
	r := gen.New(c.Seed)
	res.Kind = "standalone"
	d := fs.New("x")
	d.AddNode(primaryAddr, "master")
	nrep := gen.Pick(r, []int{0, 1, 1, 2, 3})
	var reps []string
	for i := 0; i < nrep; i++ {
		reps = append(reps, repAddr(i))
		d.AddNode(repAddr(i), "slave")
	}
	pk := r.Range(1, 4)
	hasSel := r.Chance(1, 2)
	sel := gen.Pick(r, []int{-1, 0, 1, 2, 3, 4, 9})
	az := r.Chance(2, 3)
	opt := rueidis.ClientOption{InitAddress: []string{primaryAddr}, DialCtxFn: d.Dial, DisableCache: true, PipelineMultiplex: -1,
		SendToReplicas: pred(pk), EnableReplicaAZInfo: az}
	opt.Standalone.ReplicaAddress = reps
	if nrep == 0 {
		opt.Standalone.EnableRedirect = true // the only way to a standalone client without replicas
	}
	if hasSel {
		opt.ReadNodeSelector = func(slot uint16, nodes []rueidis.NodeInfo) int { return sel }
	}
	cli, err := rueidis.NewClient(opt)
	if err != nil {
		res.Oracle, res.Site, res.Class = "harness: NewClient failed: "+err.Error(), "harness", "setup"
		return
	}
	defer cli.Close()
	batch := r.Chance(1, 2)
	n := 1
	if batch {
		n = r.Range(1, 4)
	}
	cs := make([]cmdSpec, n)
	optins := make([]bool, n)
	for i := range cs {
		cs[i] = genCmd(r, i, "")
		optins[i] = optin(pk, cs[i])
	}
	nnodes := 0
	if az && (hasSel || nrep > 1) {
		nnodes = nrep + 1
	}
	panicked := ""
	func() {
		defer func() {
			if p := recover(); p != nil {
				panicked = fmt.Sprint(p)
			}
		}()
		ctx, cancel := context.WithTimeout(context.Background(), 20*time.Second)
		defer cancel()
		if batch {
			multi := make([]rueidis.Completed, n)
			for i := range cs {
				multi[i] = build(cli, cs[i])
			}
			cli.DoMulti(ctx, multi...)
		} else {
			cli.Do(ctx, build(cli, cs[0]))
		}
	}()
	arr := d.Arrivals()
	impl := obs.Panic
	var nodes []string
	if panicked == "" {
		dest := "DPrimary"
		for _, a := range arr {
			nodes = append(nodes, a.Node+"/"+a.Role)
			if a.Node != primaryAddr {
				for i, ra := range reps {
					if ra == a.Node {
						dest = fmt.Sprintf("(DReplica %d)", i)
					}
				}
			}
		}
		impl = obs.Ok(dest)
	}
	res.Coq = obs.App("CStandalone", obs.Bool(pk != 0), bools(optins), obs.Bool(batch), obs.Bool(hasSel), obs.Z(int64(sel)), obs.Nat(nnodes), obs.Nat(nrep), impl)
	res.Sig = fmt.Sprint("standalone", nrep, pk, hasSel, sel, az, batch, optins)
	res.Nontrivial = true
	res.Obs = map[string]any{"arrivals": nodes, "optins": optins, "nrep": nrep, "sel": sel, "hassel": hasSel, "az": az, "panic": panicked}
	res.Site = "standalone.go:pick"
	all := true
	for _, b := range optins {
		all = all && b
	}
	for _, a := range arr {
		if a.Role != "master" && !all {
			res.Oracle, res.Class = fmt.Sprintf("%v reached the replica %s although SendToReplicas is not true for every command (%v)", a.Argv, a.Node, optins), "replica-without-optin"
		}
	}
	if panicked == "" && hasSel && all && (sel < 0 || sel >= nnodes) {
		for _, a := range arr {
			if a.Node != primaryAddr {
				res.Oracle, res.Class = fmt.Sprintf("selector result %d is outside the %d candidates but %v went to %s", sel, nnodes, a.Argv, a.Node), "selector-fallback"
			}
		}
	}
	return
}

func runSentinel(c Case) (res obs.Result) {
	r := gen.New(c.Seed)
	res.Kind = "sentinel"
	d := fs.New("mymaster")
	d.AddNode(primaryAddr, "master")
	nrep := r.Range(1, 2)
	for i := 0; i < nrep; i++ {
		d.AddNode(repAddr(i), "slave")
	}
	d.AddSentinel("127.0.0.1:26379")
	replicaOnly := r.Chance(1, 4)
	pk := r.Intn(5)
	if replicaOnly {
		pk = 0
	}
	opt := rueidis.ClientOption{InitAddress: []string{"127.0.0.1:26379"}, DialCtxFn: d.Dial, DisableCache: true, PipelineMultiplex: -1,
		SendToReplicas: pred(pk), ReplicaOnly: replicaOnly}
	opt.Sentinel.MasterSet = "mymaster"
	cli, err := rueidis.NewClient(opt)
	if err != nil {
		res.Oracle, res.Site, res.Class = "harness: NewClient failed: "+err.Error(), "harness", "setup"
		return
	}
	defer cli.Close()
	batch := r.Chance(1, 2)
	n := 1
	if batch {
		n = r.Range(1, 4)
	}
	cs := make([]cmdSpec, n)
	optins := make([]bool, n)
	for i := range cs {
		cs[i] = genCmd(r, i, "")
		optins[i] = optin(pk, cs[i])
	}
	ctx, cancel := context.WithTimeout(context.Background(), 20*time.Second)
	defer cancel()
	if batch {
		multi := make([]rueidis.Completed, n)
		for i := range cs {
			multi[i] = build(cli, cs[i])
		}
		cli.DoMulti(ctx, multi...)
	} else {
		cli.Do(ctx, build(cli, cs[0]))
	}
	arr := d.Arrivals()
	dest := "SMaster"
	var nodes []string
	for _, a := range arr {
		nodes = append(nodes, a.Node+"/"+a.Role)
		if a.Role != "master" {
			dest = "SReplica"
		}
	}
	res.Coq = obs.App("CSentinel", obs.Bool(replicaOnly), obs.Bool(pk != 0), bools(optins), obs.Bool(batch), dest)
	res.Sig = fmt.Sprint("sentinel", nrep, replicaOnly, pk, batch, optins)
	res.Nontrivial = true
	res.Obs = map[string]any{"arrivals": nodes, "optins": optins, "replicaonly": replicaOnly}
	res.Site = "sentinel.go:pick"
	all := true
	for _, b := range optins {
		all = all && b
	}
	for _, a := range arr {
		if a.Role != "master" && !replicaOnly && !(pk != 0 && all) {
			res.Oracle, res.Class = fmt.Sprintf("%v reached the replica %s without opt-in (%v)", a.Argv, a.Node, optins), "replica-without-optin"
		}
		if a.Role == "master" && replicaOnly {
			res.Oracle, res.Class = fmt.Sprintf("%v reached the master %s on a ReplicaOnly client", a.Argv, a.Node), "replicaonly-master"
		}
	}
	return
}

var cfgNames = []string{"CfgDefault", "CfgReplicaOnly", "CfgReplicaSelector", "CfgReadNodeSelector"}

func runCluster(c Case) (res obs.Result) {
	r := gen.New(c.Seed)
	res.Kind = "cluster"
	version := gen.Pick(r, []string{"7.2.4", "8.0.0"})
	cl := fc.New(version)
	nprim := r.Range(1, 3)
	type shard struct {
		nodes  []string
		ranges [][2]int
	}
	shards := make([]shard, nprim)
	port := 7000
	for i := range shards {
		p := "127.0.0.1:" + strconv.Itoa(port)
		port++
		cl.AddNode(p, "")
		shards[i].nodes = []string{p}
		for k := gen.Pick(r, []int{0, 1, 1, 2}); k > 0; k-- {
			a := "127.0.0.1:" + strconv.Itoa(port)
			port++
			cl.AddNode(a, p)
			shards[i].nodes = append(shards[i].nodes, a)
		}
	}
	// contiguous partition
	cuts := []int{0}
	for i := 1; i < nprim; i++ {
		cuts = append(cuts, i*16384/nprim)
	}
	cuts = append(cuts, 16384)
	for i := range shards {
		cl.Assign(cuts[i], cuts[i+1]-1, shards[i].nodes[0])
		shards[i].ranges = [][2]int{{cuts[i], cuts[i+1] - 1}}
	}
	cfg := r.Intn(4)
	pk := r.Range(1, 4)
	sel := make([]int64, r.Range(1, 4))
	for i := range sel {
		sel[i] = int64(gen.Pick(r, []int{0, 0, 1, 1, 2, -1, 5}))
	}
	nsel := gen.Pick(r, []int{-1, 0, 1, 2, 3, 8})
	opt := rueidis.ClientOption{InitAddress: []string{shards[0].nodes[0]}, DialCtxFn: cl.Dial, DisableCache: true, PipelineMultiplex: -1}
	switch cfg {
	case 0:
		pk = 0
	case 1:
		opt.ReplicaOnly = true
		pk = 0
	case 2:
		opt.SendToReplicas = pred(pk)
		opt.ReplicaSelector = func(slot uint16, replicas []rueidis.NodeInfo) int { return int(sel[int(slot)%len(sel)]) }
	case 3:
		opt.SendToReplicas = pred(pk)
		opt.ReadNodeSelector = func(slot uint16, nodes []rueidis.NodeInfo) int { return nsel }
	}
	cli, err := rueidis.NewClient(opt)
	if err != nil {
		res.Oracle, res.Site, res.Class = "harness: NewClient failed: "+err.Error(), "harness", "setup"
		return
	}
	defer cli.Close()
	slot := r.Intn(16384)
	cs := genCmd(r, 0, "{"+fc.TagFor(slot)+"}k")
	oi := optin(pk, cs)
	ctx, cancel := context.WithTimeout(context.Background(), 20*time.Second)
	defer cancel()
	cli.Do(ctx, build(cli, cs))
	var got []string
	var view []string
	for _, a := range cl.Arrivals() {
		if strings.Join(a.Argv, " ") == strings.Join(cs.argv, " ") {
			got = append(got, a.Node)
			view = append(view, a.Node+"/"+a.Role)
		}
	}
	gs := make([]string, len(shards))
	for i, sh := range shards {
		rg := make([]string, len(sh.ranges))
		for j, x := range sh.ranges {
			rg[j] = "(" + obs.Z(int64(x[0])) + ", " + obs.Z(int64(x[1])) + ")"
		}
		gs[i] = "(" + ro.Addrs(sh.nodes) + ", " + obs.List(rg) + ")"
	}
	res.Coq = obs.App("CCluster", cfgNames[cfg], obs.List(gs), obs.ListOf(sel, obs.Z), obs.Z(int64(slot)), obs.Bool(oi), obs.Z(int64(nsel)), ro.Addrs(got[:min(len(got), 1)]))
	res.Sig = fmt.Sprint("cluster", version, cfg, pk, sel, nsel, slot, cs.argv[0], len(shards))
	res.Nontrivial = true
	res.Obs = map[string]any{"arrivals": view, "optin": oi, "cfg": cfgNames[cfg], "sel": sel, "nsel": nsel}
	res.Site = "cluster.go:_pick"
	for _, a := range cl.Arrivals() {
		if strings.Join(a.Argv, " ") == strings.Join(cs.argv, " ") && a.Role != "master" && !oi && cfg != 1 {
			res.Oracle, res.Class = fmt.Sprintf("%v reached the replica %s without opt-in", a.Argv, a.Node), "replica-without-optin"
		}
	}
	return
}

func main() {
	obs.Main(obs.Runner{
		Name: "obs_replica", Salt: 21,
		Gen: genCase,
		Decode: func(raw json.RawMessage) (any, error) {
			var c Case
			err := json.Unmarshal(raw, &c)
			return c, err
		},
		Run: func(ci any) obs.Result {
			c := ci.(Case)
			switch c.K {
			case "standalone":
				return runStandalone(c)
			case "sentinel":
				return runSentinel(c)
			case "cluster":
				return runCluster(c)
			case "cluster-e":
				return runClusterE(c)
			case "standalone-e":
				return runStandaloneE(c)
			case "sentinel-e":
				return runSentinelE(c)
			case "x":
				return runEnum(c)
			}
			return obs.Result{Kind: "other"}
		},
	})
}
