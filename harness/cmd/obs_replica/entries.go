package main

// Every entry point of the Client interface that routes by replica opt-in — Do, DoMulti, DoCache,
// DoMultiCache, DoStream, DoMultiStream, Receive, Dedicated — in cluster, standalone and sentinel
// mode, with batches in which the command that does not opt in is keyed or has no key slot and sits
// first, in the middle or last.

import (
	"context"
	"fmt"
	"hash/fnv"
	"io"
	"strconv"
	"strings"
	"time"

	"github.com/redis/rueidis"

	fc "verifharness/fakecluster"
	fs "verifharness/fakesentinel"
	"verifharness/gen"
	"verifharness/obs"
	ro "verifharness/routeobs"
)

var entryNames = []string{"EDo", "EDoMulti", "EDoCache", "EDoMultiCache", "EDoStream", "EDoMultiStream", "EReceive", "EDedicated"}

const (
	eDo = iota
	eDoMulti
	eDoCache
	eDoMultiCache
	eDoStream
	eDoMultiStream
	eReceive
	eDedicated
)

type ecmd struct {
	kind string // get set echo publish subscribe
	argv []string
	slot int // -1 = no key slot
}

func (c ecmd) keyless() bool { return c.slot < 0 }

// optinE: the SendToReplicas predicates, defined on the argument vector so that the harness can evaluate
// them without the client
func optinE(pk int, argv []string) bool {
	name := strings.ToUpper(argv[0])
	switch pk {
	case 1:
		return name == "GET"
	case 2:
		return true
	case 3:
		return false
	case 4:
		h := fnv.New32a()
		h.Write([]byte(argv[1]))
		return h.Sum32()%2 == 0
	case 5:
		return name != "SET"
	case 6: // only commands without key
		return name == "ECHO" || name == "PUBLISH" || name == "SUBSCRIBE"
	}
	return false
}

func predE(pk int) func(rueidis.Completed) bool {
	if pk == 0 {
		return nil
	}
	return func(cmd rueidis.Completed) bool { return optinE(pk, cmd.Commands()) }
}

func mkE(kind string, i int, key string, slot int) ecmd {
	switch kind {
	case "get":
		return ecmd{kind: kind, argv: []string{"GET", key}, slot: slot}
	case "set":
		return ecmd{kind: kind, argv: []string{"SET", key, fmt.Sprintf("v%d", i)}, slot: slot}
	case "echo":
		return ecmd{kind: kind, argv: []string{"ECHO", fmt.Sprintf("u:%d", i)}, slot: -1}
	case "publish":
		return ecmd{kind: kind, argv: []string{"PUBLISH", "ch", fmt.Sprintf("m%d", i)}, slot: -1}
	}
	return ecmd{kind: "subscribe", argv: []string{"SUBSCRIBE", fmt.Sprintf("ch%d", i)}, slot: -1}
}

func buildE(cli rueidis.Client, c ecmd) rueidis.Completed {
	switch c.kind {
	case "get":
		return cli.B().Get().Key(c.argv[1]).Build()
	case "set":
		return cli.B().Set().Key(c.argv[1]).Value(c.argv[2]).Build()
	case "echo":
		return cli.B().Echo().Message(c.argv[1]).Build()
	case "publish":
		return cli.B().Publish().Channel(c.argv[1]).Message(c.argv[2]).Build()
	}
	return cli.B().Subscribe().Channel(c.argv[1]).Build()
}

// genEntryCmds: the commands of one call. keyFor(i) gives a key (and its slot) for the i-th keyed command.
func genEntryCmds(r *gen.Rand, e int, keyFor func(i int, other bool) (string, int)) []ecmd {
	one := func(kinds ...string) []ecmd {
		k := gen.Pick(r, kinds)
		key, slot := keyFor(0, false)
		return []ecmd{mkE(k, 0, key, slot)}
	}
	switch e {
	case eDo, eDoStream:
		return one("get", "set", "echo", "publish", "get", "set")
	case eDedicated:
		return one("get", "set", "echo")
	case eDoCache:
		return one("get")
	case eReceive:
		return []ecmd{mkE("subscribe", 0, "", -1)}
	case eDoMultiCache:
		n := r.Range(1, 4)
		var cs []ecmd
		for i := 0; i < n; i++ {
			key, slot := keyFor(i, r.Chance(1, 3))
			cs = append(cs, mkE("get", i, key, slot))
		}
		return cs
	}
	// DoMulti / DoMultiStream: 1-4 commands; the odd one out (the one most likely not to opt in) is keyed or
	// keyless and sits first, in the middle or last
	n := r.Range(1, 4)
	base := gen.Pick(r, []string{"get", "get", "echo", "set"})
	odd := gen.Pick(r, []string{"set", "echo", "publish", "get"})
	at := r.Intn(n)
	twoSlots := r.Chance(1, 8)
	var cs []ecmd
	for i := 0; i < n; i++ {
		k := base
		if i == at {
			k = odd
		}
		key, slot := keyFor(i, twoSlots && i == n-1)
		cs = append(cs, mkE(k, i, key, slot))
	}
	return cs
}

// call runs one entry point and returns the recovered panic text ("" = none).
func call(cli rueidis.Client, e int, cs []ecmd, arrived func() bool) (panicked string) {
	defer func() {
		if p := recover(); p != nil {
			panicked = fmt.Sprint(p)
		}
	}()
	ctx, cancel := context.WithTimeout(context.Background(), 30*time.Second)
	defer cancel()
	multi := func(c rueidis.Client) []rueidis.Completed {
		m := make([]rueidis.Completed, len(cs))
		for i := range cs {
			m[i] = buildE(c, cs[i])
		}
		return m
	}
	switch e {
	case eDo:
		cli.Do(ctx, buildE(cli, cs[0]))
	case eDoMulti:
		cli.DoMulti(ctx, multi(cli)...)
	case eDoCache:
		cli.DoCache(ctx, cli.B().Get().Key(cs[0].argv[1]).Cache(), time.Minute)
	case eDoMultiCache:
		cts := make([]rueidis.CacheableTTL, len(cs))
		for i := range cs {
			cts[i] = rueidis.CT(cli.B().Get().Key(cs[i].argv[1]).Cache(), time.Minute)
		}
		cli.DoMultiCache(ctx, cts...)
	case eDoStream:
		s := cli.DoStream(ctx, buildE(cli, cs[0]))
		for s.HasNext() { // drain every reply (a nil reply is a clean error): the wire goes back to the pool, every command has arrived
			_, _ = s.WriteTo(io.Discard)
		}
	case eDoMultiStream:
		s := cli.DoMultiStream(ctx, multi(cli)...)
		for s.HasNext() { // drain every reply (a nil reply is a clean error): the wire goes back to the pool, every command has arrived
			_, _ = s.WriteTo(io.Discard)
		}
	case eReceive:
		rctx, rcancel := context.WithCancel(ctx)
		done := make(chan struct{})
		go func() {
			defer close(done)
			defer func() { _ = recover() }()
			_ = cli.Receive(rctx, buildE(cli, cs[0]), func(rueidis.PubSubMessage) {})
		}()
		for i := 0; i < 3000 && !arrived(); i++ {
			time.Sleep(3 * time.Millisecond)
		}
		rcancel()
		select {
		case <-done:
		case <-time.After(20 * time.Second):
		}
	case eDedicated:
		_ = cli.Dedicated(func(dc rueidis.DedicatedClient) error {
			dc.Do(ctx, buildE(cli, cs[0]))
			return nil
		})
	}
	return ""
}

// replicaAllowed: may a node that reports a replica role see command i of this call?
func replicaAllowed(e int, hasStr bool, optins []bool, i int, replicaOnly bool, mode string) bool {
	if replicaOnly {
		return true
	}
	if !hasStr {
		return false
	}
	all := true
	for _, b := range optins {
		all = all && b
	}
	switch e {
	case eDoMultiStream:
		return all
	case eDoMulti, eDoMultiCache:
		if mode == "cluster" {
			return optins[i] // cluster batches are routed per command
		}
		return all
	}
	// Do, DoCache, DoStream, Receive, Dedicated: the property allows a replica when SendToReplicas is true for
	// the command (several of these entry points never leave the primary: the model says which)
	return optins[i]
}

// ---------------------------------------------------------------------------------------------

func runClusterE(c Case) (res obs.Result) {
	r := gen.New(c.Seed)
	res.Kind = "cluster-e"
	version := gen.Pick(r, []string{"7.2.4", "8.0.0"})
	cl := fc.New(version)
	nprim := r.Range(1, 3)
	type shard struct {
		nodes  []string
		ranges [][2]int
	}
	shards := make([]shard, nprim)
	port := 7000
	for i := range shards {
		p := "127.0.0.1:" + strconv.Itoa(port)
		port++
		cl.AddNode(p, "")
		shards[i].nodes = []string{p}
		for k := gen.Pick(r, []int{0, 1, 1, 2}); k > 0; k-- {
			a := "127.0.0.1:" + strconv.Itoa(port)
			port++
			cl.AddNode(a, p)
			shards[i].nodes = append(shards[i].nodes, a)
		}
	}
	cuts := []int{0}
	for i := 1; i < nprim; i++ {
		cuts = append(cuts, i*16384/nprim)
	}
	cuts = append(cuts, 16384)
	for i := range shards {
		cl.Assign(cuts[i], cuts[i+1]-1, shards[i].nodes[0])
		shards[i].ranges = [][2]int{{cuts[i], cuts[i+1] - 1}}
	}
	cfg := gen.Pick(r, []int{0, 1, 2, 2, 3, 3})
	pk := gen.Pick(r, []int{1, 1, 1, 2, 3, 4, 5, 5, 6})
	sel := make([]int64, r.Range(1, 4))
	for i := range sel {
		sel[i] = int64(gen.Pick(r, []int{0, 0, 1, 1, 2, -1, 5}))
	}
	nsel := gen.Pick(r, []int{-1, 0, 1, 1, 2, 3, 8})
	opt := rueidis.ClientOption{InitAddress: []string{shards[0].nodes[0]}, DialCtxFn: cl.Dial, DisableCache: true, PipelineMultiplex: -1}
	switch cfg {
	case 0:
		pk = 0
	case 1:
		opt.ReplicaOnly = true
		pk = 0
	case 2:
		opt.SendToReplicas = predE(pk)
		opt.ReplicaSelector = func(slot uint16, replicas []rueidis.NodeInfo) int { return int(sel[int(slot)%len(sel)]) }
	case 3:
		opt.SendToReplicas = predE(pk)
		opt.ReadNodeSelector = func(slot uint16, nodes []rueidis.NodeInfo) int { return nsel }
	}
	cli, err := rueidis.NewClient(opt)
	if err != nil {
		res.Oracle, res.Site, res.Class = "harness: NewClient failed: "+err.Error(), "harness", "setup"
		return
	}
	defer cli.Close()
	e := gen.Pick(r, []int{eDo, eDoMulti, eDoMulti, eDoCache, eDoMultiCache, eDoStream, eDoMultiStream, eDoMultiStream, eDoMultiStream, eReceive, eDedicated})
	slotA, slotB := r.Intn(16384), r.Intn(16384)
	cs := genEntryCmds(r, e, func(i int, other bool) (string, int) {
		s := slotA
		if other {
			s = slotB
		}
		return fmt.Sprintf("{%s}k%d", fc.TagFor(s), i), s
	})
	optins := make([]bool, len(cs))
	for i := range cs {
		optins[i] = optinE(pk, cs[i].argv)
	}
	conns := rueidis.VerifRouteClusterConns(cli)
	arrivedFirst := func() bool {
		for _, a := range cl.Arrivals() {
			if strings.Join(a.Argv, " ") == strings.Join(cs[0].argv, " ") {
				return true
			}
		}
		return false
	}
	panicked := call(cli, e, cs, arrivedFirst)
	per := make([][]string, len(cs))
	var view []string
	arr := cl.Arrivals()
	for _, a := range arr {
		for i := range cs {
			if strings.Join(a.Argv, " ") == strings.Join(cs[i].argv, " ") {
				per[i] = append(per[i], a.Node)
				view = append(view, fmt.Sprintf("%d:%s/%s", i, a.Node[len(a.Node)-4:], a.Role))
			}
		}
	}
	impl := obs.Panic
	if panicked == "" {
		pp := make([]string, len(per))
		for i := range per {
			pp[i] = ro.Addrs(per[i][:min(len(per[i]), 1)])
		}
		impl = obs.Ok(obs.List(pp))
	}
	gs := make([]string, len(shards))
	for i, sh := range shards {
		rg := make([]string, len(sh.ranges))
		for j, x := range sh.ranges {
			rg[j] = "(" + obs.Z(int64(x[0])) + ", " + obs.Z(int64(x[1])) + ")"
		}
		gs[i] = "(" + ro.Addrs(sh.nodes) + ", " + obs.List(rg) + ")"
	}
	cq := make([]string, len(cs))
	desc := make([]string, len(cs))
	for i, x := range cs {
		slot := obs.None
		if x.slot >= 0 {
			slot = obs.Some(obs.Z(int64(x.slot)))
		}
		cq[i] = fmt.Sprintf("(mkCmd %s KPlain false %s %d)", slot, obs.Bool(optins[i]), i+1)
		desc[i] = strings.Join(x.argv, " ")
	}
	res.Coq = obs.App("CClusterE", entryNames[e], cfgNames[cfg], obs.List(gs), obs.ListOf(sel, obs.Z), obs.Z(int64(nsel)), obs.Bool(pk != 0),
		obs.List(cq), ro.Addrs(conns), impl)
	res.Sig = fmt.Sprint("cluster-e", version, e, cfg, pk, sel, nsel, desc, len(shards))
	res.Nontrivial = true
	res.Obs = map[string]any{"entry": entryNames[e], "cfg": cfgNames[cfg], "cmds": desc, "optins": optins, "arrivals": view, "panic": panicked, "pk": pk}
	res.Site = "cluster.go:" + entryNames[e][1:]
	for _, a := range arr {
		for i := range cs {
			if strings.Join(a.Argv, " ") != strings.Join(cs[i].argv, " ") || a.Role == "master" {
				continue
			}
			if !replicaAllowed(e, pk != 0, optins, i, cfg == 1, "cluster") && res.Oracle == "" {
				res.Oracle = fmt.Sprintf("%s: %v reached the replica %s although SendToReplicas does not hold for it / for every command of the batch (opt-ins %v)", entryNames[e][1:], a.Argv, a.Node, optins)
				res.Class = "replica-without-optin"
				// _pick(InitSlot): a single command without key slot, or a stream batch none of whose commands has
				// one, goes to an arbitrary connection (known finding)
				allKeyless := true
				for _, x := range cs {
					allKeyless = allKeyless && x.keyless()
				}
				if (cs[i].keyless() && e != eDoMultiStream && e != eDoMulti) || (e == eDoMultiStream && allKeyless) {
					res.Site, res.Class = "cluster.go:_pick", "keyless-command-any-node"
				}
			}
		}
	}
	return
}

func runStandaloneE(c Case) (res obs.Result) {
	r := gen.New(c.Seed)
	res.Kind = "standalone-e"
	d := fs.New("x")
	d.AddNode(primaryAddr, "master")
	nrep := gen.Pick(r, []int{1, 1, 2, 3})
	var reps []string
	for i := 0; i < nrep; i++ {
		reps = append(reps, repAddr(i))
		d.AddNode(repAddr(i), "slave")
	}
	pk := r.Range(1, 6)
	hasSel := r.Chance(1, 2)
	sel := gen.Pick(r, []int{-1, 0, 1, 2, 3, 4, 9})
	az := r.Chance(2, 3)
	opt := rueidis.ClientOption{InitAddress: []string{primaryAddr}, DialCtxFn: d.Dial, DisableCache: true, PipelineMultiplex: -1,
		SendToReplicas: predE(pk), EnableReplicaAZInfo: az}
	opt.Standalone.ReplicaAddress = reps
	if hasSel {
		opt.ReadNodeSelector = func(slot uint16, nodes []rueidis.NodeInfo) int { return sel }
	}
	cli, err := rueidis.NewClient(opt)
	if err != nil {
		res.Oracle, res.Site, res.Class = "harness: NewClient failed: "+err.Error(), "harness", "setup"
		return
	}
	defer cli.Close()
	e := r.Intn(8)
	cs := genEntryCmds(r, e, func(i int, other bool) (string, int) { return fmt.Sprintf("k%d", i), 0 })
	optins := make([]bool, len(cs))
	for i := range cs {
		optins[i] = optinE(pk, cs[i].argv)
	}
	nnodes := 0
	if az && (hasSel || nrep > 1) {
		nnodes = nrep + 1
	}
	arrivedFirst := func() bool { return len(d.Arrivals()) > 0 }
	panicked := call(cli, e, cs, arrivedFirst)
	arr := d.Arrivals()
	impl := obs.Panic
	var view []string
	if panicked == "" {
		dest := "DPrimary"
		for _, a := range arr {
			view = append(view, a.Argv[0]+"@"+a.Node[len(a.Node)-4:]+"/"+a.Role)
			for i, ra := range reps {
				if ra == a.Node {
					dest = fmt.Sprintf("(DReplica %d)", i)
				}
			}
		}
		impl = obs.Ok(dest)
	}
	desc := make([]string, len(cs))
	for i, x := range cs {
		desc[i] = strings.Join(x.argv, " ")
	}
	res.Coq = obs.App("CStandaloneE", entryNames[e], "true", bools(optins), obs.Bool(hasSel), obs.Z(int64(sel)), obs.Nat(nnodes), obs.Nat(nrep), impl)
	res.Sig = fmt.Sprint("standalone-e", e, nrep, pk, hasSel, sel, az, desc)
	res.Nontrivial = true
	res.Obs = map[string]any{"entry": entryNames[e], "cmds": desc, "optins": optins, "arrivals": view, "panic": panicked}
	res.Site = "standalone.go:" + entryNames[e][1:]
	for _, a := range arr {
		if a.Role == "master" {
			continue
		}
		for i := range cs {
			if strings.Join(a.Argv, " ") == strings.Join(cs[i].argv, " ") && !replicaAllowed(e, true, optins, i, false, "standalone") && res.Oracle == "" {
				res.Oracle, res.Class = fmt.Sprintf("%s: %v reached the replica %s without the required opt-in (opt-ins %v)", entryNames[e][1:], a.Argv, a.Node, optins), "replica-without-optin"
			}
		}
	}
	return
}

func runSentinelE(c Case) (res obs.Result) {
	r := gen.New(c.Seed)
	res.Kind = "sentinel-e"
	d := fs.New("mymaster")
	d.AddNode(primaryAddr, "master")
	d.AddNode(repAddr(0), "slave")
	d.AddSentinel("127.0.0.1:26379")
	replicaOnly := r.Chance(1, 5)
	pk := r.Intn(7)
	if replicaOnly {
		pk = 0
	}
	opt := rueidis.ClientOption{InitAddress: []string{"127.0.0.1:26379"}, DialCtxFn: d.Dial, DisableCache: true, PipelineMultiplex: -1,
		SendToReplicas: predE(pk), ReplicaOnly: replicaOnly}
	opt.Sentinel.MasterSet = "mymaster"
	cli, err := rueidis.NewClient(opt)
	if err != nil {
		res.Oracle, res.Site, res.Class = "harness: NewClient failed: "+err.Error(), "harness", "setup"
		return
	}
	defer cli.Close()
	e := r.Intn(8)
	cs := genEntryCmds(r, e, func(i int, other bool) (string, int) { return fmt.Sprintf("k%d", i), 0 })
	optins := make([]bool, len(cs))
	for i := range cs {
		optins[i] = optinE(pk, cs[i].argv)
	}
	arrivedFirst := func() bool { return len(d.Arrivals()) > 0 }
	panicked := call(cli, e, cs, arrivedFirst)
	arr := d.Arrivals()
	dest := "SMaster"
	var view []string
	for _, a := range arr {
		view = append(view, a.Argv[0]+"@"+a.Node[len(a.Node)-4:]+"/"+a.Role)
		if a.Role != "master" {
			dest = "SReplica"
		}
	}
	desc := make([]string, len(cs))
	for i, x := range cs {
		desc[i] = strings.Join(x.argv, " ")
	}
	if panicked == "" {
		res.Coq = obs.App("CSentinelE", entryNames[e], obs.Bool(replicaOnly), obs.Bool(pk != 0), bools(optins), dest)
	}
	res.Sig = fmt.Sprint("sentinel-e", e, replicaOnly, pk, desc)
	res.Nontrivial = true
	res.Obs = map[string]any{"entry": entryNames[e], "cmds": desc, "optins": optins, "arrivals": view, "panic": panicked, "replicaonly": replicaOnly}
	res.Site = "sentinel.go:" + entryNames[e][1:]
	if panicked != "" {
		res.Oracle, res.Class = "panic: "+panicked, "panic"
	}
	for _, a := range arr {
		for i := range cs {
			if strings.Join(a.Argv, " ") != strings.Join(cs[i].argv, " ") {
				continue
			}
			if a.Role != "master" && !replicaAllowed(e, pk != 0, optins, i, replicaOnly, "sentinel") && res.Oracle == "" {
				res.Oracle, res.Class = fmt.Sprintf("%s: %v reached the replica %s without the required opt-in (opt-ins %v)", entryNames[e][1:], a.Argv, a.Node, optins), "replica-without-optin"
			}
			if a.Role == "master" && replicaOnly && res.Oracle == "" {
				res.Oracle, res.Class = fmt.Sprintf("%s: %v reached the master %s on a ReplicaOnly client", entryNames[e][1:], a.Argv, a.Node), "replicaonly-master"
			}
		}
	}
	return
}
