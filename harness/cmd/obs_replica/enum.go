package main

// Exhaustive small scope, run on EVERY invocation before the random cases (the first len(enumCases)
// generated cases): for every batch-taking entry point (DoMulti, DoMultiCache, DoMultiStream) in cluster,
// standalone and sentinel mode: batch length 2..3 x every subset of positions opting in x every command
// keyed on the batch's slot / keyed on another slot (cluster) / without key slot; for the single-command
// entry points: opt-in yes/no x keyed / keyless.  One deployment and one client per mode are shared by all
// enumerated cases (nothing in them fails or redirects); commands are told apart by a case number in
// their arguments, and the opt-in is carried by a "+y" marker the SendToReplicas predicate looks for.

import (
	"fmt"
	"strings"
	"sync"

	"github.com/redis/rueidis"

	fc "verifharness/fakecluster"
	fs "verifharness/fakesentinel"
	"verifharness/obs"
	ro "verifharness/routeobs"
)

const (
	shKeyed = iota
	shOther
	shKeyless
)

var enumCases = buildEnum()

func buildEnum() []Case {
	var out []Case
	add := func(mode string, e int, opt []bool, shape []int) {
		out = append(out, Case{K: "x", Mode: mode, E: e, Opt: append([]bool{}, opt...), Shape: append([]int{}, shape...), ID: len(out) + 1})
	}
	var rec func(mode string, e, n int, shapes []int, opt []bool, shape []int)
	rec = func(mode string, e, n int, shapes []int, opt []bool, shape []int) {
		if len(opt) == n {
			add(mode, e, opt, shape)
			return
		}
		for _, b := range []bool{false, true} {
			for _, s := range shapes {
				rec(mode, e, n, shapes, append(opt, b), append(shape, s))
			}
		}
	}
	for _, mode := range []string{"cluster", "standalone", "sentinel"} {
		for _, e := range []int{eDoMulti, eDoMultiCache, eDoMultiStream} {
			shapes := []int{shKeyed, shKeyless}
			if mode == "cluster" {
				shapes = []int{shKeyed, shOther, shKeyless}
			}
			if e == eDoMultiCache { // cacheable commands have a key
				shapes = shapes[:len(shapes)-1]
			}
			for n := 2; n <= 3; n++ {
				rec(mode, e, n, shapes, nil, nil)
			}
		}
		for _, e := range []int{eDo, eDoCache, eDoStream, eReceive, eDedicated} {
			for _, b := range []bool{false, true} {
				for _, s := range []int{shKeyed, shKeyless} {
					if (e == eDoCache && s == shKeyless) || (e == eReceive && s == shKeyed) {
						continue
					}
					add(mode, e, []bool{b}, []int{s})
				}
			}
		}
	}
	return out
}

func markerPred(cmd rueidis.Completed) bool {
	for _, a := range cmd.Commands() {
		if strings.Contains(a, "+y") {
			return true
		}
	}
	return false
}

const (
	enumSlotA = 100
	enumSlotB = 9000
)

var (
	xClusterOnce sync.Once
	xCluster     *fc.Cluster
	xClusterCli  rueidis.Client
	xClusterErr  error
	xStandOnce   sync.Once
	xStand       *fs.Deploy
	xStandCli    rueidis.Client
	xStandErr    error
	xSentOnce    sync.Once
	xSent        *fs.Deploy
	xSentCli     rueidis.Client
	xSentErr     error
)

var xShards = [][]string{{"127.0.0.1:7000", "127.0.0.1:7001"}, {"127.0.0.1:7002", "127.0.0.1:7003"}}

func enumCmds(c Case, e int) []ecmd {
	cs := make([]ecmd, len(c.Opt))
	for j := range c.Opt {
		mark := "+n"
		if c.Opt[j] {
			mark = "+y"
		}
		id := fmt.Sprintf("x%d.%d%s", c.ID, j, mark)
		switch {
		case e == eReceive:
			cs[j] = ecmd{kind: "subscribe", argv: []string{"SUBSCRIBE", "ch" + id}, slot: -1}
		case c.Shape[j] == shKeyless && j%2 == 1:
			cs[j] = ecmd{kind: "publish", argv: []string{"PUBLISH", "ch", id}, slot: -1}
		case c.Shape[j] == shKeyless:
			cs[j] = ecmd{kind: "echo", argv: []string{"ECHO", "u:" + id}, slot: -1}
		default:
			slot := enumSlotA
			if c.Shape[j] == shOther {
				slot = enumSlotB
			}
			key := "{" + fc.TagFor(slot) + "}" + id
			if c.Mode != "cluster" {
				key, slot = id, 0
			}
			if j%2 == 1 && e != eDoMultiCache && e != eDoCache {
				cs[j] = ecmd{kind: "set", argv: []string{"SET", key, "v"}, slot: slot}
			} else {
				cs[j] = ecmd{kind: "get", argv: []string{"GET", key}, slot: slot}
			}
		}
	}
	return cs
}

func runEnum(c Case) (res obs.Result) {
	if len(c.Opt) == 0 || len(c.Opt) != len(c.Shape) || c.E < 0 || c.E > eDedicated {
		return obs.Result{Kind: "other"}
	}
	switch c.Mode {
	case "cluster":
		return runEnumCluster(c)
	case "standalone":
		return runEnumStandalone(c)
	case "sentinel":
		return runEnumSentinel(c)
	}
	return obs.Result{Kind: "other"}
}

func matches(argv []string, c ecmd) bool { return strings.Join(argv, " ") == strings.Join(c.argv, " ") }

func runEnumCluster(c Case) (res obs.Result) {
	res.Kind = "x-cluster"
	xClusterOnce.Do(func() {
		cl := fc.New("7.2.4")
		for i, sh := range xShards {
			cl.AddNode(sh[0], "")
			cl.AddNode(sh[1], sh[0])
			cl.Assign(i*8192, i*8192+8191, sh[0])
		}
		xCluster = cl
		xClusterCli, xClusterErr = rueidis.NewClient(rueidis.ClientOption{InitAddress: []string{xShards[0][0]}, DialCtxFn: cl.Dial, DisableCache: true, PipelineMultiplex: -1,
			SendToReplicas:  markerPred,
			ReplicaSelector: func(slot uint16, replicas []rueidis.NodeInfo) int { return 0 }})
	})
	if xClusterErr != nil {
		res.Oracle, res.Site, res.Class = "harness: NewClient failed: "+xClusterErr.Error(), "harness", "setup"
		return
	}
	cl, cli, e := xCluster, xClusterCli, c.E
	cs := enumCmds(c, e)
	conns := rueidis.VerifRouteClusterConns(cli)
	arrivedFirst := func() bool {
		for _, a := range cl.Arrivals() {
			if matches(a.Argv, cs[0]) {
				return true
			}
		}
		return false
	}
	panicked := call(cli, e, cs, arrivedFirst)
	per := make([][]string, len(cs))
	var view []string
	type hit struct {
		i    int
		node string
		argv []string
	}
	var onReplica []hit
	for _, a := range cl.Arrivals() {
		for i := range cs {
			if matches(a.Argv, cs[i]) {
				per[i] = append(per[i], a.Node)
				view = append(view, fmt.Sprintf("%d:%s/%s", i, a.Node[len(a.Node)-4:], a.Role))
				if a.Role != "master" {
					onReplica = append(onReplica, hit{i, a.Node, a.Argv})
				}
			}
		}
	}
	impl := obs.Panic
	if panicked == "" {
		pp := make([]string, len(per))
		for i := range per {
			pp[i] = ro.Addrs(per[i][:min(len(per[i]), 1)])
		}
		impl = obs.Ok(obs.List(pp))
	}
	gs := []string{"(" + ro.Addrs(xShards[0]) + ", [(0%Z, 8191%Z)])", "(" + ro.Addrs(xShards[1]) + ", [(8192%Z, 16383%Z)])"}
	cq := make([]string, len(cs))
	desc := make([]string, len(cs))
	for i, x := range cs {
		slot := obs.None
		if x.slot >= 0 {
			slot = obs.Some(obs.Z(int64(x.slot)))
		}
		cq[i] = fmt.Sprintf("(mkCmd %s KPlain false %s %d)", slot, obs.Bool(c.Opt[i]), i+1)
		desc[i] = strings.Join(x.argv, " ")
	}
	res.Coq = obs.App("CClusterE", entryNames[e], "CfgReplicaSelector", obs.List(gs), "[0%Z]", "0%Z", "true", obs.List(cq), ro.Addrs(conns), impl)
	res.Sig = fmt.Sprint("x-cluster", e, c.Opt, c.Shape)
	res.Nontrivial = true
	res.Obs = map[string]any{"entry": entryNames[e], "cmds": desc, "optins": c.Opt, "shape": c.Shape, "arrivals": view, "panic": panicked}
	res.Site = "cluster.go:" + entryNames[e][1:]
	allKeyless := true
	for _, x := range cs {
		allKeyless = allKeyless && x.keyless()
	}
	for _, h := range onReplica {
		if !replicaAllowed(e, true, c.Opt, h.i, false, "cluster") && res.Oracle == "" {
			res.Oracle = fmt.Sprintf("%s: %v reached the replica %s although SendToReplicas does not hold for it / for every command of the batch (opt-ins %v)", entryNames[e][1:], h.argv, h.node, c.Opt)
			res.Class = "replica-without-optin"
			if (cs[h.i].keyless() && e != eDoMultiStream && e != eDoMulti) || (e == eDoMultiStream && allKeyless) {
				res.Site, res.Class = "cluster.go:_pick", "keyless-command-any-node"
			}
		}
	}
	return
}

func runEnumStandalone(c Case) (res obs.Result) {
	res.Kind = "x-standalone"
	reps := []string{repAddr(0), repAddr(1)}
	xStandOnce.Do(func() {
		d := fs.New("x")
		d.AddNode(primaryAddr, "master")
		for _, a := range reps {
			d.AddNode(a, "slave")
		}
		xStand = d
		opt := rueidis.ClientOption{InitAddress: []string{primaryAddr}, DialCtxFn: d.Dial, DisableCache: true, PipelineMultiplex: -1, SendToReplicas: markerPred}
		opt.Standalone.ReplicaAddress = reps
		xStandCli, xStandErr = rueidis.NewClient(opt)
	})
	if xStandErr != nil {
		res.Oracle, res.Site, res.Class = "harness: NewClient failed: "+xStandErr.Error(), "harness", "setup"
		return
	}
	d, cli, e := xStand, xStandCli, c.E
	cs := enumCmds(c, e)
	arrivedFirst := func() bool {
		for _, a := range d.Arrivals() {
			if matches(a.Argv, cs[0]) {
				return true
			}
		}
		return false
	}
	panicked := call(cli, e, cs, arrivedFirst)
	dest := "DPrimary"
	var view []string
	desc := make([]string, len(cs))
	for i, x := range cs {
		desc[i] = strings.Join(x.argv, " ")
	}
	for _, a := range d.Arrivals() {
		for i := range cs {
			if !matches(a.Argv, cs[i]) {
				continue
			}
			view = append(view, fmt.Sprintf("%d:%s/%s", i, a.Node[len(a.Node)-4:], a.Role))
			for k, ra := range reps {
				if ra == a.Node {
					dest = fmt.Sprintf("(DReplica %d)", k)
				}
			}
			if a.Role != "master" && !replicaAllowed(e, true, c.Opt, i, false, "standalone") && res.Oracle == "" {
				res.Oracle, res.Class = fmt.Sprintf("%s: %v reached the replica %s without the required opt-in (opt-ins %v)", entryNames[e][1:], a.Argv, a.Node, c.Opt), "replica-without-optin"
			}
		}
	}
	impl := obs.Panic
	if panicked == "" {
		impl = obs.Ok(dest)
	}
	res.Coq = obs.App("CStandaloneE", entryNames[e], "true", bools(c.Opt), "false", "0%Z", obs.Nat(0), obs.Nat(len(reps)), impl)
	res.Sig = fmt.Sprint("x-standalone", e, c.Opt, c.Shape)
	res.Nontrivial = true
	res.Obs = map[string]any{"entry": entryNames[e], "cmds": desc, "optins": c.Opt, "arrivals": view, "panic": panicked}
	res.Site = "standalone.go:" + entryNames[e][1:]
	return
}

func runEnumSentinel(c Case) (res obs.Result) {
	res.Kind = "x-sentinel"
	xSentOnce.Do(func() {
		d := fs.New("mymaster")
		d.AddNode(primaryAddr, "master")
		d.AddNode(repAddr(0), "slave")
		d.AddSentinel("127.0.0.1:26379")
		xSent = d
		opt := rueidis.ClientOption{InitAddress: []string{"127.0.0.1:26379"}, DialCtxFn: d.Dial, DisableCache: true, PipelineMultiplex: -1, SendToReplicas: markerPred}
		opt.Sentinel.MasterSet = "mymaster"
		xSentCli, xSentErr = rueidis.NewClient(opt)
	})
	if xSentErr != nil {
		res.Oracle, res.Site, res.Class = "harness: NewClient failed: "+xSentErr.Error(), "harness", "setup"
		return
	}
	d, cli, e := xSent, xSentCli, c.E
	cs := enumCmds(c, e)
	arrivedFirst := func() bool {
		for _, a := range d.Arrivals() {
			if matches(a.Argv, cs[0]) {
				return true
			}
		}
		return false
	}
	panicked := call(cli, e, cs, arrivedFirst)
	dest := "SMaster"
	var view []string
	desc := make([]string, len(cs))
	for i, x := range cs {
		desc[i] = strings.Join(x.argv, " ")
	}
	for _, a := range d.Arrivals() {
		for i := range cs {
			if !matches(a.Argv, cs[i]) {
				continue
			}
			view = append(view, fmt.Sprintf("%d:%s/%s", i, a.Node[len(a.Node)-4:], a.Role))
			if a.Role != "master" {
				dest = "SReplica"
				if !replicaAllowed(e, true, c.Opt, i, false, "sentinel") && res.Oracle == "" {
					res.Oracle, res.Class = fmt.Sprintf("%s: %v reached the replica %s without the required opt-in (opt-ins %v)", entryNames[e][1:], a.Argv, a.Node, c.Opt), "replica-without-optin"
				}
			}
		}
	}
	if panicked == "" {
		res.Coq = obs.App("CSentinelE", entryNames[e], "false", "true", bools(c.Opt), dest)
	} else {
		res.Oracle, res.Class = "panic: "+panicked, "panic"
	}
	res.Sig = fmt.Sprint("x-sentinel", e, c.Opt, c.Shape)
	res.Nontrivial = true
	res.Obs = map[string]any{"entry": entryNames[e], "cmds": desc, "optins": c.Opt, "arrivals": view, "panic": panicked}
	res.Site = "sentinel.go:" + entryNames[e][1:]
	return
}
