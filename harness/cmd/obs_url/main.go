// obs_url: C44 — ParseURL on URLs generated from components; the parsed structure (net/url) goes to the model.
package main

import (
	"encoding/json"
	"fmt"
	"net"
	"net/url"
	"sort"
	"strconv"
	"strings"
	"time"

	"github.com/redis/rueidis"

	"verifharness/gen"
	"verifharness/obs"
)

type KV struct {
	K string `json:"k"`
	V string `json:"v"`
}

type Case struct {
	Scheme  string `json:"scheme"`
	HasUser bool   `json:"has_user,omitempty"`
	User    string `json:"user,omitempty"`
	HasPass bool   `json:"has_pass,omitempty"`
	Pass    string `json:"pass,omitempty"`
	Host    string `json:"host,omitempty"`
	Path    string `json:"path,omitempty"` // already escaped
	Query   []KV   `json:"query,omitempty"`
	Raw     string `json:"raw,omitempty"` // when set: the URL text itself (malformed stream)
}

var schemes = []string{"redis", "redis", "rediss", "rediss", "valkey", "valkeys", "unix", "unix", "http", "", "REDISS", "redi"}
var hosts = []string{"", "localhost", "myhost:1234", "[::1]:6379", "[::1]", "10.0.0.1", "10.0.0.1:7", ":7000", "h"}
var paths = []string{"", "", "/", "/0", "/1", "/15", "/a", "/1/2", "//1", "/-1", "/+3", "/99999999999999999999", "/1a", "/%201"}
var unixPaths = []string{"", "/path/to/redis.sock", "/%20tmp/x%20", "/tmp/a%09", "/1"}
var durs = []string{"5s", "100ms", "1h", "1m30s", "0", "-1s", "a", "", "5", "1.5s", "3us"}
var pool = map[string][]string{
	"db":            {"0", "5", "15", "a", "", "-1", "+2", "007", "9223372036854775808"},
	"dial_timeout":  durs,
	"write_timeout": durs,
	"addr":          {"h2:1", ":6380", "[::2]:1", "h3", "10.0.0.2:9", "", "[::3]"},
	"skip_verify":   {"", "true", "false", "1", "0", "a", "T", "FALSE", "yes", "True"},
	"protocol":      {"2", "3", "", "x", "02"},
	"client_cache":  {"0", "1", ""},
	"max_retries":   {"0", "3", "00"},
	"client_name":   {"n", "", "my client"},
	"master_set":    {"m", ""},
	"unknown":       {"1"},
}
var keys = []string{"db", "dial_timeout", "write_timeout", "addr", "addr", "skip_verify", "protocol", "client_cache", "max_retries", "client_name", "master_set", "unknown"}

func genCase(r *gen.Rand, i int) any {
	if r.Chance(1, 25) {
		return Case{Raw: gen.Pick(r, []string{"re dis://", "redis://%zz", "redis://h:port", "://x", "redis://[::1", "redis://h/%zz", "\x7f://"})}
	}
	c := Case{Scheme: gen.Pick(r, schemes)}
	if r.Chance(1, 3) {
		c.HasUser = true
		c.User = gen.Pick(r, []string{"u", "", "user name", "a@b"})
		if r.Chance(2, 3) {
			c.HasPass = true
			c.Pass = gen.Pick(r, []string{"p", "", "p:w/d", "x y"})
		}
	}
	c.Host = gen.Pick(r, hosts)
	if c.Scheme == "unix" {
		c.Path = gen.Pick(r, unixPaths)
	} else {
		c.Path = gen.Pick(r, paths)
	}
	// mostly valid values; each parameter present with probability ~1/3
	valid := !r.Chance(1, 3)
	for _, k := range keys {
		if !r.Chance(1, 3) {
			continue
		}
		v := gen.Pick(r, pool[k])
		if valid {
			v = pool[k][r.Intn(3)%len(pool[k])]
			if k == "addr" {
				v = gen.Pick(r, []string{"h2:1", "[::2]:1", "10.0.0.2:9"})
			}
		}
		c.Query = append(c.Query, KV{k, v})
		if r.Chance(1, 10) { // repeated key
			c.Query = append(c.Query, KV{k, gen.Pick(r, pool[k])})
		}
	}
	// multi-valued addr lists mixing hosted, host-less and port-less entries in any order
	if r.Chance(1, 3) {
		n := r.Range(2, 4)
		at := r.Intn(len(c.Query) + 1)
		var list []KV
		for i := 0; i < n; i++ {
			var v string
			switch r.Intn(7) {
			case 0, 1, 2:
				v = gen.Pick(r, hostedAddrs)
			case 3, 4:
				v = gen.Pick(r, hostlessAddrs)
			default:
				v = gen.Pick(r, portlessAddrs)
			}
			list = append(list, KV{"addr", v})
		}
		c.Query = append(c.Query[:at:at], append(list, c.Query[at:]...)...)
	}
	return c
}

var hostedAddrs = []string{"h2:6380", "h3:1", "10.0.0.2:9", "[::2]:1", "[fe80::1]:6390"}
var hostlessAddrs = []string{":6381", ":7", ":6379"}
var portlessAddrs = []string{"h4", "10.0.0.4", "[::3]", ""}

// readAddr is an independent reading of "host:port", "[v6]:port", ":port", "host", "[v6]", "".
func readAddr(a string) (host, port string, hasPort bool) {
	if strings.HasPrefix(a, "[") {
		if i := strings.Index(a, "]"); i >= 0 {
			host = a[1:i]
			if rest := a[i+1:]; strings.HasPrefix(rest, ":") {
				return host, rest[1:], true
			}
			return host, "", false
		}
		return a, "", false
	}
	switch strings.Count(a, ":") {
	case 0:
		return a, "", false
	case 1:
		i := strings.Index(a, ":")
		return a[:i], a[i+1:], true
	}
	return a, "", false // bare IPv6 without port
}

// wantAddr: the documented rule — an entry without a host takes the URL's host (localhost if there is none), an entry
// without a port takes 6379.
func wantAddr(urlHost, a string) string {
	def, _, _ := readAddr(urlHost)
	if def == "" {
		def = "localhost"
	}
	h, p, _ := readAddr(a)
	if h == "" {
		h = def
	}
	if p == "" {
		p = "6379"
	}
	if strings.Contains(h, ":") {
		return "[" + h + "]:" + p
	}
	return h + ":" + p
}

// documented: addr=<host>:<port>; an entry without a port is outside the documentation and nothing is required of it
// here (the model still pins what the code does with it)
func documentedAddr(a string) bool {
	_, p, hasPort := readAddr(a)
	return hasPort && p != ""
}

func (c Case) text() string {
	if c.Raw != "" {
		return c.Raw
	}
	var sb strings.Builder
	if c.Scheme != "" {
		sb.WriteString(c.Scheme + ":")
	}
	sb.WriteString("//")
	if c.HasUser {
		if c.HasPass {
			sb.WriteString(url.UserPassword(c.User, c.Pass).String())
		} else {
			sb.WriteString(url.User(c.User).String())
		}
		sb.WriteString("@")
	}
	sb.WriteString(c.Host)
	sb.WriteString(c.Path)
	for i, kv := range c.Query {
		if i == 0 {
			sb.WriteString("?")
		} else {
			sb.WriteString("&")
		}
		sb.WriteString(url.QueryEscape(kv.K))
		if !(kv.V == "" && kv.K == "skip_verify" && i%2 == 0) { // also the bare "?skip_verify" form
			sb.WriteString("=" + url.QueryEscape(kv.V))
		}
	}
	return sb.String()
}

const (
	eScheme = 1 + iota
	eDb
	ePath
	eDial
	eWrite
	eSkipVerify
	eOther
)

func errKind(err error) int {
	s := err.Error()
	switch {
	case strings.HasPrefix(s, "redis: invalid URL scheme"):
		return eScheme
	case strings.HasPrefix(s, "redis: invalid database number"):
		return eDb
	case strings.HasPrefix(s, "redis: invalid URL path"):
		return ePath
	case strings.HasPrefix(s, "redis: invalid dial timeout"):
		return eDial
	case strings.HasPrefix(s, "redis: invalid write timeout"):
		return eWrite
	case strings.HasPrefix(s, "redis: invalid skip verify"):
		return eSkipVerify
	}
	return eOther
}

func coqOpts(o rueidis.ClientOption) string {
	tls := obs.None
	if o.TLSConfig != nil {
		tls = obs.Some(obs.App("mkTls", obs.HS(o.TLSConfig.ServerName), obs.Bool(o.TLSConfig.InsecureSkipVerify)))
	}
	return obs.App("mkOpts", obs.ListOf(o.InitAddress, obs.HS), tls, obs.Bool(o.DialCtxFn != nil), obs.HS(o.Username), obs.HS(o.Password),
		obs.Z(int64(o.SelectDB)), obs.Z(int64(o.Dialer.Timeout)), obs.Z(int64(o.ConnWriteTimeout)),
		obs.Bool(o.AlwaysRESP2), obs.Bool(o.DisableCache), obs.Bool(o.DisableRetry), obs.HS(o.ClientName), obs.HS(o.Sentinel.MasterSet))
}

func last(c Case, k string) (string, bool) { // first value wins in url.Values.Get
	for _, kv := range c.Query {
		if kv.K == k {
			return kv.V, true
		}
	}
	return "", false
}

func run(ci any) (res obs.Result) {
	c := ci.(Case)
	text := c.text()
	res.Sig = text
	res.Site, res.Class = "url.go:ParseURL", "mapping"
	u, perr := url.Parse(text)
	opt, err := rueidis.ParseURL(text)
	if perr != nil {
		res.Kind = "unparsable"
		if err == nil {
			res.Oracle = "net/url rejects the text but ParseURL returned no error"
			res.Class = "invalid-accepted"
		}
		return
	}
	res.Kind = u.Scheme
	if c.Raw == "" && (u.Scheme != strings.ToLower(c.Scheme) || u.Host != c.Host) {
		res.Oracle = fmt.Sprintf("harness: net/url parsed scheme %q host %q, generator meant %q %q", u.Scheme, u.Host, c.Scheme, c.Host)
		res.Class = "harness"
		return
	}
	// ---- parsed structure for the model
	user := obs.None
	if u.User != nil {
		pw := obs.None
		if p, ok := u.User.Password(); ok {
			pw = obs.Some(obs.HS(p))
		}
		user = obs.Some("(" + obs.HS(u.User.Username()) + ", " + pw + ")")
	}
	q := u.Query()
	var qkeys []string
	for k := range q {
		qkeys = append(qkeys, k)
	}
	sort.Strings(qkeys)
	var pairs []string
	for _, k := range qkeys {
		for _, v := range q[k] {
			pairs = append(pairs, "("+obs.HS(k)+", "+obs.HS(v)+")")
		}
	}
	purl := obs.App("mkUrl", obs.HS(u.Scheme), user, obs.HS(u.Host), obs.HS(u.Hostname()), obs.HS(u.Path), obs.List(pairs))
	split := func(s string) string {
		h, p, _ := net.SplitHostPort(s)
		return "(" + obs.HS(s) + ", (" + obs.HS(h) + ", " + obs.HS(p) + "))"
	}
	st := []string{split(u.Host)}
	for _, a := range q["addr"] {
		st = append(st, split(a))
	}
	dur := func(s string) string {
		d, e := time.ParseDuration(s)
		if e != nil {
			return "(" + obs.HS(s) + ", None)"
		}
		return "(" + obs.HS(s) + ", " + obs.Some(obs.Z(int64(d))) + ")"
	}
	dt := []string{dur(q.Get("dial_timeout")), dur(q.Get("write_timeout"))}
	tt := []string{"(" + obs.HS(u.Path) + ", " + obs.HS(strings.TrimSpace(u.Path)) + ")"}
	impl := ""
	if err != nil {
		impl = obs.Err(errKind(err))
		res.Obs = err.Error()
	} else {
		impl = obs.Ok(coqOpts(opt))
		res.Obs = fmt.Sprintf("addr=%v db=%d dial=%v write=%v tls=%v", opt.InitAddress, opt.SelectDB, opt.Dialer.Timeout, opt.ConnWriteTimeout, opt.TLSConfig != nil)
	}
	res.Coq = obs.App("CUrl", purl, obs.List(st), obs.List(dt), obs.List(tt), impl)
	res.Nontrivial = len(c.Query) > 0 || c.HasUser || c.Path != ""
	if c.Raw != "" {
		return
	}

	// ---- direct oracle from the generator's components (documented mapping)
	scheme := strings.ToLower(c.Scheme)
	okScheme := map[string]bool{"redis": true, "rediss": true, "valkey": true, "valkeys": true, "unix": true}[scheme]
	isTLS := scheme == "rediss" || scheme == "valkeys"
	fail := func(class, f string, a ...any) {
		if res.Oracle == "" {
			res.Oracle, res.Class = fmt.Sprintf(f, a...), class
		}
	}
	if !okScheme {
		if err == nil {
			fail("invalid-accepted", "scheme %q accepted", c.Scheme)
		}
		return
	}
	// which values are invalid
	invalid := ""
	if v, ok := last(c, "db"); ok {
		if _, e := strconv.Atoi(v); e != nil {
			invalid = "db"
		}
	}
	for _, k := range []string{"dial_timeout", "write_timeout"} {
		if v, ok := last(c, k); ok {
			if _, e := time.ParseDuration(v); e != nil && invalid == "" {
				invalid = k
			}
		}
	}
	if v, ok := last(c, "skip_verify"); ok && isTLS && v != "" {
		if _, e := strconv.ParseBool(v); e != nil && invalid == "" {
			invalid = "skip_verify"
		}
	}
	pathDB, pathHasDB := 0, false
	if scheme != "unix" && u.Path != "" {
		segs := strings.Split(u.Path, "/")
		if len(segs) == 2 && segs[1] != "" {
			if n, e := strconv.Atoi(segs[1]); e == nil {
				pathDB, pathHasDB = n, true
			} else if invalid == "" {
				invalid = "path"
			}
		} else if invalid == "" {
			invalid = "path" // "/", "/1/2", "//1": not a database number
		}
	}
	if invalid != "" {
		if err == nil {
			fail("invalid-accepted", "invalid %s accepted: %s", invalid, text)
		}
		return
	}
	if err != nil {
		fail("valid-rejected", "all components valid but ParseURL failed: %v", err)
		return
	}
	if c.HasUser && (opt.Username != c.User || (c.HasPass && opt.Password != c.Pass)) {
		fail("credentials", "credentials %q/%q, expected %q/%q", opt.Username, opt.Password, c.User, c.Pass)
	}
	if (opt.TLSConfig != nil) != isTLS || (opt.DialCtxFn != nil) != (scheme == "unix") {
		fail("scheme", "TLS/unix dialer do not follow the scheme %q", scheme)
	}
	wantDB := 0
	if pathHasDB {
		wantDB = pathDB
	}
	if v, ok := last(c, "db"); ok {
		wantDB, _ = strconv.Atoi(v)
	}
	if opt.SelectDB != wantDB {
		fail("db", "SelectDB %d, expected %d", opt.SelectDB, wantDB)
	}
	wantDial := time.Duration(0)
	if v, ok := last(c, "dial_timeout"); ok {
		wantDial, _ = time.ParseDuration(v)
	}
	wantWrite := time.Duration(0)
	if v, ok := last(c, "write_timeout"); ok {
		wantWrite, _ = time.ParseDuration(v)
	}
	if opt.Dialer.Timeout != wantDial {
		fail("write_timeout", "Dialer.Timeout %v, expected %v (dial_timeout=%v write_timeout=%v)", opt.Dialer.Timeout, wantDial, wantDial, wantWrite)
	}
	if opt.ConnWriteTimeout != wantWrite {
		fail("write_timeout", "ConnWriteTimeout %v, expected %v (write_timeout)", opt.ConnWriteTimeout, wantWrite)
	}
	naddr := 0
	for _, kv := range c.Query {
		if kv.K == "addr" {
			naddr++
			if want := wantAddr(c.Host, kv.V); documentedAddr(kv.V) && (len(opt.InitAddress) <= naddr || opt.InitAddress[naddr] != want) {
				fail("addr", "addr entry %d %q: InitAddress[%d] should be %q: %v", naddr, kv.V, naddr, want, opt.InitAddress)
			}
		}
	}
	if len(opt.InitAddress) != 1+naddr {
		fail("addr", "InitAddress has %d entries, expected %d", len(opt.InitAddress), 1+naddr)
	}
	if scheme == "unix" {
		if len(opt.InitAddress) > 0 && opt.InitAddress[0] != strings.TrimSpace(u.Path) {
			fail("addr", "unix socket path %q, expected %q", opt.InitAddress[0], strings.TrimSpace(u.Path))
		}
	} else if h, p, e := net.SplitHostPort(c.Host); e == nil && h != "" && p != "" {
		if opt.InitAddress[0] != net.JoinHostPort(h, p) {
			fail("addr", "InitAddress[0] %q, expected %q", opt.InitAddress[0], net.JoinHostPort(h, p))
		}
		if isTLS && opt.TLSConfig.ServerName != h {
			fail("addr", "ServerName %q, expected %q", opt.TLSConfig.ServerName, h)
		}
	} else if want := wantAddr(c.Host, c.Host); opt.InitAddress[0] != want { // documented defaults: localhost, port 6379
		fail("addr", "InitAddress[0] %q, expected %q", opt.InitAddress[0], want)
	}
	if isTLS {
		want := false
		if v, ok := last(c, "skip_verify"); ok {
			want = true
			if v != "" {
				want, _ = strconv.ParseBool(v)
			}
		}
		if opt.TLSConfig.InsecureSkipVerify != want {
			fail("skip_verify", "InsecureSkipVerify %v, expected %v", opt.TLSConfig.InsecureSkipVerify, want)
		}
	}
	get := func(k string) string { v, _ := last(c, k); return v }
	if opt.AlwaysRESP2 != (get("protocol") == "2") || opt.DisableCache != (get("client_cache") == "0") || opt.DisableRetry != (get("max_retries") == "0") {
		fail("flags", "protocol/client_cache/max_retries flags %v %v %v", opt.AlwaysRESP2, opt.DisableCache, opt.DisableRetry)
	}
	if opt.ClientName != get("client_name") || opt.Sentinel.MasterSet != get("master_set") {
		fail("names", "client_name/master_set %q %q", opt.ClientName, opt.Sentinel.MasterSet)
	}
	return
}

func main() {
	obs.Main(obs.Runner{
		Name: "obs_url", Salt: 44,
		Gen: genCase,
		Decode: func(raw json.RawMessage) (any, error) {
			var c Case
			err := json.Unmarshal(raw, &c)
			return c, err
		},
		Run: run,
	})
}
