// obs_helpers: C31 — multi-key helpers map every key to its own reply.
//
// MGet / MGetCache / JsonMGet / JsonMGetCache / MSet / MSetNX / MDel / JsonMSet run on REAL single and
// cluster clients against the in-process server (values tagged by key; duplicates, missing keys,
// wrong-type keys, keys spread over slots and nodes, injected command errors); plus arrayToKV, the
// slot-grouping builders of internal/cmds and DecodeSliceOfJSON through the verif exports.
// Oracle: the returned map has exactly the input keys and every key maps to its own value / error.
package main

import (
	"context"
	"encoding/json"
	"errors"
	"fmt"
	"os"
	"runtime/pprof"
	"sort"
	"strings"
	"time"

	"github.com/redis/rueidis"
	"github.com/redis/rueidis/mock"

	"verifharness/csc"
	"verifharness/fakeredis"
	"verifharness/gen"
	"verifharness/obs"
)

type KeySpec struct {
	Name string `json:"n"`
	Kind string `json:"k"` // str | missing | hash | json
}

type Case struct {
	Op      string     `json:"op"` // mget mgetcache jmget jmgetcache mset msetnx jmset mdel arr slot decode
	Cluster bool       `json:"cluster,omitempty"`
	Nodes   int        `json:"nodes,omitempty"`
	Salt    int        `json:"salt,omitempty"`
	Mux     int        `json:"mux,omitempty"`
	Keys    []KeySpec  `json:"keys,omitempty"`  // universe present on the server
	Args    []int      `json:"args,omitempty"`  // indexes into Keys (with duplicates) = the helper's key list
	Vals    []string   `json:"vals,omitempty"`  // values for mset family (per distinct key in Args order)
	Path    string     `json:"path,omitempty"`
	Fail    string     `json:"fail,omitempty"`  // command name answered with -ERR boom (first occurrence)
	Builder string     `json:"builder,omitempty"` // slot: mgets mdels msets msetnxs jsonmgets jsonmsets
	Arr     []string   `json:"arr,omitempty"`   // arr / decode: element payloads ("\x00nil" = nil)
	ArrKeys []string   `json:"arrkeys,omitempty"`
}

const wrongType = "WRONGTYPE Operation against a key holding the wrong kind of value"

var namePool = []string{"a", "b", "c", "d", "e", "f", "g", "h", "k1", "k2", "k3", "k4", "k5", "k6", "k7", "k8", "k9", "k10",
	"{t}1", "{t}2", "{t}3", "{t}4", "{t}5", "{t}6", "{u}1", "{u}2", "{u}3", "user:1", "user:2", "user:3", "x", "y", "z", "foo", "bar", "baz", "qux", "", "a b", "é", "k\r\n"}

func genCase(r *gen.Rand, i int) any {
	c := Case{}
	c.Op = gen.Pick(r, []string{"mget", "mget", "mgetcache", "mgetcache", "jmget", "jmgetcache", "mset", "msetnx", "jmset", "mdel", "mdel",
		"arr", "slot", "slot", "decode"})
	switch c.Op {
	case "arr":
		n := r.Size(8, 3)
		for j := 0; j < n; j++ {
			c.ArrKeys = append(c.ArrKeys, gen.Pick(r, namePool[:10]))
		}
		m := n
		switch r.Intn(5) {
		case 0:
			m = n + 1 + r.Intn(2)
		case 1:
			if n > 0 {
				m = r.Intn(n)
			}
		}
		for j := 0; j < m; j++ {
			c.Arr = append(c.Arr, fmt.Sprint("e", j))
		}
		return c
	case "decode":
		n := r.Size(8, 3)
		for j := 0; j < n; j++ {
			switch r.Intn(8) {
			case 0:
				c.Arr = append(c.Arr, "\x00nil")
			case 1:
				if r.Chance(1, 2) {
					c.Arr = append(c.Arr, "{bad json")
				} else {
					c.Arr = append(c.Arr, "\x00int")
				}
			default:
				c.Arr = append(c.Arr, fmt.Sprintf(`{"A":%d}`, r.Intn(100)))
			}
		}
		return c
	case "slot":
		c.Builder = gen.Pick(r, []string{"mgets", "mdels", "msets", "msetnxs", "jsonmgets", "jsonmsets"})
		c.Path = gen.Pick(r, []string{"$", "$.a"})
	}
	nk := 1 + r.Size(12, 3)
	perm := make([]int, len(namePool))
	for j := range perm {
		perm[j] = j
	}
	for j := len(perm) - 1; j > 0; j-- {
		k := r.Intn(j + 1)
		perm[j], perm[k] = perm[k], perm[j]
	}
	if r.Chance(1, 3) {
		// several distinct keys of one slot (hash tags): they end up in one command
		tagged := []int{}
		for j, n := range namePool {
			if strings.HasPrefix(n, "{") {
				tagged = append(tagged, j)
			}
		}
		for j := len(tagged) - 1; j > 0; j-- {
			k := r.Intn(j + 1)
			tagged[j], tagged[k] = tagged[k], tagged[j]
		}
		rest := []int{}
		for _, j := range perm {
			if !strings.HasPrefix(namePool[j], "{") {
				rest = append(rest, j)
			}
		}
		perm = append(tagged, rest...)
	}
	if nk > len(perm) {
		nk = len(perm)
	}
	js := strings.HasPrefix(c.Op, "jm")
	for j := 0; j < nk; j++ {
		k := KeySpec{Name: namePool[perm[j]], Kind: "str"}
		if js {
			k.Kind = "json"
		}
		switch r.Intn(8) {
		case 0:
			k.Kind = "missing"
		case 1:
			k.Kind = "hash"
		}
		c.Keys = append(c.Keys, k)
	}
	na := r.Size(14, 4)
	for j := 0; j < na; j++ {
		if j > 0 && r.Chance(1, 5) && c.Op != "mset" && c.Op != "msetnx" && c.Op != "jmset" {
			c.Args = append(c.Args, c.Args[r.Intn(j)])
		} else {
			c.Args = append(c.Args, r.Intn(nk))
		}
	}
	if js || c.Op == "jmset" {
		c.Path = gen.Pick(r, []string{"$", "$.a", ".b[0]"})
	}
	c.Cluster = r.Chance(1, 2)
	if c.Cluster {
		c.Nodes = r.Range(2, 4)
		c.Salt = r.Intn(1000)
	} else {
		c.Mux = gen.Pick(r, []int{-1, -1, 2})
	}
	if r.Chance(1, 10) {
		switch c.Op {
		case "mget":
			c.Fail = "MGET"
		case "jmget":
			c.Fail = "JSON.MGET"
		case "mset":
			if c.Cluster {
				c.Fail = "SET"
			} else {
				c.Fail = "MSET"
			}
		case "mdel":
			c.Fail = "DEL"
		}
	}
	return c
}

func put(s *fakeredis.Server, k KeySpec) {
	s.Lock()
	defer s.Unlock()
	switch k.Kind {
	case "str":
		s.DB[k.Name] = &fakeredis.Item{Kind: "string", Str: "v:" + k.Name}
	case "json":
		s.DB[k.Name] = &fakeredis.Item{Kind: "json", Str: "d:" + k.Name}
	case "hash":
		s.DB[k.Name] = &fakeredis.Item{Kind: "hash", Hash: map[string]string{"f": "x"}}
	}
}

func errCoq(err error) string {
	if err == nil {
		return "None"
	}
	if errors.Is(err, rueidis.ErrMSetNXNotSet) {
		return "(Some (EOther 7))"
	}
	r := csc.R{Err: csc.ErrKind(err)}
	return "(Some " + r.ErrCoq() + ")"
}

func errView(err error) string {
	if err == nil {
		return "ok"
	}
	if rueidis.IsRedisNil(err) {
		return "nil"
	}
	return err.Error()
}

type env struct {
	nodes  []*fakeredis.Server
	cl     *csc.Cluster
	client rueidis.Client
}

func (e *env) owner(k string) *fakeredis.Server {
	if e.cl != nil {
		return e.nodes[e.cl.Owner(k)]
	}
	return e.nodes[0]
}

func srvTable(nodes []*fakeredis.Server, names map[string]bool) string {
	var out []string
	seen := map[string]bool{}
	for _, s := range nodes {
		for _, en := range s.LogCopy() {
			if len(en.Argv) == 0 || !names[strings.ToUpper(en.Argv[0])] {
				continue
			}
			k := strings.Join(en.Argv, "\x00")
			if seen[k] {
				continue
			}
			seen[k] = true
			out = append(out, csc.Pair(csc.Argv(en.Argv), csc.FromV(en.Reply).Coq()))
		}
	}
	return obs.List(out)
}

func slotsTab(names []string) string {
	var out []string
	seen := map[string]bool{}
	for _, n := range names {
		if !seen[n] {
			seen[n] = true
			out = append(out, csc.Pair(obs.HS(n), obs.N(uint64(csc.Slot(n)))))
		}
	}
	return obs.List(out)
}

func setup(c *Case) (*env, error) {
	e := &env{}
	failed := false
	fault := func(cn *fakeredis.Conn, cseq int, argv []string) fakeredis.Action {
		if c.Fail != "" && !failed && strings.EqualFold(argv[0], c.Fail) {
			failed = true
			v := fakeredis.Error("ERR boom")
			return fakeredis.Action{Override: &v}
		}
		return fakeredis.Action{}
	}
	var err error
	if c.Cluster {
		salt := c.Salt
		e.cl = csc.NewCluster(c.Nodes, func(sl int) int { b := sl / 64; return (b*7 + salt + b/5) % 1000 })
		e.nodes = e.cl.Nodes
		e.cl.Extra = func(node int, cn *fakeredis.Conn, cseq int, argv []string) fakeredis.Action { return fault(cn, cseq, argv) }
		for _, s := range e.nodes {
			csc.RegisterJSON(s)
		}
		for _, k := range c.Keys {
			put(e.owner(k.Name), k)
		}
		e.client, err = e.cl.NewClient(nil)
	} else {
		s := fakeredis.New()
		csc.RegisterJSON(s)
		s.Fault = fault
		e.nodes = []*fakeredis.Server{s}
		for _, k := range c.Keys {
			put(s, k)
		}
		e.client, err = csc.SingleClient(s, c.Mux, false, false, nil)
	}
	return e, err
}

func expectRead(k KeySpec, path string) []string {
	switch k.Kind {
	case "str":
		if path != "" {
			return []string{"E:nil", "E:" + wrongType}
		}
		return []string{"V:$v:" + k.Name}
	case "json":
		if path == "" {
			return []string{"E:nil", "E:" + wrongType}
		}
		return []string{"V:$d:" + k.Name + "@" + path}
	case "hash":
		return []string{"E:nil", "E:" + wrongType}
	}
	return []string{"E:nil"}
}

func oneOf(v string, opts []string) bool {
	for _, o := range opts {
		if v == o {
			return true
		}
	}
	return false
}

func run(ci any) (res obs.Result) {
	c := ci.(Case)
	res.Kind = c.Op
	if c.Cluster {
		res.Kind += ":cluster"
	}
	res.Site, res.Class = "helper.go:"+c.Op, "key-map"
	raw, _ := json.Marshal(c)
	res.Sig = string(raw)
	defer func() {
		if p := recover(); p != nil {
			res.Oracle = fmt.Sprintf("panic: %v", p)
			res.Class = "panic"
		}
	}()
	switch c.Op {
	case "arr":
		return runArr(c, res)
	case "slot":
		return runSlot(c, res)
	case "decode":
		return runDecode(c, res)
	}
	e, err := setup(&c)
	if err != nil {
		res.Oracle = "harness: " + err.Error()
		return
	}
	defer e.client.Close()
	ctx := context.Background()
	var names []string
	for _, j := range c.Args {
		names = append(names, c.Keys[j].Name)
	}
	spec := map[string]KeySpec{}
	for _, k := range c.Keys {
		spec[k.Name] = k
	}
	distinct := map[string]bool{}
	for _, n := range names {
		distinct[n] = true
	}
	res.Nontrivial = len(names) >= 2
	switch c.Op {
	case "mget", "mgetcache", "jmget", "jmgetcache":
		var got map[string]rueidis.RedisMessage
		var gerr error
		path := ""
		switch c.Op {
		case "mget":
			got, gerr = rueidis.MGet(e.client, ctx, names)
		case "mgetcache":
			got, gerr = rueidis.MGetCache(e.client, ctx, time.Hour, names)
		case "jmget":
			path = c.Path
			got, gerr = rueidis.JsonMGet(e.client, ctx, names, c.Path)
		case "jmgetcache":
			path = c.Path
			got, gerr = rueidis.JsonMGetCache(e.client, ctx, time.Hour, names, c.Path)
		}
		view := map[string]string{}
		for k, v := range got {
			view[k] = csc.R{V: csc.FromMsg(v)}.View()
		}
		res.Obs = map[string]any{"map": view, "err": errView(gerr)}
		failedNow := c.Fail != "" && len(names) > 0
		switch {
		case failedNow:
			if gerr == nil || got != nil {
				res.Oracle = "a failed command must give the error and no map"
			}
		case gerr != nil:
			res.Oracle = "unexpected error: " + gerr.Error()
		case len(got) != len(distinct):
			res.Oracle = fmt.Sprintf("map has %d keys, input has %d distinct keys", len(got), len(distinct))
		default:
			for n := range distinct {
				v, ok := view[n]
				if !ok {
					res.Oracle = fmt.Sprintf("key %q missing from the map", n)
					break
				}
				if !oneOf(v, expectRead(spec[n], path)) {
					res.Oracle = fmt.Sprintf("key %q (%s) maps to %s", n, spec[n].Kind, v)
					break
				}
			}
		}
		if c.Op == "mget" || c.Op == "jmget" {
			o := ""
			if gerr != nil {
				o = "(inr " + csc.R{Err: csc.ErrKind(gerr)}.ErrCoq() + ")"
			} else {
				var kvs []string
				var ks []string
				for k := range got {
					ks = append(ks, k)
				}
				sort.Strings(ks)
				for _, k := range ks {
					kvs = append(kvs, csc.Pair(obs.HS(k), csc.FromMsg(got[k]).Coq()))
				}
				o = "(inl " + obs.List(kvs) + ")"
			}
			res.Coq = obs.App("HMGet", obs.Bool(c.Cluster), obs.Bool(c.Op == "jmget"), obs.ListOf(names, obs.HS), obs.HS(c.Path),
				slotsTab(names), srvTable(e.nodes, map[string]bool{"MGET": true, "JSON.MGET": true}), obs.Ok(o))
		}
	case "mset", "msetnx", "jmset":
		kvs := map[string]string{}
		var order []string
		for x, n := range names {
			if _, ok := kvs[n]; !ok {
				order = append(order, n)
			}
			kvs[n] = fmt.Sprintf("w%d:%s", x, n)
		}
		var got map[string]error
		switch c.Op {
		case "mset":
			got = rueidis.MSet(e.client, ctx, kvs)
		case "msetnx":
			got = rueidis.MSetNX(e.client, ctx, kvs)
		default:
			got = rueidis.JsonMSet(e.client, ctx, kvs, c.Path)
		}
		view := map[string]string{}
		for k, v := range got {
			view[k] = errView(v)
		}
		res.Obs = view
		if len(got) != len(kvs) {
			res.Oracle = fmt.Sprintf("map has %d keys, input has %d", len(got), len(kvs))
		}
		anyExisting := false
		for n := range kvs {
			if spec[n].Kind != "missing" {
				anyExisting = true
			}
		}
		for n, val := range kvs {
			gerr, ok := got[n]
			if !ok {
				res.Oracle = fmt.Sprintf("key %q missing from the map", n)
				break
			}
			e.owner(n).Lock()
			it := e.owner(n).DB[n]
			e.owner(n).Unlock()
			stored := it != nil && it.Str == val
			switch {
			case c.Fail != "":
				// one command was answered with an error: at least that key (or all keys of the single command) report it
			case c.Op == "msetnx" && !c.Cluster:
				if anyExisting {
					if !errors.Is(gerr, rueidis.ErrMSetNXNotSet) || stored {
						res.Oracle = fmt.Sprintf("MSETNX with an existing key: key %q reports %v (stored=%v)", n, gerr, stored)
					}
				} else if gerr != nil || !stored {
					res.Oracle = fmt.Sprintf("key %q reports %v (stored=%v)", n, gerr, stored)
				}
			case c.Op == "msetnx":
				if spec[n].Kind != "missing" {
					if !rueidis.IsRedisNil(gerr) || stored {
						res.Oracle = fmt.Sprintf("SET NX on existing key %q reports %v (stored=%v)", n, gerr, stored)
					}
				} else if gerr != nil || !stored {
					res.Oracle = fmt.Sprintf("key %q reports %v (stored=%v)", n, gerr, stored)
				}
			default:
				if gerr != nil || !stored {
					res.Oracle = fmt.Sprintf("key %q reports %v (stored=%v)", n, gerr, stored)
				}
			}
		}
		if c.Fail != "" && len(kvs) > 0 {
			bad := 0
			for _, v := range got {
				if v != nil {
					bad++
				}
			}
			if (c.Cluster && bad != 1) || (!c.Cluster && bad != len(kvs)) {
				res.Oracle = fmt.Sprintf("injected command error reported for %d of %d keys", bad, len(kvs))
			}
		}
		// Gallina: pairs in the order the (single) command carried them, else input order
		head := map[string]string{"mset": "MSET", "msetnx": "MSETNX", "jmset": "JSON.MSET"}[c.Op]
		step := 2
		if c.Op == "jmset" {
			step = 3
		}
		if !c.Cluster {
			for _, en := range e.nodes[0].LogCopy() {
				if len(en.Argv) > 0 && en.Argv[0] == head {
					order = order[:0]
					for i := 1; i+step-1 < len(en.Argv); i += step {
						order = append(order, en.Argv[i])
					}
				}
			}
		}
		var pairs, outs []string
		for _, n := range order {
			pairs = append(pairs, csc.Pair(obs.HS(n), obs.HS(kvs[n])))
		}
		var ks []string
		for k := range got {
			ks = append(ks, k)
		}
		sort.Strings(ks)
		for _, k := range ks {
			outs = append(outs, csc.Pair(obs.HS(k), errCoq(got[k])))
		}
		tab := srvTable(e.nodes, map[string]bool{"MSET": true, "MSETNX": true, "SET": true, "JSON.MSET": true, "JSON.SET": true})
		if c.Op == "jmset" {
			res.Coq = obs.App("HJsonMSet", obs.Bool(c.Cluster), obs.List(pairs), obs.HS(c.Path), tab, obs.Ok(obs.List(outs)))
		} else {
			res.Coq = obs.App("HMSet", obs.Bool(c.Cluster), obs.Bool(c.Op == "msetnx"), obs.List(pairs), tab, obs.Ok(obs.List(outs)))
		}
	case "mdel":
		got := rueidis.MDel(e.client, ctx, names)
		view := map[string]string{}
		for k, v := range got {
			view[k] = errView(v)
		}
		res.Obs = view
		if len(got) != len(distinct) {
			res.Oracle = fmt.Sprintf("map has %d keys, input has %d distinct keys", len(got), len(distinct))
		}
		bad := 0
		for n := range distinct {
			gerr, ok := got[n]
			if !ok {
				res.Oracle = fmt.Sprintf("key %q missing from the map", n)
				break
			}
			if gerr != nil {
				bad++
			}
			e.owner(n).Lock()
			_, still := e.owner(n).DB[n]
			e.owner(n).Unlock()
			if c.Fail == "" && (gerr != nil || still) {
				res.Oracle = fmt.Sprintf("key %q reports %v (still present=%v)", n, gerr, still)
			}
		}
		if c.Fail != "" && len(names) > 0 {
			// cluster: one DEL per list element; a duplicate of the failing key may succeed afterwards and the
			// key then (rightly) reports success
			dup := len(names) != len(distinct)
			if (c.Cluster && !dup && bad != 1) || (c.Cluster && dup && bad > 1) || (!c.Cluster && bad != len(distinct)) {
				res.Oracle = fmt.Sprintf("injected command error reported for %d of %d keys", bad, len(distinct))
			}
		}
		var outs, ks []string
		for k := range got {
			ks = append(ks, k)
		}
		sort.Strings(ks)
		for _, k := range ks {
			outs = append(outs, csc.Pair(obs.HS(k), errCoq(got[k])))
		}
		// with an injected failure on a cluster the failing DEL is one of several identical-looking commands only
		// when the key is duplicated; the server table then holds both replies for one argv - skip the model there
		dupFail := false
		if c.Fail != "" && c.Cluster {
			dupFail = len(names) != len(distinct)
		}
		if !dupFail {
			res.Coq = obs.App("HMDel", obs.Bool(c.Cluster), obs.ListOf(names, obs.HS), srvTable(e.nodes, map[string]bool{"DEL": true}), obs.Ok(obs.List(outs)))
		}
	}
	return
}

func runArr(c Case, res obs.Result) obs.Result {
	res.Site = "helper.go:arrayToKV"
	var arr []rueidis.RedisMessage
	var ms []string
	for _, s := range c.Arr {
		m := mock.RedisString(s)
		arr = append(arr, m)
		ms = append(ms, csc.FromMsg(m).Coq())
	}
	var got map[string]rueidis.RedisMessage
	pan := false
	func() {
		defer func() {
			if recover() != nil {
				pan = true
			}
		}()
		got = rueidis.VerifCscArrayToKV(arr, c.ArrKeys)
	}()
	want := map[string]string{}
	for i, s := range c.Arr {
		if i < len(c.ArrKeys) {
			want[c.ArrKeys[i]] = s
		}
	}
	switch {
	case len(c.Arr) > len(c.ArrKeys):
		if !pan {
			res.Oracle = "more elements than keys must panic (index out of range)"
		}
	case pan:
		res.Oracle = "unexpected panic"
	case len(got) != len(want):
		res.Oracle = fmt.Sprintf("map has %d keys, want %d", len(got), len(want))
	default:
		for k, w := range want {
			if g, ok := got[k]; !ok || csc.FromMsg(g).S != w {
				res.Oracle = fmt.Sprintf("key %q maps to %q, want %q", k, csc.FromMsg(g).S, w)
			}
		}
	}
	o := obs.Panic
	if !pan {
		var ks, outs []string
		for k := range got {
			ks = append(ks, k)
		}
		sort.Strings(ks)
		for _, k := range ks {
			outs = append(outs, csc.Pair(obs.HS(k), csc.FromMsg(got[k]).Coq()))
		}
		o = obs.Ok(obs.List(outs))
	}
	res.Coq = obs.App("HArr", obs.List(ms), obs.ListOf(c.ArrKeys, obs.HS), o)
	res.Nontrivial = len(c.Arr) > 0
	return res
}

func runSlot(c Case, res obs.Result) obs.Result {
	res.Site = "internal/cmds/cmds.go:" + c.Builder
	res.Kind = "slot:" + c.Builder
	var names []string
	for _, j := range c.Args {
		names = append(names, c.Keys[j].Name)
	}
	kvs := map[string]string{}
	for x, n := range names {
		kvs[n] = fmt.Sprintf("w%d", x)
	}
	var got map[uint16][]string
	head, step, trail := "", 1, 0
	switch c.Builder {
	case "mgets":
		got, head = rueidis.VerifCscMGets(names), "MGET"
	case "mdels":
		got, head = rueidis.VerifCscMDels(names), "DEL"
	case "msets":
		got, head, step = rueidis.VerifCscMSets(kvs), "MSET", 2
	case "msetnxs":
		got, head, step = rueidis.VerifCscMSetNXs(kvs), "MSETNX", 2
	case "jsonmgets":
		got, head, trail = rueidis.VerifCscJsonMGets(names, c.Path), "JSON.MGET", 1
	case "jsonmsets":
		got, head, step = rueidis.VerifCscJsonMSets(kvs, c.Path), "JSON.MSET", 3
	}
	pairsIn := step > 1
	// oracle: every key occurs in the command of its slot with its multiplicity (pairs: once, with its value)
	count := map[string]int{}
	if pairsIn {
		for n := range kvs {
			count[n] = 1
		}
	} else {
		for _, n := range names {
			count[n]++
		}
	}
	seen := map[string]int{}
	var order []string // pairs in the order the commands carry them (Go map iteration order as realised)
	for sl, argv := range got {
		if len(argv) == 0 || argv[0] != head {
			res.Oracle = fmt.Sprintf("command of slot %d does not start with %s", sl, head)
			break
		}
		body := argv[1 : len(argv)-trail]
		if trail == 1 && argv[len(argv)-1] != c.Path {
			res.Oracle = "JSON.MGET: the path is not the last word"
		}
		if len(body)%step != 0 {
			res.Oracle = fmt.Sprintf("command of slot %d has %d words after the head", sl, len(body))
			break
		}
		for i := 0; i < len(body); i += step {
			k := body[i]
			if csc.Slot(k) != int(sl) {
				res.Oracle = fmt.Sprintf("key %q (slot %d) is in the command of slot %d", k, csc.Slot(k), sl)
			}
			seen[k]++
			if step == 2 && body[i+1] != kvs[k] {
				res.Oracle = fmt.Sprintf("key %q carries value %q", k, body[i+1])
			}
			if step == 3 && (body[i+1] != c.Path || body[i+2] != kvs[k]) {
				res.Oracle = fmt.Sprintf("key %q carries %q %q", k, body[i+1], body[i+2])
			}
		}
	}
	for k, n := range count {
		if seen[k] != n {
			res.Oracle = fmt.Sprintf("key %q occurs %d times in the commands, %d times in the input", k, seen[k], n)
		}
	}
	for k := range seen {
		if count[k] == 0 {
			res.Oracle = fmt.Sprintf("key %q is not an input key", k)
		}
	}
	// Gallina
	var sls []int
	for sl := range got {
		sls = append(sls, int(sl))
	}
	sort.Ints(sls)
	var outs []string
	for _, sl := range sls {
		argv := got[uint16(sl)]
		outs = append(outs, csc.Pair(obs.N(uint64(sl)), csc.Argv(argv)))
		if pairsIn {
			body := argv[1:]
			for i := 0; i+step-1 < len(body); i += step {
				order = append(order, body[i])
			}
		}
	}
	if pairsIn {
		var pairs []string
		for _, n := range order {
			pairs = append(pairs, csc.Pair(obs.HS(n), obs.HS(kvs[n])))
		}
		if c.Builder == "jsonmsets" {
			res.Coq = obs.App("HJsonMSets", obs.List(pairs), obs.HS(c.Path), slotsTab(order), obs.List(outs))
		} else {
			res.Coq = obs.App("HSlotS", obs.HS(head), obs.List(pairs), slotsTab(order), obs.List(outs))
		}
	} else if c.Builder == "jsonmgets" {
		res.Coq = obs.App("HJsonMGets", obs.ListOf(names, obs.HS), obs.HS(c.Path), slotsTab(names), obs.List(outs))
	} else {
		res.Coq = obs.App("HSlotM", obs.HS(head), obs.ListOf(names, obs.HS), slotsTab(names), obs.List(outs))
	}
	res.Nontrivial = len(names) >= 2
	return res
}

type doc struct{ A int }

func runDecode(c Case, res obs.Result) obs.Result {
	res.Site = "helper.go:DecodeSliceOfJSON"
	var elems []rueidis.RedisMessage
	for _, s := range c.Arr {
		switch s {
		case "\x00nil":
			elems = append(elems, mock.RedisNil())
		case "\x00int":
			elems = append(elems, mock.RedisInt64(5))
		default:
			elems = append(elems, mock.RedisString(s))
		}
	}
	r := mock.Result(mock.RedisArray(elems...))
	var dest []doc
	err := rueidis.DecodeSliceOfJSON(r, &dest)
	// oracle
	wantErr := false
	for _, s := range c.Arr {
		if s == "{bad json" || s == "\x00int" {
			wantErr = true
		}
	}
	switch {
	case wantErr:
		if err == nil {
			res.Oracle = "an undecodable element must give an error"
		}
	case err != nil:
		res.Oracle = "unexpected error " + err.Error()
	case len(dest) != len(c.Arr):
		res.Oracle = fmt.Sprintf("%d decoded elements for %d replies", len(dest), len(c.Arr))
	default:
		for i, s := range c.Arr {
			want := 0
			if s != "\x00nil" {
				var d doc
				_ = json.Unmarshal([]byte(s), &d)
				want = d.A
			}
			if dest[i].A != want {
				res.Oracle = fmt.Sprintf("element %d decodes to %d, want %d", i, dest[i].A, want)
			}
		}
	}
	// Gallina: the decoder is a table payload -> decoded value (as an integer message) / error
	var tab []string
	seen := map[string]bool{}
	for _, s := range c.Arr {
		if s == "\x00nil" || s == "\x00int" || seen[s] {
			continue
		}
		seen[s] = true
		var d doc
		if e := json.Unmarshal([]byte(s), &d); e != nil {
			tab = append(tab, csc.Pair(obs.HS(s), "(inr (EOther 0))"))
		} else {
			tab = append(tab, csc.Pair(obs.HS(s), "(inl "+csc.M{T: ':', I: int64(d.A)}.Coq()+")"))
		}
	}
	o := ""
	if err != nil {
		k := csc.ErrKind(err)
		if strings.HasPrefix(k, "other:") || k == "parse" {
			if k == "parse" {
				o = "(inr EParse)"
			} else {
				o = "(inr (EOther 0))"
			}
		} else {
			o = "(inr " + csc.R{Err: k}.ErrCoq() + ")"
		}
	} else {
		var ds []string
		for i, d := range dest {
			if c.Arr[i] == "\x00nil" {
				ds = append(ds, csc.M{}.Coq())
			} else {
				ds = append(ds, csc.M{T: ':', I: int64(d.A)}.Coq())
			}
		}
		o = "(inl " + obs.List(ds) + ")"
	}
	res.Coq = obs.App("HDecode", csc.FromResult(r).Coq(), obs.List(tab), o)
	res.Nontrivial = len(c.Arr) > 0
	return res
}

func main() {
	if f := os.Getenv("CSC_PPROF"); f != "" {
		fh, _ := os.Create(f)
		_ = pprof.StartCPUProfile(fh)
		defer pprof.StopCPUProfile()
	}
	obs.Main(obs.Runner{
		Name: "obs_helpers", Salt: 31,
		Gen: genCase,
		Decode: func(raw json.RawMessage) (any, error) {
			var c Case
			err := json.Unmarshal(raw, &c)
			return c, err
		},
		Run: run,
	})
}
