// obs_cachecodec: C17 — CacheMarshal / CacheUnmarshalView / CacheSize and the 7-byte expiry of message.go.
//
// Oracle (independent of the Coq model): CacheUnmarshalView(CacheMarshal(m)) reconstructs the generator's
// tree, is a cache hit and carries the expiry (mod 2^56); len(CacheMarshal(m)) = CacheSize(m); every strict
// prefix of the encoding yields ErrCacheUnmarshal under recover().  A separate stream feeds mutated
// buffers (outside the property's quantifier, no oracle) to tie the model's Panic/Err outcomes.
package main

import (
	"encoding/binary"
	"encoding/json"
	"errors"
	"fmt"

	"github.com/redis/rueidis"

	"verifharness/gen"
	"verifharness/obs"
	"verifharness/resp"
)

type Case struct {
	Op   string    `json:"op"` // codec | unm | expire
	M    resp.Tree `json:"m,omitempty"`
	PXAT int64     `json:"pxat,omitempty"`
	Buf  []byte    `json:"buf,omitempty"`
}

var strTypes = []byte{'$', '+', '-', ',', '!', '=', '(', '$', '$', '+'}
var oddTypes = []byte{0, 1, '>', '|', '.', ';', 255, 'x'}
var ints = []int64{0, 1, -1, 9, 10, 255, 256, -256, 1 << 31, -(1 << 31), 1<<63 - 1, -(1 << 63), 1 << 62, 1 << 56, 1<<56 - 1}
var expiries = []int64{0, 1, 255, 256, 1<<56 - 1, 1 << 56, 1<<56 + 5, 1<<63 - 1, -1, -(1 << 63), 1700000000000, 1790000000000}

func genStr(r *gen.Rand) []byte {
	if r.Chance(1, 12) {
		return r.Bytes(gen.Pick(r, []int{255, 256, 257, 1000}))
	}
	return r.Bytes(r.Size(40, 8, 9, 16))
}

func genTree(r *gen.Rand, depth int, budget *int) resp.Tree {
	*budget--
	k := r.Intn(10)
	if depth <= 0 || *budget <= 0 {
		k = r.Intn(6)
	}
	switch {
	case k < 3:
		t := gen.Pick(r, strTypes)
		if r.Chance(1, 10) {
			t = gen.Pick(r, oddTypes)
		}
		s := genStr(r)
		return resp.Tree{Typ: t, Str: s, Int: int64(len(s))}
	case k < 5:
		v := gen.Pick(r, ints)
		if r.Bool() {
			v = int64(r.U64())
		}
		return resp.Tree{Typ: ':', Int: v}
	case k == 5:
		if r.Bool() {
			return resp.Tree{Typ: '_'}
		}
		return resp.Tree{Typ: '#', Int: int64(r.Intn(2))}
	default:
		typ := gen.Pick(r, []byte{'*', '*', '%', '~'})
		n := r.Size(6, 2)
		if typ == '%' {
			n &^= 1
		}
		if r.Chance(1, 30) {
			n = gen.Pick(r, []int{255, 256, 257})
			depth = 0
		}
		t := resp.Tree{Typ: typ, Int: int64(n), Arr: make([]resp.Tree, n)}
		for i := range t.Arr {
			t.Arr[i] = genTree(r, depth-1, budget)
		}
		return t
	}
}

func genCase(r *gen.Rand, i int) any {
	switch k := r.Intn(12); {
	case k == 0:
		return Case{Op: "expire", PXAT: pickExp(r)}
	case k <= 2:
		// a mutated encoding
		budget := 12
		m := genTree(r, 3, &budget)
		msg := m.ToMsg()
		rueidis.VerifSetExpireAt(&msg, pickExp(r))
		buf := msg.CacheMarshal(nil)
		return Case{Op: "unm", Buf: mutate(r, buf)}
	default:
		budget := gen.Pick(r, []int{1, 4, 12, 40})
		return Case{Op: "codec", M: genTree(r, r.Range(0, 5), &budget), PXAT: pickExp(r)}
	}
}

func pickExp(r *gen.Rand) int64 {
	if r.Bool() {
		return gen.Pick(r, expiries)
	}
	return int64(r.U64() >> uint(r.Intn(64)))
}

var sizeMut = []int64{-1, -2, -(1 << 63), 1<<63 - 1, 1 << 62, 1 << 61, 7036874417767, 0, 1, 2, 3, 9, 16, 200}

func mutate(r *gen.Rand, b []byte) []byte {
	b = append([]byte(nil), b...)
	for n := r.Range(1, 3); n > 0; n-- {
		switch r.Intn(5) {
		case 0: // overwrite a size field (the first one, or one found by walking headers naively)
			off := 8
			if len(b) >= off+8 {
				binary.BigEndian.PutUint64(b[off:], uint64(gen.Pick(r, sizeMut)))
			}
		case 1: // overwrite 8 bytes at a random position with a mutated size
			if len(b) >= 16 {
				off := r.Range(7, len(b)-8)
				binary.BigEndian.PutUint64(b[off:], uint64(gen.Pick(r, sizeMut)))
			}
		case 2: // swap a type byte
			if len(b) > 7 {
				b[7] = gen.Pick(r, []byte{'*', '%', '~', '$', ':', '_', '#', '+', 0, '>'})
			}
		case 3: // truncate
			b = b[:r.Intn(len(b)+1)]
		default: // flip a byte
			if len(b) > 0 {
				b[r.Intn(len(b))] ^= byte(1 << uint(r.Intn(8)))
			}
		}
	}
	return b
}

// dangerous reports whether decoding buf would call make([]RedisMessage, n) with an n that is neither
// rejected by the runtime (n < 0 or n*40 > 2^48) nor small: such a buffer is not fed to the implementation.
func dangerous(buf []byte) bool {
	var walk func(c int) (int, bool, bool)
	walk = func(c int) (next int, ok bool, danger bool) {
		if len(buf) < c+9 {
			return 0, false, false
		}
		typ := buf[c]
		size := int64(binary.BigEndian.Uint64(buf[c+1 : c+9]))
		c += 9
		switch {
		case resp.IsIntLike(typ):
			return c, true, false
		case resp.IsAgg(typ):
			if size < 0 || size > (1<<48)/40 {
				return 0, false, false // the runtime panics before allocating
			}
			if size > 1<<20 {
				return 0, false, true
			}
			for i := int64(0); i < size; i++ {
				n, ok, d := walk(c)
				if d {
					return 0, false, true
				}
				if !ok {
					return 0, false, false
				}
				c = n
			}
			return c, true, false
		default:
			if size < 0 || int64(len(buf)) < int64(c)+size {
				return 0, false, false
			}
			return c + int(size), true, false
		}
	}
	if len(buf) < 7 {
		return false
	}
	_, _, d := walk(7)
	return d
}

// unmarshal runs CacheUnmarshalView under recover and renders the outcome as a Gallina [result (msg * Z)].
func unmarshal(buf []byte) (coq string, tree resp.Tree, exp int64, status string, hit bool) {
	status = "panic"
	coq = obs.Panic
	func() {
		defer func() { _ = recover() }()
		var m rueidis.RedisMessage
		err := m.CacheUnmarshalView(append([]byte(nil), buf...))
		switch {
		case err == nil:
			tree = resp.FromMsg(&m)
			exp = rueidis.VerifGetExpireAt(&m)
			hit = m.IsCacheHit()
			status = "ok"
			coq = obs.Ok("(" + tree.Coq() + ", " + resp.Z(exp) + ")")
		case errors.Is(err, rueidis.ErrCacheUnmarshal):
			status = "err"
			coq = obs.Err(1)
		default:
			status = "othererr:" + err.Error()
			coq = obs.Err(2)
		}
	}()
	return
}

func statusCoq(s string) string {
	switch s {
	case "ok":
		return "(Ok tt)"
	case "err":
		return obs.Err(1)
	case "panic":
		return obs.Panic
	}
	return obs.Err(2)
}

func run(ci any) (res obs.Result) {
	c := ci.(Case)
	res.Kind = c.Op
	switch c.Op {
	case "expire":
		var m rueidis.RedisMessage
		rueidis.VerifSetExpireAt(&m, c.PXAT)
		ttl := rueidis.VerifMsgTTL(&m)
		back := rueidis.VerifGetExpireAt(&m)
		want := int64(uint64(c.PXAT) & (1<<56 - 1))
		res.Site, res.Class = "message.go:setExpireAt/getExpireAt", "expiry"
		if back != want {
			res.Oracle = fmt.Sprintf("getExpireAt(setExpireAt(%d)) = %d, want %d", c.PXAT, back, want)
		}
		res.Coq = obs.App("CExpire", resp.Z(c.PXAT), obs.H(ttl[:]), resp.Z(back))
		res.Sig, res.Nontrivial = fmt.Sprint("exp", c.PXAT), true
	case "codec":
		res.Site, res.Class = "message.go:CacheMarshal/CacheUnmarshalView", "roundtrip"
		m := c.M.ToMsg()
		rueidis.VerifSetExpireAt(&m, c.PXAT)
		out := m.CacheMarshal(nil)
		size := m.CacheSize()
		backCoq, tree, exp, st, hit := unmarshal(out)
		want := int64(uint64(c.PXAT) & (1<<56 - 1))
		switch {
		case size != len(out):
			res.Oracle = fmt.Sprintf("CacheSize = %d but CacheMarshal wrote %d bytes", size, len(out))
			res.Class = "size"
		case st != "ok":
			res.Oracle = "CacheUnmarshalView(CacheMarshal(m)) failed: " + st
		case !tree.Equal(c.M):
			res.Oracle = "CacheUnmarshalView(CacheMarshal(m)) is a different value tree"
		case exp != want:
			res.Oracle = fmt.Sprintf("expiry %d came back as %d", want, exp)
		case !hit:
			res.Oracle = "the unmarshalled message is not marked as a cache hit"
		}
		// every strict prefix
		ks := make([]int, 0, len(out))
		if len(out) <= 160 {
			for k := 0; k < len(out); k++ {
				ks = append(ks, k)
			}
		} else {
			for k := 0; k < 24; k++ {
				ks = append(ks, k)
			}
			for k := len(out) - 24; k < len(out); k++ {
				ks = append(ks, k)
			}
		}
		sampled := map[int]bool{}
		for _, k := range ks {
			sampled[k] = true
		}
		var trunc []string
		for k := 0; k < len(out); k++ {
			_, _, _, st, _ := unmarshal(out[:k])
			if st != "err" && res.Oracle == "" {
				res.Oracle = fmt.Sprintf("prefix of length %d of a %d-byte encoding: %s instead of ErrCacheUnmarshal", k, len(out), st)
				res.Class = "truncation"
			}
			if sampled[k] || (len(out) > 160 && k%17 == 0) {
				trunc = append(trunc, "("+obs.Nat(k)+", "+statusCoq(st)+")")
			}
		}
		if c.M.Bytes()+2*len(out) <= resp.MaxCoqBytes {
			res.Coq = obs.App("CCodec", c.M.Coq(), resp.Z(c.PXAT), resp.HB(out), obs.N(uint64(size)), backCoq, obs.List(trunc))
		}
		res.Sig = fmt.Sprint("codec", hash(out))
		res.Nontrivial = true
		res.Obs = fmt.Sprintf("%d nodes depth %d, %d bytes, %d prefixes", c.M.Nodes(), c.M.Depth(), len(out), len(out))
	case "unm":
		res.Site, res.Class = "message.go:CacheUnmarshalView", "untrusted-buffer"
		res.Sig = fmt.Sprint("unm", hash(c.Buf))
		if dangerous(c.Buf) {
			res.Obs = "skipped: would allocate a huge slice"
			return
		}
		coq, _, _, st, _ := unmarshal(c.Buf)
		res.Coq = obs.App("CUnm", resp.HB(c.Buf), coq)
		res.Obs = st
		res.Nontrivial = st != "ok"
	}
	return
}

func hash(b []byte) uint64 {
	h := uint64(1469598103934665603)
	for _, c := range b {
		h = (h ^ uint64(c)) * 1099511628211
	}
	return h
}

func main() {
	obs.Main(obs.Runner{
		Name: "obs_cachecodec", Salt: 17,
		Gen: genCase,
		Decode: func(raw json.RawMessage) (any, error) {
			var c Case
			err := json.Unmarshal(raw, &c)
			return c, err
		},
		Run: run,
	})
}
