// obs_respwrite: C14 — writeN / writeB / writeS / writeCmd of resp.go, and the pipelined writer of pipe.go.
//
// Oracle (independent of the Coq model): a server-side parser written here recovers exactly the
// argument vectors from the bytes the real writer produced, with nothing left over; writeN prints
// strconv.Itoa(n).  The real writeN is swept exhaustively over ranges of n (each "sweep" case covers
// one contiguous chunk; together the first 100 cases cover every n below 10^7 in the quick tier and
// every n below 2*10^9 in the thorough tier).
package main

import (
	"bufio"
	"bytes"
	"context"
	"crypto/tls"
	"encoding/json"
	"fmt"
	"net"
	"os"
	"strconv"
	"sync"
	"time"

	"github.com/redis/rueidis"

	"verifharness/gen"
	"verifharness/obs"
	"verifharness/resp"
)

type Arg struct {
	B   []byte `json:"b,omitempty"`
	Rep int    `json:"rep,omitempty"` // B repeated Rep times (0 = once)
}

func (a Arg) bytes() []byte {
	if a.Rep <= 1 {
		return a.B
	}
	return bytes.Repeat(a.B, a.Rep)
}

type Case struct {
	Op   string  `json:"op"` // sweep | bounds | n | b | s | cmd | cmds | pipe
	ID   byte    `json:"id,omitempty"`
	Lo   int     `json:"lo,omitempty"`
	Hi   int     `json:"hi,omitempty"`
	N    int     `json:"n,omitempty"`
	Str  Arg     `json:"str,omitempty"`
	Cmds [][]Arg `json:"cmds,omitempty"`
	Buf  int     `json:"buf,omitempty"` // bufio.Writer size
}

var thorough = os.Getenv("VERIF_TIER") == "thorough"

const sweepChunks = 100

func sweepChunk() int {
	if thorough {
		return 20_000_000
	}
	return 100_000
}

var lenMarks = []int{9, 10, 11, 99, 100, 101, 999, 1000, 1001, 9999, 10000, 10001}

func genArg(r *gen.Rand) Arg {
	switch r.Intn(12) {
	case 0:
		return Arg{}
	case 1:
		return Arg{B: []byte("\r\n")}
	case 2:
		return Arg{B: []byte("$3\r\nabc\r\n*1\r\n")} // looks like RESP itself
	case 3:
		return Arg{B: r.Bytes(gen.Pick(r, lenMarks) + r.Range(-1, 1))}
	default:
		return Arg{B: r.Bytes(r.Size(300, 9, 10, 99, 100))}
	}
}

func genCmd(r *gen.Rand) []Arg {
	n := r.Size(40, 9, 10, 11)
	if r.Chance(1, 10) {
		n = gen.Pick(r, []int{99, 100, 101, 999, 1000, 1001}) // digit boundaries of the argument count
	}
	c := make([]Arg, n)
	small := n > 50
	for i := range c {
		if small {
			c[i] = Arg{B: r.Bytes(r.Intn(4))}
		} else {
			c[i] = genArg(r)
		}
	}
	return c
}

func genCase(r *gen.Rand, i int) any {
	if i < sweepChunks {
		return Case{Op: "sweep", ID: '$', Lo: i * sweepChunk(), Hi: (i + 1) * sweepChunk()}
	}
	if i == sweepChunks {
		return Case{Op: "bounds", ID: '*'}
	}
	c := Case{}
	k := r.Intn(16)
	if k == 4 && !r.Chance(1, 4) {
		k = 5
	}
	switch k {
	case 0:
		c.Op, c.ID = "n", gen.Pick(r, []byte{'*', '$', '>', '%'})
		c.N = r.Size(1<<40, lenMarks...)
		if r.Chance(1, 3) {
			e := r.Range(1, 14)
			p := 1
			for j := 0; j < e; j++ {
				p *= 10
			}
			c.N = p + r.Range(-2, 2)
		}
	case 1, 2:
		c.Op, c.ID = "b", gen.Pick(r, []byte{'$', '!', '='})
		c.Str = genArg(r)
	case 3:
		c.Op, c.ID = "s", gen.Pick(r, []byte{'+', '-', ','})
		c.Str = Arg{B: r.Bytes(r.Size(100))}
	case 4:
		// very long argument / very many arguments: oracle only (no Gallina term)
		c.Op = "cmd"
		if r.Bool() {
			ln := gen.Pick(r, []int{99999, 100000, 100001, 999999, 1000000, 1000001, 9999999, 10000000, 10000001})
			c.Cmds = [][]Arg{{Arg{B: []byte("SET")}, Arg{B: []byte("k")}, Arg{B: []byte{byte(r.Intn(256))}, Rep: ln}}}
		} else {
			n := gen.Pick(r, []int{9999, 10000, 10001, 65535, 65536, 70000})
			cmd := make([]Arg, n)
			for j := range cmd {
				cmd[j] = Arg{B: r.Bytes(r.Intn(3))}
			}
			c.Cmds = [][]Arg{cmd}
		}
	case 5, 6, 7, 8, 9:
		c.Op = "cmd"
		c.Cmds = [][]Arg{genCmd(r)}
		c.Buf = gen.Pick(r, []int{16, 17, 64, 4096})
	case 10, 11, 12, 13:
		c.Op = "cmds"
		k = r.Range(2, 6)
		for j := 0; j < k; j++ {
			c.Cmds = append(c.Cmds, genCmd(r))
		}
		c.Buf = gen.Pick(r, []int{16, 31, 64, 4096})
	default:
		c.Op = "pipe"
		k = r.Range(1, 8)
		for j := 0; j < k; j++ {
			cmd := genCmd(r)
			if len(cmd) == 0 { // the client refuses to build an empty command
				cmd = []Arg{{B: []byte("PING")}}
			}
			if len(cmd[0].B) == 0 {
				cmd[0] = Arg{B: []byte("ECHO")}
			}
			c.Cmds = append(c.Cmds, cmd)
		}
	}
	return c
}

// ---- independent server-side parser -----------------------------------------------------------

type parser struct {
	b []byte
	p int
}

func (p *parser) num() (int, bool) {
	n, seen := 0, false
	for p.p < len(p.b) && p.b[p.p] >= '0' && p.b[p.p] <= '9' {
		n = n*10 + int(p.b[p.p]-'0')
		seen = true
		p.p++
		if n > 1<<40 {
			return 0, false
		}
	}
	if !seen || p.p+1 >= len(p.b) || p.b[p.p] != '\r' || p.b[p.p+1] != '\n' {
		return 0, false
	}
	p.p += 2
	return n, true
}

func (p *parser) cmd() ([][]byte, bool) {
	if p.p >= len(p.b) || p.b[p.p] != '*' {
		return nil, false
	}
	p.p++
	n, ok := p.num()
	if !ok {
		return nil, false
	}
	argv := make([][]byte, 0, min(n, 1<<20))
	for i := 0; i < n; i++ {
		if p.p >= len(p.b) || p.b[p.p] != '$' {
			return nil, false
		}
		p.p++
		l, ok := p.num()
		if !ok || p.p+l+2 > len(p.b) || p.b[p.p+l] != '\r' || p.b[p.p+l+1] != '\n' {
			return nil, false
		}
		argv = append(argv, p.b[p.p:p.p+l])
		p.p += l + 2
	}
	return argv, true
}

func parseAll(b []byte) ([][][]byte, bool) {
	p := &parser{b: b}
	var out [][][]byte
	for p.p < len(b) {
		c, ok := p.cmd()
		if !ok {
			return out, false
		}
		out = append(out, c)
	}
	return out, true
}

func sameArgv(got [][]byte, want [][]byte) bool {
	if len(got) != len(want) {
		return false
	}
	for i := range got {
		if !bytes.Equal(got[i], want[i]) {
			return false
		}
	}
	return true
}

// ---- running the implementation -----------------------------------------------------------------

func writeNReal(id byte, n int) []byte {
	var bb bytes.Buffer
	o := bufio.NewWriterSize(&bb, 64)
	_ = rueidis.VerifWriteN(o, id, n)
	_ = o.Flush()
	return bb.Bytes()
}

func wantN(id byte, n int) []byte {
	return append(append([]byte{id}, strconv.Itoa(n)...), '\r', '\n')
}

func coqArgv(a [][]byte) string { return obs.ListOf(a, resp.HB) }

func materialise(cmds [][]Arg) ([][][]byte, [][]string, int) {
	bs := make([][][]byte, len(cmds))
	ss := make([][]string, len(cmds))
	total := 0
	for i, c := range cmds {
		bs[i] = make([][]byte, len(c))
		ss[i] = make([]string, len(c))
		for j, a := range c {
			b := a.bytes()
			if b == nil {
				b = []byte{}
			}
			bs[i][j] = b
			ss[i][j] = string(b)
			total += len(b) + 1
		}
	}
	return bs, ss, total
}

func run(ci any) (res obs.Result) {
	c := ci.(Case)
	res.Kind = c.Op
	switch c.Op {
	case "sweep":
		res.Site, res.Class = "resp.go:writeN", "digits"
		var bb bytes.Buffer
		o := bufio.NewWriterSize(&bb, 64)
		var samples []string
		step := (c.Hi - c.Lo) / 7
		if step == 0 {
			step = 1
		}
		for n := c.Lo; n < c.Hi; n++ {
			bb.Reset()
			_ = rueidis.VerifWriteN(o, c.ID, n)
			_ = o.Flush()
			if !bytes.Equal(bb.Bytes(), wantN(c.ID, n)) {
				if res.Oracle == "" {
					res.Oracle = fmt.Sprintf("writeN(%d) wrote %q", n, bb.Bytes())
				}
			}
			if (n-c.Lo)%step == 0 || n == c.Hi-1 {
				samples = append(samples, "("+obs.N(uint64(n))+", "+obs.H(bb.Bytes())+")")
			}
		}
		res.Coq = obs.App("CWriteNs", obs.N(uint64(c.ID)), obs.List(samples))
		res.Sig = fmt.Sprint("sweep", c.Lo, c.Hi)
		res.Nontrivial = c.Hi > c.Lo
		res.Obs = fmt.Sprintf("swept [%d,%d)", c.Lo, c.Hi)
	case "bounds":
		res.Site, res.Class = "resp.go:writeN", "digits"
		var samples []string
		p := 1
		for k := 0; k <= 14; k++ {
			for _, n := range []int{p - 1, p, p + 1} {
				got := writeNReal(c.ID, n)
				if !bytes.Equal(got, wantN(c.ID, n)) && res.Oracle == "" {
					res.Oracle = fmt.Sprintf("writeN(%d) wrote %q", n, got)
				}
				samples = append(samples, "("+obs.N(uint64(n))+", "+obs.H(got)+")")
			}
			p *= 10
		}
		// 10^15 - 1 is the last value inside the stated bound
		got := writeNReal(c.ID, p-1)
		if !bytes.Equal(got, wantN(c.ID, p-1)) {
			res.Oracle = fmt.Sprintf("writeN(%d) wrote %q", p-1, got)
		}
		samples = append(samples, "("+obs.N(uint64(p-1))+", "+obs.H(got)+")")
		res.Coq = obs.App("CWriteNs", obs.N(uint64(c.ID)), obs.List(samples))
		res.Sig, res.Nontrivial = "bounds", true
	case "n":
		res.Site, res.Class = "resp.go:writeN", "digits"
		got := writeNReal(c.ID, c.N)
		if !bytes.Equal(got, wantN(c.ID, c.N)) {
			res.Oracle = fmt.Sprintf("writeN(%d) wrote %q", c.N, got)
		}
		res.Coq = obs.App("CWriteN", obs.N(uint64(c.ID)), obs.N(uint64(c.N)), obs.H(got))
		res.Sig, res.Nontrivial = fmt.Sprint("n", c.ID, c.N), true
	case "b", "s":
		s := c.Str.bytes()
		var bb bytes.Buffer
		o := bufio.NewWriterSize(&bb, 16)
		var want []byte
		if c.Op == "b" {
			_ = rueidis.VerifWriteB(o, c.ID, string(s))
			want = append(append(wantN(c.ID, len(s)), s...), '\r', '\n')
			res.Site = "resp.go:writeB"
		} else {
			_ = rueidis.VerifWriteS(o, c.ID, string(s))
			want = append(append([]byte{c.ID}, s...), '\r', '\n')
			res.Site = "resp.go:writeS"
		}
		_ = o.Flush()
		res.Class = "bytes"
		if !bytes.Equal(bb.Bytes(), want) {
			res.Oracle = fmt.Sprintf("wrote %q, want %q", trunc(bb.Bytes()), trunc(want))
		}
		ctor := "CWriteB"
		if c.Op == "s" {
			ctor = "CWriteS"
		}
		res.Coq = obs.App(ctor, obs.N(uint64(c.ID)), resp.HB(s), resp.HB(bb.Bytes()))
		res.Sig, res.Nontrivial = fmt.Sprint(c.Op, c.ID, s), true
	case "cmd", "cmds":
		res.Site, res.Class = "resp.go:writeCmd", "argv-roundtrip"
		bs, ss, total := materialise(c.Cmds)
		var bb bytes.Buffer
		size := c.Buf
		if size == 0 {
			size = 4096
		}
		o := bufio.NewWriterSize(&bb, size)
		for i, cmd := range ss {
			if i%2 == 0 {
				_ = rueidis.VerifWriteCmd(o, cmd)
			} else {
				_ = rueidis.VerifFlushCmd(o, cmd)
			}
		}
		_ = o.Flush()
		out := bb.Bytes()
		got, ok := parseAll(out)
		if !ok {
			res.Oracle = fmt.Sprintf("the written bytes are not a sequence of RESP command frames: %q", trunc(out))
		} else if len(got) != len(bs) {
			res.Oracle = fmt.Sprintf("%d commands written, %d frames parsed", len(bs), len(got))
		} else {
			for i := range got {
				if !sameArgv(got[i], bs[i]) {
					res.Oracle = fmt.Sprintf("command %d: parsed argv differs from the written argv (%d vs %d args)", i, len(got[i]), len(bs[i]))
					break
				}
			}
		}
		nargs := 0
		for _, cmd := range bs {
			nargs += len(cmd)
		}
		if total+len(out) <= resp.MaxCoqBytes && nargs <= 1500 {
			if c.Op == "cmd" {
				res.Coq = obs.App("CWriteCmd", coqArgv(bs[0]), resp.HB(out))
			} else {
				res.Coq = obs.App("CWriteCmds", obs.ListOf(bs, coqArgv), resp.HB(out))
			}
		}
		res.Sig = fmt.Sprint(c.Op, len(out), hash(out))
		res.Nontrivial = nargs > 0
		res.Obs = fmt.Sprintf("%d cmds %d args %d bytes", len(bs), nargs, len(out))
	case "pipe":
		res.Site, res.Class = "pipe.go:_backgroundWrite", "argv-roundtrip"
		bs, ss, _ := materialise(c.Cmds)
		wire, err := runPipe(ss)
		if err != nil {
			res.Oracle = "harness: " + err.Error()
			res.Class = "harness"
			return
		}
		got, ok := parseAll(wire)
		if !ok {
			res.Oracle = fmt.Sprintf("the bytes on the connection are not a sequence of RESP command frames: %q", trunc(wire))
		} else if len(got) != len(bs) {
			res.Oracle = fmt.Sprintf("%d commands sent, %d frames on the wire", len(bs), len(got))
		} else {
			for i := range got {
				if !sameArgv(got[i], bs[i]) {
					res.Oracle = fmt.Sprintf("command %d: argv on the wire differs from the caller's argv", i)
					break
				}
			}
		}
		if 2*len(wire) <= resp.MaxCoqBytes {
			res.Coq = obs.App("CWriteCmds", obs.ListOf(bs, coqArgv), resp.HB(wire))
		}
		res.Sig = fmt.Sprint(c.Op, len(wire), hash(wire))
		res.Nontrivial = true
		res.Obs = fmt.Sprintf("%d cmds %d bytes on the wire", len(bs), len(wire))
	}
	return
}

func hash(b []byte) uint64 {
	h := uint64(1469598103934665603)
	for _, c := range b {
		h = (h ^ uint64(c)) * 1099511628211
	}
	return h
}

func trunc(b []byte) []byte {
	if len(b) > 120 {
		return b[:120]
	}
	return b
}

// runPipe sends the commands through a real client (DoMulti => auto pipelining, background writer)
// over net.Pipe to a server that records every byte after the handshake and answers +OK per frame.
func runPipe(cmds [][]string) ([]byte, error) {
	cli, srv := net.Pipe()
	var mu sync.Mutex
	var wire []byte
	handshake := true
	done := make(chan struct{})
	// replies are written by their own goroutine: net.Pipe has no buffer, and the client may still be
	// writing (synchronous mode) when the first replies are due
	replies := make(chan int, 1<<16)
	go func() {
		for range replies {
			if _, werr := srv.Write([]byte("+OK\r\n")); werr != nil {
				for range replies {
				}
				return
			}
		}
	}()
	go func() {
		defer close(done)
		defer close(replies)
		rd := bufio.NewReader(srv)
		buf := make([]byte, 0, 1<<16)
		tmp := make([]byte, 1<<15)
		for {
			n, err := rd.Read(tmp)
			if n > 0 {
				buf = append(buf, tmp[:n]...)
				// answer every complete frame
				for {
					p := &parser{b: buf}
					argv, ok := p.cmd()
					if !ok {
						break
					}
					mu.Lock()
					hs := handshake
					if hs && len(argv) > 0 && string(argv[0]) == "VERIFSTART" {
						handshake = false
					} else if !hs {
						wire = append(wire, buf[:p.p]...)
					}
					mu.Unlock()
					buf = buf[p.p:]
					replies <- 1
				}
			}
			if err != nil {
				return
			}
		}
	}()
	c, err := rueidis.NewClient(rueidis.ClientOption{
		InitAddress:           []string{"127.0.0.1:6379"},
		AlwaysRESP2:           true,
		DisableCache:          true,
		DisableRetry:          true,
		DisableAutoPipelining: false,
		ForceSingleClient:     true,
		ClientNoTouch:         false,
		ClientSetInfo:         rueidis.DisableClientSetInfo,
		PipelineMultiplex:     -1,
		DialCtxFn: func(ctx context.Context, s string, d *net.Dialer, t *tls.Config) (net.Conn, error) {
			return cli, nil
		},
	})
	if err != nil {
		_ = srv.Close()
		return nil, err
	}
	ctx, cancel := context.WithTimeout(context.Background(), 20*time.Second)
	defer cancel()
	if err := c.Do(ctx, c.B().Arbitrary("VERIFSTART").Build()).Error(); err != nil {
		c.Close()
		_ = srv.Close()
		return nil, fmt.Errorf("start marker: %w", err)
	}
	multi := make(rueidis.Commands, 0, len(cmds))
	for _, cmd := range cmds {
		multi = append(multi, c.B().Arbitrary(cmd[0]).Args(cmd[1:]...).Build())
	}
	var ferr error
	for _, r := range c.DoMulti(ctx, multi...) {
		if err := r.Error(); err != nil && ferr == nil {
			ferr = err
		}
	}
	mu.Lock()
	out := append([]byte(nil), wire...)
	mu.Unlock()
	c.Close()
	_ = srv.Close()
	<-done
	if ferr != nil {
		return out, ferr
	}
	return out, nil
}

func main() {
	obs.Main(obs.Runner{
		Name: "obs_respwrite", Salt: 14,
		Gen: genCase,
		Decode: func(raw json.RawMessage) (any, error) {
			var c Case
			err := json.Unmarshal(raw, &c)
			return c, err
		},
		Run: run,
	})
}
