// obs_compatargs: C42 — the argv rueidiscompat hands to client.Do for a list of methods, captured with a
// recording rueidis.Client (no server), compared
//   - with the Coq model Model/CompatArgs.v (check_case, exact bytes), and
//   - with a Go transcription of the go-redis v9 reference (methods.go, ref functions) under the
//     normal form of the property: keywords case-insensitive, the default "=" of MAXLEN/MINID dropped,
//     SET options in any order (direct oracle).
//
// Result.Kind is the method name; the list of methods and the number of comparisons per method are the
// input distribution of the evidence.
package main

import (
	"context"
	"encoding/json"
	"fmt"
	"reflect"
	"sort"
	"strconv"
	"strings"
	"time"

	"github.com/redis/rueidis"
	"github.com/redis/rueidis/mock"
	compat "github.com/redis/rueidis/rueidiscompat"

	"verifharness/fakeredis"
	"verifharness/gen"
	"verifharness/obs"
)

var ctx = context.Background()

// ---------------------------------------------------------------------------------------------
// generic argument bag (JSON serialisable, replayable)

type AV struct {
	T string `json:"t"` // str | int | bool | nil
	S string `json:"s,omitempty"`
	I int64  `json:"i,omitempty"`
	B bool   `json:"b,omitempty"`
}

type A struct {
	M  string    `json:"m"`            // method
	S  []string  `json:"s,omitempty"`  // strings
	I  []int64   `json:"i,omitempty"`  // integers / durations (ns) / times (unix nano)
	U  uint64    `json:"u,omitempty"`  // cursor
	B  []bool    `json:"b,omitempty"`  // flags
	V  []AV      `json:"v,omitempty"`  // interface{} values
	L  []string  `json:"l,omitempty"`  // string list (keys, ids, gets, streams)
	IL []int64   `json:"il,omitempty"` // integer list
	F  []float64 `json:"f,omitempty"`  // floats
	FM []FMember `json:"fm,omitempty"` // (score, member) / (lon, lat, name)
	N  bool      `json:"n,omitempty"`  // nil pointer argument (BitCount)
	T  *int64    `json:"t,omitempty"`  // optional time (unix seconds), nil = zero time
}

type FMember struct {
	A float64 `json:"a"`
	B float64 `json:"b,omitempty"`
	S string  `json:"s"`
}

func (v AV) any() any {
	switch v.T {
	case "str":
		return v.S
	case "int":
		return v.I
	case "bool":
		return v.B
	}
	return nil
}

func (v AV) text() string {
	switch v.T {
	case "str":
		return v.S
	case "int":
		return strconv.FormatInt(v.I, 10)
	case "bool":
		if v.B {
			return "1"
		}
		return "0"
	}
	return ""
}

func (v AV) coq() string {
	switch v.T {
	case "str":
		return obs.App("AStr", obs.HS(v.S))
	case "int":
		return obs.App("AInt", obs.Z(v.I))
	case "bool":
		return obs.App("ABool", obs.Bool(v.B))
	}
	return "ANil"
}

// ---------------------------------------------------------------------------------------------
// tokens of the reference

type Tok struct {
	K bool // keyword (case-insensitive)
	S string
}

func kw(s string) Tok { return Tok{true, s} }
func d(s string) Tok  { return Tok{false, s} }
func di(i int64) Tok  { return Tok{false, strconv.FormatInt(i, 10)} }
func du(u uint64) Tok { return Tok{false, strconv.FormatUint(u, 10)} }
func df(f float64) Tok {
	return Tok{false, strconv.FormatFloat(f, 'f', -1, 64)}
}
func ds(ss []string) []Tok {
	out := make([]Tok, len(ss))
	for i, s := range ss {
		out[i] = d(s)
	}
	return out
}
func dv(vs []AV) []Tok {
	out := make([]Tok, len(vs))
	for i, v := range vs {
		out[i] = d(v.text())
	}
	return out
}

// reference outcome
const (
	refSent      = "sent"
	refNothing   = "nothing"   // go-redis sends nothing (error Cmd or panic)
	refUncertain = "uncertain" // outside the range in which the specification is certain: no oracle
)

type Ref struct {
	Status string
	Toks   []Tok
}

func sent(parts ...[]Tok) Ref {
	var t []Tok
	for _, p := range parts {
		t = append(t, p...)
	}
	return Ref{refSent, t}
}
func T(ts ...Tok) []Tok { return ts }
func If(c bool, ts ...Tok) []Tok {
	if c {
		return ts
	}
	return nil
}

// ---------------------------------------------------------------------------------------------
// recording client

type recClient struct {
	rueidis.Client
	argv [][]string
}

func (c *recClient) Do(_ context.Context, cmd rueidis.Completed) rueidis.RedisResult {
	a := append([]string(nil), cmd.Commands()...)
	if len(a) == 1 && a[0] == "ROLE" {
		return mock.Result(mock.RedisArray(mock.RedisString("master")))
	}
	c.argv = append(c.argv, a)
	return mock.Result(mock.RedisError("ERR recorded"))
}

func (c *recClient) Nodes() map[string]rueidis.Client { return map[string]rueidis.Client{"n": c} }

var builder rueidis.Client

func builderClient() rueidis.Client {
	if builder == nil {
		s := fakeredis.New()
		cl, err := rueidis.NewClient(rueidis.ClientOption{InitAddress: []string{"127.0.0.1:6379"}, DialCtxFn: s.Dial, ForceSingleClient: true, DisableCache: true})
		if err != nil {
			panic(err)
		}
		builder = cl
	}
	return builder
}

// ---------------------------------------------------------------------------------------------
// method table

type method struct {
	name  string
	gen   func(r *gen.Rand) A
	call  func(c compat.Cmdable, a A) compat.Cmder
	coq   func(a A) string
	ref   func(a A) Ref
	kind  func(a A) string               // method name reported (families: ExpireNX …); default = name
	class func(a A) (site, class string) // known-difference class of these arguments ("" = none)
}

var methods []method
var byName = map[string]*method{}

func register(m method) { methods = append(methods, m) }

// ---------------------------------------------------------------------------------------------
// normal form for the direct oracle

var setOpt1 = map[string]bool{"NX": true, "XX": true, "KEEPTTL": true, "GET": true}
var setOpt2 = map[string]bool{"EX": true, "PX": true, "EXAT": true, "PXAT": true}

// canonSet orders the options of a SET command (input: upper-cased keyword flags known per token)
func canonSet(toks []Tok) []Tok {
	if len(toks) < 3 || !toks[0].K || strings.ToUpper(toks[0].S) != "SET" {
		return toks
	}
	head, rest := toks[:3], toks[3:]
	var flags []string
	var exp []Tok
	var other []Tok
	for i := 0; i < len(rest); i++ {
		u := strings.ToUpper(rest[i].S)
		switch {
		case rest[i].K && setOpt1[u]:
			flags = append(flags, u)
		case rest[i].K && setOpt2[u] && i+1 < len(rest) && exp == nil:
			exp = []Tok{{true, u}, rest[i+1]}
			i++
		default:
			other = append(other, rest[i])
		}
	}
	sort.Slice(flags, func(i, j int) bool {
		order := map[string]int{"NX": 0, "XX": 1, "KEEPTTL": 2, "GET": 4}
		return order[flags[i]] < order[flags[j]]
	})
	out := append([]Tok(nil), head...)
	var pre, post []Tok
	for _, f := range flags {
		if f == "GET" {
			post = append(post, Tok{true, f})
		} else {
			pre = append(pre, Tok{true, f})
		}
	}
	out = append(out, pre...)
	out = append(out, exp...)
	out = append(out, post...)
	return append(out, other...)
}

// tagAdapter gives the adapter's raw argv the tags of the reference where the shapes agree; the default
// "=" after MAXLEN/MINID is dropped first. Returns "" when equal under the normal form.
func compareNorm(raw []string, ref []Tok) string {
	var a []string
	for i, s := range raw {
		if s == "=" && i > 0 && (strings.EqualFold(raw[i-1], "MAXLEN") || strings.EqualFold(raw[i-1], "MINID")) {
			continue
		}
		a = append(a, s)
	}
	// SET: canonical option order on both sides (keywords of the adapter side are recognised by spelling)
	if len(a) >= 3 && strings.EqualFold(a[0], "SET") {
		at := make([]Tok, len(a))
		for i, s := range a {
			u := strings.ToUpper(s)
			at[i] = Tok{i == 0 || (i >= 3 && (setOpt1[u] || setOpt2[u])), s}
			if i >= 4 && setOpt2[strings.ToUpper(a[i-1])] && at[i-1].K {
				at[i].K = false // the value of EX/PX/EXAT/PXAT
			}
		}
		at = canonSet(at)
		for i := range at {
			a[i] = at[i].S
		}
		ref = canonSet(ref)
	}
	if len(a) != len(ref) {
		return fmt.Sprintf("adapter sends %q, go-redis sends %s", raw, showToks(ref))
	}
	for i := range a {
		if ref[i].K {
			if !strings.EqualFold(a[i], ref[i].S) {
				return fmt.Sprintf("token %d: adapter %q, go-redis keyword %q (adapter %q, go-redis %s)", i, a[i], ref[i].S, raw, showToks(ref))
			}
		} else if a[i] != ref[i].S {
			return fmt.Sprintf("token %d: adapter %q, go-redis %q (adapter %q, go-redis %s)", i, a[i], ref[i].S, raw, showToks(ref))
		}
	}
	return ""
}

func showToks(ts []Tok) string {
	ss := make([]string, len(ts))
	for i, t := range ts {
		ss[i] = t.S
	}
	return fmt.Sprintf("%q", ss)
}

// ---------------------------------------------------------------------------------------------

func run(ci any) (res obs.Result) {
	a := ci.(A)
	m := byName[a.M]
	if m == nil {
		res.Oracle = "harness: unknown method " + a.M
		return
	}
	res.Kind = m.name
	if m.kind != nil {
		res.Kind = m.kind(a)
	}
	rc := &recClient{Client: builderClient()}
	ad := compat.NewAdapter(rc)
	var cm compat.Cmder
	pan := true
	func() {
		defer func() {
			if pan {
				_ = recover()
			}
		}()
		cm = m.call(ad, a)
		pan = false
	}()
	// outcome of the implementation
	impl := ""
	switch {
	case pan:
		impl = obs.Panic
		if len(rc.argv) != 0 {
			res.Oracle = fmt.Sprintf("%s panicked after sending %q", res.Kind, rc.argv)
		}
	case len(rc.argv) == 0:
		impl = obs.Err(1)
		if cm == nil || reflect.ValueOf(cm).IsNil() || cm.Err() == nil {
			res.Oracle = fmt.Sprintf("%s sent nothing and its Cmd carries no error", res.Kind)
		}
	case len(rc.argv) == 1:
		impl = obs.Ok(obs.ListOf(rc.argv[0], obs.HS))
	default:
		impl = obs.Ok(obs.ListOf(rc.argv[0], obs.HS))
		res.Oracle = fmt.Sprintf("%s issued %d commands: %q", res.Kind, len(rc.argv), rc.argv)
	}
	res.Coq = obs.App("CArgs", m.coq(a), impl)
	res.Obs = map[string]any{"argv": rc.argv, "panicked": pan}
	res.Sig = fmt.Sprint(a)
	res.Nontrivial = len(rc.argv) == 1
	res.Site, res.Class = "rueidiscompat/adapter.go:"+m.name, "argv-differs"
	if res.Oracle != "" {
		return
	}
	// direct oracle: the go-redis reference
	ref := m.ref(a)
	diff := ""
	switch ref.Status {
	case refUncertain:
		return
	case refNothing:
		if len(rc.argv) != 0 {
			diff = fmt.Sprintf("adapter sends %q, go-redis sends nothing (error or panic)", rc.argv[0])
		}
	case refSent:
		if len(rc.argv) == 0 {
			diff = fmt.Sprintf("adapter sends nothing (panicked=%v), go-redis sends %s", pan, showToks(ref.Toks))
		} else {
			diff = compareNorm(rc.argv[0], ref.Toks)
		}
	}
	if diff != "" {
		res.Oracle = res.Kind + ": " + diff
		if m.class != nil {
			if site, cl := m.class(a); cl != "" {
				res.Site, res.Class = site, cl
			}
		}
	} else if m.class != nil {
		if _, cl := m.class(a); cl != "" {
			// inside a known-difference class the two must differ (the class is proved exact)
			res.Oracle = fmt.Sprintf("%s: arguments are in the known-difference class %q but adapter and go-redis agree", res.Kind, cl)
			res.Class = "class-too-wide"
		}
	}
	return
}

var genIdx int

func genCase(r *gen.Rand, i int) any {
	// round-robin over the methods so that every listed method is compared in every run
	m := methods[genIdx%len(methods)]
	genIdx++
	a := m.gen(r)
	a.M = m.name
	return a
}

func main() {
	registerAll()
	for i := range methods {
		byName[methods[i].name] = &methods[i]
	}
	obs.Main(obs.Runner{
		Name: "obs_compatargs", Salt: 42,
		Gen: genCase,
		Decode: func(raw json.RawMessage) (any, error) {
			var a A
			err := json.Unmarshal(raw, &a)
			return a, err
		},
		Run: run,
		Extra: func(emit func(rec map[string]any)) {
			names := make([]string, len(methods))
			for i, m := range methods {
				names[i] = m.name
			}
			emit(map[string]any{"k": "compatargs-methods", "families": len(methods), "list": names})
		},
	})
}

// ---------------------------------------------------------------------------------------------
// generators of primitive arguments

var keyPool = []string{"k", "key:1", "{t}a", "a b", "", "K"}
var strPool = []string{"v", "", "hello world", "0", "-1", "*", "1-0", "$", "nx", "\r\n", "é"}

func gKey(r *gen.Rand) string { return gen.Pick(r, keyPool) }
func gStr(r *gen.Rand) string { return gen.Pick(r, strPool) }
func gInt(r *gen.Rand) int64 {
	return gen.Pick(r, []int64{0, 0, 1, 1, 2, -1, 5, 10, 100, -7, 9223372036854775807, -9223372036854775808})
}
func gDur(r *gen.Rand) int64 {
	return int64(gen.Pick(r, []time.Duration{0, 0, -1, 1, 999 * time.Microsecond, time.Millisecond, 1500 * time.Microsecond, 500 * time.Millisecond,
		999999999, time.Second, 1500 * time.Millisecond, 2 * time.Second, 90 * time.Second, time.Hour, -5 * time.Second, -time.Millisecond, -2}))
}
func gFloat(r *gen.Rand) float64 {
	return gen.Pick(r, []float64{0, 1, 1.5, -3.25, 122.4194, 37.7749, 1e21, 1e-7, 200, -0.5, 100})
}
func gAV(r *gen.Rand) AV {
	switch r.Intn(6) {
	case 0:
		return AV{T: "int", I: gInt(r)}
	case 1:
		return AV{T: "bool", B: r.Bool()}
	case 2:
		return AV{T: "nil"}
	}
	return AV{T: "str", S: gStr(r)}
}
func gKeys(r *gen.Rand, max int) []string {
	n := r.Size(max, 1, 2)
	out := make([]string, n)
	for i := range out {
		out[i] = gKey(r)
	}
	return out
}
func gAVs(r *gen.Rand, max int) []AV {
	n := r.Size(max, 2)
	out := make([]AV, n)
	for i := range out {
		out[i] = gAV(r)
	}
	return out
}

func dur(ns int64) time.Duration { return time.Duration(ns) }

// Gallina printers
func cS(s string) string   { return obs.HS(s) }
func cZ(i int64) string    { return obs.Z(i) }
func cB(b bool) string     { return obs.Bool(b) }
func cL(l []string) string { return obs.ListOf(l, obs.HS) }
func cZL(l []int64) string { return obs.ListOf(l, obs.Z) }
func cVL(l []AV) string    { return obs.ListOf(l, AV.coq) }
func cF(f float64) string {
	return "(" + obs.HS(strconv.FormatFloat(f, 'f', -1, 64)) + ", " + obs.Bool(f > 0) + ")"
}
func cN(u uint64) string               { return obs.N(u) + "%N" }
func app(f string, a ...string) string { return obs.App(f, a...) }

// go-redis helpers (commands.go)
func usePrecise(d time.Duration) bool { return d < time.Second || d%time.Second != 0 }
func formatMs(d time.Duration) int64 {
	if d > 0 && d < time.Millisecond {
		return 1
	}
	return int64(d / time.Millisecond)
}
func formatSec(d time.Duration) int64 {
	if d > 0 && d < time.Second {
		return 1
	}
	return int64(d / time.Second)
}
func expiry(d time.Duration) []Tok {
	if usePrecise(d) {
		return T(kw("px"), di(formatMs(d)))
	}
	return T(kw("ex"), di(formatSec(d)))
}
