package main

// Per method family: argument generator, the adapter call, the Gallina term of GoRedisSpec.call, and the
// go-redis v9 reference (transcribed from go-redis' commands.go / *_commands.go; see docs/compat.md for the
// certainty of each transcription). "uncertain" = outside the argument range the specification is sure of.

import (
	"strings"
	"time"

	compat "github.com/redis/rueidis/rueidiscompat"

	"verifharness/gen"
)

const siteA = "rueidiscompat/adapter.go:"

func subMs(ns int64) bool { return ns > 0 && ns < int64(time.Millisecond) }

func registerAll() {
	// ---------------- strings and keys ----------------
	register(method{name: "Set",
		gen:  func(r *gen.Rand) A { return A{S: []string{gKey(r)}, V: []AV{gAV(r)}, I: []int64{gDur(r)}} },
		call: func(c compat.Cmdable, a A) compat.Cmder { return c.Set(ctx, a.S[0], a.V[0].any(), dur(a.I[0])) },
		coq:  func(a A) string { return app("MSet", cS(a.S[0]), a.V[0].coq(), cZ(a.I[0])) },
		ref: func(a A) Ref {
			e := dur(a.I[0])
			var tail []Tok
			if e > 0 {
				tail = expiry(e)
			} else if e == -1 {
				tail = T(kw("keepttl"))
			}
			return sent(T(kw("set"), d(a.S[0]), d(a.V[0].text())), tail)
		}})
	register(method{name: "SetArgs",
		gen: func(r *gen.Rand) A {
			a := A{S: []string{gKey(r), gen.Pick(r, []string{"", "", "NX", "XX", "nx", "xX", "GT", "bogus"})}, V: []AV{gAV(r)},
				I: []int64{gDur(r)}, B: []bool{r.Bool(), r.Chance(1, 3)}}
			if r.Chance(1, 3) {
				t := 1700000000 + gInt(r)%1000
				a.T = &t
			}
			return a
		},
		call: func(c compat.Cmdable, a A) compat.Cmder {
			sa := compat.SetArgs{Mode: a.S[1], TTL: dur(a.I[0]), Get: a.B[0], KeepTTL: a.B[1]}
			if a.T != nil {
				sa.ExpireAt = time.Unix(*a.T, 0)
			}
			return c.SetArgs(ctx, a.S[0], a.V[0].any(), sa)
		},
		coq: func(a A) string {
			t := "None"
			if a.T != nil {
				t = "(Some " + cZ(*a.T) + ")"
			}
			return app("MSetArgs", cS(a.S[0]), a.V[0].coq(), app("mkSetArgs", cS(a.S[1]), cZ(a.I[0]), t, cB(a.B[0]), cB(a.B[1])))
		},
		ref: func(a A) Ref {
			var t []Tok
			t = append(t, kw("set"), d(a.S[0]), d(a.V[0].text()))
			t = append(t, If(a.B[1], kw("keepttl"))...)
			if a.T != nil {
				t = append(t, kw("exat"), di(*a.T))
			}
			if dur(a.I[0]) > 0 {
				t = append(t, expiry(dur(a.I[0]))...)
			}
			t = append(t, If(a.S[1] != "", kw(a.S[1]))...)
			t = append(t, If(a.B[0], kw("get"))...)
			return Ref{refSent, t}
		},
		class: func(a A) (string, string) {
			u := strings.ToUpper(a.S[1])
			if u != "" && u != "NX" && u != "XX" {
				return siteA + "SetArgs", "invalid-mode-panics"
			}
			return "", ""
		}})
	register(method{name: "SetEX",
		gen:  func(r *gen.Rand) A { return A{S: []string{gKey(r)}, V: []AV{gAV(r)}, I: []int64{gDur(r)}} },
		call: func(c compat.Cmdable, a A) compat.Cmder { return c.SetEX(ctx, a.S[0], a.V[0].any(), dur(a.I[0])) },
		coq:  func(a A) string { return app("MSetEX", cS(a.S[0]), a.V[0].coq(), cZ(a.I[0])) },
		ref: func(a A) Ref {
			return sent(T(kw("setex"), d(a.S[0]), di(formatSec(dur(a.I[0]))), d(a.V[0].text())))
		}})
	register(method{name: "SetNX",
		gen:  func(r *gen.Rand) A { return A{S: []string{gKey(r)}, V: []AV{gAV(r)}, I: []int64{gDur(r)}} },
		call: func(c compat.Cmdable, a A) compat.Cmder { return c.SetNX(ctx, a.S[0], a.V[0].any(), dur(a.I[0])) },
		coq:  func(a A) string { return app("MSetNX", cS(a.S[0]), a.V[0].coq(), cZ(a.I[0])) },
		ref: func(a A) Ref {
			e := dur(a.I[0])
			switch e {
			case 0:
				return sent(T(kw("setnx"), d(a.S[0]), d(a.V[0].text())))
			case -1:
				return sent(T(kw("set"), d(a.S[0]), d(a.V[0].text()), kw("keepttl"), kw("nx")))
			}
			return sent(T(kw("set"), d(a.S[0]), d(a.V[0].text())), expiry(e), T(kw("nx")))
		}})
	register(method{name: "SetXX",
		gen:  func(r *gen.Rand) A { return A{S: []string{gKey(r)}, V: []AV{gAV(r)}, I: []int64{gDur(r)}} },
		call: func(c compat.Cmdable, a A) compat.Cmder { return c.SetXX(ctx, a.S[0], a.V[0].any(), dur(a.I[0])) },
		coq:  func(a A) string { return app("MSetXX", cS(a.S[0]), a.V[0].coq(), cZ(a.I[0])) },
		ref: func(a A) Ref {
			e := dur(a.I[0])
			if e > 0 {
				return sent(T(kw("set"), d(a.S[0]), d(a.V[0].text())), expiry(e), T(kw("xx")))
			} else if e == -1 {
				return sent(T(kw("set"), d(a.S[0]), d(a.V[0].text()), kw("keepttl"), kw("xx")))
			}
			return sent(T(kw("set"), d(a.S[0]), d(a.V[0].text()), kw("xx")))
		}})
	register(method{name: "GetEx",
		gen:  func(r *gen.Rand) A { return A{S: []string{gKey(r)}, I: []int64{gDur(r)}} },
		call: func(c compat.Cmdable, a A) compat.Cmder { return c.GetEx(ctx, a.S[0], dur(a.I[0])) },
		coq:  func(a A) string { return app("MGetEx", cS(a.S[0]), cZ(a.I[0])) },
		ref: func(a A) Ref {
			e := dur(a.I[0])
			var tail []Tok
			if e > 0 {
				tail = expiry(e)
			} else if e == 0 {
				tail = T(kw("persist"))
			}
			return sent(T(kw("getex"), d(a.S[0])), tail)
		},
		class: func(a A) (string, string) {
			if a.I[0] == 0 {
				return siteA + "GetEx", "zero-expiration-no-persist"
			}
			return "", ""
		}})
	emodes := []string{"EmNone", "EmNX", "EmXX", "EmGT", "EmLT"}
	register(method{name: "Expire",
		gen: func(r *gen.Rand) A { return A{S: []string{gKey(r)}, I: []int64{gDur(r), int64(r.Intn(5))}} },
		call: func(c compat.Cmdable, a A) compat.Cmder {
			switch a.I[1] {
			case 1:
				return c.ExpireNX(ctx, a.S[0], dur(a.I[0]))
			case 2:
				return c.ExpireXX(ctx, a.S[0], dur(a.I[0]))
			case 3:
				return c.ExpireGT(ctx, a.S[0], dur(a.I[0]))
			case 4:
				return c.ExpireLT(ctx, a.S[0], dur(a.I[0]))
			}
			return c.Expire(ctx, a.S[0], dur(a.I[0]))
		},
		kind: func(a A) string { return "Expire" + []string{"", "NX", "XX", "GT", "LT"}[a.I[1]] },
		coq:  func(a A) string { return app("MExpire", emodes[a.I[1]], cS(a.S[0]), cZ(a.I[0])) },
		ref: func(a A) Ref {
			m := []string{"", "NX", "XX", "GT", "LT"}[a.I[1]]
			return sent(T(kw("expire"), d(a.S[0]), di(formatSec(dur(a.I[0])))), If(m != "", kw(m)))
		}})
	register(method{name: "PExpire",
		gen:  func(r *gen.Rand) A { return A{S: []string{gKey(r)}, I: []int64{gDur(r)}} },
		call: func(c compat.Cmdable, a A) compat.Cmder { return c.PExpire(ctx, a.S[0], dur(a.I[0])) },
		coq:  func(a A) string { return app("MPExpire", cS(a.S[0]), cZ(a.I[0])) },
		ref:  func(a A) Ref { return sent(T(kw("pexpire"), d(a.S[0]), di(formatMs(dur(a.I[0]))))) }})
	gTime := func(r *gen.Rand) int64 {
		return gen.Pick(r, []int64{0, 1, 999999999, 1000000000, 1724164643123456789, 1700000000000000000, -1, -1500000000, 1500000})
	}
	register(method{name: "ExpireAt",
		gen:  func(r *gen.Rand) A { return A{S: []string{gKey(r)}, I: []int64{gTime(r)}} },
		call: func(c compat.Cmdable, a A) compat.Cmder { return c.ExpireAt(ctx, a.S[0], time.Unix(0, a.I[0])) },
		coq:  func(a A) string { return app("MExpireAt", cS(a.S[0]), cZ(a.I[0])) },
		ref:  func(a A) Ref { return sent(T(kw("expireat"), d(a.S[0]), di(time.Unix(0, a.I[0]).Unix()))) }})
	register(method{name: "PExpireAt",
		gen:  func(r *gen.Rand) A { return A{S: []string{gKey(r)}, I: []int64{gTime(r)}} },
		call: func(c compat.Cmdable, a A) compat.Cmder { return c.PExpireAt(ctx, a.S[0], time.Unix(0, a.I[0])) },
		coq:  func(a A) string { return app("MPExpireAt", cS(a.S[0]), cZ(a.I[0])) },
		ref: func(a A) Ref {
			return sent(T(kw("pexpireat"), d(a.S[0]), di(time.Unix(0, a.I[0]).UnixNano()/int64(time.Millisecond))))
		}})
	register(method{name: "Copy",
		gen:  func(r *gen.Rand) A { return A{S: []string{gKey(r), gKey(r)}, I: []int64{gInt(r)}, B: []bool{r.Bool()}} },
		call: func(c compat.Cmdable, a A) compat.Cmder { return c.Copy(ctx, a.S[0], a.S[1], a.I[0], a.B[0]) },
		coq:  func(a A) string { return app("MCopy", cS(a.S[0]), cS(a.S[1]), cZ(a.I[0]), cB(a.B[0])) },
		ref: func(a A) Ref {
			return sent(T(kw("copy"), d(a.S[0]), d(a.S[1]), kw("DB"), di(a.I[0])), If(a.B[0], kw("REPLACE")))
		}})
	register(method{name: "Restore",
		gen: func(r *gen.Rand) A { return A{S: []string{gKey(r), gStr(r)}, I: []int64{gDur(r)}, B: []bool{r.Bool()}} },
		call: func(c compat.Cmdable, a A) compat.Cmder {
			if a.B[0] {
				return c.RestoreReplace(ctx, a.S[0], dur(a.I[0]), a.S[1])
			}
			return c.Restore(ctx, a.S[0], dur(a.I[0]), a.S[1])
		},
		kind: func(a A) string {
			if a.B[0] {
				return "RestoreReplace"
			}
			return "Restore"
		},
		coq: func(a A) string { return app("MRestore", cB(a.B[0]), cS(a.S[0]), cZ(a.I[0]), cS(a.S[1])) },
		ref: func(a A) Ref {
			return sent(T(kw("restore"), d(a.S[0]), di(formatMs(dur(a.I[0]))), d(a.S[1])), If(a.B[0], kw("replace")))
		}})
	register(method{name: "Migrate",
		gen: func(r *gen.Rand) A { return A{S: []string{"host", gKey(r)}, I: []int64{6379, gInt(r) % 16, gDur(r)}} },
		call: func(c compat.Cmdable, a A) compat.Cmder {
			return c.Migrate(ctx, a.S[0], a.I[0], a.S[1], a.I[1], dur(a.I[2]))
		},
		coq: func(a A) string { return app("MMigrate", cS(a.S[0]), cZ(a.I[0]), cS(a.S[1]), cZ(a.I[1]), cZ(a.I[2])) },
		ref: func(a A) Ref {
			return sent(T(kw("migrate"), d(a.S[0]), di(a.I[0]), d(a.S[1]), di(a.I[1]), di(formatMs(dur(a.I[2])))))
		},
		class: func(a A) (string, string) {
			if formatMs(dur(a.I[2])) != formatSec(dur(a.I[2])) {
				return siteA + "Migrate", "timeout-in-seconds"
			}
			return "", ""
		}})
	register(method{name: "BitCount",
		gen: func(r *gen.Rand) A {
			return A{S: []string{gKey(r), gen.Pick(r, []string{"", "", "BYTE", "BIT", "byte", "bit", "x"})}, I: []int64{gInt(r), gInt(r)}, N: r.Chance(1, 4)}
		},
		call: func(c compat.Cmdable, a A) compat.Cmder {
			if a.N {
				return c.BitCount(ctx, a.S[0], nil)
			}
			return c.BitCount(ctx, a.S[0], &compat.BitCount{Unit: a.S[1], Start: a.I[0], End: a.I[1]})
		},
		coq: func(a A) string {
			if a.N {
				return app("MBitCount", cS(a.S[0]), "None")
			}
			return app("MBitCount", cS(a.S[0]), "(Some "+app("mkBitCount", cS(a.S[1]), cZ(a.I[0]), cZ(a.I[1]))+")")
		},
		ref: func(a A) Ref {
			if a.N {
				return sent(T(kw("bitcount"), d(a.S[0])))
			}
			if a.S[1] == "" {
				return sent(T(kw("bitcount"), d(a.S[0]), di(a.I[0]), di(a.I[1])))
			}
			if a.S[1] != "BYTE" && a.S[1] != "BIT" {
				return Ref{Status: refNothing}
			}
			return sent(T(kw("bitcount"), d(a.S[0]), di(a.I[0]), di(a.I[1]), kw(a.S[1])))
		}})
	register(method{name: "BitPos",
		gen: func(r *gen.Rand) A {
			n := r.Intn(4)
			il := make([]int64, n)
			for i := range il {
				il[i] = gInt(r)
			}
			return A{S: []string{gKey(r)}, I: []int64{int64(r.Intn(2))}, IL: il}
		},
		call: func(c compat.Cmdable, a A) compat.Cmder { return c.BitPos(ctx, a.S[0], a.I[0], a.IL...) },
		coq:  func(a A) string { return app("MBitPos", cS(a.S[0]), cZ(a.I[0]), cZL(a.IL)) },
		ref: func(a A) Ref {
			if len(a.IL) > 2 {
				return Ref{Status: refNothing}
			}
			t := T(kw("bitpos"), d(a.S[0]), di(a.I[0]))
			for _, p := range a.IL {
				t = append(t, di(p))
			}
			return Ref{refSent, t}
		}})
	register(method{name: "BitPosSpan",
		gen: func(r *gen.Rand) A {
			return A{S: []string{gKey(r), gen.Pick(r, []string{"bit", "byte", "BIT", "BYTE", "Bit", "", "x"})}, I: []int64{int64(r.Intn(2)), gInt(r), gInt(r)}}
		},
		call: func(c compat.Cmdable, a A) compat.Cmder {
			return c.BitPosSpan(ctx, a.S[0], a.I[0], a.I[1], a.I[2], a.S[1])
		},
		coq: func(a A) string {
			return app("MBitPosSpan", cS(a.S[0]), cZ(a.I[0]), cZ(a.I[1]), cZ(a.I[2]), cS(a.S[1]))
		},
		ref: func(a A) Ref {
			if l := strings.ToLower(a.S[1]); l != "bit" && l != "byte" {
				return Ref{Status: refUncertain} // go-redis passes the span through; the adapter falls back to BYTE
			}
			return sent(T(kw("bitpos"), d(a.S[0]), di(a.I[0]), di(a.I[1]), di(a.I[2]), kw(a.S[1])))
		}})
	register(method{name: "BitField",
		gen: func(r *gen.Rand) A { return A{S: []string{gKey(r)}, V: gAVs(r, 6)} },
		call: func(c compat.Cmdable, a A) compat.Cmder {
			args := make([]any, len(a.V))
			for i, v := range a.V {
				args[i] = v.any()
			}
			return c.BitField(ctx, a.S[0], args...)
		},
		coq: func(a A) string { return app("MBitField", cS(a.S[0]), cVL(a.V)) },
		ref: func(a A) Ref { return sent(T(kw("bitfield"), d(a.S[0])), dv(a.V)) }})
	register(method{name: "Sort",
		gen: func(r *gen.Rand) A {
			return A{S: []string{gKey(r), gen.Pick(r, []string{"", "by*", "w_*"}), gen.Pick(r, []string{"", "", "ASC", "DESC", "asc", "Desc", "up"}), gKey(r)},
				L: gKeys(r, 3), I: []int64{gen.Pick(r, []int64{0, 0, 1, 5}), gen.Pick(r, []int64{0, 0, 2, -1}), int64(r.Intn(4))}, B: []bool{r.Bool()}}
		},
		call: func(c compat.Cmdable, a A) compat.Cmder {
			s := compat.Sort{By: a.S[1], Order: a.S[2], Get: a.L, Offset: a.I[0], Count: a.I[1], Alpha: a.B[0]}
			switch a.I[2] {
			case 1:
				return c.SortRO(ctx, a.S[0], s)
			case 2:
				return c.SortStore(ctx, a.S[0], a.S[3], s)
			case 3:
				return c.SortInterfaces(ctx, a.S[0], s)
			}
			return c.Sort(ctx, a.S[0], s)
		},
		kind: func(a A) string { return []string{"Sort", "SortRO", "SortStore", "SortInterfaces"}[a.I[2]] },
		coq: func(a A) string {
			w := []string{"SortPlain", "SortRO", "(SortStore " + cS(a.S[3]) + ")", "SortPlain"}[a.I[2]]
			return app("MSort", w, cS(a.S[0]), app("mkSort", cS(a.S[1]), cS(a.S[2]), cL(a.L), cZ(a.I[0]), cZ(a.I[1]), cB(a.B[0])))
		},
		ref: func(a A) Ref {
			if a.I[2] == 2 && a.S[3] == "" {
				return Ref{Status: refUncertain} // go-redis omits STORE for an empty destination
			}
			cmd := "sort"
			if a.I[2] == 1 {
				cmd = "sort_ro"
			}
			t := T(kw(cmd), d(a.S[0]))
			t = append(t, If(a.S[1] != "", kw("by"), d(a.S[1]))...)
			t = append(t, If(a.I[0] != 0 || a.I[1] != 0, kw("limit"), di(a.I[0]), di(a.I[1]))...)
			for _, g := range a.L {
				t = append(t, kw("get"), d(g))
			}
			t = append(t, If(a.S[2] != "", kw(a.S[2]))...)
			t = append(t, If(a.B[0], kw("alpha"))...)
			t = append(t, If(a.I[2] == 2, kw("store"), d(a.S[3]))...)
			return Ref{refSent, t}
		},
		class: func(a A) (string, string) {
			if u := strings.ToUpper(a.S[2]); u != "" && u != "ASC" && u != "DESC" && !(a.I[2] == 2 && a.S[3] == "") {
				return siteA + "sort", "invalid-order-panics"
			}
			return "", ""
		}})
	gCursor := func(r *gen.Rand) uint64 {
		return gen.Pick(r, []uint64{0, 0, 17, 1 << 62, 1 << 63, 1<<63 + 5, 1<<64 - 1, 9223372036854775807})
	}
	scanTail := func(match string, count int64) []Tok {
		return append(If(match != "", kw("match"), d(match)), If(count > 0, kw("count"), di(count))...)
	}
	register(method{name: "Scan",
		gen: func(r *gen.Rand) A {
			return A{U: gCursor(r), S: []string{gen.Pick(r, []string{"", "*", "k*"})}, I: []int64{gInt(r)}}
		},
		call: func(c compat.Cmdable, a A) compat.Cmder { return c.Scan(ctx, a.U, a.S[0], a.I[0]) },
		coq:  func(a A) string { return app("MScan", cN(a.U), cS(a.S[0]), cZ(a.I[0])) },
		ref: func(a A) Ref {
			if a.U >= 1<<63 {
				return Ref{Status: refUncertain} // the adapter prints int64(cursor): whether Redis accepts the negative spelling depends on its version
			}
			return sent(T(kw("scan"), du(a.U)), scanTail(a.S[0], a.I[0]))
		}})
	register(method{name: "ScanType",
		gen: func(r *gen.Rand) A {
			return A{U: gCursor(r), S: []string{gen.Pick(r, []string{"", "*", "k*"}), gen.Pick(r, []string{"", "string", "zset", "x"})}, I: []int64{gInt(r)}}
		},
		call: func(c compat.Cmdable, a A) compat.Cmder { return c.ScanType(ctx, a.U, a.S[0], a.I[0], a.S[1]) },
		coq:  func(a A) string { return app("MScanType", cN(a.U), cS(a.S[0]), cZ(a.I[0]), cS(a.S[1])) },
		ref: func(a A) Ref {
			if a.U >= 1<<63 {
				return Ref{Status: refUncertain}
			}
			return sent(T(kw("scan"), du(a.U)), scanTail(a.S[0], a.I[0]), If(a.S[1] != "", kw("type"), d(a.S[1])))
		}})
	register(method{name: "KScan",
		gen: func(r *gen.Rand) A {
			return A{U: gCursor(r), S: []string{gKey(r), gen.Pick(r, []string{"", "*", "f*"})}, I: []int64{gInt(r), int64(r.Intn(4))}}
		},
		call: func(c compat.Cmdable, a A) compat.Cmder {
			switch a.I[1] {
			case 1:
				return c.HScan(ctx, a.S[0], a.U, a.S[1], a.I[0])
			case 2:
				return c.HScanNoValues(ctx, a.S[0], a.U, a.S[1], a.I[0])
			case 3:
				return c.ZScan(ctx, a.S[0], a.U, a.S[1], a.I[0])
			}
			return c.SScan(ctx, a.S[0], a.U, a.S[1], a.I[0])
		},
		kind: func(a A) string { return []string{"SScan", "HScan", "HScanNoValues", "ZScan"}[a.I[1]] },
		coq: func(a A) string {
			return app("MKScan", []string{"KSScan", "KHScan", "KHScanNoValues", "KZScan"}[a.I[1]], cS(a.S[0]), cN(a.U), cS(a.S[1]), cZ(a.I[0]))
		},
		ref: func(a A) Ref {
			if a.U >= 1<<63 {
				return Ref{Status: refUncertain}
			}
			cmd := []string{"sscan", "hscan", "hscan", "zscan"}[a.I[1]]
			return sent(T(kw(cmd), d(a.S[0]), du(a.U)), scanTail(a.S[1], a.I[0]), If(a.I[1] == 2, kw("novalues")))
		}})
	register(method{name: "MemoryUsage",
		gen: func(r *gen.Rand) A {
			n := r.Intn(3)
			il := make([]int64, n)
			for i := range il {
				il[i] = gInt(r)
			}
			return A{S: []string{gKey(r)}, IL: il}
		},
		call: func(c compat.Cmdable, a A) compat.Cmder { return c.MemoryUsage(ctx, a.S[0], a.IL...) },
		coq:  func(a A) string { return app("MMemoryUsage", cS(a.S[0]), cZL(a.IL)) },
		ref: func(a A) Ref {
			switch len(a.IL) {
			case 0:
				return sent(T(kw("memory"), kw("usage"), d(a.S[0])))
			case 1:
				return sent(T(kw("memory"), kw("usage"), d(a.S[0]), kw("samples"), di(a.IL[0])))
			}
			return Ref{Status: refNothing}
		}})

	// ---------------- lists ----------------
	lposTail := func(rank, maxlen int64) []Tok {
		return append(If(rank != 0, kw("rank"), di(rank)), If(maxlen != 0, kw("maxlen"), di(maxlen))...)
	}
	register(method{name: "LPos",
		gen: func(r *gen.Rand) A { return A{S: []string{gKey(r), gStr(r)}, I: []int64{gInt(r), gInt(r)}} },
		call: func(c compat.Cmdable, a A) compat.Cmder {
			return c.LPos(ctx, a.S[0], a.S[1], compat.LPosArgs{Rank: a.I[0], MaxLen: a.I[1]})
		},
		coq: func(a A) string { return app("MLPos", cS(a.S[0]), cS(a.S[1]), cZ(a.I[0]), cZ(a.I[1])) },
		ref: func(a A) Ref { return sent(T(kw("lpos"), d(a.S[0]), d(a.S[1])), lposTail(a.I[0], a.I[1])) }})
	register(method{name: "LPosCount",
		gen: func(r *gen.Rand) A { return A{S: []string{gKey(r), gStr(r)}, I: []int64{gInt(r), gInt(r), gInt(r)}} },
		call: func(c compat.Cmdable, a A) compat.Cmder {
			return c.LPosCount(ctx, a.S[0], a.S[1], a.I[0], compat.LPosArgs{Rank: a.I[1], MaxLen: a.I[2]})
		},
		coq: func(a A) string { return app("MLPosCount", cS(a.S[0]), cS(a.S[1]), cZ(a.I[0]), cZ(a.I[1]), cZ(a.I[2])) },
		ref: func(a A) Ref {
			return sent(T(kw("lpos"), d(a.S[0]), d(a.S[1]), kw("count"), di(a.I[0])), lposTail(a.I[1], a.I[2]))
		}})
	register(method{name: "LInsert",
		gen: func(r *gen.Rand) A {
			return A{S: []string{gKey(r), gen.Pick(r, []string{"BEFORE", "AFTER", "before", "After", "", "x"})}, V: []AV{gAV(r), gAV(r)}}
		},
		call: func(c compat.Cmdable, a A) compat.Cmder {
			return c.LInsert(ctx, a.S[0], a.S[1], a.V[0].any(), a.V[1].any())
		},
		coq: func(a A) string { return app("MLInsert", cS(a.S[0]), cS(a.S[1]), a.V[0].coq(), a.V[1].coq()) },
		ref: func(a A) Ref {
			return sent(T(kw("linsert"), d(a.S[0]), kw(a.S[1]), d(a.V[0].text()), d(a.V[1].text())))
		},
		class: func(a A) (string, string) {
			if u := strings.ToUpper(a.S[1]); u != "BEFORE" && u != "AFTER" {
				return siteA + "LInsert", "invalid-op-panics"
			}
			return "", ""
		}})
	register(method{name: "LInsertBA",
		gen: func(r *gen.Rand) A { return A{S: []string{gKey(r)}, V: []AV{gAV(r), gAV(r)}, B: []bool{r.Bool()}} },
		call: func(c compat.Cmdable, a A) compat.Cmder {
			if a.B[0] {
				return c.LInsertBefore(ctx, a.S[0], a.V[0].any(), a.V[1].any())
			}
			return c.LInsertAfter(ctx, a.S[0], a.V[0].any(), a.V[1].any())
		},
		kind: func(a A) string {
			if a.B[0] {
				return "LInsertBefore"
			}
			return "LInsertAfter"
		},
		coq: func(a A) string { return app("MLInsertBA", cB(a.B[0]), cS(a.S[0]), a.V[0].coq(), a.V[1].coq()) },
		ref: func(a A) Ref {
			op := "after"
			if a.B[0] {
				op = "before"
			}
			return sent(T(kw("linsert"), d(a.S[0]), kw(op), d(a.V[0].text()), d(a.V[1].text())))
		}})
	gDir := func(r *gen.Rand) string { return gen.Pick(r, []string{"LEFT", "RIGHT", "left", "Right"}) }
	register(method{name: "LMPop",
		gen:  func(r *gen.Rand) A { return A{S: []string{gDir(r)}, I: []int64{gInt(r)}, L: gKeys(r, 4)} },
		call: func(c compat.Cmdable, a A) compat.Cmder { return c.LMPop(ctx, a.S[0], a.I[0], a.L...) },
		coq:  func(a A) string { return app("MLMPop", cS(a.S[0]), cZ(a.I[0]), cL(a.L)) },
		ref: func(a A) Ref {
			if a.I[0] <= 0 {
				return Ref{Status: refUncertain} // go-redis always appends COUNT n; the adapter leaves it out for n <= 0
			}
			return sent(T(kw("lmpop"), di(int64(len(a.L)))), ds(a.L), T(kw(strings.ToLower(a.S[0])), kw("count"), di(a.I[0])))
		}})
	register(method{name: "BLMPop",
		gen:  func(r *gen.Rand) A { return A{S: []string{gDir(r)}, I: []int64{gInt(r), gDur(r)}, L: gKeys(r, 4)} },
		call: func(c compat.Cmdable, a A) compat.Cmder { return c.BLMPop(ctx, dur(a.I[1]), a.S[0], a.I[0], a.L...) },
		coq:  func(a A) string { return app("MBLMPop", cZ(a.I[1]), cS(a.S[0]), cZ(a.I[0]), cL(a.L)) },
		ref: func(a A) Ref {
			if a.I[0] <= 0 {
				return Ref{Status: refUncertain}
			}
			return sent(T(kw("blmpop"), di(formatSec(dur(a.I[1]))), di(int64(len(a.L)))), ds(a.L), T(kw(strings.ToLower(a.S[0])), kw("count"), di(a.I[0])))
		}})

	// ---------------- sorted sets ----------------
	gMembers := func(r *gen.Rand) []FMember {
		n := r.Size(5, 1, 2)
		out := make([]FMember, n)
		for i := range out {
			out[i] = FMember{A: gFloat(r), S: gStr(r)}
		}
		return out
	}
	zs := func(ms []FMember) []compat.Z {
		out := make([]compat.Z, len(ms))
		for i, m := range ms {
			out[i] = compat.Z{Score: m.A, Member: m.S}
		}
		return out
	}
	cMembers := func(ms []FMember) string {
		ss := make([]string, len(ms))
		for i, m := range ms {
			ss[i] = "(" + cF(m.A) + ", " + cS(m.S) + ")"
		}
		return "[" + strings.Join(ss, "; ") + "]"
	}
	zaddRef := func(key string, nx, xx, lt, gt, ch, incr bool, ms []FMember) Ref {
		t := T(kw("zadd"), d(key))
		if nx {
			t = append(t, kw("nx"))
		} else {
			t = append(t, If(xx, kw("xx"))...)
			if gt {
				t = append(t, kw("gt"))
			} else if lt {
				t = append(t, kw("lt"))
			}
		}
		t = append(t, If(ch, kw("ch"))...)
		t = append(t, If(incr, kw("incr"))...)
		for _, m := range ms {
			t = append(t, df(m.A), d(m.S))
		}
		return Ref{refSent, t}
	}
	register(method{name: "ZAdd",
		gen: func(r *gen.Rand) A { return A{S: []string{gKey(r)}, I: []int64{int64(r.Intn(5))}, FM: gMembers(r)} },
		call: func(c compat.Cmdable, a A) compat.Cmder {
			switch a.I[0] {
			case 1:
				return c.ZAddNX(ctx, a.S[0], zs(a.FM)...)
			case 2:
				return c.ZAddXX(ctx, a.S[0], zs(a.FM)...)
			case 3:
				return c.ZAddLT(ctx, a.S[0], zs(a.FM)...)
			case 4:
				return c.ZAddGT(ctx, a.S[0], zs(a.FM)...)
			}
			return c.ZAdd(ctx, a.S[0], zs(a.FM)...)
		},
		kind: func(a A) string { return "ZAdd" + []string{"", "NX", "XX", "LT", "GT"}[a.I[0]] },
		coq: func(a A) string {
			return app("MZAdd", []string{"ZaPlain", "ZaNX", "ZaXX", "ZaLT", "ZaGT"}[a.I[0]], cS(a.S[0]), cMembers(a.FM))
		},
		ref: func(a A) Ref {
			return zaddRef(a.S[0], a.I[0] == 1, a.I[0] == 2, a.I[0] == 3, a.I[0] == 4, false, false, a.FM)
		}})
	register(method{name: "ZAddArgs",
		gen: func(r *gen.Rand) A {
			return A{S: []string{gKey(r)}, B: []bool{r.Chance(1, 3), r.Chance(1, 3), r.Chance(1, 3), r.Chance(1, 3), r.Bool(), r.Bool()}, FM: gMembers(r)}
		},
		call: func(c compat.Cmdable, a A) compat.Cmder {
			za := compat.ZAddArgs{NX: a.B[0], XX: a.B[1], LT: a.B[2], GT: a.B[3], Ch: a.B[4], Members: zs(a.FM)}
			if a.B[5] {
				return c.ZAddArgsIncr(ctx, a.S[0], za)
			}
			return c.ZAddArgs(ctx, a.S[0], za)
		},
		kind: func(a A) string {
			if a.B[5] {
				return "ZAddArgsIncr"
			}
			return "ZAddArgs"
		},
		coq: func(a A) string {
			return app("MZAddArgs", cB(a.B[5]), cS(a.S[0]), app("mkZAdd", cB(a.B[0]), cB(a.B[1]), cB(a.B[2]), cB(a.B[3]), cB(a.B[4])), cMembers(a.FM))
		},
		ref: func(a A) Ref { return zaddRef(a.S[0], a.B[0], a.B[1], a.B[2], a.B[3], a.B[4], a.B[5], a.FM) }})
	gZRange := func(r *gen.Rand) A {
		by := r.Intn(3)
		var st, sp AV
		switch by {
		case 0:
			st, sp = AV{T: "int", I: gen.Pick(r, []int64{0, 1, -1, 4})}, AV{T: "int", I: gen.Pick(r, []int64{-1, 1, 4, 0})}
		case 1:
			st, sp = gen.Pick(r, []AV{{T: "int", I: 1}, {T: "str", S: "(1"}, {T: "str", S: "-inf"}, {T: "int", I: 4}}), gen.Pick(r, []AV{{T: "int", I: 4}, {T: "str", S: "+inf"}, {T: "int", I: 1}, {T: "str", S: "(1"}})
		default:
			st, sp = gen.Pick(r, []AV{{T: "str", S: "-"}, {T: "str", S: "[a"}, {T: "str", S: "+"}}), gen.Pick(r, []AV{{T: "str", S: "+"}, {T: "str", S: "(c"}, {T: "str", S: "-"}, {T: "str", S: "[a"}})
		}
		return A{S: []string{gKey(r), gKey(r)}, V: []AV{st, sp}, B: []bool{by == 1, by == 2 || (by == 1 && r.Chance(1, 8)), r.Bool(), r.Bool()},
			I: []int64{gen.Pick(r, []int64{0, 0, 1}), gen.Pick(r, []int64{0, 0, 2, -1})}}
	}
	zrangeOf := func(a A) compat.ZRangeArgs {
		return compat.ZRangeArgs{Key: a.S[0], Start: a.V[0].any(), Stop: a.V[1].any(), ByScore: a.B[0], ByLex: a.B[1], Rev: a.B[2], Offset: a.I[0], Count: a.I[1]}
	}
	cZRange := func(a A) string {
		return app("mkZRange", cS(a.S[0]), a.V[0].coq(), a.V[1].coq(), cB(a.B[0]), cB(a.B[1]), cB(a.B[2]), cZ(a.I[0]), cZ(a.I[1]))
	}
	zrangeRef := func(a A) []Tok {
		var t []Tok
		if a.B[2] && (a.B[0] || a.B[1]) {
			t = T(d(a.S[0]), d(a.V[1].text()), d(a.V[0].text()))
		} else {
			t = T(d(a.S[0]), d(a.V[0].text()), d(a.V[1].text()))
		}
		if a.B[0] {
			t = append(t, kw("byscore"))
		} else if a.B[1] {
			t = append(t, kw("bylex"))
		}
		t = append(t, If(a.B[2], kw("rev"))...)
		t = append(t, If(a.I[0] != 0 || a.I[1] != 0, kw("limit"), di(a.I[0]), di(a.I[1]))...)
		return t
	}
	zrangeClass := func(site string) func(a A) (string, string) {
		return func(a A) (string, string) {
			if a.B[2] && (a.B[0] || a.B[1]) && a.V[0].text() != a.V[1].text() {
				return siteA + site, "rev-by-start-stop-not-swapped"
			}
			return "", ""
		}
	}
	register(method{name: "ZRangeArgs",
		gen: gZRange,
		call: func(c compat.Cmdable, a A) compat.Cmder {
			if a.B[3] {
				return c.ZRangeArgsWithScores(ctx, zrangeOf(a))
			}
			return c.ZRangeArgs(ctx, zrangeOf(a))
		},
		kind: func(a A) string {
			if a.B[3] {
				return "ZRangeArgsWithScores"
			}
			return "ZRangeArgs"
		},
		coq:   func(a A) string { return app("MZRangeArgs", cB(a.B[3]), cZRange(a)) },
		ref:   func(a A) Ref { return sent(T(kw("zrange")), zrangeRef(a), If(a.B[3], kw("withscores"))) },
		class: zrangeClass("zRangeArgs")})
	register(method{name: "ZRangeStore",
		gen:   gZRange,
		call:  func(c compat.Cmdable, a A) compat.Cmder { return c.ZRangeStore(ctx, a.S[1], zrangeOf(a)) },
		coq:   func(a A) string { return app("MZRangeStore", cS(a.S[1]), cZRange(a)) },
		ref:   func(a A) Ref { return sent(T(kw("zrangestore"), d(a.S[1])), zrangeRef(a)) },
		class: zrangeClass("ZRangeStore")})
	register(method{name: "ZRangeBy",
		gen: func(r *gen.Rand) A {
			return A{S: []string{gKey(r), gen.Pick(r, []string{"-inf", "(1", "[a", "-"}), gen.Pick(r, []string{"+inf", "5", "(c", "+"})},
				I: []int64{gen.Pick(r, []int64{0, 0, 1}), gen.Pick(r, []int64{0, 0, 2, -1}), int64(r.Intn(6))}}
		},
		call: func(c compat.Cmdable, a A) compat.Cmder {
			o := compat.ZRangeBy{Min: a.S[1], Max: a.S[2], Offset: a.I[0], Count: a.I[1]}
			switch a.I[2] {
			case 1:
				return c.ZRangeByLex(ctx, a.S[0], o)
			case 2:
				return c.ZRangeByScoreWithScores(ctx, a.S[0], o)
			case 3:
				return c.ZRevRangeByScore(ctx, a.S[0], o)
			case 4:
				return c.ZRevRangeByLex(ctx, a.S[0], o)
			case 5:
				return c.ZRevRangeByScoreWithScores(ctx, a.S[0], o)
			}
			return c.ZRangeByScore(ctx, a.S[0], o)
		},
		kind: func(a A) string {
			return []string{"ZRangeByScore", "ZRangeByLex", "ZRangeByScoreWithScores", "ZRevRangeByScore", "ZRevRangeByLex", "ZRevRangeByScoreWithScores"}[a.I[2]]
		},
		coq: func(a A) string {
			return app("MZRangeBy", []string{"ZbScore", "ZbLex", "ZbScoreWS", "ZbRevScore", "ZbRevLex", "ZbRevScoreWS"}[a.I[2]], cS(a.S[0]),
				app("mkZRangeBy", cS(a.S[1]), cS(a.S[2]), cZ(a.I[0]), cZ(a.I[1])))
		},
		ref: func(a A) Ref {
			cmd := []string{"zrangebyscore", "zrangebylex", "zrangebyscore", "zrevrangebyscore", "zrevrangebylex", "zrevrangebyscore"}[a.I[2]]
			t := T(kw(cmd), d(a.S[0]))
			if a.I[2] >= 3 {
				t = append(t, d(a.S[2]), d(a.S[1]))
			} else {
				t = append(t, d(a.S[1]), d(a.S[2]))
			}
			t = append(t, If(a.I[2] == 2 || a.I[2] == 5, kw("withscores"))...)
			t = append(t, If(a.I[0] != 0 || a.I[1] != 0, kw("limit"), di(a.I[0]), di(a.I[1]))...)
			return Ref{refSent, t}
		}})
	gZStore := func(r *gen.Rand) A {
		n := r.Intn(4)
		w := make([]int64, n)
		for i := range w {
			w[i] = gen.Pick(r, []int64{1, 2, 0, -3})
		}
		return A{S: []string{gen.Pick(r, []string{"", "", "SUM", "min", "Max"}), gKey(r)}, L: gKeys(r, 4), IL: w, I: []int64{int64(r.Intn(4))}}
	}
	zstoreOf := func(a A) compat.ZStore { return compat.ZStore{Keys: a.L, Weights: a.IL, Aggregate: a.S[0]} }
	cZStore := func(a A) string { return app("mkZStore", cL(a.L), cZL(a.IL), cS(a.S[0])) }
	zstoreRef := func(a A) []Tok {
		t := ds(a.L)
		if len(a.IL) > 0 {
			t = append(t, kw("weights"))
			for _, w := range a.IL {
				t = append(t, di(w))
			}
		}
		return append(t, If(a.S[0] != "", kw("aggregate"), kw(a.S[0]))...)
	}
	register(method{name: "ZStoreOp",
		gen: gZStore,
		call: func(c compat.Cmdable, a A) compat.Cmder {
			switch a.I[0] {
			case 1:
				return c.ZInterWithScores(ctx, zstoreOf(a))
			case 2:
				return c.ZUnion(ctx, zstoreOf(a))
			case 3:
				return c.ZUnionWithScores(ctx, zstoreOf(a))
			}
			return c.ZInter(ctx, zstoreOf(a))
		},
		kind: func(a A) string { return []string{"ZInter", "ZInterWithScores", "ZUnion", "ZUnionWithScores"}[a.I[0]] },
		coq: func(a A) string {
			return app("MZStoreOp", []string{"ZsInter", "ZsInterWS", "ZsUnion", "ZsUnionWS"}[a.I[0]], cZStore(a))
		},
		ref: func(a A) Ref {
			cmd := []string{"zinter", "zinter", "zunion", "zunion"}[a.I[0]]
			return sent(T(kw(cmd), di(int64(len(a.L)))), zstoreRef(a), If(a.I[0]%2 == 1, kw("withscores")))
		}})
	register(method{name: "ZStoreTo",
		gen: gZStore,
		call: func(c compat.Cmdable, a A) compat.Cmder {
			if a.I[0]%2 == 1 {
				return c.ZUnionStore(ctx, a.S[1], zstoreOf(a))
			}
			return c.ZInterStore(ctx, a.S[1], zstoreOf(a))
		},
		kind: func(a A) string { return []string{"ZInterStore", "ZUnionStore"}[a.I[0]%2] },
		coq: func(a A) string {
			return app("MZStoreTo", []string{"ZtInter", "ZtUnion"}[a.I[0]%2], cS(a.S[1]), cZStore(a))
		},
		ref: func(a A) Ref {
			cmd := []string{"zinterstore", "zunionstore"}[a.I[0]%2]
			return sent(T(kw(cmd), d(a.S[1]), di(int64(len(a.L)))), zstoreRef(a))
		}})
	register(method{name: "ZDiff",
		gen: func(r *gen.Rand) A { return A{L: gKeys(r, 4), B: []bool{r.Bool()}} },
		call: func(c compat.Cmdable, a A) compat.Cmder {
			if a.B[0] {
				return c.ZDiffWithScores(ctx, a.L...)
			}
			return c.ZDiff(ctx, a.L...)
		},
		kind: func(a A) string {
			if a.B[0] {
				return "ZDiffWithScores"
			}
			return "ZDiff"
		},
		coq: func(a A) string { return app("MZDiff", cB(a.B[0]), cL(a.L)) },
		ref: func(a A) Ref { return sent(T(kw("zdiff"), di(int64(len(a.L)))), ds(a.L), If(a.B[0], kw("withscores"))) }})
	register(method{name: "ZDiffStore",
		gen:  func(r *gen.Rand) A { return A{S: []string{gKey(r)}, L: gKeys(r, 4)} },
		call: func(c compat.Cmdable, a A) compat.Cmder { return c.ZDiffStore(ctx, a.S[0], a.L...) },
		coq:  func(a A) string { return app("MZDiffStore", cS(a.S[0]), cL(a.L)) },
		ref:  func(a A) Ref { return sent(T(kw("zdiffstore"), d(a.S[0]), di(int64(len(a.L)))), ds(a.L)) }})

	// ---------------- streams ----------------
	register(method{name: "XAdd",
		gen: func(r *gen.Rand) A {
			return A{S: []string{gKey(r), gen.Pick(r, []string{"", "", "1-0", "0"}), gen.Pick(r, []string{"", "", "1-0", "5-1", "*"})},
				I: []int64{gen.Pick(r, []int64{0, 0, 1, 1000, -1}), gen.Pick(r, []int64{0, 0, 1, 10, -2})}, B: []bool{r.Chance(1, 3), r.Bool()}, V: gAVs(r, 6)}
		},
		call: func(c compat.Cmdable, a A) compat.Cmder {
			vals := make([]any, len(a.V))
			for i, v := range a.V {
				vals[i] = v.any()
			}
			return c.XAdd(ctx, compat.XAddArgs{Stream: a.S[0], MinID: a.S[1], ID: a.S[2], MaxLen: a.I[0], Limit: a.I[1], NoMkStream: a.B[0], Approx: a.B[1], Values: vals})
		},
		coq: func(a A) string {
			return app("MXAdd", app("mkXAdd", cS(a.S[0]), cB(a.B[0]), cZ(a.I[0]), cS(a.S[1]), cB(a.B[1]), cZ(a.I[1]), cS(a.S[2]), cVL(a.V)))
		},
		ref: func(a A) Ref {
			t := T(kw("xadd"), d(a.S[0]))
			t = append(t, If(a.B[0], kw("nomkstream"))...)
			switch {
			case a.I[0] > 0:
				t = append(t, kw("maxlen"))
				t = append(t, If(a.B[1], kw("~"))...)
				t = append(t, di(a.I[0]))
			case a.S[1] != "":
				t = append(t, kw("minid"))
				t = append(t, If(a.B[1], kw("~"))...)
				t = append(t, d(a.S[1]))
			}
			t = append(t, If(a.I[1] > 0, kw("limit"), di(a.I[1]))...)
			if a.S[2] != "" {
				t = append(t, d(a.S[2]))
			} else {
				t = append(t, d("*"))
			}
			return Ref{refSent, append(t, dv(a.V)...)}
		}})
	gStreams := func(r *gen.Rand) []string {
		n := r.Intn(4)
		out := make([]string, 0, 2*n)
		for i := 0; i < n; i++ {
			out = append(out, gKey(r))
		}
		for i := 0; i < n; i++ {
			out = append(out, gen.Pick(r, []string{"0", "$", "1-0", ">"}))
		}
		if r.Chance(1, 6) {
			out = append(out, "odd")
		}
		return out
	}
	gBlock := func(r *gen.Rand) int64 {
		return int64(gen.Pick(r, []time.Duration{-1, -1, 0, time.Millisecond, 100 * time.Millisecond, 1500 * time.Microsecond, 500 * time.Microsecond, 1, 2 * time.Second, -time.Second}))
	}
	register(method{name: "XRead",
		gen: func(r *gen.Rand) A {
			return A{I: []int64{gen.Pick(r, []int64{0, 0, 2, -1}), gBlock(r)}, L: gStreams(r)}
		},
		call: func(c compat.Cmdable, a A) compat.Cmder {
			return c.XRead(ctx, compat.XReadArgs{Streams: a.L, Count: a.I[0], Block: dur(a.I[1])})
		},
		coq: func(a A) string { return app("MXRead", cZ(a.I[0]), cZ(a.I[1]), cL(a.L)) },
		ref: func(a A) Ref {
			return sent(T(kw("xread")), If(a.I[0] > 0, kw("count"), di(a.I[0])), If(a.I[1] >= 0, kw("block"), di(int64(dur(a.I[1])/time.Millisecond))),
				T(kw("streams")), ds(a.L))
		},
		class: func(a A) (string, string) {
			if subMs(a.I[1]) {
				return siteA + "XRead", "sub-millisecond-rounds-up"
			}
			return "", ""
		}})
	register(method{name: "XReadStreams",
		gen:  func(r *gen.Rand) A { return A{L: gStreams(r)} },
		call: func(c compat.Cmdable, a A) compat.Cmder { return c.XReadStreams(ctx, a.L...) },
		coq:  func(a A) string { return app("MXReadStreams", cL(a.L)) },
		ref:  func(a A) Ref { return sent(T(kw("xread"), kw("streams")), ds(a.L)) }})
	register(method{name: "XReadGroup",
		gen: func(r *gen.Rand) A {
			return A{S: []string{gStr(r), gStr(r)}, I: []int64{gen.Pick(r, []int64{0, 0, 2, -1}), gBlock(r)}, B: []bool{r.Bool()}, L: gStreams(r)}
		},
		call: func(c compat.Cmdable, a A) compat.Cmder {
			return c.XReadGroup(ctx, compat.XReadGroupArgs{Group: a.S[0], Consumer: a.S[1], Streams: a.L, Count: a.I[0], Block: dur(a.I[1]), NoAck: a.B[0]})
		},
		coq: func(a A) string {
			return app("MXReadGroup", cS(a.S[0]), cS(a.S[1]), cZ(a.I[0]), cZ(a.I[1]), cB(a.B[0]), cL(a.L))
		},
		ref: func(a A) Ref {
			return sent(T(kw("xreadgroup"), kw("group"), d(a.S[0]), d(a.S[1])), If(a.I[0] > 0, kw("count"), di(a.I[0])),
				If(a.I[1] >= 0, kw("block"), di(int64(dur(a.I[1])/time.Millisecond))), If(a.B[0], kw("noack")), T(kw("streams")), ds(a.L))
		},
		class: func(a A) (string, string) {
			if subMs(a.I[1]) {
				return siteA + "XReadGroup", "sub-millisecond-rounds-up"
			}
			return "", ""
		}})
	register(method{name: "XPendingExt",
		gen: func(r *gen.Rand) A {
			return A{S: []string{gKey(r), gStr(r), "-", "+", gen.Pick(r, []string{"", "", "c1"})}, I: []int64{gDur(r), gInt(r)}}
		},
		call: func(c compat.Cmdable, a A) compat.Cmder {
			return c.XPendingExt(ctx, compat.XPendingExtArgs{Stream: a.S[0], Group: a.S[1], Start: a.S[2], End: a.S[3], Consumer: a.S[4], Idle: dur(a.I[0]), Count: a.I[1]})
		},
		coq: func(a A) string {
			return app("MXPendingExt", app("mkXPendingExt", cS(a.S[0]), cS(a.S[1]), cZ(a.I[0]), cS(a.S[2]), cS(a.S[3]), cZ(a.I[1]), cS(a.S[4])))
		},
		ref: func(a A) Ref {
			return sent(T(kw("xpending"), d(a.S[0]), d(a.S[1])), If(a.I[0] != 0, kw("idle"), di(formatMs(dur(a.I[0])))),
				T(d(a.S[2]), d(a.S[3]), di(a.I[1])), If(a.S[4] != "", d(a.S[4])))
		}})
	gIDs := func(r *gen.Rand) []string {
		n := r.Size(4, 1, 2)
		out := make([]string, n)
		for i := range out {
			out[i] = gen.Pick(r, []string{"1-0", "2-0", "0-1", "x"})
		}
		return out
	}
	register(method{name: "XClaim",
		gen: func(r *gen.Rand) A {
			return A{S: []string{gKey(r), gStr(r), gStr(r)}, I: []int64{gDur(r)}, L: gIDs(r), B: []bool{r.Bool()}}
		},
		call: func(c compat.Cmdable, a A) compat.Cmder {
			x := compat.XClaimArgs{Stream: a.S[0], Group: a.S[1], Consumer: a.S[2], MinIdle: dur(a.I[0]), Messages: a.L}
			if a.B[0] {
				return c.XClaimJustID(ctx, x)
			}
			return c.XClaim(ctx, x)
		},
		kind: func(a A) string {
			if a.B[0] {
				return "XClaimJustID"
			}
			return "XClaim"
		},
		coq: func(a A) string {
			return app("MXClaim", cB(a.B[0]), app("mkXClaim", cS(a.S[0]), cS(a.S[1]), cS(a.S[2]), cZ(a.I[0]), cL(a.L)))
		},
		ref: func(a A) Ref {
			return sent(T(kw("xclaim"), d(a.S[0]), d(a.S[1]), d(a.S[2]), di(int64(dur(a.I[0])/time.Millisecond))), ds(a.L), If(a.B[0], kw("justid")))
		},
		class: func(a A) (string, string) {
			if subMs(a.I[0]) {
				return siteA + "XClaim", "sub-millisecond-rounds-up"
			}
			return "", ""
		}})
	register(method{name: "XAutoClaim",
		gen: func(r *gen.Rand) A {
			return A{S: []string{gKey(r), gStr(r), gStr(r), gen.Pick(r, []string{"0-0", "-", "1-0"})}, I: []int64{gDur(r), gInt(r)}, B: []bool{r.Bool()}}
		},
		call: func(c compat.Cmdable, a A) compat.Cmder {
			x := compat.XAutoClaimArgs{Stream: a.S[0], Group: a.S[1], Consumer: a.S[2], Start: a.S[3], MinIdle: dur(a.I[0]), Count: a.I[1]}
			if a.B[0] {
				return c.XAutoClaimJustID(ctx, x)
			}
			return c.XAutoClaim(ctx, x)
		},
		kind: func(a A) string {
			if a.B[0] {
				return "XAutoClaimJustID"
			}
			return "XAutoClaim"
		},
		coq: func(a A) string {
			return app("MXAutoClaim", cB(a.B[0]), app("mkXAutoClaim", cS(a.S[0]), cS(a.S[1]), cS(a.S[2]), cZ(a.I[0]), cS(a.S[3]), cZ(a.I[1])))
		},
		ref: func(a A) Ref {
			return sent(T(kw("xautoclaim"), d(a.S[0]), d(a.S[1]), d(a.S[2]), di(formatMs(dur(a.I[0]))), d(a.S[3])),
				If(a.I[1] > 0, kw("count"), di(a.I[1])), If(a.B[0], kw("justid")))
		}})
	register(method{name: "XTrim",
		gen: func(r *gen.Rand) A {
			return A{S: []string{gKey(r), gen.Pick(r, []string{"1-0", "0", "5-5"})}, I: []int64{gInt(r), gen.Pick(r, []int64{0, 1, 10, -1}), int64(r.Intn(4))}}
		},
		call: func(c compat.Cmdable, a A) compat.Cmder {
			switch a.I[2] {
			case 1:
				return c.XTrimMaxLenApprox(ctx, a.S[0], a.I[0], a.I[1])
			case 2:
				return c.XTrimMinID(ctx, a.S[0], a.S[1])
			case 3:
				return c.XTrimMinIDApprox(ctx, a.S[0], a.S[1], a.I[1])
			}
			return c.XTrimMaxLen(ctx, a.S[0], a.I[0])
		},
		kind: func(a A) string {
			return []string{"XTrimMaxLen", "XTrimMaxLenApprox", "XTrimMinID", "XTrimMinIDApprox"}[a.I[2]]
		},
		coq: func(a A) string {
			t := []string{app("XtMaxLen", cZ(a.I[0])), app("XtMaxLenApprox", cZ(a.I[0]), cZ(a.I[1])), app("XtMinID", cS(a.S[1])), app("XtMinIDApprox", cS(a.S[1]), cZ(a.I[1]))}[a.I[2]]
			return app("MXTrim", cS(a.S[0]), t)
		},
		ref: func(a A) Ref {
			switch a.I[2] {
			case 1:
				return sent(T(kw("xtrim"), d(a.S[0]), kw("maxlen"), kw("~"), di(a.I[0])), If(a.I[1] > 0, kw("limit"), di(a.I[1])))
			case 2:
				return sent(T(kw("xtrim"), d(a.S[0]), kw("minid"), d(a.S[1])))
			case 3:
				return sent(T(kw("xtrim"), d(a.S[0]), kw("minid"), kw("~"), d(a.S[1])), If(a.I[1] > 0, kw("limit"), di(a.I[1])))
			}
			return sent(T(kw("xtrim"), d(a.S[0]), kw("maxlen"), di(a.I[0])))
		}})
	register(method{name: "XInfoStreamFull",
		gen:  func(r *gen.Rand) A { return A{S: []string{gKey(r)}, I: []int64{gInt(r)}} },
		call: func(c compat.Cmdable, a A) compat.Cmder { return c.XInfoStreamFull(ctx, a.S[0], a.I[0]) },
		coq:  func(a A) string { return app("MXInfoStreamFull", cS(a.S[0]), cZ(a.I[0])) },
		ref: func(a A) Ref {
			return sent(T(kw("xinfo"), kw("stream"), d(a.S[0]), kw("full")), If(a.I[0] > 0, kw("count"), di(a.I[0])))
		}})

	// ---------------- geo ----------------
	register(method{name: "GeoAdd",
		gen: func(r *gen.Rand) A {
			n := r.Size(4, 1, 2)
			fm := make([]FMember, n)
			for i := range fm {
				fm[i] = FMember{A: gFloat(r), B: gFloat(r), S: gStr(r)}
			}
			return A{S: []string{gKey(r)}, FM: fm}
		},
		call: func(c compat.Cmdable, a A) compat.Cmder {
			ls := make([]compat.GeoLocation, len(a.FM))
			for i, m := range a.FM {
				ls[i] = compat.GeoLocation{Longitude: m.A, Latitude: m.B, Name: m.S}
			}
			return c.GeoAdd(ctx, a.S[0], ls...)
		},
		coq: func(a A) string {
			ss := make([]string, len(a.FM))
			for i, m := range a.FM {
				ss[i] = "(" + cF(m.A) + ", " + cF(m.B) + ", " + cS(m.S) + ")"
			}
			return app("MGeoAdd", cS(a.S[0]), "["+strings.Join(ss, "; ")+"]")
		},
		ref: func(a A) Ref {
			t := T(kw("geoadd"), d(a.S[0]))
			for _, m := range a.FM {
				t = append(t, df(m.A), df(m.B), d(m.S))
			}
			return Ref{refSent, t}
		}})
	gUnit := func(r *gen.Rand) string { return gen.Pick(r, []string{"", "", "km", "m", "MI", "ft"}) }
	gSortDir := func(r *gen.Rand) string { return gen.Pick(r, []string{"", "", "ASC", "desc"}) }
	gGeoRadius := func(r *gen.Rand) A {
		return A{S: []string{gKey(r), gUnit(r), gSortDir(r), gen.Pick(r, []string{"", "", "dst"}), gen.Pick(r, []string{"", "", "", "dd"}), gStr(r)},
			F: []float64{gFloat(r), gFloat(r), gFloat(r)}, I: []int64{gen.Pick(r, []int64{0, 0, 3, -1})}, B: []bool{r.Bool(), r.Bool(), r.Bool(), r.Bool()}}
	}
	geoRadiusQ := func(a A) compat.GeoRadiusQuery {
		return compat.GeoRadiusQuery{Radius: a.F[0], Unit: a.S[1], WithCoord: a.B[0], WithDist: a.B[1], WithGeoHash: a.B[2], Count: a.I[0], Sort: a.S[2], Store: a.S[3], StoreDist: a.S[4]}
	}
	cGeoRadiusQ := func(a A) string {
		return app("mkGeoRadius", cF(a.F[0]), cS(a.S[1]), cB(a.B[0]), cB(a.B[1]), cB(a.B[2]), cZ(a.I[0]), cS(a.S[2]), cS(a.S[3]), cS(a.S[4]))
	}
	geoRadiusRef := func(a A) []Tok {
		t := T(df(a.F[0]))
		if a.S[1] != "" {
			t = append(t, kw(a.S[1]))
		} else {
			t = append(t, kw("km"))
		}
		t = append(t, If(a.B[0], kw("withcoord"))...)
		t = append(t, If(a.B[1], kw("withdist"))...)
		t = append(t, If(a.B[2], kw("withhash"))...)
		t = append(t, If(a.I[0] > 0, kw("count"), di(a.I[0]))...)
		t = append(t, If(a.S[2] != "", kw(a.S[2]))...)
		t = append(t, If(a.S[3] != "", kw("store"), d(a.S[3]))...)
		return append(t, If(a.S[4] != "", kw("storedist"), d(a.S[4]))...)
	}
	register(method{name: "GeoRadius",
		gen: gGeoRadius,
		call: func(c compat.Cmdable, a A) compat.Cmder {
			if a.B[3] {
				return c.GeoRadiusStore(ctx, a.S[0], a.F[1], a.F[2], geoRadiusQ(a))
			}
			return c.GeoRadius(ctx, a.S[0], a.F[1], a.F[2], geoRadiusQ(a))
		},
		kind: func(a A) string {
			if a.B[3] {
				return "GeoRadiusStore"
			}
			return "GeoRadius"
		},
		coq: func(a A) string {
			return app("MGeoRadius", cB(a.B[3]), cS(a.S[0]), cF(a.F[1]), cF(a.F[2]), cGeoRadiusQ(a))
		},
		ref: func(a A) Ref {
			has := a.S[3] != "" || a.S[4] != ""
			if has != a.B[3] {
				return Ref{Status: refNothing}
			}
			cmd := "georadius_ro"
			if a.B[3] {
				cmd = "georadius"
			}
			return sent(T(kw(cmd), d(a.S[0]), df(a.F[1]), df(a.F[2])), geoRadiusRef(a))
		}})
	register(method{name: "GeoRadiusByMember",
		gen: gGeoRadius,
		call: func(c compat.Cmdable, a A) compat.Cmder {
			if a.B[3] {
				return c.GeoRadiusByMemberStore(ctx, a.S[0], a.S[5], geoRadiusQ(a))
			}
			return c.GeoRadiusByMember(ctx, a.S[0], a.S[5], geoRadiusQ(a))
		},
		kind: func(a A) string {
			if a.B[3] {
				return "GeoRadiusByMemberStore"
			}
			return "GeoRadiusByMember"
		},
		coq: func(a A) string { return app("MGeoRadiusByMember", cB(a.B[3]), cS(a.S[0]), cS(a.S[5]), cGeoRadiusQ(a)) },
		ref: func(a A) Ref {
			has := a.S[3] != "" || a.S[4] != ""
			if has != a.B[3] {
				return Ref{Status: refNothing}
			}
			cmd := "georadiusbymember_ro"
			if a.B[3] {
				cmd = "georadiusbymember"
			}
			return sent(T(kw(cmd), d(a.S[0]), d(a.S[5])), geoRadiusRef(a))
		}})
	gGeoSearch := func(r *gen.Rand) A {
		return A{S: []string{gKey(r), gen.Pick(r, []string{"", "", "Catania"}), gUnit(r), gUnit(r), gSortDir(r), gKey(r)},
			F: []float64{gFloat(r), gFloat(r), gen.Pick(r, []float64{0, 0, 200, -1, 1.5}), gFloat(r), gFloat(r)}, I: []int64{gen.Pick(r, []int64{0, 0, 3, -1})},
			B: []bool{r.Bool(), r.Bool(), r.Bool(), r.Bool()}}
	}
	geoSearchQ := func(a A) compat.GeoSearchQuery {
		return compat.GeoSearchQuery{Member: a.S[1], Longitude: a.F[0], Latitude: a.F[1], Radius: a.F[2], RadiusUnit: a.S[2], BoxWidth: a.F[3], BoxHeight: a.F[4],
			BoxUnit: a.S[3], Sort: a.S[4], Count: a.I[0], CountAny: a.B[0]}
	}
	cGeoSearchQ := func(a A) string {
		return app("mkGeoSearch", cS(a.S[1]), cF(a.F[0]), cF(a.F[1]), cF(a.F[2]), cS(a.S[2]), cF(a.F[3]), cF(a.F[4]), cS(a.S[3]), cS(a.S[4]), cZ(a.I[0]), cB(a.B[0]))
	}
	geoSearchRef := func(a A) []Tok {
		var t []Tok
		if a.S[1] != "" {
			t = T(kw("frommember"), d(a.S[1]))
		} else {
			t = T(kw("fromlonlat"), df(a.F[0]), df(a.F[1]))
		}
		unit := func(u string) Tok {
			if u == "" {
				return kw("km")
			}
			return kw(u)
		}
		if a.F[2] > 0 {
			t = append(t, kw("byradius"), df(a.F[2]), unit(a.S[2]))
		} else {
			t = append(t, kw("bybox"), df(a.F[3]), df(a.F[4]), unit(a.S[3]))
		}
		t = append(t, If(a.S[4] != "", kw(a.S[4]))...)
		if a.I[0] > 0 {
			t = append(t, kw("count"), di(a.I[0]))
			t = append(t, If(a.B[0], kw("any"))...)
		}
		return t
	}
	register(method{name: "GeoSearch",
		gen:  gGeoSearch,
		call: func(c compat.Cmdable, a A) compat.Cmder { return c.GeoSearch(ctx, a.S[0], geoSearchQ(a)) },
		coq:  func(a A) string { return app("MGeoSearch", cS(a.S[0]), cGeoSearchQ(a)) },
		ref:  func(a A) Ref { return sent(T(kw("geosearch"), d(a.S[0])), geoSearchRef(a)) }})
	register(method{name: "GeoSearchLocation",
		gen: gGeoSearch,
		call: func(c compat.Cmdable, a A) compat.Cmder {
			return c.GeoSearchLocation(ctx, a.S[0], compat.GeoSearchLocationQuery{GeoSearchQuery: geoSearchQ(a), WithCoord: a.B[1], WithDist: a.B[2], WithHash: a.B[3]})
		},
		coq: func(a A) string {
			return app("MGeoSearchLocation", cS(a.S[0]), cGeoSearchQ(a), cB(a.B[1]), cB(a.B[2]), cB(a.B[3]))
		},
		ref: func(a A) Ref {
			return sent(T(kw("geosearch"), d(a.S[0])), geoSearchRef(a), If(a.B[1], kw("withcoord")), If(a.B[2], kw("withdist")), If(a.B[3], kw("withhash")))
		}})
	register(method{name: "GeoSearchStore",
		gen: gGeoSearch,
		call: func(c compat.Cmdable, a A) compat.Cmder {
			return c.GeoSearchStore(ctx, a.S[0], a.S[5], compat.GeoSearchStoreQuery{GeoSearchQuery: geoSearchQ(a), StoreDist: a.B[1]})
		},
		coq: func(a A) string { return app("MGeoSearchStore", cS(a.S[0]), cS(a.S[5]), cGeoSearchQ(a), cB(a.B[1])) },
		ref: func(a A) Ref {
			return sent(T(kw("geosearchstore"), d(a.S[5]), d(a.S[0])), geoSearchRef(a), If(a.B[1], kw("storedist")))
		}})

	// ---------------- server ----------------
	register(method{name: "FunctionLoad",
		gen: func(r *gen.Rand) A {
			return A{S: []string{gen.Pick(r, []string{"#!lua name=lib\nredis.register_function('f', function() end)", "", "code"})}, B: []bool{r.Bool()}}
		},
		call: func(c compat.Cmdable, a A) compat.Cmder {
			if a.B[0] {
				return c.FunctionLoadReplace(ctx, a.S[0])
			}
			return c.FunctionLoad(ctx, a.S[0])
		},
		kind: func(a A) string {
			if a.B[0] {
				return "FunctionLoadReplace"
			}
			return "FunctionLoad"
		},
		coq: func(a A) string { return app("MFunctionLoad", cB(a.B[0]), cS(a.S[0])) },
		ref: func(a A) Ref { return sent(T(kw("function"), kw("load")), If(a.B[0], kw("replace")), T(d(a.S[0]))) }})
	register(method{name: "ClientKillByFilter",
		gen: func(r *gen.Rand) A {
			n := r.Intn(3)
			var l []string
			for i := 0; i < n; i++ {
				l = append(l, gen.Pick(r, []string{"ID", "TYPE", "ADDR", "SKIPME"}), gen.Pick(r, []string{"7", "normal", "1.2.3.4:5", "no"}))
			}
			return A{L: l}
		},
		call: func(c compat.Cmdable, a A) compat.Cmder { return c.ClientKillByFilter(ctx, a.L...) },
		coq:  func(a A) string { return app("MClientKillByFilter", cL(a.L)) },
		ref:  func(a A) Ref { return sent(T(kw("client"), kw("kill")), ds(a.L)) }})
	register(method{name: "ACLLog",
		gen:  func(r *gen.Rand) A { return A{I: []int64{gInt(r)}} },
		call: func(c compat.Cmdable, a A) compat.Cmder { return c.ACLLog(ctx, a.I[0]) },
		coq:  func(a A) string { return app("MACLLog", cZ(a.I[0])) },
		ref: func(a A) Ref {
			if a.I[0] <= 0 {
				return Ref{Status: refUncertain} // go-redis leaves the count out unless positive (moderately certain); the adapter always sends it
			}
			return sent(T(kw("acl"), kw("log"), di(a.I[0])))
		}})
	// ---------------- second batch ----------------
	register(method{name: "ZPop",
		gen: func(r *gen.Rand) A {
			n := r.Intn(3)
			il := make([]int64, n)
			for i := range il {
				il[i] = gInt(r)
			}
			return A{S: []string{gKey(r)}, IL: il, B: []bool{r.Bool()}}
		},
		call: func(c compat.Cmdable, a A) compat.Cmder {
			if a.B[0] {
				return c.ZPopMax(ctx, a.S[0], a.IL...)
			}
			return c.ZPopMin(ctx, a.S[0], a.IL...)
		},
		kind: func(a A) string {
			if a.B[0] {
				return "ZPopMax"
			}
			return "ZPopMin"
		},
		coq: func(a A) string { return app("MZPop", cB(a.B[0]), cS(a.S[0]), cZL(a.IL)) },
		ref: func(a A) Ref {
			cmd := "zpopmin"
			if a.B[0] {
				cmd = "zpopmax"
			}
			switch len(a.IL) {
			case 0:
				return sent(T(kw(cmd), d(a.S[0])))
			case 1:
				return sent(T(kw(cmd), d(a.S[0]), di(a.IL[0])))
			}
			return Ref{Status: refNothing}
		}})
	register(method{name: "ZRangePlain",
		gen: func(r *gen.Rand) A {
			return A{S: []string{gKey(r)}, I: []int64{gInt(r), gInt(r)}, B: []bool{r.Bool(), r.Bool()}}
		},
		call: func(c compat.Cmdable, a A) compat.Cmder {
			switch {
			case a.B[0] && a.B[1]:
				return c.ZRevRangeWithScores(ctx, a.S[0], a.I[0], a.I[1])
			case a.B[0]:
				return c.ZRevRange(ctx, a.S[0], a.I[0], a.I[1])
			case a.B[1]:
				return c.ZRangeWithScores(ctx, a.S[0], a.I[0], a.I[1])
			}
			return c.ZRange(ctx, a.S[0], a.I[0], a.I[1])
		},
		kind: func(a A) string {
			n := "ZRange"
			if a.B[0] {
				n = "ZRevRange"
			}
			if a.B[1] {
				n += "WithScores"
			}
			return n
		},
		coq: func(a A) string {
			return app("MZRangePlain", cB(a.B[0]), cB(a.B[1]), cS(a.S[0]), cZ(a.I[0]), cZ(a.I[1]))
		},
		ref: func(a A) Ref {
			cmd := "zrange"
			if a.B[0] {
				cmd = "zrevrange"
			}
			return sent(T(kw(cmd), d(a.S[0]), di(a.I[0]), di(a.I[1])), If(a.B[1], kw("withscores")))
		}})
	register(method{name: "BPop",
		gen: func(r *gen.Rand) A { return A{I: []int64{gDur(r), int64(r.Intn(4))}, L: gKeys(r, 4)} },
		call: func(c compat.Cmdable, a A) compat.Cmder {
			switch a.I[1] {
			case 1:
				return c.BRPop(ctx, dur(a.I[0]), a.L...)
			case 2:
				return c.BZPopMax(ctx, dur(a.I[0]), a.L...)
			case 3:
				return c.BZPopMin(ctx, dur(a.I[0]), a.L...)
			}
			return c.BLPop(ctx, dur(a.I[0]), a.L...)
		},
		kind: func(a A) string { return []string{"BLPop", "BRPop", "BZPopMax", "BZPopMin"}[a.I[1]] },
		coq: func(a A) string {
			return app("MBPop", []string{"BpL", "BpR", "BpZMax", "BpZMin"}[a.I[1]], cZ(a.I[0]), cL(a.L))
		},
		ref: func(a A) Ref {
			cmd := []string{"blpop", "brpop", "bzpopmax", "bzpopmin"}[a.I[1]]
			return sent(T(kw(cmd)), ds(a.L), T(di(formatSec(dur(a.I[0])))))
		}})
	register(method{name: "BRPopLPush",
		gen:  func(r *gen.Rand) A { return A{S: []string{gKey(r), gKey(r)}, I: []int64{gDur(r)}} },
		call: func(c compat.Cmdable, a A) compat.Cmder { return c.BRPopLPush(ctx, a.S[0], a.S[1], dur(a.I[0])) },
		coq:  func(a A) string { return app("MBRPopLPush", cS(a.S[0]), cS(a.S[1]), cZ(a.I[0])) },
		ref:  func(a A) Ref { return sent(T(kw("brpoplpush"), d(a.S[0]), d(a.S[1]), di(formatSec(dur(a.I[0]))))) }})
	register(method{name: "LMove",
		gen:  func(r *gen.Rand) A { return A{S: []string{gKey(r), gKey(r), gDir(r), gDir(r)}} },
		call: func(c compat.Cmdable, a A) compat.Cmder { return c.LMove(ctx, a.S[0], a.S[1], a.S[2], a.S[3]) },
		coq:  func(a A) string { return app("MLMove", cS(a.S[0]), cS(a.S[1]), cS(a.S[2]), cS(a.S[3])) },
		ref:  func(a A) Ref { return sent(T(kw("lmove"), d(a.S[0]), d(a.S[1]), kw(a.S[2]), kw(a.S[3]))) }})
	register(method{name: "BLMove",
		gen: func(r *gen.Rand) A { return A{S: []string{gKey(r), gKey(r), gDir(r), gDir(r)}, I: []int64{gDur(r)}} },
		call: func(c compat.Cmdable, a A) compat.Cmder {
			return c.BLMove(ctx, a.S[0], a.S[1], a.S[2], a.S[3], dur(a.I[0]))
		},
		coq: func(a A) string { return app("MBLMove", cS(a.S[0]), cS(a.S[1]), cS(a.S[2]), cS(a.S[3]), cZ(a.I[0])) },
		ref: func(a A) Ref {
			return sent(T(kw("blmove"), d(a.S[0]), d(a.S[1]), kw(a.S[2]), kw(a.S[3]), di(formatSec(dur(a.I[0])))))
		}})
	register(method{name: "XRangeCmd",
		gen: func(r *gen.Rand) A {
			return A{S: []string{gKey(r), gen.Pick(r, []string{"-", "1-0", "+"}), gen.Pick(r, []string{"+", "5-0", "-"})}, I: []int64{gInt(r)}, B: []bool{r.Bool(), r.Bool()}}
		},
		call: func(c compat.Cmdable, a A) compat.Cmder {
			switch {
			case a.B[0] && a.B[1]:
				return c.XRevRangeN(ctx, a.S[0], a.S[1], a.S[2], a.I[0])
			case a.B[0]:
				return c.XRevRange(ctx, a.S[0], a.S[1], a.S[2])
			case a.B[1]:
				return c.XRangeN(ctx, a.S[0], a.S[1], a.S[2], a.I[0])
			}
			return c.XRange(ctx, a.S[0], a.S[1], a.S[2])
		},
		kind: func(a A) string {
			n := "XRange"
			if a.B[0] {
				n = "XRevRange"
			}
			if a.B[1] {
				n += "N"
			}
			return n
		},
		coq: func(a A) string {
			cnt := "None"
			if a.B[1] {
				cnt = "(Some " + cZ(a.I[0]) + ")"
			}
			return app("MXRangeCmd", cB(a.B[0]), cS(a.S[0]), cS(a.S[1]), cS(a.S[2]), cnt)
		},
		ref: func(a A) Ref {
			cmd := "xrange"
			if a.B[0] {
				cmd = "xrevrange"
			}
			return sent(T(kw(cmd), d(a.S[0]), d(a.S[1]), d(a.S[2])), If(a.B[1], kw("count"), di(a.I[0])))
		}})
	register(method{name: "XGroupCreate",
		gen: func(r *gen.Rand) A {
			return A{S: []string{gKey(r), gStr(r), gen.Pick(r, []string{"$", "0", "1-0"})}, B: []bool{r.Bool()}}
		},
		call: func(c compat.Cmdable, a A) compat.Cmder {
			if a.B[0] {
				return c.XGroupCreateMkStream(ctx, a.S[0], a.S[1], a.S[2])
			}
			return c.XGroupCreate(ctx, a.S[0], a.S[1], a.S[2])
		},
		kind: func(a A) string {
			if a.B[0] {
				return "XGroupCreateMkStream"
			}
			return "XGroupCreate"
		},
		coq: func(a A) string { return app("MXGroupCreate", cB(a.B[0]), cS(a.S[0]), cS(a.S[1]), cS(a.S[2])) },
		ref: func(a A) Ref {
			return sent(T(kw("xgroup"), kw("create"), d(a.S[0]), d(a.S[1]), d(a.S[2])), If(a.B[0], kw("mkstream")))
		}})
	register(method{name: "XAck",
		gen:  func(r *gen.Rand) A { return A{S: []string{gKey(r), gStr(r)}, L: gIDs(r)} },
		call: func(c compat.Cmdable, a A) compat.Cmder { return c.XAck(ctx, a.S[0], a.S[1], a.L...) },
		coq:  func(a A) string { return app("MXAck", cS(a.S[0]), cS(a.S[1]), cL(a.L)) },
		ref:  func(a A) Ref { return sent(T(kw("xack"), d(a.S[0]), d(a.S[1])), ds(a.L)) }})
	register(method{name: "XDel",
		gen:  func(r *gen.Rand) A { return A{S: []string{gKey(r)}, L: gIDs(r)} },
		call: func(c compat.Cmdable, a A) compat.Cmder { return c.XDel(ctx, a.S[0], a.L...) },
		coq:  func(a A) string { return app("MXDel", cS(a.S[0]), cL(a.L)) },
		ref:  func(a A) Ref { return sent(T(kw("xdel"), d(a.S[0])), ds(a.L)) }})
	register(method{name: "Eval",
		gen: func(r *gen.Rand) A {
			v := gAVs(r, 4)
			return A{S: []string{gen.Pick(r, []string{"return 1", "sha1abc", "myfunc", ""})}, L: gKeys(r, 3), V: v, I: []int64{int64(r.Intn(6))}}
		},
		call: func(c compat.Cmdable, a A) compat.Cmder {
			args := make([]any, len(a.V))
			for i, v := range a.V {
				args[i] = v.any()
			}
			switch a.I[0] {
			case 1:
				return c.EvalSha(ctx, a.S[0], a.L, args...)
			case 2:
				return c.EvalRO(ctx, a.S[0], a.L, args...)
			case 3:
				return c.EvalShaRO(ctx, a.S[0], a.L, args...)
			case 4:
				return c.FCall(ctx, a.S[0], a.L, args...)
			case 5:
				return c.FCallRO(ctx, a.S[0], a.L, args...)
			}
			return c.Eval(ctx, a.S[0], a.L, args...)
		},
		kind: func(a A) string {
			return []string{"Eval", "EvalSha", "EvalRO", "EvalShaRO", "FCall", "FCallRO"}[a.I[0]]
		},
		coq: func(a A) string {
			return app("MEval", []string{"EvEval", "EvEvalSha", "EvEvalRO", "EvEvalShaRO", "EvFCall", "EvFCallRO"}[a.I[0]], cS(a.S[0]), cL(a.L), cVL(a.V))
		},
		ref: func(a A) Ref {
			if len(a.V) == 1 && a.V[0].T == "nil" {
				return Ref{Status: refNothing} // appendArg(nil): reflect.ValueOf(nil).Type() panics
			}
			cmd := []string{"eval", "evalsha", "eval_ro", "evalsha_ro", "fcall", "fcall_ro"}[a.I[0]]
			return sent(T(kw(cmd), d(a.S[0]), di(int64(len(a.L)))), ds(a.L), dv(a.V))
		}})
	register(method{name: "PopCount",
		gen: func(r *gen.Rand) A { return A{S: []string{gKey(r)}, I: []int64{gInt(r), int64(r.Intn(4))}} },
		call: func(c compat.Cmdable, a A) compat.Cmder {
			switch a.I[1] {
			case 1:
				return c.SRandMemberN(ctx, a.S[0], a.I[0])
			case 2:
				return c.LPopCount(ctx, a.S[0], a.I[0])
			case 3:
				return c.RPopCount(ctx, a.S[0], a.I[0])
			}
			return c.SPopN(ctx, a.S[0], a.I[0])
		},
		kind: func(a A) string { return []string{"SPopN", "SRandMemberN", "LPopCount", "RPopCount"}[a.I[1]] },
		coq: func(a A) string {
			return app("MPopCount", []string{"PcSPop", "PcSRand", "PcLPop", "PcRPop"}[a.I[1]], cS(a.S[0]), cZ(a.I[0]))
		},
		ref: func(a A) Ref {
			return sent(T(kw([]string{"spop", "srandmember", "lpop", "rpop"}[a.I[1]]), d(a.S[0]), di(a.I[0])))
		}})
	register(method{name: "ZRandMember",
		gen: func(r *gen.Rand) A { return A{S: []string{gKey(r)}, I: []int64{gInt(r)}, B: []bool{r.Bool()}} },
		call: func(c compat.Cmdable, a A) compat.Cmder {
			if a.B[0] {
				return c.ZRandMemberWithScores(ctx, a.S[0], a.I[0])
			}
			return c.ZRandMember(ctx, a.S[0], a.I[0])
		},
		kind: func(a A) string {
			if a.B[0] {
				return "ZRandMemberWithScores"
			}
			return "ZRandMember"
		},
		coq: func(a A) string { return app("MZRandMember", cB(a.B[0]), cS(a.S[0]), cZ(a.I[0])) },
		ref: func(a A) Ref { return sent(T(kw("zrandmember"), d(a.S[0]), di(a.I[0])), If(a.B[0], kw("withscores"))) }})
	register(method{name: "InterCard",
		gen: func(r *gen.Rand) A { return A{I: []int64{gInt(r)}, L: gKeys(r, 4), B: []bool{r.Bool()}} },
		call: func(c compat.Cmdable, a A) compat.Cmder {
			if a.B[0] {
				return c.ZInterCard(ctx, a.I[0], a.L...)
			}
			return c.SInterCard(ctx, a.I[0], a.L...)
		},
		kind: func(a A) string {
			if a.B[0] {
				return "ZInterCard"
			}
			return "SInterCard"
		},
		coq: func(a A) string { return app("MInterCard", cB(a.B[0]), cZ(a.I[0]), cL(a.L)) },
		ref: func(a A) Ref {
			cmd := "sintercard"
			if a.B[0] {
				cmd = "zintercard"
			}
			return sent(T(kw(cmd), di(int64(len(a.L)))), ds(a.L), T(kw("limit"), di(a.I[0])))
		}})
	gOrder := func(r *gen.Rand) string { return gen.Pick(r, []string{"MIN", "MAX", "min", "Max"}) }
	register(method{name: "ZMPop",
		gen:  func(r *gen.Rand) A { return A{S: []string{gOrder(r)}, I: []int64{gInt(r)}, L: gKeys(r, 4)} },
		call: func(c compat.Cmdable, a A) compat.Cmder { return c.ZMPop(ctx, a.S[0], a.I[0], a.L...) },
		coq:  func(a A) string { return app("MZMPop", cS(a.S[0]), cZ(a.I[0]), cL(a.L)) },
		ref: func(a A) Ref {
			if a.I[0] <= 0 {
				return Ref{Status: refUncertain}
			}
			return sent(T(kw("zmpop"), di(int64(len(a.L)))), ds(a.L), T(kw(strings.ToLower(a.S[0])), kw("count"), di(a.I[0])))
		}})
	register(method{name: "BZMPop",
		gen:  func(r *gen.Rand) A { return A{S: []string{gOrder(r)}, I: []int64{gInt(r), gDur(r)}, L: gKeys(r, 4)} },
		call: func(c compat.Cmdable, a A) compat.Cmder { return c.BZMPop(ctx, dur(a.I[1]), a.S[0], a.I[0], a.L...) },
		coq:  func(a A) string { return app("MBZMPop", cZ(a.I[1]), cS(a.S[0]), cZ(a.I[0]), cL(a.L)) },
		ref: func(a A) Ref {
			if a.I[0] <= 0 {
				return Ref{Status: refUncertain}
			}
			return sent(T(kw("bzmpop"), di(formatSec(dur(a.I[1]))), di(int64(len(a.L)))), ds(a.L), T(kw(strings.ToLower(a.S[0])), kw("count"), di(a.I[0])))
		}})
	register(method{name: "ClientPause",
		gen:  func(r *gen.Rand) A { return A{I: []int64{gDur(r)}} },
		call: func(c compat.Cmdable, a A) compat.Cmder { return c.ClientPause(ctx, dur(a.I[0])) },
		coq:  func(a A) string { return app("MClientPause", cZ(a.I[0])) },
		ref:  func(a A) Ref { return sent(T(kw("client"), kw("pause"), di(formatMs(dur(a.I[0]))))) },
		class: func(a A) (string, string) {
			if formatMs(dur(a.I[0])) != formatSec(dur(a.I[0])) {
				return siteA + "ClientPause", "timeout-in-seconds"
			}
			return "", ""
		}})
	register(method{name: "SlowLogGet",
		gen:  func(r *gen.Rand) A { return A{I: []int64{gInt(r)}} },
		call: func(c compat.Cmdable, a A) compat.Cmder { return c.SlowLogGet(ctx, a.I[0]) },
		coq:  func(a A) string { return app("MSlowLogGet", cZ(a.I[0])) },
		ref:  func(a A) Ref { return sent(T(kw("slowlog"), kw("get"), di(a.I[0]))) }})
	register(method{name: "GeoDist",
		gen: func(r *gen.Rand) A {
			return A{S: []string{gKey(r), gStr(r), gStr(r), gen.Pick(r, []string{"", "km", "KM", "m", "Mi", "ft", "yd", "x"})}}
		},
		call: func(c compat.Cmdable, a A) compat.Cmder { return c.GeoDist(ctx, a.S[0], a.S[1], a.S[2], a.S[3]) },
		coq:  func(a A) string { return app("MGeoDist", cS(a.S[0]), cS(a.S[1]), cS(a.S[2]), cS(a.S[3])) },
		ref: func(a A) Ref {
			u := a.S[3]
			if u == "" {
				u = "km"
			}
			return sent(T(kw("geodist"), d(a.S[0]), d(a.S[1]), d(a.S[2]), kw(u)))
		},
		class: func(a A) (string, string) {
			switch strings.ToUpper(a.S[3]) {
			case "", "M", "KM", "MI", "FT":
				return "", ""
			}
			return siteA + "GeoDist", "invalid-unit-panics"
		}})
	register(method{name: "FunctionList",
		gen: func(r *gen.Rand) A {
			return A{S: []string{gen.Pick(r, []string{"", "lib*", "*"})}, B: []bool{r.Bool()}}
		},
		call: func(c compat.Cmdable, a A) compat.Cmder {
			return c.FunctionList(ctx, compat.FunctionListQuery{LibraryNamePattern: a.S[0], WithCode: a.B[0]})
		},
		coq: func(a A) string { return app("MFunctionList", cS(a.S[0]), cB(a.B[0])) },
		ref: func(a A) Ref {
			return sent(T(kw("function"), kw("list")), If(a.S[0] != "", kw("libraryname"), d(a.S[0])), If(a.B[0], kw("withcode")))
		}})
}
