// tr_hook: translator T-hook (C43).  Regenerates coq/Gen/HookDeleg.v from rueidishook/hook.go: for every
// method of hookclient, dedicated and extended, which callee it invokes (the hook or the wrapped client), with
// which receiver and how the parameters are forwarded, and whether derived clients are wrapped again.
// go/ast only; any method body outside the recognised shapes aborts with file:line (fail closed).
package main

import (
	"bytes"
	"encoding/hex"
	"flag"
	"fmt"
	"go/ast"
	"go/parser"
	"go/printer"
	"go/token"
	"os"
	"path/filepath"
	"sort"
	"strings"
)

var fset = token.NewFileSet()

func die(pos token.Pos, f string, a ...any) {
	where := ""
	if pos.IsValid() {
		where = fset.Position(pos).String() + ": "
	}
	fmt.Fprintf(os.Stderr, "tr_hook: %s"+f+"\n", append([]any{where}, a...)...)
	os.Exit(1)
}

func src(n ast.Node) string {
	var b bytes.Buffer
	_ = printer.Fprint(&b, fset, n)
	return b.String()
}

func norm(s string) string { return strings.Join(strings.Fields(s), " ") }

func packed(s string) string { return "0x01" + hex.EncodeToString([]byte(s)) }

func selPath(e ast.Expr) string {
	switch x := e.(type) {
	case *ast.Ident:
		return x.Name
	case *ast.SelectorExpr:
		p := selPath(x.X)
		if p == "" {
			return ""
		}
		return p + "." + x.Sel.Name
	}
	return ""
}

var wtypes = map[string]string{"hookclient": "WHookclient", "dedicated": "WDedicated", "extended": "WExtended"}

// fields of the wrapper types: which field is the hook, which the wrapped client
type wrapper struct {
	hookField, clientField string
	embedded               string
}

var wrappers = map[string]*wrapper{}

type entry struct {
	typ, method, body string
}

func boolc(b bool) string {
	if b {
		return "true"
	}
	return "false"
}

func main() {
	repo := flag.String("repo", "/repo", "repository under test")
	out := flag.String("out", "", "output .v file")
	flag.Parse()
	if *out == "" {
		die(token.NoPos, "-out required")
	}
	fn := filepath.Join(*repo, "rueidishook/hook.go")
	f, err := parser.ParseFile(fset, fn, nil, 0)
	if err != nil {
		die(token.NoPos, "%v", err)
	}
	// struct declarations
	for _, d := range f.Decls {
		gd, ok := d.(*ast.GenDecl)
		if !ok || gd.Tok != token.TYPE {
			continue
		}
		for _, sp := range gd.Specs {
			ts := sp.(*ast.TypeSpec)
			if _, is := wtypes[ts.Name.Name]; !is {
				if _, isIface := ts.Type.(*ast.InterfaceType); isIface && ts.Name.Name == "Hook" {
					continue
				}
				die(ts.Pos(), "unexpected type %s in hook.go (new wrapper types must be added to the model)", ts.Name.Name)
			}
			st, ok := ts.Type.(*ast.StructType)
			if !ok {
				die(ts.Pos(), "%s is not a struct", ts.Name.Name)
			}
			w := &wrapper{}
			for _, fl := range st.Fields.List {
				ty := norm(src(fl.Type))
				if len(fl.Names) == 0 {
					w.embedded = ty
					continue
				}
				for _, nm := range fl.Names {
					switch {
					case ty == "Hook":
						w.hookField = nm.Name
					case ty == "rueidis.Client" || ty == "*extended":
						w.clientField = nm.Name
					default:
						die(fl.Pos(), "%s.%s has unexpected type %s", ts.Name.Name, nm.Name, ty)
					}
				}
			}
			wrappers[ts.Name.Name] = w
		}
	}
	for n := range wtypes {
		if wrappers[n] == nil {
			die(token.NoPos, "%s: type %s not found", fn, n)
		}
	}
	if wrappers["hookclient"].hookField == "" || wrappers["hookclient"].clientField == "" ||
		wrappers["dedicated"].hookField == "" || wrappers["dedicated"].clientField == "" ||
		wrappers["extended"].embedded != "rueidis.DedicatedClient" {
		die(token.NoPos, "%s: wrapper structs do not have the expected fields (hook, client / embedded rueidis.DedicatedClient)", fn)
	}

	var entries []entry
	for _, d := range f.Decls {
		fd, ok := d.(*ast.FuncDecl)
		if !ok || fd.Recv == nil {
			if ok {
				switch fd.Name.Name {
				case "WithHook":
					want := `func WithHook(client rueidis.Client, hook Hook) rueidis.Client { return &hookclient{client: client, hook: hook} }`
					fd.Doc = nil
					if norm(src(fd)) != want {
						die(fd.Pos(), "WithHook no longer has the shape the model assumes:\n%s", src(fd))
					}
				case "NewErrorResult", "NewErrorResultStream":
				default:
					die(fd.Pos(), "unexpected function %s in hook.go", fd.Name.Name)
				}
			}
			continue
		}
		if len(fd.Recv.List) != 1 || len(fd.Recv.List[0].Names) != 1 {
			die(fd.Pos(), "receiver of %s", fd.Name.Name)
		}
		star, ok := fd.Recv.List[0].Type.(*ast.StarExpr)
		if !ok {
			die(fd.Pos(), "%s: value receiver", fd.Name.Name)
		}
		tn := selPath(star.X)
		w := wrappers[tn]
		if w == nil {
			die(fd.Pos(), "method on unknown type %s", tn)
		}
		recv := fd.Recv.List[0].Names[0].Name
		entries = append(entries, entry{wtypes[tn], fd.Name.Name, bodyOf(fd, tn, recv, w)})
	}
	sort.SliceStable(entries, func(i, j int) bool {
		if entries[i].typ != entries[j].typ {
			return entries[i].typ < entries[j].typ
		}
		return entries[i].method < entries[j].method
	})
	for i := 1; i < len(entries); i++ {
		if entries[i].typ == entries[i-1].typ && entries[i].method == entries[i-1].method {
			die(token.NoPos, "duplicate method %s.%s", entries[i].typ, entries[i].method)
		}
	}
	var b strings.Builder
	b.WriteString("(* Generated by harness/cmd/tr_hook from rueidishook/hook.go — rewritten on every run, never edit. *)\n")
	b.WriteString("From Coq Require Import List NArith Bool.\nRequire Import RV.Model.Hook.\nImport ListNotations.\nOpen Scope N_scope.\n\n")
	b.WriteString("Definition hook_table : list entry := [\n")
	for i, e := range entries {
		sep := ";"
		if i == len(entries)-1 {
			sep = ""
		}
		fmt.Fprintf(&b, "  (* %s.%s *) En %s %s (%s)%s\n", e.typ, e.method, e.typ, packed(e.method), e.body, sep)
	}
	b.WriteString("].\n")
	if err := os.WriteFile(*out, []byte(b.String()), 0o644); err != nil {
		die(token.NoPos, "%v", err)
	}
}

// paramNames returns the parameter names in order and whether the last one is variadic
func paramNames(fd *ast.FuncDecl) (names []string, variadic bool) {
	for _, p := range fd.Type.Params.List {
		_, isV := p.Type.(*ast.Ellipsis)
		for _, n := range p.Names {
			names = append(names, n.Name)
			variadic = isV
		}
	}
	return
}

func bodyOf(fd *ast.FuncDecl, tn, recv string, w *wrapper) string {
	bad := func(what string) string {
		die(fd.Pos(), "method %s.%s not recognised (%s):\n%s", tn, fd.Name.Name, what, src(fd))
		return ""
	}
	stmts := fd.Body.List
	hasResult := fd.Type.Results != nil && len(fd.Type.Results.List) > 0
	// panic("…")
	if len(stmts) == 1 {
		if es, ok := stmts[0].(*ast.ExprStmt); ok {
			if c, ok := es.X.(*ast.CallExpr); ok && selPath(c.Fun) == "panic" && len(c.Args) == 1 {
				if _, isLit := c.Args[0].(*ast.BasicLit); isLit {
					return "BPanic"
				}
			}
		}
	}
	// plain delegation: [return] recv.FIELD.M(args…)
	deleg := func(call *ast.CallExpr, returned bool) (string, bool) {
		se, ok := call.Fun.(*ast.SelectorExpr)
		if !ok {
			return "", false
		}
		obj := ""
		switch selPath(se.X) {
		case recv + "." + w.hookField:
			if w.hookField != "" {
				obj = "OHook"
			}
		case recv + "." + w.clientField:
			if w.clientField != "" {
				obj = "OInner"
			}
		}
		if obj == "" {
			return "", false
		}
		names, variadic := paramNames(fd)
		args := call.Args
		innerFirst := false
		if obj == "OHook" {
			if len(args) > 0 && selPath(args[0]) == recv+"."+w.clientField {
				innerFirst = true
				args = args[1:]
			}
		}
		forwarded := len(args) == len(names) && call.Ellipsis.IsValid() == variadic
		if forwarded {
			for i, a := range args {
				if id, ok := a.(*ast.Ident); !ok || id.Name != names[i] {
					forwarded = false
				}
			}
		}
		for _, a := range args { // arguments must at least be plain identifiers or the wrapped client: anything computed is not recognised
			if _, ok := a.(*ast.Ident); !ok && selPath(a) == "" {
				return "", false
			}
		}
		return fmt.Sprintf("BDeleg %s %s %s %s %s", obj, packed(se.Sel.Name), boolc(innerFirst), boolc(forwarded), boolc(returned)), true
	}
	if len(stmts) == 1 {
		switch s := stmts[0].(type) {
		case *ast.ReturnStmt:
			if len(s.Results) == 1 {
				if call, ok := s.Results[0].(*ast.CallExpr); ok {
					if b, ok := deleg(call, true); ok {
						// a callback argument that is a function literal is the Dedicated shape, handled below
						isLit := false
						for _, a := range call.Args {
							if _, l := a.(*ast.FuncLit); l {
								isLit = true
							}
						}
						if !isLit {
							return b
						}
					}
				}
			}
		case *ast.ExprStmt:
			if call, ok := s.X.(*ast.CallExpr); ok && !hasResult {
				if b, ok := deleg(call, true); ok {
					return b
				}
			}
		}
	}
	// the three derivation shapes, by their printed form
	cf, hf := recv+"."+w.clientField, recv+"."+w.hookField
	body := norm(src(fd.Body))
	wrapD := "&dedicated{client: &extended{DedicatedClient: client}, hook: " + hf + "}"
	switch {
	case body == norm("{ return "+cf+".Dedicated(func(client rueidis.DedicatedClient) error { return fn("+wrapD+") }) }"):
		if names, _ := paramNames(fd); len(names) != 1 || names[0] != "fn" {
			return bad("callback parameter")
		}
		return fmt.Sprintf("BWrapCallback %s WDedicated true true true", packed("Dedicated"))
	case body == norm("{ client, cancel := "+cf+".Dedicate() return "+wrapD+", cancel }"):
		return fmt.Sprintf("BWrapResult %s WDedicated true true true", packed("Dedicate"))
	case body == norm("{ nodes := "+cf+".Nodes() for addr, client := range nodes { nodes[addr] = &hookclient{client: client, hook: "+hf+"} } return nodes }"):
		return fmt.Sprintf("BWrapMap %s WHookclient true true", packed("Nodes"))
	}
	return bad("body shape")
}
