// obs_hook: C43 — a counting hook over a fake rueidis.Client.  Every entry point of the client returned by
// rueidishook.WithHook and of the clients derived from it (Dedicated, Dedicate, Nodes, nested up to depth 3) is
// called once; the fake underlying clients and the hook record what reaches them.  Oracle: a request passes through
// the hook exactly once, the hook is handed the underlying client of exactly that derived client, and the caller
// receives the result the hook returned.  The hook used here performs the same call on the client it was given.
package main

import (
	"context"
	"encoding/json"
	"fmt"
	"strings"
	"time"

	"github.com/redis/rueidis"
	"github.com/redis/rueidis/rueidishook"

	"verifharness/gen"
	"verifharness/obs"
)

type Case struct {
	Path   []string `json:"path"` // node0 | node1 | dedicated | dedicate
	Method string   `json:"method"`
	Stack  int      `json:"stack,omitempty"` // number of stacked hooks: WithHook(…WithHook(fake, h1)…, hn); 0 means 1
}

// ---------------------------------------------------------------- recorder and fakes

type ev struct {
	kind string // hook | inner
	m    string
	id   uint64
}

type rec struct {
	evs []ev
	seq int
}

func (r *rec) result(id uint64, m string) error {
	r.seq++
	return fmt.Errorf("fake:%d:%s:%d", id, m, r.seq)
}

type fake struct {
	id uint64
	r  *rec
}

var _ rueidis.Client = (*fake)(nil)

func (f *fake) note(m string) error {
	f.r.evs = append(f.r.evs, ev{"inner", m, f.id})
	return f.r.result(f.id, m)
}
func (f *fake) B() rueidis.Builder {
	f.note("B")
	return rueidis.VerifBldNewBuilder(rueidis.VerifBldNoSlot)
}
func (f *fake) Do(ctx context.Context, cmd rueidis.Completed) rueidis.RedisResult {
	return rueidis.NewErrorResult(f.note("Do"))
}
func (f *fake) DoMulti(ctx context.Context, multi ...rueidis.Completed) []rueidis.RedisResult {
	return []rueidis.RedisResult{rueidis.NewErrorResult(f.note("DoMulti"))}
}
func (f *fake) DoCache(ctx context.Context, cmd rueidis.Cacheable, ttl time.Duration) rueidis.RedisResult {
	return rueidis.NewErrorResult(f.note("DoCache"))
}
func (f *fake) DoMultiCache(ctx context.Context, multi ...rueidis.CacheableTTL) []rueidis.RedisResult {
	return []rueidis.RedisResult{rueidis.NewErrorResult(f.note("DoMultiCache"))}
}
func (f *fake) DoStream(ctx context.Context, cmd rueidis.Completed) rueidis.RedisResultStream {
	return rueidis.NewErrorResultStream(f.note("DoStream"))
}
func (f *fake) DoMultiStream(ctx context.Context, multi ...rueidis.Completed) rueidis.MultiRedisResultStream {
	return rueidis.NewErrorResultStream(f.note("DoMultiStream"))
}
func (f *fake) Receive(ctx context.Context, subscribe rueidis.Completed, fn func(msg rueidis.PubSubMessage)) error {
	return f.note("Receive")
}
func (f *fake) Dedicated(fn func(rueidis.DedicatedClient) error) error {
	f.note("Dedicated")
	return fn(&fakeDed{id: f.id*10 + 1, r: f.r})
}
func (f *fake) Dedicate() (rueidis.DedicatedClient, func()) {
	f.note("Dedicate")
	return &fakeDed{id: f.id*10 + 1, r: f.r}, func() {}
}
func (f *fake) Nodes() map[string]rueidis.Client {
	f.note("Nodes")
	return map[string]rueidis.Client{"node0": &fake{id: f.id*10 + 2, r: f.r}, "node1": &fake{id: f.id*10 + 3, r: f.r}}
}
func (f *fake) Mode() rueidis.ClientMode { f.note("Mode"); return rueidis.ClientModeStandalone }
func (f *fake) Close()                   { f.note("Close") }

type fakeDed struct {
	id uint64
	r  *rec
}

var _ rueidis.DedicatedClient = (*fakeDed)(nil)

func (f *fakeDed) note(m string) error {
	f.r.evs = append(f.r.evs, ev{"inner", m, f.id})
	return f.r.result(f.id, m)
}
func (f *fakeDed) B() rueidis.Builder {
	f.note("B")
	return rueidis.VerifBldNewBuilder(rueidis.VerifBldNoSlot)
}
func (f *fakeDed) Do(ctx context.Context, cmd rueidis.Completed) rueidis.RedisResult {
	return rueidis.NewErrorResult(f.note("Do"))
}
func (f *fakeDed) DoMulti(ctx context.Context, multi ...rueidis.Completed) []rueidis.RedisResult {
	return []rueidis.RedisResult{rueidis.NewErrorResult(f.note("DoMulti"))}
}
func (f *fakeDed) Receive(ctx context.Context, subscribe rueidis.Completed, fn func(msg rueidis.PubSubMessage)) error {
	return f.note("Receive")
}
func (f *fakeDed) SetPubSubHooks(hooks rueidis.PubSubHooks) <-chan error {
	f.note("SetPubSubHooks")
	return nil
}
func (f *fakeDed) SetOnInvalidations(fn func([]rueidis.RedisMessage)) <-chan error {
	f.note("SetOnInvalidations")
	return nil
}
func (f *fakeDed) Close() { f.note("Close") }

// the hook: record, then perform the same call on the client it was handed
type hook struct {
	r     *rec
	level uint64 // 1 = innermost (applied first)
}

func (h *hook) note(m string) { h.r.evs = append(h.r.evs, ev{"hook", m, h.level}) }
func (h *hook) Do(client rueidis.Client, ctx context.Context, cmd rueidis.Completed) rueidis.RedisResult {
	h.note("Do")
	return client.Do(ctx, cmd)
}
func (h *hook) DoMulti(client rueidis.Client, ctx context.Context, multi ...rueidis.Completed) []rueidis.RedisResult {
	h.note("DoMulti")
	return client.DoMulti(ctx, multi...)
}
func (h *hook) DoCache(client rueidis.Client, ctx context.Context, cmd rueidis.Cacheable, ttl time.Duration) rueidis.RedisResult {
	h.note("DoCache")
	return client.DoCache(ctx, cmd, ttl)
}
func (h *hook) DoMultiCache(client rueidis.Client, ctx context.Context, multi ...rueidis.CacheableTTL) []rueidis.RedisResult {
	h.note("DoMultiCache")
	return client.DoMultiCache(ctx, multi...)
}
func (h *hook) Receive(client rueidis.Client, ctx context.Context, subscribe rueidis.Completed, fn func(msg rueidis.PubSubMessage)) error {
	h.note("Receive")
	return client.Receive(ctx, subscribe, fn)
}
func (h *hook) DoStream(client rueidis.Client, ctx context.Context, cmd rueidis.Completed) rueidis.RedisResultStream {
	h.note("DoStream")
	return client.DoStream(ctx, cmd)
}
func (h *hook) DoMultiStream(client rueidis.Client, ctx context.Context, multi ...rueidis.Completed) rueidis.MultiRedisResultStream {
	h.note("DoMultiStream")
	return client.DoMultiStream(ctx, multi...)
}

// ---------------------------------------------------------------- cases: exhaustive over paths of depth <= 3 x methods

var clientMethods = []string{"Do", "DoMulti", "DoCache", "DoMultiCache", "Receive", "DoStream", "DoMultiStream", "B", "Mode", "Close"}
var dedicatedMethods = []string{"Do", "DoMulti", "Receive", "B", "SetPubSubHooks", "SetOnInvalidations", "Close"}
var requests = map[string]bool{"Do": true, "DoMulti": true, "DoCache": true, "DoMultiCache": true, "Receive": true, "DoStream": true, "DoMultiStream": true}

var allCases []Case

func init() {
	var nodePaths [][]string
	var rec func(p []string, d int)
	rec = func(p []string, d int) {
		nodePaths = append(nodePaths, append([]string(nil), p...))
		if d == 3 {
			return
		}
		rec(append(p, "node0"), d+1)
		rec(append(p, "node1"), d+1)
	}
	rec(nil, 0)
	for stack := 1; stack <= 3; stack++ {
		for _, np := range nodePaths {
			for _, m := range clientMethods {
				allCases = append(allCases, Case{Path: np, Method: m, Stack: stack})
			}
			for _, last := range []string{"dedicated", "dedicate"} {
				for _, m := range dedicatedMethods {
					allCases = append(allCases, Case{Path: append(append([]string(nil), np...), last), Method: m, Stack: stack})
				}
			}
		}
	}
}

func genCase(r *gen.Rand, i int) any { return allCases[(i+int(gen.Seed())*37)%len(allCases)] }

func decode(raw json.RawMessage) (any, error) {
	var c Case
	err := json.Unmarshal(raw, &c)
	return c, err
}

func packed(s string) string { return "0x01" + fmt.Sprintf("%x", []byte(s)) }

func run(ci any) (res obs.Result) {
	c := ci.(Case)
	res.Kind = "client"
	rc := &rec{}
	root := &fake{id: 7, r: rc}
	if c.Stack < 1 {
		c.Stack = 1
	}
	if c.Stack > 8 {
		c.Stack = 8
	}
	var cl rueidis.Client = root
	for l := 1; l <= c.Stack; l++ {
		cl = rueidishook.WithHook(cl, &hook{r: rc, level: uint64(l)})
	}
	var ded rueidis.DedicatedClient
	wantID := uint64(7)
	var derivs []string
	release := func() {}
	ctx := context.Background()
	call := func(fn func()) (panicked string) {
		defer func() {
			if r := recover(); r != nil {
				panicked = fmt.Sprint(r)
			}
		}()
		fn()
		return
	}
	var dedInCallback func(rueidis.DedicatedClient)
	for _, p := range c.Path {
		switch p {
		case "node0", "node1":
			nodes := cl.Nodes()
			n, ok := nodes[p]
			if !ok {
				res.Oracle = "Nodes() lost " + p
				return
			}
			cl = n
			if p == "node0" {
				wantID = wantID*10 + 2
				derivs = append(derivs, "DNode 0")
			} else {
				wantID = wantID*10 + 3
				derivs = append(derivs, "DNode 1")
			}
		case "dedicate":
			ded, release = cl.Dedicate()
			wantID = wantID*10 + 1
			derivs = append(derivs, "DDedicate")
		case "dedicated":
			wantID = wantID*10 + 1
			derivs = append(derivs, "DDedicated")
			dedInCallback = func(d rueidis.DedicatedClient) { ded = d }
		}
	}
	defer release()
	cmd := rueidis.VerifBldNewBuilder(rueidis.VerifBldNoSlot).Get().Key("k").Build().Pin()
	cc := rueidis.VerifBldNewBuilder(rueidis.VerifBldNoSlot).Get().Key("k").Cache().Pin()
	var got string
	do := func() {
		rc.evs = nil // only the call under test
		if ded != nil {
			res.Kind = "dedicated"
			switch c.Method {
			case "Do":
				got = fmt.Sprint(ded.Do(ctx, cmd).Error())
			case "DoMulti":
				got = fmt.Sprint(ded.DoMulti(ctx, cmd)[0].Error())
			case "Receive":
				got = fmt.Sprint(ded.Receive(ctx, cmd, func(rueidis.PubSubMessage) {}))
			case "B":
				ded.B()
			case "SetPubSubHooks":
				ded.SetPubSubHooks(rueidis.PubSubHooks{})
			case "SetOnInvalidations":
				ded.SetOnInvalidations(func([]rueidis.RedisMessage) {})
			case "Close":
				ded.Close()
			}
			return
		}
		switch c.Method {
		case "Do":
			got = fmt.Sprint(cl.Do(ctx, cmd).Error())
		case "DoMulti":
			got = fmt.Sprint(cl.DoMulti(ctx, cmd)[0].Error())
		case "DoCache":
			got = fmt.Sprint(cl.DoCache(ctx, cc, time.Second).Error())
		case "DoMultiCache":
			got = fmt.Sprint(cl.DoMultiCache(ctx, rueidis.CT(cc, time.Second))[0].Error())
		case "Receive":
			got = fmt.Sprint(cl.Receive(ctx, cmd, func(rueidis.PubSubMessage) {}))
		case "DoStream":
			s := cl.DoStream(ctx, cmd)
			got = fmt.Sprint(s.Error())
		case "DoMultiStream":
			s := cl.DoMultiStream(ctx, cmd)
			got = fmt.Sprint(s.Error())
		case "B":
			cl.B()
		case "Mode":
			cl.Mode()
		case "Close":
			cl.Close()
		}
	}
	var pmsg string
	if dedInCallback != nil {
		pmsg = call(func() {
			_ = cl.Dedicated(func(d rueidis.DedicatedClient) error {
				dedInCallback(d)
				do()
				return nil
			})
		})
	} else {
		pmsg = call(do)
	}
	// observation
	var items, sitems []string
	var hookLevels []uint64
	var inners int
	for i, e := range rc.evs {
		switch e.kind {
		case "hook":
			hookLevels = append(hookLevels, e.id)
			id := uint64(0)
			if i+1 < len(rc.evs) && rc.evs[i+1].kind == "inner" {
				id = rc.evs[i+1].id // the client the hook was handed is the one its call reached
			}
			items = append(items, obs.App("EvHook", packed(e.m), obs.N(id)))
			sitems = append(sitems, obs.App("SHook", obs.N(e.id), packed(e.m)))
		case "inner":
			inners++
			items = append(items, obs.App("EvInner", packed(e.m), obs.N(e.id)))
			sitems = append(sitems, obs.App("SInner", packed(e.m), obs.N(e.id)))
		}
	}
	if pmsg != "" {
		items = append(items, "EvPanic")
		sitems = append(sitems, "SPanic")
	}
	last := ""
	if n := len(rc.evs); n > 0 {
		last = fmt.Sprintf("fake:%d:%s:%d", rc.evs[n-1].id, rc.evs[n-1].m, rc.seq)
	}
	unchanged := !requests[c.Method] || got == last
	if c.Stack == 1 {
		res.Coq = obs.App("CCall", "7", obs.List(derivs), packed(c.Method), obs.List(items), obs.Bool(unchanged))
	} else {
		levels := make([]string, 0, c.Stack)
		for l := c.Stack; l >= 1; l-- { // outermost first
			levels = append(levels, fmt.Sprint(l))
		}
		res.Coq = obs.App("CStack", obs.List(levels), "7", obs.List(derivs), packed(c.Method), obs.List(sitems))
	}
	res.Sig = fmt.Sprint(c.Stack, ":", strings.Join(c.Path, "/"), ".", c.Method)
	res.Nontrivial = requests[c.Method]
	res.Obs = map[string]any{"events": fmt.Sprint(rc.evs), "returned": got, "panic": pmsg}
	res.Site, res.Class = "rueidishook/hook.go:"+res.Kind+"."+c.Method, "hook-bypass"
	if requests[c.Method] {
		// every hook of the stack exactly once, outermost first, then the underlying client of exactly this derived client
		wantLevels := make([]uint64, 0, c.Stack)
		for l := c.Stack; l >= 1; l-- {
			wantLevels = append(wantLevels, uint64(l))
		}
		n := len(rc.evs)
		switch {
		case pmsg != "":
			res.Oracle = "panic: " + pmsg
		case fmt.Sprint(hookLevels) != fmt.Sprint(wantLevels):
			res.Oracle = fmt.Sprintf("%s on a stack of %d hooks passed through hooks %v, want each once in the order %v (events %v)", c.Method, c.Stack, hookLevels, wantLevels, rc.evs)
		case inners != 1 || n != c.Stack+1 || rc.evs[n-1].kind != "inner" || rc.evs[n-1].m != c.Method:
			res.Oracle = fmt.Sprintf("%s: unexpected event sequence %v", c.Method, rc.evs)
		case rc.evs[n-1].id != wantID:
			res.Oracle = fmt.Sprintf("%s reached the underlying client %d, the derived client wraps %d", c.Method, rc.evs[n-1].id, wantID)
		case !unchanged:
			res.Oracle = fmt.Sprintf("%s returned %q, the hooks returned %q", c.Method, got, last)
			res.Class = "result-changed"
		}
		for _, e := range rc.evs {
			if e.kind == "hook" && e.m != c.Method && res.Oracle == "" {
				res.Oracle = fmt.Sprintf("%s was routed to hook method %s", c.Method, e.m)
			}
		}
	}
	return
}

func main() {
	obs.Main(obs.Runner{Name: "obs_hook", Salt: 43, Gen: genCase, Decode: decode, Run: run})
}
