// obs_lua: C30 — rueidis.Lua Exec / ExecMulti (real client, retries disabled) against the fake server
// with the scripting engine.  The environment of the model is applied through the server's fault hook,
// one step per script command received (SCRIPT LOAD, EVAL, EVALSHA and the _RO forms): flush the script
// cache first, reject the command with a NOSCRIPT / other error, or execute it and kill the connection
// before the reply.  The scripts write (INCR; GET for read-only values) and then reply with ARGV[1], with an
// error, with a fabricated NOSCRIPT / ERR NOSCRIPT error, or with a NON-error reply that merely looks like
// one: a bulk or status string starting with "NOSCRIPT" / "ERR NOSCRIPT", a string containing it, an integer,
// an array holding such a string.  Direct oracle per call: the body ran at most once (engine run log), NoSha
// values never send EVALSHA/SCRIPT LOAD, read-only values only the _RO commands, EVAL only after an
// EVALSHA answered NOSCRIPT, SCRIPT LOAD (LoadSHA1) only until one succeeded, ExecMulti returns one
// result per LuaExec in order.
package main

import (
	"context"
	"encoding/json"
	"fmt"
	"strconv"
	"strings"
	"sync"
	"time"

	"github.com/redis/rueidis"

	"verifharness/fakeredis"
	"verifharness/gen"
	"verifharness/luaobs"
	"verifharness/obs"
)

type EnvStep struct {
	Flush bool   `json:"flush,omitempty"`
	Fault string `json:"fault,omitempty"` // "" | reject-noscript | reject-err | lost
}

type Op struct {
	Multi bool      `json:"multi,omitempty"`
	Tags  []int     `json:"tags"`
	Env   []EnvStep `json:"env,omitempty"` // applied to the script commands of this op, in order; quiet when exhausted
}

type Case struct {
	Ctor   string `json:"ctor"`   // normal | ro | nosha | ronosha | retryable | load | roload
	Script string `json:"script"` // see scriptKinds
	// Retry: the scenario "cold cache, the fallback EVAL executes but its reply is lost" run with the client's
	// DEFAULT retry policy (all other cases run with DisableRetry); oracle only, no model term
	Retry bool `json:"retry,omitempty"`
	Ops    []Op   `json:"ops"`
}

func genCase(r *gen.Rand, i int) any {
	c := Case{Ctor: gen.Pick(r, []string{"normal", "normal", "ro", "nosha", "ronosha", "retryable", "load", "load", "roload"})}
	switch x := r.Intn(20); {
	case x < 8:
		c.Script = "ret"
	case x < 10:
		c.Script = "err"
	case x < 12:
		c.Script = gen.Pick(r, []string{"noscript", "errnoscript"})
	default:
		c.Script = gen.Pick(r, []string{"ok-bulk-noscript", "ok-bulk-errnoscript", "ok-status-noscript", "ok-status-errnoscript",
			"ok-contains", "ok-int", "ok-array"})
	}
	if r.Chance(1, 8) {
		c.Retry = true
		c.Script = gen.Pick(r, []string{"ret", "ret", "ok-bulk-noscript", "ok-int"}) // scripts of the known-finding class would blur the verdict
		c.Ops = []Op{{Tags: []int{1}, Env: []EnvStep{{}, {Fault: "lost"}}}}
		if r.Chance(1, 2) { // a warm-up Exec, then the cache is flushed right before the EVALSHA
			c.Ops = []Op{{Tags: []int{1}}, {Tags: []int{2}, Env: []EnvStep{{Flush: true}, {Fault: "lost"}}}}
		}
		return c
	}
	tag := 1
	n := 1 + r.Size(8, 3)
	for j := 0; j < n; j++ {
		o := Op{Multi: r.Chance(1, 4)}
		m := 1
		if o.Multi {
			m = r.Size(5, 2)
		}
		for q := 0; q < m; q++ {
			o.Tags = append(o.Tags, tag)
			tag++
		}
		for q := 0; q < 3; q++ {
			if r.Chance(1, 2) {
				break
			}
			e := EnvStep{Flush: r.Chance(1, 3)}
			switch x := r.Intn(10); {
			case x < 4:
			case x < 6:
				e.Fault = "reject-noscript"
			case x < 8:
				e.Fault = "reject-err"
			default:
				if !o.Multi {
					e.Fault = "lost"
				}
			}
			o.Env = append(o.Env, e)
		}
		c.Ops = append(c.Ops, o)
	}
	return c
}

const site = "lua.go:Exec"

// scriptKinds: what the body replies after its side effect, and the model's body term.
// Only "noscript" and "errnoscript" reply with an ERROR that the client classifies as NOSCRIPT.
var scriptKinds = map[string][2]string{
	"ret":                   {"return ARGV[1]", "(BRet KPlain)"},
	"err":                   {"return redis.error_reply('ERR boom ' .. ARGV[1])", "(BErr ERedis)"},
	"noscript":              {"return redis.error_reply('NOSCRIPT fabricated by the script body ' .. ARGV[1])", "(BErr ENoScript)"},
	"errnoscript":           {"return redis.error_reply('ERR NOSCRIPT fabricated by the script body ' .. ARGV[1])", "(BErr ENoScript)"},
	"ok-bulk-noscript":      {"return 'NOSCRIPT user data ' .. ARGV[1]", "(BRet KNoScriptText)"},
	"ok-bulk-errnoscript":   {"return 'ERR NOSCRIPT user data ' .. ARGV[1]", "(BRet KNoScriptText)"},
	"ok-status-noscript":    {"return redis.status_reply('NOSCRIPT status ' .. ARGV[1])", "(BRet KNoScriptText)"},
	"ok-status-errnoscript": {"return redis.status_reply('ERR NOSCRIPT status ' .. ARGV[1])", "(BRet KNoScriptText)"},
	"ok-contains":           {"return 'user data with NOSCRIPT inside ' .. ARGV[1]", "(BRet KPlain)"},
	"ok-int":                {"return tonumber(ARGV[1])", "(BRet KPlain)"},
	"ok-array":              {"return {'NOSCRIPT in an array', 'ERR NOSCRIPT too', ARGV[1]}", "(BRet KPlain)"},
}

func scriptText(kind string, ro bool) string {
	touch := "redis.call('INCR', KEYS[1])"
	if ro {
		touch = "redis.call('GET', KEYS[1])"
	}
	return touch + "; " + scriptKinds[kind][0]
}

// okTerm: a non-error reply as the model sees it: the tag it carries (last number of the text / the integer /
// the last array element) and whether its text starts with NOSCRIPT after an optional "ERR "
func okTerm(m rueidis.RedisMessage) string {
	kind := "KPlain"
	var text string
	switch {
	case m.IsInt64():
		n, _ := m.AsInt64()
		return "(ROk " + strconv.FormatInt(n, 10) + " KPlain)"
	case m.IsArray():
		arr, _ := m.ToArray()
		if len(arr) == 0 {
			return "(ROk 0 KPlain)"
		}
		text, _ = arr[len(arr)-1].ToString()
	default:
		text, _ = m.ToString()
		if strings.HasPrefix(strings.TrimPrefix(text, "ERR "), "NOSCRIPT") {
			kind = "KNoScriptText"
		}
	}
	tag := text
	if i := strings.LastIndexByte(text, ' '); i >= 0 {
		tag = text[i+1:]
	}
	if _, err := strconv.ParseUint(tag, 10, 64); err != nil {
		return "(RErr ERedis)" // not a reply any of the scripts can produce
	}
	return "(ROk " + tag + " " + kind + ")"
}

func classify(res rueidis.RedisResult) string {
	err := res.Error()
	if err == nil {
		m, e := res.ToMessage()
		if e != nil {
			return "(RErr ERedis)"
		}
		return okTerm(m)
	}
	if re, ok := rueidis.IsRedisErr(err); ok {
		if re.IsNoScript() {
			return "(RErr ENoScript)"
		}
		return "(RErr ERedis)"
	}
	return "(RErr ETransport)"
}

func isScriptCmd(argv []string) (kind string, tag string, ok bool) {
	switch strings.ToUpper(argv[0]) {
	case "EVAL":
		return "CEval", argv[len(argv)-1], true
	case "EVAL_RO":
		return "CEvalRo", argv[len(argv)-1], true
	case "EVALSHA":
		return "CEvalsha", argv[len(argv)-1], true
	case "EVALSHA_RO":
		return "CEvalshaRo", argv[len(argv)-1], true
	case "SCRIPT":
		if len(argv) > 1 && strings.EqualFold(argv[1], "LOAD") {
			return "CScriptLoad", "0", true
		}
	}
	return "", "", false
}

// recClient records, for every command Lua.Exec / ExecMulti hands to the client, its argv and retry class
// (Completed.IsRetryable / IsReadOnly) before passing it on.
type issued struct {
	kind, tag           string
	retryable, readOnly bool
}

type recClient struct {
	rueidis.Client
	mu  sync.Mutex
	log []issued
}

func (r *recClient) note(cmd rueidis.Completed) {
	if kind, tag, ok := isScriptCmd(cmd.Commands()); ok {
		r.mu.Lock()
		r.log = append(r.log, issued{kind, tag, cmd.IsRetryable(), cmd.IsReadOnly()})
		r.mu.Unlock()
	}
}

func (r *recClient) Do(ctx context.Context, cmd rueidis.Completed) rueidis.RedisResult {
	r.note(cmd)
	return r.Client.Do(ctx, cmd)
}

func (r *recClient) DoMulti(ctx context.Context, multi ...rueidis.Completed) []rueidis.RedisResult {
	for _, c := range multi {
		r.note(c)
	}
	return r.Client.DoMulti(ctx, multi...)
}

func (r *recClient) Nodes() map[string]rueidis.Client {
	out := map[string]rueidis.Client{}
	for k, v := range r.Client.Nodes() {
		out[k] = &nodeRec{Client: v, parent: r}
	}
	return out
}

// nodeRec: ExecMulti sends SCRIPT LOAD through Nodes(); record those in the parent's log
type nodeRec struct {
	rueidis.Client
	parent *recClient
}

func (n *nodeRec) Do(ctx context.Context, cmd rueidis.Completed) rueidis.RedisResult {
	n.parent.note(cmd)
	return n.Client.Do(ctx, cmd)
}

func run(ci any) (res obs.Result) {
	c := ci.(Case)
	res.Kind = c.Ctor + "/" + c.Script
	res.Site = site
	b, _ := json.Marshal(c)
	res.Sig = string(b)
	env, err := luaobs.New(false)
	if err != nil {
		res.Oracle, res.Class = "cannot connect: "+err.Error(), "harness"
		return
	}
	defer env.Close()
	if c.Retry { // the same server, a client with the library's default retry policy
		env.C.Close()
		env.C, err = rueidis.NewClient(rueidis.ClientOption{InitAddress: []string{"127.0.0.1:6379"}, DialCtxFn: env.S.Dial,
			ForceSingleClient: true, DisableCache: true, PipelineMultiplex: -1})
		if err != nil {
			res.Oracle, res.Class = "cannot connect: "+err.Error(), "harness"
			return
		}
		res.Kind = "retry/" + c.Ctor + "/" + c.Script
	}
	rec := &recClient{Client: env.C}
	fail := func(class, msg string) {
		if res.Oracle == "" {
			res.Oracle, res.Class = msg, class
		}
	}
	// the double run is the property's headline: it replaces a secondary symptom reported for the same call
	failFirst := func(class, msg string) {
		if res.Oracle == "" || res.Class == "eval-without-noscript" {
			res.Oracle, res.Class = msg, class
		}
	}
	ro := c.Ctor == "ro" || c.Ctor == "ronosha" || c.Ctor == "roload"
	nosha := c.Ctor == "nosha" || c.Ctor == "ronosha"
	load := c.Ctor == "load" || c.Ctor == "roload"
	text := scriptText(c.Script, ro)
	var lua *rueidis.Lua
	switch c.Ctor {
	case "normal":
		lua = rueidis.NewLuaScript(text)
	case "ro":
		lua = rueidis.NewLuaScriptReadOnly(text)
	case "nosha":
		lua = rueidis.NewLuaScriptNoSha(text)
	case "ronosha":
		lua = rueidis.NewLuaScriptReadOnlyNoSha(text)
	case "retryable":
		lua = rueidis.NewLuaScriptRetryable(text)
	case "load":
		lua = rueidis.NewLuaScript(text, rueidis.WithLoadSHA1(true))
	case "roload":
		lua = rueidis.NewLuaScriptReadOnly(text, rueidis.WithLoadSHA1(true))
	default:
		fail("harness", "unknown ctor")
		return
	}
	if _, ok := scriptKinds[c.Script]; !ok {
		fail("harness", "unknown script kind "+c.Script)
		return
	}
	bodyTerm := scriptKinds[c.Script][1]
	// the fault hook consumes the current op's environment
	var mu sync.Mutex
	var cur []EnvStep
	var applied []string
	var appliedFault []string
	env.S.Fault = func(_ *fakeredis.Conn, _ int, argv []string) fakeredis.Action {
		if _, _, ok := isScriptCmd(argv); !ok {
			return fakeredis.Action{}
		}
		mu.Lock()
		var e EnvStep
		if len(cur) > 0 {
			e, cur = cur[0], cur[1:]
		}
		flt := "FNone"
		var act fakeredis.Action
		switch e.Fault {
		case "reject-noscript":
			v := fakeredis.Error("NOSCRIPT injected by the harness")
			act.Override, flt = &v, "(FReject ENoScript)"
		case "reject-err":
			v := fakeredis.Error("ERR injected by the harness")
			act.Override, flt = &v, "(FReject ERedis)"
		case "lost":
			act.CloseAfter, flt = true, "FLost"
		}
		appliedFault = append(appliedFault, e.Fault)
		applied = append(applied, fmt.Sprintf("{| flush_before := %s; flt := %s; body := %s |}", obs.Bool(e.Flush), flt, bodyTerm))
		mu.Unlock()
		if e.Flush {
			env.E.Flush()
		}
		return act
	}
	ctx, cancel := context.WithTimeout(context.Background(), 20*time.Second)
	defer cancel()
	var opTerms, obsTerms []string
	var trace []any
	loadSucceeded := false
	scriptCmds := 0 // script commands seen so far = index into appliedFault
	for _, o := range c.Ops {
		mu.Lock()
		cur = append([]EnvStep(nil), o.Env...)
		mu.Unlock()
		logBefore := len(env.S.LogCopy())
		runsBefore := len(env.E.Runs())
		tags := make([]string, len(o.Tags))
		for i, t := range o.Tags {
			tags[i] = strconv.Itoa(t)
		}
		var results []string
		if o.Multi {
			var multi []rueidis.LuaExec
			for _, t := range tags {
				multi = append(multi, rueidis.LuaExec{Keys: []string{"k"}, Args: []string{t}})
			}
			rs := lua.ExecMulti(ctx, rec, multi...)
			for _, r := range rs {
				results = append(results, classify(r))
			}
			opTerms = append(opTerms, obs.App("LMulti", obs.List(tags)))
			obsTerms = append(obsTerms, obs.App("OMany", obs.List(results)))
			if len(rs) != len(multi) {
				fail("multi-length", fmt.Sprintf("ExecMulti returned %d results for %d LuaExec", len(rs), len(multi)))
			} else {
				for i, r := range results {
					if strings.HasPrefix(r, "(ROk ") && !strings.HasPrefix(r, "(ROk "+tags[i]+" ") {
						fail("multi-positional", fmt.Sprintf("result %d is %s, the LuaExec carried %s", i, r, tags[i]))
					}
				}
			}
		} else {
			r := classify(lua.Exec(ctx, rec, []string{"k"}, []string{tags[0]}))
			results = []string{r}
			opTerms = append(opTerms, obs.App("LExec", tags[0]))
			obsTerms = append(obsTerms, obs.App("OOne", r))
		}
		// what the server saw for this op
		var seen []string
		prevNoScript := false
		for _, e := range env.S.LogCopy()[logBefore:] {
			kind, tag, ok := isScriptCmd(e.Argv)
			if !ok {
				continue
			}
			seen = append(seen, kind+":"+tag)
			mu.Lock()
			lost := scriptCmds < len(appliedFault) && appliedFault[scriptCmds] == "lost"
			mu.Unlock()
			scriptCmds++
			// an ERROR reply with the NOSCRIPT prefix (the client drops a leading "ERR ", as kvrocks sends it)
			isNoScript := e.Reply.T == '-' && strings.HasPrefix(strings.TrimPrefix(e.Reply.S, "ERR "), "NOSCRIPT")
			switch kind {
			case "CScriptLoad":
				if nosha {
					fail("nosha-sent-load", "a NoSha script sent SCRIPT LOAD")
				}
				if load && !o.Multi && loadSucceeded && !c.Retry {
					fail("load-after-success", "Exec sent SCRIPT LOAD although an earlier SCRIPT LOAD had succeeded")
				}
				if e.Reply.T == '$' && !lost { // the client saw the SHA-1
					loadSucceeded = true
				}
			case "CEvalsha", "CEvalshaRo":
				if nosha {
					fail("nosha-sent-evalsha", "a NoSha script sent "+e.Argv[0])
				}
			case "CEval", "CEvalRo":
				if !nosha && !o.Multi && !prevNoScript && !c.Retry {
					fail("eval-without-noscript", e.Argv[0]+" was sent although the preceding reply was not a NOSCRIPT error")
				}
			}
			if kind != "CScriptLoad" && (kind == "CEvalRo" || kind == "CEvalshaRo") != ro {
				fail("ro-mismatch", fmt.Sprintf("%s sent by a script with readonly = %v", e.Argv[0], ro))
			}
			prevNoScript = isNoScript && (kind == "CEvalsha" || kind == "CEvalshaRo")
		}
		counts := map[string]int{}
		for _, r := range env.RunsSince(runsBefore) {
			if len(r.Args) == 1 {
				counts[r.Args[0]]++
			}
			if r.Unsupported != "" {
				fail("mini-lua", "script left the mini-Lua subset: "+r.Unsupported)
			}
		}
		for _, t := range tags {
			if counts[t] > 1 {
				class := "ran-twice"
				retriable := c.Ctor == "retryable" || ro // the caller opted in, or the script is read-only: a re-send is legitimate
				if c.Retry && retriable {
					continue
				}
				switch {
				case c.Retry && c.Script != "noscript" && c.Script != "errnoscript":
					class = "fallback-eval-retried" // a non-retryable, writing script was re-sent by the retry loop
				case c.Script == "noscript" || c.Script == "errnoscript":
					class = "script-replies-noscript" // the body's own reply is an ERROR with the NOSCRIPT prefix: known finding
				case strings.HasPrefix(c.Script, "ok-") || c.Script == "ret":
					class = "double-run-on-non-error-reply" // a successful reply, whatever its text, must never trigger the EVAL fallback
				}
				failFirst(class, fmt.Sprintf("the script body ran %d times in one Exec (tag %s, script %q)", counts[t], t, c.Script))
			}
		}
		trace = append(trace, []any{o, results, seen, counts})
	}
	// retry class of every issued command: EVALSHA / EVAL carry the retryable tag iff the script was created retryable,
	// in particular the EVAL sent after NOSCRIPT has the class of the script, not a class of its own
	rec.mu.Lock()
	issuedLog := append([]issued(nil), rec.log...)
	rec.mu.Unlock()
	for _, is := range issuedLog {
		switch is.kind {
		case "CEval", "CEvalsha":
			if is.retryable != (c.Ctor == "retryable") {
				fail("fallback-retry-class", fmt.Sprintf("%s (tag %s) was issued with IsRetryable() = %v by a script created with ctor %q", is.kind, is.tag, is.retryable, c.Ctor))
			}
			if is.readOnly {
				fail("fallback-retry-class", is.kind+" issued as a read-only command")
			}
		case "CEvalRo", "CEvalshaRo":
			if !is.readOnly || !is.retryable {
				fail("fallback-retry-class", fmt.Sprintf("%s issued with IsReadOnly() = %v, IsRetryable() = %v", is.kind, is.readOnly, is.retryable))
			}
		}
	}
	var sent, runs []string
	nScript := 0
	for _, e := range env.S.LogCopy() {
		if kind, tag, ok := isScriptCmd(e.Argv); ok {
			flag := "false"
			if nScript < len(issuedLog) {
				if !c.Retry && (issuedLog[nScript].kind != kind || issuedLog[nScript].tag != tag) {
					fail("harness", "issued commands and server log disagree")
				}
				flag = obs.Bool(issuedLog[nScript].retryable)
			}
			nScript++
			sent = append(sent, "("+kind+", "+tag+", "+flag+")")
		}
	}
	if !c.Retry && nScript != len(issuedLog) {
		fail("harness", fmt.Sprintf("%d script commands issued, %d received", len(issuedLog), nScript))
	}
	for _, r := range env.E.Runs() {
		if len(r.Args) == 1 {
			runs = append(runs, r.Args[0])
		}
	}
	res.Obs = trace
	res.Nontrivial = len(sent) > 0
	optTerm := fmt.Sprintf("{| readonly := %s; nosha := %s; loadsha := %s |}", obs.Bool(ro), obs.Bool(nosha), obs.Bool(load))
	mu.Lock()
	if c.Retry { // retries are outside the model: oracle only
		mu.Unlock()
		return
	}
	res.Coq = obs.App("CLua", optTerm, obs.Bool(c.Ctor == "retryable"), obs.List(applied), obs.List(opTerms), obs.List(obsTerms), obs.List(sent), obs.List(runs))
	mu.Unlock()
	return
}

func main() {
	obs.Main(obs.Runner{
		Name: "obs_lua", Salt: 30,
		Gen: genCase,
		Decode: func(raw json.RawMessage) (any, error) {
			var c Case
			err := json.Unmarshal(raw, &c)
			return c, err
		},
		Run: run,
	})
}
