package main

// Small decision tables enumerated on EVERY run, before the random cases (kinds do / multi): the decisions
// of the case are given explicitly in its description instead of being drawn; the incidental parts (slot
// numbers, slot ranges) still come from the case's fixed seed.
//
// do: first reply {ASK, MOVED} x target {a primary of the learnt topology, a node the client never heard
// of} x {GET, SET} x next reply {value, ASK, MOVED, TRYAGAIN, connection closed after execution} x
// MaxMovedRedirections {default, 1}; and the server-driven variants {slot moved, slot migrating, both} x
// {GET, SET}. Every case issues a second command on the same slot afterwards (ask-rebinds-slot oracle).
//
// multi: plain batches over two slots and MULTI…EXEC batches with commands before and after the block;
// the scripted member {each position, EXEC included} x its reply {MOVED, ASK, TRYAGAIN} x what follows
// {value, MOVED}; and the member's first reply {MOVED, ASK} followed by k = 1..4 x {LOADING, TRYAGAIN, CLUSTERDOWN,
// connection closed after execution}, then a value, under RetryDelay policies {always 0, declines at attempts >= 2,
// >= 3, negative at once}.

import (
	"strings"
	"sync"

	fc "verifharness/fakecluster"
)

type doX struct {
	First   string `json:"first,omitempty"` // ASK | MOVED | "" (no script)
	Unknown bool   `json:"unknown,omitempty"`
	Write   bool   `json:"write,omitempty"`
	Next    string `json:"next,omitempty"` // "" | ASK | MOVED | TRYAGAIN | CLOSEAFTER
	Max     int    `json:"max,omitempty"`
	Migr    int    `json:"migr,omitempty"`
}

type muX struct {
	Batch  string   `json:"batch"` // tokens: g0 s1 (GET / SET on slot 0 / 1), M, E
	At     int      `json:"at"`    // index of the scripted command, -1 = none
	Step   string   `json:"step,omitempty"`
	Next   string   `json:"next,omitempty"`
	Max    int      `json:"max,omitempty"`
	Steps  []string `json:"steps,omitempty"`  // the whole script of the member (replaces Step / Next)
	Policy string   `json:"policy,omitempty"` // RetryDelay: "" = 0 for attempts 1..3 | zero | lt2 | lt3 | never
}

// xPolicies: RetryDelay tables by attempt number (negative beyond the table)
var xPolicies = map[string][]int64{
	"":      {0, 0, 0},
	"zero":  {0, 0, 0, 0, 0, 0, 0, 0}, // never declines within the histories of the table
	"lt2":   {0},                      // declines at attempts >= 2
	"lt3":   {0, 0},                   // declines at attempts >= 3
	"never": {},                       // negative at once
}

const xSeedBase = 0x726f7574652d7800 // fixed: the table is the same on every run

var (
	xOnce  sync.Once
	xCases []Case
)

func xTable() []Case {
	xOnce.Do(func() {
		kinds := "," + *kindsFlag + ","
		add := func(c Case) {
			c.Seed = xSeedBase + uint64(len(xCases))
			xCases = append(xCases, c)
		}
		if strings.Contains(kinds, ",do,") {
			for _, first := range []string{"ASK", "MOVED"} {
				for _, unknown := range []bool{false, true} {
					for _, write := range []bool{false, true} {
						for _, next := range []string{"", "ASK", "MOVED", "TRYAGAIN", "CLOSEAFTER"} {
							for _, mx := range []int{0, 1} {
								add(Case{K: "do", Do: &doX{First: first, Unknown: unknown, Write: write, Next: next, Max: mx}})
							}
						}
					}
				}
			}
			for migr := 1; migr <= 3; migr++ {
				for _, write := range []bool{false, true} {
					add(Case{K: "do", Do: &doX{Write: write, Migr: migr}})
				}
			}
		}
		if strings.Contains(kinds, ",multi,") {
			type bt struct {
				batch string
				at    []int
			}
			for _, b := range []bt{
				{"g0 s1 g0", []int{0, 1, 2}},
				{"s0 g1 s0", []int{0, 1, 2}},
				{"g0 M s0 g0 E s0", []int{0, 2, 3, 4, 5}},
				{"M g0 s0 E", []int{1, 2, 3}},
			} {
				toks := strings.Fields(b.batch)
				add(Case{K: "multi", Mu: &muX{Batch: b.batch, At: -1}})
				for _, at := range b.at {
					for _, step := range []string{"MOVED", "ASK", "TRYAGAIN"} {
						if toks[at] == "E" && step == "TRYAGAIN" {
							continue
						}
						for _, next := range []string{"", "MOVED"} {
							if toks[at] == "E" && next != "" {
								continue
							}
							add(Case{K: "multi", Mu: &muX{Batch: b.batch, At: at, Step: step, Next: next}})
						}
					}
				}
			}
			// a redirect round followed by k retry-class failures of the same member, under policies that depend
			// on the attempt number: the attempt counter of the call must advance with every retry round
			for _, first := range []string{"MOVED", "ASK"} {
				for _, fail := range []string{"LOADING", "TRYAGAIN", "CLUSTERDOWN", "CLOSEAFTER"} {
					for k := 1; k <= 4; k++ {
						for _, pol := range []string{"zero", "lt2", "lt3", "never"} {
							steps := []string{first}
							for j := 0; j < k; j++ {
								steps = append(steps, fail)
							}
							add(Case{K: "multi", Mu: &muX{Batch: "g0 s1 g0", At: 0, Steps: steps, Policy: pol}})
						}
					}
				}
			}
		}
	})
	return xCases
}

// doXSteps: the script of an enumerated do case, once the owner of the slot is known.
func doXSteps(x *doX, l *live, nprim int, owner string) []fc.Step {
	if x.First == "" {
		return nil
	}
	o := indexOf(l.prims[:nprim], owner)
	target := l.prims[(o+1)%nprim]
	if x.Unknown {
		target = l.prims[nprim] // the spare node
	}
	st := []fc.Step{{Kind: x.First, Addr: target}}
	if x.Next != "" {
		st = append(st, fc.Step{Kind: x.Next, Addr: l.prims[(o+2)%nprim]})
	}
	return st
}
