package main

import (
	"encoding/json"
	"fmt"

	"github.com/redis/rueidis"

	fc "verifharness/fakecluster"
	fr "verifharness/fakeredis"
	"verifharness/gen"
	"verifharness/obs"
	ro "verifharness/routeobs"
)

func toV(m ro.Msg) fr.V {
	switch m.T {
	case 0, '_':
		return fr.Nil()
	case ':':
		return fr.Int(m.I)
	case '#':
		return fr.Boolean(m.I != 0)
	case '*', '%', '~', '>':
		a := make([]fr.V, len(m.A))
		for i, x := range m.A {
			a[i] = toV(x)
		}
		return fr.V{T: m.T, A: a}
	case '-':
		return fr.Error(m.S)
	case '+':
		return fr.Simple(m.S)
	case ',':
		return fr.Double(m.S)
	}
	return fr.Bulk(m.S)
}

// wire form of a generated message: what the client decodes after the reply travelled as RESP3
// (maps keep their type, the zero message does not exist on the wire and becomes a null)
func wireMsg(m ro.Msg) ro.Msg {
	if m.T == 0 {
		return ro.Nil()
	}
	if len(m.A) > 0 || m.T == '*' || m.T == '%' || m.T == '~' {
		a := make([]ro.Msg, len(m.A))
		for i, x := range m.A {
			a[i] = wireMsg(x)
		}
		if m.T == '%' && len(a)%2 == 1 {
			a = a[:len(a)-1] // an odd map cannot be encoded; the generator avoids it, this is a guard
		}
		return ro.Msg{T: m.T, A: a}
	}
	return m
}

func fixOddMaps(m ro.Msg) ro.Msg {
	for i := range m.A {
		m.A[i] = fixOddMaps(m.A[i])
	}
	if m.T == '%' && len(m.A)%2 == 1 {
		m.T = '*'
	}
	return m
}

var cfgNames = []string{"CfgDefault", "CfgReplicaOnly", "CfgReplicaSelector", "CfgReadNodeSelector"}

func runTable(c Case) (res obs.Result) {
	r := gen.New(c.Seed)
	res.Kind = "table"
	shards := r.Chance(1, 2)
	version := "7.2.4"
	if shards {
		version = "8.0.0"
	}
	wild := r.Chance(1, 3)
	es := genTopo(r, wild)
	var m ro.Msg
	if shards {
		m = shardsMsg(es, false)
	} else {
		m = slotsMsg(es)
	}
	mutated := false
	if r.Chance(1, 4) {
		mutated = true
		m = mutate(r, m, 0)
	}
	m = wireMsg(fixOddMaps(m))
	if len(m.A) == 0 || (m.T != '*' && m.T != '~') {
		m = ro.Arr(ro.Arr(ro.Int(0), ro.Int(5), ro.Arr(ro.Str("10.0.0.9"), ro.Int(1))))
		if shards {
			m = shardsMsg(es[:1], false)
		}
		mutated = true // the direct oracle below reads es, which no longer describes m
	}
	cfg := r.Intn(4)
	sel := make([]int64, r.Range(1, 5))
	for i := range sel {
		sel[i] = int64(gen.Pick(r, []int{0, 0, 1, 1, 2, -1, 5, 1 << 20}))
	}
	cl := fc.New(version)
	cl.AddNode(defaultAddr, "")
	v := toV(m)
	cl.View = func(node string, sh bool) *fr.V { return &v }
	opt := rueidis.ClientOption{InitAddress: []string{defaultAddr}, DialCtxFn: cl.Dial, DisableCache: true, PipelineMultiplex: -1}
	pick := func(slot uint16, n int) int { return int(sel[int(slot)%len(sel)]) }
	switch cfg {
	case 1:
		opt.ReplicaOnly = true
	case 2:
		opt.SendToReplicas = func(cmd rueidis.Completed) bool { return cmd.IsReadOnly() }
		opt.ReplicaSelector = func(slot uint16, replicas []rueidis.NodeInfo) int { return pick(slot, len(replicas)) }
	case 3:
		opt.SendToReplicas = func(cmd rueidis.Completed) bool { return cmd.IsReadOnly() }
		opt.ReadNodeSelector = func(slot uint16, nodes []rueidis.NodeInfo) int { return pick(slot, len(nodes)) }
	}
	var cli rueidis.Client
	var err error
	panicked := true
	func() {
		defer func() { _ = recover() }()
		cli, err = rueidis.NewClient(opt)
		panicked = false
	}()
	res.Site = "cluster.go:_refresh"
	if panicked {
		res.Oracle, res.Class = "NewClient panicked on a topology reply", "panic"
		res.Obs = m
		return
	}
	if err != nil || cli == nil {
		res.Kind = "table-err"
		res.Obs = fmt.Sprint(err)
		return
	}
	defer cli.Close()
	// probes: range boundaries ±1 and a few fixed / random slots
	set := map[int]bool{0: true, 1: true, 16383: true, 16382: true, 8191: true}
	for _, e := range es {
		for _, rg := range e.Ranges {
			for _, x := range []int64{rg[0] - 1, rg[0], rg[0] + 1, rg[1] - 1, rg[1], rg[1] + 1} {
				if x >= 0 && x < 16384 {
					set[int(x)] = true
				}
			}
		}
	}
	for i := 0; i < 6; i++ {
		set[r.Intn(16384)] = true
	}
	var slots []uint16
	for s := range set {
		slots = append(slots, uint16(s))
	}
	sortU16(slots)
	w, rr, ok := rueidis.VerifRouteClusterTable(cli, slots)
	if !ok {
		res.Kind = "table-notcluster"
		return
	}
	rinit := len(rr) > 0 && rr[0] != nil
	probes := make([]string, len(slots))
	for i, s := range slots {
		probes[i] = "(" + obs.Z(int64(s)) + ", " + ro.OptAddr(w[i]) + ", " + ro.Addrs(rr[i]) + ")"
	}
	res.Coq = obs.App("CTable", cfgNames[cfg], obs.Bool(shards), "false", obs.HS("127.0.0.1"), m.Coq(), zlist(sel), obs.Bool(rinit), obs.List(probes))
	b, _ := json.Marshal(m)
	res.Sig = fmt.Sprint("table", cfg, sel, string(b))
	res.Nontrivial = true
	res.Obs = map[string]any{"cfg": cfgNames[cfg], "w": w, "slots": slots, "mutated": mutated}
	// direct oracle on clean, non-overlapping topologies: the slot of a listed range goes to the primary of its group
	if !mutated && !wild {
		for i, s := range slots {
			want, reps := "", []string{}
			for _, e := range es {
				var master *nodeDesc
				reps2 := []string{}
				for j := range e.Nodes {
					n := &e.Nodes[j]
					if n.Host == "?" || (shards && n.Health != "online") {
						continue
					}
					if (shards && n.Role == "master") || (!shards && j == 0) {
						master = n
					} else {
						reps2 = append(reps2, epAddr(*n, false))
					}
				}
				if master == nil || (!shards && e.Nodes[0].Host == "?") {
					continue
				}
				for _, rg := range e.Ranges {
					if int64(s) >= rg[0] && int64(s) <= rg[1] {
						want, reps = epAddr(*master, false), reps2
					}
				}
			}
			switch {
			case cfg == 1 && len(reps) > 0:
				if !contains(reps, w[i]) {
					res.Oracle, res.Class = fmt.Sprintf("ReplicaOnly: slot %d routed to %q, replicas of its group are %v", s, w[i], reps), "table-replicaonly"
				}
			default:
				if w[i] != want {
					res.Oracle, res.Class = fmt.Sprintf("slot %d routed to %q, the primary of its group is %q", s, w[i], want), "table"
				}
			}
			if res.Oracle != "" {
				break
			}
		}
	}
	return
}

func contains(xs []string, x string) bool {
	for _, y := range xs {
		if y == x {
			return true
		}
	}
	return false
}

func sortU16(xs []uint16) {
	for i := 1; i < len(xs); i++ {
		for j := i; j > 0 && xs[j-1] > xs[j]; j-- {
			xs[j-1], xs[j] = xs[j], xs[j-1]
		}
	}
}
