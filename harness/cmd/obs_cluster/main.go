// obs_cluster: C19 / C20 (and the cluster part of C28) — topology parsing, slot table, redirect
// chains of single commands and batches on the simulated cluster (harness/fakecluster), run through
// the real client built from the working tree.
//
// kinds: endpoint | slots | shards (pure parsers, incl. malformed replies) | table (NewClient against
// a node that serves a generated topology, tables probed through zz_verif_route.go) | do (one keyed
// command with a scripted / migrated redirect chain) | multi (a batch over several slots or with a
// MULTI…EXEC block, with per-command reactions).
package main

import (
	"context"
	"encoding/json"
	"flag"
	"fmt"
	"net"
	"os"
	"sort"
	"strconv"
	"strings"
	"time"

	"github.com/redis/rueidis"

	fc "verifharness/fakecluster"
	fr "verifharness/fakeredis"
	"verifharness/gen"
	"verifharness/obs"
	ro "verifharness/routeobs"
)

type Case struct {
	K    string `json:"k"`
	Seed uint64 `json:"seed"`
	Do   *doX   `json:"do,omitempty"` // enumerated decision tables (xtable.go)
	Mu   *muX   `json:"mu,omitempty"`
}

var kindsFlag = flag.String("kinds", "endpoint,enc,slots,shards,table,do,multi", "case kinds to generate")
var propFlag = flag.String("prop", "C19", "which property's direct oracle is evaluated: C19 | C20 | C28")

var enumFlag = flag.Bool("enum", true, "run the enumerated decision tables (xtable.go) before the random cases")

func genCase(r *gen.Rand, i int) any {
	if xs := xTable(); *enumFlag && i < len(xs) {
		return xs[i]
	}
	ks := strings.Split(*kindsFlag, ",")
	return Case{K: gen.Pick(r, ks), Seed: r.U64() ^ ro.SeedMix()}
}

// ---------------------------------------------------------------------------------------------
// generated topologies (pure)

var hostPool = []string{"10.0.0.1", "10.0.0.2", "10.0.0.3", "10.0.0.4", "h1.example", "::1", "", "?"}

type nodeDesc struct {
	Host   string
	Port   int64
	Health string
	Role   string
	TLS    int64
}

type entryDesc struct {
	Ranges [][2]int64
	Nodes  []nodeDesc // first = master for SLOTS; SHARDS: by Role
}

func genRanges(r *gen.Rand, n int) [][][2]int64 {
	// a partition of [0,16383] into n owners with 1-2 ranges each, sometimes disturbed
	cuts := []int64{0}
	k := n + r.Intn(n+1)
	for i := 0; i < k-1; i++ {
		cuts = append(cuts, int64(r.Range(1, 16383)))
	}
	cuts = append(cuts, 16384)
	sort.Slice(cuts, func(i, j int) bool { return cuts[i] < cuts[j] })
	out := make([][][2]int64, n)
	for i := 0; i+1 < len(cuts); i++ {
		if cuts[i] == cuts[i+1] {
			continue
		}
		o := i % n
		out[o] = append(out[o], [2]int64{cuts[i], cuts[i+1] - 1})
	}
	return out
}

func genTopo(r *gen.Rand, wild bool) []entryDesc {
	n := r.Range(1, 4)
	rg := genRanges(r, n)
	es := make([]entryDesc, n)
	port := int64(7000)
	for i := range es {
		es[i].Ranges = rg[i]
		nn := 1 + r.Intn(3)
		for j := 0; j < nn; j++ {
			h := gen.Pick(r, hostPool[:6])
			if r.Chance(1, 6) {
				h = gen.Pick(r, hostPool)
			}
			nd := nodeDesc{Host: h, Port: port, Health: "online", Role: "replica"}
			port++
			if j == 0 {
				nd.Role = "master"
			}
			if r.Chance(1, 8) {
				nd.Health = gen.Pick(r, []string{"fail", "loading", ""})
			}
			if r.Chance(1, 8) {
				nd.TLS = port + 1000
			}
			es[i].Nodes = append(es[i].Nodes, nd)
		}
		if wild && r.Chance(1, 3) {
			switch r.Intn(5) {
			case 0:
				es[i].Ranges = append(es[i].Ranges, [2]int64{int64(r.Range(-5, 5)), int64(r.Range(16380, 16390))})
			case 1:
				es[i].Ranges = append(es[i].Ranges, [2]int64{int64(r.Range(100, 200)), int64(r.Range(0, 99))})
			case 2:
				es[i].Ranges = append(es[i].Ranges, [2]int64{-3, 10})
			case 3:
				es[i].Ranges = append(es[i].Ranges, [2]int64{16383, 1 << 40})
			case 4:
				if len(es[i].Nodes) > 1 {
					es[i].Nodes[1].Role = "master" // two masters in one shard
				}
			}
		}
	}
	if wild && n > 1 && r.Chance(1, 4) {
		es[1].Nodes[0].Host, es[1].Nodes[0].Port = es[0].Nodes[0].Host, es[0].Nodes[0].Port // same master listed twice
	}
	return es
}

func slotsMsg(es []entryDesc) ro.Msg {
	var out []ro.Msg
	for _, e := range es {
		for _, rg := range e.Ranges {
			it := []ro.Msg{ro.Int(rg[0]), ro.Int(rg[1])}
			for _, n := range e.Nodes {
				it = append(it, ro.Arr(ro.Str(n.Host), ro.Int(n.Port), ro.Str("id")))
			}
			out = append(out, ro.Arr(it...))
		}
	}
	return ro.Arr(out...)
}

func shardsMsg(es []entryDesc, resp2 bool) ro.Msg {
	mk := ro.MapOf
	if resp2 {
		mk = ro.Arr
	}
	var out []ro.Msg
	for _, e := range es {
		var sl []ro.Msg
		for _, rg := range e.Ranges {
			sl = append(sl, ro.Int(rg[0]), ro.Int(rg[1]))
		}
		var ns []ro.Msg
		for _, n := range e.Nodes {
			kv := []ro.Msg{ro.Str("id"), ro.Str("x"), ro.Str("port"), ro.Int(n.Port), ro.Str("ip"), ro.Str(n.Host), ro.Str("endpoint"), ro.Str(n.Host),
				ro.Str("role"), ro.Str(n.Role), ro.Str("replication-offset"), ro.Int(0)}
			if n.Health != "" {
				kv = append(kv, ro.Str("health"), ro.Str(n.Health))
			}
			if n.TLS != 0 {
				kv = append(kv, ro.Str("tls-port"), ro.Int(n.TLS))
			}
			ns = append(ns, mk(kv...))
		}
		out = append(out, mk(ro.Str("slots"), ro.Arr(sl...), ro.Str("nodes"), ro.Arr(ns...)))
	}
	return ro.Arr(out...)
}

// mutate replaces / drops / duplicates a random sub-tree.
func mutate(r *gen.Rand, m ro.Msg, depth int) ro.Msg {
	repl := func() ro.Msg {
		return gen.Pick(r, []ro.Msg{ro.Nil(), {}, ro.Int(7), ro.Int(-1), ro.Str("x"), ro.Str("123"), ro.Str("-99999999999999999999"), ro.Str("+5"),
			ro.Str(""), ro.Str("?"), ro.Arr(), ro.Arr(ro.Str("a")), ro.MapOf(), ro.ErrMsg("ERR x"), {T: '#', I: 1}, {T: ',', S: "1.5"}, ro.Arr(ro.Int(1), ro.Int(2), ro.Int(3))})
	}
	if len(m.A) == 0 || depth > 5 || r.Chance(1, 5) {
		return repl()
	}
	a := append([]ro.Msg{}, m.A...)
	i := r.Intn(len(a))
	switch r.Intn(6) {
	case 0:
		a = append(a[:i], a[i+1:]...)
	case 1:
		a = append(a[:i+1], a[i:]...)
	case 2:
		a = a[:i]
	case 3:
		if m.T == '%' {
			m.T = '*'
		} else {
			a[i] = mutate(r, a[i], depth+1)
		}
	default:
		a[i] = mutate(r, a[i], depth+1)
	}
	m.A = a
	return m
}

func igroups(gs []rueidis.VerifRouteGroup) string {
	return obs.ListOf(gs, func(g rueidis.VerifRouteGroup) string {
		sl := make([]string, len(g.Slots))
		for i, s := range g.Slots {
			sl[i] = "(" + obs.Z(s[0]) + ", " + obs.Z(s[1]) + ")"
		}
		return "(" + ro.Addr(g.Master) + ", " + ro.Addrs(g.Nodes) + ", " + obs.List(sl) + ")"
	})
}

const defaultAddr = "127.0.0.1:7000"

func hostOf(a string) string {
	h, _, err := net.SplitHostPort(a)
	if err != nil {
		return ""
	}
	return h
}

func joinHP(h string, p int64) string {
	if strings.Contains(h, ":") {
		return "[" + h + "]:" + strconv.FormatInt(p, 10)
	}
	return h + ":" + strconv.FormatInt(p, 10)
}

func epAddr(n nodeDesc, tls bool) string {
	if n.Host == "?" {
		return ""
	}
	h := n.Host
	if h == "" {
		h = "127.0.0.1"
	}
	p := n.Port
	if tls && n.TLS > 0 {
		p = n.TLS
	}
	return joinHP(h, p)
}

func runParse(c Case) (res obs.Result) {
	r := gen.New(c.Seed)
	res.Kind = c.K
	switch c.K {
	case "endpoint":
		ep := gen.Pick(r, hostPool)
		port := int64(r.Range(-1, 70000))
		fb := gen.Pick(r, []string{defaultAddr, "[::1]:6379", "nohostport", "h.example:1"})
		got := rueidis.VerifRouteParseEndpoint(fb, ep, port)
		dh := obs.HS(hostOf(fb))
		res.Coq = obs.App("CParseEndpoint", dh, obs.HS(ep), obs.Z(port), ro.OptAddr(got))
		res.Sig = fmt.Sprint(c.K, fb, ep, port)
		res.Nontrivial = true
		res.Obs = got
		if ep == "?" && got != "" {
			res.Oracle = "endpoint ? produced an address " + got
		}
		if ep != "?" && ep != "" && got != joinHP(ep, port) {
			res.Oracle = fmt.Sprintf("endpoint %q port %d gave %q", ep, port, got)
		}
		res.Site, res.Class = "cluster.go:parseEndpoint", "endpoint"
		return
	}
	wild := r.Chance(1, 3)
	es := genTopo(r, wild)
	shards := c.K == "shards"
	tls := shards && r.Chance(1, 3)
	var m ro.Msg
	if shards {
		m = shardsMsg(es, r.Chance(1, 3))
	} else {
		m = slotsMsg(es)
	}
	mutated := false
	if r.Chance(2, 5) {
		mutated = true
		for k := r.Range(1, 3); k > 0; k-- {
			m = mutate(r, m, 0)
		}
	}
	var got []rueidis.VerifRouteGroup
	panicked := true
	func() {
		defer func() { _ = recover() }()
		if shards {
			got = rueidis.VerifRouteParseShards(m.Redis(), defaultAddr, tls)
		} else {
			got = rueidis.VerifRouteParseSlots(m.Redis(), defaultAddr)
		}
		panicked = false
	}()
	impl := obs.Panic
	if !panicked {
		impl = obs.Ok(igroups(got))
	}
	if shards {
		res.Coq = obs.App("CParseShards", obs.HS("127.0.0.1"), obs.Bool(tls), m.Coq(), impl)
	} else {
		res.Coq = obs.App("CParseSlots", obs.HS("127.0.0.1"), m.Coq(), impl)
	}
	b, _ := json.Marshal(m)
	res.Sig = c.K + string(b)
	res.Nontrivial = len(m.A) > 0
	res.Obs = map[string]any{"panic": panicked, "groups": got, "mutated": mutated}
	site := "cluster.go:parseSlots"
	if shards {
		site = "cluster.go:parseShards"
	}
	res.Site = site
	if panicked {
		res.Oracle, res.Class = "topology parser panicked", "panic"
		return
	}
	if !mutated {
		// independent reading of the generated topology
		by := map[string]rueidis.VerifRouteGroup{}
		for _, g := range got {
			by[g.Master] = g
		}
		listed := map[string]bool{}
		for _, e := range es {
			var master *nodeDesc
			for i := range e.Nodes {
				n := &e.Nodes[i]
				if shards {
					if n.Health == "online" && n.Host != "?" && n.Role == "master" {
						master = n // the last healthy master of the shard
					}
				} else if i == 0 && n.Host != "?" {
					master = n
				}
			}
			if master == nil {
				continue
			}
			if !shards && len(e.Ranges) == 0 {
				// CLUSTER SLOTS has one row per range: a primary that serves no slot is not in the reply at all
				// (genRanges leaves an owner without range when two cuts coincide)
				continue
			}
			ma := epAddr(*master, tls)
			if shards {
				listed[ma] = true
			}
			g, ok := by[ma]
			if !ok {
				res.Oracle, res.Class = "no group for the primary "+ma, "range-lost"
				return
			}
			if len(g.Nodes) == 0 || g.Nodes[0] != ma {
				res.Oracle, res.Class = "primary is not first in its group "+ma, "primary-first"
				return
			}
			if !shards || !wild {
				for _, rg := range e.Ranges {
					found := false
					for _, s := range g.Slots {
						if s == rg {
							found = true
						}
					}
					if !found && !(shards && dupMaster(es, ma, tls)) {
						res.Oracle, res.Class = fmt.Sprintf("range %v of %s is not in its group", rg, ma), "range-lost"
						return
					}
				}
			}
			for _, n := range e.Nodes {
				bad := n.Host == "?" || (shards && n.Health != "online")
				a := epAddr(n, tls)
				if n.Host == "?" {
					continue
				}
				for _, gn := range g.Nodes {
					if bad && gn == a && !sameAddrHealthy(e, a, tls, shards) {
						res.Oracle, res.Class = "unhealthy / endpoint-less node kept: "+a, "skip"
						return
					}
				}
			}
		}
	}
	return
}

func dupMaster(es []entryDesc, ma string, tls bool) bool {
	n := 0
	for _, e := range es {
		for _, nd := range e.Nodes {
			if nd.Role == "master" && epAddr(nd, tls) == ma {
				n++
			}
		}
	}
	return n > 1
}

func sameAddrHealthy(e entryDesc, a string, tls, shards bool) bool {
	for _, n := range e.Nodes {
		if epAddr(n, tls) == a && n.Host != "?" && (!shards || n.Health == "online") {
			return true
		}
	}
	return false
}

// ---------------------------------------------------------------------------------------------
// live cluster helpers

func addrOf(i int) string { return "127.0.0.1:" + strconv.Itoa(7000+i) }

type live struct {
	cl    *fc.Cluster
	prims []string
}

func newLive(r *gen.Rand, version string, nprim int, spare bool) *live {
	cl := fc.New(version)
	l := &live{cl: cl}
	for i := 0; i < nprim; i++ {
		l.prims = append(l.prims, addrOf(i))
		cl.AddNode(addrOf(i), "")
	}
	rg := genRanges(r, nprim)
	for i, rs := range rg {
		for _, x := range rs {
			cl.Assign(int(x[0]), int(x[1]), addrOf(i))
		}
	}
	if spare {
		cl.AddNode(addrOf(nprim), "") // serves no slot: unknown to a client that learnt CLUSTER SLOTS
		l.prims = append(l.prims, addrOf(nprim))
	}
	return l
}

// delayFn answers from the table and records every consultation with its position in the arrival order.
func delayFn(tab []int64, l *ro.ConsultLog, cl *fc.Cluster) rueidis.RetryDelayFn {
	return ro.DelayFn(tab, l, cl.Seq)
}

func genDelays(r *gen.Rand) []int64 {
	n := r.Range(0, 4)
	d := make([]int64, n)
	for i := range d {
		d[i] = gen.Pick(r, []int64{0, 0, 0, 1000, -1})
	}
	return d
}

func zlist(xs []int64) string { return obs.ListOf(xs, obs.Z) }

func replyOfArrival(a fc.Arrival) ro.Reply {
	switch a.Step {
	case "CLOSEBEFORE", "CLOSEAFTER", "MIDREPLY", "DROP":
		return ro.Reply{Kind: "transport"}
	}
	if !a.Done {
		return ro.Reply{Kind: "transport"}
	}
	return replyOfV(a.Reply)
}

func replyOfV(v fr.V) ro.Reply {
	switch v.T {
	case '-':
		return ro.ClassifyText(v.S)
	case '_':
		return ro.Reply{Kind: "nil"}
	}
	return ro.Reply{Kind: "val", Val: valOfV(v)}
}

func valOfV(v fr.V) uint64 {
	switch v.T {
	case '+', '$':
		switch v.S {
		case "OK":
			return 1
		case "QUEUED":
			return 2
		}
		return ro.Hash("s:" + v.S)
	case ':':
		return ro.Hash("i:" + strconv.FormatInt(v.I, 10))
	case '*', '~':
		parts := make([]string, len(v.A))
		for i, e := range v.A {
			switch e.T {
			case '_':
				parts[i] = "e:redis nil message"
			case '-':
				parts[i] = "e:" + strings.TrimPrefix(e.S, "ERR ")
			default:
				parts[i] = strconv.FormatUint(valOfV(e), 10)
			}
		}
		return ro.Hash("a:" + strings.Join(parts, ","))
	}
	return ro.Hash("other")
}

func probe1(c rueidis.Client, slot int) string {
	w, _, _ := rueidis.VerifRouteClusterTable(c, []uint16{uint16(slot)})
	return w[0]
}

var stepKinds = []string{"MOVED", "MOVED", "ASK", "ASK", "TRYAGAIN", "CLUSTERDOWN", "LOADING", "ERR", "CLOSEAFTER", "CLOSEBEFORE", ""}

func genSteps(r *gen.Rand, l *live, n int, transport bool) []fc.Step {
	var st []fc.Step
	for i := 0; i < n; i++ {
		k := gen.Pick(r, stepKinds)
		if !transport && strings.HasPrefix(k, "CLOSE") {
			k = "TRYAGAIN"
		}
		st = append(st, fc.Step{Kind: k, Addr: gen.Pick(r, l.prims)})
	}
	return st
}

func stepsDesc(st []fc.Step) string {
	s := make([]string, len(st))
	for i, x := range st {
		s[i] = x.Kind
		if x.Kind == "MOVED" || x.Kind == "ASK" {
			s[i] += ">" + x.Addr
		}
	}
	return strings.Join(s, ",")
}

// ---------------------------------------------------------------------------------------------
// kind do

func runDo(c Case) (res obs.Result) {
	res.Kind = "do"
	for try := 0; try < 4; try++ {
		var raced bool
		res, raced = runDoOnce(c, try)
		if !raced {
			return res
		}
	}
	res.Coq, res.Oracle, res.Nontrivial = "", "", false
	res.Kind = "do-raced"
	return
}

func runDoOnce(c Case, try int) (res obs.Result, raced bool) {
	r := gen.New(c.Seed)
	res.Kind = "do"
	version := gen.Pick(r, []string{"7.2.4", "7.2.4", "8.0.0"})
	nprim := r.Range(2, 4)
	spare := r.Chance(1, 3)
	// scale-out scenario: the first reply is an ASK / MOVED to a node that joined after the client learnt the
	// topology (CLUSTER SLOTS does not list a node without slots)
	scaleOut := r.Chance(1, 6)
	if scaleOut {
		version, spare = "7.2.4", true
	}
	x := c.Do
	if x != nil {
		version, nprim, spare, scaleOut = "7.2.4", 3, true, false
	}
	l := newLive(r, version, nprim, spare)
	slot := r.Intn(16384)
	key := "{" + fc.TagFor(slot) + "}k"
	write := r.Chance(1, 2)
	if x != nil {
		write = x.Write
	}
	argv := []string{"GET", key}
	if write {
		argv = []string{"SET", key, "v"}
	}
	nsteps := gen.Pick(r, []int{0, 1, 1, 2, 2, 3, 4, 6})
	steps := genSteps(r, l, nsteps, true)
	if scaleOut {
		steps = append([]fc.Step{{Kind: gen.Pick(r, []string{"ASK", "ASK", "MOVED"}), Addr: l.prims[nprim]}}, steps...)
	}
	if spareNode := len(l.prims) > nprim; spareNode {
		// ASK / MOVED to a node the client has never heard of (not in the topology answer, not in InitAddress)
		for i := range steps {
			if (steps[i].Kind == "ASK" || steps[i].Kind == "MOVED") && r.Chance(1, 2) {
				steps[i].Addr = l.prims[nprim]
			}
		}
	}
	migr := r.Intn(4) // 0 none, 1 slot moved after the client learnt the topology, 2 slot migrating (ASK), 3 both in sequence
	maxRedir := gen.Pick(r, []int{0, 0, 1, 2, 3})
	disableRetry := r.Chance(1, 4)
	delays := genDelays(r)
	if x != nil {
		migr, maxRedir, disableRetry, delays = x.Migr, x.Max, false, []int64{0, 0, 0}
	}
	dlog := &ro.ConsultLog{}
	cli, err := rueidis.NewClient(rueidis.ClientOption{InitAddress: []string{l.prims[0]}, DialCtxFn: l.cl.Dial, DisableCache: true, PipelineMultiplex: -1,
		DisableRetry: disableRetry, RetryDelay: delayFn(delays, dlog, l.cl), ClusterOption: rueidis.ClusterOption{MaxMovedRedirections: maxRedir}})
	if err != nil {
		res.Oracle, res.Site, res.Class = "harness: NewClient failed: "+err.Error(), "harness", "setup"
		return
	}
	defer cli.Close()
	topos := l.cl.Topos()
	given := topos[len(topos)-1].Owner
	if x != nil {
		steps = doXSteps(x, l, nprim, given[slot])
		if x.First == "ASK" && x.Next == "" {
			// a real migration instead of a scripted reply: the target is importing the slot and serves it under ASKING
			l.cl.StartMigration(slot, steps[0].Addr)
			steps = nil
		}
	}
	// the world moves on after the client learnt the topology
	other := l.prims[(r.Intn(nprim-1)+1+indexOf(l.prims, given[slot]))%nprim]
	switch migr {
	case 1:
		l.cl.MoveSlot(slot, other)
	case 2:
		l.cl.StartMigration(slot, other)
	case 3:
		l.cl.MoveSlot(slot, other)
		l.cl.StartMigration(slot, l.prims[(indexOf(l.prims, other)+1)%nprim])
	}
	l.cl.SetScript(argv, steps...)
	w0 := probe1(cli, slot)
	known := rueidis.VerifRouteClusterConns(cli)
	ntopo := len(topos)
	var cmd rueidis.Completed
	if write {
		cmd = cli.B().Set().Key(key).Value("v").Build()
	} else {
		cmd = cli.B().Get().Key(key).Build()
	}
	ctx, cancel := context.WithTimeout(context.Background(), 20*time.Second)
	resp := cli.Do(ctx, cmd)
	cancel()
	final := ro.ClassifyResult(resp)
	wAfter := probe1(cli, slot)
	if len(l.cl.Topos()) != ntopo {
		return res, true
	}
	// a second command on the same slot, right after: where does its first send go?
	argv2 := []string{"GET", "{" + fc.TagFor(slot) + "}second"}
	ctx2, cancel2 := context.WithTimeout(context.Background(), 20*time.Second)
	cli.Do(ctx2, cli.B().Get().Key(argv2[1]).Build())
	cancel2()
	if len(l.cl.Topos()) != ntopo {
		return res, true
	}
	var arr2 []fc.Arrival
	for _, a := range l.cl.Arrivals() {
		if strings.Join(a.Argv, " ") == strings.Join(argv2, " ") {
			arr2 = append(arr2, a)
		}
	}
	var arr []fc.Arrival
	for _, a := range l.cl.Arrivals() {
		if strings.Join(a.Argv, " ") == strings.Join(argv, " ") {
			arr = append(arr, a)
		}
	}
	env := make([]string, len(arr))
	sends := make([]string, len(arr))
	ticks := make([]ro.Reply, len(arr))
	obsSends := []string{}
	for i, a := range arr {
		ticks[i] = replyOfArrival(a)
		env[i] = "(" + ticks[i].Coq() + ", " + obs.Bool(a.Executed) + ")"
		sends[i] = "(" + ro.Addr(a.Node) + ", " + obs.Bool(a.Asking) + ")"
		t := a.Node
		if a.Asking {
			t += "+asking"
		}
		obsSends = append(obsSends, t+"="+ticks[i].String())
	}
	res.Coq = obs.App("CDo", obs.Z(int64(maxRedir)), obs.Bool(!disableRetry), zlist(delays), obs.Z(int64(slot)), obs.Bool(!write),
		ro.OptAddr(w0), ro.Addrs(known), obs.List(env), obs.List(sends), final.Coq(), ro.OptAddr(wAfter))
	// The model identifies a connection with its address. A MOVED / ASK that names the node the attempt was picked
	// on makes the client replace that node's connection object (redirectOrNew's reconnect branch); a SECOND such
	// reply in the same call then meets `prev != conns[addr]` in the code where the model sees `prev == addr`.
	// Such histories (about 1 in 20000 generated cases) are outside the address abstraction: no model term, the
	// direct oracle below still judges them.
	{
		cc, self := "", 0
		for i, a := range arr {
			if i == 0 || (ticks[i-1].Kind != "moved" && ticks[i-1].Kind != "ask") {
				cc = a.Node // a fresh pick
			}
			if (ticks[i].Kind == "moved" || ticks[i].Kind == "ask") && ticks[i].Addr == cc {
				self++
			}
		}
		if self >= 2 {
			res.Coq = ""
			res.Kind = "do-reconnect-twice"
		}
	}
	res.Sig = fmt.Sprint("do", version, nprim, write, stepsDesc(steps), migr, maxRedir, disableRetry, delays, given[slot] == w0)
	if x != nil {
		res.Kind = "do-x"
		res.Sig = fmt.Sprint("do-x", *x)
	}
	res.Nontrivial = len(arr) > 1
	res.Obs = map[string]any{"sends": obsSends, "final": final.String(), "steps": stepsDesc(steps), "migr": migr, "max": maxRedir, "retry": !disableRetry, "delays": delays, "delaycalls": dlog.Calls(), "w0": w0, "wafter": wAfter, "second": secondDesc(arr2)}
	res.Site = "cluster.go:do"
	// ---- direct oracle ----
	fail := func(class, f string, a ...any) {
		if res.Oracle == "" {
			res.Oracle, res.Class = fmt.Sprintf(f, a...), class
		}
	}
	if len(arr) == 0 {
		if final.Kind != "transport" && final.Kind != "err" {
			fail("no-send", "the command was never sent but the call returned %s", final)
		}
		return
	}
	if *propFlag == "C19" {
		if arr[0].Node != given[slot] {
			fail("first-send", "first send went to %s, the topology the client was given maps slot %d to %s", arr[0].Node, slot, given[slot])
		}
		if arr[0].Asking {
			fail("first-send", "first send carried ASKING")
		}
		redirs := 0
		for i := 0; i+1 < len(arr); i++ {
			switch ticks[i].Kind {
			case "moved":
				redirs++
				if arr[i+1].Node != ticks[i].Addr || arr[i+1].Asking {
					fail("moved", "after MOVED %s the next send went to %s (asking=%v)", ticks[i].Addr, arr[i+1].Node, arr[i+1].Asking)
				}
			case "ask":
				redirs++
				if arr[i+1].Node != ticks[i].Addr || !arr[i+1].Asking {
					fail("ask", "after ASK %s the next send went to %s (asking=%v)", ticks[i].Addr, arr[i+1].Node, arr[i+1].Asking)
				}
			}
		}
		if maxRedir > 0 && redirs > maxRedir {
			fail("max-redirects", "%d redirects followed with MaxMovedRedirections=%d", redirs, maxRedir)
		}
		last := ticks[len(ticks)-1]
		if last.Kind != final.Kind || last.Val != final.Val || last.Addr != final.Addr {
			fail("final", "call returned %s, the last reply on the wire was %s", final, last)
		}
		// history on the slot: ASK is a one-shot redirect. The next command's first send goes again to the
		// slot's primary per the last topology the client learnt, or to a node a MOVED of the first call named
		// (a MOVED may update the table); never to a node that was only named by an ASK.
		if len(arr2) > 0 {
			okDest := map[string]bool{given[slot]: true}
			askOnly := map[string]bool{}
			for i := range ticks {
				if ticks[i].Kind == "moved" {
					okDest[ticks[i].Addr] = true
				}
			}
			for i := range ticks {
				if ticks[i].Kind == "ask" && !okDest[ticks[i].Addr] {
					askOnly[ticks[i].Addr] = true
				}
			}
			if d := arr2[0].Node; !okDest[d] {
				why := "which neither the learnt topology nor a MOVED reply names for the slot"
				if askOnly[d] {
					why = "which was only named by an ASK reply (a one-shot redirect must not rebind the slot)"
				}
				fail("ask-rebinds-slot", "after the first command (replies %v) the next command on slot %d was first sent to %s, %s; the learnt topology maps the slot to %s",
					obsSends, slot, d, why, given[slot])
			}
			if arr2[0].Asking {
				fail("ask-rebinds-slot", "the next command on slot %d carried ASKING on its first send", slot)
			}
		}
	}
	if *propFlag == "C28" {
		seqs := make([]int64, len(arr))
		for i, a := range arr {
			seqs[i] = a.Seq
		}
		retryOracle(&res, "cluster.go:do", !write, !disableRetry, dlog.Calls(), ticks, seqs)
		attemptsOracleDo(&res, "cluster.go:do", strings.Join(argv, " "), dlog.Calls())
	}
	if *propFlag == "C03" && write {
		n := 0
		for _, a := range arr {
			if a.Executed {
				n++
			}
		}
		if n > 1 {
			fail("executed-twice", "non-retryable SET executed %d times in one call", n)
		}
	}
	return
}

// retryOracle: every re-send that follows a non-redirect reply must be justified by the policy, judged by what
// the client actually asked RetryDelay between the two sends.
func retryOracle(res *obs.Result, site string, retryable, retryOn bool, cons []ro.Consult, ticks []ro.Reply, seqs []int64) {
	for i := 0; i+1 < len(ticks); i++ {
		k := ticks[i].Kind
		if k == "moved" || k == "ask" || k == "redirect" || k == "expired" {
			continue
		}
		// a further send happened after reply i: it is a retry
		allowed := k == "transport" || k == "loading" || k == "tryagain" || k == "clusterdown"
		why := ""
		switch {
		case !retryable:
			why = "the command is neither read-only nor retryable"
		case !retryOn:
			why = "DisableRetry is set"
		case !allowed:
			why = "the reply " + ticks[i].String() + " is not a retryable failure"
		default:
			why = ro.RetryJustified(cons, seqs[i], seqs[i+1], "")
		}
		if why != "" && res.Oracle == "" {
			res.Oracle, res.Site, res.Class = fmt.Sprintf("re-send after reply %d (%s): %s", i, ticks[i], why), site, "retry-policy"
		}
	}
}

// attemptsOracleDo: clusterClient.do keeps one attempt counter per call and advances it with every retry it grants:
// the consultations made for the command carry 1, 2, 3, … (every consultation but the last was followed by a re-send).
func attemptsOracleDo(res *obs.Result, site, cmd string, cons []ro.Consult) {
	n := 0
	for _, c := range cons {
		if c.Cmd != cmd {
			continue
		}
		n++
		if c.Attempts != n && res.Oracle == "" {
			res.Oracle, res.Site, res.Class = fmt.Sprintf("consultation %d of RetryDelay for %q carried attempts=%d", n, cmd, c.Attempts), site, "attempts-not-advanced"
		}
	}
}

func secondDesc(arr []fc.Arrival) []string {
	out := make([]string, len(arr))
	for i, a := range arr {
		out[i] = a.Node
		if a.Asking {
			out[i] += "+asking"
		}
		out[i] += "=" + replyOfArrival(a).String()
	}
	return out
}

func indexOf(xs []string, x string) int {
	for i, y := range xs {
		if y == x {
			return i
		}
	}
	return 0
}

func main() {
	obs.Main(obs.Runner{
		Name: "obs_cluster", Salt: 19,
		Gen: genCase,
		Decode: func(raw json.RawMessage) (any, error) {
			var c Case
			err := json.Unmarshal(raw, &c)
			return c, err
		},
		Run: func(ci any) obs.Result {
			c := ci.(Case)
			switch c.K {
			case "endpoint", "slots", "shards":
				return runParse(c)
			case "enc":
				return runEnc(c)
			case "table":
				return runTable(c)
			case "do":
				return runDo(c)
			case "multi":
				return runMulti(c)
			}
			fmt.Fprintln(os.Stderr, "unknown kind", c.K)
			return obs.Result{Kind: "unknown"}
		},
	})
}

// runEnc: an abstract topology (the spec side of C19_parse_slots_spec / C19_table_shards), encoded by an
// independent Go encoder in the form Model/ClusterSpec.v and ClusterShardSpec.v describe, through the real parsers.
func runEnc(c Case) (res obs.Result) {
	r := gen.New(c.Seed)
	res.Kind = "enc"
	es := genTopo(r, r.Chance(1, 4))
	shards := r.Chance(1, 2)
	tls := shards && r.Chance(1, 3)
	var m ro.Msg
	var coq string
	if shards {
		var out []ro.Msg
		var sh []string
		for _, e := range es {
			var sl []ro.Msg
			var rg []string
			for _, x := range e.Ranges {
				sl = append(sl, ro.Int(x[0]), ro.Int(x[1]))
				rg = append(rg, "("+obs.Z(x[0])+", "+obs.Z(x[1])+")")
			}
			var ns []ro.Msg
			var nq []string
			for _, n := range e.Nodes {
				role, health := "replica", "fail"
				if n.Role == "master" {
					role = "master"
				}
				if n.Health == "online" {
					health = "online"
				}
				ns = append(ns, ro.MapOf(ro.Str("id"), ro.Str(""), ro.Str("port"), ro.Int(n.Port), ro.Str("ip"), ro.Str(n.Host), ro.Str("endpoint"), ro.Str(n.Host),
					ro.Str("role"), ro.Str(role), ro.Str("replication-offset"), ro.Int(0), ro.Str("health"), ro.Str(health), ro.Str("tls-port"), ro.Int(n.TLS)))
				nq = append(nq, fmt.Sprintf("(mkHnode %s %s %s %s %s)", obs.HS(n.Host), obs.Z(n.Port), obs.Z(n.TLS), obs.Bool(role == "master"), obs.Bool(health == "online")))
			}
			out = append(out, ro.MapOf(ro.Str("slots"), ro.Arr(sl...), ro.Str("nodes"), ro.Arr(ns...)))
			sh = append(sh, fmt.Sprintf("(mkShard %s %s)", obs.List(rg), obs.List(nq)))
		}
		m = ro.Arr(out...)
		coq = obs.List(sh)
	} else {
		var out []ro.Msg
		var sq []string
		for _, e := range es {
			for _, x := range e.Ranges {
				it := []ro.Msg{ro.Int(x[0]), ro.Int(x[1])}
				var nq []string
				for _, n := range e.Nodes {
					it = append(it, ro.Arr(ro.Str(n.Host), ro.Int(n.Port), ro.Str("id")))
					nq = append(nq, fmt.Sprintf("(mkSnode %s %s)", obs.HS(n.Host), obs.Z(n.Port)))
				}
				out = append(out, ro.Arr(it...))
				sq = append(sq, fmt.Sprintf("(mkSentry %s %s %s)", obs.Z(x[0]), obs.Z(x[1]), obs.List(nq)))
			}
		}
		m = ro.Arr(out...)
		coq = obs.List(sq)
	}
	var got []rueidis.VerifRouteGroup
	panicked := true
	func() {
		defer func() { _ = recover() }()
		if shards {
			got = rueidis.VerifRouteParseShards(m.Redis(), defaultAddr, tls)
		} else {
			got = rueidis.VerifRouteParseSlots(m.Redis(), defaultAddr)
		}
		panicked = false
	}()
	impl := obs.Panic
	if !panicked {
		impl = obs.Ok(igroups(got))
	}
	if shards {
		res.Coq = obs.App("CEncShards", obs.HS("127.0.0.1"), obs.Bool(tls), coq, m.Coq(), impl)
	} else {
		res.Coq = obs.App("CEncSlots", obs.HS("127.0.0.1"), coq, m.Coq(), impl)
	}
	b, _ := json.Marshal(m)
	res.Sig = "enc" + fmt.Sprint(shards, tls) + string(b)
	res.Nontrivial = len(m.A) > 0
	res.Obs = map[string]any{"panic": panicked, "groups": got}
	res.Site, res.Class = "cluster.go:parseSlots/parseShards", "panic"
	if panicked {
		res.Oracle = "topology parser panicked on a well-formed reply"
	}
	return
}
