package main

import (
	"context"
	"fmt"
	"strings"
	"time"

	"github.com/redis/rueidis"

	fc "verifharness/fakecluster"
	"verifharness/gen"
	"verifharness/obs"
	ro "verifharness/routeobs"
)

type bcmd struct {
	argv      []string
	slot      int // -1 = no slot (MULTI / EXEC)
	kind      string
	retryable bool
	id        int
}

func (b bcmd) coq() string {
	slot := obs.None
	if b.slot >= 0 {
		slot = obs.Some(obs.Z(int64(b.slot)))
	}
	k := "KPlain"
	switch b.kind {
	case "multi":
		k = "KMulti"
	case "exec":
		k = "KExec"
	}
	return fmt.Sprintf("(mkCmd %s %s %s false %d)", slot, k, obs.Bool(b.retryable), b.id)
}

func runMulti(c Case) (res obs.Result) {
	res.Kind = "multi"
	for try := 0; try < 4; try++ {
		var raced bool
		res, raced = runMultiOnce(c)
		if !raced {
			return res
		}
	}
	res.Coq, res.Oracle, res.Nontrivial = "", "", false
	res.Kind = "multi-raced"
	return
}

func runMultiOnce(c Case) (res obs.Result, raced bool) {
	r := gen.New(c.Seed)
	res.Kind = "multi"
	version := gen.Pick(r, []string{"7.2.4", "7.2.4", "8.0.0"})
	nprim := r.Range(2, 4)
	x := c.Mu
	if x != nil {
		version, nprim = "7.2.4", 3
	}
	l := newLive(r, version, nprim, false)
	tx := r.Chance(2, 5)
	if tx {
		res.Kind = "multi-tx"
	}
	mixed := tx && r.Chance(1, 12) // no-slot commands next to two different slots: documented panic
	nslots := r.Range(1, 4)
	slots := make([]int, nslots)
	for i := range slots {
		slots[i] = r.Intn(16384)
	}
	var cmds []bcmd
	mk := func(slot int) bcmd {
		key := fmt.Sprintf("{%s}k%d", fc.TagFor(slot), len(cmds))
		if r.Chance(1, 2) {
			return bcmd{argv: []string{"GET", key}, slot: slot, kind: "plain", retryable: true}
		}
		return bcmd{argv: []string{"SET", key, fmt.Sprintf("v%d", len(cmds))}, slot: slot, kind: "plain"}
	}
	if tx {
		s0 := slots[0]
		for k := r.Intn(3); k > 0; k-- {
			cmds = append(cmds, mk(s0))
		}
		cmds = append(cmds, bcmd{argv: []string{"MULTI"}, slot: -1, kind: "multi"})
		for k := r.Range(1, 3); k > 0; k-- {
			cmds = append(cmds, mk(s0))
		}
		cmds = append(cmds, bcmd{argv: []string{"EXEC"}, slot: -1, kind: "exec"})
		for k := r.Intn(3); k > 0; k-- {
			cmds = append(cmds, mk(s0))
		}
		if mixed && nslots > 1 && slots[1] != s0 {
			cmds = append(cmds, mk(slots[1]))
		} else {
			mixed = false
		}
	} else {
		for k := r.Range(1, 8); k > 0; k-- {
			cmds = append(cmds, mk(gen.Pick(r, slots)))
		}
	}
	if x != nil {
		// enumerated case: the batch is given by the description
		slots = []int{slots[0], (slots[0] + 8192) % 16384}
		cmds, tx, mixed = nil, false, false
		for _, t := range strings.Fields(x.Batch) {
			switch {
			case t == "M":
				tx = true
				cmds = append(cmds, bcmd{argv: []string{"MULTI"}, slot: -1, kind: "multi"})
			case t == "E":
				cmds = append(cmds, bcmd{argv: []string{"EXEC"}, slot: -1, kind: "exec"})
			default:
				slot := slots[int(t[1]-'0')%2]
				key := fmt.Sprintf("{%s}k%d", fc.TagFor(slot), len(cmds))
				if t[0] == 'g' {
					cmds = append(cmds, bcmd{argv: []string{"GET", key}, slot: slot, kind: "plain", retryable: true})
				} else {
					cmds = append(cmds, bcmd{argv: []string{"SET", key, fmt.Sprintf("v%d", len(cmds))}, slot: slot, kind: "plain"})
				}
			}
		}
		res.Kind = "multi-x"
		if tx {
			res.Kind = "multi-tx-x"
		}
	}
	for i := range cmds {
		cmds[i].id = i + 1
	}
	maxRedir := gen.Pick(r, []int{0, 0, 0, 1, 2})
	disableRetry := r.Chance(1, 5)
	delays := genDelays(r)
	if x != nil {
		maxRedir, disableRetry, delays = x.Max, false, append([]int64{}, xPolicies[x.Policy]...)
	}
	dlog := &ro.ConsultLog{}
	cli, err := rueidis.NewClient(rueidis.ClientOption{InitAddress: []string{l.prims[0]}, DialCtxFn: l.cl.Dial, DisableCache: true, PipelineMultiplex: -1,
		DisableRetry: disableRetry, RetryDelay: delayFn(delays, dlog, l.cl), ClusterOption: rueidis.ClusterOption{MaxMovedRedirections: maxRedir}})
	if err != nil {
		res.Oracle, res.Site, res.Class = "harness: NewClient failed: "+err.Error(), "harness", "setup"
		return
	}
	defer cli.Close()
	topos := l.cl.Topos()
	given := topos[len(topos)-1].Owner
	ntopo := len(topos)
	// the world moves on
	for _, s := range slots {
		if x != nil {
			break
		}
		switch r.Intn(5) {
		case 0:
			l.cl.MoveSlot(s, gen.Pick(r, l.prims))
		case 1:
			if to := gen.Pick(r, l.prims); to != given[s] {
				l.cl.StartMigration(s, to)
			}
		}
	}
	// per-command reactions (reply level only: a killed connection would also fail its neighbours)
	scripts := map[int]string{}
	if x != nil && x.At >= 0 && x.At < len(cmds) && cmds[x.At].kind != "multi" {
		slot := cmds[x.At].slot
		if slot < 0 {
			slot = slots[0]
		}
		o := indexOf(l.prims, given[slot])
		st := []fc.Step{{Kind: x.Step, Addr: l.prims[(o+1)%nprim]}}
		if x.Next != "" {
			st = append(st, fc.Step{Kind: x.Next, Addr: l.prims[(o+2)%nprim]})
		}
		if len(x.Steps) > 0 {
			st = st[:0]
			for j, k := range x.Steps {
				st = append(st, fc.Step{Kind: k, Addr: l.prims[(o+1+j)%nprim]})
			}
		}
		l.cl.SetScript(cmds[x.At].argv, st...)
		scripts[x.At] = stepsDesc(st)
	}
	for i, b := range cmds {
		if x == nil && r.Chance(1, 3) {
			st := genSteps(r, l, r.Range(1, 2), false)
			if b.kind == "multi" {
				continue
			}
			if b.kind == "exec" {
				// EXEC can be refused at execution time when the slot left the node meanwhile
				for j := range st {
					if st[j].Kind != "MOVED" && st[j].Kind != "ASK" {
						st[j].Kind = "MOVED"
					}
				}
				st = st[:1]
			}
			l.cl.SetScript(b.argv, st...)
			scripts[i] = stepsDesc(st)
		}
	}
	wt := []string{}
	seen := map[int]bool{}
	for _, b := range cmds {
		if b.slot >= 0 && !seen[b.slot] {
			seen[b.slot] = true
			if a := probe1(cli, b.slot); a != "" {
				wt = append(wt, "("+obs.Z(int64(b.slot))+", "+ro.Addr(a)+")")
			}
		}
	}
	first := ""
	for s := 0; s < 16384 && first == ""; s += 1 {
		if given[s] != "" {
			first = given[s]
		}
	}
	multi := make([]rueidis.Completed, len(cmds))
	for i, b := range cmds {
		switch {
		case b.kind == "multi":
			multi[i] = cli.B().Multi().Build()
		case b.kind == "exec":
			multi[i] = cli.B().Exec().Build()
		case b.argv[0] == "GET":
			multi[i] = cli.B().Get().Key(b.argv[1]).Build()
		default:
			multi[i] = cli.B().Set().Key(b.argv[1]).Value(b.argv[2]).Build()
		}
	}
	ctx, cancel := context.WithTimeout(context.Background(), 20*time.Second)
	var results []rueidis.RedisResult
	panicked := ""
	func() {
		defer func() {
			if p := recover(); p != nil {
				panicked = fmt.Sprint(p)
			}
		}()
		results = cli.DoMulti(ctx, multi...)
	}()
	cancel()
	if len(l.cl.Topos()) != ntopo {
		return res, true
	}
	byArgv := map[string]int{}
	for i, b := range cmds {
		byArgv[strings.Join(b.argv, " ")] = i
	}
	arrivals := l.cl.Arrivals()
	perCmd := make([][]ro.Reply, len(cmds))
	perSeq := make([][]int64, len(cmds))
	type cn struct {
		i    int
		node string
	}
	perCN := map[cn][]ro.Reply{}
	var cnOrder []cn
	perNode := map[string][]string{}
	nodeOrder := []string{}
	for _, a := range arrivals {
		i, ok := byArgv[strings.Join(a.Argv, " ")]
		if !ok {
			continue
		}
		perCmd[i] = append(perCmd[i], replyOfArrival(a))
		perSeq[i] = append(perSeq[i], a.Seq)
		if _, ok := perCN[cn{i, a.Node}]; !ok {
			cnOrder = append(cnOrder, cn{i, a.Node})
		}
		perCN[cn{i, a.Node}] = append(perCN[cn{i, a.Node}], replyOfArrival(a))
		if _, ok := perNode[a.Node]; !ok {
			nodeOrder = append(nodeOrder, a.Node)
		}
		perNode[a.Node] = append(perNode[a.Node], fmt.Sprintf("(%d, %s)", cmds[i].id, obs.Bool(a.Asking)))
	}
	srv := make([]string, len(cnOrder))
	for j, k := range cnOrder {
		srv[j] = fmt.Sprintf("(%d, %s, %s)", cmds[k.i].id, ro.Addr(k.node), obs.ListOf(perCN[k], ro.Reply.Coq))
	}
	sends := make([]string, len(nodeOrder))
	for i, n := range nodeOrder {
		sends[i] = "(" + ro.Addr(n) + ", " + obs.List(perNode[n]) + ")"
	}
	impl := obs.Panic
	finals := make([]ro.Reply, len(results))
	if panicked == "" {
		noslot := len(results) > 0
		for i, rr := range results {
			finals[i] = ro.ClassifyResult(rr)
			if rr.Error() == nil || rr.Error().Error() != rueidis.ErrNoSlot.Error() {
				noslot = false
			}
		}
		if noslot {
			impl = obs.Err(1)
		} else {
			impl = obs.Ok(obs.ListOf(finals, ro.Reply.Coq))
		}
	}
	cq := make([]string, len(cmds))
	for i, b := range cmds {
		cq[i] = b.coq()
	}
	res.Coq = obs.App("CMulti", obs.Z(int64(maxRedir)), obs.Bool(!disableRetry), zlist(delays), obs.List(cq), obs.List(wt), ro.OptAddr(first),
		obs.List(srv), impl, obs.List(sends))
	desc := make([]string, len(cmds))
	for i, b := range cmds {
		desc[i] = strings.Join(b.argv, " ")
		if s, ok := scripts[i]; ok {
			desc[i] += " [" + s + "]"
		}
	}
	res.Sig = fmt.Sprint("multi", version, nprim, desc, maxRedir, disableRetry, delays)
	nontriv := false
	for _, p := range perCmd {
		if len(p) > 1 {
			nontriv = true
		}
	}
	res.Nontrivial = nontriv || len(nodeOrder) > 1
	fin := make([]string, len(finals))
	for i := range finals {
		fin[i] = finals[i].String()
	}
	res.Obs = map[string]any{"cmds": desc, "results": fin, "panic": panicked, "sends": perNode, "max": maxRedir, "retry": !disableRetry, "delays": delays, "delaycalls": dlog.Calls()}
	res.Site = "cluster.go:DoMulti"
	fail := func(class, f string, a ...any) {
		if res.Oracle == "" {
			res.Oracle, res.Class = fmt.Sprintf(f, a...), class
		}
	}
	if panicked != "" {
		if !mixed {
			fail("panic", "DoMulti panicked: %s", panicked)
		}
		return
	}
	if len(results) != len(cmds) {
		fail("length", "%d results for %d commands", len(results), len(cmds))
		return
	}
	if *propFlag == "C20" || *propFlag == "C19" {
		// positional: result i is the last reply the servers gave to command i
		for i := range cmds {
			if len(perCmd[i]) == 0 {
				continue
			}
			last := perCmd[i][len(perCmd[i])-1]
			if last != finals[i] {
				fail("positional", "result %d (%s) is %s, the last reply to that command was %s", i, desc[i], finals[i], last)
			}
		}
	}
	if *propFlag == "C20" && tx {
		checkTx(&res, cmds, arrivals, byArgv)
	}
	if *propFlag == "C28" {
		attemptsOracle(&res, arrivals, byArgv, dlog.Calls())
		// a member of a MULTI…EXEC block is legitimately re-sent with its block when another member was
		// redirected; the per-member policy check applies when no redirect touched the block
		redirected := false
		if tx {
			for i := range cmds {
				for _, t := range perCmd[i] {
					if t.Kind == "moved" || t.Kind == "ask" {
						redirected = true
					}
				}
			}
		}
		if !redirected {
			// the block of a transaction travels whole: its members are judged together
			var block []string
			lo, hi := -1, -1
			for i, b := range cmds {
				if b.kind == "multi" {
					lo = i
				}
				if b.kind == "exec" {
					hi = i
				}
			}
			if lo >= 0 && hi > lo {
				for i := lo; i <= hi; i++ {
					block = append(block, strings.Join(cmds[i].argv, " "))
				}
			}
			cons := dlog.Calls()
			for i, b := range cmds {
				inBlock := lo >= 0 && i >= lo && i <= hi
				retryOracleBatch(&res, b, !disableRetry, cons, perCmd[i], perSeq[i], inBlock, block)
			}
		}
	}
	return
}

// checkTx: every arrival of a member of the MULTI…EXEC block is part of a complete, in-order,
// contiguous run MULTI c1 … ck EXEC on one connection of one node.
func checkTx(res *obs.Result, cmds []bcmd, arrivals []fc.Arrival, byArgv map[string]int) {
	lo, hi := -1, -1
	for i, b := range cmds {
		if b.kind == "multi" {
			lo = i
		}
		if b.kind == "exec" {
			hi = i
		}
	}
	if lo < 0 || hi < lo {
		return
	}
	type key struct {
		node string
		conn int
	}
	per := map[key][]int{}
	for _, a := range arrivals {
		if i, ok := byArgv[strings.Join(a.Argv, " ")]; ok {
			k := key{a.Node, a.Conn}
			per[k] = append(per[k], i)
		}
	}
	for k, seq := range per {
		for p := 0; p < len(seq); p++ {
			if seq[p] < lo || seq[p] > hi {
				continue
			}
			// must be the start of a whole block
			ok := seq[p] == lo && p+(hi-lo) < len(seq)
			if ok {
				for j := 0; j <= hi-lo; j++ {
					if seq[p+j] != lo+j {
						ok = false
					}
				}
			}
			if !ok {
				if res.Oracle == "" {
					res.Oracle, res.Class = fmt.Sprintf("node %s conn %d received %v: command %d of the MULTI…EXEC block [%d..%d] is not part of a whole contiguous block", k.node, k.conn, seq, seq[p], lo, hi), "tx-split"
				}
				return
			}
			p += hi - lo
		}
	}
}

// retryOracleBatch: a member re-sent after a retry-class reply (no redirect) must be retryable, with retries
// enabled, and RetryDelay must have been consulted for it between the two sends and have answered >= 0.
// A member of a MULTI…EXEC block is re-sent with its block: there the consultation of any member of the
// block counts (the client consults only retryable members).
func retryOracleBatch(res *obs.Result, b bcmd, retryOn bool, cons []ro.Consult, ticks []ro.Reply, seqs []int64, inBlock bool, block []string) {
	for i := 0; i+1 < len(ticks); i++ {
		k := ticks[i].Kind
		if k != "tryagain" && k != "clusterdown" && k != "loading" {
			continue
		}
		why := ""
		switch {
		case !retryOn:
			why = "DisableRetry is set"
		case inBlock:
			ok := false
			for _, m := range block {
				if c, found := ro.LastConsult(cons, seqs[i], seqs[i+1], m); found && c.Delay >= 0 {
					ok = true
				}
			}
			if !ok {
				why = "no member of its MULTI…EXEC block got a non-negative RetryDelay between the two sends"
			}
		case !b.retryable:
			why = "the command is neither read-only nor retryable"
		default:
			why = ro.RetryJustified(cons, seqs[i], seqs[i+1], strings.Join(b.argv, " "))
		}
		if why != "" && res.Oracle == "" {
			res.Oracle, res.Site, res.Class = fmt.Sprintf("batch member %q re-sent after %s: %s", strings.Join(b.argv, " "), ticks[i], why), "cluster.go:doresultfn", "batch-retry-policy"
		}
	}
}

// attemptsOracle: clusterClient.DoMulti keeps one attempt counter per call. It advances after every round that queued a
// retry and saw no redirect; RetryDelay must be asked with it, so that a policy that declines from some attempt
// number on bounds the number of retry rounds. The rounds are read off the arrival log: every member is written at
// most once per round and a round only re-sends members of the previous one, so a round ends where a member arrives
// that the current round already contains. A round with a MOVED / ASK reply may be a redirect round (no advance);
// every other round that has a successor is a retry round. Flagged: a consultation whose attempt number is below
// 1 + the number of retry rounds before it.
func attemptsOracle(res *obs.Result, arrivals []fc.Arrival, byArgv map[string]int, cons []ro.Consult) {
	type round struct {
		first    int64
		redirect bool
		ids      map[int]bool
	}
	var rounds []*round
	for _, a := range arrivals {
		i, ok := byArgv[strings.Join(a.Argv, " ")]
		if !ok {
			continue
		}
		if len(rounds) == 0 || rounds[len(rounds)-1].ids[i] {
			rounds = append(rounds, &round{first: a.Seq, ids: map[int]bool{}})
		}
		cur := rounds[len(rounds)-1]
		cur.ids[i] = true
		if k := replyOfArrival(a).Kind; k == "moved" || k == "ask" {
			cur.redirect = true
		}
	}
	for _, c := range cons {
		if _, ok := byArgv[c.Cmd]; !ok {
			continue
		}
		k := -1
		for j, r := range rounds {
			if r.first <= c.Seq {
				k = j
			}
		}
		if k < 0 {
			continue
		}
		expected := 1
		for j := 0; j < k; j++ {
			if !rounds[j].redirect {
				expected++
			}
		}
		if c.Attempts < expected && res.Oracle == "" {
			kinds := make([]string, len(rounds))
			for j, r := range rounds {
				kinds[j] = "retry"
				if r.redirect {
					kinds[j] = "redirect"
				}
			}
			res.Oracle = fmt.Sprintf("RetryDelay was asked with attempts=%d for %q in round %d of the call, after %d retry rounds (rounds so far: %v): the attempt counter did not advance, "+
				"a policy that declines from some attempt number on does not bound the retries", c.Attempts, c.Cmd, k+1, expected-1, kinds[:k+1])
			res.Site, res.Class = "cluster.go:DoMulti", "attempts-not-advanced"
		}
	}
}
