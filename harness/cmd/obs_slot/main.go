// obs_slot: C18 — key slots.  Runs the real cmds.Slot / crc16 and real builder methods (cluster and
// non-cluster builders) and compares with an independent bit-by-bit CRC16-XMODEM + hash-tag oracle.
package main

import (
	"bytes"
	"encoding/json"
	"fmt"
	"os"

	"github.com/redis/rueidis"

	"verifharness/gen"
	"verifharness/obs"
)

type Case struct {
	Op    string     `json:"op"`              // slot | built | setslot
	Key   []byte     `json:"key,omitempty"`   // slot, setslot
	Init  uint16     `json:"init,omitempty"`  // built, setslot: InitSlot or NoSlot
	Shape string     `json:"shape,omitempty"` // built: which builder methods are used
	Ev    [][][]byte `json:"ev,omitempty"`    // built: key events in call order (len 1 = single key parameter unless the shape says variadic)
}

// ---------------------------------------------------------------- oracle (independent of the code and of the Coq model)

func crcBitwise(b []byte) uint16 {
	var crc uint16
	for _, c := range b {
		crc ^= uint16(c) << 8
		for i := 0; i < 8; i++ {
			if crc&0x8000 != 0 {
				crc = crc<<1 ^ 0x1021
			} else {
				crc <<= 1
			}
		}
	}
	return crc
}

func tagOf(k []byte) []byte {
	s := bytes.IndexByte(k, '{')
	if s < 0 {
		return k
	}
	e := bytes.IndexByte(k[s+1:], '}')
	if e <= 0 {
		return k
	}
	return k[s+1 : s+1+e]
}

func slotOracle(k []byte) uint16 { return crcBitwise(tagOf(k)) % 16384 }

// ---------------------------------------------------------------- shapes: real builder methods carrying keys

type shape struct {
	name string
	// kinds of the events: '1' single key parameter, '*' variadic key parameter
	pat string
	run func(b rueidis.Builder, ev [][]string) rueidis.Completed
}

var shapes = []shape{
	{"get", "1", func(b rueidis.Builder, ev [][]string) rueidis.Completed { return b.Get().Key(ev[0][0]).Build() }},
	{"mget", "*", func(b rueidis.Builder, ev [][]string) rueidis.Completed { return b.Mget().Key(ev[0]...).Build() }},
	{"del", "*", func(b rueidis.Builder, ev [][]string) rueidis.Completed { return b.Del().Key(ev[0]...).Build() }},
	{"lmove", "11", func(b rueidis.Builder, ev [][]string) rueidis.Completed {
		return b.Lmove().Source(ev[0][0]).Destination(ev[1][0]).Left().Right().Build()
	}},
	{"rename", "11", func(b rueidis.Builder, ev [][]string) rueidis.Completed {
		return b.Rename().Key(ev[0][0]).Newkey(ev[1][0]).Build()
	}},
	{"sinterstore", "1*", func(b rueidis.Builder, ev [][]string) rueidis.Completed {
		return b.Sinterstore().Destination(ev[0][0]).Key(ev[1]...).Build()
	}},
	{"zunionstore", "1*", func(b rueidis.Builder, ev [][]string) rueidis.Completed {
		return b.Zunionstore().Destination(ev[0][0]).Numkeys(int64(len(ev[1]))).Key(ev[1]...).Build()
	}},
	{"bitop", "1*", func(b rueidis.Builder, ev [][]string) rueidis.Completed {
		return b.Bitop().And().Destkey(ev[0][0]).Key(ev[1]...).Build()
	}},
	{"mset3", "111", func(b rueidis.Builder, ev [][]string) rueidis.Completed {
		return b.Mset().KeyValue().KeyValue(ev[0][0], "v").KeyValue(ev[1][0], "v").KeyValue(ev[2][0], "v").Build()
	}},
	{"lmpop", "*", func(b rueidis.Builder, ev [][]string) rueidis.Completed {
		return b.Lmpop().Numkeys(int64(len(ev[0]))).Key(ev[0]...).Left().Build()
	}},
	{"arbitrary2", "**", func(b rueidis.Builder, ev [][]string) rueidis.Completed {
		return b.Arbitrary("X").Keys(ev[0]...).Args("a").Keys(ev[1]...).Build()
	}},
	{"arbitrary3", "***", func(b rueidis.Builder, ev [][]string) rueidis.Completed {
		return b.Arbitrary("X").Keys(ev[0]...).Keys(ev[1]...).Args("a", "b").Keys(ev[2]...).Build()
	}},
	{"copy", "11", func(b rueidis.Builder, ev [][]string) rueidis.Completed {
		return b.Copy().Source(ev[0][0]).Destination(ev[1][0]).Build()
	}},
	{"evalkeys", "*", func(b rueidis.Builder, ev [][]string) rueidis.Completed {
		return b.Eval().Script("return 1").Numkeys(int64(len(ev[0]))).Key(ev[0]...).Arg("x").Build()
	}},
	{"xread", "*", func(b rueidis.Builder, ev [][]string) rueidis.Completed {
		return b.Xread().Streams().Key(ev[0]...).Id("0").Build()
	}},
	{"georadius_store", "11", func(b rueidis.Builder, ev [][]string) rueidis.Completed {
		return b.Georadius().Key(ev[0][0]).Longitude(1).Latitude(2).Radius(3).M().Store(ev[1][0]).Build()
	}},
}

func shapeByName(n string) *shape {
	for i := range shapes {
		if shapes[i].name == n {
			return &shapes[i]
		}
	}
	return nil
}

// ---------------------------------------------------------------- generators

var edgeKeys = []string{"", "{", "}", "{}", "{{}", "}{", "{}{a}", "{a}", "a{b}c", "{a}{b}", "{{a}}", "a{", "a}", "{a", "{}a}",
	"a{}b{c}", "{a}}", "}{a}", "{a}{", "{}}", "{{}}", "a{b", "a}b{c", "a}{b}", "{\x00}", "{\xff}x", "foo", "{user1000}.following",
	"{user1000}.followers", "foo{}{bar}", "foo{{bar}}zap", "foo{bar}{zap}", "123456789", "{}{}", "{a}{a}", "\x00", "{\r\n}"}

func genKey(r *gen.Rand) []byte {
	switch r.Intn(10) {
	case 0, 1:
		return []byte(gen.Pick(r, edgeKeys))
	case 2, 3, 4:
		// brace-heavy
		n := r.Size(12, 2, 4)
		b := make([]byte, n)
		for i := range b {
			b[i] = gen.Pick(r, []byte{'{', '}', '{', '}', 'a', 'b', 0, 0xff})
		}
		return b
	case 5:
		// tagged
		tag := r.Bytes(r.Range(1, 4))
		return append(append(append(r.Bytes(r.Size(5)), '{'), tag...), append([]byte{'}'}, r.Bytes(r.Size(5))...)...)
	default:
		return r.Bytes(r.Size(40, 1, 2, 16))
	}
}

// genKeyGroup returns n keys that share a slot with probability ~2/3 (same tag), else unrelated keys.
func genKeyGroup(r *gen.Rand, n int) [][]byte {
	out := make([][]byte, n)
	mode := r.Intn(6)
	tag := []byte(gen.Pick(r, []string{"a", "t", "{x", "user1", "\x00", "zz"}))
	if r.Chance(1, 2) {
		tag = r.Bytes(r.Range(1, 3))
		for i := range tag {
			if tag[i] == '}' || tag[i] == '{' {
				tag[i] = 'q'
			}
		}
	}
	for i := range out {
		switch {
		case mode <= 2: // all share the tag
			out[i] = append(append(append(noBrace(r.Bytes(r.Size(4))), '{'), tag...), append([]byte{'}'}, r.Bytes(r.Size(4))...)...)
		case mode == 3: // same tag except possibly one
			if r.Chance(1, 4) {
				out[i] = genKey(r)
			} else {
				out[i] = append(append([]byte{'{'}, tag...), '}', byte('0'+i%10))
			}
		case mode == 4: // identical keys
			out[i] = tag
		default:
			out[i] = genKey(r)
		}
	}
	return out
}

func noBrace(b []byte) []byte {
	for i := range b {
		if b[i] == '{' {
			b[i] = '_'
		}
	}
	return b
}

func genCase(r *gen.Rand, i int) any {
	if os.Getenv("VERIF_TIER") == "thorough" && i < 65536 {
		return Case{Op: "slot", Key: []byte{byte(i >> 8), byte(i)}}
	}
	switch r.Intn(10) {
	case 0, 1, 2, 3:
		return Case{Op: "slot", Key: genKey(r)}
	case 4:
		init := uint16(rueidis.VerifBldInitSlot)
		if r.Bool() {
			init = rueidis.VerifBldNoSlot
		}
		return Case{Op: "setslot", Key: genKey(r), Init: init, Ev: [][][]byte{{genKey(r)}}}
	default:
		sh := gen.Pick(r, shapes)
		init := uint16(rueidis.VerifBldInitSlot)
		if r.Chance(1, 3) {
			init = rueidis.VerifBldNoSlot
		}
		total := 0
		counts := make([]int, len(sh.pat))
		for j, p := range sh.pat {
			counts[j] = 1
			if p == '*' {
				counts[j] = gen.Pick(r, []int{0, 1, 1, 2, 2, 3, 5})
			}
			total += counts[j]
		}
		keys := genKeyGroup(r, total)
		c := Case{Op: "built", Init: init, Shape: sh.name}
		k := 0
		for j := range sh.pat {
			c.Ev = append(c.Ev, keys[k:k+counts[j]])
			k += counts[j]
		}
		return c
	}
}

func decode(raw json.RawMessage) (any, error) {
	var c Case
	if err := json.Unmarshal(raw, &c); err != nil {
		return nil, err
	}
	return c, nil
}

// ---------------------------------------------------------------- run

func coqEvents(pat string, ev [][][]byte) string {
	items := make([]string, len(ev))
	for i, e := range ev {
		if pat[i] == '1' {
			items[i] = obs.App("KOne", obs.H(e[0]))
		} else {
			items[i] = obs.App("KMany", obs.ListOf(e, obs.H))
		}
	}
	return obs.List(items)
}

func run(ci any) (res obs.Result) {
	c := ci.(Case)
	res.Kind = c.Op
	switch c.Op {
	case "slot":
		key := string(c.Key)
		s := rueidis.VerifBldSlot(key)
		crc := rueidis.VerifBldCrc16(key)
		res.Coq = obs.App("CSlot", obs.H(c.Key), obs.N(uint64(s)), obs.N(uint64(crc)))
		res.Sig = "slot:" + key
		res.Nontrivial = len(key) > 0
		res.Site, res.Class = "internal/cmds/slot.go:slot", "slot-value"
		want := slotOracle(c.Key)
		cl := rueidis.VerifBldNewBuilder(rueidis.VerifBldInitSlot).Get().Key(key).Build()
		nc := rueidis.VerifBldNewBuilder(rueidis.VerifBldNoSlot).Get().Key(key).Build()
		switch {
		case crc != crcBitwise(c.Key):
			res.Oracle = fmt.Sprintf("crc16(%q) = %#04x, bit-by-bit CRC16-XMODEM is %#04x", key, crc, crcBitwise(c.Key))
			res.Site = "internal/cmds/slot.go:crc16"
		case s != want:
			res.Oracle = fmt.Sprintf("Slot(%q) = %d, CRC16-XMODEM(hash tag %q) mod 16384 = %d", key, s, tagOf(c.Key), want)
		case cl.Slot() != want:
			res.Oracle = fmt.Sprintf("cluster builder GET %q has Slot() %d, want %d", key, cl.Slot(), want)
		case nc.Slot() != rueidis.VerifBldNoSlot|want:
			res.Oracle = fmt.Sprintf("non-cluster builder GET %q has Slot() %d, want NoSlot|%d", key, nc.Slot(), want)
		}
		res.Obs = map[string]any{"slot": s, "crc": crc, "oracle": want}
	case "setslot":
		key := string(c.Key)
		first := string(c.Ev[0][0])
		cmd := rueidis.VerifBldNewBuilder(c.Init).Get().Key(first).Build()
		ks0 := cmd.Slot()
		moved := cmd.SetSlot(key)
		got := moved.Slot()
		res.Coq = obs.App("CSetSlot", obs.N(uint64(ks0)), obs.H(c.Key), obs.N(uint64(got)))
		res.Sig = fmt.Sprint("setslot:", c.Init, key)
		res.Nontrivial = true
		res.Site, res.Class = "internal/cmds/cmds.go:SetSlot", "slot-value"
		want := slotOracle(c.Key)
		if c.Init == rueidis.VerifBldNoSlot {
			want |= rueidis.VerifBldNoSlot
		}
		if got != want {
			res.Oracle = fmt.Sprintf("SetSlot(%q).Slot() = %d, want %d", key, got, want)
		}
		res.Obs = map[string]any{"before": ks0, "after": got}
	case "built":
		sh := shapeByName(c.Shape)
		if sh == nil || len(c.Ev) != len(sh.pat) {
			res.Oracle = "bad case description"
			return
		}
		ev := make([][]string, len(c.Ev))
		var all [][]byte
		for i, e := range c.Ev {
			if sh.pat[i] == '1' && len(e) != 1 {
				res.Oracle = "bad case description"
				return
			}
			for _, k := range e {
				ev[i] = append(ev[i], string(k))
				all = append(all, k)
			}
		}
		panicked := true
		var ks uint16
		func() {
			defer func() { _ = recover() }()
			cmd := sh.run(rueidis.VerifBldNewBuilder(c.Init), ev)
			ks = cmd.Slot()
			panicked = false
		}()
		out := obs.Panic
		if !panicked {
			out = obs.Ok(obs.N(uint64(ks)))
		}
		res.Coq = obs.App("CBuilt", obs.N(uint64(c.Init)), coqEvents(sh.pat, c.Ev), out)
		res.Sig = fmt.Sprint("built:", c.Init, c.Shape, ev)
		res.Nontrivial = len(all) >= 2
		res.Site, res.Class = "internal/cmds:"+c.Shape, "cross-slot"
		res.Obs = map[string]any{"panicked": panicked, "ks": ks}
		// oracle
		same := true
		for _, k := range all {
			if slotOracle(k) != slotOracle(all[0]) {
				same = false
			}
		}
		if c.Init == rueidis.VerifBldInitSlot {
			switch {
			case !same && !panicked:
				res.Oracle = fmt.Sprintf("cluster builder accepted keys in different slots (Slot() = %d)", ks)
			case same && panicked:
				res.Oracle = "cluster builder rejected keys that share one slot"
			case same && !panicked && len(all) > 0 && ks != slotOracle(all[0]):
				res.Oracle = fmt.Sprintf("Slot() = %d, but every key is in slot %d", ks, slotOracle(all[0]))
			case same && !panicked && len(all) == 0 && ks != rueidis.VerifBldInitSlot:
				res.Oracle = fmt.Sprintf("no key, Slot() = %d, want InitSlot", ks)
			}
		} else {
			switch {
			case panicked:
				res.Oracle = "non-cluster builder rejected a key combination"
			case ks&rueidis.VerifBldNoSlot == 0:
				res.Oracle = fmt.Sprintf("non-cluster builder lost the NoSlot mark: Slot() = %d", ks)
			case len(all) > 0:
				ok := false
				for _, k := range all {
					if ks&^rueidis.VerifBldNoSlot == slotOracle(k) {
						ok = true
					}
				}
				if !ok {
					res.Oracle = fmt.Sprintf("Slot() = %d is the slot of none of the keys", ks)
				}
			case ks != rueidis.VerifBldNoSlot:
				res.Oracle = fmt.Sprintf("no key, Slot() = %d, want NoSlot", ks)
			}
		}
	}
	return
}

func main() {
	obs.Main(obs.Runner{Name: "obs_slot", Salt: 18, Gen: genCase, Decode: decode, Run: run})
}
