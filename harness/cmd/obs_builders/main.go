// obs_builders: C32 / C33 / C18 (key methods) — executes sampled paths through the REAL command builders
// by reflection over rueidis.Builder, reads back Commands(), the raw flag word and Slot(), and
//   - prints a Gallina case so that the model computed from the translated graph (Gen/Builders.v) is compared
//     with the implementation on the same path and arguments (this is also the cross-check of tr_builders);
//   - evaluates the direct oracles on the implementation's own output (selected by -prop):
//     C33: argument positions are found by a second run with unique sentinel arguments; in the real run the
//     literal positions must hold the same tokens and the argument positions the caller's arguments in call
//     order, formatted independently (base-10 integers, round-tripping floats, EX/PX/EXAT/PXAT units);
//     C32: flags versus the hand-written classification of Redis commands (parsed from coq/Model/RedisCmds.v).
package main

import (
	"bytes"
	"encoding/json"
	"flag"
	"fmt"
	"hash/fnv"
	"math"
	"os"
	"reflect"
	"regexp"
	"sort"
	"strconv"
	"strings"
	"time"

	"github.com/redis/rueidis"

	"verifharness/gen"
	"verifharness/obs"
)

// ---------------------------------------------------------------- case description

type Arg struct {
	K string `json:"k"` // s i u f g(float32) d t | S I U F G (lists) | Q (pairs string,string) R (pairs string,float64)
	S []byte `json:"s,omitempty"`
	I int64  `json:"i,omitempty"`
	U uint64 `json:"u,omitempty"` // uint64 value or float bits
	N int64  `json:"n,omitempty"` // nanoseconds within the second (t)
	L []Arg  `json:"l,omitempty"` // list elements; for Q/R: first, second, first, second …
}

type Step struct {
	M string `json:"m"`
	A []Arg  `json:"a,omitempty"`
}

type Case struct {
	Op    string   `json:"op"` // path | arb | flags | predef
	Init  uint16   `json:"init,omitempty"`
	Root  string   `json:"root,omitempty"`
	Steps []Step   `json:"steps,omitempty"`
	Term  string   `json:"term,omitempty"`  // Build | Cache ; arb: Build | Blocking | ReadOnly | MultiGet
	Toks  [][]byte `json:"toks,omitempty"`  // arb
	CF    uint16   `json:"cf,omitempty"`    // flags
	Name  string   `json:"name,omitempty"`  // predef
	Focus int      `json:"focus,omitempty"` // path, C18 focused search: 1 + index of the step whose string arguments carry their own hash tag
}

// ---------------------------------------------------------------- the type graph, by reflection

type tmethod struct {
	name     string
	in       []reflect.Type
	variadic bool
	out      reflect.Type
}

type tnode struct {
	t            reflect.Type
	methods      []tmethod // non-terminal methods, sorted by name
	build, cache bool
	dist         int // number of calls to the nearest type offering a terminal
	next         int // index of the method on a shortest way to a terminal
}

var (
	builderT = reflect.TypeOf(rueidis.Builder{})
	rootsM   []string
	tgraph   = map[reflect.Type]*tnode{}
	byName   = map[string]*tnode{}
	pred     = map[reflect.Type][2]any{} // type -> (predecessor type or nil for a root, method name)
)

func explore(t reflect.Type) {
	if _, ok := tgraph[t]; ok {
		return
	}
	n := &tnode{t: t, dist: 1 << 30, next: -1}
	tgraph[t] = n
	byName[t.Name()] = n
	for i := 0; i < t.NumMethod(); i++ {
		m := t.Method(i)
		switch m.Name {
		case "Build":
			n.build = true
			continue
		case "Cache":
			n.cache = true
			continue
		}
		if m.Type.NumOut() != 1 {
			continue
		}
		tm := tmethod{name: m.Name, variadic: m.Type.IsVariadic(), out: m.Type.Out(0)}
		for j := 1; j < m.Type.NumIn(); j++ {
			tm.in = append(tm.in, m.Type.In(j))
		}
		n.methods = append(n.methods, tm)
	}
	for _, m := range n.methods {
		if _, seen := tgraph[m.out]; !seen {
			pred[m.out] = [2]any{t, m.name}
			explore(m.out)
		}
	}
}

func buildGraph() {
	for i := 0; i < builderT.NumMethod(); i++ {
		m := builderT.Method(i)
		if m.Name == "Arbitrary" || m.Type.NumIn() != 1 || m.Type.NumOut() != 1 {
			continue
		}
		rootsM = append(rootsM, m.Name)
		if _, seen := tgraph[m.Type.Out(0)]; !seen {
			pred[m.Type.Out(0)] = [2]any{nil, m.Name}
		}
		explore(m.Type.Out(0))
	}
	sort.Strings(rootsM)
	// distance to the nearest terminal (fixpoint)
	for changed := true; changed; {
		changed = false
		for _, n := range tgraph {
			if (n.build || n.cache) && n.dist != 0 {
				n.dist, changed = 0, true
			}
			for i, m := range n.methods {
				if d := tgraph[m.out].dist + 1; d < n.dist {
					n.dist, n.next, changed = d, i, true
				}
			}
		}
	}
}

// ---------------------------------------------------------------- argument generation

var (
	durT  = reflect.TypeOf(time.Duration(0))
	timeT = reflect.TypeOf(time.Time{})
)

var intPool = []int64{0, 1, -1, 2, 9, 10, 11, 99, 100, 101, 255, 256, 1000, 65535, 1 << 31, -(1 << 31), 1<<53 + 1, math.MaxInt64, math.MinInt64, math.MaxInt64 - 1, -10, 1234567890123}
var uintPool = []uint64{0, 1, 9, 10, 99, 100, 1 << 32, 1<<63 - 1, 1 << 63, math.MaxUint64, 18446744073709551614, 12345}
var f64Pool = []float64{0, math.Copysign(0, -1), 1, -1, 0.1, 0.5, 1.5, 1e21, 1e20, 1e-7, 123456789.125, math.MaxFloat64, math.SmallestNonzeroFloat64, math.Inf(1), math.Inf(-1), math.NaN(), 3.141592653589793, 100, 1e6, 2.5e-5, -273.15}
var f32Pool = []float32{0, 1, -1, 0.1, 0.5, 1.5, 3.4028235e38, 1e-45, 16777216, 0.33333334, float32(math.Inf(1)), float32(math.NaN()), -2.5}
var durPool = []time.Duration{0, 1, time.Second, time.Millisecond, 1500 * time.Millisecond, 999 * time.Millisecond, -time.Second, -1500 * time.Millisecond, time.Hour, 1<<63 - 1, -(1 << 63), 2*time.Second - 1, 999999, 1000001, 59 * time.Second}

type argGen struct {
	r      *gen.Rand
	tagged bool // string arguments share one hash tag (so that cluster builders accept multi-key paths)
	tag    []byte
}

func (g *argGen) str() []byte {
	var b []byte
	switch g.r.Intn(8) {
	case 0:
		b = []byte{}
	case 1:
		b = g.r.Bytes(g.r.Size(24, 8))
	case 2:
		b = []byte(gen.Pick(g.r, []string{"BLOCK", "0", "-1", "*", "$", "key", "a b", "\r\n", "{", "}"}))
	default:
		n := g.r.Range(1, 6)
		b = make([]byte, n)
		for i := range b {
			b[i] = byte('a' + g.r.Intn(26))
		}
	}
	if g.tagged {
		// prefix free of braces + {tag} + rest: every string argument lands in the slot of tag
		return append(append(append([]byte{'{'}, g.tag...), '}'), b...)
	}
	return b
}

func (g *argGen) listLen() int { return gen.Pick(g.r, []int{0, 1, 1, 2, 2, 3, 4}) }

func (g *argGen) forType(t reflect.Type) (Arg, bool) {
	r := g.r
	switch {
	case t == durT:
		d := gen.Pick(r, durPool)
		if r.Chance(1, 3) {
			d = time.Duration(int64(r.U64()) >> uint(r.Intn(40)))
		}
		return Arg{K: "d", I: int64(d)}, true
	case t == timeT:
		sec := int64(r.U64()%(1<<34)) - (1 << 31)
		if r.Chance(1, 4) {
			sec = gen.Pick(r, []int64{0, -1, 1, 1700000000, -62135596800, 253402300799})
		}
		nsec := int64(r.Intn(1000000000))
		if r.Chance(1, 4) {
			nsec = gen.Pick(r, []int64{0, 999999999, 999999, 1000000, 500000000})
		}
		return Arg{K: "t", I: sec, N: nsec}, true
	}
	switch t.Kind() {
	case reflect.String:
		return Arg{K: "s", S: g.str()}, true
	case reflect.Int64:
		v := gen.Pick(r, intPool)
		if r.Chance(1, 3) {
			v = int64(r.U64()) >> uint(r.Intn(64))
		}
		return Arg{K: "i", I: v}, true
	case reflect.Uint64:
		v := gen.Pick(r, uintPool)
		if r.Chance(1, 3) {
			v = r.U64() >> uint(r.Intn(64))
		}
		return Arg{K: "u", U: v}, true
	case reflect.Float64:
		v := gen.Pick(r, f64Pool)
		if r.Chance(1, 3) {
			v = math.Float64frombits(r.U64())
		} else if r.Chance(1, 3) {
			v = float64(int64(r.U64()%2000000)-1000000) / gen.Pick(r, []float64{1, 10, 100, 1000, 3})
		}
		return Arg{K: "f", U: math.Float64bits(v)}, true
	case reflect.Float32:
		v := gen.Pick(r, f32Pool)
		if r.Chance(1, 3) {
			v = math.Float32frombits(uint32(r.U64()))
		}
		return Arg{K: "g", U: uint64(math.Float32bits(v))}, true
	case reflect.Slice:
		k := map[reflect.Kind]string{reflect.String: "S", reflect.Int64: "I", reflect.Uint64: "U", reflect.Float64: "F", reflect.Float32: "G"}[t.Elem().Kind()]
		if k == "" || t.Elem() == durT {
			return Arg{}, false
		}
		a := Arg{K: k}
		n := g.listLen()
		for i := 0; i < n; i++ {
			e, _ := g.forType(t.Elem())
			a.L = append(a.L, e)
		}
		return a, true
	case reflect.Func:
		// iter.Seq2[string, X] = func(yield func(string, X) bool)
		if t.NumIn() == 1 && t.NumOut() == 0 && t.In(0).Kind() == reflect.Func && t.In(0).NumIn() == 2 && t.In(0).In(0).Kind() == reflect.String {
			k := ""
			switch t.In(0).In(1).Kind() {
			case reflect.String:
				k = "Q"
			case reflect.Float64:
				k = "R"
			default:
				return Arg{}, false
			}
			a := Arg{K: k}
			n := g.listLen()
			for i := 0; i < n; i++ {
				e1, _ := g.forType(t.In(0).In(0))
				e2, _ := g.forType(t.In(0).In(1))
				a.L = append(a.L, e1, e2)
			}
			return a, true
		}
	}
	return Arg{}, false
}

// ---------------------------------------------------------------- Arg <-> reflect.Value, Gallina, expected text

func f64(a Arg) float64 { return math.Float64frombits(a.U) }
func f32(a Arg) float32 { return math.Float32frombits(uint32(a.U)) }
func tim(a Arg) time.Time {
	return time.Unix(a.I, a.N)
}

func (a Arg) value(t reflect.Type) (reflect.Value, error) {
	bad := fmt.Errorf("argument kind %q does not fit %s", a.K, t)
	switch a.K {
	case "s":
		if t.Kind() != reflect.String {
			return reflect.Value{}, bad
		}
		return reflect.ValueOf(string(a.S)).Convert(t), nil
	case "i":
		if t.Kind() != reflect.Int64 || t == durT {
			return reflect.Value{}, bad
		}
		return reflect.ValueOf(a.I).Convert(t), nil
	case "u":
		if t.Kind() != reflect.Uint64 {
			return reflect.Value{}, bad
		}
		return reflect.ValueOf(a.U).Convert(t), nil
	case "f":
		if t.Kind() != reflect.Float64 {
			return reflect.Value{}, bad
		}
		return reflect.ValueOf(f64(a)), nil
	case "g":
		if t.Kind() != reflect.Float32 {
			return reflect.Value{}, bad
		}
		return reflect.ValueOf(f32(a)), nil
	case "d":
		if t != durT {
			return reflect.Value{}, bad
		}
		return reflect.ValueOf(time.Duration(a.I)), nil
	case "t":
		if t != timeT {
			return reflect.Value{}, bad
		}
		return reflect.ValueOf(tim(a)), nil
	case "S", "I", "U", "F", "G":
		if t.Kind() != reflect.Slice {
			return reflect.Value{}, bad
		}
		s := reflect.MakeSlice(t, 0, len(a.L))
		for _, e := range a.L {
			if e.K != strings.ToLower(a.K) {
				return reflect.Value{}, bad
			}
			v, err := e.value(t.Elem())
			if err != nil {
				return reflect.Value{}, err
			}
			s = reflect.Append(s, v)
		}
		return s, nil
	case "Q", "R":
		if t.Kind() != reflect.Func || len(a.L)%2 != 0 {
			return reflect.Value{}, bad
		}
		yt := t.In(0)
		var pairs [][2]reflect.Value
		for i := 0; i < len(a.L); i += 2 {
			x, err1 := a.L[i].value(yt.In(0))
			y, err2 := a.L[i+1].value(yt.In(1))
			if err1 != nil || err2 != nil {
				return reflect.Value{}, bad
			}
			pairs = append(pairs, [2]reflect.Value{x, y})
		}
		return reflect.MakeFunc(t, func(in []reflect.Value) []reflect.Value {
			for _, p := range pairs {
				if !in[0].Call([]reflect.Value{p[0], p[1]})[0].Bool() {
					break
				}
			}
			return nil
		}), nil
	}
	return reflect.Value{}, bad
}

func (a Arg) coq() string {
	el := func(f func(Arg) string) string { return obs.ListOf(a.L, f) }
	switch a.K {
	case "s":
		return obs.App("AS", hx(a.S))
	case "i":
		return obs.App("AI", zx(a.I))
	case "u":
		return obs.App("AU", nx(a.U))
	case "f":
		return obs.App("AF", nx(a.U))
	case "g":
		return obs.App("AF32", nx(a.U))
	case "d":
		return obs.App("AD", zx(a.I))
	case "t":
		// time.Unix normalises; report what the Time value holds
		t := tim(a)
		return obs.App("AT", zx(t.Unix()), nx(uint64(t.Nanosecond())))
	case "S":
		return obs.App("ASs", el(func(e Arg) string { return hx(e.S) }))
	case "I":
		return obs.App("AIs", el(func(e Arg) string { return zx(e.I) }))
	case "U":
		return obs.App("AUs", el(func(e Arg) string { return nx(e.U) }))
	case "F":
		return obs.App("AFs", el(func(e Arg) string { return nx(e.U) }))
	case "G":
		return obs.App("AF32s", el(func(e Arg) string { return nx(e.U) }))
	case "Q", "R":
		var ps []string
		for i := 0; i+1 < len(a.L); i += 2 {
			second := hx(a.L[i+1].S)
			if a.K == "R" {
				second = nx(a.L[i+1].U)
			}
			ps = append(ps, "("+hx(a.L[i].S)+", "+second+")")
		}
		c := "AQS"
		if a.K == "R" {
			c = "AQF"
		}
		return obs.App(c, obs.List(ps))
	}
	return "BAD"
}

// expected renders the caller's argument independently of the builders: the list of argv elements it must
// contribute, in order.  method is the Go method name (for the unit of typed expirations).
func expectedScalar(a Arg, method string) (string, error) {
	switch a.K {
	case "s":
		return string(a.S), nil
	case "i":
		return fmt.Sprintf("%d", a.I), nil
	case "u":
		return fmt.Sprintf("%d", a.U), nil
	case "f":
		return floatText(f64(a)), nil
	case "g":
		return floatText(float64(f32(a))), nil
	case "d":
		switch method {
		case "Ex":
			return fmt.Sprintf("%d", a.I/1000000000), nil // whole seconds, truncated toward zero
		case "Px":
			return fmt.Sprintf("%d", a.I/1000000), nil
		}
		return "", fmt.Errorf("duration parameter on method %s: the option does not name a unit", method)
	case "t":
		t := tim(a)
		sec := a.I + floorDiv(a.N, 1000000000)
		ns := a.N - floorDiv(a.N, 1000000000)*1000000000
		_ = t
		switch method {
		case "Exat":
			return fmt.Sprintf("%d", sec), nil
		case "Pxat":
			return fmt.Sprintf("%d", sec*1000+ns/1000000), nil
		}
		return "", fmt.Errorf("time parameter on method %s: the option does not name a unit", method)
	}
	return "", fmt.Errorf("not a scalar: %s", a.K)
}

func floorDiv(a, b int64) int64 {
	q := a / b
	if (a%b != 0) && ((a < 0) != (b < 0)) {
		q--
	}
	return q
}

// floatText: decimal without exponent that parses back to exactly x (shortest such digits are Go's; the oracle
// additionally checks the round trip and the absence of an exponent on the implementation's own text)
func floatText(x float64) string { return strconv.FormatFloat(x, 'f', -1, 64) }

func expected(a Arg, method string) ([]string, error) {
	switch a.K {
	case "S", "I", "U", "F", "G":
		var out []string
		for _, e := range a.L {
			s, err := expectedScalar(e, method)
			if err != nil {
				return nil, err
			}
			out = append(out, s)
		}
		return out, nil
	case "Q":
		var out []string
		for _, e := range a.L {
			out = append(out, string(e.S))
		}
		return out, nil
	case "R":
		// ZADD order: score then member
		var out []string
		for i := 0; i+1 < len(a.L); i += 2 {
			out = append(out, floatText(f64(a.L[i+1])), string(a.L[i].S))
		}
		return out, nil
	}
	s, err := expectedScalar(a, method)
	if err != nil {
		return nil, err
	}
	return []string{s}, nil
}

// sentinel replaces every scalar by a value whose text is unique (marker k), keeping list lengths
type sentinels struct{ k int }

func (s *sentinels) of(a Arg) Arg {
	s.k++
	k := int64(s.k)
	switch a.K {
	case "s":
		return Arg{K: "s", S: []byte(fmt.Sprintf("\x00ARG%d\x00", k))}
	case "i":
		return Arg{K: "i", I: 7000000 + k}
	case "u":
		return Arg{K: "u", U: uint64(7000000 + k)}
	case "f":
		return Arg{K: "f", U: math.Float64bits(float64(7000000+k) + 0.5)}
	case "g":
		return Arg{K: "g", U: uint64(math.Float32bits(float32(70000+k) + 0.5))}
	case "d":
		return Arg{K: "d", I: (7000000 + k) * int64(time.Second)}
	case "t":
		return Arg{K: "t", I: 7000000 + k, N: 0}
	}
	s.k--
	out := Arg{K: a.K}
	for _, e := range a.L {
		out.L = append(out.L, s.of(e))
	}
	return out
}

// ---------------------------------------------------------------- executing a path

type built struct {
	argv     []string
	cf       uint16
	ks       uint16
	typeName string
	hasBuild bool
	hasCache bool
	rootToks []string
	panicked bool
	panicMsg string
	bad      string // the description does not fit the real types
}

func execPath(init uint16, root string, steps []Step, term string) (b built) {
	defer func() {
		if r := recover(); r != nil {
			b.panicked = true
			b.panicMsg = fmt.Sprint(r)
		}
	}()
	bv := reflect.ValueOf(rueidis.VerifBldNewBuilder(init))
	rm := bv.MethodByName(root)
	if !rm.IsValid() || rm.Type().NumIn() != 0 {
		b.bad = "no root " + root
		return
	}
	v := rm.Call(nil)[0]
	if s, _, _, ok := rueidis.VerifBldPeek(v.Interface()); ok {
		b.rootToks = s
	}
	for _, st := range steps {
		m := v.MethodByName(st.M)
		if !m.IsValid() || st.M == "Build" || st.M == "Cache" {
			b.bad = fmt.Sprintf("type %s has no method %s", v.Type().Name(), st.M)
			return
		}
		mt := m.Type()
		if mt.NumIn() != len(st.A) {
			b.bad = fmt.Sprintf("%s.%s takes %d parameters, case has %d", v.Type().Name(), st.M, mt.NumIn(), len(st.A))
			return
		}
		in := make([]reflect.Value, len(st.A))
		for i, a := range st.A {
			x, err := a.value(mt.In(i))
			if err != nil {
				b.bad = fmt.Sprintf("%s.%s: %v", v.Type().Name(), st.M, err)
				return
			}
			in[i] = x
		}
		if mt.IsVariadic() {
			v = m.CallSlice(in)[0]
		} else {
			v = m.Call(in)[0]
		}
	}
	b.typeName = v.Type().Name()
	_, b.hasBuild = v.Type().MethodByName("Build")
	_, b.hasCache = v.Type().MethodByName("Cache")
	tm := v.MethodByName(term)
	if !tm.IsValid() {
		b.bad = fmt.Sprintf("type %s does not offer %s()", b.typeName, term)
		return
	}
	res := tm.Call(nil)[0].Interface()
	switch c := res.(type) {
	case rueidis.Completed:
		b.argv = append([]string(nil), c.Commands()...)
		b.cf = rueidis.VerifBldCompletedCF(c)
		b.ks = c.Slot()
	case rueidis.Cacheable:
		b.argv = append([]string(nil), c.Commands()...)
		b.cf = rueidis.VerifBldCacheableCF(c)
		b.ks = c.Slot()
	default:
		b.bad = "terminal returned " + reflect.TypeOf(res).String()
	}
	return
}

// Gallina printers that coqc parses fast: hex numerals (decimal numerals are converted by a Coq-level function,
// ten times slower) and byte strings as packed numbers ([unpack 0x01…]) instead of string literals.
func nx(u uint64) string { return "0x" + strconv.FormatUint(u, 16) }

func zx(i int64) string {
	if i < 0 {
		return "(-0x" + strconv.FormatUint(uint64(-(i+1))+1, 16) + ")%Z"
	}
	return "0x" + strconv.FormatUint(uint64(i), 16) + "%Z"
}

func hx(b []byte) string {
	if len(b) == 0 {
		return "[]"
	}
	return "(unpack 0x01" + fmt.Sprintf("%x", b) + ")"
}

func hxs(s string) string { return hx([]byte(s)) }

func fnv32(s string) uint64 {
	h := fnv.New32a()
	h.Write([]byte(s))
	return uint64(h.Sum32())
}

func packed(s string) string { return "0x01" + fmt.Sprintf("%x", []byte(s)) }

// ---------------------------------------------------------------- specification lists (coq/Model/RedisCmds.v)

var spec = map[string]map[string]bool{}

func loadSpec(path string) {
	raw, err := os.ReadFile(path)
	if err != nil {
		fmt.Fprintln(os.Stderr, "obs_builders: -spec:", err)
		os.Exit(2)
	}
	re := regexp.MustCompile(`(?s)Definition\s+(\w+)\s*:\s*list string\s*:=\s*\[(.*?)\]\s*\.`)
	str := regexp.MustCompile(`"([^"]*)"`)
	for _, m := range re.FindAllStringSubmatch(string(raw), -1) {
		set := map[string]bool{}
		for _, s := range str.FindAllStringSubmatch(m[2], -1) {
			set[s[1]] = true
		}
		spec[m[1]] = set
	}
	for _, want := range []string{"read_commands", "blocking_commands", "block_option_commands", "subscribe_commands", "unsubscribe_commands"} {
		if len(spec[want]) == 0 {
			fmt.Fprintf(os.Stderr, "obs_builders: %s has no list %s\n", path, want)
			os.Exit(2)
		}
	}
}

// ---------------------------------------------------------------- generation

var (
	prop    = flag.String("prop", "C33", "which direct oracle to evaluate: C18 | C32 | C33")
	specF   = flag.String("spec", "", "coq/Model/RedisCmds.v (C32)")
	focusF  = flag.String("focus", "", "comma separated Type.Method (or root names): generate paths through these")
	focuses [][2]string
)

func genArgs(g *argGen, m tmethod) []Arg {
	out := make([]Arg, len(m.in))
	for i, t := range m.in {
		a, ok := g.forType(t)
		if !ok {
			fmt.Fprintf(os.Stderr, "obs_builders: parameter type %s not supported\n", t)
			os.Exit(2)
		}
		out[i] = a
	}
	return out
}

// pathTo returns root and steps (methods only) leading to type t
func pathTo(t reflect.Type) (string, []string) {
	var ms []string
	for {
		p, ok := pred[t]
		if !ok {
			return "", nil
		}
		if p[0] == nil {
			return p[1].(string), ms
		}
		ms = append([]string{p[1].(string)}, ms...)
		t = p[0].(reflect.Type)
	}
}

func genPath(r *gen.Rand, i int) Case {
	c := Case{Op: "path", Init: rueidis.VerifBldNoSlot}
	if r.Chance(1, 2) {
		c.Init = rueidis.VerifBldInitSlot
	}
	g := &argGen{r: r}
	if c.Init == rueidis.VerifBldInitSlot && r.Chance(5, 6) {
		g.tagged = true
		g.tag = []byte(gen.Pick(r, []string{"t", "user:1", "a", "x{y", "\x01"}))
	}
	if len(focuses) > 0 && *prop == "C18" {
		c.Init = rueidis.VerifBldInitSlot
		g.tagged, g.tag = true, []byte("t")
	}
	var cur *tnode
	follow := func(name string) bool {
		for _, m := range cur.methods {
			if m.name == name {
				c.Steps = append(c.Steps, Step{M: name, A: genArgs(g, m)})
				cur = tgraph[m.out]
				return true
			}
		}
		return false
	}
	if len(focuses) > 0 {
		f := focuses[i%len(focuses)]
		if f[1] == "" { // a root
			c.Root = f[0]
		} else if n, ok := byName[f[0]]; ok {
			root, ms := pathTo(n.t)
			c.Root = root
			m0, _ := builderT.MethodByName(root)
			cur = tgraph[m0.Type.Out(0)]
			for _, m := range ms {
				follow(m)
			}
			if *prop == "C18" {
				// the focused method's string arguments get a hash tag of their own, on a cluster builder: either the
				// built command is in that tag's slot or the builder refuses the combination
				c.Init = rueidis.VerifBldInitSlot
				other := *g
				g.tagged, g.tag = true, []byte("focus")
				if follow(f[1]) {
					c.Focus = len(c.Steps)
				}
				*g = other
				g.tagged, g.tag = true, []byte("t")
			} else {
				follow(f[1])
			}
		}
	}
	if c.Root == "" {
		// every root in turn, so that n >= len(roots) covers every command
		c.Root = rootsM[(i+int(gen.Seed()))%len(rootsM)]
		if r.Chance(1, 3) {
			c.Root = gen.Pick(r, rootsM)
		}
	}
	if cur == nil {
		m0, _ := builderT.MethodByName(c.Root)
		cur = tgraph[m0.Type.Out(0)]
	}
	budget := r.Range(0, 10)
	for depth := 0; ; depth++ {
		canStop := cur.build || cur.cache
		if canStop && (len(cur.methods) == 0 || depth >= budget || r.Chance(1, 4)) {
			break
		}
		if depth >= budget && cur.next >= 0 {
			m := cur.methods[cur.next]
			c.Steps = append(c.Steps, Step{M: m.name, A: genArgs(g, m)})
			cur = tgraph[m.out]
			continue
		}
		m := gen.Pick(r, cur.methods)
		c.Steps = append(c.Steps, Step{M: m.name, A: genArgs(g, m)})
		cur = tgraph[m.out]
	}
	c.Term = "Build"
	if cur.cache && (!cur.build || r.Bool()) {
		c.Term = "Cache"
	}
	return c
}

var predefNames []string

func genCase(r *gen.Rand, i int) any {
	if len(focuses) == 0 {
		switch r.Intn(40) {
		case 0:
			return Case{Op: "flags", CF: uint16(r.U64()) & 0xffc0}
		case 1:
			return Case{Op: "predef", Name: gen.Pick(r, predefNames)}
		case 2, 3:
			return genArb(r)
		}
	}
	return genPath(r, i)
}

func genArb(r *gen.Rand) Case {
	c := Case{Op: "arb", Init: rueidis.VerifBldNoSlot}
	if r.Bool() {
		c.Init = rueidis.VerifBldInitSlot
	}
	g := &argGen{r: r, tagged: r.Chance(2, 3), tag: []byte("q")}
	nt := gen.Pick(r, []int{0, 1, 1, 1, 2, 3})
	for j := 0; j < nt; j++ {
		t := []byte(gen.Pick(r, []string{"GET", "MGET", "JSON.MGET", "subscribe", "SSUBSCRIBE", "pSubscribe", "UNSUBSCRIBE", "", "X", "mget", "SUBSCRIBEX", "set", "Zadd", "SUBSCRIB"}))
		c.Toks = append(c.Toks, t)
	}
	ns := r.Intn(4)
	for j := 0; j < ns; j++ {
		a := Arg{K: "S"}
		for k := g.listLen(); k > 0; k-- {
			a.L = append(a.L, Arg{K: "s", S: g.str()})
		}
		c.Steps = append(c.Steps, Step{M: gen.Pick(r, []string{"Keys", "Args"}), A: []Arg{a}})
	}
	c.Term = gen.Pick(r, []string{"Build", "Build", "Blocking", "ReadOnly", "MultiGet"})
	return c
}

func decode(raw json.RawMessage) (any, error) {
	var c Case
	if err := json.Unmarshal(raw, &c); err != nil {
		return nil, err
	}
	return c, nil
}

// ---------------------------------------------------------------- run

func hs(ss []string) string { return obs.ListOf(ss, hxs) }

func collectFloats(a Arg, f64s, f32s map[uint64]string) {
	switch a.K {
	case "f":
		f64s[a.U] = floatText(f64(a))
	case "g":
		f32s[a.U] = floatText(float64(f32(a)))
	}
	for _, e := range a.L {
		collectFloats(e, f64s, f32s)
	}
}

func floatTab(m map[uint64]string) string {
	keys := make([]uint64, 0, len(m))
	for k := range m {
		keys = append(keys, k)
	}
	sort.Slice(keys, func(i, j int) bool { return keys[i] < keys[j] })
	items := make([]string, len(keys))
	for i, k := range keys {
		items[i] = "(" + nx(k) + ", " + hxs(m[k]) + ")"
	}
	return obs.List(items)
}

func runPath(c Case) (res obs.Result) {
	res.Kind = "path"
	b := execPath(c.Init, c.Root, c.Steps, c.Term)
	if b.bad != "" {
		res.Kind = "path-stale"
		res.Obs = b.bad
		res.Sig = "stale:" + b.bad
		return // a stored description that no longer fits the code: nothing to compare
	}
	// Gallina
	steps := make([]string, len(c.Steps))
	f64s, f32s := map[uint64]string{}, map[uint64]string{}
	for i, st := range c.Steps {
		args := make([]string, len(st.A))
		for j, a := range st.A {
			args[j] = a.coq()
			collectFloats(a, f64s, f32s)
		}
		steps[i] = obs.App("Call", packed(st.M), obs.List(args))
	}
	impl := obs.Panic
	if !b.panicked {
		impl = obs.Ok(obs.App("Obs", hs(b.argv), nx(uint64(b.cf)), nx(uint64(b.ks)), nx(fnv32(b.typeName)), obs.Bool(b.hasBuild), obs.Bool(b.hasCache)))
	}
	term := map[string]string{"Build": "TBuild", "Cache": "TCache"}[c.Term]
	res.Coq = obs.App("CPath", nx(uint64(c.Init)), packed(c.Root), obs.List(steps), term, floatTab(f64s), floatTab(f32s), impl)
	var sig strings.Builder
	sig.WriteString(c.Root)
	for _, st := range c.Steps {
		sig.WriteString("." + st.M)
	}
	res.Sig = sig.String() + "." + c.Term
	res.Nontrivial = !b.panicked && len(c.Steps) > 0
	cmd := strings.Join(b.rootToks, " ")
	res.Obs = map[string]any{"argv": b.argv, "cf": b.cf, "ks": b.ks, "type": b.typeName, "panic": b.panicMsg, "cmd": cmd}
	if *prop == "C18" && c.Focus > 0 && c.Focus <= len(c.Steps) {
		oracleFocusKey(c, b, &res)
	}
	if b.panicked {
		res.Kind = "path-panic"
		if c.Init != rueidis.VerifBldInitSlot || !strings.Contains(b.panicMsg, "different key slots") {
			res.Oracle = "builder panicked: " + b.panicMsg
			res.Site, res.Class = cmd, "unexpected-panic"
		}
		return
	}
	switch *prop {
	case "C33":
		oracleArgv(c, b, &res)
	case "C32":
		oracleFlags(c, b, cmd, &res)
	}
	return
}

// oracleFocusKey: C18 focused search.  The string arguments of step Focus-1 carry the hash tag {focus}, every other
// string argument another tag.  If that method's parameter is a key, a cluster builder must either refuse the
// combination or build a command whose Slot() is the slot of "focus".
func oracleFocusKey(c Case, b built, res *obs.Result) {
	st := c.Steps[c.Focus-1]
	hasStr := false
	for _, a := range st.A {
		if a.K == "s" || (a.K == "S" && len(a.L) > 0) {
			hasStr = true
		}
	}
	if !hasStr || b.panicked {
		return
	}
	res.Site, res.Class = b.typeName+"."+st.M, "key-slot"
	want := crcBitwise([]byte("focus")) % 16384
	if b.ks != want {
		res.Oracle = fmt.Sprintf("method %s was given keys with hash tag {focus} (slot %d) on a cluster builder; the command was built with Slot() = %d", st.M, want, b.ks)
	}
}

func crcBitwise(b []byte) uint16 {
	var crc uint16
	for _, c := range b {
		crc ^= uint16(c) << 8
		for i := 0; i < 8; i++ {
			if crc&0x8000 != 0 {
				crc = crc<<1 ^ 0x1021
			} else {
				crc <<= 1
			}
		}
	}
	return crc
}

// oracleArgv: C33, argv part
func oracleArgv(c Case, b built, res *obs.Result) {
	res.Site, res.Class = strings.Join(b.rootToks, " "), "argv"
	// second run: same path, unique sentinel arguments, non-cluster builder
	sn := &sentinels{}
	steps2 := make([]Step, len(c.Steps))
	var want1, want2 []string
	for i, st := range c.Steps {
		steps2[i].M = st.M
		for _, a := range st.A {
			a2 := sn.of(a)
			steps2[i].A = append(steps2[i].A, a2)
			e1, err1 := expected(a, st.M)
			e2, err2 := expected(a2, st.M)
			if err1 != nil || err2 != nil {
				res.Oracle = fmt.Sprint(err1, err2)
				return
			}
			want1 = append(want1, e1...)
			want2 = append(want2, e2...)
		}
	}
	b2 := execPath(rueidis.VerifBldNoSlot, c.Root, steps2, c.Term)
	if b2.panicked || b2.bad != "" {
		res.Oracle = "re-run with sentinel arguments failed: " + b2.panicMsg + b2.bad
		return
	}
	if len(b2.argv) != len(b.argv) {
		res.Oracle = fmt.Sprintf("argv length depends on argument values: %d vs %d", len(b.argv), len(b2.argv))
		return
	}
	// positions of the sentinel arguments
	k := 0
	for pos, el := range b2.argv {
		if k < len(want2) && el == want2[k] {
			if b.argv[pos] != want1[k] {
				res.Oracle = fmt.Sprintf("argv[%d] = %q, the caller's argument #%d renders as %q", pos, b.argv[pos], k, want1[k])
				return
			}
			k++
			continue
		}
		if strings.Contains(el, "ARG") && strings.Contains(el, "\x00") || strings.HasPrefix(el, "7000") {
			res.Oracle = fmt.Sprintf("argument out of call order or duplicated: argv[%d] = %q while expecting argument #%d (%q)", pos, el, k, safeIdx(want2, k))
			return
		}
		if el != b.argv[pos] {
			res.Oracle = fmt.Sprintf("literal token at argv[%d] depends on the arguments: %q vs %q", pos, b.argv[pos], el)
			return
		}
	}
	if k != len(want2) {
		res.Oracle = fmt.Sprintf("argument #%d (%q) of the call sequence does not appear in argv %q", k, want2[k], b2.argv)
		return
	}
	if len(b.rootToks) > len(b.argv) || !reflect.DeepEqual(b.argv[:len(b.rootToks)], b.rootToks) {
		res.Oracle = "argv does not start with the command tokens"
		return
	}
	// number syntax on the implementation's own text
	k = 0
	for _, st := range c.Steps {
		for _, a := range st.A {
			k = checkSyntax(a, st.M, want1, k, res)
			if res.Oracle != "" {
				return
			}
		}
	}
}

func safeIdx(s []string, i int) string {
	if i < len(s) {
		return s[i]
	}
	return "<none>"
}

var decRe = regexp.MustCompile(`^-?(0|[1-9][0-9]*)$`)
var fltRe = regexp.MustCompile(`^(-?[0-9]+(\.[0-9]+)?|NaN|[+-]Inf)$`)

// checkSyntax: integers are canonical base-10 numerals denoting the argument; floats have no exponent and parse back
// to exactly the argument
func checkSyntax(a Arg, method string, texts []string, k int, res *obs.Result) int {
	one := func(e Arg, txt string) {
		switch e.K {
		case "i":
			if v, err := strconv.ParseInt(txt, 10, 64); err != nil || v != e.I || !decRe.MatchString(txt) {
				res.Oracle = fmt.Sprintf("integer argument %d rendered as %q (not its base-10 numeral)", e.I, txt)
			}
		case "u":
			if v, err := strconv.ParseUint(txt, 10, 64); err != nil || v != e.U || !decRe.MatchString(txt) {
				res.Oracle = fmt.Sprintf("integer argument %d rendered as %q (not its base-10 numeral)", e.U, txt)
			}
		case "d", "t":
			if !decRe.MatchString(txt) {
				res.Oracle = fmt.Sprintf("expiration rendered as %q (not a base-10 numeral)", txt)
			}
		case "f", "g":
			x := f64(e)
			if e.K == "g" {
				x = float64(f32(e))
			}
			back, err := strconv.ParseFloat(txt, 64)
			if !fltRe.MatchString(txt) || err != nil || (math.Float64bits(back) != math.Float64bits(x) && !(math.IsNaN(x) && math.IsNaN(back))) {
				res.Oracle = fmt.Sprintf("float argument %v rendered as %q (does not round-trip / not plain decimal)", x, txt)
			}
		}
	}
	switch a.K {
	case "S", "I", "U", "F", "G":
		for _, e := range a.L {
			one(e, texts[k])
			k++
		}
	case "Q":
		k += len(a.L)
	case "R":
		for i := 0; i+1 < len(a.L); i += 2 {
			one(a.L[i+1], texts[k])
			k += 2
		}
	default:
		one(a, texts[k])
		k++
	}
	return k
}

// oracleFlags: C32
func oracleFlags(c Case, b built, cmd string, res *obs.Result) {
	tags := rueidis.VerifBldTags()
	has := func(t string) bool { return b.cf&tags[t] == tags[t] }
	res.Site = cmd
	// literal BLOCK option: position found with sentinel arguments would be exact; here: a BLOCK element that is not
	// one of the caller's string arguments
	blockOpt := false
	if spec["block_option_commands"][cmd] {
		for _, st := range c.Steps {
			if st.M == "Block" {
				blockOpt = true
			}
		}
	}
	switch {
	case has("readonly") && !spec["read_commands"][cmd]:
		res.Oracle = fmt.Sprintf("%s is built read-only (auto-retried, replica-eligible) but is not a side-effect-free read", cmd)
		res.Class = "readonly-not-read"
	case b.hasCache && !has("readonly"):
		res.Oracle = fmt.Sprintf("%s offers Cache() but is not marked read-only", cmd)
		res.Class = "cache-not-readonly"
	case (spec["blocking_commands"][cmd] || blockOpt) && !has("blockTag"):
		res.Oracle = fmt.Sprintf("%s blocks but is not marked blocking", cmd)
		res.Class = "blocking-not-marked"
	case spec["subscribe_commands"][cmd] && !has("noRetTag"):
		res.Oracle = fmt.Sprintf("%s is not marked as a Pub/Sub (no-reply) command", cmd)
		res.Class = "subscribe-not-marked"
	case spec["unsubscribe_commands"][cmd] && !has("unsubTag"):
		res.Oracle = fmt.Sprintf("%s is not marked as an unsubscribe command", cmd)
		res.Class = "unsubscribe-not-marked"
	}
}

func runArb(c Case) (res obs.Result) {
	res.Kind = "arb"
	toks := make([]string, len(c.Toks))
	for i, t := range c.Toks {
		toks[i] = string(t)
	}
	var out rueidis.Completed
	panicked, msg := true, ""
	func() {
		defer func() {
			if r := recover(); r != nil {
				msg = fmt.Sprint(r)
			}
		}()
		a := rueidis.VerifBldNewBuilder(c.Init).Arbitrary(toks...)
		for _, st := range c.Steps {
			var l []string
			for _, e := range st.A[0].L {
				l = append(l, string(e.S))
			}
			if st.M == "Keys" {
				a = a.Keys(l...)
			} else {
				a = a.Args(l...)
			}
		}
		switch c.Term {
		case "Blocking":
			out = a.Blocking()
		case "ReadOnly":
			out = a.ReadOnly()
		case "MultiGet":
			out = a.MultiGet()
		default:
			out = a.Build()
		}
		panicked = false
	}()
	steps := make([]string, len(c.Steps))
	for i, st := range c.Steps {
		var l []string
		for _, e := range st.A[0].L {
			l = append(l, hx(e.S))
		}
		k := "AArgs"
		if st.M == "Keys" {
			k = "AKeys"
		}
		steps[i] = obs.App(k, obs.List(l))
	}
	impl := obs.Panic
	if !panicked {
		impl = obs.Ok(obs.App("Cmd", hs(out.Commands()), nx(uint64(rueidis.VerifBldCompletedCF(out))), nx(uint64(out.Slot()))))
	}
	term := map[string]string{"Build": "ABuild", "Blocking": "ABlocking", "ReadOnly": "AReadOnly", "MultiGet": "AMultiGet"}[c.Term]
	res.Coq = obs.App("CArb", nx(uint64(c.Init)), obs.ListOf(c.Toks, hx), obs.List(steps), term, impl)
	res.Sig = fmt.Sprint("arb:", toks, c.Term, len(c.Steps), panicked)
	res.Nontrivial = len(toks) > 0
	res.Obs = map[string]any{"panic": msg}
	res.Site, res.Class = "internal/cmds/builder.go:Arbitrary", "arbitrary"
	if !panicked {
		// oracle: tokens then the caller's arguments, in call order; SUBSCRIBE family refused
		want := append([]string(nil), toks...)
		for _, st := range c.Steps {
			for _, e := range st.A[0].L {
				want = append(want, string(e.S))
			}
		}
		if !reflect.DeepEqual(want, out.Commands()) && !(len(want) == 0 && len(out.Commands()) == 0) {
			res.Oracle = fmt.Sprintf("Arbitrary argv %q, want %q", out.Commands(), want)
		}
		if len(toks) > 0 && strings.HasSuffix(strings.ToUpper(toks[0]), "SUBSCRIBE") {
			res.Oracle = "Arbitrary built a SUBSCRIBE-family command without the Pub/Sub mark"
		}
	}
	return
}

func runFlags(c Case) (res obs.Result) {
	res.Kind = "flags"
	cmd := rueidis.VerifBldWithCF([]string{"X"}, c.CF)
	res.Coq = obs.App("CFlags", nx(uint64(c.CF)), obs.Bool(cmd.IsReadOnly()), obs.Bool(cmd.IsBlock()), obs.Bool(cmd.NoReply()),
		obs.Bool(cmd.IsUnsub()), obs.Bool(cmd.IsOptIn()), obs.Bool(cmd.IsPipe()), obs.Bool(cmd.IsRetryable()))
	res.Sig = fmt.Sprint("flags:", c.CF)
	res.Nontrivial = c.CF != 0
	if cmd.IsWrite() == cmd.IsReadOnly() {
		res.Oracle = "IsWrite() is not the negation of IsReadOnly()"
		res.Site, res.Class = "internal/cmds/cmds.go:IsWrite", "flags"
	}
	return
}

func runPredef(c Case) (res obs.Result) {
	res.Kind = "predef"
	p, ok := rueidis.VerifBldPredefined()[c.Name]
	if !ok {
		res.Kind = "predef-stale"
		return
	}
	res.Coq = obs.App("CPredef", packed(c.Name), hs(p.Commands()), nx(uint64(rueidis.VerifBldCompletedCF(p))))
	res.Sig = "predef:" + c.Name
	res.Nontrivial = true
	if *prop == "C32" {
		tags := rueidis.VerifBldTags()
		cf := rueidis.VerifBldCompletedCF(p)
		cmd := p.Commands()[0]
		res.Site = "predefined " + c.Name
		switch {
		case spec["subscribe_commands"][cmd] && cf&tags["noRetTag"] != tags["noRetTag"]:
			res.Oracle, res.Class = c.Name+" is not marked as a Pub/Sub command", "subscribe-not-marked"
		case spec["unsubscribe_commands"][cmd] && cf&tags["unsubTag"] != tags["unsubTag"]:
			res.Oracle, res.Class = c.Name+" is not marked as an unsubscribe command", "unsubscribe-not-marked"
		case cf&tags["readonly"] == tags["readonly"] && !spec["read_commands"][strings.Join(p.Commands()[:1], " ")] && !spec["subscribe_commands"][cmd] && !spec["unsubscribe_commands"][cmd]:
			res.Oracle, res.Class = c.Name+" is marked read-only but is not a read", "readonly-not-read"
		}
	}
	return
}

func run(ci any) obs.Result {
	c := ci.(Case)
	switch c.Op {
	case "path":
		return runPath(c)
	case "arb":
		return runArb(c)
	case "flags":
		return runFlags(c)
	case "predef":
		return runPredef(c)
	}
	return obs.Result{Kind: "bad", Oracle: "bad case description"}
}

func main() {
	// obs.Main parses the flags; ours are registered above.  The graph must exist before generation starts.
	buildGraph()
	for n := range rueidis.VerifBldPredefined() {
		predefNames = append(predefNames, n)
	}
	sort.Strings(predefNames)
	// flags are parsed inside obs.Main; -spec / -focus are needed before the first case, so peek at os.Args
	for i, a := range os.Args {
		if (a == "-spec" || a == "--spec") && i+1 < len(os.Args) {
			loadSpec(os.Args[i+1])
		}
		if (a == "-focus" || a == "--focus") && i+1 < len(os.Args) {
			for _, f := range strings.Split(os.Args[i+1], ",") {
				if f = strings.TrimSpace(f); f != "" {
					if strings.HasPrefix(f, "@") { // a command: the root constructor with these tokens
						for _, rn := range rootsM {
							v := reflect.ValueOf(rueidis.VerifBldNewBuilder(rueidis.VerifBldNoSlot)).MethodByName(rn).Call(nil)[0]
							if s, _, _, ok := rueidis.VerifBldPeek(v.Interface()); ok && strings.Join(s, " ") == f[1:] {
								focuses = append(focuses, [2]string{rn, ""})
							}
						}
						continue
					}
					if strings.HasPrefix(f, "#") { // #<FNV-1a of the type name>.<Method>
						parts := strings.SplitN(f[1:], ".", 2)
						h, _ := strconv.ParseUint(parts[0], 10, 64)
						for name := range byName {
							if fnv32(name) == h && len(parts) == 2 {
								focuses = append(focuses, [2]string{name, parts[1]})
							}
						}
						continue
					}
					parts := strings.SplitN(f, ".", 2)
					if len(parts) == 1 {
						focuses = append(focuses, [2]string{parts[0], ""})
					} else {
						focuses = append(focuses, [2]string{parts[0], parts[1]})
					}
				}
			}
		}
	}
	_ = bytes.Compare
	obs.Main(obs.Runner{Name: "obs_builders", Salt: 33, Gen: genCase, Decode: decode, Run: run,
		Extra: func(emit func(map[string]any)) {
			emit(map[string]any{"k": "graph", "types": len(tgraph), "roots": len(rootsM)})
		}})
}
