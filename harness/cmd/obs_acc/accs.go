package main

import (
	"encoding/json"
	"errors"
	"fmt"
	"io"
	"sort"
	"strconv"

	"github.com/redis/rueidis"

	"verifharness/obs"
)

// ---- canonical values (Gallina terms of type val) ----
func vInt(i int64) string     { return "(VInt " + obs.Z(i) + ")" }
func vUint(u uint64) string   { return "(VUint " + obs.N(u) + ")" }
func vBool(b bool) string     { return "(VBool " + obs.Bool(b) + ")" }
func vFloat(f float64) string { return "(VFloat " + obs.N(fbits(f)) + ")" }
func vStr(s string) string    { return "(VStr " + obs.HS(s) + ")" }
func vList(xs []string) string {
	return "(VList " + obs.List(xs) + ")"
}
func vTup(xs ...string) string { return "(VTup " + obs.List(xs) + ")" }
func vListOf[T any](xs []T, f func(T) string) string {
	out := make([]string, len(xs))
	for i, x := range xs {
		out[i] = f(x)
	}
	return vList(out)
}
func vMapOf[T any](m map[string]T, f func(T) string) string {
	if m == nil {
		return "VNil"
	}
	keys := make([]string, 0, len(m))
	for k := range m {
		keys = append(keys, k)
	}
	sort.Strings(keys)
	out := make([]string, len(keys))
	for i, k := range keys {
		out[i] = "(" + obs.HS(k) + ", " + f(m[k]) + ")"
	}
	return "(VMap " + obs.List(out) + ")"
}
func vMsg(m rueidis.RedisMessage) string { return "(VMsg " + coqMsg(m) + ")" }

func vXEntry(e rueidis.XRangeEntry) string { return vTup(vStr(e.ID), vMapOf(e.FieldValues, vStr)) }
func vXSlice(e rueidis.XRangeSlice) string {
	fv := "VNil"
	if e.FieldValues != nil {
		fv = vListOf(e.FieldValues, func(p rueidis.XRangeFieldValue) string { return vTup(vStr(p.Field), vStr(p.Value)) })
	}
	return vTup(vStr(e.ID), fv)
}
func vZScore(z rueidis.ZScore) string { return vTup(vStr(z.Member), vFloat(z.Score)) }
func vDoc(d rueidis.FtSearchDoc) string {
	return vTup(vStr(d.Key), vMapOf(d.Doc, vStr), vFloat(d.Score))
}
func vGeo(g rueidis.GeoLocation) string {
	return vTup(vStr(g.Name), vFloat(g.Longitude), vFloat(g.Latitude), vFloat(g.Dist), vInt(g.GeoHash))
}
func vStrMapOpt(m map[string]string) string { return vMapOf(m, vStr) }

func vAny(a any) string {
	switch x := a.(type) {
	case nil:
		return "VNil"
	case float64:
		return vFloat(x)
	case string:
		return vStr(x)
	case bool:
		return vBool(x)
	case int64:
		return vInt(x)
	case map[string]any:
		return vMapOf(x, vAny)
	case []any:
		return vListOf(x, vAny)
	case error:
		return "(VErr " + errTerm(x, false) + ")"
	}
	return fmt.Sprintf("(VStr (h \"unexpected %T\"))", a)
}

type markerErr int

func (e markerErr) Error() string { return "non-redis error " + strconv.Itoa(int(e)) }

// errTerm maps an error to the model's aerr.
func errTerm(err error, jsonAcc bool) string {
	var re *rueidis.RedisError
	var ne *strconv.NumError
	var me markerErr
	switch {
	case err == rueidis.Nil:
		return "ENil"
	case errors.As(err, &re):
		t, s := rueidis.VerifRedisErrorView(re)
		return obs.App("ERedis", obs.N(uint64(t)), obs.HS(s))
	case rueidis.IsParseErr(err):
		return "EParse"
	case errors.As(err, &ne):
		return "ENum"
	case errors.As(err, &me):
		return obs.App("EOther", obs.N(uint64(me)))
	case jsonAcc:
		return "EJson"
	}
	return "EShape"
}

func errKind(err error, jsonAcc bool) string {
	t := errTerm(err, jsonAcc)
	if len(t) > 7 && t[:7] == "(ERedis" {
		return "ERedis"
	}
	return t
}

// Outcome of one accessor call.
type Outcome struct {
	Kind string // "ok" | error kind | "panic"
	Term string // Gallina res val
	Val  string // Gallina val when ok
	Err  error
}

type Accessor struct {
	Name string // Go method
	Coq  string
	JSON bool
	// Res applies the accessor to a RedisResult, Msg to the message itself (nil when there is no such method)
	Res func(r rueidis.RedisResult) (string, error)
	Msg func(m *rueidis.RedisMessage) (string, error)
}

func wrap[T any](f func() (T, error), show func(T) string) (string, error) {
	v, err := f()
	if err != nil {
		return "", err
	}
	return show(v), nil
}

var accessors = []Accessor{
	{Name: "Error", Coq: "AError",
		Res: func(r rueidis.RedisResult) (string, error) { return "VNil", r.Error() },
		Msg: func(m *rueidis.RedisMessage) (string, error) { return "VNil", m.Error() }},
	{Name: "ToInt64", Coq: "AToInt64",
		Res: func(r rueidis.RedisResult) (string, error) { return wrap(r.ToInt64, vInt) },
		Msg: func(m *rueidis.RedisMessage) (string, error) { return wrap(m.ToInt64, vInt) }},
	{Name: "ToBool", Coq: "AToBool",
		Res: func(r rueidis.RedisResult) (string, error) { return wrap(r.ToBool, vBool) },
		Msg: func(m *rueidis.RedisMessage) (string, error) { return wrap(m.ToBool, vBool) }},
	{Name: "ToFloat64", Coq: "AToFloat64",
		Res: func(r rueidis.RedisResult) (string, error) { return wrap(r.ToFloat64, vFloat) },
		Msg: func(m *rueidis.RedisMessage) (string, error) { return wrap(m.ToFloat64, vFloat) }},
	{Name: "ToString", Coq: "AToString",
		Res: func(r rueidis.RedisResult) (string, error) { return wrap(r.ToString, vStr) },
		Msg: func(m *rueidis.RedisMessage) (string, error) { return wrap(m.ToString, vStr) }},
	{Name: "AsReader", Coq: "AAsReader",
		Res: func(r rueidis.RedisResult) (string, error) {
			rd, err := r.AsReader()
			if err != nil {
				return "", err
			}
			bs, _ := io.ReadAll(rd)
			return vStr(string(bs)), nil
		},
		Msg: func(m *rueidis.RedisMessage) (string, error) {
			rd, err := m.AsReader()
			if err != nil {
				return "", err
			}
			bs, _ := io.ReadAll(rd)
			return vStr(string(bs)), nil
		}},
	{Name: "AsBytes", Coq: "AAsBytes",
		Res: func(r rueidis.RedisResult) (string, error) {
			return wrap(r.AsBytes, func(b []byte) string { return vStr(string(b)) })
		},
		Msg: func(m *rueidis.RedisMessage) (string, error) {
			return wrap(m.AsBytes, func(b []byte) string { return vStr(string(b)) })
		}},
	{Name: "DecodeJSON", Coq: "ADecodeJSON", JSON: true,
		Res: func(r rueidis.RedisResult) (string, error) { var v any; return "VUnit", r.DecodeJSON(&v) },
		Msg: func(m *rueidis.RedisMessage) (string, error) { var v any; return "VUnit", m.DecodeJSON(&v) }},
	{Name: "AsInt64", Coq: "AAsInt64",
		Res: func(r rueidis.RedisResult) (string, error) { return wrap(r.AsInt64, vInt) },
		Msg: func(m *rueidis.RedisMessage) (string, error) { return wrap(m.AsInt64, vInt) }},
	{Name: "AsUint64", Coq: "AAsUint64",
		Res: func(r rueidis.RedisResult) (string, error) { return wrap(r.AsUint64, vUint) },
		Msg: func(m *rueidis.RedisMessage) (string, error) { return wrap(m.AsUint64, vUint) }},
	{Name: "AsBool", Coq: "AAsBool",
		Res: func(r rueidis.RedisResult) (string, error) { return wrap(r.AsBool, vBool) },
		Msg: func(m *rueidis.RedisMessage) (string, error) { return wrap(m.AsBool, vBool) }},
	{Name: "AsFloat64", Coq: "AAsFloat64",
		Res: func(r rueidis.RedisResult) (string, error) { return wrap(r.AsFloat64, vFloat) },
		Msg: func(m *rueidis.RedisMessage) (string, error) { return wrap(m.AsFloat64, vFloat) }},
	{Name: "ToArray", Coq: "AToArray",
		Res: func(r rueidis.RedisResult) (string, error) {
			return wrap(r.ToArray, func(v []rueidis.RedisMessage) string { return vListOf(v, vMsg) })
		},
		Msg: func(m *rueidis.RedisMessage) (string, error) {
			return wrap(m.ToArray, func(v []rueidis.RedisMessage) string { return vListOf(v, vMsg) })
		}},
	{Name: "AsStrSlice", Coq: "AAsStrSlice",
		Res: func(r rueidis.RedisResult) (string, error) {
			return wrap(r.AsStrSlice, func(v []string) string { return vListOf(v, vStr) })
		},
		Msg: func(m *rueidis.RedisMessage) (string, error) {
			return wrap(m.AsStrSlice, func(v []string) string { return vListOf(v, vStr) })
		}},
	{Name: "AsIntSlice", Coq: "AAsIntSlice",
		Res: func(r rueidis.RedisResult) (string, error) {
			return wrap(r.AsIntSlice, func(v []int64) string { return vListOf(v, vInt) })
		},
		Msg: func(m *rueidis.RedisMessage) (string, error) {
			return wrap(m.AsIntSlice, func(v []int64) string { return vListOf(v, vInt) })
		}},
	{Name: "AsFloatSlice", Coq: "AAsFloatSlice",
		Res: func(r rueidis.RedisResult) (string, error) {
			return wrap(r.AsFloatSlice, func(v []float64) string { return vListOf(v, vFloat) })
		},
		Msg: func(m *rueidis.RedisMessage) (string, error) {
			return wrap(m.AsFloatSlice, func(v []float64) string { return vListOf(v, vFloat) })
		}},
	{Name: "AsBoolSlice", Coq: "AAsBoolSlice",
		Res: func(r rueidis.RedisResult) (string, error) {
			return wrap(r.AsBoolSlice, func(v []bool) string { return vListOf(v, vBool) })
		},
		Msg: func(m *rueidis.RedisMessage) (string, error) {
			return wrap(m.AsBoolSlice, func(v []bool) string { return vListOf(v, vBool) })
		}},
	{Name: "AsXRangeEntry", Coq: "AAsXRangeEntry",
		Res: func(r rueidis.RedisResult) (string, error) { return wrap(r.AsXRangeEntry, vXEntry) },
		Msg: func(m *rueidis.RedisMessage) (string, error) { return wrap(m.AsXRangeEntry, vXEntry) }},
	{Name: "AsXRange", Coq: "AAsXRange",
		Res: func(r rueidis.RedisResult) (string, error) {
			return wrap(r.AsXRange, func(v []rueidis.XRangeEntry) string { return vListOf(v, vXEntry) })
		},
		Msg: func(m *rueidis.RedisMessage) (string, error) {
			return wrap(m.AsXRange, func(v []rueidis.XRangeEntry) string { return vListOf(v, vXEntry) })
		}},
	{Name: "AsXRead", Coq: "AAsXRead",
		Res: func(r rueidis.RedisResult) (string, error) {
			return wrap(r.AsXRead, func(v map[string][]rueidis.XRangeEntry) string {
				return vMapOf(v, func(es []rueidis.XRangeEntry) string { return vListOf(es, vXEntry) })
			})
		},
		Msg: func(m *rueidis.RedisMessage) (string, error) {
			return wrap(m.AsXRead, func(v map[string][]rueidis.XRangeEntry) string {
				return vMapOf(v, func(es []rueidis.XRangeEntry) string { return vListOf(es, vXEntry) })
			})
		}},
	{Name: "AsXRangeSlice", Coq: "AAsXRangeSlice",
		Res: func(r rueidis.RedisResult) (string, error) { return wrap(r.AsXRangeSlice, vXSlice) },
		Msg: func(m *rueidis.RedisMessage) (string, error) { return wrap(m.AsXRangeSlice, vXSlice) }},
	{Name: "AsXRangeSlices", Coq: "AAsXRangeSlices",
		Res: func(r rueidis.RedisResult) (string, error) {
			return wrap(r.AsXRangeSlices, func(v []rueidis.XRangeSlice) string { return vListOf(v, vXSlice) })
		},
		Msg: func(m *rueidis.RedisMessage) (string, error) {
			return wrap(m.AsXRangeSlices, func(v []rueidis.XRangeSlice) string { return vListOf(v, vXSlice) })
		}},
	{Name: "AsXReadSlices", Coq: "AAsXReadSlices",
		Res: func(r rueidis.RedisResult) (string, error) {
			return wrap(r.AsXReadSlices, func(v map[string][]rueidis.XRangeSlice) string {
				return vMapOf(v, func(es []rueidis.XRangeSlice) string { return vListOf(es, vXSlice) })
			})
		},
		Msg: func(m *rueidis.RedisMessage) (string, error) {
			return wrap(m.AsXReadSlices, func(v map[string][]rueidis.XRangeSlice) string {
				return vMapOf(v, func(es []rueidis.XRangeSlice) string { return vListOf(es, vXSlice) })
			})
		}},
	{Name: "AsZScore", Coq: "AAsZScore",
		Res: func(r rueidis.RedisResult) (string, error) { return wrap(r.AsZScore, vZScore) },
		Msg: func(m *rueidis.RedisMessage) (string, error) { return wrap(m.AsZScore, vZScore) }},
	{Name: "AsZScores", Coq: "AAsZScores",
		Res: func(r rueidis.RedisResult) (string, error) {
			return wrap(r.AsZScores, func(v []rueidis.ZScore) string { return vListOf(v, vZScore) })
		},
		Msg: func(m *rueidis.RedisMessage) (string, error) {
			return wrap(m.AsZScores, func(v []rueidis.ZScore) string { return vListOf(v, vZScore) })
		}},
	{Name: "AsScanEntry", Coq: "AAsScanEntry",
		Res: func(r rueidis.RedisResult) (string, error) {
			return wrap(r.AsScanEntry, func(e rueidis.ScanEntry) string { return vTup(vUint(e.Cursor), vListOf(e.Elements, vStr)) })
		},
		Msg: func(m *rueidis.RedisMessage) (string, error) {
			return wrap(m.AsScanEntry, func(e rueidis.ScanEntry) string { return vTup(vUint(e.Cursor), vListOf(e.Elements, vStr)) })
		}},
	{Name: "AsMap", Coq: "AAsMap",
		Res: func(r rueidis.RedisResult) (string, error) {
			return wrap(r.AsMap, func(v map[string]rueidis.RedisMessage) string { return vMapOf(v, vMsg) })
		},
		Msg: func(m *rueidis.RedisMessage) (string, error) {
			return wrap(m.AsMap, func(v map[string]rueidis.RedisMessage) string { return vMapOf(v, vMsg) })
		}},
	{Name: "AsStrMap", Coq: "AAsStrMap",
		Res: func(r rueidis.RedisResult) (string, error) { return wrap(r.AsStrMap, vStrMapOpt) },
		Msg: func(m *rueidis.RedisMessage) (string, error) { return wrap(m.AsStrMap, vStrMapOpt) }},
	{Name: "AsIntMap", Coq: "AAsIntMap",
		Res: func(r rueidis.RedisResult) (string, error) {
			return wrap(r.AsIntMap, func(v map[string]int64) string { return vMapOf(v, vInt) })
		},
		Msg: func(m *rueidis.RedisMessage) (string, error) {
			return wrap(m.AsIntMap, func(v map[string]int64) string { return vMapOf(v, vInt) })
		}},
	{Name: "AsLMPop", Coq: "AAsLMPop",
		Res: func(r rueidis.RedisResult) (string, error) {
			return wrap(r.AsLMPop, func(k rueidis.KeyValues) string { return vTup(vStr(k.Key), vListOf(k.Values, vStr)) })
		},
		Msg: func(m *rueidis.RedisMessage) (string, error) {
			return wrap(m.AsLMPop, func(k rueidis.KeyValues) string { return vTup(vStr(k.Key), vListOf(k.Values, vStr)) })
		}},
	{Name: "AsZMPop", Coq: "AAsZMPop",
		Res: func(r rueidis.RedisResult) (string, error) {
			return wrap(r.AsZMPop, func(k rueidis.KeyZScores) string { return vTup(vStr(k.Key), vListOf(k.Values, vZScore)) })
		},
		Msg: func(m *rueidis.RedisMessage) (string, error) {
			return wrap(m.AsZMPop, func(k rueidis.KeyZScores) string { return vTup(vStr(k.Key), vListOf(k.Values, vZScore)) })
		}},
	{Name: "AsFtSearch", Coq: "AAsFtSearch",
		Res: func(r rueidis.RedisResult) (string, error) {
			t, d, err := r.AsFtSearch()
			return vTup(vInt(t), vListOf(d, vDoc)), err
		},
		Msg: func(m *rueidis.RedisMessage) (string, error) {
			t, d, err := m.AsFtSearch()
			return vTup(vInt(t), vListOf(d, vDoc)), err
		}},
	{Name: "AsFtAggregate", Coq: "AAsFtAggregate",
		Res: func(r rueidis.RedisResult) (string, error) {
			t, d, err := r.AsFtAggregate()
			return vTup(vInt(t), vListOf(d, vStrMapOpt)), err
		},
		Msg: func(m *rueidis.RedisMessage) (string, error) {
			t, d, err := m.AsFtAggregate()
			return vTup(vInt(t), vListOf(d, vStrMapOpt)), err
		}},
	{Name: "AsFtAggregateCursor", Coq: "AAsFtAggregateCursor",
		Res: func(r rueidis.RedisResult) (string, error) {
			c, t, d, err := r.AsFtAggregateCursor()
			return vTup(vInt(c), vInt(t), vListOf(d, vStrMapOpt)), err
		},
		Msg: func(m *rueidis.RedisMessage) (string, error) {
			c, t, d, err := m.AsFtAggregateCursor()
			return vTup(vInt(c), vInt(t), vListOf(d, vStrMapOpt)), err
		}},
	{Name: "AsGeosearch", Coq: "AAsGeosearch",
		Res: func(r rueidis.RedisResult) (string, error) {
			return wrap(r.AsGeosearch, func(v []rueidis.GeoLocation) string { return vListOf(v, vGeo) })
		},
		Msg: func(m *rueidis.RedisMessage) (string, error) {
			return wrap(m.AsGeosearch, func(v []rueidis.GeoLocation) string { return vListOf(v, vGeo) })
		}},
	{Name: "ToMap", Coq: "AToMap",
		Res: func(r rueidis.RedisResult) (string, error) {
			return wrap(r.ToMap, func(v map[string]rueidis.RedisMessage) string { return vMapOf(v, vMsg) })
		},
		Msg: func(m *rueidis.RedisMessage) (string, error) {
			return wrap(m.ToMap, func(v map[string]rueidis.RedisMessage) string { return vMapOf(v, vMsg) })
		}},
	{Name: "ToAny", Coq: "AToAny",
		Res: func(r rueidis.RedisResult) (string, error) { return wrap(r.ToAny, vAny) },
		Msg: func(m *rueidis.RedisMessage) (string, error) { return wrap(m.ToAny, vAny) }},
	{Name: "DecodeSliceOfJSON", Coq: "ADecodeSliceOfJSON", JSON: true,
		Res: func(r rueidis.RedisResult) (string, error) {
			var dest []any
			err := rueidis.DecodeSliceOfJSON(r, &dest)
			return vUint(uint64(len(dest))), err
		}},
}

var _ = json.Marshal

// call runs f under recover and canonicalises the outcome.
func call(f func() (string, error), jsonAcc bool) (o Outcome) {
	defer func() {
		if p := recover(); p != nil {
			o = Outcome{Kind: "panic", Term: "RPanic", Err: fmt.Errorf("%v", p)}
		}
	}()
	v, err := f()
	if err != nil {
		return Outcome{Kind: errKind(err, jsonAcc), Term: "(RErr " + errTerm(err, jsonAcc) + ")", Err: err}
	}
	return Outcome{Kind: "ok", Term: "(ROk " + v + ")", Val: v}
}
