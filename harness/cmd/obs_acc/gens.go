package main

import (
	"math"
	"math/big"
	"sort"
	"strconv"

	"verifharness/gen"
)

// Expect: on the un-mutated reply the accessor must return exactly this value (C16 oracle).
type Expect struct {
	Acc string `json:"acc"`
	Val string `json:"val"` // a canonical value, or "ERR:<kind>" when an error of that kind is expected
}

type Shaped struct {
	Kind string
	Tree Node
	Exp  []Expect
}

var words = []string{"a", "b", "field", "value", "k1", "k2", "doc:1", "doc:2", "x y", "", "OK", "nan", "12", "-7", "1.5", "0x1f", "[1]", "{\"a\":1}", "\xff\x00", "stream-1", "1526919030474-55"}
var keysNF = []string{"doc:1", "doc:2", "k", "key a", "idx:9", "z"} // non-empty, not floats
var floats = []float64{0, 1, -1, 1.5, -2.25, 1e300, 5e-324, math.Inf(1), math.Inf(-1), 3.141592653589793, 1e21, 123456789.125, math.Copysign(0, -1)}

func word(r *gen.Rand) string { return gen.Pick(r, words) }
func fl(r *gen.Rand) float64 {
	if r.Chance(1, 12) {
		return math.NaN()
	}
	if r.Chance(1, 3) {
		return float64(r.Range(-1000, 1000)) / 8
	}
	return gen.Pick(r, floats)
}

// string or double node for a score depending on the protocol
func scoreNode(resp3 bool, f float64) Node {
	if resp3 {
		return dbl(f)
	}
	return blob(fmtFloat(f))
}

func strs(r *gen.Rand, max int) []string {
	n := r.Size(max, 2)
	out := make([]string, n)
	for i := range out {
		out[i] = word(r)
	}
	return out
}

func blobs(ss []string) []Node {
	out := make([]Node, len(ss))
	for i, s := range ss {
		out[i] = blob(s)
	}
	return out
}

func vStrList(ss []string) string { return vListOf(ss, vStr) }

// last-wins map of pairs, printed canonically
func vPairsMap(ps [][2]string) string {
	m := map[string]string{}
	for _, p := range ps {
		m[p[0]] = p[1]
	}
	return vMapOf(m, vStr)
}

func pairs(r *gen.Rand, max int) [][2]string {
	n := r.Size(max, 2)
	out := make([][2]string, n)
	for i := range out {
		out[i] = [2]string{word(r), word(r)}
	}
	return out
}

func pairNodes(ps [][2]string) []Node {
	var out []Node
	for _, p := range ps {
		out = append(out, blob(p[0]), blob(p[1]))
	}
	return out
}

type entry struct {
	id  string
	fv  [][2]string
	nil bool
}

func genEntries(r *gen.Rand) []entry {
	n := r.Size(4, 2)
	es := make([]entry, n)
	for i := range es {
		es[i] = entry{id: strconv.Itoa(1526919030474+i) + "-" + strconv.Itoa(r.Intn(3)), fv: pairs(r, 4), nil: r.Chance(1, 10)}
	}
	return es
}

func entryNode(e entry) Node {
	if e.nil {
		return arr(blob(e.id), null())
	}
	return arr(blob(e.id), arr(pairNodes(e.fv)...))
}

func entriesNode(es []entry) Node {
	ns := make([]Node, len(es))
	for i, e := range es {
		ns[i] = entryNode(e)
	}
	return arr(ns...)
}

func vEntry(e entry) string {
	if e.nil {
		return vTup(vStr(e.id), "VNil")
	}
	return vTup(vStr(e.id), vPairsMap(e.fv))
}
func vEntrySlice(e entry) string {
	if e.nil {
		return vTup(vStr(e.id), "VNil")
	}
	return vTup(vStr(e.id), vListOf(e.fv, func(p [2]string) string { return vTup(vStr(p[0]), vStr(p[1])) }))
}

type zs struct {
	m string
	s float64
}

func genZS(r *gen.Rand, max int) []zs {
	n := r.Size(max, 2)
	out := make([]zs, n)
	for i := range out {
		out[i] = zs{word(r), fl(r)}
	}
	return out
}
func vZS(z zs) string { return vTup(vStr(z.m), vFloat(z.s)) }

func zsNodes(resp3 bool, z []zs) Node {
	var ns []Node
	for _, x := range z {
		if resp3 {
			ns = append(ns, arr(blob(x.m), dbl(x.s)))
		} else {
			ns = append(ns, blob(x.m), blob(fmtFloat(x.s)))
		}
	}
	return arr(ns...)
}

func sortedKeys[T any](m map[string]T) []string {
	ks := make([]string, 0, len(m))
	for k := range m {
		ks = append(ks, k)
	}
	sort.Strings(ks)
	return ks
}

// ---- string-encoded integers in non-canonical spellings ----
// decimal spellings: the expected value is the decimal reading (no octal / hex / binary prefixes, no separators)
var decimalSpellings = []string{"0", "7", "007", "0100", "010", "09", "00", "+5", "+0", "-0", "-0755", "-007", "+0012", "0000000000000000000042",
	"9223372036854775807", "-9223372036854775808", "0009223372036854775807", "-0009223372036854775808", "+9223372036854775807",
	"9223372036854775808", "-9223372036854775809", "18446744073709551615", "018446744073709551615", "18446744073709551616", "99999999999999999999999"}

// not decimal integers: a parse error is expected
var nonDecimal = []string{"0x1F", "0X1f", "0b11", "0B1", "0o7", "0O17", "1_000", "0_1", " 1", "1 ", "1e3", "1.0", "--1", "+-1", "+", "-", "0x", "١٢", "1\x00", "abc", "0x-1", "1_", "_1"}

// decimalReading reads s as [+-]?[0-9]+ in base ten; ok=false when s is not of that form.
func decimalReading(s string, allowSign bool) (*big.Int, bool) {
	t := s
	if allowSign && len(t) > 0 && (t[0] == '+' || t[0] == '-') {
		t = t[1:]
	}
	if t == "" {
		return nil, false
	}
	for i := 0; i < len(t); i++ {
		if t[i] < '0' || t[i] > '9' {
			return nil, false
		}
	}
	v := new(big.Int)
	for i := 0; i < len(t); i++ {
		v.Mul(v, big.NewInt(10))
		v.Add(v, big.NewInt(int64(t[i]-'0')))
	}
	if s[0] == '-' && allowSign {
		v.Neg(v)
	}
	return v, true
}

// expInt: what an int64-reading accessor must return for the string s
func expInt(acc, s string, wrap func(string) string) Expect {
	if v, ok := decimalReading(s, true); ok && v.IsInt64() {
		return Expect{Acc: acc, Val: wrap(vInt(v.Int64()))}
	}
	return Expect{Acc: acc, Val: "ERR:ENum"}
}

func expUint(acc, s string) Expect {
	if v, ok := decimalReading(s, false); ok && v.IsUint64() {
		return Expect{Acc: acc, Val: vUint(v.Uint64())}
	}
	return Expect{Acc: acc, Val: "ERR:ENum"}
}

func intSpelling(r *gen.Rand) string {
	if r.Chance(2, 5) {
		return gen.Pick(r, nonDecimal)
	}
	if r.Chance(1, 4) { // zero padded random number
		return gen.Pick(r, []string{"0", "00", "-0", "+00", ""}) + strconv.Itoa(r.Range(0, 99999))
	}
	return gen.Pick(r, decimalSpellings)
}

// genIntSpelling: one spelling through AsInt64 / AsUint64, or several through AsIntSlice / AsIntMap (array and map shape).
// An empty string element of a slice / map is documented to read as zero (it is not a string-encoded integer).
func genIntSpelling(r *gen.Rand) Shaped {
	switch r.Intn(4) {
	case 0:
		s := intSpelling(r)
		t := gen.Pick(r, []byte{'$', '+'})
		id := func(x string) string { return x }
		return Shaped{"int-spelling:scalar", nStr(t, s), []Expect{expInt("AsInt64", s, id), expUint("AsUint64", s)}}
	case 1:
		n := r.Range(1, 4)
		var ns []Node
		vals := make([]string, 0, n)
		bad := false
		for i := 0; i < n; i++ {
			s := intSpelling(r)
			if s == "" {
				s = "0"
			}
			ns = append(ns, blob(s))
			e := expInt("", s, func(x string) string { return x })
			if e.Val == "ERR:ENum" {
				bad = true
			}
			vals = append(vals, e.Val)
		}
		if bad {
			return Shaped{"int-spelling:slice", arr(ns...), []Expect{{Acc: "AsIntSlice", Val: "ERR:ENum"}}}
		}
		return Shaped{"int-spelling:slice", arr(ns...), []Expect{{Acc: "AsIntSlice", Val: vList(vals)}}}
	default:
		n := r.Range(1, 3)
		var ns []Node
		m := map[string]string{}
		bad := false
		for i := 0; i < n; i++ {
			s := intSpelling(r)
			if s == "" {
				s = "0"
			}
			k := "k" + strconv.Itoa(i)
			ns = append(ns, blob(k), blob(s))
			e := expInt("", s, func(x string) string { return x })
			if e.Val == "ERR:ENum" {
				bad = true
			}
			m[k] = e.Val
		}
		t := gen.Pick(r, []byte{'*', '%', '~'})
		if bad {
			return Shaped{"int-spelling:map", nArr(t, ns...), []Expect{{Acc: "AsIntMap", Val: "ERR:ENum"}}}
		}
		return Shaped{"int-spelling:map", nArr(t, ns...), []Expect{{Acc: "AsIntMap", Val: vMapOf(m, func(x string) string { return x })}}}
	}
}

// genShaped produces a well-shaped reply of some helper, in the RESP2 or RESP3 shape, with the data it encodes.
func genShaped(r *gen.Rand) Shaped {
	if r.Chance(1, 8) {
		return genIntSpelling(r)
	}
	resp3 := r.Bool()
	ver := "resp2"
	if resp3 {
		ver = "resp3"
	}
	switch r.Intn(17) {
	case 0: // scalars
		switch r.Intn(8) {
		case 0:
			v := int64(r.U64())
			if r.Bool() {
				v = int64(r.Range(-5, 5))
			}
			return Shaped{"int", integer(v), []Expect{{"ToInt64", vInt(v)}, {"AsInt64", vInt(v)}, {"AsUint64", vUint(uint64(v))}, {"AsBool", vBool(v != 0)}, {"ToAny", vInt(v)}}}
		case 1:
			v := int64(r.U64())
			if r.Bool() {
				v = int64(r.Range(-500, 500))
			}
			s := strconv.FormatInt(v, 10)
			return Shaped{"int-string", blob(s), []Expect{{"AsInt64", vInt(v)}, {"ToString", vStr(s)}, {"AsBytes", vStr(s)}, {"AsReader", vStr(s)}, {"ToAny", vStr(s)}}}
		case 2:
			v := r.U64()
			s := strconv.FormatUint(v, 10)
			return Shaped{"uint-string", blob(s), []Expect{{"AsUint64", vUint(v)}, {"ToString", vStr(s)}}}
		case 3:
			f := fl(r)
			return Shaped{"double", dbl(f), []Expect{{"ToFloat64", vFloat(f)}, {"AsFloat64", vFloat(f)}, {"ToAny", vFloat(f)}}}
		case 4:
			f := fl(r)
			return Shaped{"float-string", blob(fmtFloat(f)), []Expect{{"AsFloat64", vFloat(f)}}}
		case 5:
			v := r.Bool()
			i := int64(0)
			if v {
				i = 1
			}
			return Shaped{"bool", nInt('#', i), []Expect{{"ToBool", vBool(v)}, {"AsBool", vBool(v)}, {"ToAny", vBool(v)}}}
		case 6:
			s := word(r)
			t := gen.Pick(r, []byte{'$', '+'})
			return Shaped{"string", nStr(t, s), []Expect{{"ToString", vStr(s)}, {"AsBytes", vStr(s)}, {"AsReader", vStr(s)}, {"AsBool", vBool(s == "OK")}, {"ToAny", vStr(s)}}}
		default:
			s := gen.Pick(r, []string{"3492890328409238509324850943850943825024385", "txt:hello"})
			t := gen.Pick(r, []byte{'(', '='})
			return Shaped{"bignum-verbatim", nStr(t, s), []Expect{{"ToAny", vStr(s)}}}
		}
	case 1: // string / int / float / bool slices
		ss := strs(r, 6)
		t := gen.Pick(r, []byte{'*', '~'})
		return Shaped{"strslice", nArr(t, blobs(ss)...), []Expect{{"AsStrSlice", vStrList(ss)}, {"ToAny", vListOf(ss, vStr)}}}
	case 2:
		n := r.Size(6, 2)
		var ns []Node
		var vs []int64
		for i := 0; i < n; i++ {
			v := int64(r.Range(-300, 300))
			if r.Chance(1, 5) {
				v = int64(r.U64())
			}
			vs = append(vs, v)
			if resp3 || v == 0 {
				ns = append(ns, integer(v))
			} else {
				ns = append(ns, blob(strconv.FormatInt(v, 10)))
			}
		}
		return Shaped{"intslice:" + ver, arr(ns...), []Expect{{"AsIntSlice", vListOf(vs, vInt)}}}
	case 3:
		n := r.Size(6, 2)
		var ns []Node
		var vs []float64
		for i := 0; i < n; i++ {
			f := fl(r)
			vs = append(vs, f)
			ns = append(ns, scoreNode(resp3, f))
		}
		return Shaped{"floatslice:" + ver, arr(ns...), []Expect{{"AsFloatSlice", vListOf(vs, vFloat)}}}
	case 4:
		n := r.Size(6, 2)
		var ns []Node
		var vs []bool
		for i := 0; i < n; i++ {
			v := r.Bool()
			vs = append(vs, v)
			switch {
			case resp3:
				ns = append(ns, nInt('#', map[bool]int64{true: 1, false: 0}[v]))
			case r.Bool():
				ns = append(ns, integer(map[bool]int64{true: 1, false: 0}[v]))
			case v:
				ns = append(ns, nStr('+', "OK"))
			default:
				ns = append(ns, null())
			}
		}
		return Shaped{"boolslice:" + ver, arr(ns...), []Expect{{"AsBoolSlice", vListOf(vs, vBool)}}}
	case 5: // string map, both shapes
		ps := pairs(r, 6)
		t := byte('*')
		if resp3 {
			t = '%'
		}
		return Shaped{"strmap:" + ver, nArr(t, pairNodes(ps)...), []Expect{{"AsStrMap", vPairsMap(ps)}}}
	case 6: // int map
		n := r.Size(5, 2)
		m := map[string]int64{}
		var ns []Node
		for i := 0; i < n; i++ {
			k := gen.Pick(r, keysNF) + strconv.Itoa(i%3)
			v := int64(r.Range(-99, 99))
			m[k] = v
			if resp3 || v == 0 {
				ns = append(ns, blob(k), integer(v))
			} else {
				ns = append(ns, blob(k), blob(strconv.FormatInt(v, 10)))
			}
		}
		t := byte('*')
		if resp3 {
			t = '%'
		}
		return Shaped{"intmap:" + ver, nArr(t, ns...), []Expect{{"AsIntMap", vMapOf(m, vInt)}}}
	case 7: // zscore(s)
		if r.Chance(1, 4) {
			z := zs{word(r), fl(r)}
			return Shaped{"zscore:" + ver, arr(blob(z.m), scoreNode(resp3, z.s)), []Expect{{"AsZScore", vZS(z)}}}
		}
		z := genZS(r, 5)
		return Shaped{"zscores:" + ver, zsNodes(resp3, z), []Expect{{"AsZScores", vListOf(z, vZS)}}}
	case 8: // xrange
		es := genEntries(r)
		exp := []Expect{{"AsXRange", vListOf(es, vEntry)}, {"AsXRangeSlices", vListOf(es, vEntrySlice)}}
		if len(es) == 1 {
			return Shaped{"xrange-entry", entryNode(es[0]), []Expect{{"AsXRangeEntry", vEntry(es[0])}, {"AsXRangeSlice", vEntrySlice(es[0])}}}
		}
		return Shaped{"xrange", entriesNode(es), exp}
	case 9: // xread
		n := r.Range(1, 3)
		m := map[string][]entry{}
		var ns []Node
		for i := 0; i < n; i++ {
			k := "stream-" + strconv.Itoa(r.Intn(3))
			es := genEntries(r)
			m[k] = es
			if resp3 {
				ns = append(ns, blob(k), entriesNode(es))
			} else {
				ns = append(ns, arr(blob(k), entriesNode(es)))
			}
		}
		t := byte('*')
		if resp3 {
			t = '%'
		}
		return Shaped{"xread:" + ver, nArr(t, ns...), []Expect{
			{"AsXRead", vMapOf(m, func(es []entry) string { return vListOf(es, vEntry) })},
			{"AsXReadSlices", vMapOf(m, func(es []entry) string { return vListOf(es, vEntrySlice) })}}}
	case 10: // scan
		c := r.U64()
		if r.Bool() {
			c = uint64(r.Intn(100))
		}
		ss := strs(r, 6)
		return Shaped{"scan", arr(blob(strconv.FormatUint(c, 10)), arr(blobs(ss)...)), []Expect{{"AsScanEntry", vTup(vUint(c), vStrList(ss))}}}
	case 11: // lmpop / zmpop
		k := word(r)
		if r.Bool() {
			ss := strs(r, 5)
			return Shaped{"lmpop", arr(blob(k), arr(blobs(ss)...)), []Expect{{"AsLMPop", vTup(vStr(k), vStrList(ss))}}}
		}
		z := genZS(r, 4)
		var ns []Node
		for _, x := range z {
			ns = append(ns, arr(blob(x.m), scoreNode(resp3, x.s)))
		}
		return Shaped{"zmpop:" + ver, arr(blob(k), arr(ns...)), []Expect{{"AsZMPop", vTup(vStr(k), vListOf(z, vZS))}}}
	case 12, 13: // ft.search
		n := r.Size(4, 2)
		wscore, wattrs := r.Bool(), r.Bool()
		type doc struct {
			key   string
			score float64
			attrs [][2]string
		}
		docs := make([]doc, n)
		for i := range docs {
			docs[i] = doc{key: gen.Pick(r, keysNF) + strconv.Itoa(i), score: fl(r), attrs: pairs(r, 3)}
			if math.IsNaN(docs[i].score) {
				docs[i].score = 2.5
			}
		}
		total := int64(n + r.Intn(3))
		vd := func(d doc) string {
			sc, at := vFloat(0), "VNil"
			if wscore {
				sc = vFloat(d.score)
			}
			if wattrs {
				at = vPairsMap(d.attrs)
			}
			return vTup(vStr(d.key), at, sc)
		}
		exp := []Expect{{"AsFtSearch", vTup(vInt(total), vListOf(docs, vd))}}
		if resp3 {
			var recs []Node
			for _, d := range docs {
				rec := []Node{blob("id"), blob(d.key)}
				if wattrs {
					rec = append(rec, blob("extra_attributes"), mp(pairNodes(d.attrs)...))
				}
				if wscore {
					rec = append(rec, blob("score"), dbl(d.score))
				}
				rec = append(rec, blob("values"), arr())
				recs = append(recs, mp(rec...))
			}
			return Shaped{"ftsearch:resp3", mp(blob("attributes"), arr(), blob("format"), blob("STRING"), blob("results"), arr(recs...),
				blob("total_results"), integer(total), blob("warning"), arr()), exp}
		}
		ns := []Node{integer(total)}
		for _, d := range docs {
			ns = append(ns, blob(d.key))
			if wscore {
				ns = append(ns, blob(fmtFloat(d.score)))
			}
			if wattrs {
				ns = append(ns, arr(pairNodes(d.attrs)...))
			}
		}
		if n == 0 {
			exp = []Expect{{"AsFtSearch", vTup(vInt(total), vList(nil))}}
		}
		return Shaped{"ftsearch:resp2", arr(ns...), exp}
	case 14: // ft.aggregate (+cursor)
		n := r.Size(4, 2)
		rows := make([][][2]string, n)
		for i := range rows {
			rows[i] = pairs(r, 3)
		}
		total := int64(n)
		vrow := func(p [][2]string) string { return vPairsMap(p) }
		var body Node
		if resp3 {
			var recs []Node
			for _, p := range rows {
				recs = append(recs, mp(blob("extra_attributes"), mp(pairNodes(p)...), blob("values"), arr()))
			}
			body = mp(blob("attributes"), arr(), blob("format"), blob("STRING"), blob("results"), arr(recs...), blob("total_results"), integer(total), blob("warning"), arr())
		} else {
			ns := []Node{integer(total)}
			for _, p := range rows {
				ns = append(ns, arr(pairNodes(p)...))
			}
			body = arr(ns...)
		}
		if r.Bool() {
			cur := int64(r.Intn(1000))
			return Shaped{"ftaggregate-cursor:" + ver, arr(body, integer(cur)), []Expect{{"AsFtAggregateCursor", vTup(vInt(cur), vInt(total), vListOf(rows, vrow))}}}
		}
		return Shaped{"ftaggregate:" + ver, body, []Expect{{"AsFtAggregate", vTup(vInt(total), vListOf(rows, vrow))}, {"AsFtAggregateCursor", vTup(vInt(0), vInt(total), vListOf(rows, vrow))}}}
	case 15: // geosearch with every WITH* combination
		n := r.Size(4, 2)
		wd, wh, wc := r.Bool(), r.Bool(), r.Bool()
		type loc struct {
			name            string
			dist, long, lat float64
			hash            int64
		}
		ls := make([]loc, n)
		var ns []Node
		for i := range ls {
			ls[i] = loc{name: gen.Pick(r, keysNF), dist: math.Abs(float64(r.Range(1, 90000)) / 16), long: float64(r.Range(-1800, 1800)) / 10, lat: float64(r.Range(-850, 850)) / 10, hash: int64(r.U64() >> 12)}
			if !wd && !wh && !wc {
				ns = append(ns, blob(ls[i].name))
				continue
			}
			info := []Node{blob(ls[i].name)}
			if wd {
				info = append(info, scoreNode(resp3, ls[i].dist))
			}
			if wh {
				info = append(info, integer(ls[i].hash))
			}
			if wc {
				info = append(info, arr(scoreNode(resp3, ls[i].long), scoreNode(resp3, ls[i].lat)))
			}
			ns = append(ns, arr(info...))
		}
		vl := func(l loc) string {
			d, lo, la, h := 0.0, 0.0, 0.0, int64(0)
			if wd {
				d = l.dist
			}
			if wh {
				h = l.hash
			}
			if wc {
				lo, la = l.long, l.lat
			}
			return vTup(vStr(l.name), vFloat(lo), vFloat(la), vFloat(d), vInt(h))
		}
		return Shaped{"geosearch:" + ver, arr(ns...), []Expect{{"AsGeosearch", vListOf(ls, vl)}}}
	default: // generic RESP3 map / AsMap / ToMap / ToAny on a small mixed structure
		m := map[string]Node{}
		var ns []Node
		n := r.Size(4, 2)
		for i := 0; i < n; i++ {
			k := gen.Pick(r, keysNF) + strconv.Itoa(i)
			v := gen.Pick(r, []Node{blob("v"), integer(int64(i)), nInt('#', 1), arr(blob("x"), integer(2)), null(), dbl(1.5)})
			m[k] = v
			ns = append(ns, blob(k), v)
		}
		vm := func(v Node) string { return vMsg(v.build()) }
		t := byte('*')
		exp := []Expect{{"AsMap", vMapOf(m, vm)}}
		if resp3 {
			t = '%'
			exp = append(exp, Expect{"ToMap", vMapOf(m, vm)})
		}
		return Shaped{"map:" + ver, nArr(t, ns...), exp}
	}
}

// ---- mutation of a tree ----
var scalarTypes = []byte{'$', '+', '-', ':', '_', ',', '#', '!', '=', '(', '.'}
var aggTypes = []byte{'*', '%', '~', '>'}

func paths(n *Node, pre []int, out *[][]int) {
	*out = append(*out, append([]int(nil), pre...))
	for i := range n.A {
		paths(&n.A[i], append(pre, i), out)
	}
}

func at(n *Node, p []int) *Node {
	for _, i := range p {
		n = &n.A[i]
	}
	return n
}

func randScalar(r *gen.Rand) Node {
	switch r.Intn(7) {
	case 0:
		return integer(int64(r.Range(-3, 3)))
	case 1:
		return null()
	case 2:
		return nInt('#', int64(r.Intn(2)))
	case 3:
		return nStr(gen.Pick(r, []byte{'-', '!'}), gen.Pick(r, []string{"ERR boom", "MOVED 1 127.0.0.1:1", "ERR ", "WRONGTYPE x", ""}))
	case 4:
		return dbl(fl(r))
	case 5:
		return nStr(gen.Pick(r, []byte{'=', '(', '.', '+'}), word(r))
	}
	return blob(word(r))
}

func mutate(r *gen.Rand, t Node) (Node, string) {
	t = t.clone()
	var ps [][]int
	paths(&t, nil, &ps)
	p := gen.Pick(r, ps)
	n := at(&t, p)
	switch r.Intn(9) {
	case 0: // drop a child (makes maps odd, tuples short)
		if n.K == "a" && len(n.A) > 0 {
			i := r.Intn(len(n.A))
			n.A = append(n.A[:i:i], n.A[i+1:]...)
			return t, "drop"
		}
	case 1: // duplicate a child
		if n.K == "a" && len(n.A) > 0 {
			i := r.Intn(len(n.A))
			n.A = append(n.A[:i+1:i+1], n.A[i:]...)
			return t, "dup"
		}
	case 2: // retag
		if n.K == "a" {
			n.T = gen.Pick(r, aggTypes)
		} else {
			n.T = gen.Pick(r, scalarTypes)
		}
		return t, "retag"
	case 3: // empty an aggregate
		if n.K == "a" {
			n.A = nil
			return t, "empty"
		}
	case 4: // scalar in place of an aggregate
		if n.K == "a" {
			*n = randScalar(r)
			return t, "scalar-for-aggregate"
		}
	case 5: // aggregate in place of a scalar
		if n.K != "a" {
			*n = nArr(gen.Pick(r, aggTypes), randScalar(r))
			if r.Bool() {
				n.A = nil
			}
			return t, "aggregate-for-scalar"
		}
	case 6: // another scalar
		if n.K != "a" {
			*n = randScalar(r)
			return t, "rescalar"
		}
	case 7: // attributes somewhere (must not matter)
		a := mp(blob("ttl"), integer(3600))
		n.Attr = &a
		return t, "attrs"
	}
	// truncate the root
	if t.K == "a" && len(t.A) > 0 {
		t.A = t.A[:r.Intn(len(t.A))]
		return t, "truncate"
	}
	t = randScalar(r)
	return t, "rescalar"
}

func randTree(r *gen.Rand, depth int) Node {
	if depth == 0 || r.Chance(2, 5) {
		return randScalar(r)
	}
	n := r.Size(5, 2)
	a := make([]Node, n)
	for i := range a {
		a[i] = randTree(r, depth-1)
	}
	return nArr(gen.Pick(r, aggTypes), a...)
}

// genShapedSmall: a well-shaped reply small enough for an exhaustive deformation sweep
func genShapedSmall(r *gen.Rand) Shaped {
	for k := 0; ; k++ {
		s := genShaped(r)
		n := 0
		s.Tree.walk(func(*Node) { n++ })
		if n <= 26 || k > 20 {
			return s
		}
	}
}

type deformation struct {
	t   Node
	how string
}

// replacement kinds: every kind of scalar and aggregate, incl. empty string, empty array, nil
func replacements() []Node {
	return []Node{blob(""), blob("x"), blob("1.5"), nStr('+', "OK"), integer(0), integer(7), null(), nInt('#', 1), dbl(2.5),
		nStr('-', "ERR boom"), nStr('!', "SYNTAX x"), nStr('(', "12345678901234567890"), nStr('=', "txt:a"),
		arr(), mp(), nArr('~'), nArr('>'), arr(blob("a")), arr(blob("a"), blob("b")), mp(blob("a")), mp(blob("a"), blob("b")), arr(arr())}
}

// deformations of a seed reply: the seed itself, every prefix of every aggregate, removal and duplication of every element,
// every node replaced by every replacement kind, every aggregate retagged, every scalar retagged to each scalar type.
func deformations(seed Node) []deformation {
	out := []deformation{{seed.clone(), "seed"}}
	var ps [][]int
	paths(&seed, nil, &ps)
	add := func(how string, p []int, f func(n *Node)) {
		t := seed.clone()
		f(at(&t, p))
		out = append(out, deformation{t, how})
	}
	reps := replacements()
	for _, p := range ps {
		n := at(&seed, p)
		if n.K == "a" {
			for l := 0; l < len(n.A); l++ {
				l := l
				add("prefix", p, func(x *Node) { x.A = x.A[:l] })
			}
			for i := range n.A {
				i := i
				add("remove", p, func(x *Node) { x.A = append(x.A[:i:i], x.A[i+1:]...) })
				add("duplicate", p, func(x *Node) { x.A = append(x.A[:i+1:i+1], x.A[i:]...) })
			}
			for _, t := range aggTypes {
				if t != n.T {
					t := t
					add("retag", p, func(x *Node) { x.T = t })
				}
			}
		} else {
			for _, t := range scalarTypes {
				if t != n.T {
					t := t
					add("retag", p, func(x *Node) { x.T = t })
				}
			}
		}
		for _, rep := range reps {
			rep := rep
			add("replace", p, func(x *Node) { *x = rep.clone() })
		}
	}
	return out
}

// splitArgs splits the four top-level arguments "msg tbl fi obs" of a CTree term (each is parenthesised or a bracket list).
func splitArgs(s string) []string {
	var out []string
	depth, start := 0, 0
	inStr := false
	for i := 0; i < len(s); i++ {
		switch c := s[i]; {
		case c == '"':
			inStr = !inStr
		case inStr:
		case c == '(' || c == '[':
			depth++
		case c == ')' || c == ']':
			depth--
		case c == ' ' && depth == 0:
			out = append(out, s[start:i])
			start = i + 1
		}
	}
	return append(out, s[start:])
}
