// obs_acc: C15 / C16 — every typed accessor of RedisResult / RedisMessage, DecodeSliceOfJSON and the RedisError
// classifiers, run on generated reply trees under recover(), with the canonical outcome handed to the model.
package main

import (
	"encoding/json"
	"flag"
	"fmt"
	"strings"

	"github.com/redis/rueidis"

	"verifharness/gen"
	"verifharness/obs"
)

type Case struct {
	Op    string   `json:"op"` // tree | reserr | cls | fixaddr
	Kind  string   `json:"kind,omitempty"`
	Tree  *Node    `json:"tree,omitempty"`
	Exp   []Expect `json:"exp,omitempty"` // C16: values the un-mutated reply encodes
	ErrNo int      `json:"errno,omitempty"`
	Pick  uint64   `json:"pick,omitempty"` // sweep: seed of the sample that also goes to the model
	Cls   string   `json:"cls,omitempty"`
	Text  string   `json:"text,omitempty"`
}

var classifiers = []string{"KMoved", "KAsk", "KRedirect", "KTryAgain", "KLoading", "KClusterDown", "KNoScript", "KBusyGroup"}
var addrs = []string{"127.0.0.1:6379", "::1:6379", "[::1]:6379", "2001:db8::1:7000", "host:1", "host", "", ":", ":1", "a:b:c", "[", "1.2.3.4", "fe80::1%eth0:6379"}

var keywordOf = map[string]string{"KMoved": "MOVED", "KAsk": "ASK", "KRedirect": "REDIRECT", "KTryAgain": "TRYAGAIN", "KLoading": "LOADING",
	"KClusterDown": "CLUSTERDOWN", "KNoScript": "NOSCRIPT", "KBusyGroup": "BUSYGROUP"}

func genText(r *gen.Rand, cls string) string {
	kw := gen.Pick(r, []string{"MOVED", "ASK", "REDIRECT", "TRYAGAIN", "LOADING", "CLUSTERDOWN", "NOSCRIPT", "BUSYGROUP", "MOVE", "ERR", ""})
	if r.Chance(3, 4) { // mostly the classifier's own keyword
		kw = keywordOf[cls]
	}
	switch r.Intn(12) {
	case 0:
		return kw
	case 1:
		return kw + " "
	case 2:
		return kw + " 1"
	case 3:
		return kw + " 1 "
	case 4:
		return kw + "  " + gen.Pick(r, addrs)
	case 5:
		return kw + "ED 3999 " + gen.Pick(r, addrs)
	case 6:
		return strings.ToLower(kw) + " 3999 " + gen.Pick(r, addrs)
	}
	if kw == "REDIRECT" {
		return kw + " " + gen.Pick(r, addrs) + gen.Pick(r, []string{"", " extra"})
	}
	return kw + " 3999 " + gen.Pick(r, addrs) + gen.Pick(r, []string{"", " extra"})
}

func genCase(r *gen.Rand, i int) any {
	switch x := r.Intn(20); {
	case x < 2:
		cls := gen.Pick(r, classifiers)
		if r.Chance(1, 2) {
			cls = gen.Pick(r, classifiers[:3]) // the three that extract an address
		}
		return Case{Op: "cls", Cls: cls, Text: genText(r, cls)}
	case x == 2:
		return Case{Op: "fixaddr", Text: gen.Pick(r, addrs)}
	case x == 3:
		t := randTree(r, 2)
		return Case{Op: "reserr", ErrNo: r.Range(1, 9), Tree: &t}
	case x < 7: // well shaped seed reply + every systematic deformation of it
		s := genShapedSmall(r)
		return Case{Op: "sweep", Kind: "shaped:" + s.Kind, Tree: &s.Tree, Pick: r.U64()}
	case x < 11: // well shaped
		s := genShaped(r)
		return Case{Op: "tree", Kind: "shaped:" + s.Kind, Tree: &s.Tree, Exp: s.Exp}
	case x < 17: // mutated
		s := genShaped(r)
		t, how := mutate(r, s.Tree)
		if r.Chance(1, 3) {
			t, _ = mutate(r, t)
		}
		return Case{Op: "tree", Kind: "mutated:" + how, Tree: &t}
	default:
		t := randTree(r, 3)
		return Case{Op: "tree", Kind: "random", Tree: &t}
	}
}

// accepted top-level type bytes per accessor (the reply types an accessor is meant for); for any other
// non-nil, non-error top-level type the documented outcome is a parse error
var stringBodied = "$+,(="
var accepted = map[string]string{
	"ToInt64": ":", "ToBool": "#", "ToFloat64": ",",
	"ToString": stringBodied, "AsReader": stringBodied, "AsBytes": stringBodied, "DecodeJSON": stringBodied,
	"AsInt64": ":" + stringBodied, "AsUint64": ":" + stringBodied, "AsBool": "$+:#", "AsFloat64": stringBodied,
	"ToArray": "*~", "AsStrSlice": "*~", "AsIntSlice": "*~", "AsFloatSlice": "*~", "AsBoolSlice": "*~",
	"AsXRangeEntry": "*~", "AsXRange": "*~", "AsXRangeSlice": "*~", "AsXRangeSlices": "*~", "AsZScore": "*~", "AsZScores": "*~",
	"AsScanEntry": "*~", "AsGeosearch": "*~", "DecodeSliceOfJSON": "*~",
	"ToMap": "%", "AsMap": "%*~", "AsStrMap": "%*~", "AsIntMap": "%*~", "AsXRead": "%*~", "AsXReadSlices": "%*~",
	"AsLMPop": "*~%>", "AsZMPop": "*~%>", "AsFtSearch": "*~%>", "AsFtAggregate": "*~%>", "AsFtAggregateCursor": "*~%>",
	"ToAny": "$+,(=#:%*~",
}

// -prop selects which property's direct oracles are evaluated: C15 (panic, nil / error propagation, wrong shape,
// delegation) or C16 (value faithfulness, delegation); the model comparison is the same for both.
var propFlag = flag.String("prop", "C15", "C15 | C16")

var viaToString = map[string]bool{"ToString": true, "AsReader": true, "AsBytes": true, "DecodeJSON": true, "AsInt64": true, "AsUint64": true, "AsFloat64": true}

func run(ci any) obs.Result {
	c := ci.(Case)
	res := runCase(c)
	raw, _ := json.Marshal(c)
	res.Sig = string(raw)
	return res
}

func runCase(c Case) (res obs.Result) {
	switch c.Op {
	case "cls":
		return runCls(c)
	case "fixaddr":
		out := rueidis.VerifFixIPv6HostPort(c.Text)
		res.Kind = "fixIPv6HostPort"
		res.Coq = obs.App("CFixAddr", obs.HS(c.Text), obs.HS(out))
		res.Nontrivial = strings.Contains(c.Text, ":")
		res.Site, res.Class = "message.go:fixIPv6HostPort", "value"
		return
	case "reserr":
		res.Kind = "result-with-error"
		res.Site, res.Class = "message.go:RedisResult", "non-redis-error"
		me := markerErr(c.ErrNo)
		rr := rueidis.NewResult(c.Tree.build(), me)
		var obsv []string
		for _, a := range accessors {
			o := call(func() (string, error) { return a.Res(rr) }, a.JSON)
			obsv = append(obsv, "("+a.Coq+", "+o.Term+")")
			if o.Kind == "panic" {
				res.Oracle, res.Site, res.Class = a.Name+" panicked: "+o.Err.Error(), "message.go:"+a.Name, "panic"
			} else if o.Err != me && res.Oracle == "" {
				res.Oracle = fmt.Sprintf("RedisResult{err}.%s returned %v, not the underlying error", a.Name, o.Kind)
				res.Site = "message.go:RedisResult." + a.Name
			}
		}
		res.Coq = obs.App("CResErr", obs.N(uint64(c.ErrNo)), c.Tree.coq(), obs.List(obsv))
		res.Nontrivial = true
		return
	}
	if c.Op == "sweep" {
		return runSweep(c)
	}
	// ---- tree
	res.Kind = c.Kind
	ev := evalTree(*c.Tree, c.Exp)
	res.Oracle, res.Site, res.Class = ev.oracle, ev.site, ev.class
	res.Coq = "(CTree " + ev.coq + ")"
	res.Nontrivial = ev.nodes > 1
	res.Obs = map[string]any{"nodes": ev.nodes, "accessors_ok": ev.okc}
	return
}

type treeEval struct {
	coq                 string // the four arguments of CTree
	oracle, site, class string
	nodes, okc          int
}

// evalTree runs every accessor on one reply tree and evaluates the direct oracles of the selected property.
func evalTree(t Node, exp []Expect) (ev treeEval) {
	msg := t.build()
	rr := rueidis.NewResult(msg, nil)
	tbl, fi := libTables(&t)
	var obsv []string
	outs := map[string]Outcome{}
	fail := func(site, class, f string, a ...any) {
		if ev.oracle == "" {
			ev.oracle, ev.site, ev.class = fmt.Sprintf(f, a...), "message.go:"+site, class
		}
	}
	topErr := t.T == '-' || t.T == '!'
	topNil := t.T == '_'
	var panics []string
	for _, a := range accessors {
		o := call(func() (string, error) { return a.Res(rr) }, a.JSON)
		outs[a.Name] = o
		obsv = append(obsv, "("+a.Coq+", "+o.Term+")")
		// (1) never panics
		if o.Kind == "panic" {
			fail(a.Name, "panic", "%s panicked: %v", a.Name, o.Err)
			panics = append(panics, a.Name)
			continue
		}
		// (2) the method on the message itself agrees with the RedisResult wrapper
		if a.Msg != nil {
			m2 := msg
			o2 := call(func() (string, error) { return a.Msg(&m2) }, a.JSON)
			if o2.Term != o.Term {
				fail(a.Name, "delegation", "RedisResult.%s = %s but RedisMessage.%s = %s", a.Name, o.Term, a.Name, o2.Term)
			}
		}
		// (3) nil and error replies surface as Nil / RedisError
		if *propFlag == "C16" {
			continue
		}
		if topNil && o.Kind != "ENil" {
			fail(a.Name, "nil-propagation", "%s on a nil reply returned %s", a.Name, o.Kind)
		}
		if topErr {
			want := strings.TrimPrefix(string(t.S), "ERR ")
			if o.Kind != "ERedis" || o.Err.Error() != want {
				fail(a.Name, "error-propagation", "%s on the error reply %q returned %s %v", a.Name, t.S, o.Kind, o.Err)
			}
		}
		// (4) wrong shape => parse error
		if acc, ok := accepted[a.Name]; ok && !topNil && !topErr && !strings.ContainsRune(acc, rune(t.T)) {
			if o.Kind != "EParse" {
				class, site := "wrong-shape", a.Name
				// known finding: ToString (and what is built on it) treats every scalar that is neither an integer nor
				// nil / error as a string, so a boolean or end-marker reply reads as ""
				if t.K != "a" && (t.T == '#' || t.T == '.') && viaToString[a.Name] {
					class, site = "wrong-shape-scalar-as-string", "ToString"
				}
				fail(site, class, "%s on a reply of type %q returned %s instead of a parse error", a.Name, string(rune(t.T)), o.Kind)
			}
		}
	}
	if len(panics) > 1 {
		ev.oracle += " (all panicking accessors: " + strings.Join(panics, ", ") + ")"
	}
	// (5) C16: the un-mutated reply gives back exactly the data it encodes
	for _, e := range exp {
		if *propFlag != "C16" {
			break
		}
		o := outs[e.Acc]
		if strings.HasPrefix(e.Val, "ERR:") {
			if o.Kind != e.Val[4:] {
				got := o.Kind
				if o.Kind == "ok" {
					got = o.Val
				}
				fail(e.Acc, "value", "%s returned %.300s for a reply that is not a decimal integer (%s expected)", e.Acc, got, e.Val[4:])
			}
			continue
		}
		if o.Kind != "ok" || o.Val != e.Val {
			got := o.Val
			if o.Kind != "ok" {
				got = o.Kind
			}
			fail(e.Acc, "value", "%s returned %.300s, the reply encodes %.300s", e.Acc, got, e.Val)
		}
	}
	ev.coq = t.coq() + " " + tbl + " " + fi + " " + obs.List(obsv)
	t.walk(func(*Node) { ev.nodes++ })
	for _, o := range outs {
		if o.Kind == "ok" {
			ev.okc++
		}
	}
	return
}

// runSweep: the seed reply and EVERY systematic single deformation of it (every prefix of every aggregate, removal /
// duplication of every element, every element replaced by every other kind of scalar / aggregate, every aggregate
// retagged) go through all accessors and the direct oracles; a sample of them (chosen by c.Pick) also goes to the model.
func runSweep(c Case) (res obs.Result) {
	res.Kind = "sweep:" + strings.TrimPrefix(c.Kind, "shaped:")
	seed := *c.Tree
	defs := deformations(seed)
	pick := gen.New(c.Pick)
	sample := map[int]bool{0: true}
	for len(sample) < 4 && len(sample) < len(defs) {
		sample[pick.Intn(len(defs))] = true
	}
	var coqs []string
	failed := 0
	for i, d := range defs {
		ev := evalTree(d.t, nil)
		if ev.oracle != "" && ev.class != "wrong-shape-scalar-as-string" { // the known class is covered by the tree cases
			failed++
			if res.Oracle == "" {
				tj, _ := json.Marshal(d.t)
				res.Oracle = fmt.Sprintf("deformation %d (%s) of the seed reply: %s; failing reply as a case: {\"op\":\"tree\",\"kind\":\"sweep-witness\",\"tree\":%s}", i, d.how, ev.oracle, tj)
				res.Site, res.Class = ev.site, ev.class
				coqs = append(coqs, "("+strings.Join(splitArgs(ev.coq), ", ")+")")
			}
		}
		if sample[i] {
			coqs = append(coqs, "("+strings.Join(splitArgs(ev.coq), ", ")+")")
		}
	}
	res.Coq = "(CTrees " + obs.List(coqs) + ")"
	res.Nontrivial = len(defs) > 10
	res.Obs = map[string]any{"deformations": len(defs), "failed": failed, "to_model": len(coqs)}
	return
}

func runCls(c Case) (res obs.Result) {
	res.Kind = "classifier"
	e := rueidis.VerifRedisError('-', c.Text)
	addr := func(f func() (string, bool)) func() (string, error) {
		return func() (string, error) { a, ok := f(); return vTup(vStr(a), vBool(ok)), nil }
	}
	flag := func(f func() bool) func() (string, error) {
		return func() (string, error) { return vBool(f()), nil }
	}
	fns := map[string]func() (string, error){
		"KMoved": addr(e.IsMoved), "KAsk": addr(e.IsAsk), "KRedirect": addr(e.IsRedirect),
		"KTryAgain": flag(e.IsTryAgain), "KLoading": flag(e.IsLoading), "KClusterDown": flag(e.IsClusterDown),
		"KNoScript": flag(e.IsNoScript), "KBusyGroup": flag(e.IsBusyGroup),
	}
	name := "Is" + c.Cls[1:]
	o := call(fns[c.Cls], false)
	res.Coq = obs.App("CCls", c.Cls, obs.HS(c.Text), o.Term)
	res.Site, res.Class = "message.go:"+name, "value"
	res.Nontrivial = strings.Contains(c.Text, " ")
	res.Obs = o.Term
	if o.Kind == "panic" {
		res.Oracle, res.Class = fmt.Sprintf("%s panicked on the error text %q: %v", name, c.Text, o.Err), "panic"
		return
	}
	// a well formed redirect gives back its address
	kw := map[string]string{"KMoved": "MOVED", "KAsk": "ASK"}[c.Cls]
	if f := strings.Split(c.Text, " "); kw != "" && len(f) == 3 && f[0] == kw && strings.Contains(f[2], ".") {
		if want := vTup(vStr(f[2]), vBool(true)); o.Val != want {
			res.Oracle = fmt.Sprintf("%s(%q) = %s", name, c.Text, o.Val)
		}
	}
	if f := strings.Split(c.Text, " "); c.Cls == "KRedirect" && len(f) == 2 && f[0] == "REDIRECT" && strings.Contains(f[1], ".") {
		if want := vTup(vStr(f[1]), vBool(true)); o.Val != want {
			res.Oracle = fmt.Sprintf("%s(%q) = %s", name, c.Text, o.Val)
		}
	}
	// the flag classifiers are prefix tests
	if kw2, ok := keywordOf[c.Cls]; ok && o.Kind == "ok" && strings.HasPrefix(o.Val, "(VBool") {
		if want := vBool(strings.HasPrefix(c.Text, kw2)); o.Val != want {
			res.Oracle = fmt.Sprintf("%s(%q) = %s", name, c.Text, o.Val)
		}
	}
	return
}

func main() {
	obs.Main(obs.Runner{
		Name: "obs_acc", Salt: 15,
		Gen: genCase,
		Decode: func(raw json.RawMessage) (any, error) {
			var c Case
			err := json.Unmarshal(raw, &c)
			return c, err
		},
		Run: run,
	})
}
