package main

import (
	"encoding/json"
	"math"
	"sort"
	"strconv"

	"github.com/redis/rueidis"

	"verifharness/obs"
)

// Node is a reply tree: K = "i" (integer only), "s" (string), "a" (children).
type Node struct {
	K    string `json:"k"`
	T    byte   `json:"t"`
	I    int64  `json:"i,omitempty"`
	S    []byte `json:"s,omitempty"`
	A    []Node `json:"a,omitempty"`
	Attr *Node  `json:"attr,omitempty"`
}

func nInt(t byte, v int64) Node   { return Node{K: "i", T: t, I: v} }
func nStr(t byte, s string) Node  { return Node{K: "s", T: t, S: []byte(s)} }
func nArr(t byte, a ...Node) Node { return Node{K: "a", T: t, A: a} }
func blob(s string) Node          { return nStr('$', s) }
func integer(v int64) Node        { return nInt(':', v) }
func null() Node                  { return nInt('_', 0) }
func arr(a ...Node) Node          { return nArr('*', a...) }
func mp(a ...Node) Node           { return nArr('%', a...) }
func dbl(f float64) Node          { return nStr(',', fmtFloat(f)) }
func fmtFloat(f float64) string   { return strconv.FormatFloat(f, 'g', -1, 64) }
func fbits(f float64) uint64      { return math.Float64bits(f) }

func (n Node) build() rueidis.RedisMessage {
	var m rueidis.RedisMessage
	switch n.K {
	case "s":
		m = rueidis.VerifMsgStr(n.T, string(n.S))
	case "a":
		vs := make([]rueidis.RedisMessage, len(n.A))
		for i := range n.A {
			vs[i] = n.A[i].build()
		}
		m = rueidis.VerifMsgArr(n.T, vs)
	default:
		m = rueidis.VerifMsgInt(n.T, n.I)
	}
	if n.Attr != nil {
		m = rueidis.VerifWithAttrs(m, n.Attr.build())
	}
	return m
}

func (n Node) coq() string {
	at := obs.None
	if n.Attr != nil {
		at = obs.Some(n.Attr.coq())
	}
	switch n.K {
	case "s":
		if len(n.S) == 0 { // indistinguishable from an integer message with value 0 (bytes may be nil, intlen 0)
			return obs.App("MInt", obs.N(uint64(n.T)), obs.Z(0), at)
		}
		return obs.App("MStr", obs.N(uint64(n.T)), obs.H(n.S), at)
	case "a":
		return obs.App("MArr", obs.N(uint64(n.T)), obs.ListOf(n.A, Node.coq), at)
	}
	return obs.App("MInt", obs.N(uint64(n.T)), obs.Z(n.I), at)
}

// coqMsg prints an implementation-side RedisMessage as a model tree.
func coqMsg(m rueidis.RedisMessage) string {
	typ, str, hasArr, vals, intlen := rueidis.VerifMsgView(m)
	at := obs.None
	if a, ok := rueidis.VerifAccMsgAttrs(m); ok {
		at = obs.Some(coqMsg(a))
	}
	switch {
	case hasArr:
		return obs.App("MArr", obs.N(uint64(typ)), obs.ListOf(vals, coqMsg), at)
	case len(str) > 0:
		return obs.App("MStr", obs.N(uint64(typ)), obs.HS(str), at)
	}
	// a string message with an empty payload and an integer message with value 0 behave identically; print as the model canonicalises
	return obs.App("MInt", obs.N(uint64(typ)), obs.Z(intlen), at)
}

func (n Node) walk(f func(*Node)) {
	f(&n)
	for i := range n.A {
		n.A[i].walk(f)
	}
}

func (n *Node) each(f func(*Node)) {
	f(n)
	for i := range n.A {
		n.A[i].each(f)
	}
	if n.Attr != nil {
		n.Attr.each(f)
	}
}

func (n Node) clone() Node {
	raw, _ := json.Marshal(n)
	var c Node
	_ = json.Unmarshal(raw, &c)
	return c
}

// libTables: what the Go library answers on every string / intlen of the tree.
func libTables(n *Node) (string, string) {
	strs := map[string]bool{"": true}
	ints := map[int64]bool{0: true}
	n.each(func(x *Node) {
		switch x.K {
		case "s":
			strs[string(x.S)] = true
			ints[int64(len(x.S))] = true
		case "a":
			ints[int64(len(x.A))] = true
		default:
			ints[x.I] = true
		}
	})
	var ss []string
	for s := range strs {
		ss = append(ss, s)
	}
	sort.Strings(ss)
	rows := make([]string, 0, len(ss))
	for _, s := range ss {
		f, ferr := strconv.ParseFloat(s, 64)
		var any any
		jok := json.Unmarshal([]byte(s), &any) == nil
		rows = append(rows, "("+obs.HS(s)+", (("+obs.N(fbits(f))+", "+obs.Bool(ferr == nil)+"), "+obs.Bool(jok)+"))")
	}
	var is []int64
	for i := range ints {
		is = append(is, i)
	}
	sort.Slice(is, func(a, b int) bool { return is[a] < is[b] })
	fi := make([]string, 0, len(is))
	for _, i := range is {
		fi = append(fi, "("+obs.Z(i)+", "+obs.N(fbits(float64(i)))+")")
	}
	return obs.List(rows), obs.List(fi)
}
