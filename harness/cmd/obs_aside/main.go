// obs_aside: C39 — rueidisaside clients (separate rueidis clients) on one fake server running the real scripts
// under mini-Lua.  A case is a scripted scenario of Gets (with loaders that succeed, fail, are slow or panic),
// Dels, writes by another application, clock advances (expiry) and client deaths (Close while loading).
// Every server command in the server's total order, every cache hit, every delivered invalidation, every
// loader result and every return of a Get is one step of the recorded run that Model/Aside.v replays.
// The direct oracle works on the real objects: no returned value carries the placeholder prefix, a returned
// value was produced by a loader (or written by the other application) for that key, two loaders for one key
// never run at once unless the first one's lock was removed in between (expiry, Del, its client died), a lock
// left by a dead client is released so that a waiting Get loads, Gets return in time.
// Kind "race": several cache-missing Gets (distinct keys) start at once on ONE client that has no id yet, so that they
// race in keepalive (the reply of the first marker SET is held back a little); their loaders block on a gate; the
// virtual clock is then advanced past ClientTTL in two hops, each after a refresh of the client's marker has been
// seen, so that markers nobody refreshes expire while the client stays alive; other clients then ask for those keys.
// A placeholder taken away from a client that is alive (open, one of its markers present) is an oracle failure.
package main

import (
	"context"
	"crypto/sha1"
	"encoding/hex"
	"encoding/json"
	"errors"
	"fmt"
	"runtime"
	"strconv"
	"strings"
	"sync"
	"time"

	"github.com/redis/rueidis"
	"github.com/redis/rueidis/rueidisaside"

	"verifharness/addon2"
	"verifharness/fakeredis"
	"verifharness/gen"
	"verifharness/obs"
)

// ---- case description ----

type Loader struct {
	Kind string `json:"kind"` // ok | err | slow | panic | none (nil loader) | gate (blocks until the harness opens the gate)
	Val  string `json:"val,omitempty"`
	Ms   int    `json:"ms,omitempty"`
}

type Step struct {
	Op  string `json:"op"` // get | goget | join | del | extset | extdel | tick | close | sleep | open | expect | until (Val: loading | waiting; Key optional) | refreshwait
	C   int    `json:"c,omitempty"`
	Key string `json:"key,omitempty"`
	Val string `json:"val,omitempty"`
	Ms  int    `json:"ms,omitempty"`
	Ld  Loader `json:"ld,omitempty"`
}

type Case struct {
	Kind    string `json:"kind"`
	Clients int    `json:"clients"`
	Lua     bool   `json:"lua,omitempty"`
	TTL     int    `json:"ttl"`  // ms, ttl of Get
	CTTL    int    `json:"cttl"` // ms, ClientTTL
	Steps   []Step `json:"steps"`
}

// every wait is bounded by this; it is only ever used up when something is wrong
var slack = 15 * time.Second

// ---- generators ----

func genCase(r *gen.Rand, i int) any {
	c := Case{Clients: r.Range(2, 4), Lua: r.Chance(1, 3), TTL: 60000, CTTL: 60000}
	c.Kind = gen.Pick(r, []string{"solo", "solo", "share", "share", "share", "fail", "fail", "death", "death", "expire", "ext", "panic", "nofn", "race", "race", "race"})
	add := func(s Step) { c.Steps = append(c.Steps, s) }
	key := gen.Pick(r, []string{"k", "user:1", "a b", "rueid"})
	val := func() string {
		return gen.Pick(r, []string{"v1", "v2", "", "x y", "rueidis", "0", "long-" + strings.Repeat("z", r.Intn(40))}) + strconv.Itoa(r.Intn(1000))
	}
	nap := func() { add(Step{Op: "sleep", Ms: gen.Pick(r, []int{0, 1, 5, 20})}) }
	switch c.Kind {
	case "solo": // miss -> load -> hits -> Del -> miss again
		add(Step{Op: "get", C: 0, Key: key, Ld: Loader{Kind: "ok", Val: val()}})
		add(Step{Op: "get", C: 0, Key: key, Ld: Loader{Kind: "ok", Val: val()}})
		add(Step{Op: "get", C: 1, Key: key, Ld: Loader{Kind: "ok", Val: val()}})
		nap()
		add(Step{Op: "del", C: r.Intn(c.Clients), Key: key})
		add(Step{Op: "get", C: 1, Key: key, Ld: Loader{Kind: "ok", Val: val()}})
		add(Step{Op: "get", C: 0, Key: key, Ld: Loader{Kind: "ok", Val: val()}})
	case "share": // concurrent Gets of one key across clients: one loader, the others wait for its result
		for round := 0; round < 2; round++ {
			for cl := 0; cl < c.Clients; cl++ {
				add(Step{Op: "goget", C: cl, Key: key, Ld: Loader{Kind: "slow", Val: val(), Ms: gen.Pick(r, []int{5, 30, 80})}})
			}
			add(Step{Op: "join"})
			add(Step{Op: "del", C: 0, Key: key})
		}
	case "fail": // the loader fails: its Get returns the error, the lock is released, the next Get loads
		add(Step{Op: "goget", C: 0, Key: key, Ld: Loader{Kind: "slow-err", Ms: 30}})
		add(Step{Op: "sleep", Ms: 10})
		for cl := 1; cl < c.Clients; cl++ {
			add(Step{Op: "goget", C: cl, Key: key, Ld: Loader{Kind: "ok", Val: val()}})
		}
		add(Step{Op: "join"})
		add(Step{Op: "get", C: 0, Key: key, Ld: Loader{Kind: "ok", Val: val()}})
	case "death": // the loading client is closed while its loader runs: the others find it dead and load themselves
		add(Step{Op: "goget", C: 0, Key: key, Ld: Loader{Kind: "gate", Val: val()}})
		add(Step{Op: "until", C: 0, Val: "loading"})
		for cl := 1; cl < c.Clients; cl++ {
			add(Step{Op: "goget", C: cl, Key: key, Ld: Loader{Kind: "ok", Val: val()}})
		}
		for cl := 1; cl < c.Clients; cl++ {
			add(Step{Op: "until", C: cl, Val: "waiting"})
		}
		add(Step{Op: "close", C: 0})
		add(Step{Op: "expect", Key: key}) // the waiting Gets must return a loader value although client 0's lock was never released by it
		add(Step{Op: "open"})
		add(Step{Op: "join"})
	case "expire": // the value expires on the server: the next Get loads again
		add(Step{Op: "get", C: 0, Key: key, Ld: Loader{Kind: "ok", Val: val()}})
		add(Step{Op: "get", C: 1, Key: key, Ld: Loader{Kind: "ok", Val: val()}})
		add(Step{Op: "tick", Ms: c.TTL + 1})
		add(Step{Op: "get", C: 1, Key: key, Ld: Loader{Kind: "ok", Val: val()}})
		add(Step{Op: "get", C: 0, Key: key, Ld: Loader{Kind: "ok", Val: val()}})
	case "ext": // another application writes / deletes the key
		add(Step{Op: "extset", Key: key, Val: val()})
		add(Step{Op: "get", C: 0, Key: key, Ld: Loader{Kind: "ok", Val: val()}})
		add(Step{Op: "extset", Key: key, Val: val()})
		nap()
		add(Step{Op: "get", C: 0, Key: key, Ld: Loader{Kind: "ok", Val: val()}})
		add(Step{Op: "extdel", Key: key})
		nap()
		add(Step{Op: "get", C: 1, Key: key, Ld: Loader{Kind: "ok", Val: val()}})
		add(Step{Op: "get", C: 0, Key: key, Ld: Loader{Kind: "ok", Val: val()}})
	case "panic": // the loader panics: the placeholder stays until it expires, then the others load
		add(Step{Op: "goget", C: 0, Key: key, Ld: Loader{Kind: "panic"}})
		add(Step{Op: "sleep", Ms: 15})
		add(Step{Op: "goget", C: 1, Key: key, Ld: Loader{Kind: "ok", Val: val()}})
		add(Step{Op: "until", C: 1, Val: "waiting"})
		add(Step{Op: "tick", Ms: c.TTL + 1})
		add(Step{Op: "join"})
	case "race": // several first Gets of one fresh client race in keepalive; markers nobody refreshes expire while they load
		c.CTTL = 240
		n := r.Range(2, 4)
		keys := []string{key, key + ":b", "other", key + "/3"}[:n]
		for _, k := range keys {
			add(Step{Op: "goget", C: 0, Key: k, Ld: Loader{Kind: "gate", Val: val()}})
		}
		for _, k := range keys {
			add(Step{Op: "until", C: 0, Key: k, Val: "loading"})
		}
		if !r.Chance(1, 5) {
			add(Step{Op: "refreshwait", C: 0})
			add(Step{Op: "tick", Ms: c.CTTL * 6 / 10})
			add(Step{Op: "refreshwait", C: 0})
			add(Step{Op: "tick", Ms: c.CTTL * 6 / 10})
		}
		perm := r.Intn(n)
		for cl := 1; cl < c.Clients; cl++ {
			add(Step{Op: "goget", C: cl, Key: keys[(perm+cl-1)%n], Ld: Loader{Kind: "ok", Val: val()}})
		}
		for cl := 1; cl < c.Clients; cl++ {
			add(Step{Op: "until", C: cl, Val: "waiting"})
		}
		add(Step{Op: "open"})
		add(Step{Op: "join"})
		add(Step{Op: "get", C: 1, Key: keys[r.Intn(n)], Ld: Loader{Kind: "ok", Val: val()}})
	case "nofn": // no loader: a miss is reported, a stored value is returned
		add(Step{Op: "get", C: 0, Key: key, Ld: Loader{Kind: "none"}})
		add(Step{Op: "get", C: 1, Key: key, Ld: Loader{Kind: "ok", Val: val()}})
		add(Step{Op: "get", C: 0, Key: key, Ld: Loader{Kind: "none"}})
	}
	return c
}

// ---- the recorded run ----

type getRec struct {
	id      int
	client  int
	key     string
	state   string // what the recorded steps say the Get is doing: "" | wait | load | done
	done    bool
	val     string
	err     error
	started time.Time
	ended   time.Time
	lockID  string
	ctxErr  bool   // it returned because its context ended while it waited
	ph      string // the placeholder it read last
	newid   string // the marker its keepalive SET
}

type loadRec struct {
	key       string
	disturbed bool
	get       *getRec
}

type world struct {
	c    Case
	s    *fakeredis.Server
	cls  []rueidisaside.CacheAsideClient
	env  rueidis.Client
	gate chan struct{}

	mu        sync.Mutex
	steps     []string
	gets      []*getRec
	cur       [][]*getRec        // per client: the Gets in flight (distinct keys)
	inst      []string           // per client: the id installed as c.id, as far as the recorded steps tell
	markers   []map[string]bool  // per client: every marker it ever SET
	owner     map[string]int     // marker -> the client that SET it
	setOwner  map[string]*getRec // marker -> the Get whose keepalive sends it (learnt on the client side, by goroutine)
	byGo      map[int64]*getRec  // goroutine -> the Get it runs
	lost      map[int]bool       // clients that lost a connection (onInvalidation(nil))
	refreshes []int              // per client: refreshes seen
	names     map[int]string
	shaKind   map[string]string
	lastNow   int64
	now0      int64
	keys      map[string]bool     // cached keys used by the case
	produced  map[string][]string // key -> values produced by loaders / written by the other application
	running   []*loadRec
	dead      map[string]bool // markers that were deleted
	expired   map[string]bool // markers that expired
	closedCl  map[int]bool
	oracle    string
	class     string
	sig       []string
	loads     int
}

func (w *world) fail(class, msg string) {
	if w.oracle == "" {
		w.oracle, w.class = msg, class
	}
}

func (w *world) emit(label, ob string) {
	w.steps = append(w.steps, obs.App("Build_aostep", label, ob))
}

func optBytes(v *string) string {
	if v == nil {
		return obs.None
	}
	return obs.Some(obs.HS(*v))
}

func gerrName(err error) string {
	switch {
	case err == nil:
		return ""
	case rueidis.IsRedisNil(err):
		return "ENil"
	case errors.Is(err, errLoader):
		return "ELoader"
	default:
		return "ENet"
	}
}

func gresTerm(val string, err error) string {
	if err == nil {
		return obs.App("ROk", obs.HS(val))
	}
	return obs.App("RErr", obs.HS(val), gerrName(err))
}

var errLoader = errors.New("loader failed")

func clientOf(name string) int {
	if strings.HasPrefix(name, "C") {
		if n, err := strconv.Atoi(name[1:]); err == nil {
			return n
		}
	}
	return -1
}

func scriptKind(text string) string {
	switch {
	case strings.Contains(text, `"DEL"`):
		return "delkey"
	case strings.Contains(text, `"NX"`):
		return "lock"
	case strings.Contains(text, `"SET"`):
		return "setkey"
	}
	return ""
}

func (w *world) tickIfAdvanced() {
	if now := w.s.NowLocked(); now > w.lastNow {
		w.emit(obs.App("ATick", obs.Z(now-w.lastNow)), "ONone")
		w.lastNow = now
		// expiry removes locks: every running loader whose placeholder is gone is disturbed
		for _, l := range w.running {
			if it := w.s.Get(l.key); it == nil || it.Str != l.get.lockID {
				l.disturbed = true
			}
		}
		w.markExpired()
	}
}

// markExpired (server lock held): markers that are gone without having been deleted
func (w *world) markExpired() {
	for id := range w.owner {
		if !w.dead[id] && !w.expired[id] && w.s.Get(id) == nil {
			w.expired[id] = true
		}
	}
}

// alive (server lock held): the client is open, has not lost a connection, and one of its markers is present
func (w *world) alive(ci int) (string, bool) {
	if w.closedCl[ci] || w.lost[ci] {
		return "", false
	}
	for id := range w.markers[ci] {
		if w.s.Get(id) != nil {
			return id, true
		}
	}
	return "", false
}

// getFor: the Get in flight on client ci for the key; probing: the one that reads the liveness key id
func (w *world) getFor(ci int, key string) *getRec {
	for _, g := range w.cur[ci] {
		if g.key == key {
			return g
		}
	}
	return nil
}

func (w *world) probing(ci int, id string) *getRec {
	for _, g := range w.cur[ci] {
		if g.state == "probe" && g.ph == id {
			return g
		}
	}
	for _, g := range w.cur[ci] {
		if g.state == "probe" {
			return g
		}
	}
	return nil
}

func (w *world) drop(g *getRec) {
	l := w.cur[g.client]
	for i, x := range l {
		if x == g {
			w.cur[g.client] = append(l[:i:i], l[i+1:]...)
			return
		}
	}
}

func goid() int64 {
	var buf [64]byte
	n := runtime.Stack(buf[:], false)
	f := strings.Fields(string(buf[:n]))
	if len(f) < 2 {
		return -1
	}
	id, _ := strconv.ParseInt(f[1], 10, 64)
	return id
}

func isMarkerSet(argv []string) bool {
	return len(argv) >= 5 && strings.ToUpper(argv[0]) == "SET" && strings.HasPrefix(argv[1], rueidisaside.PlaceholderPrefix) && argv[2] == ""
}

func (w *world) disturb(key string) {
	for _, l := range w.running {
		if l.key == key {
			l.disturbed = true
		}
	}
}

// afterRead / afterProbe: where the Get is after a (cached) read, as far as the recorded steps tell
func (w *world) afterRead(g *getRec, v *string) {
	switch {
	case v == nil:
		g.state = "miss"
	case strings.HasPrefix(*v, rueidisaside.PlaceholderPrefix):
		g.state, g.ph = "probe", *v
	default:
		g.state = "returning"
	}
}

func (w *world) afterProbe(g *getRec, v *string) {
	if v != nil {
		g.state = "wait"
	} else {
		g.state = "release"
	}
}

// wakeIfWaiting: the Get is about to read again, so it left its select: a registered channel was closed
func (w *world) wakeIfWaiting(g *getRec) {
	if g.state == "wait" {
		w.emit(obs.App("AWake", obs.Nat(g.id)), "ONone")
		g.state = ""
	}
}

// onExec: every executed command in the server's total order, under the server lock
func (w *world) onExec(e fakeredis.Entry) {
	w.mu.Lock()
	defer w.mu.Unlock()
	w.tickIfAdvanced()
	name := w.names[e.Conn]
	up := strings.ToUpper(e.Argv[0])
	ci := clientOf(name)
	replyVal := func() *string {
		if e.Reply.T == '$' && !e.Reply.Null {
			s := e.Reply.S
			return &s
		}
		return nil
	}
	switch {
	case name == "env" && up == "DEL" && len(e.Argv) == 2:
		w.emit(obs.App("ADel", obs.HS(e.Argv[1])), "(OBool "+obs.Bool(e.Reply.I == 1)+")")
		w.disturb(e.Argv[1])
	case name == "env" && up == "SET" && len(e.Argv) == 3:
		w.emit(obs.App("ASet", obs.HS(e.Argv[1]), obs.HS(e.Argv[2]), obs.Z(0)), "ONone")
		w.produced[e.Argv[1]] = append(w.produced[e.Argv[1]], e.Argv[2])
		w.disturb(e.Argv[1])
	case ci < 0:
		return
	case up == "GET" && e.InTx && len(e.Argv) == 2: // the GET inside the cached-read transaction
		k := e.Argv[1]
		v := replyVal()
		if g := w.getFor(ci, k); g != nil {
			w.wakeIfWaiting(g)
			w.emit(obs.App("ARead", obs.Nat(g.id), "false", "false"), "(OVal "+optBytes(v)+")")
			w.afterRead(g, v)
		} else if g := w.probing(ci, k); g != nil {
			w.emit(obs.App("AProbe", obs.Nat(g.id), "false", "false"), "(OVal "+optBytes(v)+")")
			w.afterProbe(g, v)
		}
	case isMarkerSet(e.Argv):
		// SET id "" PX ttl: keepalive of a Get that saw no id (several Gets of one client may each send one), or the
		// refresh goroutine
		id := e.Argv[1]
		if w.markers[ci][id] {
			w.emit(obs.App("ARefresh", obs.Nat(ci)), "ONone")
			w.refreshes[ci]++
			delete(w.expired, id)
			return
		}
		w.markers[ci][id] = true
		w.owner[id] = ci
		g := w.setOwner[id]
		if g == nil || g.done || g.client != ci {
			g = nil
			for _, x := range w.cur[ci] {
				if x.state == "miss" {
					g = x
					break
				}
			}
		}
		if g != nil {
			w.emit(obs.App("AKeep", obs.Nat(g.id), obs.HS(id), "false"), "ONone")
			g.state, g.newid = "keep", id
		}
	case up == "SET" && len(e.Argv) >= 6 && w.keys[e.Argv[1]]: // SET key id NX GET PX ttl
		w.lockEvent(ci, e.Argv[1], e.Argv[2], replyVal())
	case up == "DEL" && len(e.Argv) == 2:
		k := e.Argv[1]
		w.emit(obs.App("ADel", obs.HS(k)), "(OBool "+obs.Bool(e.Reply.I == 1)+")")
		if w.keys[k] {
			w.disturb(k)
		} else {
			w.dead[k] = true
			if w.inst[ci] == k {
				w.inst[ci] = "" // Close / onInvalidation(nil) deleted the client's id
			}
			for _, l := range w.running { // the holder's liveness key is gone: others may take its lock away
				if l.get.lockID == k {
					l.disturbed = true
				}
			}
		}
	case up == "EVAL" || up == "EVALSHA":
		if e.Reply.T == '-' && strings.HasPrefix(e.Reply.S, "NOSCRIPT") {
			return
		}
		kind := ""
		if up == "EVAL" {
			kind = scriptKind(e.Argv[1])
			sum := sha1.Sum([]byte(e.Argv[1]))
			w.shaKind[hex.EncodeToString(sum[:])] = kind
		} else {
			kind = w.shaKind[strings.ToLower(e.Argv[1])]
		}
		keys, args := addon2.ScriptArgs(e.Argv)
		if kind == "" || len(keys) != 1 || len(args) < 1 {
			return
		}
		g := w.getFor(ci, keys[0])
		switch kind {
		case "lock":
			w.lockEvent(ci, keys[0], args[0], replyVal())
		case "setkey":
			if g == nil {
				return
			}
			ok := e.Reply.T == '+'
			w.emit(obs.App("AStore", obs.Nat(g.id), "true", "true"), "(OBool "+obs.Bool(ok)+")")
			g.state = "stored"
			w.endLoad(g)
		case "delkey":
			ok := e.Reply.T == ':' && e.Reply.I == 1
			if g != nil && g.state == "store" && args[0] == g.lockID {
				// the setkey script never reached the server (its client is closed): the Get releases its lock
				w.emit(obs.App("AStore", obs.Nat(g.id), "false", "false"), "(OBool false)")
				g.state, g.err = "unlock", errors.New("setkey failed")
			}
			if g != nil && g.state == "unlock" && args[0] == g.lockID {
				w.emit(obs.App("AUnlock", obs.Nat(g.id), "true"), "(ODone "+gresTerm(g.val, g.err)+")")
				g.state = "done"
				w.endLoad(g)
			} else if g != nil {
				w.emit(obs.App("ARelease", obs.Nat(g.id), "true"), "(OBool "+obs.Bool(ok)+")")
				g.state = "read"
				if ok {
					w.markExpired()
					ph := args[0]
					oc, known := w.owner[ph]
					if !w.dead[ph] && !w.expired[ph] {
						w.fail("lock-taken-from-live-client", fmt.Sprintf("client %d deleted the placeholder %q of key %q although that client's liveness key was never deleted or expired", ci, ph, keys[0]))
					} else if known && !w.dead[ph] {
						if m, ok := w.alive(oc); ok {
							w.fail("lock-taken-from-live-client", fmt.Sprintf("client %d deleted the placeholder %q of key %q, which client %d set while its loader runs; client %d is alive (open, its marker %q is present and refreshed) but nothing refreshed %q, so it expired", ci, ph, keys[0], oc, oc, m, ph))
						}
					}
					w.disturb(keys[0])
				}
			}
		}
	}
}

// install: the second critical section of keepalive, which leaves no trace on the server: the Get goes on with the
// installed id, which is its own marker only if no sibling got there first
func (w *world) install(g *getRec) {
	w.emit(obs.App("AInstall", obs.Nat(g.id)), "ONone")
	if w.inst[g.client] == "" {
		w.inst[g.client] = g.newid
	}
	g.state = "installed"
}

func (w *world) lockEvent(ci int, key, id string, v *string) {
	g := w.getFor(ci, key)
	if g == nil {
		return
	}
	// the id the lock carries is the marker of a sibling Get that has not been seen since its SET: it was the
	// first one through the critical section
	for _, b := range w.cur[ci] {
		if b != g && b.state == "keep" && b.newid == id {
			w.install(b)
		}
	}
	switch g.state {
	case "keep":
		w.install(g)
	case "installed":
	default: // keepalive found the client's id: no round trip
		w.emit(obs.App("AKeepReuse", obs.Nat(g.id)), "ONone")
	}
	w.emit(obs.App("ALock", obs.Nat(g.id), "false"), "(OVal "+optBytes(v)+")")
	if v == nil {
		g.state, g.lockID = "load", id
	} else {
		w.afterRead(g, v)
	}
}

func (w *world) endLoad(g *getRec) {
	for i, l := range w.running {
		if l.get == g {
			w.running = append(w.running[:i], w.running[i+1:]...)
			return
		}
	}
}

// ---- clients ----

// spyClient reports cache hits of the aside client's cached reads (they leave no trace on the server)
type spyClient struct {
	rueidis.Client
	w  *world
	ci int
}

func (c *spyClient) DoCache(ctx context.Context, cmd rueidis.Cacheable, ttl time.Duration) rueidis.RedisResult {
	args := append([]string(nil), cmd.Commands()...) // the command is recycled once it has been executed
	res := c.Client.DoCache(ctx, cmd, ttl)
	if res.IsCacheHit() {
		if len(args) == 2 && strings.ToUpper(args[0]) == "GET" {
			var v *string
			if s, err := res.ToString(); err == nil {
				v = &s
			}
			w := c.w
			w.mu.Lock()
			if g := w.getFor(c.ci, args[1]); g != nil {
				w.wakeIfWaiting(g)
				w.emit(obs.App("ARead", obs.Nat(g.id), "true", "false"), "(OVal "+optBytes(v)+")")
				w.afterRead(g, v)
			} else if g := w.probing(c.ci, args[1]); g != nil {
				w.emit(obs.App("AProbe", obs.Nat(g.id), "true", "false"), "(OVal "+optBytes(v)+")")
				w.afterProbe(g, v)
			}
			w.mu.Unlock()
		}
	}
	return res
}

// Do: the marker SET of keepalive is sent by the goroutine of the Get it belongs to
func (c *spyClient) Do(ctx context.Context, cmd rueidis.Completed) rueidis.RedisResult {
	if args := cmd.Commands(); isMarkerSet(args) {
		w := c.w
		w.mu.Lock()
		if g := w.byGo[goid()]; g != nil {
			w.setOwner[args[1]] = g
		}
		w.mu.Unlock()
	}
	return c.Client.Do(ctx, cmd)
}

func (w *world) newClient(ci int) (rueidisaside.CacheAsideClient, error) {
	o := addon2.Option(w.s)
	o.ClientName = "C" + strconv.Itoa(ci)
	return rueidisaside.NewClient(rueidisaside.ClientOption{
		ClientOption: o,
		ClientTTL:    time.Duration(w.c.CTTL) * time.Millisecond,
		UseLuaLock:   w.c.Lua,
		ClientBuilder: func(opt rueidis.ClientOption) (rueidis.Client, error) {
			inner := opt.OnInvalidations
			opt.OnInvalidations = func(msgs []rueidis.RedisMessage) {
				// the command that caused these invalidations records itself at the end of its execution, under the
				// server lock: wait for that, so that the delivery is recorded after its cause
				w.s.Lock()
				w.mu.Lock()
				if msgs == nil {
					w.emit(obs.App("ALost", obs.Nat(ci)), "ONone")
					w.inst[ci] = ""
					w.lost[ci] = true
				} else {
					ks := make([]string, 0, len(msgs))
					for _, m := range msgs {
						if k, err := m.ToString(); err == nil {
							ks = append(ks, k)
						}
					}
					w.emit(obs.App("AInval", obs.Nat(ci), obs.ListOf(ks, obs.HS)), "ONone")
				}
				w.mu.Unlock()
				w.s.Unlock()
				if inner != nil {
					inner(msgs)
				}
			}
			c, err := rueidis.NewClient(opt)
			if err != nil {
				return nil, err
			}
			return &spyClient{Client: c, w: w, ci: ci}, nil
		},
	})
}

// doGet runs one Get on client ci; the loader behaves as scripted
func (w *world) doGet(ci int, key string, ld Loader) *getRec {
	g := &getRec{client: ci, key: key, started: time.Now()}
	w.mu.Lock()
	g.id = len(w.gets)
	w.gets = append(w.gets, g)
	w.cur[ci] = append(w.cur[ci], g)
	w.byGo[goid()] = g
	w.keys[key] = true
	w.emit(obs.App("AStartGet", obs.Nat(ci), obs.HS(key), obs.Z(int64(w.c.TTL)), obs.Bool(ld.Kind != "none")), "ONone")
	w.mu.Unlock()

	var fn func(ctx context.Context, key string) (string, error)
	if ld.Kind != "none" {
		fn = func(ctx context.Context, key string) (val string, err error) {
			w.mu.Lock()
			w.loads++
			for _, l := range w.running {
				if l.key == key && !l.disturbed {
					w.fail("two-loaders", fmt.Sprintf("the loader of Get %d (client %d) starts for key %q while the loader of Get %d (client %d) is still running and its lock has not been removed", g.id, ci, key, l.get.id, l.get.client))
				}
			}
			w.running = append(w.running, &loadRec{key: key, get: g})
			w.mu.Unlock()
			switch ld.Kind {
			case "slow":
				time.Sleep(time.Duration(ld.Ms) * time.Millisecond)
			case "slow-err":
				time.Sleep(time.Duration(ld.Ms) * time.Millisecond)
				err = errLoader
			case "err":
				err = errLoader
			case "gate":
				<-w.gate
			case "panic":
				w.mu.Lock()
				g.state = "panicked"
				w.mu.Unlock()
				panic("loader panics")
			}
			if err == nil {
				val = ld.Val
			}
			w.mu.Lock()
			if err == nil {
				w.produced[key] = append(w.produced[key], val)
				w.emit(obs.App("ALoad", obs.Nat(g.id), obs.Some(obs.HS(val))), "ONone")
				g.state, g.val = "store", val
			} else {
				w.emit(obs.App("ALoad", obs.Nat(g.id), obs.None), "ONone")
				g.state, g.val, g.err = "unlock", "", err
			}
			w.mu.Unlock()
			return val, err
		}
	}
	func() {
		defer func() {
			if r := recover(); r != nil {
				g.err = fmt.Errorf("panic: %v", r)
				w.mu.Lock()
				g.state = "panicked"
				w.mu.Unlock()
			}
		}()
		val, err := w.cls[ci].Get(context.Background(), time.Duration(w.c.TTL)*time.Millisecond, key, fn)
		g.val, g.err = val, err
	}()
	g.ended = time.Now()
	w.s.Lock()
	w.mu.Lock()
	defer w.s.Unlock()
	defer w.mu.Unlock()
	w.tickIfAdvanced()
	delete(w.byGo, goid())
	if g.state == "panicked" {
		w.drop(g)
		return g
	}
	g.done = true
	// the return itself: a step only when no recorded step already carries it
	failed := "(ODone (RErr " + obs.HS("") + " ENet))"
	switch {
	case g.err == nil || rueidis.IsRedisNil(g.err):
	case g.state == "wait": // the Get's context ended while it waited
		w.emit(obs.App("ACtx", obs.Nat(g.id)), "(ODone (RErr "+obs.HS("")+" ECtx))")
		g.ctxErr = true
	case g.state == "miss": // keepalive failed (the client is closed)
		w.emit(obs.App("AKeep", obs.Nat(g.id), obs.HS(""), "true"), failed)
	case g.state == "keep":
		w.install(g)
		w.emit(obs.App("ALock", obs.Nat(g.id), "true"), failed)
	case g.state == "installed":
		w.emit(obs.App("ALock", obs.Nat(g.id), "true"), failed)
	case g.state == "probe":
		w.emit(obs.App("AProbe", obs.Nat(g.id), "false", "true"), failed)
	case g.state == "read" || g.state == "":
		w.emit(obs.App("ARead", obs.Nat(g.id), "false", "true"), failed)
	case g.state == "stored" && g.err != nil: // setkey failed on the client side although the server executed it
		w.fail("harness", "harness: setkey error without an injected failure: "+g.err.Error())
	case g.state == "store" && g.err != nil: // the setkey script never reached the server (the client is closed), nor did the delkey script
		w.emit(obs.App("AStore", obs.Nat(g.id), "false", "false"), "(OBool false)")
		w.emit(obs.App("AUnlock", obs.Nat(g.id), "false"), "(ODone "+gresTerm(g.val, g.err)+")")
		w.endLoad(g)
	case g.state == "unlock": // the delkey script never reached the server
		w.emit(obs.App("AUnlock", obs.Nat(g.id), "false"), "(ODone "+gresTerm(g.val, g.err)+")")
		w.endLoad(g)
	}
	g.state = "done"
	w.drop(g)
	// ---- direct oracle on what was returned ----
	if strings.HasPrefix(g.val, rueidisaside.PlaceholderPrefix) {
		w.fail("placeholder-returned", fmt.Sprintf("Get %d (client %d, key %q) returned the lock placeholder %q (err %v)", g.id, ci, key, g.val, g.err))
	}
	if g.err == nil {
		ok := false
		for _, v := range w.produced[key] {
			if v == g.val {
				ok = true
			}
		}
		if !ok {
			w.fail("value-origin", fmt.Sprintf("Get %d (client %d, key %q) returned %q, which no loader produced and nobody wrote for that key (known: %q)", g.id, ci, key, g.val, w.produced[key]))
		}
	} else if ld.Kind == "ok" || ld.Kind == "slow" || ld.Kind == "gate" {
		if !w.closedCl[ci] && gerrName(g.err) != "ENil" {
			w.fail("unexpected-error", fmt.Sprintf("Get %d (client %d, key %q) failed with %v although its loader works", g.id, ci, key, g.err))
		}
	}
	if d := g.ended.Sub(g.started); d > slack+time.Duration(ld.Ms)*time.Millisecond && ld.Kind != "gate" && ld.Kind != "panic" {
		w.fail("get-hangs", fmt.Sprintf("Get %d (client %d, key %q) took %v", g.id, ci, key, d.Round(time.Millisecond)))
	}
	return g
}

func run(ci any) (res obs.Result) {
	c := ci.(Case)
	res.Kind = c.Kind
	res.Site = "rueidisaside/aside.go:Get"
	w := &world{c: c, names: map[int]string{}, shaKind: map[string]string{}, keys: map[string]bool{}, produced: map[string][]string{},
		dead: map[string]bool{}, expired: map[string]bool{}, closedCl: map[int]bool{}, gate: make(chan struct{}),
		owner: map[string]int{}, setOwner: map[string]*getRec{}, byGo: map[int64]*getRec{}, lost: map[int]bool{}}
	w.s, _ = addon2.NewServer()
	w.now0 = w.s.Now()
	w.lastNow = w.now0
	w.cur = make([][]*getRec, c.Clients)
	w.inst = make([]string, c.Clients)
	w.refreshes = make([]int, c.Clients)
	for i := 0; i < c.Clients; i++ {
		w.markers = append(w.markers, map[string]bool{})
	}
	w.s.Fault = func(cn *fakeredis.Conn, cseq int, argv []string) fakeredis.Action {
		w.mu.Lock()
		defer w.mu.Unlock()
		w.names[cn.ID] = cn.Name
		if c.Kind == "race" && cn.Name == "C0" && isMarkerSet(argv) && !w.markers[0][argv[1]] {
			// hold back the reply of a first marker SET: the sibling Gets get to their own check of c.id meanwhile
			return fakeredis.Action{DelayReply: 12 * time.Millisecond}
		}
		return fakeredis.Action{}
	}
	w.s.OnExec = w.onExec
	for i := 0; i < c.Clients; i++ {
		cl, err := w.newClient(i)
		if err != nil {
			res.Oracle = "harness: " + err.Error()
			return
		}
		w.cls = append(w.cls, cl)
		w.mu.Lock()
		w.emit("ANewClient", "ONone")
		w.mu.Unlock()
	}
	eo := addon2.Option(w.s)
	eo.ClientName = "env"
	eo.DisableCache = true
	env, err := rueidis.NewClient(eo)
	if err != nil {
		res.Oracle = "harness: " + err.Error()
		return
	}
	w.env = env
	bg := context.Background()
	closed := map[int]bool{}
	var wg sync.WaitGroup
	gateOpen := false
	for _, st := range c.Steps {
		switch st.Op {
		case "sleep":
			time.Sleep(time.Duration(st.Ms) * time.Millisecond)
		case "get":
			if !closed[st.C] {
				g := w.doGet(st.C, st.Key, st.Ld)
				w.sig = append(w.sig, fmt.Sprint("get", g.err == nil))
			}
		case "goget":
			if closed[st.C] {
				continue
			}
			wg.Add(1)
			st := st
			go func() {
				defer wg.Done()
				w.doGet(st.C, st.Key, st.Ld)
			}()
			time.Sleep(time.Millisecond)
		case "join":
			fin := make(chan struct{})
			go func() { wg.Wait(); close(fin) }()
			select {
			case <-fin:
			case <-time.After(2 * slack):
				w.mu.Lock()
				w.fail("get-hangs", "concurrent Gets did not return")
				w.mu.Unlock()
			}
		case "del":
			if !closed[st.C] {
				w.cls[st.C].Del(bg, st.Key)
			}
		case "extset":
			w.env.Do(bg, w.env.B().Set().Key(st.Key).Value(st.Val).Build())
		case "extdel":
			w.env.Do(bg, w.env.B().Del().Key(st.Key).Build())
		case "tick": // recorded first: the invalidations of what expires reach the clients while Advance still runs
			w.s.Lock()
			w.mu.Lock()
			w.tickIfAdvanced()
			w.emit(obs.App("ATick", obs.Z(int64(st.Ms))), "ONone")
			w.lastNow += int64(st.Ms)
			w.mu.Unlock()
			w.s.Unlock()
			w.s.Advance(int64(st.Ms))
			w.s.Lock()
			w.mu.Lock()
			for _, l := range w.running {
				if it := w.s.Get(l.key); it == nil || it.Str != l.get.lockID {
					l.disturbed = true
				}
			}
			w.markExpired()
			w.mu.Unlock()
			w.s.Unlock()
		case "close":
			w.mu.Lock()
			w.emit(obs.App("AClose", obs.Nat(st.C)), "ONone")
			w.closedCl[st.C] = true
			w.mu.Unlock()
			closed[st.C] = true
			w.cls[st.C].Close()
		case "until": // wait (bounded) until the Get in flight on client C is loading / waiting
			deadline := time.Now().Add(slack)
			seen := false
			for time.Now().Before(deadline) {
				w.mu.Lock()
				var g *getRec
				if st.Key != "" {
					g = w.getFor(st.C, st.Key)
				} else if len(w.cur[st.C]) > 0 {
					g = w.cur[st.C][0]
				}
				ok := g != nil && ((st.Val == "loading" && g.state == "load") || (st.Val == "waiting" && g.state == "wait"))
				if g != nil {
					seen = true
				} else if seen {
					ok = true // it returned
				}
				w.mu.Unlock()
				if ok {
					break
				}
				time.Sleep(time.Millisecond)
			}
		case "refreshwait": // wait (bounded) for the next refresh of the client's marker
			w.mu.Lock()
			n0 := w.refreshes[st.C]
			w.mu.Unlock()
			deadline := time.Now().Add(slack)
			for time.Now().Before(deadline) {
				w.mu.Lock()
				n := w.refreshes[st.C]
				w.mu.Unlock()
				if n > n0 {
					break
				}
				time.Sleep(time.Millisecond)
			}
		case "open":
			if !gateOpen {
				close(w.gate)
				gateOpen = true
			}
		case "expect": // the Gets that wait behind a dead client's lock must come back with a loaded value
			deadline := time.Now().Add(slack)
			for time.Now().Before(deadline) {
				w.mu.Lock()
				pending := 0
				for i, l := range w.cur {
					if !closed[i] {
						pending += len(l)
					}
				}
				w.mu.Unlock()
				if pending == 0 {
					break
				}
				time.Sleep(2 * time.Millisecond)
			}
			w.mu.Lock()
			for i, l := range w.cur {
				for _, g := range l {
					if !closed[i] {
						w.fail("dead-lock-not-released", fmt.Sprintf("Get %d (client %d, key %q) is still waiting %v after the client that held the lock was closed", g.id, i, g.key, slack))
					}
				}
			}
			w.mu.Unlock()
		}
	}
	if !gateOpen {
		close(w.gate)
	}
	fin := make(chan struct{})
	go func() { wg.Wait(); close(fin) }()
	select {
	case <-fin:
	case <-time.After(2 * slack):
	}
	time.Sleep(5 * time.Millisecond)
	w.s.Lock()
	w.mu.Lock()
	w.tickIfAdvanced()
	results := make([]string, len(w.gets))
	for i, g := range w.gets {
		results[i] = obs.None
		if g.done {
			results[i] = obs.Some(gresTerm(g.val, g.err))
			if g.ctxErr {
				results[i] = obs.Some("(RErr " + obs.HS("") + " ECtx)")
			}
		}
	}
	var finals []string
	for k := range w.keys {
		v := obs.None
		if it := w.s.Get(k); it != nil {
			v = obs.Some(obs.HS(it.Str))
		}
		finals = append(finals, addon2.Pair(obs.HS(k), v))
	}
	w.s.OnExec, w.s.Fault = nil, nil
	steps := append([]string(nil), w.steps...)
	res.Oracle, res.Class = w.oracle, w.class
	ngets, loads := len(w.gets), w.loads
	w.mu.Unlock()
	w.s.Unlock()
	for i, cl := range w.cls {
		if !closed[i] {
			cl.Close()
		}
	}
	w.env.Close()
	res.Nontrivial = ngets >= 2
	res.Sig = c.Kind + fmt.Sprint(c.Clients, c.Lua, loads) + strings.Join(w.sig, ",") + fmt.Sprint(len(steps))
	res.Obs = map[string]any{"steps": len(steps), "gets": ngets, "loads": loads}
	if !strings.HasPrefix(res.Class, "harness") {
		res.Coq = obs.App("CARun", obs.Z(int64(c.CTTL)), obs.Z(w.now0), "["+strings.Join(steps, ";\n ")+"]", obs.List(results), obs.List(finals))
	}
	addon2.Dump("obs_aside", c, res.Coq)
	return
}

func main() {
	obs.Main(obs.Runner{
		Name: "obs_aside", Salt: 39,
		Gen: genCase,
		Decode: func(raw json.RawMessage) (any, error) {
			var c Case
			err := json.Unmarshal(raw, &c)
			return c, err
		},
		Run: run,
	})
}
