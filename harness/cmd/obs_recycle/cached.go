package main

// Cached paths of C33's ownership half: DoCache(GET), DoCache(MGET / JSON.MGET) with misses, DoMultiCache and the
// MGetCache helper, on a real single client with client-side caching on (RESP3, OPT-IN tracking), one pipelining
// connection.  In the abandoned modes the writer goroutine is first parked inside conn.Write (a gate in the
// client's side of the connection), the cached call is queued behind it and given up by its caller (cancel or
// deadline), then unrelated commands are built from the pool, then the gate opens.  Oracle, on the wire: every
// frame the server receives is exactly the one the client built for that call — intact argv and the
// OPT-IN / MULTI / PTTL… / cmd / EXEC block shape.

import (
	"context"
	"fmt"
	"net"
	"reflect"
	"strings"
	"time"

	"github.com/redis/rueidis"

	"verifharness/gen"
	"verifharness/obs"
)

type combo struct{ op, mode, view string }

var cachedCombos = func() []combo {
	var out []combo
	for _, op := range []string{"get", "mget", "jsonmget", "multicache", "mgetcache"} {
		for _, mode := range []string{"ok", "cancel", "timeout"} {
			out = append(out, combo{op, mode, "user"})
			if (op == "mget" || op == "jsonmget") && mode != "ok" {
				out = append(out, combo{op, mode, "internal"})
			}
		}
	}
	return out
}()

func genCached(r *gen.Rand, k int) Case {
	cb := cachedCombos[k%len(cachedCombos)]
	c := Case{Scenario: "cached", Op: cb.op, Mode: cb.mode, View: cb.view, Pinned: cb.view == "user" && r.Chance(1, 5)}
	n := 1
	if cb.op != "get" {
		n = r.Range(1, 4)
	}
	for i := 0; i < n; i++ {
		c.Keys = append(c.Keys, fmt.Sprintf("k%d:%s", i, string(noCRLF(r.Bytes(r.Range(0, 6))))))
	}
	return c
}

func noCRLF(b []byte) []byte {
	for i := range b {
		if b[i] < 0x20 || b[i] > 0x7e {
			b[i] = 'x'
		}
	}
	return b
}

// serve3: the RESP3 side of the fake server: handshake, MULTI/EXEC.  Returns true when it answered.
func (s *server) serve3(c net.Conn, name string, argv []string, inMulti *bool, queued *[][]string) bool {
	switch {
	case name == "HELLO" && s.cluster:
		c.Write([]byte("%1\r\n+proto\r\n:3\r\n"))
	case name == "CLUSTER" && s.cluster:
		c.Write([]byte("*1\r\n*3\r\n:0\r\n:16383\r\n*3\r\n$9\r\n127.0.0.1\r\n:7001\r\n$4\r\nnode\r\n"))
	case name == "INCR" && !*inMulti && len(argv) == 2:
		s.mu.Lock()
		if s.execs == nil {
			s.execs = map[string]int{}
		}
		s.execs[argv[1]]++
		n := s.execs[argv[1]]
		s.mu.Unlock()
		fmt.Fprintf(c, ":%d\r\n", n)
	case name == "HELLO":
		c.Write([]byte("%2\r\n+version\r\n+7.0.0\r\n+proto\r\n:3\r\n"))
	case name == "MULTI":
		*inMulti, *queued = true, nil
		c.Write([]byte("+OK\r\n"))
	case name == "EXEC":
		var b strings.Builder
		fmt.Fprintf(&b, "*%d\r\n", len(*queued))
		for _, q := range *queued {
			switch strings.ToUpper(q[0]) {
			case "PTTL":
				b.WriteString(":-2\r\n")
			case "MGET":
				fmt.Fprintf(&b, "*%d\r\n%s", len(q)-1, strings.Repeat("_\r\n", len(q)-1))
			case "JSON.MGET":
				fmt.Fprintf(&b, "*%d\r\n%s", len(q)-2, strings.Repeat("_\r\n", len(q)-2))
			default:
				b.WriteString("_\r\n")
			}
		}
		*inMulti = false
		c.Write([]byte(b.String()))
	case *inMulti:
		*queued = append(*queued, argv)
		c.Write([]byte("+QUEUED\r\n"))
	case name == "GET":
		c.Write([]byte("_\r\n"))
	default:
		return false
	}
	return true
}

func handshake(argv []string) bool {
	if len(argv) == 0 {
		return false
	}
	switch strings.ToUpper(argv[0]) {
	case "HELLO", "PING", "CLUSTER", "READONLY":
		return true
	case "CLIENT":
		return len(argv) > 1 && strings.ToUpper(argv[1]) != "CACHING"
	}
	return false
}

func (s *server) frames() [][]string {
	s.mu.Lock()
	defer s.mu.Unlock()
	var out [][]string
	for _, f := range s.all {
		if !handshake(f) {
			out = append(out, f)
		}
	}
	return out
}

func block(cmd ...[]string) [][]string {
	out := [][]string{{"CLIENT", "CACHING", "YES"}, {"MULTI"}}
	out = append(out, cmd...)
	return append(out, []string{"EXEC"})
}

func runCached(c Case) (res obs.Result) {
	res.Kind = "cached-" + c.Op + "-" + c.Mode
	res.Site, res.Class = "pipe.go:DoCache/doCacheMGet/DoMultiCache", "wire-argv"
	res.Sig = fmt.Sprint("cached", c.Op, c.Mode, c.View, c.Pinned, len(c.Keys))
	if len(c.Keys) == 0 {
		res.Oracle, res.Class = "bad case description", "harness"
		return
	}
	srv := &server{resp3: true, gate: make(chan struct{}), entered: make(chan struct{}, 1), behave: func(int, int) string { return "ok" }}
	cl, err := rueidis.NewClient(rueidis.ClientOption{
		InitAddress: []string{"fake:6379"}, DialCtxFn: srv.dial, ForceSingleClient: true, AlwaysPipelining: true, PipelineMultiplex: -1,
		DisableRetry: true, ClientSetInfo: rueidis.DisableClientSetInfo,
	})
	if err != nil {
		res.Oracle, res.Class = "cannot create the caching client over the in-process server: "+err.Error(), "harness"
		return
	}
	released := false
	defer func() {
		if !released {
			srv.armed.Store(false)
			close(srv.gate)
		}
		cl.Close()
	}()

	// the call under test, and the frames the client has to put on the wire for it
	var userCmds []rueidis.Cacheable
	pin := func(x rueidis.Cacheable) rueidis.Cacheable {
		if c.Pinned {
			return x.Pin()
		}
		return x
	}
	var want [][]string
	var internalIdx []int // positions (within want) of the commands the pipe builds itself from the pool
	var call func(ctx context.Context) error
	switch c.Op {
	case "get":
		cmd := pin(cl.B().Get().Key(c.Keys[0]).Cache())
		userCmds = append(userCmds, cmd)
		want = block([]string{"PTTL", c.Keys[0]}, []string{"GET", c.Keys[0]})
		call = func(ctx context.Context) error { return cl.DoCache(ctx, cmd, time.Minute).NonRedisError() }
	case "mget", "jsonmget":
		var cmd rueidis.Cacheable
		var inner [][]string
		for i, k := range c.Keys {
			inner = append(inner, []string{"PTTL", k})
			internalIdx = append(internalIdx, 2+i)
		}
		if c.Op == "mget" {
			cmd = pin(cl.B().Mget().Key(c.Keys...).Cache())
			inner = append(inner, append([]string{"MGET"}, c.Keys...))
		} else {
			cmd = pin(cl.B().JsonMget().Key(c.Keys...).Path("$.a").Cache())
			inner = append(inner, append(append([]string{"JSON.MGET"}, c.Keys...), "$.a"))
		}
		internalIdx = append(internalIdx, 2+len(c.Keys))
		userCmds = append(userCmds, cmd)
		want = block(inner...)
		call = func(ctx context.Context) error { return cl.DoCache(ctx, cmd, time.Minute).NonRedisError() }
	case "multicache":
		var cts []rueidis.CacheableTTL
		for _, k := range c.Keys {
			cmd := pin(cl.B().Get().Key(k).Cache())
			userCmds = append(userCmds, cmd)
			cts = append(cts, rueidis.CT(cmd, time.Minute))
			want = append(want, block([]string{"PTTL", k}, []string{"GET", k})...)
		}
		call = func(ctx context.Context) error {
			for _, r := range cl.DoMultiCache(ctx, cts...) {
				if e := r.NonRedisError(); e != nil {
					return e
				}
			}
			return nil
		}
	case "mgetcache":
		for _, k := range c.Keys {
			want = append(want, block([]string{"PTTL", k}, []string{"GET", k})...)
		}
		call = func(ctx context.Context) error {
			_, e := rueidis.MGetCache(cl, ctx, time.Minute, c.Keys)
			return e
		}
	default:
		res.Oracle, res.Class = "bad case description", "harness"
		return
	}

	prefix := 0
	ctx := context.Background()
	var cancel context.CancelFunc = func() {}
	first := make(chan error, 1)
	if c.Mode != "ok" {
		// park the writer inside conn.Write with an earlier command
		srv.armed.Store(true)
		go func() { first <- cl.Do(context.Background(), cl.B().Get().Key("a").Build()).NonRedisError() }()
		select {
		case <-srv.entered:
		case <-time.After(3 * time.Second):
			res.Kind = "cached-skip"
			res.Obs = "the writer never reached conn.Write"
			return
		}
		prefix = 1
		if c.Mode == "timeout" {
			ctx, cancel = context.WithTimeout(ctx, 25*time.Millisecond)
		} else {
			ctx, cancel = context.WithCancel(ctx)
			go func(cf context.CancelFunc) { time.Sleep(25 * time.Millisecond); cf() }(cancel)
		}
	}
	callErr := call(ctx)
	cancel()
	userRecycled := false
	for _, u := range userCmds {
		if _, l, _ := rueidis.VerifBldCacheableCS(u); l == -1 {
			userRecycled = true
		}
	}
	if c.Mode != "ok" {
		// the application goes on building unrelated commands from the same pool
		b := cl.B()
		for i := 0; i < 12; i++ {
			_ = b.Set().Key("unrelated").Value("secret").Build()
			_ = b.Arbitrary("LEAK", "from", "the", "pool", "of", "another", "caller").Build()
		}
		srv.armed.Store(false)
		close(srv.gate)
		released = true
		select {
		case <-first:
		case <-time.After(3 * time.Second):
		}
	}
	// wait until the server has seen everything it is going to see
	deadline := time.Now().Add(1500 * time.Millisecond)
	for time.Now().Before(deadline) && len(srv.frames()) < prefix+len(want) {
		time.Sleep(2 * time.Millisecond)
	}
	time.Sleep(20 * time.Millisecond)
	got := srv.frames()
	res.Obs = map[string]any{"error": fmt.Sprint(callErr), "user_recycled": userRecycled, "frames": len(got)}
	res.Nontrivial = true

	// ---- direct oracle: frame by frame
	corruptedInternal := false
	if prefix == 1 && (len(got) == 0 || !reflect.DeepEqual(got[0], []string{"GET", "a"})) {
		res.Oracle = fmt.Sprintf("the first frame on the wire is %q, the client built [GET a]", first1(got))
	}
	rest := got
	if len(rest) >= prefix {
		rest = rest[prefix:]
	}
	for i, f := range rest {
		if i >= len(want) {
			if res.Oracle == "" {
				res.Oracle = fmt.Sprintf("the server received an extra frame %q after the block built for this call", f)
			}
			break
		}
		if !reflect.DeepEqual(f, want[i]) && !(len(f) == 0 && len(want[i]) == 0) {
			for _, j := range internalIdx {
				if i == j {
					corruptedInternal = true
				}
			}
			if res.Oracle == "" {
				res.Oracle = fmt.Sprintf("frame #%d of the block on the wire is %q; the client built %q for this call (whole block received: %q)", i, f, want[i], rest)
			}
		}
	}
	if c.Mode == "ok" && res.Oracle == "" {
		switch {
		case callErr != nil:
			res.Oracle, res.Class = "cached call failed against the in-process server: "+callErr.Error(), "harness"
		case len(rest) != len(want):
			res.Oracle = fmt.Sprintf("the server received %d frames for this call, the block has %d: %q", len(rest), len(want), rest)
		}
	}
	if userRecycled && c.Pinned && res.Oracle == "" {
		res.Oracle, res.Class = "a pinned command was recycled", "early-recycle"
	}
	if userRecycled && c.Mode != "ok" && callErr != nil && res.Oracle == "" {
		res.Oracle, res.Class = "the caller's command was recycled although the call was abandoned while queued", "early-recycle"
	}

	// ---- model view
	ev := "[EvAttempt OutReply]"
	if c.Mode != "ok" && callErr != nil {
		ev = "[EvAttempt OutAbandoned]"
	}
	switch {
	case c.View == "internal":
		// a recycled internal command shows as a frame that is not the one built (cleared or re-used slice)
		res.Coq = obs.App("CLife", "KPipeInternal", "false", ev, obs.Bool(corruptedInternal))
	case len(userCmds) > 0:
		res.Coq = obs.App("CLife", "KSingle", obs.Bool(c.Pinned), ev, obs.Bool(userRecycled))
	}
	return
}

func first1(fs [][]string) []string {
	if len(fs) == 0 {
		return nil
	}
	return fs[0]
}
