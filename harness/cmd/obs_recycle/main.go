// obs_recycle: C33, ownership half — runs a real single client (ForceSingleClient, one pipe over net.Pipe) against an
// in-process RESP server that replies, answers with an error reply, drops the connection, never answers, or does not
// even read, with and without retry, cancelling the caller at chosen moments, and reads back whether the client has
// returned the command's pooled slice (cs.l == -1 after Put).  The direct oracle is on the wire: a command the
// server had not completely received when the call returned must not have been recycled, and whatever the server
// receives later for an abandoned command must be exactly the argv the caller built.
package main

import (
	"bufio"
	"context"
	"crypto/tls"
	"encoding/json"
	"fmt"
	"io"
	"net"
	"os"
	"os/exec"
	"strconv"
	"strings"
	"sync"
	"sync/atomic"
	"time"

	"github.com/redis/rueidis"

	"verifharness/gen"
	"verifharness/obs"
)

type Case struct {
	Scenario string `json:"scenario"` // ok | err | drop | drop-retry | loading-retry | stall | slowread | precancel
	Pinned   bool   `json:"pinned"`
	Multi    bool   `json:"multi"` // through DoMulti (two commands) instead of Do
	Write    bool   `json:"write"` // SET (not retryable) instead of GET
	Val      string `json:"val"`
	// cached paths (scenario "cached"): see cached.go
	Op   string   `json:"op,omitempty"`   // get | mget | jsonmget | multicache | mgetcache
	Mode string   `json:"mode,omitempty"` // ok | cancel | timeout  (cancel/timeout: abandoned while queued behind a stalled write)
	View string   `json:"view,omitempty"` // user | internal: which command's life is reported to the model
	Keys []string `json:"keys,omitempty"`
}

var scenarios = []string{"ok", "err", "drop", "drop-retry", "loading-retry", "stall", "slowread", "precancel"}

func genCase(r *gen.Rand, i int) any {
	total := len(scenarios) + len(cachedCombos) + len(clusterCombos)
	if k := i % total; k >= len(scenarios)+len(cachedCombos) {
		return genCluster(r, k-len(scenarios)-len(cachedCombos))
	} else if k >= len(scenarios) {
		return genCached(r, k-len(scenarios))
	}
	i = i % total
	return Case{Scenario: scenarios[i%len(scenarios)], Pinned: r.Chance(1, 4), Multi: r.Chance(1, 3), Write: r.Chance(1, 3),
		Val: string(r.Bytes(r.Range(1, 40)))}
}

func decode(raw json.RawMessage) (any, error) {
	var c Case
	err := json.Unmarshal(raw, &c)
	return c, err
}

// ---------------------------------------------------------------- minimal RESP server

type server struct {
	mu               sync.Mutex
	received         [][]string                     // complete test commands received (first token GET/SET)
	behave           func(conn int, nth int) string // for the nth test command on connection conn: ok | err | drop | loading | stall
	conns            int
	blockWritesUntil time.Time      // the client's writes do not get through before this instant
	resp3            bool           // answer HELLO 3 (client-side caching needs RESP3)
	cluster          bool           // a one-node cluster owning every slot (CLUSTER SLOTS), HELLO without a version
	execs            map[string]int // INCR executions per key
	all              [][]string     // every frame received, in order (one connection in the cached scenarios)
	armed            atomic.Bool
	gate             chan struct{} // closed to release the writes held while armed
	entered          chan struct{} // signalled when a write is being held
}

func readCmd(br *bufio.Reader) ([]string, error) {
	line, err := br.ReadString('\n')
	if err != nil {
		return nil, err
	}
	if len(line) < 3 || line[0] != '*' {
		return nil, fmt.Errorf("bad frame %q", line)
	}
	n, err := strconv.Atoi(strings.TrimSpace(line[1:]))
	if err != nil {
		return nil, err
	}
	out := make([]string, 0, max(n, 0))
	for i := 0; i < n; i++ {
		l, err := br.ReadString('\n')
		if err != nil {
			return nil, err
		}
		if len(l) < 3 || l[0] != '$' {
			return nil, fmt.Errorf("bad bulk %q", l)
		}
		sz, err := strconv.Atoi(strings.TrimSpace(l[1:]))
		if err != nil {
			return nil, err
		}
		buf := make([]byte, sz+2)
		if _, err := io.ReadFull(br, buf); err != nil {
			return nil, err
		}
		out = append(out, string(buf[:sz]))
	}
	return out, nil
}

func (s *server) serve(c net.Conn, id int) {
	defer c.Close()
	br := bufio.NewReader(c)
	nth := 0
	inMulti := false
	var queued [][]string
	for {
		argv, err := readCmd(br)
		if err != nil {
			return
		}
		s.mu.Lock()
		s.all = append(s.all, argv)
		s.mu.Unlock()
		if len(argv) == 0 {
			c.Write([]byte("-ERR empty command\r\n"))
			continue
		}
		name := strings.ToUpper(argv[0])
		if s.resp3 {
			if s.serve3(c, name, argv, &inMulti, &queued) {
				continue
			}
		}
		switch name {
		case "GET", "SET":
			s.mu.Lock()
			s.received = append(s.received, argv)
			s.mu.Unlock()
			b := s.behave(id, nth)
			nth++
			switch b {
			case "ok":
				c.Write([]byte("+OK\r\n"))
			case "err":
				c.Write([]byte("-ERR boom\r\n"))
			case "loading":
				c.Write([]byte("-LOADING Redis is loading the dataset in memory\r\n"))
			case "drop":
				return
			case "stall":
				// keep reading (so that later commands are received) but never answer this one
			}
		case "HELLO":
			c.Write([]byte("-ERR unknown command 'HELLO'\r\n"))
		case "PING":
			c.Write([]byte("+PONG\r\n"))
		case "QUIT":
			c.Write([]byte("+OK\r\n"))
			return
		default:
			c.Write([]byte("+OK\r\n"))
		}
	}
}

// slowConn: the client's side of the connection; Write blocks while the "send buffer is full"
type slowConn struct {
	net.Conn
	s *server
}

func (c slowConn) Write(b []byte) (int, error) {
	if c.s.armed.Load() {
		select {
		case c.s.entered <- struct{}{}:
		default:
		}
		<-c.s.gate
	}
	for {
		c.s.mu.Lock()
		until := c.s.blockWritesUntil
		c.s.mu.Unlock()
		if !time.Now().Before(until) {
			break
		}
		time.Sleep(time.Millisecond)
	}
	return c.Conn.Write(b)
}

func (s *server) dial(ctx context.Context, _ string, _ *net.Dialer, _ *tls.Config) (net.Conn, error) {
	a, b := net.Pipe()
	s.mu.Lock()
	id := s.conns
	s.conns++
	s.mu.Unlock()
	go s.serve(b, id)
	return slowConn{Conn: a, s: s}, nil
}

func (s *server) got() [][]string {
	s.mu.Lock()
	defer s.mu.Unlock()
	return append([][]string(nil), s.received...)
}

// ---------------------------------------------------------------- run

func run(ci any) (res obs.Result) {
	c := ci.(Case)
	if c.Scenario == "cached" || c.Scenario == "cluster" {
		if os.Getenv("OBS_RECYCLE_CHILD") == "" {
			return runInChild(c)
		}
		if c.Scenario == "cached" {
			return runCached(c)
		}
		return runCluster(c)
	}
	res.Kind = c.Scenario
	res.Site, res.Class = "client.go:Do/DoMulti", "early-recycle"
	srv := &server{}
	retry := false
	var events string
	switch c.Scenario {
	case "ok":
		srv.behave = func(int, int) string { return "ok" }
		events = "[EvAttempt OutReply]"
	case "err":
		srv.behave = func(int, int) string { return "err" }
		events = "[EvAttempt OutReply]"
	case "drop":
		srv.behave = func(int, int) string { return "drop" }
		events = "[EvAttempt OutTransportError]"
	case "drop-retry":
		retry = true
		// the connection that sees the test command first is dropped (the client may spread commands over several
		// connections, so this is counted per command, not per connection); later attempts are answered
		dropped := false
		var dmu sync.Mutex
		srv.behave = func(conn, nth int) string {
			dmu.Lock()
			defer dmu.Unlock()
			if !dropped {
				dropped = true
				return "drop"
			}
			return "ok"
		}
		events = "[EvAttemptAgain OutTransportError; EvAttempt OutReply]"
		if c.Write { // SET is not retryable: the first error is final
			events = "[EvAttempt OutTransportError]"
		}
	case "loading-retry":
		retry = true
		first := true
		var mu sync.Mutex
		srv.behave = func(conn, nth int) string {
			mu.Lock()
			defer mu.Unlock()
			if first {
				first = false
				return "loading"
			}
			return "ok"
		}
		events = "[EvAttemptAgain OutReply; EvAttempt OutReply]"
		if c.Write {
			events = "[EvAttempt OutReply]"
		}
	case "stall":
		srv.behave = func(int, int) string { return "stall" }
		events = "[EvAttempt OutAbandoned]"
	case "slowread":
		// the client's writes are held back for 150 ms: the command sits in the pipe's queue / in the blocked Write of the
		// background writer when the caller gives up after 25 ms, and is received (and answered) only later
		srv.behave = func(int, int) string { return "ok" }
		events = "[EvAttempt OutAbandoned]"
	case "precancel":
		srv.behave = func(int, int) string { return "ok" }
		events = "[EvAttempt OutCtxBeforeQueue]"
	}
	opt := rueidis.ClientOption{
		InitAddress: []string{"fake:6379"}, DialCtxFn: srv.dial, ForceSingleClient: true, AlwaysRESP2: true, DisableCache: true,
		DisableRetry: !retry, ClientSetInfo: rueidis.DisableClientSetInfo, DisableAutoPipelining: false,
		ConnWriteTimeout: 2 * time.Second,
		RetryDelay:       func(int, rueidis.Completed, error) time.Duration { return time.Millisecond },
	}
	cl, err := rueidis.NewClient(opt)
	if err != nil {
		res.Oracle = "cannot create the client over the in-process server: " + err.Error()
		res.Class = "harness"
		return
	}
	defer cl.Close()
	build := func() rueidis.Completed {
		var cmd rueidis.Completed
		if c.Write {
			cmd = cl.B().Set().Key("k").Value(c.Val).Build()
		} else {
			cmd = cl.B().Get().Key("k" + c.Val).Build()
		}
		if c.Pinned {
			cmd = cmd.Pin()
		}
		return cmd
	}
	cmdsUnderTest := []rueidis.Completed{build()}
	if c.Multi {
		cmdsUnderTest = append(cmdsUnderTest, build())
	}
	want := make([][]string, len(cmdsUnderTest))
	for i, cmd := range cmdsUnderTest {
		want[i] = append([]string(nil), cmd.Commands()...)
	}
	ctx, cancel := context.WithCancel(context.Background())
	defer cancel()
	switch c.Scenario {
	case "precancel":
		cancel()
	case "stall":
		go func() { time.Sleep(12 * time.Millisecond); cancel() }()
	case "slowread":
		srv.mu.Lock()
		srv.blockWritesUntil = time.Now().Add(70 * time.Millisecond)
		srv.mu.Unlock()
		go func() { time.Sleep(12 * time.Millisecond); cancel() }()
	}
	before := len(srv.got())
	var errs []string
	if c.Multi {
		for _, r := range cl.DoMulti(ctx, cmdsUnderTest...) {
			errs = append(errs, fmt.Sprint(r.Error()))
		}
	} else {
		errs = append(errs, fmt.Sprint(cl.Do(ctx, cmdsUnderTest[0]).Error()))
	}
	receivedAtReturn := len(srv.got()) - before
	// slice state right after the call returned
	recycledAll, recycledAny := true, false
	for _, cmd := range cmdsUnderTest {
		_, l, _ := rueidis.VerifBldCompletedCS(cmd)
		if l == -1 {
			recycledAny = true
		} else {
			recycledAll = false
		}
	}
	res.Obs = map[string]any{"errors": errs, "recycled": recycledAny, "received_at_return": receivedAtReturn}
	if recycledAny != recycledAll {
		res.Oracle = "the commands of one batch with identical outcomes were treated differently"
		return
	}
	res.Coq = obs.App("CLife", "KSingle", obs.Bool(c.Pinned), events, obs.Bool(recycledAny))
	res.Sig = fmt.Sprint(c.Scenario, c.Pinned, c.Multi, c.Write)
	res.Nontrivial = true
	// ---- direct oracle
	if recycledAny && c.Pinned {
		res.Oracle = "a pinned command was recycled"
		return
	}
	if recycledAny && receivedAtReturn < len(cmdsUnderTest) && c.Scenario != "drop-retry" && c.Scenario != "loading-retry" {
		res.Oracle = fmt.Sprintf("recycled although the server had received only %d of %d commands when the call returned", receivedAtReturn, len(cmdsUnderTest))
		return
	}
	// whatever reaches the server, also after the caller has gone, is the argv that was built
	if c.Scenario == "stall" || c.Scenario == "slowread" {
		time.Sleep(110 * time.Millisecond)
	}
	for _, got := range srv.got()[before:] {
		ok := false
		for _, w := range want {
			if strings.Join(got, "\x00") == strings.Join(w, "\x00") {
				ok = true
			}
		}
		if !ok {
			res.Oracle = fmt.Sprintf("the server received %q, the caller built %q", got, want[0])
			res.Class = "wire-argv"
			return
		}
	}
	return
}

// runInChild runs one case in a child process (this binary with -replay): a use-after-recycle can crash the client's
// background goroutines (nil command in the writer), which no recover() in this process could catch; the crash is then
// reported as an oracle failure of exactly this case.
func runInChild(c Case) (res obs.Result) {
	res.Kind = c.Scenario + "-" + c.Op + "-" + c.Mode
	res.Site, res.Class = "pipe.go/cluster.go:background writer", "crash"
	res.Sig = fmt.Sprint(c.Scenario, c.Op, c.Mode, c.View, c.Pinned, len(c.Keys))
	raw, _ := json.Marshal(map[string]any{"desc": c})
	f, err := os.CreateTemp("", "obs_recycle_case_*.json")
	if err != nil {
		res.Oracle, res.Class = "cannot write the case file: "+err.Error(), "harness"
		return
	}
	defer os.Remove(f.Name())
	f.Write(raw)
	f.Close()
	cmd := exec.Command(os.Args[0], "-replay", f.Name())
	cmd.Env = append(os.Environ(), "OBS_RECYCLE_CHILD=1")
	var stderr strings.Builder
	cmd.Stderr = &stderr
	out, runErr := cmd.Output()
	for _, line := range strings.Split(string(out), "\n") {
		var rec struct {
			K string `json:"k"`
			obs.Result
		}
		if json.Unmarshal([]byte(line), &rec) == nil && rec.K == "case" {
			return rec.Result
		}
	}
	tail := stderr.String()
	if i := strings.Index(tail, "goroutine "); i > 0 {
		tail = tail[:i]
	}
	if len(tail) > 400 {
		tail = tail[:400]
	}
	res.Nontrivial = true
	res.Oracle = fmt.Sprintf("the client crashed while serving this case (%v): %s", runErr, strings.TrimSpace(tail))
	return
}

func main() {
	obs.Main(obs.Runner{Name: "obs_recycle", Salt: 3302, Gen: genCase, Decode: decode, Run: run})
}
