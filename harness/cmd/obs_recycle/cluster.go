package main

// Cluster-client scenarios of C33's ownership half: clusterClient.Do, DoMulti and DoMultiCache over a one-node
// cluster (the in-process server answers CLUSTER SLOTS), one pipelining connection.  In the abandoned modes the
// writer goroutine is parked inside conn.Write with an earlier command, the batch is queued behind it and given up by
// its caller (cancel / deadline), then a FRESH batch is issued (it is built from the same pools: commands, the
// cluster client's *retry batch buffers, results), then the gate opens.  Oracle, on the wire: every command the
// server receives is exactly one the client built for a call, at most once; a non-retryable write (INCR) of one call is
// executed at most once; the fresh batch gets its own replies.

import (
	"context"
	"fmt"
	"runtime"
	"strings"
	"time"

	"github.com/redis/rueidis"

	"verifharness/gen"
	"verifharness/obs"
)

var clusterCombos = func() []combo {
	var out []combo
	for _, op := range []string{"do", "domulti", "domulticache"} {
		for _, mode := range []string{"ok", "cancel", "timeout"} {
			out = append(out, combo{op, mode, "user"})
			if op == "domulti" && mode != "ok" {
				out = append(out, combo{op, mode, "buffer"})
			}
		}
	}
	return out
}()

func genCluster(r *gen.Rand, k int) Case {
	cb := clusterCombos[k%len(clusterCombos)]
	c := Case{Scenario: "cluster", Op: cb.op, Mode: cb.mode, View: cb.view, Pinned: cb.view == "user" && r.Chance(1, 6)}
	n := 1
	if cb.op != "do" {
		n = r.Range(2, 4)
	}
	tag := string(noCRLF(r.Bytes(r.Range(1, 3))))
	for i := 0; i < n; i++ {
		c.Keys = append(c.Keys, fmt.Sprintf("a%d-%s", i, tag))
	}
	return c
}

func runCluster(c Case) (res obs.Result) {
	res.Kind = "cluster-" + c.Op + "-" + c.Mode
	res.Site, res.Class = "cluster.go:Do/DoMulti/DoMultiCache", "wire-argv"
	res.Sig = fmt.Sprint("cluster", c.Op, c.Mode, c.View, c.Pinned, len(c.Keys))
	if len(c.Keys) == 0 {
		res.Oracle, res.Class = "bad case description", "harness"
		return
	}
	// one P: the sync.Pools hand a recycled buffer straight back to the next caller, as they do on a busy client
	defer runtime.GOMAXPROCS(runtime.GOMAXPROCS(1))
	srv := &server{resp3: true, cluster: true, gate: make(chan struct{}), entered: make(chan struct{}, 1), behave: func(int, int) string { return "ok" }}
	cl, err := rueidis.NewClient(rueidis.ClientOption{
		InitAddress: []string{"127.0.0.1:7001"}, DialCtxFn: srv.dial, AlwaysPipelining: true, DisableRetry: true,
		DisableCache: c.Op != "domulticache", ClientSetInfo: rueidis.DisableClientSetInfo,
	})
	if err != nil {
		res.Oracle, res.Class = "cannot create the cluster client over the in-process server: "+err.Error(), "harness"
		return
	}
	released := false
	defer func() {
		if !released {
			srv.armed.Store(false)
			close(srv.gate)
		}
		cl.Close()
	}()
	if cl.Mode() != rueidis.ClientModeCluster {
		res.Oracle, res.Class = "the client did not come up in cluster mode", "harness"
		return
	}
	ctxBg := context.Background()
	if e := cl.Do(ctxBg, cl.B().Incr().Key("warmup").Build()).Error(); e != nil {
		res.Oracle, res.Class = "warm-up failed: "+e.Error(), "harness"
		return
	}

	// the calls: A (under test, possibly abandoned) and B (a fresh one issued afterwards)
	bKeys := make([]string, len(c.Keys))
	for i, k := range c.Keys {
		bKeys[i] = "b" + k[1:]
	}
	allowed := map[string]int{} // frame -> how many live calls built it
	key := func(f []string) string { return strings.Join(f, "\x00") }
	var userCmds []rueidis.Completed
	var userCache []rueidis.Cacheable
	mk := func(keys []string, record bool) func(ctx context.Context) []error {
		switch c.Op {
		case "do":
			cmd := cl.B().Incr().Key(keys[0]).Build()
			if record {
				if c.Pinned {
					cmd = cmd.Pin()
				}
				userCmds = append(userCmds, cmd)
			}
			allowed[key([]string{"INCR", keys[0]})]++
			return func(ctx context.Context) []error { return []error{cl.Do(ctx, cmd).Error()} }
		case "domulti":
			var batch []rueidis.Completed
			for _, k := range keys {
				cmd := cl.B().Incr().Key(k).Build()
				if record && c.Pinned {
					cmd = cmd.Pin()
				}
				batch = append(batch, cmd)
				allowed[key([]string{"INCR", k})]++
			}
			if record {
				userCmds = batch
			}
			return func(ctx context.Context) []error {
				var es []error
				for _, r := range cl.DoMulti(ctx, batch...) {
					es = append(es, r.Error())
				}
				return es
			}
		default: // domulticache
			var cts []rueidis.CacheableTTL
			for _, k := range keys {
				cmd := cl.B().Get().Key(k).Cache()
				if record && c.Pinned {
					cmd = cmd.Pin()
				}
				if record {
					userCache = append(userCache, cmd)
				}
				cts = append(cts, rueidis.CT(cmd, time.Minute))
				for _, f := range block([]string{"PTTL", k}, []string{"GET", k}) {
					allowed[key(f)]++
				}
			}
			return func(ctx context.Context) []error {
				var es []error
				for _, r := range cl.DoMultiCache(ctx, cts...) {
					es = append(es, r.NonRedisError())
				}
				return es
			}
		}
	}
	callA := mk(c.Keys, true)
	before := len(srv.frames())

	ctx := ctxBg
	var cancel context.CancelFunc = func() {}
	first := make(chan error, 1)
	if c.Mode != "ok" {
		srv.armed.Store(true)
		allowed[key([]string{"GET", "xxxxxxxxxxxxxxxx"})]++
		go func() { first <- cl.Do(ctxBg, cl.B().Get().Key("xxxxxxxxxxxxxxxx").Build()).NonRedisError() }()
		select {
		case <-srv.entered:
		case <-time.After(3 * time.Second):
			res.Kind = "cluster-skip"
			res.Obs = "the writer never reached conn.Write"
			return
		}
		if c.Mode == "timeout" {
			ctx, cancel = context.WithTimeout(ctx, 25*time.Millisecond)
		} else {
			ctx, cancel = context.WithCancel(ctx)
			go func(cf context.CancelFunc) { time.Sleep(25 * time.Millisecond); cf() }(cancel)
		}
	}
	errsA := callA(ctx)
	cancel()
	abandoned := false
	for _, e := range errsA {
		if e != nil {
			abandoned = true
		}
	}
	userRecycled := false
	for _, u := range userCmds {
		if _, l, _ := rueidis.VerifBldCompletedCS(u); l == -1 {
			userRecycled = true
		}
	}
	for _, u := range userCache {
		if _, l, _ := rueidis.VerifBldCacheableCS(u); l == -1 {
			userRecycled = true
		}
	}
	// a fresh call of the same kind, built from the same pools; it completes once the gate is open
	callB := mk(bKeys, false)
	doneB := make(chan []error, 1)
	go func() {
		cb, cf := context.WithTimeout(ctxBg, 5*time.Second)
		defer cf()
		doneB <- callB(cb)
	}()
	if c.Mode != "ok" {
		time.Sleep(30 * time.Millisecond) // B is queued (its batch buffer filled) behind the parked write
		srv.armed.Store(false)
		close(srv.gate)
		released = true
		select {
		case <-first:
		case <-time.After(3 * time.Second):
		}
	}
	var errsB []error
	select {
	case errsB = <-doneB:
	case <-time.After(6 * time.Second):
		res.Oracle = "the fresh call issued after the abandoned one never completed"
	}
	time.Sleep(30 * time.Millisecond)
	got := srv.frames()[before:]
	res.Obs = map[string]any{"errorsA": fmt.Sprint(errsA), "errorsB": fmt.Sprint(errsB), "user_recycled": userRecycled, "frames": len(got)}
	res.Nontrivial = true

	// ---- direct oracle
	dup := false
	seen := map[string]int{}
	for _, f := range got {
		k := key(f)
		seen[k]++
		if res.Oracle != "" {
			continue
		}
		switch {
		case allowed[k] == 0:
			res.Oracle = fmt.Sprintf("the server received %q, which no live call built (frames of this case: %q)", f, got)
		case seen[k] > allowed[k]:
			dup = true
			res.Oracle = fmt.Sprintf("the server received %q %d times, it was built %d time(s) (frames of this case: %q)", f, seen[k], allowed[k], got)
		}
	}
	srv.mu.Lock()
	for k, n := range srv.execs {
		if n > 1 && k != "warmup" {
			dup = true
			if res.Oracle == "" || !strings.Contains(res.Oracle, "executed") {
				res.Oracle = fmt.Sprintf("INCR %s was executed %d times by the server for a single call (frames: %q)", k, n, got)
				res.Class = "double-execution"
			}
		}
	}
	srv.mu.Unlock()
	if res.Oracle == "" {
		for i, e := range errsB {
			if e != nil && !rueidis.IsRedisNil(e) {
				res.Oracle = fmt.Sprintf("the fresh call after the abandoned one failed: member %d: %v", i, e)
			}
		}
		for _, k := range bKeys {
			if c.Op != "domulticache" && seen[key([]string{"INCR", k})] != 1 {
				res.Oracle = fmt.Sprintf("INCR %s of the fresh call reached the server %d times", k, seen[key([]string{"INCR", k})])
			}
		}
	}
	if userRecycled && c.Pinned && res.Oracle == "" {
		res.Oracle, res.Class = "a pinned command was recycled", "early-recycle"
	}
	if userRecycled && abandoned && res.Oracle == "" {
		res.Oracle, res.Class = "the caller's command was recycled although the call was abandoned while queued", "early-recycle"
	}

	// ---- model view
	switch {
	case c.View == "buffer":
		// the batch buffer of an abandoned DoMulti: recycled shows as the next batch's commands sent twice
		members := make([]string, len(c.Keys))
		for i := range members {
			if abandoned {
				members[i] = "OutAbandoned"
			} else {
				members[i] = "OutReply"
			}
		}
		if abandoned {
			res.Coq = obs.App("CBatch", obs.List(members), obs.Bool(dup))
		}
	default:
		ev := "[EvAttempt OutReply]"
		if abandoned {
			ev = "[EvAttempt OutAbandoned]"
		}
		res.Coq = obs.App("CLife", "KCluster", obs.Bool(c.Pinned), ev, obs.Bool(userRecycled))
	}
	return
}
