// obs_lru: C10 / C07 / C06 / C09 at the level of the built-in cache store (lru.go).
//
// Drives the real lru (through the CacheStore interface and the add-only exports of
// zz_verif_lru.go) with generated histories and, after every operation, reads the returned values,
// the accounted size and the list order.  Each case prints a Gallina term of Lru.case; the direct
// oracles below are evaluated on the implementation's own observations, independent of the model.
package main

import (
	"encoding/json"
	"errors"
	"flag"
	"fmt"
	"sort"
	"strings"
	"time"

	"github.com/redis/rueidis"

	"verifharness/gen"
	lruh "verifharness/lru"
	"verifharness/obs"
)

type Item struct {
	K   string `json:"k"`
	C   string `json:"c"`
	TTL int64  `json:"ttl"`
}

type Op struct {
	Op    string  `json:"op"` // flight flights update cancel delete flush close getttl rep report approx expire
	K     string  `json:"k,omitempty"`
	C     string  `json:"c,omitempty"`
	TTL   int64   `json:"ttl,omitempty"` // ns
	Now   int64   `json:"now,omitempty"` // ns
	Items []Item  `json:"items,omitempty"`
	Msg   *lruh.M `json:"msg,omitempty"`
	Keys  []string `json:"keys,omitempty"`
	Err   int     `json:"err,omitempty"`
	N     int     `json:"n,omitempty"`
	Gap   []Op    `json:"gap,omitempty"`  // run at the first lock-free point the call reaches
	Gap2  []Op    `json:"gap2,omitempty"` // flights: run before the second pass
}

type Case struct {
	Kind string `json:"kind"`
	Max  int    `json:"max"`
	Ops  []Op   `json:"ops"`
	// pure cases
	Msg *lruh.M `json:"msg,omitempty"`
	X   int64   `json:"x,omitempty"`
}

var propFlag = flag.String("prop", "", "only report oracle failures of this property (C06|C07|C09|C10); empty = all")

var classProp = map[string]string{
	"size-exceeds-max": "C10", "size-accounting": "C10", "evict-order": "C10", "pending-evicted": "C10",
	"expiry-min-rule": "C07", "hit-after-expiry": "C07", "report": "C07", "expiry-encoding": "C07",
	"stale-hit": "C06", "retained-after-invalidation": "C06", "pending-lost-on-invalidation": "C06", "wrong-reply": "C06",
	"second-miss": "C09", "waiters": "C09", "cached-after-cancel": "C09", "wait-unknown-flight": "C09",
	"harness": "",
}

const two56 = int64(1) << 56

func trunc56(x int64) int64 { return x & (two56 - 1) }
func floorDiv(a, b int64) int64 {
	q := a / b
	if (a%b != 0) && ((a < 0) != (b < 0)) {
		q--
	}
	return q
}
func unixMilli(ns int64) int64 { return floorDiv(ns, 1000000) }
func at(ns int64) time.Time   { return time.Unix(0, ns) }

// ---------------------------------------------------------------------------------------------
// generator

const t0ns = lruh.T0ns // 2040-01-01, so that GetTTL / CachePTTL (which read time.Now()) see live entries

var keyPool = []string{"a", "b", "k1", "k2", "key", "a1"}
var cmdPool = []string{"GET", "HGETf", "GETRANGE03", "TTL"}

func genCase(r *gen.Rand, i int) any {
	r = lruh.Reseed(r)
	switch r.Intn(40) {
	case 0:
		m := lruh.GenMsg(r, "v", r.Intn(300))
		if r.Chance(1, 2) {
			m = lruh.M{Typ: '*', Vals: []lruh.M{m, lruh.GenMsg(r, "w", r.Intn(100)), {Typ: '%', Vals: []lruh.M{lruh.GenMsg(r, "z", 10)}}}}
		}
		return &Case{Kind: "approx", Msg: &m}
	case 1:
		x := int64(r.U64())
		switch r.Intn(5) {
		case 0:
			x = int64(r.Intn(1000))
		case 1:
			x = -int64(r.Intn(1000))
		case 2:
			x = two56 + int64(r.Range(-2, 2))
		case 3:
			x = t0ns/1000000 + int64(r.Intn(100000))
		}
		return &Case{Kind: "expire", X: x}
	case 2:
		x := int64(0)
		switch r.Intn(4) {
		case 0:
			x = 0
		case 1:
			x = time.Now().UnixMilli() + int64(r.Range(-3000, 3000))
		case 2:
			x = time.Now().UnixMilli() + int64(r.Range(0, 5000000))
		default:
			x = int64(r.Range(1, 100000))
		}
		m := lruh.M{Typ: '$', Str: "r", Xat: x, Mark: true}
		return &Case{Kind: "report", Msg: &m}
	}
	min := rueidis.VerifLruEntryMinSize
	c := &Case{Kind: "hist"}
	switch r.Intn(6) {
	case 0:
		c.Max = min * r.Range(1, 3)
	case 1:
		c.Max = min*r.Range(4, 12) + r.Range(-3, 3)
	case 2:
		c.Max = r.Range(0, min)
	default:
		c.Max = min * r.Range(3, 10)
	}
	nk := r.Range(1, len(keyPool))
	nc := r.Range(1, len(cmdPool))
	g := &hgen{r: r, keys: keyPool[:nk], cmds: cmdPool[:nc], now: t0ns + int64(r.Intn(1000))*1000000 + int64(r.Intn(1000000)), max: c.Max,
		cx: map[[2]string]int64{}, done: map[[2]string]int64{}}
	if r.Chance(1, 8) {
		c.Kind = "hist-hits" // reach the 1024-hit MoveToBack threshold
	}
	if r.Chance(1, 6) {
		c.Kind = "hist-gap"
	}
	n := r.Range(8, 45)
	for j := 0; j < n; j++ {
		c.Ops = append(c.Ops, g.op(c.Kind, 0))
	}
	return c
}

type hgen struct {
	r       *gen.Rand
	keys    []string
	cmds    []string
	now     int64
	max     int
	out     [][2]string // flights we believe outstanding (heuristic only, for generating matching updates)
	tag     int
	cx      map[[2]string]int64 // expiry we expect a flight to carry / an entry to have (heuristic, for boundary lookups)
	done    map[[2]string]int64
}

func (g *hgen) tick() int64 {
	r := g.r
	switch r.Intn(10) {
	case 0:
		g.now -= int64(r.Intn(3000000)) // the clock of a descheduled caller
	case 1, 2:
		g.now += int64(r.Intn(200)) * 1000000
	case 3:
	default:
		g.now += int64(r.Intn(5000000))
	}
	return g.now
}

func (g *hgen) ttl() int64 {
	r := g.r
	switch r.Intn(10) {
	case 0:
		return 0
	case 1:
		return -int64(r.Intn(5)) * 1000000
	case 2:
		return int64(r.Intn(3000000)) // below / around one millisecond
	case 3:
		return int64(r.Range(1, 5)) * 1000000
	case 4:
		return int64(3600) * 1000000000
	default:
		return int64(r.Range(5, 300)) * 1000000
	}
}

func (g *hgen) kc() (string, string) { return gen.Pick(g.r, g.keys), gen.Pick(g.r, g.cmds) }

// a lookup exactly at / one unit around the expiry of an entry we believe completed
func (g *hgen) boundary(now int64) (Op, bool) {
	r := g.r
	if len(g.done) == 0 || !r.Chance(1, 9) {
		return Op{}, false
	}
	var kcs [][2]string
	for kc := range g.done {
		kcs = append(kcs, kc)
	}
	sort.Slice(kcs, func(i, j int) bool { return kcs[i][0]+"\x00"+kcs[i][1] < kcs[j][0]+"\x00"+kcs[j][1] })
	kc := gen.Pick(r, kcs)
	x := g.done[kc]
	if d := x - unixMilli(now); d < -20 || d > 1000 {
		return Op{}, false
	}
	at := x*1000000 + gen.Pick(r, []int64{-1, 0, 1, 500000, 999999, 1000000, -1000000})
	if at > g.now {
		g.now = at
	}
	delete(g.done, kc)
	if r.Chance(1, 3) { // the same boundary through both passes of Flights
		o := Op{Op: "flights", Now: at, Items: []Item{{K: kc[0], C: kc[1], TTL: g.ttl()}}}
		if r.Chance(1, 2) {
			k2, c2 := g.kc()
			o.Items = append(o.Items, Item{K: k2, C: c2, TTL: g.ttl()})
		}
		return o, true
	}
	return Op{Op: "flight", K: kc[0], C: kc[1], TTL: g.ttl(), Now: at}, true
}

func (g *hgen) noteFlight(k, c string, ttl, now int64) {
	kc := [2]string{k, c}
	if _, ok := g.cx[kc]; !ok {
		g.cx[kc] = (unixMilli(now+ttl)) & (two56 - 1)
	}
}

func (g *hgen) noteUpdate(k, c string, m *lruh.M) {
	kc := [2]string{k, c}
	if cx, ok := g.cx[kc]; ok {
		x := m.Xat
		if cx < x || x == 0 {
			x = cx
		}
		g.done[kc] = x
		delete(g.cx, kc)
	}
}

func (g *hgen) msg(now int64) *lruh.M {
	r := g.r
	min := rueidis.VerifLruEntryMinSize
	g.tag++
	target := 0
	switch r.Intn(4) {
	case 0:
	case 1:
		target = min * r.Range(1, 3)
	default:
		target = min*r.Range(1, 8) - rueidis.VerifLruEntryBaseSize + r.Range(-2, 2) // entry sizes from 1x to 8x the minimum
	}
	m := lruh.GenMsg(r, fmt.Sprintf("v%d", g.tag), target)
	nowms := unixMilli(now)
	switch r.Intn(8) {
	case 0, 1, 2: // no server expiry (PTTL -1 / -2 / static TTL)
	case 3:
		m.Xat = nowms + int64(r.Range(-3, 3)) // server expiry around now
	case 4:
		m.Xat = nowms + int64(r.Range(1, 50))
	case 5:
		m.Xat = nowms + int64(r.Range(50, 400))
	case 6:
		m.Xat = nowms + 7200000
	default:
		m.Xat = int64(r.Range(1, 3))
	}
	m.Mark = true
	return &m
}

func (g *hgen) op(kind string, depth int) Op {
	r := g.r
	now := g.tick()
	if o, ok := g.boundary(now); ok {
		return o
	}
	x := r.Intn(100)
	if kind == "hist-hits" && r.Chance(1, 5) {
		x = 99 // many-hit repetitions: the MoveToBack cadence of Flight and of Flights
	}
	switch {
	case x < 38:
		k, c := g.kc()
		o := Op{Op: "flight", K: k, C: c, TTL: g.ttl(), Now: now}
		g.noteFlight(k, c, o.TTL, now)
		g.out = append(g.out, [2]string{k, c})
		if depth == 0 && kind == "hist-gap" && r.Chance(1, 2) {
			for j := r.Range(1, 3); j > 0; j-- {
				o.Gap = append(o.Gap, g.gapop(k, c))
			}
		}
		return o
	case x < 62:
		var k, c string
		if len(g.out) > 0 && r.Chance(5, 6) {
			i := r.Intn(len(g.out))
			k, c = g.out[i][0], g.out[i][1]
			g.out = append(g.out[:i], g.out[i+1:]...)
		} else {
			k, c = g.kc()
		}
		m := g.msg(now)
		g.noteUpdate(k, c, m)
		return Op{Op: "update", K: k, C: c, Msg: m}
	case x < 68:
		var k, c string
		if len(g.out) > 0 && r.Chance(3, 4) {
			i := r.Intn(len(g.out))
			k, c = g.out[i][0], g.out[i][1]
			g.out = append(g.out[:i], g.out[i+1:]...)
		} else {
			k, c = g.kc()
		}
		return Op{Op: "cancel", K: k, C: c, Err: r.Range(1, 3)}
	case x < 76:
		n := r.Range(0, 2)
		ks := make([]string, 0, n+1)
		for j := 0; j <= n; j++ {
			if r.Chance(1, 8) {
				ks = append(ks, "nokey")
			} else {
				ks = append(ks, gen.Pick(r, g.keys))
			}
		}
		if r.Chance(1, 10) {
			ks = []string{}
		}
		return Op{Op: "delete", Keys: ks}
	case x < 78:
		return Op{Op: "flush"}
	case x < 79:
		g.out = nil
		return Op{Op: "close", Err: r.Range(1, 3)}
	case x < 90:
		n := r.Range(1, 5)
		o := Op{Op: "flights", Now: now}
		for j := 0; j < n; j++ {
			k, c := g.kc()
			if j > 0 && r.Chance(1, 4) { // duplicates inside one batch
				k, c = o.Items[r.Intn(j)].K, o.Items[r.Intn(j)].C
			}
			o.Items = append(o.Items, Item{K: k, C: c, TTL: g.ttl()})
			g.out = append(g.out, [2]string{k, c})
		}
		if depth == 0 && kind == "hist-gap" && r.Chance(2, 3) {
			it := gen.Pick(r, o.Items)
			for j := r.Range(1, 2); j > 0; j-- {
				o.Gap = append(o.Gap, g.gapop(it.K, it.C))
			}
			it = gen.Pick(r, o.Items)
			for j := r.Range(1, 2); j > 0; j-- {
				o.Gap2 = append(o.Gap2, g.gapop(it.K, it.C))
			}
		}
		return o
	case x < 93:
		k, c := g.kc()
		return Op{Op: "getttl", K: k, C: c}
	default:
		k, c := g.kc()
		if kind == "hist-hits" || r.Chance(1, 3) {
			n := gen.Pick(r, []int{1023, 1024, 1025, 2048, 1000, 24, 512})
			if kind != "hist-hits" {
				n = r.Range(2, 40)
			}
			if r.Chance(1, 2) {
				o := Op{Op: "repfs", N: n, Now: now, Items: []Item{{K: k, C: c, TTL: int64(3600) * 1000000000}}}
				if r.Chance(1, 2) {
					k2, c2 := g.kc()
					o.Items = append(o.Items, Item{K: k2, C: c2, TTL: int64(3600) * 1000000000})
				}
				return o
			}
			return Op{Op: "rep", N: n, K: k, C: c, TTL: int64(3600) * 1000000000, Now: now}
		}
		return Op{Op: "flight", K: k, C: c, TTL: g.ttl(), Now: now}
	}
}

// an operation another caller performs on the same (key, cmd) while a Flight is between two critical sections
func (g *hgen) gapop(k, c string) Op {
	r := g.r
	now := g.now + int64(r.Intn(2000000))
	switch r.Intn(9) {
	case 0, 1, 2:
		g.out = append(g.out, [2]string{k, c})
		return Op{Op: "flight", K: k, C: c, TTL: g.ttl(), Now: now}
	case 3, 4:
		return Op{Op: "update", K: k, C: c, Msg: g.msg(now)}
	case 5:
		return Op{Op: "cancel", K: k, C: c, Err: 1}
	case 6:
		return Op{Op: "delete", Keys: []string{k}}
	case 7:
		if r.Chance(1, 3) {
			return Op{Op: "close", Err: 2}
		}
		return Op{Op: "flush"}
	default:
		k2, c2 := g.kc()
		return Op{Op: "update", K: k2, C: c2, Msg: g.msg(now)}
	}
}

// ---------------------------------------------------------------------------------------------
// run

type entryInfo struct {
	id       uint64
	k, c     string
	released bool
}

type flightInfo struct {
	ce   rueidis.CacheEntry
	cxat int64
}

type validInfo struct {
	body string
	xat  int64
}

type row struct {
	ce   rueidis.CacheEntry
	id   uint64
	k, c string
	typ  byte
	xat  int64
	size int
}

type H struct {
	cs      rueidis.CacheStore
	max     int
	ids     map[rueidis.CacheEntry]*entryInfo
	nextID  uint64
	out     map[[2]string]*flightInfo // outstanding misses
	valid   map[[2]string]*validInfo  // committed, not invalidated replies
	closed  bool
	fails   []fail
	expRel  map[rueidis.CacheEntry]relExp // releases the current op must cause
	nontriv int
	sig     []string
}

type relExp struct {
	body string
	xat  int64
	err  error
}

type fail struct {
	class, site, msg string
}

func (h *H) failf(class, site, f string, a ...any) {
	h.fails = append(h.fails, fail{class, site, fmt.Sprintf(f, a...)})
}

var errs = []error{nil, errors.New("e1"), errors.New("e2"), errors.New("e3")}

func (h *H) dump() (size int, closed bool, rows []row) {
	size, _, closed, order, _ := rueidis.VerifLruDump(h.cs)
	for _, e := range order {
		inf := h.ids[e.Entry]
		id := uint64(1 << 40)
		if inf != nil {
			id = inf.id
		}
		rows = append(rows, row{ce: e.Entry, id: id, k: e.Key, c: e.Cmd, typ: lruh.Typ(e.Val), xat: lruh.Xat(e.Val), size: e.Size})
	}
	return
}

func snapCoq(size int, closed bool, rows []row) string {
	rs := make([]string, len(rows))
	for i, r := range rows {
		rs[i] = fmt.Sprint(r.id)
	}
	return fmt.Sprintf("(mkSnap %d %s %s)", size, obs.Bool(closed), obs.List(rs))
}

func fullCoq(rows []row) string {
	rs := make([]string, len(rows))
	for i, r := range rows {
		rs[i] = fmt.Sprintf("Row %d %s %s %d %s %d", r.id, obs.HS(r.k), obs.HS(r.c), r.typ, lruh.ZM(r.xat), r.size)
	}
	return "IFull " + obs.List(rs)
}

// assign an identity to the entry created by a miss for (k, c)
func (h *H) adopt(k, c string) rueidis.CacheEntry {
	_, _, rows := h.dump()
	for _, r := range rows {
		if r.k == k && r.c == c {
			if _, ok := h.ids[r.ce]; ok {
				h.failf("harness", "obs_lru", "miss for (%q,%q) but the entry in the list is an old one", k, c)
				return r.ce
			}
			h.ids[r.ce] = &entryInfo{id: h.nextID, k: k, c: c}
			h.nextID++
			return r.ce
		}
	}
	h.failf("second-miss", "lru.go:Flight", "miss for (%q,%q) on an open store created no entry", k, c)
	return nil
}

// state oracles, after every operation
func (h *H) after(site string, pre []row) (string, []row) {
	size, closed, rows := h.dump()
	sum := 0
	inlist := map[rueidis.CacheEntry]bool{}
	for _, r := range rows {
		inlist[r.ce] = true
		if r.typ != 0 {
			sum += r.size
		} else if r.size != 0 {
			h.failf("size-accounting", site, "pending entry (%q,%q) has size %d", r.k, r.c, r.size)
		}
		if r.id == 1<<40 {
			h.failf("harness", "obs_lru", "entry (%q,%q) in the list has no identity", r.k, r.c)
		}
	}
	if sum > h.max {
		h.failf("size-exceeds-max", site, "retained completed entries sum to %d > max %d", sum, h.max)
	}
	if !closed {
		if size != sum {
			h.failf("size-accounting", site, "accounted size %d but retained completed entries sum to %d", size, sum)
		}
		if size > h.max {
			h.failf("size-exceeds-max", site, "accounted size %d > max %d", size, h.max)
		}
	}
	// in-flight entries are never evicted / invalidated
	for kc, f := range h.out {
		if f.ce != nil && !inlist[f.ce] {
			cls := "pending-evicted"
			if strings.Contains(site, "Delete") {
				cls = "pending-lost-on-invalidation"
			}
			h.failf(cls, site, "in-flight entry (%q,%q) is no longer in the store", kc[0], kc[1])
			delete(h.out, kc)
		}
	}
	// completed entries retained must be valid ones
	present := map[[2]string]bool{}
	for _, r := range rows {
		present[[2]string{r.k, r.c}] = true
		if r.typ != 0 {
			if _, ok := h.valid[[2]string{r.k, r.c}]; !ok {
				h.failf("retained-after-invalidation", site, "completed entry (%q,%q) retained although invalidated / cancelled / never committed", r.k, r.c)
			}
		}
	}
	for kc := range h.valid {
		if !present[kc] {
			delete(h.valid, kc) // evicted or expired: serving less is always allowed
		}
	}
	// releases
	for ce, inf := range h.ids {
		if inf.released {
			continue
		}
		rel, val, err := rueidis.VerifLruEntryState(ce)
		exp, want := h.expRel[ce]
		if rel && !want {
			h.failf("waiters", site, "entry %d (%q,%q) released without Update/Cancel/Close", inf.id, inf.k, inf.c)
		}
		if !rel && want {
			h.failf("waiters", site, "waiters of entry %d (%q,%q) not released", inf.id, inf.k, inf.c)
		}
		if rel {
			inf.released = true
			if want {
				if err != exp.err {
					h.failf("waiters", site, "waiters of entry %d receive error %v, want %v", inf.id, err, exp.err)
				}
				if exp.err == nil && (lruh.Body(val) != exp.body || lruh.Xat(val) != exp.xat) {
					h.failf("waiters", site, "waiters of entry %d receive %s xat %d, want %s xat %d", inf.id, lruh.Body(val), lruh.Xat(val), exp.body, exp.xat)
				}
			}
		}
	}
	h.expRel = map[rueidis.CacheEntry]relExp{}
	return snapCoq(size, closed, rows), rows
}

func (h *H) onFlight(site, k, c string, ttl, now int64, v rueidis.RedisMessage, ce rueidis.CacheEntry) {
	kc := [2]string{k, c}
	switch {
	case lruh.Typ(v) != 0: // hit
		h.nontriv++
		val, ok := h.valid[kc]
		if !ok {
			h.failf("stale-hit", site, "hit for (%q,%q) but no committed reply is valid (invalidated, flushed, disconnected, cancelled or never fetched)", k, c)
		} else if val.body != lruh.Body(v) {
			h.failf("wrong-reply", site, "hit for (%q,%q) returns %s, committed %s", k, c, lruh.Body(v), val.body)
		} else if val.xat != lruh.Xat(v) {
			h.failf("expiry-min-rule", site, "hit for (%q,%q) carries expiry %d, want %d", k, c, lruh.Xat(v), val.xat)
		}
		if !(unixMilli(now) < lruh.Xat(v)) {
			h.failf("hit-after-expiry", site, "hit for (%q,%q) at %d ms, expiry %d", k, c, unixMilli(now), lruh.Xat(v))
		}
	case ce != nil: // wait
		h.nontriv++
		f := h.out[kc]
		if f == nil || f.ce != ce {
			h.failf("wait-unknown-flight", site, "Flight (%q,%q) returns an entry that is not the outstanding flight", k, c)
		}
	default: // miss
		if h.closed {
			return
		}
		if h.out[kc] != nil {
			h.failf("second-miss", site, "second miss for (%q,%q) while a flight is outstanding", k, c)
		}
		cx := trunc56(unixMilli(now + ttl))
		if lruh.Xat(v) != cx {
			h.failf("expiry-min-rule", site, "miss placeholder carries expiry %d, want %d", lruh.Xat(v), cx)
		}
		delete(h.valid, kc)
		h.out[kc] = &flightInfo{ce: h.adopt(k, c), cxat: cx}
	}
}

func minXat(cx, sx int64) int64 {
	if cx < sx || sx == 0 {
		return cx
	}
	return sx
}

// eviction oracle: removed entries = minimal prefix of the completed entries in list order
func (h *H) evictOracle(site string, pre, post []row, k, c string, committed bool, newSize int, sizeBefore int) {
	postIDs := map[uint64]bool{}
	for _, r := range post {
		postIDs[r.id] = true
	}
	size := sizeBefore
	// completed entries of the list as it was when the walk started
	stop := false
	for _, r := range pre {
		done := r.typ != 0
		sz := r.size
		if committed && r.k == k && r.c == c {
			done, sz = true, newSize
		}
		gone := !postIDs[r.id]
		if !done {
			if gone {
				h.failf("pending-evicted", site, "pending entry %d (%q,%q) removed by Update", r.id, r.k, r.c)
			}
			continue
		}
		if size > h.max && !stop {
			if !gone {
				// not evicted although over the limit: everything after it must stay too (a prefix) and the size bound fails
				stop = true
				continue
			}
			size -= sz
		} else {
			stop = true
			if gone {
				h.failf("evict-order", site, "entry %d (%q,%q) evicted although size %d <= max %d (or after a retained older entry)", r.id, r.k, r.c, size, h.max)
			}
		}
	}
}

func (h *H) exec(o Op, depth int, items *[]string) {
	switch o.Op {
	case "flight", "rep":
		h.flight(o, depth, items)
	case "flights":
		h.flights(o, depth, items)
	case "repfs": // the same Flights batch N times; only the last repetition is printed (IRep)
		single := o
		single.Op, single.Gap, single.Gap2 = "flights", nil, nil
		var tmp []string
		for i := 0; i < o.N-1; i++ {
			h.flights(single, depth+1, &tmp)
			tmp = tmp[:0]
		}
		h.flights(single, depth+1, &tmp)
		*items = append(*items, fmt.Sprintf("IRep %d (", o.N)+strings.TrimPrefix(tmp[0], "IOp ("))
	case "update":
		_, _, pre := h.dump()
		sizeBefore, _, _, _, _ := rueidis.VerifLruDump(h.cs)
		m := o.Msg.Build()
		kc := [2]string{o.K, o.C}
		f := h.out[kc]
		want := int64(0)
		committed := false
		if f != nil && !h.closed {
			want = minXat(f.cxat, lruh.Xat(m))
			committed = true
			h.expRel[f.ce] = relExp{body: lruh.Body(m), xat: want}
			h.valid[kc] = &validInfo{body: lruh.Body(m), xat: want}
			delete(h.out, kc)
			h.nontriv++
		}
		pxat := h.cs.Update(o.K, o.C, m)
		if pxat != want {
			h.failf("expiry-min-rule", "lru.go:Update", "Update (%q,%q) returns pxat %d, want %d (client %v, server %d)", o.K, o.C, pxat, want, f, lruh.Xat(m))
		}
		rel := "None"
		newSize := 0
		if committed {
			relMsg := *o.Msg
			relMsg.Xat = pxat
			rel = fmt.Sprintf("(Some (Rel %s %s))", h.idCoq(f.ce), lruh.MsgCoq(relMsg.Build()))
			newSize = rueidis.VerifLruEntryBaseSize + 2*(len(o.K)+len(o.C)) + rueidis.VerifLruApproximateSize(m)
		}
		sn, post := h.after("lru.go:Update", pre)
		if !h.closed {
			h.evictOracle("lru.go:Update", pre, post, o.K, o.C, committed, newSize, sizeBefore+newSize)
		}
		*items = append(*items, fmt.Sprintf("IOp (Update %s %s %s) (OUpdate %s %s) %s", obs.HS(o.K), obs.HS(o.C), lruh.MsgCoq(m), lruh.ZM(pxat), rel, sn))
	case "cancel":
		_, _, pre := h.dump()
		kc := [2]string{o.K, o.C}
		f := h.out[kc]
		rel := "None"
		if f != nil && !h.closed {
			h.expRel[f.ce] = relExp{err: errs[o.Err]}
			delete(h.out, kc)
			ph := rueidis.VerifLruMsg(0, 0, "", nil, f.cxat, false)
			rel = fmt.Sprintf("(Some (Rel %s %s))", h.idCoq(f.ce), lruh.MsgCoq(ph))
			h.nontriv++
		}
		h.cs.Cancel(o.K, o.C, errs[o.Err])
		sn, post := h.after("lru.go:Cancel", pre)
		if f != nil {
			for _, r := range post {
				if r.k == o.K && r.c == o.C {
					h.failf("cached-after-cancel", "lru.go:Cancel", "(%q,%q) still in the store after Cancel", o.K, o.C)
				}
			}
		}
		*items = append(*items, fmt.Sprintf("IOp (Cancel %s %s %d) (OCancel %s) %s", obs.HS(o.K), obs.HS(o.C), o.Err, rel, sn))
	case "delete", "flush":
		_, _, pre := h.dump()
		var keys []rueidis.RedisMessage
		arg := "None"
		if o.Op == "delete" {
			keys = make([]rueidis.RedisMessage, 0, len(o.Keys))
			ks := []string{}
			for _, k := range o.Keys {
				keys = append(keys, rueidis.VerifLruMsg('$', 0, k, nil, 0, false))
				ks = append(ks, obs.HS(k))
			}
			arg = "(Some " + obs.List(ks) + ")"
			for kc := range h.valid {
				for _, k := range o.Keys {
					if kc[0] == k {
						delete(h.valid, kc)
						h.nontriv++
					}
				}
			}
		} else {
			if len(h.valid) > 0 {
				h.nontriv++
			}
			h.valid = map[[2]string]*validInfo{}
		}
		h.cs.Delete(keys)
		sn, _ := h.after("lru.go:Delete", pre)
		*items = append(*items, fmt.Sprintf("IOp (Delete %s) ONone %s", arg, sn))
	case "close":
		_, _, pre := h.dump()
		var rel []string
		for _, r := range pre {
			if r.typ == 0 {
				rel = append(rel, fmt.Sprint(r.id))
			}
		}
		for _, f := range h.out {
			if f.ce != nil {
				h.expRel[f.ce] = relExp{err: errs[o.Err]}
			}
		}
		h.out = map[[2]string]*flightInfo{}
		h.valid = map[[2]string]*validInfo{}
		wasClosed := h.closed
		h.closed = true
		h.cs.Close(errs[o.Err])
		sn, post := h.after("lru.go:Close", pre)
		if len(post) != 0 {
			h.failf("retained-after-invalidation", "lru.go:Close", "%d entries retained after Close", len(post))
		}
		if wasClosed {
			rel = nil
		}
		*items = append(*items, fmt.Sprintf("IOp (Close %d) (OClose %s) %s", o.Err, obs.List(rel), sn))
	case "getttl":
		t0 := time.Now().UnixNano()
		d := rueidis.VerifLruGetTTL(h.cs, o.K, o.C)
		t1 := time.Now().UnixNano()
		*items = append(*items, fmt.Sprintf("ITTL %s %s %s %s %s", obs.HS(o.K), obs.HS(o.C), zz(t0), zz(t1), zz(int64(d))))
	}
}

func (h *H) idCoq(ce rueidis.CacheEntry) string {
	if inf := h.ids[ce]; inf != nil {
		return fmt.Sprint(inf.id)
	}
	return "1099511627776"
}

func ceCoq(h *H, ce rueidis.CacheEntry) string {
	if ce == nil {
		return "None"
	}
	inf := h.ids[ce]
	if inf == nil {
		h.failf("harness", "obs_lru", "returned entry has no identity")
		return "(Some 1099511627776)"
	}
	return fmt.Sprintf("(Some %d)", inf.id)
}

func (h *H) flight(o Op, depth int, items *[]string) {
	n := 1
	if o.Op == "rep" {
		n = o.N
	}
	var v rueidis.RedisMessage
	var ce rueidis.CacheEntry
	var pre []row
	gapSite := 0
	var gapSnap string
	var gapItems []string
	for i := 0; i < n; i++ {
		_, _, pre = h.dump()
		if o.Op == "flight" && depth == 0 && len(o.Gap) > 0 {
			rueidis.VerifLruGap = func(site int) {
				rueidis.VerifLruGap = nil
				gapSite = site
				gapSnap, _ = h.after("lru.go:Flight", pre)
				for _, g := range o.Gap {
					h.exec(g, depth+1, &gapItems)
				}
			}
		}
		v, ce = h.cs.Flight(o.K, o.C, time.Duration(o.TTL), at(o.Now))
		rueidis.VerifLruGap = nil
		h.onFlight("lru.go:Flight", o.K, o.C, o.TTL, o.Now, v, ce)
		if i < n-1 {
			h.after("lru.go:Flight", pre)
		}
	}
	sn, _ := h.after("lru.go:Flight", pre)
	k, c := obs.HS(o.K), obs.HS(o.C)
	switch {
	case o.Op == "rep":
		*items = append(*items, fmt.Sprintf("IRep %d (Flight %s %s %s %s) (OFlight %s %s) %s", n, k, c, zz(o.TTL), lruh.ZT(o.Now), lruh.MsgCoq(v), ceCoq(h, ce), sn))
	case gapSite == 2:
		*items = append(*items, fmt.Sprintf("IOp (FlightFast %s %s %s) (OFast None false) %s", k, c, lruh.ZT(o.Now), gapSnap))
		*items = append(*items, gapItems...)
		*items = append(*items, fmt.Sprintf("IOp (FlightSlow %s %s %s %s) (OFlight %s %s) %s", k, c, zz(o.TTL), lruh.ZT(o.Now), lruh.MsgCoq(v), ceCoq(h, ce), sn))
	case gapSite == 1:
		id := h.idCoq(ce)
		*items = append(*items, fmt.Sprintf("IOp (FlightFast %s %s %s) (OFast (Some (Rel %s %s)) true) %s", k, c, lruh.ZT(o.Now), id, lruh.MsgCoq(v), gapSnap))
		*items = append(*items, gapItems...)
		*items = append(*items, fmt.Sprintf("IOp (Touch [%s]) ONone %s", id, sn))
	default:
		*items = append(*items, fmt.Sprintf("IOp (Flight %s %s %s %s) (OFlight %s %s) %s", k, c, zz(o.TTL), lruh.ZT(o.Now), lruh.MsgCoq(v), ceCoq(h, ce), sn))
	}
}

func (h *H) fresCoq(results []rueidis.RedisResult, entries map[int]rueidis.CacheEntry, n int) []string {
	rs := make([]string, n)
	for i := 0; i < n; i++ {
		m, _ := results[i].ToMessage()
		switch {
		case lruh.Typ(m) != 0:
			rs[i] = "FHit " + lruh.MsgCoq(m)
		case entries[i] != nil:
			id := uint64(1 << 40)
			if inf := h.ids[entries[i]]; inf != nil {
				id = inf.id
			} else {
				h.failf("harness", "obs_lru", "Flights returned an entry without identity")
			}
			rs[i] = fmt.Sprintf("FWait %d", id)
		default:
			rs[i] = "FMiss"
		}
	}
	return rs
}

func (h *H) flights(o Op, depth int, items *[]string) {
	_, _, pre := h.dump()
	multi := make([]rueidis.CacheableTTL, len(o.Items))
	its := make([]string, len(o.Items))
	for i, it := range o.Items {
		multi[i] = rueidis.CacheableTTL{Cmd: rueidis.VerifLruCacheable([]string{it.C, it.K}, false, false, false), TTL: time.Duration(it.TTL)}
		its[i] = fmt.Sprintf("FI %s %s %s", obs.HS(it.K), obs.HS(it.C), zz(it.TTL))
	}
	results := make([]rueidis.RedisResult, len(multi))
	entries := map[int]rueidis.CacheEntry{}
	gapped := depth == 0 && (len(o.Gap) > 0 || len(o.Gap2) > 0)
	var rs1 []string
	var sn1, sn3 string
	var gap3, gap4 []string
	seen1 := false
	first := func() {
		if !seen1 {
			seen1 = true
			rs1 = h.fresCoq(results, entries, len(multi))
			// first-pass hits / waits go through the same oracle as Flight
			for i, it := range o.Items {
				m, _ := results[i].ToMessage()
				if lruh.Typ(m) != 0 || entries[i] != nil {
					h.onFlight("lru.go:Flights", it.K, it.C, it.TTL, o.Now, m, entries[i])
				}
			}
			sn1, _ = h.after("lru.go:Flights", pre)
		}
	}
	done1 := map[int]bool{}
	if gapped {
		rueidis.VerifLruGap = func(site int) {
			switch site {
			case 3:
				first()
				for i := range o.Items {
					m, _ := results[i].ToMessage()
					if lruh.Typ(m) != 0 || entries[i] != nil {
						done1[i] = true
					}
				}
				save := rueidis.VerifLruGap
				rueidis.VerifLruGap = nil
				for _, g := range o.Gap {
					h.exec(g, depth+1, &gap3)
				}
				rueidis.VerifLruGap = save
			case 4:
				if !seen1 {
					first()
					for i := range o.Items {
						m, _ := results[i].ToMessage()
						if lruh.Typ(m) != 0 || entries[i] != nil {
							done1[i] = true
						}
					}
				} else {
					sn3, _ = h.after("lru.go:Flights", pre)
				}
				rueidis.VerifLruGap = nil
				for _, g := range o.Gap2 {
					h.exec(g, depth+1, &gap4)
				}
			}
		}
	}
	missed := rueidis.VerifLruFlights(h.cs, at(o.Now), multi, results, entries)
	reached4 := gapped && rueidis.VerifLruGap == nil
	rueidis.VerifLruGap = nil
	isMissed := map[int]bool{}
	for _, i := range missed {
		isMissed[i] = true
	}
	for i, it := range o.Items {
		if done1[i] {
			continue
		}
		m, _ := results[i].ToMessage()
		if isMissed[i] {
			if lruh.Typ(m) != 0 || entries[i] != nil {
				h.failf("harness", "lru.go:Flights", "index %d both missed and answered", i)
			}
			h.onFlight("lru.go:Flights", it.K, it.C, it.TTL, o.Now, rueidis.VerifLruMsg(0, 0, "", nil, trunc56(unixMilli(o.Now+it.TTL)), false), nil)
		} else {
			if lruh.Typ(m) == 0 && entries[i] == nil {
				h.failf("second-miss", "lru.go:Flights", "index %d neither answered nor reported as missed", i)
			}
			h.onFlight("lru.go:Flights", it.K, it.C, it.TTL, o.Now, m, entries[i])
		}
	}
	rs := h.fresCoq(results, entries, len(multi))
	sn, _ := h.after("lru.go:Flights", pre)
	if gapped && seen1 {
		if !reached4 && sn3 == "" {
			// site 3 fired but there was no second pass: the store after the moves is the final one
			sn3 = sn
		}
		if sn3 == "" {
			sn3 = sn1
		}
		*items = append(*items, fmt.Sprintf("IFlightsG %s %s %s %s %s %s %s (OFlights %s) %s", lruh.ZT(o.Now), obs.List(its), obs.List(rs1), sn1,
			obs.List(parens(gap3)), sn3, obs.List(parens(gap4)), obs.List(rs), sn))
		return
	}
	*items = append(*items, fmt.Sprintf("IOp (Flights %s %s) (OFlights %s) %s", lruh.ZT(o.Now), obs.List(its), obs.List(rs), sn))
}

// zz prints an integer argument of a constructor whose parameter has type Z (scope is bound by the type)
func zz(i int64) string {
	if i < 0 {
		return fmt.Sprintf("(%d)", i)
	}
	return fmt.Sprint(i)
}

func parens(xs []string) []string {
	r := make([]string, len(xs))
	for i, x := range xs {
		r[i] = "(" + x + ")"
	}
	return r
}

// run wraps the Gallina term in parentheses (./check --replay applies check_case to it textually)
func run(ci any) obs.Result {
	res := runCase(ci)
	if res.Coq != "" {
		res.Coq = "(" + res.Coq + ")"
	}
	return res
}

func runCase(ci any) (res obs.Result) {
	c := ci.(*Case)
	res.Kind = c.Kind
	switch c.Kind {
	case "approx":
		m := c.Msg.Build()
		res.Coq = fmt.Sprintf("CApprox %s %s %s", obs.Z(int64(rueidis.VerifLruMessageStructSize)), lruh.MsgCoq(m), obs.Z(int64(rueidis.VerifLruApproximateSize(m))))
		res.Sig = fmt.Sprint("approx", lruh.Body(m))
		res.Nontrivial = true
		return
	case "expire":
		m := rueidis.VerifLruMsg('$', 0, "", nil, c.X, false)
		got := lruh.Xat(m)
		res.Coq = fmt.Sprintf("CExpire %s %s", obs.Z(c.X), obs.Z(got))
		res.Sig = fmt.Sprint("expire", c.X)
		res.Nontrivial = true
		if c.X >= 0 && c.X < two56 && got != c.X && wantProp("expiry-encoding") {
			res.Oracle = fmt.Sprintf("setExpireAt(%d) reads back %d", c.X, got)
			res.Site, res.Class = "message.go:setExpireAt", "expiry-encoding"
		}
		return
	case "report":
		m := c.Msg.Build()
		t0 := time.Now().UnixNano()
		pttl := m.CachePTTL()
		ttl := m.CacheTTL()
		t1 := time.Now().UnixNano()
		pxat := m.CachePXAT()
		res.Coq = fmt.Sprintf("CReport %s %s %s %s %s %s", lruh.MsgCoq(m), obs.Z(t0), obs.Z(t1), obs.Z(pxat), obs.Z(pttl), obs.Z(ttl))
		res.Sig = fmt.Sprint("report", c.Msg.Xat)
		res.Nontrivial = true
		// direct oracle: the three reports describe the same expiry
		x := lruh.Xat(m)
		bad := ""
		if x == 0 {
			if pxat != -1 || pttl != -1 || ttl != -1 {
				bad = fmt.Sprintf("no expiry but reports %d %d %d", pxat, pttl, ttl)
			}
		} else {
			lo, hi := x-unixMilli(t1), x-unixMilli(t0)
			if lo < 0 {
				lo = 0
			}
			if hi < 0 {
				hi = 0
			}
			if pxat != x || pttl < lo || pttl > hi || ttl < (lo+999)/1000 || ttl > (hi+999)/1000 {
				bad = fmt.Sprintf("expiry %d: CachePXAT %d CachePTTL %d (want in [%d,%d]) CacheTTL %d", x, pxat, pttl, lo, hi, ttl)
			}
		}
		if bad != "" && wantProp("report") {
			res.Oracle, res.Site, res.Class = bad, "message.go:CachePTTL", "report"
		}
		return
	}
	h := &H{cs: rueidis.VerifLruNew(c.Max), max: c.Max, ids: map[rueidis.CacheEntry]*entryInfo{}, out: map[[2]string]*flightInfo{},
		valid: map[[2]string]*validInfo{}, expRel: map[rueidis.CacheEntry]relExp{}}
	var items []string
	cut := -1
	for i, o := range c.Ops {
		h.exec(o, 0, &items)
		if relevant(h.fails) != nil {
			cut = i
			break
		}
	}
	if cut >= 0 {
		c.Ops = c.Ops[:cut+1] // the replay is the shortest failing prefix
	}
	_, _, final := h.dump()
	items = append(items, fullCoq(final))
	res.Coq = fmt.Sprintf("CHist (mkCfg %d %d %d) %s", c.Max, rueidis.VerifLruEntryBaseSize, rueidis.VerifLruMessageStructSize, obs.List(parens(items)))
	res.Nontrivial = h.nontriv >= 3
	ops := make([]string, len(c.Ops))
	for i, o := range c.Ops {
		ops[i] = o.Op
	}
	res.Sig = fmt.Sprint(c.Max, strings.Join(ops, ","), len(res.Coq))
	if f := relevant(h.fails); f != nil {
		res.Oracle, res.Site, res.Class = f.msg, f.site, f.class
		res.Coq = "" // the history was cut; the oracle failure is the verdict
	}
	res.Obs = map[string]any{"ops": len(c.Ops), "failures": len(h.fails)}
	return
}

func wantProp(class string) bool {
	return *propFlag == "" || classProp[class] == *propFlag || classProp[class] == ""
}

func relevant(fs []fail) *fail {
	for i := range fs {
		if wantProp(fs[i].class) {
			return &fs[i]
		}
	}
	return nil
}

func decode(raw json.RawMessage) (any, error) {
	c := &Case{}
	if err := json.Unmarshal(raw, c); err != nil {
		return nil, err
	}
	return c, nil
}

func main() {
	obs.Main(obs.Runner{Name: "obs_lru", Salt: 0x10, Gen: genCase, Decode: decode, Run: run})
}
