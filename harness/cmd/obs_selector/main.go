// obs_selector: C22 — PreferReplicaNodeSelector, AZAffinityNodeSelector, AZAffinityReplicasAndPrimaryNodeSelector, pickAZ.
package main

import (
	"encoding/json"
	"fmt"

	"github.com/redis/rueidis"

	"verifharness/gen"
	"verifharness/obs"
)

type Case struct {
	Op      string     `json:"op"`   // sel | pick
	Kind    string     `json:"kind"` // prefer | az | azrp   (sel)
	Client  string     `json:"client"`
	Calls   [][]string `json:"calls,omitempty"` // sel: node lists (AZ of each node), one per call
	Nodes   []string   `json:"nodes,omitempty"` // pick
	Start   int        `json:"start,omitempty"`
	Counter uint32     `json:"counter,omitempty"`
}

var azPool = []string{"a", "b", "c", "", "az-1"}

func genNodes(r *gen.Rand, client string, big bool) []string {
	var n int
	if big {
		n = gen.Pick(r, []int{253, 254, 255, 256, 257, 300})
	} else {
		n = r.Size(20, 2, 9)
	}
	nodes := make([]string, n)
	mode := r.Intn(5) // density of same-AZ nodes
	for i := range nodes {
		switch mode {
		case 0: // none
			nodes[i] = "x"
		case 1: // rare
			if r.Chance(1, 12) {
				nodes[i] = client
			} else {
				nodes[i] = "x"
			}
		case 2: // dense: more than 8 candidates
			if r.Chance(2, 3) {
				nodes[i] = client
			} else {
				nodes[i] = gen.Pick(r, azPool)
			}
		default:
			nodes[i] = gen.Pick(r, azPool)
		}
	}
	if big && n > 0 && r.Chance(1, 3) { // the only same-AZ nodes sit at the edge of / beyond the 255 window
		for i := range nodes {
			if nodes[i] == client {
				nodes[i] = "x"
			}
		}
		nodes[gen.Pick(r, []int{0, 254, n - 1})%n] = client
		if r.Bool() {
			nodes[(n-2+n)%n] = client
		}
	}
	return nodes
}

func genCase(r *gen.Rand, i int) any {
	c := Case{Client: gen.Pick(r, azPool)}
	if r.Chance(1, 4) {
		c.Op = "pick"
		c.Nodes = genNodes(r, c.Client, r.Chance(1, 8))
		c.Start = gen.Pick(r, []int{0, 1, 1, 1, 2})
		switch r.Intn(3) {
		case 0:
			c.Counter = ^uint32(0) - uint32(r.Intn(12)) // about to wrap
		case 1:
			c.Counter = uint32(r.Intn(20))
		default:
			c.Counter = uint32(r.U64())
		}
		return c
	}
	c.Op = "sel"
	c.Kind = gen.Pick(r, []string{"prefer", "az", "az", "azrp", "azrp"})
	big := r.Chance(1, 8)
	calls := r.Range(1, 24)
	if big {
		calls = r.Range(1, 3)
	}
	nodes := genNodes(r, c.Client, big)
	for j := 0; j < calls; j++ {
		if r.Chance(1, 10) {
			nodes = genNodes(r, c.Client, false)
		}
		c.Calls = append(c.Calls, nodes)
	}
	return c
}

func toNodes(azs []string) []rueidis.NodeInfo {
	ns := make([]rueidis.NodeInfo, len(azs))
	for i, a := range azs {
		ns[i] = rueidis.NodeInfo{AZ: a, Addr: fmt.Sprint("n", i)}
	}
	return ns
}

// candidates: the first (at most 8) same-AZ nodes among nodes[start:min(len,255)]
func candidates(azs []string, client string, start int) []int {
	var cs []int
	for i := start; i < len(azs) && i < 255; i++ {
		if azs[i] == client {
			cs = append(cs, i)
			if len(cs) == 8 {
				break
			}
		}
	}
	return cs
}

func contains(xs []int, x int) bool {
	for _, y := range xs {
		if x == y {
			return true
		}
	}
	return false
}

// expected candidate set of one call (nil = must return -1), per the documented priorities
func expected(kind, client string, azs []string) []int {
	n := len(azs)
	var replicas []int
	for i := 1; i < n; i++ {
		replicas = append(replicas, i)
	}
	switch kind {
	case "prefer":
		return replicas
	case "az":
		if cs := candidates(azs, client, 1); len(cs) > 0 {
			return cs
		}
		return replicas
	default:
		if cs := candidates(azs, client, 1); len(cs) > 0 {
			return cs
		}
		if n > 0 && azs[0] == client {
			return []int{0}
		}
		return replicas
	}
}

func sameList(a, b []string) bool {
	if len(a) != len(b) {
		return false
	}
	for i := range a {
		if a[i] != b[i] {
			return false
		}
	}
	return true
}

func run(ci any) (res obs.Result) {
	c := ci.(Case)
	raw, _ := json.Marshal(c)
	res.Sig = string(raw)
	if c.Op == "pick" {
		res.Kind = "pickAZ"
		out := obs.Panic
		var idx int
		var nc uint32
		panicked := true
		func() {
			defer func() { _ = recover() }()
			idx, nc = rueidis.VerifPickAZ(toNodes(c.Nodes), c.Client, c.Start, c.Counter)
			panicked = false
			out = obs.Ok(obs.Z(int64(idx)))
		}()
		res.Coq = obs.App("CPick", obs.HS(c.Client), obs.ListOf(c.Nodes, obs.HS), obs.Nat(c.Start), obs.N(uint64(c.Counter)), obs.N(uint64(nc)), out)
		res.Site, res.Class = "helper.go:pickAZ", "index"
		cs := candidates(c.Nodes, c.Client, c.Start)
		res.Nontrivial = len(cs) > 1
		switch {
		case panicked:
			res.Oracle, res.Class = "pickAZ panicked", "panic"
		case len(cs) == 0 && idx != -1:
			res.Oracle = fmt.Sprintf("no same-AZ node in the window but pickAZ returned %d", idx)
		case len(cs) > 0 && !contains(cs, idx):
			res.Oracle = fmt.Sprintf("pickAZ returned %d, not one of the same-AZ candidates %v", idx, cs)
		case len(cs) > 0 && nc != c.Counter+1:
			res.Oracle = fmt.Sprintf("counter went from %d to %d", c.Counter, nc)
		case len(cs) == 0 && nc != c.Counter:
			res.Oracle = fmt.Sprintf("counter changed without a pick: %d to %d", c.Counter, nc)
		}
		res.Obs = map[string]any{"idx": idx, "counter": nc}
		return
	}
	res.Kind = c.Kind
	var sel rueidis.ReadNodeSelectorFunc
	switch c.Kind {
	case "prefer":
		sel = rueidis.PreferReplicaNodeSelector()
	case "az":
		sel = rueidis.AZAffinityNodeSelector(c.Client)
	default:
		sel = rueidis.AZAffinityReplicasAndPrimaryNodeSelector(c.Client)
	}
	var rs []int
	panicked := true
	func() {
		defer func() { _ = recover() }()
		for _, azs := range c.Calls {
			rs = append(rs, sel(uint16(len(rs)), toNodes(azs)))
		}
		panicked = false
	}()
	k := map[string]string{"prefer": "KPrefer", "az": "KAz", "azrp": "KAzRP"}[c.Kind]
	out := obs.Panic
	if !panicked {
		out = obs.Ok(obs.ListOf(rs, func(i int) string { return obs.Z(int64(i)) }))
	}
	res.Coq = obs.App("CSel", k, obs.HS(c.Client), obs.ListOf(c.Calls, func(azs []string) string { return obs.ListOf(azs, obs.HS) }), out)
	res.Obs = rs
	site := map[string]string{"prefer": "helper.go:PreferReplicaNodeSelector", "az": "helper.go:AZAffinityNodeSelector", "azrp": "helper.go:AZAffinityReplicasAndPrimaryNodeSelector"}[c.Kind]
	res.Site, res.Class = site, "priority"
	if panicked {
		res.Oracle, res.Class = "selector panicked", "panic"
		return
	}
	// direct oracle: range, priority, rotation
	for j, r := range rs {
		azs := c.Calls[j]
		if r != -1 && (r < 0 || r >= len(azs)) {
			res.Oracle = fmt.Sprintf("call %d on %d nodes returned the invalid index %d", j, len(azs), r)
			res.Class = "range"
			if len(azs) == 0 {
				res.Class = "range-empty-list"
			}
			return
		}
		exp := expected(c.Kind, c.Client, azs)
		if len(exp) == 0 && r != -1 {
			res.Oracle = fmt.Sprintf("call %d: no candidate, expected -1, got %d", j, r)
			return
		}
		if len(exp) > 0 && !contains(exp, r) {
			res.Oracle = fmt.Sprintf("call %d returned %d, expected one of %v", j, r, exp)
			return
		}
		if len(exp) > 1 {
			res.Nontrivial = true
		}
	}
	// rotation: within a run of calls on the same node list, every window of |candidates| results is duplicate free
	for j := 0; j < len(rs); {
		e := j
		for e+1 < len(rs) && sameList(c.Calls[e+1], c.Calls[j]) {
			e++
		}
		n := len(expected(c.Kind, c.Client, c.Calls[j]))
		for w := j; n > 1 && w+n-1 <= e; w++ {
			seen := map[int]bool{}
			for _, r := range rs[w : w+n] {
				if seen[r] {
					res.Oracle = fmt.Sprintf("calls %d..%d over %d equally ranked candidates returned %v (a candidate twice)", w, w+n-1, n, rs[w:w+n])
					res.Class = "rotation"
					return
				}
				seen[r] = true
			}
		}
		j = e + 1
	}
	return
}

func main() {
	obs.Main(obs.Runner{
		Name: "obs_selector", Salt: 22,
		Gen: genCase,
		Decode: func(raw json.RawMessage) (any, error) {
			var c Case
			err := json.Unmarshal(raw, &c)
			return c, err
		},
		Run: run,
	})
}
