package main

// kind reval — same-address re-validation histories, enumerated on EVERY run (the first len(revalTable)
// cases, independent of the seed; the description carries the decisions).
//
// Deployment: data nodes A (master), B (replica), C (replica, reported s-down so that pickReplica has one
// eligible answer), one sentinel. Client: default, or SendToReplicas = read-only commands.
//   1. NewClient; SET goes to A (GET to B).
//   2. change, with the sentinel still reporting the old addresses: none | A demoted in place (ROLE says
//      slave) | A answers ROLE with an error | B promoted in place (ROLE says master; SendToReplicas only)
//   3. trigger: +switch-master naming A as old and new address | +reboot master for A | the subscription
//      connection is dropped (the client refreshes) | +sdown slave (SendToReplicas only: refresh)
//   4. once the client has reacted (ROLE probes seen on the nodes), user traffic: SET (and GET); where it
//      arrives is compared with the model (live_m / live_r after the step)
//   5. the sentinel reports C as master (with or without +switch-master): SET must reach C.
// Oracle (traffic of steps 1 and 4): the latest ROLE answer given on the connection a user command arrives on,
// before that arrival, is the role the command needs (master; slave for a command SendToReplicas opted in);
// step 5: SET reaches C within 20 s.

import (
	"context"
	"fmt"
	"net"
	"time"

	"github.com/redis/rueidis"

	fr "verifharness/fakeredis"
	fs "verifharness/fakesentinel"
	"verifharness/obs"
)

type revalX struct {
	Str      bool   `json:"str,omitempty"`      // SendToReplicas configured
	Change   string `json:"change"`             // none | demote | roleerr | promote
	Trigger  string `json:"trigger"`            // switch | reboot | drop | sdown
	Announce bool   `json:"announce,omitempty"` // the final failover is announced by +switch-master
}

var revalTable = buildReval()

func buildReval() []Case {
	var out []Case
	for _, str := range []bool{false, true} {
		changes := []string{"none", "demote", "roleerr"}
		triggers := []string{"switch", "reboot", "drop"}
		if str {
			changes = append(changes, "promote")
			triggers = append(triggers, "sdown")
		}
		for _, ch := range changes {
			for _, tr := range triggers {
				out = append(out, Case{K: "reval", Seed: uint64(len(out)), Rv: &revalX{Str: str, Change: ch, Trigger: tr, Announce: len(out)%2 == 1}})
			}
		}
	}
	return out
}

func waitFor(cond func() bool, max time.Duration) bool {
	end := time.Now().Add(max)
	for time.Now().Before(end) {
		if cond() {
			return true
		}
		time.Sleep(2 * time.Millisecond)
	}
	return cond()
}

func runReval(c Case) (res obs.Result) {
	res.Kind = "reval"
	x := c.Rv
	if x == nil {
		return obs.Result{Kind: "other"}
	}
	if !x.Str && (x.Change == "promote" || x.Trigger == "sdown") {
		return obs.Result{Kind: "other"}
	}
	d := fs.New("mymaster")
	A, B, C := nodeAddr(0), nodeAddr(1), nodeAddr(2)
	S := sentAddr(0)
	d.AddNode(A, "master")
	d.AddNode(B, "slave")
	d.AddNode(C, "slave")
	d.SetSDown(C, true)
	d.AddSentinel(S)
	opt := rueidis.ClientOption{InitAddress: []string{S}, DialCtxFn: d.Dial, DisableCache: true, PipelineMultiplex: -1}
	opt.Sentinel.MasterSet = "mymaster"
	if x.Str {
		opt.SendToReplicas = func(cmd rueidis.Completed) bool { return cmd.IsReadOnly() }
	}
	cli, err := rueidis.NewClient(opt)
	if err != nil {
		res.Oracle, res.Site, res.Class = "harness: NewClient failed: "+err.Error(), "harness", "setup"
		return
	}
	defer cli.Close()
	res.Site = "sentinel.go:_switchTarget"
	nkey := 0
	// traffic sends one SET (and, with SendToReplicas, one GET) with a short deadline and reports where they arrived
	traffic := func(timeout time.Duration) (m, r string) {
		nkey++
		key := fmt.Sprintf("k%d", nkey)
		ctx, cancel := context.WithTimeout(context.Background(), timeout)
		cli.Do(ctx, cli.B().Set().Key(key).Value("v").Build())
		cancel()
		if x.Str {
			ctx, cancel = context.WithTimeout(context.Background(), timeout)
			cli.Do(ctx, cli.B().Get().Key(key).Build())
			cancel()
		}
		for _, a := range d.Arrivals() {
			if len(a.Argv) > 1 && a.Argv[1] == key {
				if a.Argv[0] == "SET" {
					m = a.Node
				} else {
					r = a.Node
				}
			}
		}
		return
	}
	m0, r0 := traffic(10 * time.Second)
	if m0 != A || (x.Str && r0 != B) {
		res.Oracle, res.Class = fmt.Sprintf("initial traffic: SET arrived on %q, GET on %q (expected %s / %s)", m0, r0, A, B), "initial-routing"
		return
	}
	// 2. the change
	role1 := map[string]string{A: "master", B: "slave", C: "slave"}
	bad := ""
	switch x.Change {
	case "demote":
		d.SetRole(A, "slave")
		role1[A], bad = "slave", A
	case "roleerr":
		v := fr.Error("ERR role unavailable")
		d.SetRoleV(A, &v)
		role1[A], bad = "-error", A
	case "promote":
		d.SetRole(B, "master")
		role1[B], bad = "master", B
	}
	probes := func(node string) int {
		n := 0
		for _, rec := range d.Roles() {
			if rec.Node == node {
				n++
			}
		}
		return n
	}
	pa0, pb0 := probes(A), probes(B)
	// 3. the trigger
	ha, pa, _ := net.SplitHostPort(A)
	hb, pb, _ := net.SplitHostPort(B)
	publish := func(ch, msg string) bool {
		return waitFor(func() bool {
			sn := d.Sentinels[S]
			sn.S.Lock()
			defer sn.S.Unlock()
			return sn.S.Publish(ch, msg) > 0
		}, 10*time.Second)
	}
	var op string
	parts := func(ps ...string) string {
		out := make([]string, len(ps))
		for i, p := range ps {
			out[i] = obs.HS(p)
		}
		return obs.List(out)
	}
	probesA, probesB := false, false // which nodes the trigger makes the client probe
	delivered := true
	switch x.Trigger {
	case "switch":
		delivered = publish("+switch-master", "mymaster "+ha+" "+pa+" "+ha+" "+pa)
		op = "(RopEvent (EvSwitchMaster " + parts("mymaster", ha, pa, ha, pa) + "))"
		probesA = true
	case "reboot":
		delivered = publish("+reboot", "master mymaster "+ha+" "+pa)
		op = "(RopEvent (EvReboot " + parts("master", "mymaster", ha, pa) + "))"
		probesA = true
	case "drop":
		// make sure the subscription is in place first, so that it is the drop that makes the client refresh
		waitFor(func() bool {
			sn := d.Sentinels[S]
			sn.S.Lock()
			defer sn.S.Unlock()
			return sn.S.Publish("-sdown", "master mymaster "+ha+" "+pa) > 0 // ignored by the client
		}, 10*time.Second)
		d.KillConns(S)
		op = "RopRefresh"
		probesA, probesB = true, x.Str
	case "sdown":
		delivered = publish("+sdown", "slave "+B+" "+hb+" "+pb+" @ mymaster "+ha+" "+pa)
		op = "(RopEvent (EvSlaveOrSdown " + parts("slave", B, hb, pb, "@", "mymaster", ha+" "+pa) + "))"
		probesA, probesB = true, true
	}
	if !delivered {
		res.Kind = "reval-nosub"
		return
	}
	// 4. wait for the client's reaction. A failed probe of the address in use makes the client refresh again and
	// again (refreshRetry has no back-off): the second probe of the bad node is sent only after the reply to the
	// first one was handled, close included. Otherwise one probe per node the trigger reaches, then a short rest.
	loops := (bad == A && probesA) || (bad == B && probesB)
	reacted := true
	if loops {
		reacted = waitFor(func() bool { return probes(bad) >= map[string]int{A: pa0, B: pb0}[bad]+2 }, 20*time.Second)
	} else {
		reacted = waitFor(func() bool { return (!probesA || probes(A) > pa0) && (!probesB || probes(B) > pb0) }, 20*time.Second)
		time.Sleep(40 * time.Millisecond)
	}
	if !reacted {
		res.Kind = "reval-noreaction"
		res.Obs = map[string]any{"x": x, "roles": d.Roles()}
		return
	}
	m1, r1 := traffic(120 * time.Millisecond)
	// 5. the sentinel reports C as the master
	d.SetRoleV(A, nil)
	d.SetSDown(C, false)
	d.SetRole(B, "slave")
	d.Failover(C, false)
	// a client that is not refreshing learns of a failover through +switch-master only
	if x.Announce || !loops {
		hc, pc, _ := net.SplitHostPort(C)
		publish("+switch-master", "mymaster "+ha+" "+pa+" "+hc+" "+pc)
	}
	followed := ""
	waitFor(func() bool {
		followed, _ = traffic(60 * time.Millisecond)
		return followed == C
	}, 20*time.Second)
	// ---- model case ----
	roleCoq := func(ans string) string {
		if ans == "-error" {
			return "RoleErr"
		}
		return fmt.Sprintf("(RoleArr [%s])", obs.HS(ans))
	}
	role0 := map[string]string{A: "master", B: "slave", C: "slave"}
	nodes := []string{A, B, C}
	ident := func(s string) string { return s }
	hA, pA, _ := net.SplitHostPort(A)
	cq := fmt.Sprintf("(mkScfg false %s %s)", obs.Bool(x.Str), obs.HS("mymaster"))
	res.Coq = obs.App("CReval", cq, obs.ListOf([]string{S}, saddr),
		pairs([]string{S}, func(string) bool { return true }, obs.Bool),
		pairs([]string{S}, func(string) string { return "(SnList [])" }, ident),
		pairs([]string{S}, func(string) string { return "(MList [" + obs.HS(hA) + "; " + obs.HS(pA) + "])" }, ident),
		pairs([]string{S}, func(string) string { return "(RpList " + obs.ListOf([]string{B}, saddr) + ")" }, ident),
		pairs(nodes, func(string) bool { return true }, obs.Bool),
		pairs(nodes, func(k string) string { return roleCoq(role0[k]) }, ident),
		pairs(nodes, func(k string) string { return roleCoq(role1[k]) }, ident),
		op, osaddr(m1), osaddr(r1))
	res.Sig = fmt.Sprint("reval", *x)
	res.Nontrivial = true
	var rolesView, arrView []string
	for _, rec := range d.Roles() {
		rolesView = append(rolesView, fmt.Sprintf("%d:%s#%d=%s", rec.Seq, rec.Node[len(rec.Node)-4:], rec.Conn, rec.Answer))
	}
	if len(rolesView) > 12 {
		rolesView = append(rolesView[:12], fmt.Sprintf("… %d probes", len(d.Roles())))
	}
	arr := d.Arrivals()
	for _, a := range arr {
		arrView = append(arrView, fmt.Sprintf("%d:%s %s@%s#%d", a.Seq, a.Argv[0], a.Argv[1], a.Node[len(a.Node)-4:], a.Conn))
	}
	if len(arrView) > 12 {
		arrView = append(arrView[:12], "…")
	}
	res.Obs = map[string]any{"x": x, "after-step": map[string]string{"set": m1, "get": r1}, "followed": followed, "probes": rolesView, "arrivals": arrView}
	// ---- direct oracle ----
	roles := d.Roles()
	for _, a := range arr {
		// judged: the traffic of steps 1 and 4, sent when the client is known to have handled the replies to its
		// probes. The polling traffic of step 5 runs concurrently with the client's probes — a command written just
		// before the reply to a failing probe is handled legitimately arrives after that probe — and is only used
		// for the follow check.
		if len(a.Argv) < 2 || (a.Argv[1] != "k1" && a.Argv[1] != "k2") {
			continue
		}
		need := "master"
		if x.Str && a.Argv[0] == "GET" {
			need = "slave"
		}
		// the probe that vouches for a connection is the latest ROLE asked on that very connection (the reuse path
		// probes the installed connection; a fresh connection is probed before it is installed). A node can be
		// probed on other connections meanwhile, e.g. as a replica candidate.
		last := ""
		var lastSeq int64
		for _, rec := range roles {
			if rec.Node == a.Node && rec.Conn == a.Conn && rec.Seq < a.Seq {
				last, lastSeq = rec.Answer, rec.Seq
			}
		}
		if last == "" {
			continue // a connection the client never probed (reconnect inside the multiplexer): not this oracle's business
		}
		if last != need && res.Oracle == "" {
			res.Oracle = fmt.Sprintf("%s %s reached %s (arrival %d) although the latest answer to the client's ROLE probe on that connection (at %d) was %q, not %q: "+
				"a connection whose role check failed must not carry user traffic (history: change=%s trigger=%s)", a.Argv[0], a.Argv[1], a.Node, a.Seq, lastSeq, last, need, x.Change, x.Trigger)
			res.Class = "traffic-after-failed-role-check"
		}
	}
	if followed != C && res.Oracle == "" {
		res.Oracle, res.Class = fmt.Sprintf("the sentinel reports %s as master and it answers ROLE with master, but SET still arrives on %q after 20 s", C, followed), "switch-not-followed"
	}
	return
}
